/-
  C15 — the tree-level evaluator (Model/Eval.lean) seen through the dirtiness abstraction (Model/DirtyPass.lean).

    * `CacheObs ci`   two Boolean observers `fin` / `meas` of a cache implementation with the laws the abstraction needs
                      (a hit in PerformLayout mode needs `fin`, in ComputeSize mode `meas`; `store` sets the flag of its
                      mode and leaves the other; `clear` resets both), relative to a cache invariant `ok` that `store` and
                      `clear` preserve and the empty cache satisfies;
    * `absFT`         style tree × node states ↦ rose tree of flags (children zipped);
    * `Calm`          a program issues no hidden-mode query and no ComputeSize query to a `display:none` child;
    * `runProg_ref`   running a calm program against the children IS a scripted phase `DirtyPass.steps` (the stream is
                      built alongside: `step i m` followed by the child's own stream, per query);
    * `eval_ref`      `evalNodeWith … fuel` refines `DirtyPass.visit fuel` for every fuel: the stream of a node is
                      `hit` | `miss` (hidden node) | `miss, steps…, hit × #children (PerformLayout only), done, done`,
                      and it is self-delimiting (`∀ rest`, the visit consumes exactly the node's own part).
  The property theorems are in Props/C15Refine.lean.
-/
import TaffyVerif.Lemmas.EvalUnfold
import TaffyVerif.Lemmas.EvalQuiet
import TaffyVerif.Model.DirtyPass

set_option autoImplicit false
set_option linter.unusedSectionVars false
set_option linter.unusedVariables false

namespace EvalDirty
open Eval DirtyPass Gen.Facts
variable {α : Type} [Num α] {C : Type}

/-! ### observers of a cache implementation -/

/-- the run mode of a dirtiness-level visit -/
def runOf : Mode → RunMode
  | .L => .performLayout
  | .S => .computeSize

/-- two Boolean observers of a cache (`fin`: a final-layout entry is present; `meas`: a measure entry is present) and
the laws relating them to `get` / `store` / `clear`, under an invariant `ok` of the cache value -/
structure CacheObs (ci : CacheImpl α C) where
  fin : C → Bool
  meas : C → Bool
  ok : C → Prop
  ok_empty : ok ci.empty
  empty_flags : fin ci.empty = false ∧ meas ci.empty = false
  ok_store : ∀ c i o, ok c → ok (ci.store c i o)
  ok_clear : ∀ c, ok c → ok (ci.clear c)
  get_L : ∀ c i o, ok c → i.runMode = .performLayout → ci.get c i = some o → fin c = true
  get_S : ∀ c i o, ok c → i.runMode = .computeSize → ci.get c i = some o → meas c = true
  store_L : ∀ c i o, ok c → i.runMode = .performLayout →
    fin (ci.store c i o) = true ∧ meas (ci.store c i o) = meas c
  store_S : ∀ c i o, ok c → i.runMode = .computeSize →
    meas (ci.store c i o) = true ∧ fin (ci.store c i o) = fin c
  clear_flags : ∀ c, ok c → fin (ci.clear c) = false ∧ meas (ci.clear c) = false

variable {ci : CacheImpl α C} (ob : CacheObs ci)

/-! ### the abstraction -/

mutual
/-- the flags of a style tree in a state: `hidden` = `display:none`, `fin` / `meas` = the cache observers -/
def absFT : STree α → NS α C → FT
  | .node s _ kids, .mk c _ nk => .node s.isHidden (ob.fin c) (ob.meas c) (absList kids nk)
def absList : List (STree α) → List (NS α C) → List FT
  | t :: ts, k :: ks => absFT t k :: absList ts ks
  | _, _ => []
end

mutual
/-- every cache of the state satisfies the cache invariant -/
def OK : NS α C → Prop
  | .mk c _ kids => ob.ok c ∧ OKList kids
def OKList : List (NS α C) → Prop
  | [] => True
  | k :: ks => OK k ∧ OKList ks
end

theorem absFT_hidden (t : STree α) (ns : NS α C) : (absFT ob t ns).hidden = t.style.isHidden := by
  cases t; cases ns; rfl

theorem absFT_fin (t : STree α) (ns : NS α C) : (absFT ob t ns).fin = ob.fin ns.cache := by
  cases t; cases ns; rfl

theorem absList_get : ∀ (kids : List (STree α)) (ks : List (NS α C)) (i : Nat),
    (absList ob kids ks)[i]? =
      match kids[i]?, ks[i]? with
      | some t, some k => some (absFT ob t k)
      | _, _ => none
  | [], ks, i => by simp [absList]
  | t :: ts, [], i => by
    simp only [absList, List.getElem?_nil]
    cases (t :: ts)[i]? <;> rfl
  | t :: ts, k :: ks, 0 => by simp [absList]
  | t :: ts, k :: ks, i + 1 => by
    simp only [absList, List.getElem?_cons_succ]
    exact absList_get ts ks i

theorem absList_get_some (kids : List (STree α)) (ks : List (NS α C)) (i : Nat) (t : STree α) (k : NS α C)
    (h1 : kids[i]? = some t) (h2 : ks[i]? = some k) : (absList ob kids ks)[i]? = some (absFT ob t k) := by
  rw [absList_get, h1, h2]

theorem absList_set : ∀ (kids : List (STree α)) (ks : List (NS α C)) (i : Nat) (t : STree α) (k' : NS α C),
    kids[i]? = some t → absList ob kids (ks.set i k') = (absList ob kids ks).set i (absFT ob t k')
  | [], ks, i, t, k', h => by simp at h
  | a :: as, [], i, t, k', h => by simp [absList]
  | a :: as, b :: bs, 0, t, k', h => by
    simp only [List.getElem?_cons_zero, Option.some.injEq] at h
    subst h
    simp [absList]
  | a :: as, b :: bs, i + 1, t, k', h => by
    simp only [List.getElem?_cons_succ] at h
    simp only [List.set_cons_succ, absList]
    rw [absList_set as bs i t k' h]

theorem absList_setLayoutAt (kids : List (STree α)) (ks : List (NS α C)) (i : Nat) (l : Layout α) :
    absList ob kids (setLayoutAt ks i l) = absList ob kids ks := by
  unfold setLayoutAt
  cases hk : ks[i]? with
  | none => rfl
  | some k =>
    cases k with
    | mk c l0 nk =>
      simp only
      cases ht : kids[i]? with
      | none =>
        -- no style-tree child at `i`: the zip does not reach `i`
        apply List.ext_getElem?
        intro j
        rw [absList_get, absList_get]
        by_cases hj : j = i
        · subst hj; rw [ht]
        · rw [List.getElem?_set_ne (Ne.symm hj)]
      | some t =>
        rw [absList_set ob kids ks i t _ ht]
        apply List.ext_getElem?
        intro j
        by_cases hj : j = i
        · subst hj
          rw [List.getElem?_set_self', absList_get_some ob kids ks j t _ ht hk]
          cases t; rfl
        · rw [List.getElem?_set_ne (Ne.symm hj)]

mutual
theorem abs_hidden : ∀ (t : STree α) (ns : NS α C), OK ob ns →
    absFT ob t (hiddenLayout ci ns) = hvisit (absFT ob t ns)
  | .node s _ kids, .mk c _ nk, h => by
    simp only [OK] at h
    obtain ⟨e1, e2⟩ := ob.clear_flags c h.1
    simp only [hiddenLayout, absFT, hvisit, e1, e2]
    rw [absList_hidden kids nk h.2]
theorem absList_hidden : ∀ (kids : List (STree α)) (ks : List (NS α C)), OKList ob ks →
    absList ob kids (hiddenLayoutList ci ks) = hvisitList (absList ob kids ks)
  | [], ks, _ => by simp [absList, hvisitList]
  | t :: ts, [], _ => by simp [absList, hvisitList, hiddenLayoutList]
  | t :: ts, k :: ks, h => by
    simp only [OKList] at h
    simp only [hiddenLayoutList, absList, hvisitList]
    rw [abs_hidden t k h.1, absList_hidden ts ks h.2]
end

/-! ### the cache invariant on state trees -/

theorem OKList_get : ∀ (ks : List (NS α C)) (i : Nat) (k : NS α C), OKList ob ks → ks[i]? = some k → OK ob k
  | [], _, _, _, h => by simp at h
  | a :: as, 0, k, hv, h => by
    simp only [List.getElem?_cons_zero, Option.some.injEq] at h
    subst h; exact hv.1
  | a :: as, i + 1, k, hv, h => by
    simp only [List.getElem?_cons_succ] at h
    exact OKList_get as i k hv.2 h

theorem OKList_set : ∀ (ks : List (NS α C)) (i : Nat) (k' : NS α C), OKList ob ks → OK ob k' → OKList ob (ks.set i k')
  | [], _, _, _, _ => by simp [OKList]
  | a :: as, 0, k', hv, h => by simp only [List.set_cons_zero, OKList]; exact ⟨h, hv.2⟩
  | a :: as, i + 1, k', hv, h => by
    simp only [List.set_cons_succ, OKList]
    exact ⟨hv.1, OKList_set as i k' hv.2 h⟩

theorem OKList_setLayoutAt (ks : List (NS α C)) (i : Nat) (l : Layout α) (hv : OKList ob ks) :
    OKList ob (setLayoutAt ks i l) := by
  unfold setLayoutAt
  cases hk : ks[i]? with
  | none => exact hv
  | some k =>
    cases k with
    | mk c l0 nk =>
      simp only
      apply OKList_set ob ks i _ hv
      have := OKList_get ob ks i _ hv hk
      simp only [OK] at this ⊢
      exact this

mutual
theorem OK_hidden : ∀ (ns : NS α C), OK ob ns → OK ob (hiddenLayout ci ns)
  | .mk c _ nk, h => by
    simp only [OK] at h
    simp only [hiddenLayout, OK]
    exact ⟨ob.ok_clear c h.1, OKList_hidden nk h.2⟩
theorem OKList_hidden : ∀ (ks : List (NS α C)), OKList ob ks → OKList ob (hiddenLayoutList ci ks)
  | [], _ => by simp [hiddenLayoutList, OKList]
  | k :: ks, h => by
    simp only [OKList] at h
    simp only [hiddenLayoutList, OKList]
    exact ⟨OK_hidden k h.1, OKList_hidden ks h.2⟩
end

mutual
theorem OK_init : ∀ (t : STree α), OK ob (NS.init ci t)
  | .node _ _ kids => by
    simp only [NS.init, OK]
    exact ⟨ob.ok_empty, OKList_init kids⟩
theorem OKList_init : ∀ (ts : List (STree α)), OKList ob (NS.initList ci ts)
  | [] => by simp [NS.initList, OKList]
  | t :: ts => by
    simp only [NS.initList, OKList]
    exact ⟨OK_init t, OKList_init ts⟩
end

/-- `store` seen through the observers is `DirtyPass.store` -/
theorem abs_store (m : Mode) (h : Bool) (c : C) (inp : LayoutInput α) (o : LayoutOutput α) (K : List FT)
    (hok : ob.ok c) (hm : inp.runMode = runOf m) :
    FT.node h (ob.fin (ci.store c inp o)) (ob.meas (ci.store c inp o)) K =
      DirtyPass.store m (.node h (ob.fin c) (ob.meas c) K) := by
  cases m with
  | L =>
    obtain ⟨e1, e2⟩ := ob.store_L c inp o hok hm
    simp only [DirtyPass.store, e1, e2]
  | S =>
    obtain ⟨e1, e2⟩ := ob.store_S c inp o hok hm
    simp only [DirtyPass.store, e1, e2]

/-! ### the `DirtyPass` side -/

/-- the head of the stream is not a `step` (so a scripted phase stops here) -/
def NoStepHead : List Choice → Prop
  | .step _ _ :: _ => False
  | _ => True

theorem steps_nostep (vf : Mode → FT → List Choice → FT × List Choice) (kids : List FT) (cs : List Choice)
    (h : NoStepHead cs) : steps vf kids cs = (kids, cs) := by
  cases cs with
  | nil => unfold steps; rfl
  | cons c cs =>
    cases c with
    | step i m => exact h.elim
    | hit => unfold steps; rfl
    | miss => unfold steps; rfl
    | done => unfold steps; rfl

theorem steps_skip (vf : Mode → FT → List Choice → FT × List Choice) (kids : List FT) (i : Nat) (m : Mode)
    (cs : List Choice) (h : kids[i]? = none) : steps vf kids (.step i m :: cs) = steps vf kids cs := by
  rw [steps]
  simp only [h]

theorem steps_visit (vf : Mode → FT → List Choice → FT × List Choice) (kids : List FT) (i : Nat) (m : Mode)
    (cs cs' : List Choice) (k k' : FT) (h : kids[i]? = some k) (hh : ¬ (m = .S ∧ k.hidden = true))
    (hv : vf m k cs = (k', cs')) (hl : cs'.length ≤ cs.length) :
    steps vf kids (.step i m :: cs) = steps vf (kids.set i k') cs' := by
  rw [steps]
  simp only [h, hh, if_false, hv, hl, if_true]

theorem visit_hit (fuel : Nat) (m : Mode) (t : FT) (rest : List Choice) (h : canHit m t = true) :
    visit (fuel + 1) m t (.hit :: rest) = (t, rest) := by
  simp [visit, h]

theorem visit_miss_hidden (fuel : Nat) (m : Mode) (f ms : Bool) (K : List FT) (rest : List Choice) :
    visit (fuel + 1) m (.node true f ms K) (.miss :: rest) =
      (DirtyPass.store m (.node true false false (hvisitList K)), rest) := by
  simp [visit, dropDecision]

theorem visit_miss_box (fuel : Nat) (m : Mode) (f ms : Bool) (K : List FT) (rest : List Choice) :
    visit (fuel + 1) m (.node false f ms K) (.miss :: rest) =
      (DirtyPass.store m (.node false f ms (recompute (visit fuel) m K rest).1), (recompute (visit fuel) m K rest).2) := by
  simp [visit, dropDecision]

theorem visitAllL_id (vf : Mode → FT → List Choice → FT × List Choice) (h : ∀ m k cs, vf m k cs = (k, cs)) :
    ∀ (K : List FT) (cs : List Choice), visitAllL vf K cs = (K, cs)
  | [], cs => rfl
  | k :: ks, cs => by
    simp only [visitAllL, h]
    rw [visitAllL_id vf h ks cs]

theorem visit_zero (m : Mode) (t : FT) (cs : List Choice) : visit 0 m t cs = (t, cs) := by
  simp only [visit]

theorem visitAllL_zero (K : List FT) (cs : List Choice) : visitAllL (visit 0) K cs = (K, cs) :=
  visitAllL_id (visit 0) visit_zero K cs

theorem visitAllL_hits (fuel : Nat) : ∀ (K : List FT) (rest : List Choice), (∀ k ∈ K, k.fin = true) →
    visitAllL (visit (fuel + 1)) K (List.replicate K.length .hit ++ rest) = (K, rest)
  | [], rest, _ => rfl
  | k :: ks, rest, h => by
    have hk : canHit .L k = true := by simpa [canHit] using h k List.mem_cons_self
    simp only [List.length_cons, List.replicate_succ, List.cons_append, visitAllL]
    rw [visit_hit fuel .L k _ hk]
    simp only
    rw [visitAllL_hits fuel ks rest fun k' hk' => h k' (List.mem_cons_of_mem _ hk')]

/-- the script of a recomputed box-generating node: scripted visits `S1`, the final phase answered by `F`, and the two
`done` markers -/
theorem recompute_script (vf : Mode → FT → List Choice → FT × List Choice) (m : Mode) (K K' : List FT)
    (S1 F rest : List Choice)
    (h1 : steps vf K (S1 ++ (F ++ .done :: .done :: rest)) = (K', F ++ .done :: .done :: rest))
    (h2 : finalPhase vf m K' (F ++ .done :: .done :: rest) = (K', .done :: .done :: rest)) :
    recompute vf m K (S1 ++ (F ++ .done :: .done :: rest)) = (K', rest) := by
  unfold recompute
  simp only [h1, h2, dropDone]
  rw [steps_nostep vf K' (.done :: rest) trivial]

/-! ### calm programs -/

/-- **Calm**: the program issues no hidden-mode query, and no ComputeSize query to a `display:none` child (all three
container algorithms filter `display:none` children out of their item lists and only `perform_child_layout` them) -/
def Calm {β : Type} (styles : List (Style α)) : ProgM α β → Prop
  | .pure _ => True
  | .call i inp k => inp.runMode ≠ .performHiddenLayout ∧
      (inp.runMode = .computeSize → ∀ s, styles[i]? = some s → s.isHidden = false) ∧ ∀ o, Calm styles (k o)
  | .setLayout _ _ k => Calm styles (k ())

/-- all three container programs of a bundle are calm, on every non-hidden input -/
def AlgsCalm (algs : Algs α) : Prop :=
  ∀ (style : Style α) (styles : List (Style α)) (inp : LayoutInput α), inp.runMode ≠ .performHiddenLayout →
    Calm styles (algs.block style styles inp) ∧ Calm styles (algs.flex style styles inp) ∧
    Calm styles (algs.grid style styles inp)

theorem mode_cases (r : RunMode) (h : r ≠ .performHiddenLayout) : ∃ m, r = runOf m := by
  cases r with
  | performLayout => exact ⟨.L, rfl⟩
  | computeSize => exact ⟨.S, rfl⟩
  | performHiddenLayout => exact absurd rfl h

theorem runOf_not_hidden (m : Mode) : (runOf m == RunMode.performHiddenLayout) = false := by
  cases m <;> rfl

/-! ### the refinement contract and the scripted phase -/

/-- the contract between an evaluator `ev` of subtrees and a visit function `vf`: on states whose caches are `ok`, for
every non-hidden run mode, `ev` keeps the caches `ok`, a live PerformLayout evaluation leaves a final entry, and there is
a stream — the node's own, whatever follows it — on which `vf` produces exactly the flags `ev` leaves -/
def Ref (live : Prop) (ev : STree α → NS α C → LayoutInput α → LayoutOutput α × NS α C)
    (vf : Mode → FT → List Choice → FT × List Choice) : Prop :=
  ∀ (t : STree α) (ns : NS α C) (inp : LayoutInput α) (m : Mode), inp.runMode = runOf m → OK ob ns →
    OK ob (ev t ns inp).2 ∧ (live → m = .L → ob.fin (ev t ns inp).2.cache = true) ∧
    ∃ cs, ∀ rest, vf m (absFT ob t ns) (cs ++ rest) = (absFT ob t (ev t ns inp).2, rest)

/-- children whose last query was a PerformLayout query have a final entry -/
def FinInv (strict : Nat → Bool) (kids : List (STree α)) (ks : List (NS α C)) : Prop :=
  ∀ i t k, kids[i]? = some t → ks[i]? = some k → strict i = true → ob.fin k.cache = true

theorem setLayoutAt_get_ne' (ks : List (NS α C)) (i j : Nat) (l : Layout α) (h : j ≠ i) :
    (setLayoutAt ks i l)[j]? = ks[j]? := by
  unfold setLayoutAt
  cases hk : ks[i]? with
  | none => rfl
  | some k =>
    cases k with
    | mk c l0 nk =>
      simp only
      rw [List.getElem?_set_ne (Ne.symm h)]

/-- `set_unrounded_layout` does not touch the cache -/
theorem setLayoutAt_get_cache (ks : List (NS α C)) (i : Nat) (l : Layout α) (a : NS α C)
    (h : (setLayoutAt ks i l)[i]? = some a) : ∃ k, ks[i]? = some k ∧ a.cache = k.cache := by
  unfold setLayoutAt at h
  cases hk : ks[i]? with
  | none => rw [hk] at h; simp only at h; rw [hk] at h; cases h
  | some k =>
    cases k with
    | mk c l0 nk =>
      rw [hk] at h
      simp only at h
      rw [List.getElem?_set_self', hk] at h
      simp only [Option.map_eq_map, Option.map_some, Function.const, Option.some.injEq] at h
      subst h
      exact ⟨_, rfl, rfl⟩

theorem evalChildOf_some (ev : STree α → NS α C → LayoutInput α → LayoutOutput α × NS α C) (kids : List (STree α))
    (i : Nat) (cin : LayoutInput α) (ks : List (NS α C)) (t : STree α) (k : NS α C)
    (h1 : kids[i]? = some t) (h2 : ks[i]? = some k) :
    evalChildOf ev kids i cin ks = ((ev t k cin).1, ks.set i (ev t k cin).2) := by
  unfold evalChildOf; rw [h1, h2]

theorem evalChildOf_none (ev : STree α → NS α C → LayoutInput α → LayoutOutput α × NS α C) (kids : List (STree α))
    (i : Nat) (cin : LayoutInput α) (ks : List (NS α C)) (h : kids[i]? = none ∨ ks[i]? = none) :
    evalChildOf ev kids i cin ks = (LayoutOutput.hidden, ks) := by
  unfold evalChildOf
  rcases h with h | h
  · rw [h]
  · rw [h]; cases kids[i]? <;> rfl

/-- **runProg_ref**: running a calm program against the children is a scripted phase of the dirtiness pass -/
theorem runProg_ref {β : Type} (live : Prop) (ev : STree α → NS α C → LayoutInput α → LayoutOutput α × NS α C)
    (vf : Mode → FT → List Choice → FT × List Choice) (hev : Ref ob live ev vf) (kids : List (STree α))
    (p : ProgM α β) :
    ∀ (ks : List (NS α C)) (own strict : Nat → Bool), Calm (kids.map STree.style) p → OKList ob ks →
      (live → FinInv ob strict kids ks) →
      OKList ob (runProg (evalChildOf ev kids) p ks).2 ∧
      (live → ∀ n, EvalMemo.Covers n own strict p → ∀ i t k, i < n → kids[i]? = some t →
        (runProg (evalChildOf ev kids) p ks).2[i]? = some k → ob.fin k.cache = true) ∧
      ∃ cs, ∀ rest, NoStepHead rest →
        steps vf (absList ob kids ks) (cs ++ rest) = (absList ob kids (runProg (evalChildOf ev kids) p ks).2, rest) := by
  induction p with
  | pure b =>
    intro ks own strict _ hok hfin
    refine ⟨hok, ?_, [], fun rest hr => ?_⟩
    · intro hl n hc i t k hi h1 h2
      simp only [EvalMemo.Covers] at hc
      simp only [runProg] at h2
      exact hfin hl i t k h1 h2 (hc i hi).2
    · simp only [runProg, List.nil_append]
      exact steps_nostep vf _ rest hr
  | call i inp k ih =>
    intro ks own strict hcalm hok hfin
    simp only [Calm] at hcalm
    obtain ⟨hnh, hvis, hk⟩ := hcalm
    simp only [runProg]
    cases h1 : kids[i]? with
    | none =>
      rw [evalChildOf_none ev kids i inp ks (Or.inl h1)]
      simp only
      have hfin' : live → FinInv ob (EvalMemo.upd strict i (inp.runMode != .computeSize)) kids ks := by
        intro hl j t kk g1 g2 g3
        by_cases hj : j = i
        · subst hj; rw [h1] at g1; cases g1
        · simp only [EvalMemo.upd, hj, if_false] at g3
          exact hfin hl j t kk g1 g2 g3
      obtain ⟨r1, r2, cs, r3⟩ := ih LayoutOutput.hidden ks
        (EvalMemo.upd own i (inp.runMode == .performHiddenLayout)) _ (hk _) hok hfin'
      refine ⟨r1, ?_, cs, r3⟩
      intro hl n hc
      simp only [EvalMemo.Covers] at hc
      exact r2 hl n (hc _)
    | some t =>
      cases h2 : ks[i]? with
      | none =>
        rw [evalChildOf_none ev kids i inp ks (Or.inr h2)]
        simp only
        have hfin' : live → FinInv ob (EvalMemo.upd strict i (inp.runMode != .computeSize)) kids ks := by
          intro hl j t' kk g1 g2 g3
          by_cases hj : j = i
          · subst hj; rw [h2] at g2; cases g2
          · simp only [EvalMemo.upd, hj, if_false] at g3
            exact hfin hl j t' kk g1 g2 g3
        obtain ⟨r1, r2, cs, r3⟩ := ih LayoutOutput.hidden ks
          (EvalMemo.upd own i (inp.runMode == .performHiddenLayout)) _ (hk _) hok hfin'
        refine ⟨r1, ?_, cs, r3⟩
        intro hl n hc
        simp only [EvalMemo.Covers] at hc
        exact r2 hl n (hc _)
      | some kk =>
        rw [evalChildOf_some ev kids i inp ks t kk h1 h2]
        simp only
        obtain ⟨m, hm⟩ := mode_cases inp.runMode hnh
        obtain ⟨e1, e2, csC, e3⟩ := hev t kk inp m hm (OKList_get ob ks i kk hok h2)
        have hok' : OKList ob (ks.set i (ev t kk inp).2) := OKList_set ob ks i _ hok e1
        have hfin' : live → FinInv ob (EvalMemo.upd strict i (inp.runMode != .computeSize)) kids
            (ks.set i (ev t kk inp).2) := by
          intro hl j t' k' g1 g2 g3
          by_cases hj : j = i
          · subst hj
            rw [List.getElem?_set_self', h2] at g2
            simp only [Option.map_eq_map, Option.map_some, Function.const, Option.some.injEq] at g2
            subst g2
            simp only [EvalMemo.upd, if_true] at g3
            apply e2 hl
            cases m with
            | L => rfl
            | S => rw [hm] at g3; exact absurd g3 (by decide)
          · rw [List.getElem?_set_ne (Ne.symm hj)] at g2
            simp only [EvalMemo.upd, hj, if_false] at g3
            exact hfin hl j t' k' g1 g2 g3
        obtain ⟨r1, r2, csK, r3⟩ := ih (ev t kk inp).1 (ks.set i (ev t kk inp).2)
          (EvalMemo.upd own i (inp.runMode == .performHiddenLayout)) _ (hk _) hok' hfin'
        refine ⟨r1, ?_, .step i m :: (csC ++ csK), fun rest hr => ?_⟩
        · intro hl n hc
          simp only [EvalMemo.Covers] at hc
          exact r2 hl n (hc _)
        · have hh : ¬ (m = .S ∧ (absFT ob t kk).hidden = true) := by
            rintro ⟨hmS, hhid⟩
            subst hmS
            rw [absFT_hidden] at hhid
            have := hvis hm t.style (by simp only [List.getElem?_map, h1, Option.map_some])
            rw [this] at hhid
            exact absurd hhid (by decide)
          have hv := e3 (csK ++ rest)
          rw [List.cons_append, List.append_assoc]
          rw [steps_visit vf _ i m _ _ _ _ (absList_get_some ob kids ks i t kk h1 h2) hh hv (by simp)]
          rw [← absList_set ob kids ks i t _ h1]
          exact r3 rest hr
  | setLayout i l k ih =>
    intro ks own strict hcalm hok hfin
    simp only [Calm] at hcalm
    simp only [runProg]
    have hfin' : live → FinInv ob strict kids (setLayoutAt ks i l) := by
      intro hl j t kk g1 g2 g3
      by_cases hj : j = i
      · subst hj
        obtain ⟨k0, g4, hc⟩ := setLayoutAt_get_cache ks j l kk g2
        rw [hc]
        exact hfin hl j t k0 g1 g4 g3
      · rw [setLayoutAt_get_ne' ks i j l hj] at g2
        exact hfin hl j t kk g1 g2 g3
    obtain ⟨r1, r2, cs, r3⟩ := ih () (setLayoutAt ks i l) (EvalMemo.upd own i true) strict hcalm
      (OKList_setLayoutAt ob ks i l hok) hfin'
    refine ⟨r1, ?_, cs, fun rest hr => ?_⟩
    · intro hl n hc
      simp only [EvalMemo.Covers] at hc
      exact r2 hl n hc
    · have := r3 rest hr
      rwa [absList_setLayoutAt] at this


/-! ### the final-layout phase of a recomputed node is answered by hits -/

/-- the answers to the final-layout phase: one `hit` per child in PerformLayout mode (when the children are evaluated at
all), nothing otherwise -/
def finalHits (fuel : Nat) (m : Mode) (n : Nat) : List Choice :=
  match fuel, m with
  | _ + 1, .L => List.replicate n .hit
  | _, _ => []

theorem finalHits_nostep (fuel : Nat) (m : Mode) (n : Nat) (X : List Choice) :
    NoStepHead (finalHits fuel m n ++ .done :: X) := by
  cases fuel with
  | zero => cases m <;> trivial
  | succ f =>
    cases m with
    | S => trivial
    | L =>
      cases n with
      | zero => trivial
      | succ n => simp only [finalHits, List.replicate_succ, List.cons_append]; trivial

theorem finalPhase_hits (fuel : Nat) (m : Mode) (K : List FT) (X : List Choice)
    (hfin : fuel ≠ 0 → m = .L → ∀ k ∈ K, k.fin = true) :
    finalPhase (visit fuel) m K (finalHits fuel m K.length ++ X) = (K, X) := by
  cases m with
  | S => cases fuel <;> rfl
  | L =>
    cases fuel with
    | zero => simp only [finalPhase, finalHits, List.nil_append]; exact visitAllL_zero K X
    | succ f =>
      simp only [finalPhase, finalHits]
      exact visitAllL_hits f K X (hfin (by omega) rfl)

/-- **prog_ref**: running a calm program that (in PerformLayout mode) covers its children, against the children, is a
`recompute` of the dirtiness pass: scripted visits, final phase answered by hits, `done`, `done` -/
theorem prog_ref (fuel : Nat) (ev : STree α → NS α C → LayoutInput α → LayoutOutput α × NS α C)
    (hev : Ref ob (fuel ≠ 0) ev (visit fuel)) (kids : List (STree α)) (nk : List (NS α C))
    (p : ProgM α (LayoutOutput α)) (m : Mode) (hcalm : Calm (kids.map STree.style) p)
    (hcov : m = .L → EvalMemo.Covers kids.length (fun _ => false) (fun _ => false) p) (hok : OKList ob nk) :
    OKList ob (runProg (evalChildOf ev kids) p nk).2 ∧
    ∃ cs, ∀ rest, recompute (visit fuel) m (absList ob kids nk) (cs ++ rest) =
      (absList ob kids (runProg (evalChildOf ev kids) p nk).2, rest) := by
  obtain ⟨r1, r2, S1, r3⟩ := runProg_ref ob (fuel ≠ 0) ev (visit fuel) hev kids p nk (fun _ => false) (fun _ => false)
    hcalm hok (fun _ i t k _ _ h => by cases h)
  refine ⟨r1, S1 ++ (finalHits fuel m (absList ob kids (runProg (evalChildOf ev kids) p nk).2).length ++ [.done, .done]),
    fun rest => ?_⟩
  have e : S1 ++ (finalHits fuel m (absList ob kids (runProg (evalChildOf ev kids) p nk).2).length ++ [.done, .done]) ++ rest =
      S1 ++ (finalHits fuel m (absList ob kids (runProg (evalChildOf ev kids) p nk).2).length ++ .done :: .done :: rest) := by
    simp only [List.append_assoc, List.cons_append, List.nil_append]
  rw [e]
  apply recompute_script
  · exact r3 _ (finalHits_nostep fuel m _ _)
  · apply finalPhase_hits
    intro hl hm x hx
    obtain ⟨i, hi⟩ := List.getElem?_of_mem hx
    rw [absList_get] at hi
    cases h1 : kids[i]? with
    | none => rw [h1] at hi; cases hi
    | some t =>
      cases h2 : (runProg (evalChildOf ev kids) p nk).2[i]? with
      | none => rw [h1, h2] at hi; cases hi
      | some k =>
        rw [h1, h2] at hi
        simp only [Option.some.injEq] at hi
        subst hi
        rw [absFT_fin]
        have hlt : i < kids.length := by
          rcases Nat.lt_or_ge i kids.length with h | h
          · exact h
          · rw [List.getElem?_eq_none_iff.mpr h] at h1; cases h1
        exact r2 hl kids.length (hcov hm) i t k hlt h1 h2

/-! ### one node -/

/-- the dispatch sends `display:none` — and nothing else — to `compute_hidden_layout` -/
def SelHidden (sel : Display → Bool → Option Callee) : Prop :=
  (∀ b, sel .none b = some .hidden) ∧ ∀ d b, sel d b = some .hidden → d = .none

theorem isHidden_true_iff (s : Style α) : s.isHidden = true ↔ s.display = .none := by
  unfold Style.isHidden
  cases s.display <;> decide

theorem isHidden_false_iff (s : Style α) : s.isHidden = false ↔ s.display ≠ .none := by
  unfold Style.isHidden
  cases s.display <;> decide

/-- the node after the final `store`, through the abstraction -/
theorem store_node (m : Mode) (inp : LayoutInput α) (hm : inp.runMode = runOf m) (style : Style α)
    (ctx : Option (MeasureSpec α)) (kids : List (STree α)) (c' : C) (hc' : ob.ok c') (o : LayoutOutput α)
    (l' : Layout α) (nk' : List (NS α C)) (hnk : OKList ob nk') :
    OK ob (NS.mk (ci.store c' inp o) l' nk') ∧ (m = .L → ob.fin (NS.mk (ci.store c' inp o) l' nk').cache = true) ∧
    absFT ob (.node style ctx kids) (NS.mk (ci.store c' inp o) l' nk') =
      DirtyPass.store m (.node style.isHidden (ob.fin c') (ob.meas c') (absList ob kids nk')) := by
  refine ⟨?_, ?_, ?_⟩
  · simp only [OK]; exact ⟨ob.ok_store c' inp o hc', hnk⟩
  · intro hL; subst hL
    exact (ob.store_L c' inp o hc' hm).1
  · simp only [absFT]
    exact abs_store ob m _ c' inp o _ hc' hm

/-- a box-generating node without children: the recompute script is `done, done` -/
theorem recompute_nil (fuel : Nat) (m : Mode) (rest : List Choice) :
    recompute (visit fuel) m [] ([.done, .done] ++ rest) = ([], rest) := by
  have := recompute_script (visit fuel) m [] [] [] [] rest (steps_nostep _ _ _ trivial) (by cases m <;> rfl)
  simpa using this

/-- the body of a node evaluation after a miss -/
theorem computeOf_ref (sel : Display → Bool → Option Callee) (algs : Algs α) (hsel : SelHidden sel)
    (hsok : EvalMemo.SelOK sel) (hcov : EvalMemo.PLCovers algs) (hcalm : AlgsCalm algs) (fuel : Nat)
    (ih : Ref ob (fuel ≠ 0) (evalNodeWith ci sel algs fuel) (visit fuel))
    (style : Style α) (ctx : Option (MeasureSpec α)) (kids : List (STree α)) (c : C) (l : Layout α)
    (nk : List (NS α C)) (inp : LayoutInput α) (m : Mode) (hm : inp.runMode = runOf m) (hc : ob.ok c)
    (hnk : OKList ob nk) :
    OK ob (storeOf ci inp (computeOf ci sel algs (evalNodeWith ci sel algs fuel) style ctx kids (.mk c l nk) inp)).2 ∧
    (m = .L → ob.fin (storeOf ci inp
      (computeOf ci sel algs (evalNodeWith ci sel algs fuel) style ctx kids (.mk c l nk) inp)).2.cache = true) ∧
    ∃ cs, ∀ rest, visit (fuel + 1) m (absFT ob (.node style ctx kids) (.mk c l nk)) (.miss :: (cs ++ rest)) =
      (absFT ob (.node style ctx kids)
        (storeOf ci inp (computeOf ci sel algs (evalNodeWith ci sel algs fuel) style ctx kids (.mk c l nk) inp)).2, rest) := by
  have hnh : inp.runMode ≠ .performHiddenLayout := by rw [hm]; cases m <;> decide
  -- a body that is not the hidden one belongs to a box-generating node
  have hvis : ∀ cl, sel style.display (!kids.isEmpty) = cl → cl ≠ some .hidden → style.isHidden = false := by
    intro cl h1 h2
    rw [isHidden_false_iff]
    intro hd
    rw [hd, hsel.1] at h1
    exact h2 h1.symm
  -- the leaf arm and the non-exhaustive arm are only reached without children
  have hnokids : ∀ cl, sel style.display (!kids.isEmpty) = cl → (cl = some .leaf ∨ cl = none) → kids = [] := by
    intro cl h1 h2
    cases kids with
    | nil => rfl
    | cons k ks =>
      simp only [List.isEmpty_cons, Bool.not_false] at h1
      rcases h2 with h2 | h2
      · rw [h2] at h1; exact absurd h1 (hsok style.display).1
      · rw [h2] at h1; exact absurd h1 (hsok style.display).2
  -- the three program arms share one proof
  have hprog : ∀ p : ProgM α (LayoutOutput α), Calm (kids.map STree.style) p →
      (m = .L → EvalMemo.Covers kids.length (fun _ => false) (fun _ => false) p) → style.isHidden = false →
      OK ob (storeOf ci inp (runOn (evalChildOf (evalNodeWith ci sel algs fuel) kids) (.mk c l nk) p)).2 ∧
      (m = .L → ob.fin (storeOf ci inp
        (runOn (evalChildOf (evalNodeWith ci sel algs fuel) kids) (.mk c l nk) p)).2.cache = true) ∧
      ∃ cs, ∀ rest, visit (fuel + 1) m (absFT ob (.node style ctx kids) (.mk c l nk)) (.miss :: (cs ++ rest)) =
        (absFT ob (.node style ctx kids)
          (storeOf ci inp (runOn (evalChildOf (evalNodeWith ci sel algs fuel) kids) (.mk c l nk) p)).2, rest) := by
    intro p hp hcv hh
    obtain ⟨r1, cs, r2⟩ := prog_ref ob fuel _ ih kids nk p m hp hcv hnk
    simp only [runOn, storeOf_mk]
    obtain ⟨s1, s2, s3⟩ := store_node ob m inp hm style ctx kids c hc
      (runProg (evalChildOf (evalNodeWith ci sel algs fuel) kids) p nk).1 l _ r1
    refine ⟨s1, s2, cs, fun rest => ?_⟩
    rw [s3, hh]
    simp only [absFT, hh]
    rw [visit_miss_box, r2 rest]
  have hlen : (kids.map STree.style).length = kids.length := List.length_map _
  unfold computeOf
  cases hs : sel style.display (!kids.isEmpty) with
  | none =>
    have hk := hnokids _ hs (Or.inr rfl)
    have hh := hvis _ hs (by simp)
    subst hk
    simp only [storeOf_mk]
    obtain ⟨s1, s2, s3⟩ := store_node ob m inp hm style ctx [] c hc LayoutOutput.hidden l nk hnk
    refine ⟨s1, s2, [.done, .done], fun rest => ?_⟩
    rw [s3]
    simp only [absFT, hh, absList]
    rw [visit_miss_box, recompute_nil]
  | some cl =>
    cases cl with
    | leaf =>
      have hk := hnokids _ hs (Or.inl rfl)
      have hh := hvis _ hs (by simp)
      subst hk
      simp only [storeOf_mk]
      obtain ⟨s1, s2, s3⟩ := store_node ob m inp hm style ctx [] c hc (algs.leaf inp style (measureOf ctx)) l nk hnk
      refine ⟨s1, s2, [.done, .done], fun rest => ?_⟩
      rw [s3]
      simp only [absFT, hh, absList]
      rw [visit_miss_box, recompute_nil]
    | hidden =>
      have hd := hsel.2 _ _ hs
      have hh : style.isHidden = true := (isHidden_true_iff style).2 hd
      simp only [hiddenLayout, storeOf_mk]
      obtain ⟨s1, s2, s3⟩ := store_node ob m inp hm style ctx kids (ci.clear c) (ob.ok_clear c hc) LayoutOutput.hidden
        (Layout.withOrder 0) (hiddenLayoutList ci nk) (OKList_hidden ob nk hnk)
      refine ⟨s1, s2, [], fun rest => ?_⟩
      rw [s3]
      obtain ⟨e1, e2⟩ := ob.clear_flags c hc
      simp only [absFT, hh, e1, e2, List.nil_append]
      rw [visit_miss_hidden, absList_hidden ob kids nk hnk]
    | block =>
      simp only
      exact hprog _ (hcalm style _ inp hnh).1 (fun hL => by
        have := (hcov style (kids.map STree.style) inp (by rw [hm, hL]; rfl)).1
        rwa [hlen] at this) (hvis _ hs (by simp))
    | flex =>
      simp only
      exact hprog _ (hcalm style _ inp hnh).2.1 (fun hL => by
        have := (hcov style (kids.map STree.style) inp (by rw [hm, hL]; rfl)).2.1
        rwa [hlen] at this) (hvis _ hs (by simp))
    | grid =>
      simp only
      exact hprog _ (hcalm style _ inp hnh).2.2 (fun hL => by
        have := (hcov style (kids.map STree.style) inp (by rw [hm, hL]; rfl)).2.2
        rwa [hlen] at this) (hvis _ hs (by simp))

/-- **eval_ref**: at every fuel, the evaluator refines the dirtiness visit of the same fuel -/
theorem eval_ref (sel : Display → Bool → Option Callee) (algs : Algs α) (hsel : SelHidden sel)
    (hsok : EvalMemo.SelOK sel) (hcov : EvalMemo.PLCovers algs) (hcalm : AlgsCalm algs) :
    ∀ fuel, Ref ob (fuel ≠ 0) (evalNodeWith ci sel algs fuel) (visit fuel) := by
  intro fuel
  induction fuel with
  | zero =>
    intro t ns inp m hm hok
    rw [eval_zero]
    refine ⟨hok, fun h => absurd rfl h, [], fun rest => ?_⟩
    simp only [List.nil_append, visit_zero]
  | succ fuel ih =>
    intro t ns inp m hm hok
    cases t with
    | node style ctx kids =>
      cases ns with
      | mk c l nk =>
        simp only [OK] at hok
        rw [eval_succ]
        have hmode : (inp.runMode == RunMode.performHiddenLayout) = false := by rw [hm]; exact runOf_not_hidden m
        simp only [hmode, Bool.false_eq_true, if_false, NS.cache]
        cases hg : ci.get c inp with
        | some out =>
          simp only
          refine ⟨by simp only [OK]; exact hok, fun _ hL => ?_, [.hit], fun rest => ?_⟩
          · subst hL; exact ob.get_L c inp out hok.1 hm hg
          · apply visit_hit
            cases m with
            | L => exact ob.get_L c inp out hok.1 hm hg
            | S => exact ob.get_S c inp out hok.1 hm hg
        | none =>
          simp only
          obtain ⟨r1, r2, cs, r3⟩ := computeOf_ref ob sel algs hsel hsok hcov hcalm fuel ih style ctx kids c l nk inp m hm
            hok.1 hok.2
          exact ⟨r1, fun _ => r2, .miss :: cs, fun rest => r3 rest⟩

end EvalDirty
