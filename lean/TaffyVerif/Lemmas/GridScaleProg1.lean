/-
  C04 for grid, part 7: the interaction programs around track sizing that contain no absolute constant —
  the contribution queries, `resolve_item_baselines`, the `min_content_contribution` re-check of step 7.
-/
import TaffyVerif.Lemmas.GridScalePure4
import TaffyVerif.Lemmas.GridBoxTop2

set_option linter.unusedSectionVars false
set_option linter.unusedVariables false
set_option linter.unusedSimpArgs false

namespace C04
open Scalable GridModel GridTracks GridStages

variable {k : Rat}

/-- "result scaled" -/
abbrev Sc (k : Rat) {β : Type} [Scalable β] : β → β → Prop := fun b' b => b' = scale k b

theorem contributionInput_scale (hk : 0 < k) (it : GItem Rat) (ax : Ax) (av ins : Size (Option Rat))
    (ind : AvailableSpace Rat) (hind : scale k ind = ind) :
    (scale k it).contributionInput ax (scale k av) (scale k ins) ind =
      scale k (it.contributionInput ax av ins ind) := by
  unfold GItem.contributionInput
  rw [gi_knownDimensions hk]
  simp only [scale_li_mk, scale_size_mk, scale_size_width, scale_size_height]
  congr 2
  · cases av.width <;> simp only [scale_simp, scale_option, Option.map, hind]
  · cases av.height <;> simp only [scale_simp, scale_option, Option.map, hind]

theorem minContentContribution_sim (hk : 0 < k) (it : GItem Rat) (ax : Ax) (av ins : Size (Option Rat)) :
    GSim k (Sc k) ((scale k it).minContentContribution ax (scale k av) (scale k ins))
      (it.minContentContribution ax av ins) := by
  unfold GItem.minContentContribution
  rw [contributionInput_scale hk it ax av ins _ rfl, gi_node]
  refine GSim.bind (GSim.call _ _) fun o' o ho => ?_
  rw [show o' = scale k o from ho]
  exact GSim.pure (by simp only [Sc, scale_simp])

theorem maxContentContribution_sim (hk : 0 < k) (it : GItem Rat) (ax : Ax) (av ins : Size (Option Rat)) :
    GSim k (Sc k) ((scale k it).maxContentContribution ax (scale k av) (scale k ins))
      (it.maxContentContribution ax av ins) := by
  unfold GItem.maxContentContribution
  rw [contributionInput_scale hk it ax av ins _ rfl, gi_node]
  refine GSim.bind (GSim.call _ _) fun o' o ho => ?_
  rw [show o' = scale k o from ho]
  exact GSim.pure (by simp only [Sc, scale_simp])

/-! ### item updates commute with scaling -/

theorem scale_setAvail (k : Rat) (it : GItem Rat) (v : Option (Size (Option Rat))) :
    ({ scale k it with availableSpaceCache := scale k v } : GItem Rat) = scale k { it with availableSpaceCache := v } := rfl
theorem scale_setMinC (k : Rat) (it : GItem Rat) (v : Size (Option Rat)) :
    ({ scale k it with minContentContributionCache := scale k v } : GItem Rat) =
      scale k { it with minContentContributionCache := v } := rfl
theorem scale_setMaxC (k : Rat) (it : GItem Rat) (v : Size (Option Rat)) :
    ({ scale k it with maxContentContributionCache := scale k v } : GItem Rat) =
      scale k { it with maxContentContributionCache := v } := rfl
theorem scale_setMinimumC (k : Rat) (it : GItem Rat) (v : Size (Option Rat)) :
    ({ scale k it with minimumContributionCache := scale k v } : GItem Rat) =
      scale k { it with minimumContributionCache := v } := rfl
theorem scale_setBaseline (k : Rat) (it : GItem Rat) (v : Option Rat) :
    ({ scale k it with baseline := scale k v } : GItem Rat) = scale k { it with baseline := v } := rfl
theorem scale_setShim (k : Rat) (it : GItem Rat) (v : Rat) :
    ({ scale k it with baselineShim := scale k v } : GItem Rat) = scale k { it with baselineShim := v } := rfl
theorem scale_setPos (k : Rat) (it : GItem Rat) (y h : Rat) :
    ({ scale k it with yPosition := scale k y, height := scale k h } : GItem Rat) =
      scale k { it with yPosition := y, height := h } := rfl

/-! ### `resolve_item_baselines` -/

/-- the input of the baseline query -/
def baselineInput (ins : Size (Option Rat)) : LayoutInput Rat :=
  { runMode := .performLayout, sizingMode := .inherentSize, axis := .both, knownDimensions := Size.none,
    parentSize := ins, availableSpace := ⟨.minContent, .minContent⟩,
    verticalMarginsAreCollapsible := ⟨false, false⟩ }

theorem baselineInput_scale (k : Rat) (ins : Size (Option Rat)) :
    baselineInput (scale k ins) = scale k (baselineInput ins) := rfl

theorem measureRowBaselines_sim (hk : 0 < k) (ins : Size (Option Rat)) : ∀ (items : List (GItem Rat)),
    GSim k (Sc k) (measureRowBaselines (scale k ins) (scale k items)) (measureRowBaselines ins items)
  | [] => GSim.pure rfl
  | it :: rest => by
    show GSim k _ (measureRowBaselines (scale k ins) (scale k it :: scale k rest)) _
    unfold measureRowBaselines
    show GSim k _ (GM.call (scale k it).node (baselineInput (scale k ins)) >>= _)
      (GM.call it.node (baselineInput ins) >>= _)
    rw [gi_node, baselineInput_scale]
    refine GSim.bind (GSim.call _ _) fun o' o ho => ?_
    rw [show o' = scale k o from ho]
    refine GSim.bind (measureRowBaselines_sim hk ins rest) fun r' r hr => ?_
    rw [show r' = scale k r from hr]
    refine GSim.pure ?_
    show _ = scale k _ :: scale k r
    congr 1
    rw [← scale_setBaseline]
    congr 1
    simp only [lo_firstBaselines, lo_size, scale_point_y, scale_size_height, gi_margin, scale_rect_top,
      scale_size_width]
    cases o.firstBaselines.y with
    | none => simp only [scale_none, Option.getD_none, LPA.resolveOrZero_scale, add_scale, scale_some]
    | some v => simp only [scale_some, Option.getD_some, LPA.resolveOrZero_scale, add_scale]

theorem brSplit_scale (k : Rat) (ax : Ax) (items : List (GItem Rat)) (row : Int) :
    GridRel.brSplit ax (scale k items) row = scale k (GridRel.brSplit ax items row) := by
  unfold GridRel.brSplit
  have hf : (scale k items).findIdx? (fun it => (it.placement ax.other).start != row) =
      items.findIdx? (fun it => (it.placement ax.other).start != row) := by
    rw [scale_list]
    induction items with
    | nil => rfl
    | cons a l ih => simp only [List.map_cons, List.findIdx?_cons, gi_placement, ih]
  rw [hf]
  cases items.findIdx? (fun it => (it.placement ax.other).start != row) with
  | some i => simp only [scale_pair, scale_list, List.map_take, List.map_drop]
  | none => rfl

theorem rat_totalLt (a b : Rat) : totalLt a b = Num.flt a b := by
  unfold totalLt
  cases h : Num.feq a 0 with
  | false => simp only [Bool.and_false, Bool.false_and, Bool.or_false]
  | true =>
    have ha : a = 0 := by
      rw [feq_def] at h
      exact of_decide_eq_true h
    subst ha
    simp [flt_def]

theorem totalLt_scale (hk : 0 < k) (a b : Rat) : totalLt (scale k a) (scale k b) = totalLt a b := by
  rw [rat_totalLt, rat_totalLt, flt_scale hk]

theorem maxByTotal_scale (hk : 0 < k) (l : List Rat) : maxByTotal (scale k l) = scale k (maxByTotal l) := by
  cases l with
  | nil => rfl
  | cons x rest =>
    show some ((scale k rest).foldl _ (scale k x)) = some (scale k (rest.foldl _ x))
    congr 1
    induction rest generalizing x with
    | nil => rfl
    | cons y ys ih =>
      show (scale k ys).foldl _ (if totalLt (scale k y) (scale k x) then scale k x else scale k y) = _
      rw [totalLt_scale hk, ite_scale]
      exact ih _

theorem brShim_scale (k : Rat) (m : Rat) (it : GItem Rat) :
    GridRel.brShim (scale k m) (scale k it) = scale k (GridRel.brShim m it) := by
  unfold GridRel.brShim
  rw [← scale_setShim]
  congr 1
  rw [gi_baseline]
  cases it.baseline <;> simp only [scale_simp, scale_option, Option.map, Option.getD]

theorem filter_length_scale (k : Rat) (l : List (GItem Rat)) (p : GItem Rat → Bool) (hp : ∀ a, p (scale k a) = p a) :
    ((scale k l).filter p).length = (l.filter p).length := by
  rw [scale_list, List.filter_map, List.length_map]
  congr 2
  funext a
  exact hp a

theorem baselineRows_sim (hk : 0 < k) (ax : Ax) (ins : Size (Option Rat)) :
    ∀ (fuel : Nat) (items : List (GItem Rat)),
      GSim k (Sc k) (baselineRows ax (scale k ins) fuel (scale k items)) (baselineRows ax ins fuel items)
  | 0, items => by
    unfold baselineRows
    exact GSim.pure rfl
  | fuel + 1, [] => by
    show GSim k _ (baselineRows ax (scale k ins) (fuel + 1) []) _
    unfold baselineRows
    exact GSim.pure rfl
  | fuel + 1, first :: tl => by
    show GSim k _ (baselineRows ax (scale k ins) (fuel + 1) (scale k first :: scale k tl)) _
    rw [GridRel.baselineRows_succ_cons, GridRel.baselineRows_succ_cons, gi_placement, ← scale_cons, brSplit_scale]
    simp only [scale_fst, scale_snd]
    rw [filter_length_scale k _ _ (fun a => by rw [gi_alignSelf])]
    refine GSim.ite ?_ ?_
    · refine GSim.bind (baselineRows_sim hk ax ins fuel _) fun r' r hr => ?_
      rw [show r' = scale k r from hr]
      exact GSim.pure (by simp only [Sc, scale_list, List.map_append])
    · refine GSim.bind (measureRowBaselines_sim hk ins _) fun ri' ri hri => ?_
      rw [show ri' = scale k ri from hri]
      refine GSim.bind (baselineRows_sim hk ax ins fuel _) fun r' r hr => ?_
      rw [show r' = scale k r from hr]
      refine GSim.pure ?_
      have hm : (scale k ri).map (fun it => it.baseline.getD 0) = scale k (ri.map fun it => it.baseline.getD 0) :=
        map_scale_list k ri _ _ fun it => by
          rw [gi_baseline]
          cases it.baseline <;> simp only [scale_simp, scale_option, Option.map, Option.getD]
      rw [hm, maxByTotal_scale hk]
      have hd : ((scale k (maxByTotal (ri.map fun it => it.baseline.getD 0))).getD 0 : Rat) =
          scale k ((maxByTotal (ri.map fun it => it.baseline.getD 0)).getD 0) := by
        cases maxByTotal (ri.map fun it => it.baseline.getD 0) <;>
          simp only [scale_simp, scale_option, Option.map, Option.getD]
      rw [hd, map_scale_list k ri _ _ (fun it => brShim_scale k _ it)]
      simp only [Sc, scale_list, List.map_append]

theorem mergeSort_scale (k : Rat) (l : List (GItem Rat)) (le : GItem Rat → GItem Rat → Bool)
    (hle : ∀ a b, le (scale k a) (scale k b) = le a b) : (scale k l).mergeSort le = scale k (l.mergeSort le) := by
  rw [scale_list, scale_list]
  exact (List.map_mergeSort (fun a _ b _ => (hle a b).symm)).symm

theorem resolveItemBaselines_sim (hk : 0 < k) (ax : Ax) (items : List (GItem Rat)) (ins : Size (Option Rat)) :
    GSim k (Sc k) (resolveItemBaselines ax (scale k items) (scale k ins)) (resolveItemBaselines ax items ins) := by
  unfold resolveItemBaselines
  simp only []
  rw [mergeSort_scale k items _ (fun a b => by rw [gi_placement, gi_placement]), length_scale_list]
  exact baselineRows_sim hk ax ins _ _

end C04
