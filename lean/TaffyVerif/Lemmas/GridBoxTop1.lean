/-
  C12 / C06 for grid: steps 7–9 of `compute_grid_layout` respect the item transformation `phi P`, for child-style lists
  related pointwise by `ChildOK` (what each use of a child's style needs).
-/
import TaffyVerif.Lemmas.GridBoxSizing5
import TaffyVerif.Lemmas.GridBoxStages

set_option linter.unusedSectionVars false

namespace GridRel
open GridModel GridTracks GridStages
variable {α : Type} [Num α] [NumCast α]

/-- what the last stage needs of the world: `RC` relates the content-size accumulators, `QO` the final outputs -/
structure World.Good (w : World α) (RC : Size α → Size α → Prop) (QO : LayoutOutput α → LayoutOutput α → Prop) : Prop
    extends w.Reads where
  lay : ∀ a b, w.RO a b → ∀ (l : Layout α),
    w.RL { l with contentSize := a.contentSize } { l with contentSize := b.contentSize }
  rlRefl : ∀ l, w.RL l l
  rc0 : RC Size.zero Size.zero
  rcStep : ∀ acc acc' a b (f : Size α → Size α), RC acc acc' → w.RO a b →
    RC (acc.f32Max (f a.contentSize)) (acc'.f32Max (f b.contentSize))
  out : ∀ bb acc acc' bl, RC acc acc' →
    QO (LayoutOutput.fromSizesAndBaselines bb acc bl) (LayoutOutput.fromSizesAndBaselines bb acc' bl)
  outRefl : ∀ o, QO o o

theorem World.eq_good : (World.eq : World α).Good Eq Eq where
  size := World.eq_reads.size
  baselines := World.eq_reads.baselines
  lay := fun a b h l => by rw [show a = b from h]; rfl
  rlRefl := fun _ => rfl
  rc0 := rfl
  rcStep := fun acc acc' a b f h1 h2 => by rw [h1, show a = b from h2]
  out := fun bb acc acc' bl h => by rw [h]
  outRefl := fun _ => rfl

theorem World.absW_good (abs : Nat → Prop) : (World.absW abs : World α).Good (fun _ _ => True) C06.OutEqv where
  size := (World.absW_reads abs).size
  baselines := (World.absW_reads abs).baselines
  lay := fun _ _ _ _ => ⟨rfl, rfl, rfl, rfl, rfl, rfl, rfl⟩
  rlRefl := fun l => C06.LayEqv.refl l
  rc0 := trivial
  rcStep := fun _ _ _ _ _ _ _ => trivial
  out := fun _ _ _ _ _ => ⟨rfl, rfl, rfl, rfl, rfl⟩
  outRefl := fun o => C06.OutEqv.refl o

variable {w : World α} {RC : Size α → Size α → Prop} {QO : LayoutOutput α → LayoutOutput α → Prop}
  (hg : w.Good RC QO) {P : Nat → Bool} (hR : Readers (α := α) P)

/-- results of `align_and_position_item`: position and height equal, contributions related through the accumulator -/
def RPos (RC : Size α → Size α → Prop) (r r' : Size α × α × α) : Prop :=
  r'.2 = r.2 ∧ ∀ acc acc', RC acc acc' → RC (acc.f32Max r.1) (acc'.f32Max r'.1)

include hg in
/-- the same `align_and_position_item` on both sides, for a child outside `abs` -/
theorem alignAndPositionItem_self (i : Nat) (hn : ¬ w.abs i) (cs : Style α) (order : Nat) (area : Rect α)
    (ji ai : Option AlignItems) (shim : α) :
    GRel w (RPos RC) (alignAndPositionItem i cs order area ji ai shim)
      (alignAndPositionItem i cs order area ji ai shim) := by
  unfold alignAndPositionItem
  dsimp only
  refine GRel.bind (GRel.call hn _) fun a b hab => ?_
  rw [hg.size a b hab]
  refine GRel.bind (GRel.setLayout (hg.lay a b hab
    { order := order, location := _, size := _, contentSize := Size.zero, scrollbarSize := _, padding := _, border := _,
      margin := _ })) fun _ _ _ => ?_
  exact GRel.pure ⟨rfl, fun acc acc' h =>
    hg.rcStep acc acc' a b (fun s => BlockModel.contentSizeContribution _ _ s _) h hab⟩

/-! ### the pointwise relation of the child-style lists -/

/-- the body of the absolute branch of the hidden/absolute loop -/
def absStep (c : Ctx α) (containerBorderBox : Size α) (rows columns : List (GridTrack α))
    (colCounts rowCounts : GridPlacement.TrackCounts) (cs : GridChildStyle α) (index order : Nat) (acc : Size α) :
    GM α (Size α) := do
  let colIdx ← GM.ofOutcome (absTrackIndexes cs.gridColumn colCounts)
  let rowIdx ← GM.ofOutcome (absTrackIndexes cs.gridRow rowCounts)
  let top ← optOffset rows rowIdx.start c.border.top
  let bottom ← optOffset rows rowIdx.end (containerBorderBox.height - c.border.bottom - c.scrollbarGutter.y)
  let left ← optOffset columns colIdx.start c.border.left
  let right ← optOffset columns colIdx.end (containerBorderBox.width - c.border.right - c.scrollbarGutter.x)
  let gridArea : Rect α := { top, bottom, left, right }
  alignAndPositionItem index cs.base order gridArea c.justifyItems c.alignItems 0 >>= fun r =>
    pure (acc.f32Max r.1)

/-- the hidden branch -/
def hiddenStep (index order : Nat) : GM α Unit := do
  let _ ← GM.call index
    { runMode := .performLayout, sizingMode := .inherentSize, axis := .both, knownDimensions := Size.none,
      parentSize := Size.none, availableSpace := ⟨.maxContent, .maxContent⟩,
      verticalMarginsAreCollapsible := ⟨false, false⟩ }
  GM.setLayout index (Layout.withOrder order)

theorem hiddenAbsLoop_cons (c : Ctx α) (bb : Size α) (rows columns : List (GridTrack α))
    (cc rc : GridPlacement.TrackCounts) (cs : GridChildStyle α) (rest : List (GridChildStyle α))
    (index order : Nat) (acc : Size α) :
    hiddenAbsLoop c bb rows columns cc rc (cs :: rest) index order acc =
      if cs.base.isHidden then
        hiddenStep index order >>= fun _ => hiddenAbsLoop c bb rows columns cc rc rest (index + 1) (order + 1) acc
      else if cs.base.position == .absolute then
        absStep c bb rows columns cc rc cs index order acc >>= fun acc =>
          hiddenAbsLoop c bb rows columns cc rc rest (index + 1) (order + 1) acc
      else hiddenAbsLoop c bb rows columns cc rc rest (index + 1) order acc := by
  conv => lhs; unfold hiddenAbsLoop
  simp only [hiddenStep, absStep, bind_assoc, pure_bind]

/-- child `i` as seen by the two runs -/
structure ChildOK (w : World α) (P : Nat → Bool) (RC : Size α → Size α → Prop) (i : Nat) (a b : GridChildStyle α) :
    Prop where
  hidden : b.base.isHidden = a.base.isHidden
  position : (b.base.position == .absolute) = (a.base.position == .absolute)
  hid : a.base.isHidden = true → ¬ w.abs i
  pos : ¬ w.abs i → ∀ order area ji ai shim, alignAndPositionItem i b.base order area ji ai shim =
      alignAndPositionItem i a.base order area ji ai shim
  inflow : a.base.isHidden = false → (a.base.position == .absolute) = false →
    ¬ w.abs i ∧ b.gridRow = a.gridRow ∧ b.gridColumn = a.gridColumn ∧
    (∀ col row ai ji, GItem.new i col row b.base ai ji i = phi P (GItem.new i col row a.base ai ji i))
  absolute : a.base.isHidden = false → (a.base.position == .absolute) = true →
    ∀ c bb rows cols cc rc order acc acc', RC acc acc' →
      GRelW w RC (absStep c bb rows cols cc rc a i order acc) (absStep c bb rows cols cc rc b i order acc')

/-- pointwise from index `i` on -/
def ChildrenOK (w : World α) (P : Nat → Bool) (RC : Size α → Size α → Prop) :
    Nat → List (GridChildStyle α) → List (GridChildStyle α) → Prop
  | _, [], [] => True
  | i, a :: as, b :: bs => ChildOK w P RC i a b ∧ ChildrenOK w P RC (i + 1) as bs
  | _, _, _ => False

theorem ChildrenOK.get : ∀ (i : Nat) (as bs : List (GridChildStyle α)), ChildrenOK w P RC i as bs → ∀ j,
    (as[j]? = none ∧ bs[j]? = none) ∨ ∃ a b, as[j]? = some a ∧ bs[j]? = some b ∧ ChildOK w P RC (i + j) a b
  | _, [], [], _, _ => Or.inl ⟨by simp, by simp⟩
  | _, [], _ :: _, h, _ => by simp only [ChildrenOK] at h
  | _, _ :: _, [], h, _ => by simp only [ChildrenOK] at h
  | i, a :: as, b :: bs, h, 0 => by
    simp only [ChildrenOK] at h
    exact Or.inr ⟨a, b, by simp, by simp, h.1⟩
  | i, a :: as, b :: bs, h, j + 1 => by
    simp only [ChildrenOK] at h
    have := ChildrenOK.get (i + 1) as bs h.2 j
    simpa only [List.getElem?_cons_succ, Nat.add_assoc, Nat.add_comm 1 j] using this

/-! ### the hidden/absolute loop -/

include hg in
theorem hiddenAbsLoop_rel (c : Ctx α) (bb : Size α) (rows columns : List (GridTrack α))
    (cc rc : GridPlacement.TrackCounts) :
    ∀ (as bs : List (GridChildStyle α)) (index order : Nat) (acc acc' : Size α),
      ChildrenOK w P RC index as bs → RC acc acc' →
      GRelW w RC (hiddenAbsLoop c bb rows columns cc rc as index order acc)
        (hiddenAbsLoop c bb rows columns cc rc bs index order acc')
  | [], [], _, _, acc, acc', _, hacc => by
    unfold hiddenAbsLoop
    exact GRelW.pure hacc
  | [], _ :: _, _, _, _, _, h, _ => by simp only [ChildrenOK] at h
  | _ :: _, [], _, _, _, _, h, _ => by simp only [ChildrenOK] at h
  | a :: as, b :: bs, index, order, acc, acc', h, hacc => by
    simp only [ChildrenOK] at h
    obtain ⟨h1, h2⟩ := h
    rw [hiddenAbsLoop_cons, hiddenAbsLoop_cons, h1.hidden, h1.position]
    cases hh : a.base.isHidden with
    | true =>
      simp only [if_true]
      refine GRelW.bind (Q := fun _ _ => True) (GRelW.of_GRel ?_) fun _ _ _ =>
        hiddenAbsLoop_rel c bb rows columns cc rc as bs _ _ acc acc' h2 hacc
      unfold hiddenStep
      refine GRel.bind (GRel.call (h1.hid hh) _) fun _ _ _ => ?_
      exact GRel.setLayout (hg.rlRefl _)
    | false =>
      simp only [Bool.false_eq_true, if_false]
      cases hp : (a.base.position == Position.absolute) with
      | true =>
        simp only [if_true]
        refine GRelW.bind (h1.absolute hh hp c bb rows columns cc rc order acc acc' hacc) fun x x' hx => ?_
        exact hiddenAbsLoop_rel c bb rows columns cc rc as bs _ _ x x' h2 hx
      | false =>
        simp only [Bool.false_eq_true, if_false]
        exact hiddenAbsLoop_rel c bb rows columns cc rc as bs _ _ acc acc' h2 hacc

/-! ### item positioning -/

theorem GRel.trackOffset (ts : List (GridTrack α)) (i : Nat) : GRel w Eq (trackOffset ts i) (trackOffset ts i) := by
  unfold GridModel.trackOffset
  cases ts[i]? with
  | none => exact GRel.throw _
  | some t => exact GRel.pure rfl

include hg in
theorem positionItems_rel (as bs : List (GridChildStyle α)) (hcs : ChildrenOK w P RC 0 as bs)
    (rows columns : List (GridTrack α)) (ji ai : Option AlignItems) :
    ∀ (items items' : List (GItem α)) (index : Nat) (acc acc' : Size α), LR P (NA w) items items' → RC acc acc' →
      GRel w (fun r r' => LR P (NA w) r.1 r'.1 ∧ RC r.2 r'.2)
        (positionItems as rows columns ji ai items index acc) (positionItems bs rows columns ji ai items' index acc')
  | [], items', _, acc, acc', h, hacc => by
    rw [h.1]
    exact GRel.pure ⟨LR.nil, hacc⟩
  | it :: rest, items', index, acc, acc', h, hacc => by
    rw [h.1, List.map_cons]
    unfold positionItems
    have hn : ¬ w.abs it.node := h.2 it List.mem_cons_self
    have hrest : LR P (NA w) rest (rest.map (phi P)) := ⟨rfl, fun x hx => h.2 x (List.mem_cons_of_mem _ hx)⟩
    simp only [← phi_setPos]
    simp only [phi_rowIndexes, phi_columnIndexes, phi_node, phi_baselineShim]
    refine GRel.bind (GRel.trackOffset _ _) fun t t' ht => ?_
    subst ht
    refine GRel.bind (GRel.trackOffset _ _) fun b b' hb => ?_
    subst hb
    refine GRel.bind (GRel.trackOffset _ _) fun l l' hl => ?_
    subst hl
    refine GRel.bind (GRel.trackOffset _ _) fun r r' hr => ?_
    subst hr
    rcases ChildrenOK.get 0 as bs hcs it.node with ⟨h1, h2⟩ | ⟨a, b, h1, h2, h3⟩
    · rw [h1, h2]
      exact GRel.throw _
    · rw [h1, h2]
      dsimp only
      have hpos := h3.pos
      rw [Nat.zero_add] at hpos
      rw [hpos hn]
      refine GRel.bind (alignAndPositionItem_self hg it.node hn a.base index _ ji ai it.baselineShim) fun q q' hq => ?_
      obtain ⟨contribution, y, height⟩ := q
      obtain ⟨contribution', y', height'⟩ := q'
      obtain ⟨hq1, hq2⟩ := hq
      simp only [Prod.mk.injEq] at hq1
      obtain ⟨hy, hh'⟩ := hq1
      subst hy hh'
      dsimp only
      refine GRel.bind (positionItems_rel as bs hcs rows columns ji ai rest _ (index + 1) _ _ hrest
        (hq2 acc acc' hacc)) fun z z' hz => ?_
      obtain ⟨zl, zacc⟩ := z
      obtain ⟨zl', zacc'⟩ := z'
      exact GRel.pure ⟨LR.cons ⟨rfl, hn⟩ hz.1, hz.2⟩

/-! ### the container baseline -/

theorem gridContainerBaseline_rel {G : Nat → Prop} (items items' : List (GItem α)) (h : LR P G items items') :
    gridContainerBaseline items' = gridContainerBaseline items := by
  unfold gridContainerBaseline
  have hs := h.mergeSort (fun a b => decide (a.rowIndexes.start ≤ b.rowIndexes.start))
    (fun a b => by rw [phi_rowIndexes, phi_rowIndexes])
  dsimp only
  generalize items.mergeSort (fun a b => decide (a.rowIndexes.start ≤ b.rowIndexes.start)) = l at hs
  generalize items'.mergeSort (fun a b => decide (a.rowIndexes.start ≤ b.rowIndexes.start)) = l' at hs
  rw [hs.1]
  cases l with
  | nil => rfl
  | cons first tl =>
    simp only [List.map_cons, phi_rowIndexes]
    rw [← List.map_cons]
    have h1 : List.takeWhile (fun it => it.rowIndexes.start == first.rowIndexes.start) ((first :: tl).map (phi P)) =
        (List.takeWhile (fun it => it.rowIndexes.start == first.rowIndexes.start) (first :: tl)).map (phi P) := by
      generalize (first :: tl) = l
      induction l with
      | nil => rfl
      | cons x xs ih =>
        simp only [List.map_cons, List.takeWhile_cons, phi_rowIndexes]
        split
        · rw [List.map_cons, ih]
        · rfl
    rw [h1]
    generalize List.takeWhile (fun it => it.rowIndexes.start == first.rowIndexes.start) (first :: tl) = fr
    have h2 : List.find? (fun it => it.alignSelf == AlignItems.baseline) (fr.map (phi P)) =
        (List.find? (fun it => it.alignSelf == AlignItems.baseline) fr).map (phi P) := by
      induction fr with
      | nil => rfl
      | cons x xs ih =>
        simp only [List.map_cons, List.find?_cons, phi_alignSelf]
        split
        · rfl
        · exact ih
    rw [h2]
    cases List.find? (fun it => it.alignSelf == AlignItems.baseline) fr with
    | none => simp only [Option.map_none, Option.getD_none, phi_yPosition, phi_baseline, phi_height]
    | some x => simp only [Option.map_some, Option.getD_some, phi_yPosition, phi_baseline, phi_height]

end GridRel
