/-
  A fixed track (min = max = the same length) keeps its size through the whole modelled track sizing pass
  (for Props/C09.lean `fixed_track_exact`).  Exact rationals.
-/
import TaffyVerif.Lemmas.Distribute

namespace GridTracks

/-- a fixed track at rest: sized `v`, growth limit `v`, nothing pending -/
structure FX (t : GridTrack Rat) (v : Rat) : Prop where
  minFn : t.minFn = .length v
  maxFn : t.maxFn = .length v
  base : t.baseSize = v
  gl : t.growthLimit = .fin v
  inc : t.itemIncurredIncrease = 0
  bp : t.baseSizePlannedIncrease = 0
  gp : t.growthLimitPlannedIncrease = 0

/-- `t'` is still a fixed track at rest whenever `t` was -/
def R (t t' : GridTrack Rat) : Prop := ∀ v, FX t v → FX t' v

/-- position-wise `R` -/
inductive K : List (GridTrack Rat) → List (GridTrack Rat) → Prop
  | nil : K [] []
  | cons {t t' : GridTrack Rat} {l l' : List (GridTrack Rat)} : R t t' → K l l' → K (t :: l) (t' :: l')

theorem K.refl (l : List (GridTrack Rat)) : K l l := by
  induction l with
  | nil => exact K.nil
  | cons t rest ih => exact K.cons (fun _ h => h) ih

theorem K.trans {a b c : List (GridTrack Rat)} (h1 : K a b) (h2 : K b c) : K a c := by
  induction h1 generalizing c with
  | nil => cases h2; exact K.nil
  | cons r _ ih =>
    cases h2 with
    | cons r' k' => exact K.cons (fun v h => r' v (r v h)) (ih k')

theorem K.map (l : List (GridTrack Rat)) (f : GridTrack Rat → GridTrack Rat) (h : ∀ t, R t (f t)) :
    K l (l.map f) := by
  induction l with
  | nil => exact K.nil
  | cons t rest ih => exact K.cons (h t) ih

theorem K.append {a a' b b' : List (GridTrack Rat)} (h1 : K a a') (h2 : K b b') : K (a ++ b) (a' ++ b') := by
  induction h1 with
  | nil => simpa using h2
  | cons r _ ih => exact K.cons r ih

theorem K.modify (l : List (GridTrack Rat)) (i : Nat) (f : GridTrack Rat → GridTrack Rat) (h : ∀ t, R t (f t)) :
    K l (l.modify i f) := by
  induction l generalizing i with
  | nil => simpa using K.nil
  | cons t rest ih =>
    cases i with
    | zero => simpa using K.cons (h t) (K.refl rest)
    | succ j => simpa using K.cons (fun _ hx => hx) (ih j)

theorem K.getElem? {l l' : List (GridTrack Rat)} (h : K l l') (i : Nat) (t : GridTrack Rat)
    (ht : l[i]? = some t) : ∃ t', l'[i]? = some t' ∧ R t t' := by
  induction h generalizing i with
  | nil => simp at ht
  | cons r _ ih =>
    cases i with
    | zero => simp at ht; subst ht; exact ⟨_, by simp, r⟩
    | succ j => simpa using ih j (by simpa using ht)

theorem take_slice_drop (l : List (GridTrack Rat)) (lo hi : Nat) (h : lo ≤ hi) :
    l.take lo ++ (l.drop lo).take (hi - lo) ++ l.drop hi = l := by
  have e : l.drop hi = (l.drop lo).drop (hi - lo) := by
    rw [List.drop_drop]; congr 1; omega
  rw [e, List.append_assoc, List.take_append_drop, List.take_append_drop]

theorem K.onRange (l : List (GridTrack Rat)) (lo hi : Nat) (h : lo ≤ hi)
    (f : List (GridTrack Rat) → List (GridTrack Rat)) (hf : ∀ sl, K sl (f sl)) : K l (onRange l lo hi f) := by
  have e := take_slice_drop l lo hi h
  unfold GridTracks.onRange
  conv_lhs => rw [← e]
  exact K.append (K.append (K.refl _) (hf _)) (K.refl _)

theorem K.foldl {β : Type} (l : List β) (step : List (GridTrack Rat) → β → List (GridTrack Rat))
    (P : β → Prop) (hl : ∀ b ∈ l, P b) (hs : ∀ ts b, P b → K ts (step ts b)) (ts : List (GridTrack Rat)) :
    K ts (l.foldl step ts) := by
  induction l generalizing ts with
  | nil => exact K.refl _
  | cons b rest ih =>
    simp only [List.foldl_cons]
    exact K.trans (hs ts b (hl b List.mem_cons_self)) (ih (fun b hb => hl b (List.mem_cons_of_mem _ hb)) _)

/-! ### `distribute_space_up_to_limits` -/

theorem protected_of_limit (p : DistParams) (t : GridTrack Rat) (v : Rat) (h : FX t v)
    (hap : p.affectedProp t = v) (hl : p.limit t = .fin v) : protectedTrack p t := by
  right
  rw [hl, hap, h.inc]
  simp [Ext.gtF]

theorem K_dist (p : DistParams) (fuel : Nat) (space : Rat) (tracks : List (GridTrack Rat))
    (h : ∀ t v, FX t v → protectedTrack p t) : K tracks (dist p fuel space tracks).2 := by
  obtain ⟨f, hf, _, he⟩ := dist_map p fuel space tracks
  rw [he]
  exact K.map _ _ fun t v hx => by rw [hf t (h t v hx)]; exact hx

theorem R_finishBase (t : GridTrack Rat) : R t (finishBaseDistribution t) := by
  intro v h
  unfold finishBaseDistribution
  simp only [h.inc, h.bp, rat_flt, lt_self_iff_false, decide_false, Bool.false_eq_true, if_false]
  exact ⟨h.minFn, h.maxFn, h.base, h.gl, rfl, rfl, h.gp⟩

theorem R_finishGrowth (t : GridTrack Rat) : R t (finishGrowthDistribution t) := by
  intro v h
  unfold finishGrowthDistribution
  simp only [h.inc, h.gp, rat_flt, lt_self_iff_false, decide_false, Bool.false_eq_true, if_false]
  exact ⟨h.minFn, h.maxFn, h.base, h.gl, rfl, h.bp, rfl⟩

/-- `distribute_item_space_to_base_size_inner` keeps fixed tracks when (c1) the first pass does not select them or
their limit is their size, and (c2) their limit is their size, or the beyond-limits filter excludes them while it
contains every affected track (so the `|_| true` fallback is not taken) -/
theorem K_inner (space : Rat) (tracks : List (GridTrack Rat)) (isAffected : GridTrack Rat → Bool)
    (proportion : GridTrack Rat → Rat) (limit : GridTrack Rat → Ext Rat) (ty : ContributionType)
    (hinv : IncInvariant isAffected)
    (c1 : ∀ t v, FX t v → isAffected t = false ∨ limit t = .fin v)
    (c2 : ∀ t v, FX t v → limit t = .fin v ∨
      (beyondLimitsFilter ty t = false ∧ ∀ s, isAffected s = true → beyondLimitsFilter ty s = true)) :
    K tracks (distributeItemSpaceToBaseSizeInner space tracks isAffected proportion limit ty) := by
  unfold distributeItemSpaceToBaseSizeInner
  split
  · exact K.refl _
  · rename_i hguard
    simp only [Bool.or_eq_true, not_or, Bool.not_eq_true', Bool.not_eq_false] at hguard
    have hany : tracks.any isAffected = true := by
      have := hguard.2; simpa using this
    simp only []
    set extra := Num.fmax (0 : Rat) (space - sumF (tracks.map (·.baseSize))) with hextra
    let p1 : DistParams := ⟨isAffected, proportion, (·.baseSize), limit⟩
    have hr1 : distributeSpaceUpToLimits (distFuel tracks.length) extra tracks isAffected proportion (·.baseSize) limit
        = dist p1 (distFuel tracks.length) extra tracks := rfl
    rw [hr1]
    have hK1 : K tracks (dist p1 (distFuel tracks.length) extra tracks).2 := by
      apply K_dist
      intro t v hx
      rcases c1 t v hx with h | h
      · exact Or.inl h
      · exact protected_of_limit p1 t v hx hx.base h
    obtain ⟨f, _, hfx, hfe⟩ := dist_map p1 (distFuel tracks.length) extra tracks
    refine K.trans ?_ (K.map _ _ R_finishBase)
    split
    · -- beyond limits
      refine K.trans hK1 ?_
      set T1 := (dist p1 (distFuel tracks.length) extra tracks).2 with hT1
      set e1 := (dist p1 (distFuel tracks.length) extra tracks).1
      set n := (T1.filter fun t => isAffected t && beyondLimitsFilter ty t).length with hn
      let p2 : DistParams := ⟨if n == 0 then fun _ => true else beyondLimitsFilter ty, proportion, (·.baseSize), limit⟩
      have hr2 : distributeSpaceUpToLimits (distFuel T1.length) e1 T1
          (if n == 0 then fun _ => true else beyondLimitsFilter ty) proportion (·.baseSize) limit
          = dist p2 (distFuel T1.length) e1 T1 := rfl
      rw [hr2]
      apply K_dist
      intro t v hx
      rcases c2 t v hx with h | ⟨hnot, hall⟩
      · exact protected_of_limit p2 t v hx hx.base h
      · left
        -- the filter is not the `|_| true` fallback: some affected track passes it
        have hn0 : (n == 0) = false := by
          rw [List.any_eq_true] at hany
          obtain ⟨s, hs, hsa⟩ := hany
          have hfs : f s ∈ T1 := by rw [hfe]; exact List.mem_map_of_mem hs
          obtain ⟨x, hxe⟩ := hfx s
          have ha : isAffected (f s) = true := by rw [hxe, hinv s x]; exact hsa
          have hb : beyondLimitsFilter ty (f s) = true := hall _ ha
          have : f s ∈ T1.filter fun t => isAffected t && beyondLimitsFilter ty t :=
            List.mem_filter.mpr ⟨hfs, by simp [ha, hb]⟩
          have hpos : 0 < n := by rw [hn]; exact List.length_pos_of_mem this
          simp; omega
        show (if n == 0 then fun _ => true else beyondLimitsFilter ty) t = false
        rw [hn0]; exact hnot
    · exact hK1

theorem K_toBaseSize (isFlex useFF : Bool) (space : Rat) (tracks : List (GridTrack Rat))
    (isAffected : GridTrack Rat → Bool) (limit : GridTrack Rat → Ext Rat) (ty : ContributionType)
    (hinv : IncInvariant isAffected)
    (c1 : ∀ t v, FX t v → isAffected t = false ∨ limit t = .fin v)
    (c2 : ∀ t v, FX t v → limit t = .fin v ∨
      (beyondLimitsFilter ty t = false ∧ ∀ s, isAffected s = true → beyondLimitsFilter ty s = true)) :
    K tracks (distributeItemSpaceToBaseSize isFlex useFF space tracks isAffected limit ty) := by
  have hinv' : IncInvariant fun (t : GridTrack Rat) => t.isFlexible && isAffected t := by
    intro t x; show (t.isFlexible && isAffected _) = _; rw [hinv t x]
  have c1' : ∀ t v, FX t v → (t.isFlexible && isAffected t) = false ∨ limit t = .fin v := by
    intro t v hx
    rcases c1 t v hx with h | h
    · left; simp [h]
    · exact Or.inr h
  have c2' : ∀ t v, FX t v → limit t = .fin v ∨ (beyondLimitsFilter ty t = false ∧
      ∀ s, (s.isFlexible && isAffected s) = true → beyondLimitsFilter ty s = true) := by
    intro t v hx
    rcases c2 t v hx with h | ⟨h1, h2⟩
    · exact Or.inl h
    · exact Or.inr ⟨h1, fun s hs => h2 s (by simp only [Bool.and_eq_true] at hs; exact hs.2)⟩
  unfold distributeItemSpaceToBaseSize
  split
  · split
    · exact K_inner _ _ _ _ _ _ hinv' c1' c2'
    · exact K_inner _ _ _ _ _ _ hinv' c1' c2'
  · exact K_inner _ _ _ _ _ _ hinv c1 c2

theorem K_toGrowthLimit (space : Rat) (tracks : List (GridTrack Rat)) (isAffected : GridTrack Rat → Bool)
    (inner : Option Rat) (c : ∀ t v, FX t v → isAffected t = false) :
    K tracks (distributeItemSpaceToGrowthLimit space tracks isAffected inner) := by
  unfold distributeItemSpaceToGrowthLimit
  split
  · exact K.refl _
  · simp only []
    refine K.trans ?_ (K.map _ _ R_finishGrowth)
    split
    · apply K.map
      intro t v hx
      simp [c t v hx]; exact hx
    · let p : DistParams := ⟨isAffected, fun _ => 1, (·.growthLimitOrBase), fun t => t.fitContentLimit inner⟩
      exact K_dist p _ _ _ fun t v hx => Or.inl (c t v hx)

theorem R_flushBase (t : GridTrack Rat) :
    R t { t with baseSize := t.baseSize + t.baseSizePlannedIncrease, baseSizePlannedIncrease := 0 } := by
  intro v h
  exact ⟨h.minFn, h.maxFn, by show t.baseSize + t.baseSizePlannedIncrease = v; rw [h.bp, h.base]; ring,
    h.gl, h.inc, rfl, h.gp⟩

theorem K_flushBase (l : List (GridTrack Rat)) : K l (flushPlannedBaseSizeIncreases l) :=
  K.map _ _ R_flushBase

theorem K_flushGrowth (l : List (GridTrack Rat)) (b : Bool) : K l (flushPlannedGrowthLimitIncreases l b) := by
  apply K.map
  intro t v h
  simp only [h.gp, rat_flt, lt_self_iff_false, decide_false, Bool.false_eq_true, if_false]
  exact ⟨h.minFn, h.maxFn, h.base, h.gl, h.inc, h.bp, rfl⟩

theorem K_raise (l : List (GridTrack Rat)) : K l (raiseGrowthLimits l) := by
  apply K.map
  intro t v h
  simp only [h.gl, h.base, Ext.ltF, rat_flt, lt_self_iff_false, decide_false, Bool.false_eq_true, if_false]
  exact h

theorem fitLim_fx (t : GridTrack Rat) (v : Rat) (inner : Option Rat) (h : FX t v) :
    t.fitContentLimitedGrowthLimit inner = .fin v := by
  simp [GridTrack.fitContentLimitedGrowthLimit, GridTrack.fitContentLimit, h.gl, h.maxFn, Ext.min]

/-- a valid item: it spans at least one track -/
def Item.Valid (it : Item Rat) : Prop := it.start < it.end

theorem Item.Valid.le {it : Item Rat} (h : it.Valid) : it.lo ≤ it.hi := by
  unfold Item.Valid at h; unfold Item.lo Item.hi; omega

theorem K_batchDist (isFlex useFF : Bool) (it : Item Rat) (hv : it.Valid) (space : Rat) (aff : GridTrack Rat → Bool)
    (lim : GridTrack Rat → Ext Rat) (ty : ContributionType) (ts : List (GridTrack Rat))
    (hi : IncInvariant aff)
    (c1 : ∀ t v, FX t v → aff t = false ∨ lim t = .fin v)
    (c2 : ∀ t v, FX t v → lim t = .fin v ∨
      (beyondLimitsFilter ty t = false ∧ ∀ s, aff s = true → beyondLimitsFilter ty s = true)) :
    K ts (batchDist isFlex useFF it space aff lim ty ts) := by
  unfold batchDist
  split
  · exact K.onRange _ _ _ hv.le _ fun sl => K_toBaseSize _ _ _ _ _ _ _ hi c1 c2
  · exact K.refl _

theorem minLimitFn_fx (inner : Option Rat) (it : Item Rat) (t : GridTrack Rat) (v : Rat) (h : FX t v) :
    minLimitFn inner it t = .fin v := by
  unfold minLimitFn
  split
  · exact fitLim_fx t v inner h
  · exact h.gl

theorem K_forBatch (batch : List (Item Rat)) (hb : ∀ it ∈ batch, it.Valid) (tracks : List (GridTrack Rat))
    (f : Item Rat → List (GridTrack Rat) → List (GridTrack Rat)) (hf : ∀ it ts, it.Valid → K ts (f it ts)) :
    K tracks (forBatch batch tracks f) := by
  unfold forBatch
  exact K.foldl batch (fun ts it => f it ts) Item.Valid hb (fun ts it hv => hf it ts hv) tracks

theorem K_step1 (avail : AvailableSpace Rat) (inner : Option Rat) (isFlex useFF : Bool) (batch : List (Item Rat))
    (hb : ∀ it ∈ batch, it.Valid) (tracks : List (GridTrack Rat)) :
    K tracks (batchStep1 avail inner isFlex useFF batch tracks) := by
  unfold batchStep1
  refine K.trans (K_forBatch _ (fun it hit => hb it (List.mem_filter.mp hit).1) _ _ fun it ts hv => ?_) (K_flushBase _)
  exact K_batchDist _ _ it hv _ _ _ _ ts (fun _ _ => rfl)
    (fun t v hx => Or.inl (by simp [hx.minFn, MinTrack.definiteValue]))
    (fun t v hx => Or.inl (minLimitFn_fx inner it t v hx))

theorem K_step2 (inner : Option Rat) (isFlex useFF : Bool) (batch : List (Item Rat))
    (hb : ∀ it ∈ batch, it.Valid) (tracks : List (GridTrack Rat)) :
    K tracks (batchStep2 inner isFlex useFF batch tracks) := by
  unfold batchStep2
  refine K.trans (K_forBatch _ hb _ _ fun it ts hv => ?_) (K_flushBase _)
  exact K_batchDist _ _ it hv _ _ _ _ ts (fun _ _ => rfl)
    (fun t v hx => Or.inl (by simp [hx.minFn, MinTrack.isMinOrMaxContent]))
    (fun t v hx => Or.inl (minLimitFn_fx inner it t v hx))

theorem K_step3 (avail : AvailableSpace Rat) (inner : Option Rat) (isFlex useFF : Bool) (batch : List (Item Rat))
    (hb : ∀ it ∈ batch, it.Valid) (tracks : List (GridTrack Rat)) :
    K tracks (batchStep3 avail inner isFlex useFF batch tracks) := by
  unfold batchStep3
  cases avail with
  | definite a => exact K.refl _
  | minContent => exact K.refl _
  | maxContent =>
    refine K.trans (K_forBatch _ hb _ _ fun it ts hv => ?_) (K_flushBase _)
    split
    · exact K_batchDist _ _ it hv _ _ _ _ ts (fun _ _ => rfl)
        (fun t v hx => Or.inl (by simp [hx.minFn, MinTrack.isMaxContent]))
        (fun t v hx => Or.inr ⟨by simp [beyondLimitsFilter, hx.minFn, hx.maxFn, MinTrack.isMaxContent,
          MaxTrack.isMaxOrFitContent], fun s hs => by simp [beyondLimitsFilter, hs]⟩)
    · exact K_batchDist _ _ it hv _ _ _ _ ts (fun _ _ => rfl)
        (fun t v hx => Or.inl (by simp [hx.minFn, MinTrack.isAuto]))
        (fun t v hx => Or.inl (fitLim_fx t v inner hx))

theorem K_step3b (isFlex useFF : Bool) (batch : List (Item Rat))
    (hb : ∀ it ∈ batch, it.Valid) (tracks : List (GridTrack Rat)) :
    K tracks (batchStep3b isFlex useFF batch tracks) := by
  unfold batchStep3b
  refine K.trans (K_forBatch _ hb _ _ fun it ts hv => ?_) (K_flushBase _)
  exact K_batchDist _ _ it hv _ _ _ _ ts (fun _ _ => rfl)
    (fun t v hx => Or.inl (by simp [hx.minFn, MinTrack.isMaxContent]))
    (fun t v hx => Or.inl hx.gl)

theorem K_batchGrowth (inner : Option Rat) (batch : List (Item Rat)) (hb : ∀ it ∈ batch, it.Valid)
    (space : Item Rat → Rat) (aff : GridTrack Rat → Bool) (c : ∀ t v, FX t v → aff t = false)
    (tracks : List (GridTrack Rat)) : K tracks (batchGrowth inner batch space aff tracks) := by
  unfold batchGrowth
  refine K_forBatch _ hb _ _ fun it ts hv => ?_
  split
  · exact K.onRange _ _ _ hv.le _ fun sl => K_toGrowthLimit _ _ _ _ c
  · exact K.refl _

theorem K_step56 (inner : Option Rat) (batch : List (Item Rat)) (hb : ∀ it ∈ batch, it.Valid)
    (tracks : List (GridTrack Rat)) : K tracks (batchStep56 inner batch tracks) := by
  unfold batchStep56
  simp only []
  refine K.trans (K.trans (K_batchGrowth inner batch hb _ _ ?_ _) (K_flushGrowth _ _))
    (K.trans (K_batchGrowth inner batch hb _ _ ?_ _) (K_flushGrowth _ _))
  · intro t v hx; simp [hx.maxFn, MaxTrack.hasDefiniteValue]
  · intro t v hx; simp [hx.maxFn, MaxTrack.isMaxContentAlike, MaxTrack.usesPercentage]

theorem K_sizeBatchGeneral (avail : AvailableSpace Rat) (inner : Option Rat) (isFlex : Bool) (ffs : Rat)
    (batch : List (Item Rat)) (hb : ∀ it ∈ batch, it.Valid) (tracks : List (GridTrack Rat)) :
    K tracks (sizeBatchGeneral avail inner isFlex ffs batch tracks) := by
  unfold sizeBatchGeneral
  simp only []
  generalize (isFlex && !Num.feq ffs 0) = u
  have h5 := K.trans (K_step1 avail inner isFlex u batch hb tracks)
    (K.trans (K_step2 inner isFlex u batch hb _) (K.trans (K_step3 avail inner isFlex u batch hb _)
      (K.trans (K_step3b isFlex u batch hb _) (K_raise _))))
  split
  · exact K.trans h5 (K_step56 inner batch hb _)
  · exact h5

theorem R_sizeSpanOneTrack (avail : AvailableSpace Rat) (inner : Option Rat) (it : Item Rat) (t : GridTrack Rat) :
    R t (sizeSpanOneTrack avail inner it t) := by
  intro v h
  unfold sizeSpanOneTrack
  simp only [h.minFn, h.maxFn, MaxTrack.isFitContent, MaxTrack.isMaxContentAlike, MaxTrack.usesPercentage,
    MaxTrack.isIntrinsic, Bool.false_eq_true, if_false, Bool.false_and, Bool.or_self]
  exact ⟨rfl, rfl, h.base, h.gl, h.inc, h.bp, h.gp⟩

theorem R_flushSpanOneTrack (t : GridTrack Rat) : R t (flushSpanOneTrack t) := by
  intro v h
  refine ⟨h.minFn, h.maxFn, h.base, ?_, h.inc, h.bp, rfl⟩
  simp [flushSpanOneTrack, h.gp, h.gl, h.base, Ext.ltF]

theorem K_batchLoop (avail : AvailableSpace Rat) (inner : Option Rat) (ffs : Rat) (items : List (Item Rat))
    (hv : ∀ it ∈ items, it.Valid) :
    ∀ (fuel offset : Nat) (tracks : List (GridTrack Rat)),
      K tracks (batchLoop fuel avail inner ffs items offset tracks) := by
  intro fuel
  induction fuel with
  | zero => intro _ tracks; exact K.refl _
  | succ k ih =>
    intro offset tracks
    unfold batchLoop
    split
    · exact K.refl _
    · rename_i item _
      simp only []
      set next := (if item.crossesFlexible = true then items.length
        else (List.findIdx? (fun it => it.crossesFlexible || decide (it.span > item.span)) items).getD items.length)
      have hbatch : ∀ it ∈ (items.drop offset).take (next - offset), it.Valid :=
        fun it hit => hv it (List.mem_of_mem_drop (List.mem_of_mem_take hit))
      have hstep : K tracks (if (!item.crossesFlexible && item.span == 1) = true then
            flushSpanOne (((items.drop offset).take (next - offset)).foldl (sizeSpanOneItem avail inner) tracks)
          else sizeBatchGeneral avail inner item.crossesFlexible ffs ((items.drop offset).take (next - offset)) tracks) := by
        split
        · refine K.trans ?_ (K.map _ _ R_flushSpanOneTrack)
          exact K.foldl _ _ (fun _ => True) (fun _ _ => trivial)
            (fun ts it _ => K.modify _ _ _ (R_sizeSpanOneTrack avail inner it)) _
        · exact K_sizeBatchGeneral _ _ _ _ _ hbatch _
      split
      · exact hstep
      · exact K.trans hstep (ih _ _)

theorem K_resolve (tracks : List (GridTrack Rat)) (items : List (Item Rat)) (hv : ∀ it ∈ items, it.Valid)
    (avail : AvailableSpace Rat) (inner : Option Rat) :
    K tracks (resolveIntrinsicTrackSizes tracks items avail inner) := by
  unfold resolveIntrinsicTrackSizes
  simp only []
  have hv' : ∀ it ∈ items.mergeSort itemLe, it.Valid := fun it hit => hv it (List.mem_mergeSort.mp hit)
  refine K.trans (K_batchLoop avail inner (sumF (tracks.map (·.flexFactor))) (items.mergeSort itemLe) hv'
    ((items.mergeSort itemLe).length + 1) 0 tracks) ?_
  apply K.map
  intro t v h
  simp only [h.gl]
  exact h

theorem K_maximise (tracks : List (GridTrack Rat)) (inner : Option Rat) (avail : AvailableSpace Rat) :
    K tracks (maximiseTracks tracks inner avail) := by
  unfold maximiseTracks
  simp only []
  cases avail with
  | minContent => exact K.refl _
  | maxContent =>
    apply K.map
    intro t v h
    exact ⟨h.minFn, h.maxFn, by simp [GridTrack.growthLimitOrBase, h.gl], h.gl, h.inc, h.bp, h.gp⟩
  | definite a =>
    simp only []
    split
    · let p : DistParams := ⟨fun _ => true, fun _ => 1, (·.baseSize), fun t => t.fitContentLimitedGrowthLimit inner⟩
      have h := K_dist p (distFuel tracks.length) (a - sumF (tracks.map (·.baseSize))) tracks
        fun t v hx => protected_of_limit p t v hx hx.base (fitLim_fx t v inner hx)
      refine K.trans h ?_
      apply K.map
      intro t v h
      exact ⟨h.minFn, h.maxFn, by show t.baseSize + t.itemIncurredIncrease = v; rw [h.inc, h.base]; ring,
        h.gl, rfl, h.bp, h.gp⟩
    · exact K.refl _

theorem K_expand (tracks : List (GridTrack Rat)) (items : List (Item Rat)) (mn mx : Option Rat)
    (avail : AvailableSpace Rat) : K tracks (expandFlexibleTracks tracks items mn mx avail) := by
  unfold expandFlexibleTracks
  apply K.map
  intro t v h
  simp only [h.maxFn]
  exact h

theorem K_stretch (tracks : List (GridTrack Rat)) (mn : Option Rat) (avail : AvailableSpace Rat) :
    K tracks (stretchAutoTracks tracks mn avail) := by
  unfold stretchAutoTracks
  simp only []
  split_ifs
  · apply K.map
    intro t v h
    simp only [h.maxFn, MaxTrack.isAuto, Bool.false_eq_true, if_false]
    exact h
  · exact K.refl _
  · exact K.refl _

/-- a track as `initialize_grid_tracks` (or the end of a previous sizing run) leaves it: nothing pending -/
def AtRest (t : GridTrack Rat) : Prop :=
  t.itemIncurredIncrease = 0 ∧ t.baseSizePlannedIncrease = 0 ∧ t.growthLimitPlannedIncrease = 0

theorem FX_initialize (t : GridTrack Rat) (v : Rat) (h1 : t.minFn = .length v) (h2 : t.maxFn = .length v)
    (hr : AtRest t) (inner : Option Rat) : FX (initializeTrackSize inner t) v := by
  unfold initializeTrackSize
  refine ⟨h1, h2, ?_, ?_, hr.1, hr.2.1, hr.2.2⟩
  · simp [h1, MinTrack.definiteValue]
  · simp [h1, h2, MinTrack.definiteValue, MaxTrack.definiteValue, Ext.ofOption, Ext.ltF]

/-- the whole modelled `track_sizing_algorithm` keeps a fixed track at its size -/
theorem trackSizing_fixed (p : SizingParams Rat) (tracks : List (GridTrack Rat)) (items : List (Item Rat))
    (hv : ∀ it ∈ items, it.Valid) (i : Nat) (t : GridTrack Rat) (v : Rat) (ht : tracks[i]? = some t)
    (h1 : t.minFn = .length v) (h2 : t.maxFn = .length v) (hr : AtRest t) :
    ∃ t', (trackSizingAlgorithm p tracks items)[i]? = some t' ∧ FX t' v := by
  have hinit : (initializeTrackSizes tracks p.axisInner)[i]? = some (initializeTrackSize p.axisInner t) := by
    simp [initializeTrackSizes, ht]
  have hfx := FX_initialize t v h1 h2 hr p.axisInner
  unfold trackSizingAlgorithm
  simp only []
  split
  · exact ⟨_, hinit, hfx⟩
  · have hitems : ∀ it ∈ items.map (determineCrossing (initializeTrackSizes tracks p.axisInner)), it.Valid := by
      intro it hit
      obtain ⟨it0, h0, rfl⟩ := List.mem_map.mp hit
      exact hv it0 h0
    have hK := K.trans (K_resolve (initializeTrackSizes tracks p.axisInner)
        (items.map (determineCrossing (initializeTrackSizes tracks p.axisInner))) hitems p.avail p.axisInner)
      (K.trans (K_maximise _ p.axisInner p.avail)
        (K_expand _ (items.map (determineCrossing (initializeTrackSizes tracks p.axisInner)))
          p.axisMinSize p.axisMaxSize p.availForExpansion))
    split
    · obtain ⟨t', ht', hR⟩ := (K.trans hK (K_stretch _ p.axisMinSize p.availForExpansion)).getElem? i _ hinit
      exact ⟨t', ht', hR v hfx⟩
    · obtain ⟨t', ht', hR⟩ := hK.getElem? i _ hinit
      exact ⟨t', ht', hR v hfx⟩

end GridTracks
