/-
  C12 / C06 for grid: Model/GridSizing.lean respects the item transformation `phi P`, part 5: the batch loop,
  `resolve_intrinsic_track_sizes`, `expand_flexible_tracks`, `track_sizing_algorithm`.
-/
import TaffyVerif.Lemmas.GridBoxSizing4

set_option linter.unusedSectionVars false

namespace GridRel
open GridModel GridTracks
variable {α : Type} [Num α]

variable {w : World α} (hw : w.Reads) {P : Nat → Bool} (hR : Readers (α := α) P)

/-- the end of the batch that starts with `item` -/
def batchNext (axis : Ax) (items : List (GItem α)) (item : GItem α) : Nat :=
  if item.crossesFlexibleTrack axis then items.length
  else (items.findIdx? fun it => it.crossesFlexibleTrack axis || it.span axis > item.span axis).getD items.length

/-- the work on one batch -/
def batchWork (s : Sizer α) (avail : AvailableSpace α) (axisInner : Option α) (flexFactorSum : α) (item : GItem α)
    (batch : List (GItem α)) (tracks : List (GridTrack α)) : GM α (List (GItem α) × List (GridTrack α)) :=
  if !item.crossesFlexibleTrack s.axis && item.span s.axis == 1 then do
    let (batch, tracks) ← forItemsM (fun it ts => sizeSpanOneItemM s avail axisInner it ts) batch tracks
    pure (batch, flushSpanOne tracks)
  else sizeBatchGeneralM s avail axisInner (item.crossesFlexibleTrack s.axis) flexFactorSum batch tracks

theorem batchLoopM_succ (s : Sizer α) (avail : AvailableSpace α) (axisInner : Option α) (ffs : α) (fuel : Nat)
    (items : List (GItem α)) (offset : Nat) (tracks : List (GridTrack α)) :
    batchLoopM s avail axisInner ffs (fuel + 1) items offset tracks =
      match items[offset]? with
      | none => pure (items, tracks)
      | some item =>
        batchWork s avail axisInner ffs item ((items.drop offset).take (batchNext s.axis items item - offset)) tracks
          >>= fun r =>
        if item.crossesFlexibleTrack s.axis then
          pure (items.take offset ++ r.1 ++ items.drop (batchNext s.axis items item), r.2)
        else batchLoopM s avail axisInner ffs fuel
          (items.take offset ++ r.1 ++ items.drop (batchNext s.axis items item)) (batchNext s.axis items item) r.2 := by
  rfl

theorem batchNext_rel {G : Nat → Prop} (axis : Ax) {items items' : List (GItem α)} (h : LR P G items items')
    (item : GItem α) : batchNext axis items' (phi P item) = batchNext axis items item := by
  unfold batchNext
  rw [phi_crossesFlexibleTrack, h.length, phi_span,
    h.findIdx? _ (fun a => by rw [phi_crossesFlexibleTrack, phi_span])]

include hw hR

theorem batchWork_rel (s : Sizer α) (avail : AvailableSpace α) (axisInner : Option α) (ffs : α) (item : GItem α)
    (batch batch' : List (GItem α)) (tracks : List (GridTrack α)) (h : LR P (NA w) batch batch') :
    GRel w (RLT P (NA w)) (batchWork s avail axisInner ffs item batch tracks)
      (batchWork s avail axisInner ffs (phi P item) batch' tracks) := by
  unfold batchWork
  rw [phi_crossesFlexibleTrack, phi_span]
  split
  · refine GRel.bindLT (forItemsM_rel _ (fun it ts hn => sizeSpanOneItemM_rel hw hR s avail axisInner it hn ts) _ _ _ h)
      fun l l' t hl => ?_
    exact GRel.pure ⟨hl, rfl⟩
  · exact sizeBatchGeneralM_rel hw hR s avail axisInner _ ffs _ _ tracks h

theorem batchLoopM_rel (s : Sizer α) (avail : AvailableSpace α) (axisInner : Option α) (ffs : α) :
    ∀ (fuel : Nat) (items items' : List (GItem α)) (offset : Nat) (tracks : List (GridTrack α)),
      LR P (NA w) items items' →
      GRel w (RLT P (NA w)) (batchLoopM s avail axisInner ffs fuel items offset tracks)
        (batchLoopM s avail axisInner ffs fuel items' offset tracks)
  | 0, items, items', offset, tracks, h => by
    unfold batchLoopM
    exact GRel.pure ⟨h, rfl⟩
  | fuel + 1, items, items', offset, tracks, h => by
    rw [batchLoopM_succ, batchLoopM_succ]
    rcases h.getElem? offset with ⟨h1, h2⟩ | ⟨item, h1, h2, _⟩
    · rw [h1, h2]
      exact GRel.pure ⟨h, rfl⟩
    · rw [h1, h2]
      dsimp only
      rw [batchNext_rel s.axis h, phi_crossesFlexibleTrack]
      refine GRel.bindLT (batchWork_rel hw hR s avail axisInner ffs item _ _ tracks ((h.drop _).take _))
        fun l l' t hl => ?_
      dsimp only
      have hcomb := ((h.take offset).append hl).append (h.drop (batchNext s.axis items item))
      split
      · exact GRel.pure ⟨hcomb, rfl⟩
      · exact batchLoopM_rel s avail axisInner ffs fuel _ _ _ t hcomb

omit hw hR in
theorem itemLe_phi (axis : Ax) (a b : GItem α) :
    GridModel.itemLe axis (phi P a) (phi P b) = GridModel.itemLe axis a b := by
  unfold GridModel.itemLe
  simp only [phi_crossesFlexibleTrack, phi_span, phi_placement]

theorem resolveIntrinsicTrackSizesM_rel (s : Sizer α) (tracks : List (GridTrack α)) (items items' : List (GItem α))
    (avail : AvailableSpace α) (h : LR P (NA w) items items') :
    GRel w (RLT P (NA w)) (resolveIntrinsicTrackSizesM s tracks items avail)
      (resolveIntrinsicTrackSizesM s tracks items' avail) := by
  unfold resolveIntrinsicTrackSizesM
  have hs := h.mergeSort (GridModel.itemLe s.axis) (itemLe_phi (P := P) s.axis)
  dsimp only
  rw [hs.length]
  refine GRel.bindLT (batchLoopM_rel hw hR s avail _ _ _ _ _ 0 tracks hs) fun l l' t hl => ?_
  exact GRel.pure ⟨hl, rfl⟩

/-! ### 11.7 -/

theorem flexItemFractions_rel (axis : Ax) (ins : Size (Option α)) (tracks : List (GridTrack α)) :
    ∀ (items items' : List (GItem α)), LR P (NA w) items items' →
      GRel w (fun r r' => LR P (NA w) r.1 r'.1 ∧ r'.2 = r.2) (flexItemFractions axis ins tracks items)
        (flexItemFractions axis ins tracks items')
  | [], items', h => by
    rw [h.1]
    exact GRel.pure ⟨LR.nil, rfl⟩
  | it :: rest, items', h => by
    rw [h.1, List.map_cons]
    unfold flexItemFractions
    have hn : ¬ w.abs it.node := h.2 it List.mem_cons_self
    have hrest : LR P (NA w) rest (rest.map (phi P)) := ⟨rfl, fun x hx => h.2 x (List.mem_cons_of_mem _ hx)⟩
    rw [phi_crossesFlexibleTrack]
    split
    · refine GRel.bindX (maxContentContributionCached_rel hw hR it hn axis Size.none ins) fun v i2 hs => ?_
      dsimp only
      rw [phi_spannedTracks]
      refine GRel.bind (flexItemFractions_rel axis ins tracks rest _ hrest) fun r r' hr => ?_
      obtain ⟨l, fr⟩ := r
      obtain ⟨l', fr'⟩ := r'
      obtain ⟨h1, h2⟩ := hr
      simp only at h1 h2
      rw [h2]
      exact GRel.pure ⟨LR.cons (IR.of_static hs hn) h1, rfl⟩
    · refine GRel.bind (flexItemFractions_rel axis ins tracks rest _ hrest) fun r r' hr => ?_
      obtain ⟨l, fr⟩ := r
      obtain ⟨l', fr'⟩ := r'
      obtain ⟨h1, h2⟩ := hr
      simp only at h1 h2
      rw [h2]
      exact GRel.pure ⟨LR.cons ⟨rfl, hn⟩ h1, rfl⟩

theorem expandFlexibleTracksM_rel (axis : Ax) (tracks : List (GridTrack α)) (items items' : List (GItem α))
    (mn mx : Option α) (av : AvailableSpace α) (ins : Size (Option α)) (h : LR P (NA w) items items') :
    GRel w (RLT P (NA w)) (expandFlexibleTracksM axis tracks items mn mx av ins)
      (expandFlexibleTracksM axis tracks items' mn mx av ins) := by
  unfold expandFlexibleTracksM
  refine GRel.bind (Q := fun r r' => LR P (NA w) r.1 r'.1 ∧ r'.2 = r.2) ?_ fun r r' hr => ?_
  · cases av with
    | definite v => exact GRel.pure ⟨h, rfl⟩
    | minContent => exact GRel.pure ⟨h, rfl⟩
    | maxContent =>
      refine GRel.bind (flexItemFractions_rel hw hR axis ins tracks _ _ h) fun r r' hr => ?_
      obtain ⟨l, fr⟩ := r
      obtain ⟨l', fr'⟩ := r'
      obtain ⟨h1, h2⟩ := hr
      simp only at h1 h2
      rw [h2]
      exact GRel.pure ⟨h1, rfl⟩
  · obtain ⟨l, fr⟩ := r
    obtain ⟨l', fr'⟩ := r'
    obtain ⟨h1, h2⟩ := hr
    simp only at h1 h2
    rw [h2]
    exact GRel.pure ⟨h1, rfl⟩

/-! ### `track_sizing_algorithm` -/

/-- run states: tracks equal, items related -/
def RST (P : Nat → Bool) (G : Nat → Prop) (st st' : RunState α) : Prop :=
  st'.axisTracks = st.axisTracks ∧ st'.otherAxisTracks = st.otherAxisTracks ∧ LR P G st.items st'.items

theorem trackSizingAlgorithmM_rel (a : RunArgs α) (st st' : RunState α) (h : RST P (NA w) st st') :
    GRel w (RST P (NA w)) (trackSizingAlgorithmM a st) (trackSizingAlgorithmM a st') := by
  obtain ⟨h1, h2, h3⟩ := h
  unfold trackSizingAlgorithmM
  rw [h1, h2]
  refine GRel.bind (Q := LR P (NA w)) ?_ fun l l' hl => ?_
  · split
    · exact resolveItemBaselines_rel hw a.axis a.innerNodeSize _ _ h3
    · exact GRel.pure h3
  · dsimp only
    split
    · exact GRel.pure ⟨rfl, rfl, hl⟩
    · refine GRel.bindLT (resolveIntrinsicTrackSizesM_rel hw hR _ _ _ _ _ hl) fun l2 l2' t2 hl2 => ?_
      refine GRel.bindLT (expandFlexibleTracksM_rel hw hR _ _ _ _ _ _ _ _ hl2) fun l3 l3' t3 hl3 => ?_
      exact GRel.pure ⟨rfl, rfl, hl3⟩

end GridRel
