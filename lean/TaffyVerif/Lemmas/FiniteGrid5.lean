/-
  C03 (finiteness at `ER`) — the grid program, part 5: `initialize_grid_tracks` (`InitTracksFin`): every track it creates
  carries a sizing function of the template / of the auto tracks / the gap (or `0px` when collapsed), all other numbers
  are 0, and the vector has `2·n + 1` entries.
-/
import TaffyVerif.Lemmas.FiniteGrid4
import TaffyVerif.Lemmas.GridTracksInit
import TaffyVerif.Lemmas.GridLiftTracks

set_option linter.unusedSectionVars false
set_option linter.unusedVariables false

namespace C03Fin
open GridModel GridTracks EvalGrid

theorem fin_newWithKind {k : TrackKind} {mn : MinTrack ER} {mx : MaxTrack ER} (h1 : MinTrackFin mn) (h2 : MaxTrackFin mx) :
    TrackFin (GridTrack.newWithKind k mn mx) :=
  ⟨h1, h2, fin_zero, fin_zero, fin_zero, fin_zero, fin_zero, fin_zero, fin_zero⟩

theorem fin_track_new {f : TrackFn ER} (h : TrackFnFin f) : TrackFin (GridTrack.new f) := fin_newWithKind h.1 h.2

theorem fin_track_gutter {gap : LP ER} (h : LPFin gap) : TrackFin (GridTrack.gutter gap) := by
  unfold GridTrack.gutter
  cases gap <;> exact fin_newWithKind h h

theorem fin_track_collapse {t : GridTrack ER} (h : TrackFin t) : TrackFin t.collapse :=
  { h with minFn := fin_zero, maxFn := fin_zero }

theorem fin_trackFn_auto : TrackFnFin (TrackFn.auto : TrackFn ER) := ⟨trivial, trivial⟩

theorem fin_getD_fn {fs : List (TrackFn ER)} {i : Nat} (h : ∀ f ∈ fs, TrackFnFin f) : TrackFnFin (fs.getD i TrackFn.auto) := by
  rw [List.getD_eq_getElem?_getD]
  cases hg : fs[i]? with
  | none => exact fin_trackFn_auto
  | some f => exact h f (List.mem_of_getElem? hg)

theorem fin_autoTrackAt {fs : List (TrackFn ER)} {off i : Nat} (h : ∀ f ∈ fs, TrackFnFin f) :
    TrackFnFin (autoTrackAt fs off i) := by
  unfold autoTrackAt
  split
  · exact fin_trackFn_auto
  · exact fin_getD_fn h

theorem fin_cycleTake {fs : List (TrackFn ER)} {n : Nat} (h : ∀ f ∈ fs, TrackFnFin f) :
    ∀ f ∈ cycleTake fs n, TrackFnFin f := by
  intro f hf
  unfold cycleTake at hf
  split at hf
  · cases hf
  · obtain ⟨i, _, rfl⟩ := List.mem_map.mp hf
    exact fin_getD_fn h

theorem fin_createImplicitTracks {count : Nat} {nth : Nat → TrackFn ER} {gap : LP ER} (hn : ∀ i, TrackFnFin (nth i))
    (hg : LPFin gap) : TracksFin (createImplicitTracks count nth gap) := by
  unfold createImplicitTracks
  refine GridLift.all_flatMap _ _ _ fun i t ht => ?_
  simp only [List.mem_cons, List.not_mem_nil, or_false] at ht
  rcases ht with rfl | rfl
  · exact fin_track_new (hn i)
  · exact fin_track_gutter hg

theorem fin_autoRepeatTracks {fit : Bool} {fs : List (TrackFn ER)} {n : Nat} {gap : LP ER} {has : Nat → Bool} {idx : Nat}
    (h : ∀ f ∈ fs, TrackFnFin f) (hg : LPFin gap) : TracksFin (autoRepeatTracks fit fs n gap has idx) := by
  unfold autoRepeatTracks
  intro t ht
  obtain ⟨⟨f, i⟩, hfi, ht⟩ := List.mem_flatMap.1 ht
  have hf : TrackFnFin f := by
    have hm := List.mem_zipIdx hfi
    have : f ∈ cycleTake fs n := by rw [hm.2.2]; exact List.getElem_mem _
    exact fin_cycleTake h f this
  simp only [] at ht
  split at ht <;> simp only [List.mem_cons, List.not_mem_nil, or_false] at ht <;> rcases ht with rfl | rfl
  · exact fin_track_collapse (fin_track_new hf)
  · exact fin_track_collapse (fin_track_gutter hg)
  · exact fin_track_new hf
  · exact fin_track_gutter hg

theorem fin_explicitTracks {autoN : Nat} {gap : LP ER} {has : Nat → Bool} (hg : LPFin gap) :
    ∀ (tpl : List (TrackDef ER)) (idx : Nat), (∀ d ∈ tpl, TrackDefFin d) →
      TracksFin (explicitTracks autoN gap has tpl idx) := by
  intro tpl
  induction tpl with
  | nil => intro idx _ t ht; cases ht
  | cons d rest ih =>
    intro idx hd t ht
    have hrest : ∀ d ∈ rest, TrackDefFin d := fun x hx => hd x (List.mem_cons_of_mem _ hx)
    have hd0 := hd d (List.mem_cons_self ..)
    cases d with
    | single f =>
      simp only [explicitTracks, List.cons_append, List.nil_append, List.mem_cons] at ht
      rcases ht with rfl | rfl | ht
      · exact fin_track_new hd0
      · exact fin_track_gutter hg
      · exact ih _ hrest t ht
    | rep r fs =>
      have hfs : ∀ f ∈ fs, TrackFnFin f := hd0
      cases r with
      | count c =>
        simp only [explicitTracks, List.mem_append] at ht
        rcases ht with ht | ht
        · obtain ⟨f, hf, ht⟩ := List.mem_flatMap.1 ht
          simp only [List.mem_cons, List.not_mem_nil, or_false] at ht
          rcases ht with rfl | rfl
          · exact fin_track_new (fin_cycleTake hfs f hf)
          · exact fin_track_gutter hg
        · exact ih _ hrest t ht
      | autoFit =>
        simp only [explicitTracks, List.mem_append] at ht
        rcases ht with ht | ht
        · exact fin_autoRepeatTracks hfs hg t ht
        · exact ih _ hrest t ht
      | autoFill =>
        simp only [explicitTracks, List.mem_append] at ht
        rcases ht with ht | ht
        · exact fin_autoRepeatTracks hfs hg t ht
        · exact ih _ hrest t ht

/-- **initialize_grid_tracks**: finite track sizing functions and a finite gap ⇒ finite tracks, `2·n + 1` of them -/
theorem initTracksFin_odd (counts : TrackCounts) (tpl : List (TrackDef ER)) (autoTracks : List (TrackFn ER)) (gap : LP ER)
    (has : Nat → Bool) (ts : List (GridTrack ER)) (htpl : ∀ d ∈ tpl, TrackDefFin d) (hauto : ∀ f ∈ autoTracks, TrackFnFin f)
    (hg : LPFin gap) (h : initializeGridTracks counts tpl autoTracks gap has = Except.ok ts) :
    TracksFin ts ∧ ts.length % 2 = 1 := by
  unfold initializeGridTracks at h
  split at h
  · cases h
  · split at h
    · cases h
    · rename_i autoN _
      cases h
      have hbody : TracksFin (GridTrack.gutter gap :: bodyTracks counts tpl autoTracks gap has autoN) := by
        intro t ht
        rcases List.mem_cons.1 ht with rfl | ht
        · exact fin_track_gutter hg
        · unfold bodyTracks at ht
          simp only [List.mem_append] at ht
          rcases ht with (ht | ht) | ht
          · split at ht
            · exact fin_createImplicitTracks (fun i => fin_autoTrackAt hauto) hg t ht
            · cases ht
          · split at ht
            · exact fin_explicitTracks hg _ _ htpl t ht
            · cases ht
          · exact fin_createImplicitTracks (fun i => fin_autoTrackAt hauto) hg t ht
      refine ⟨?_, ?_⟩
      · intro t ht
        unfold collapseFirstLast at ht
        rcases GridLift.mem_modify _ _ _ _ ht with ht | ⟨x, hx, rfl⟩
        · rcases GridLift.mem_modify _ _ _ _ ht with ht | ⟨x, hx, rfl⟩
          · exact hbody t ht
          · exact fin_track_collapse (hbody x hx)
        · rcases GridLift.mem_modify _ _ _ _ hx with hx | ⟨y, hy, rfl⟩
          · exact fin_track_collapse (hbody x hx)
          · exact fin_track_collapse (fin_track_collapse (hbody y hy))
      · rw [collapseFirstLast_length, List.length_cons]
        have := (pairs_bodyTracks counts tpl autoTracks gap has autoN).length_even
        omega

theorem initTracksFin : InitTracksFin :=
  fun counts tpl autoTracks gap has ts htpl hauto hg h => (initTracksFin_odd counts tpl autoTracks gap has ts htpl hauto hg h).1

end C03Fin
