/-
  C07 lifted to the flexbox program, part 5: assembly of the order / no-overlap theorem.

    * `mem_generateItemsFrom_eq`, `items0_of_styles`   the generated items, from the child styles
    * `flexRun_dirs`                                    the direction of the constants is the style's, at every stage
    * `flexRun_line_order`                              C07 `line_order_no_overlap` for every line of every run
    * `flexRun_gap_of_length`                           the main gap of the run for a gap given as a length
-/
import TaffyVerif.Lemmas.LiftFlexCross
import TaffyVerif.Props.C07

set_option linter.unusedSectionVars false
set_option linter.unusedVariables false

namespace Lift
open FlexModel EvalFlex FlexLine FlexStages
open EvalBlock (Post Post_bind Post_true)
open AbsPos (Dir.mainStart Dir.mainEnd)

/-! ### the generated items -/

theorem mem_generateItemsFrom_eq (k : AlgoConstants Rat) : ∀ (l : List (Style Rat)) (idx : Nat) (it : FlexItem Rat),
    it ∈ generateItemsFrom k l idx → ∃ j s, l[j]? = some s ∧ isItem s = true ∧ it = generateItem k (idx + j) s
  | [], _, _, h => by simp [generateItemsFrom] at h
  | s :: rest, idx, it, h => by
    have step : it ∈ generateItemsFrom k rest (idx + 1) →
        ∃ j s', (s :: rest)[j]? = some s' ∧ isItem s' = true ∧ it = generateItem k (idx + j) s' := by
      intro h'
      obtain ⟨j, s', h1, h2, h3⟩ := mem_generateItemsFrom_eq k rest (idx + 1) it h'
      exact ⟨j + 1, s', by simpa using h1, h2, by rw [h3]; congr 1; omega⟩
    rw [generateItemsFrom_cons] at h
    by_cases hs : isItem s = true
    · rw [if_pos hs] at h
      rcases List.mem_cons.1 h with h | h
      · exact ⟨0, s, rfl, hs, h⟩
      · exact step h
    · rw [if_neg hs] at h
      exact step h

/-- a predicate of all generated items, from the styles of the in-flow children -/
theorem items0_of_styles (style : Style Rat) (cs : List (Style Rat)) (inputs : LayoutInput Rat)
    (P : FlexItem Rat → Prop)
    (h : ∀ i s, cs[i]? = some s → isItem s = true → P (generateItem (k0 style inputs) i s)) :
    AllI P (items0 style cs inputs) := by
  intro it hit
  obtain ⟨j, s, h1, h2, h3⟩ := mem_generateItemsFrom_eq (k0 style inputs) cs 0 it hit
  rw [h3, Nat.zero_add]
  exact h j s h1 h2

/-! ### directions -/

theorem flexRun_dirs (orc : Orc) (style : Style Rat) (cs : List (Style Rat)) (inp : LayoutInput Rat) :
    (flexMid orc style cs inp).2.dir = style.flexDirection ∧ (flexFinalK orc style cs inp).2.dir = style.flexDirection := by
  have h1 : frameK (flexMid orc style cs inp).2 = frameK (k0 style (flexInp style inp)) :=
    res_post orc _ (Post_flexPrefix_frame style cs (flexInp style inp))
  exact ⟨frameK_dir h1, frameK_dir (flexFinalK_frame orc style cs inp)⟩

/-! ### order and no overlap, line by line -/

/-- **flexRun_line_order**: in a PerformLayout run, for every line the final layout pass visits there is the list `Ls` of
the `(child, layout)` pairs set for its items, in document order, whose main-axis margin boxes are pairwise ordered
(`end_i ≤ start_j` for `i` before `j`; reversed for `*-reverse`) and non-degenerate -/
theorem flexRun_line_order (orc : Orc) (style : Style Rat) (cs : List (Style Rat)) (inp : LayoutInput Rat)
    (h : inp.runMode = .performLayout)
    (hgap : 0 ≤ (flexMid orc style cs inp).2.gap.main style.flexDirection)
    (hitems : AllI (MainOK style.flexDirection) (items0 style cs (flexInp style inp)))
    (hsize : ∀ i q, 0 ≤ (orc i q).size.main style.flexDirection) :
    ∀ ln ∈ flexAlignedLines orc style cs inp, ∃ Ls : List (Nat × Layout Rat),
      Ls.map Prod.fst = iidx ln.items ∧
      (∀ x ∈ Ls, x ∈ lays orc (computeFlexboxLayout style cs inp)) ∧
      (Ls.map fun x => mbox style.flexDirection x.2).Pairwise
        (fun a b => if style.flexDirection.isReverse then b.2 ≤ a.1 else a.2 ≤ b.1) ∧
      ∀ x ∈ Ls, (mbox style.flexDirection x.2).1 ≤ (mbox style.flexDirection x.2).2 := by
  intro ln hln
  obtain ⟨hd1, hd2⟩ := flexRun_dirs orc style cs inp
  have hmid : AllIt (MainOK style.flexDirection) (flexMid orc style cs inp).1 :=
    res_post orc _ (Post_flexPrefix_all style cs (flexInp style inp) (stable_MainOK _) hitems)
  have hshape := mshape_aligned cs (flexInp style inp) (flexMid orc style cs inp).2 (flexFinalK orc style cs inp).2
    (flexFinalK orc style cs inp).1 (flexMid orc style cs inp).1
  have hm : ln.items.map (toM (flexMid orc style cs inp).2.dir) ∈
      mshape (flexMid orc style cs inp).2.dir (flexAlignedLines orc style cs inp) :=
    List.mem_map_of_mem (f := fun l : FlexLineS Rat => l.items.map (toM (flexMid orc style cs inp).2.dir)) hln
  have hshape' : mshape (flexMid orc style cs inp).2.dir (flexAlignedLines orc style cs inp) = _ := hshape
  rw [hshape'] at hm
  obtain ⟨ms, hms, hD⟩ := List.mem_map.1 hm
  obtain ⟨ml, hml, hmle⟩ := List.mem_map.1 hms
  subst hmle
  rw [hd1] at hD
  obtain ⟨toc, hmem⟩ := mem_lays_finalLayoutPass_of_line orc (flexFinalK orc style cs inp).2
    (flexAlignedLines orc style cs inp) ln hln
  have hbox := lineLays_mbox orc (flexFinalK orc style cs inp).2 ln toc
  rw [hd2] at hbox
  have hzs : (zsOf orc (flexFinalK orc style cs inp).2 ln.items).map Prod.fst =
      distributeRemainingFreeSpace (ml.items.map (toM style.flexDirection))
        ((flexMid orc style cs inp).2.innerContainerSize.main style.flexDirection)
        ((flexMid orc style cs inp).2.gap.main style.flexDirection) (flexMid orc style cs inp).2.justifyContent
        style.flexDirection := by
    rw [hD]
    simp only [zsOf, List.map_map, hd2]
    rfl
  have hC := C07.line_order_no_overlap (ml.items.map (toM style.flexDirection))
    ((flexMid orc style cs inp).2.innerContainerSize.main style.flexDirection)
    ((flexMid orc style cs inp).2.gap.main style.flexDirection)
    (Dir.mainStart (flexFinalK orc style cs inp).2.contentBoxInset style.flexDirection)
    (flexMid orc style cs inp).2.justifyContent style.flexDirection
    (zsOf orc (flexFinalK orc style cs inp).2 ln.items) hgap
    (by
      intro c hc
      obtain ⟨it, hit, rfl⟩ := List.mem_map.1 hc
      obtain ⟨h1, h2⟩ := hmid ml hml it hit
      exact ⟨h1, by rw [h2]⟩)
    hzs
    (by
      intro z hz
      obtain ⟨it, _, rfl⟩ := List.mem_map.1 hz
      rw [hd2]
      exact hsize _ _)
  rw [← hbox] at hC
  refine ⟨lineLays orc (flexFinalK orc style cs inp).2 ln toc, lineLays_fst _ _ _ _, ?_, hC.1, ?_⟩
  · intro x hx
    rw [flexRun_lays orc style cs inp h]
    exact List.mem_append_left _ (hmem x hx)
  · intro x hx
    exact hC.2 _ (List.mem_map_of_mem (f := fun x : Nat × Layout Rat => mbox style.flexDirection x.2) hx)

/-! ### the main gap of the run -/

theorem Post_mainSizeStage_gap (style : Style Rat) (k : AlgoConstants Rat) (av : Size (AvailableSpace Rat))
    (lines : List (FlexLineS Rat)) (g : Rat) (hg : style.gap.main k.dir = .length g) (hk : k.gap.main k.dir = g) :
    Post (fun r => r.2.gap.main k.dir = g) (mainSizeStage style k av lines) := by
  unfold mainSizeStage
  split
  · exact hk
  · refine Post_bind _ _ (Post_determineContainerMainSize_frame k av lines) fun a ha => ?_
    obtain ⟨l, k'⟩ := a
    have hd : k'.dir = k.dir := frameK_dir ha
    show (setMain k'.gap k'.dir ((style.gap.main k'.dir).resolveOrZero _)).main k.dir = g
    rw [hd, main_setMain, hg]
    rfl

/-- a main-axis gap given as a length is the main gap of the run -/
theorem flexRun_gap_of_length (orc : Orc) (style : Style Rat) (cs : List (Style Rat)) (inp : LayoutInput Rat) (g : Rat)
    (hg : style.gap.main style.flexDirection = .length g) :
    (flexMid orc style cs inp).2.gap.main style.flexDirection = g := by
  have hk0 : (k0 style (flexInp style inp)).gap.main (k0 style (flexInp style inp)).dir = g := by
    show (Resolve.sizeLPOrZero style.gap _).main style.flexDirection = g
    unfold Resolve.sizeLPOrZero Size.main at *
    split at hg <;> simp_all [LP.resolveOrZero, LP.maybeResolve]
  have hP : Post (fun r => r.2.gap.main style.flexDirection = g) (flexPrefix style cs (flexInp style inp)) := by
    unfold flexPrefix
    refine Post_bind _ _ (Post_true _) fun items _ => ?_
    refine Post_bind _ _ (Post_mainSizeStage_gap style (k0 style (flexInp style inp)) _ _ g hg hk0) fun r hr => ?_
    exact Post_mono _ (Post_hypStage_consts (flexInp style inp) _ r) fun r' hr' => by rw [hr']; exact hr
  exact res_post orc _ hP

end Lift
