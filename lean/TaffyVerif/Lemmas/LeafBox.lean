/-
  Helper lemmas for C19: the leaf/root model at `Rat` rewritten into the vocabulary of `Spec/LeafBox.lean`.
-/
import TaffyVerif.Model.Root
import TaffyVerif.Spec.LeafBox
import Mathlib.Tactic.Linarith
import Mathlib.Tactic.SplitIfs
import Mathlib.Tactic.Ring

namespace C19L
open LeafModel RootModel

abbrev MeasureFn := Size (Option Rat) → Size (AvailableSpace Rat) → Size Rat

theorem fmax_def (a b : Rat) : Num.fmax a b = if a ≤ b then b else a := rfl
theorem fmin_def (a b : Rat) : Num.fmin a b = if a ≤ b then a else b := rfl
theorem fle_def (a b : Rat) : Num.fle a b = decide (a ≤ b) := rfl
theorem flt_def (a b : Rat) : Num.flt a b = decide (a < b) := rfl

/-! ### plumbing: code-level helpers are the specification's helpers -/

theorem intoOption_eq (a : AvailableSpace Rat) : a.intoOption = Spec.definite a := by cases a <;> rfl

theorem lp_resolve (x : LP Rat) (b : Option Rat) : x.resolveOrZero b = Spec.edge b x := by
  cases x <;> cases b <;> rfl

theorem lpa_resolve (x : LPA Rat) (b : Option Rat) : x.resolveOrZero b = Spec.edgeA b x := by
  cases x <;> cases b <;> rfl

theorem lpa_maybe (x : LPA Rat) (b : Option Rat) : x.maybeResolve b = Spec.lengthOf b x := by
  cases x <;> cases b <;> rfl

theorem padding_eq (s : Style Rat) (av : Size (AvailableSpace Rat)) :
    Resolve.rectLPOrZero s.padding av.width.intoOption = Spec.padding s av := by
  simp only [Resolve.rectLPOrZero, Spec.padding, lp_resolve, intoOption_eq]

theorem border_eq (s : Style Rat) (av : Size (AvailableSpace Rat)) :
    Resolve.rectLPOrZero s.border av.width.intoOption = Spec.border s av := by
  simp only [Resolve.rectLPOrZero, Spec.border, lp_resolve, intoOption_eq]

theorem margin_eq (s : Style Rat) (av : Size (AvailableSpace Rat)) :
    Resolve.rectLPAOrZero s.margin av.width.intoOption = Spec.margin s av := by
  simp only [Resolve.rectLPAOrZero, Spec.margin, lpa_resolve, intoOption_eq]

theorem pb_eq (s : Style Rat) (av : Size (AvailableSpace Rat)) :
    ((Spec.padding s av).add (Spec.border s av)).sumAxes = Spec.pb s av := rfl

theorem adj_eq (s : Style Rat) (av : Size (AvailableSpace Rat)) :
    (if s.boxSizing == .contentBox then Spec.pb s av else Size.zero) = Spec.boxAdj s av := by
  unfold Spec.boxAdj; cases s.boxSizing <;> rfl

theorem fo_clamp_eq (x : Rat) (mn mx : Option Rat) : MaybeMath.fo_clamp x mn mx = Spec.clampMinWins x mn mx := by
  cases mn <;> cases mx <;> rfl

theorem oo_clamp_eq (x mn mx : Option Rat) :
    MaybeMath.oo_clamp x mn mx = x.map fun v => Spec.clampMinWins v mn mx := by
  cases x <;> cases mn <;> cases mx <;> rfl

/-- `maybe_resolve → maybe_apply_aspect_ratio → maybe_add(box_sizing_adjustment)` is `Spec.declared … true` -/
theorem declared_transfer (s : Style Rat) (av : Size (AvailableSpace Rat)) (d : Size (Dimension Rat)) :
    ((Resolve.sizeMaybe d (av.map AvailableSpace.intoOption)).maybeApplyAspectRatio s.aspectRatio).of_add (Spec.boxAdj s av)
      = Spec.declared s av d true := by
  simp only [Resolve.sizeMaybe, Size.map, lpa_maybe, intoOption_eq, Spec.declared, Size.maybeApplyAspectRatio,
    Size.of_add, MaybeMath.of_add]
  cases s.aspectRatio <;> cases Spec.lengthOf (Spec.definite av.width) d.width <;>
    cases Spec.lengthOf (Spec.definite av.height) d.height <;> rfl

/-- without the aspect-ratio step -/
theorem declared_plain (s : Style Rat) (av : Size (AvailableSpace Rat)) (d : Size (Dimension Rat)) :
    (Resolve.sizeMaybe d (av.map AvailableSpace.intoOption)).of_add (Spec.boxAdj s av) = Spec.declared s av d false := by
  simp only [Resolve.sizeMaybe, Size.map, lpa_maybe, intoOption_eq, Spec.declared, Size.of_add, MaybeMath.of_add]
  cases s.aspectRatio <;> rfl


/-! ### the root's known dimensions and the leaf called from the root -/


/-- hypothesis "max-size has both axes definite or neither" (only matters with an aspect ratio) -/
def MaxBothOrNeither (s : Style Rat) (av : Size (AvailableSpace Rat)) : Prop :=
  (Spec.lengthOf (Spec.definite av.width) s.maxSize.width).isSome
    = (Spec.lengthOf (Spec.definite av.height) s.maxSize.height).isSome

instance (s : Style Rat) (av : Size (AvailableSpace Rat)) : Decidable (MaxBothOrNeither s av) := by
  unfold MaxBothOrNeither; infer_instance

theorem declared_max_eq (s : Style Rat) (av : Size (AvailableSpace Rat))
    (h : s.aspectRatio = none ∨ MaxBothOrNeither s av) :
    Spec.declared s av s.maxSize true = Spec.maxS s av := by
  unfold Spec.maxS Spec.declared MaxBothOrNeither at *
  rcases h with h | h
  · simp [h]
  · cases har : s.aspectRatio with
    | none => rfl
    | some r =>
      revert h
      cases Spec.lengthOf (Spec.definite av.width) s.maxSize.width <;>
        cases Spec.lengthOf (Spec.definite av.height) s.maxSize.height <;> simp

theorem rootKnown_nonblock (s : Style Rat) (av : Size (AvailableSpace Rat)) (hd : s.display ≠ .block) :
    rootKnownDimensions s av = Size.none := by
  unfold rootKnownDimensions
  have : s.isBlock = false := by
    unfold Style.isBlock; cases h : s.display <;> first | rfl | exact absurd h hd
  simp [this]

theorem rootKnown_block (s : Style Rat) (av : Size (AvailableSpace Rat)) (hd : s.display = .block)
    (h : s.aspectRatio = none ∨ MaxBothOrNeither s av) :
    rootKnownDimensions s av = Spec.settledOuter s av := by
  unfold rootKnownDimensions
  have hb : s.isBlock = true := by unfold Style.isBlock; rw [hd]; rfl
  simp only [hb, if_true, Size.map, margin_eq, padding_eq, border_eq, pb_eq, adj_eq]
  have e1 := declared_transfer s av s.size
  have e2 := declared_transfer s av s.minSize
  have e3 := declared_transfer s av s.maxSize
  simp only [Size.map] at e1 e2 e3
  rw [e1, e2, e3, declared_max_eq s av h]
  unfold Spec.settledOuter
  simp only [hd]
  simp only [Size.orOpt, Size.none, Size.zipMap, Size.oo_clamp, Size.of_max, MaybeMath.of_max, oo_clamp_eq, Spec.pref,
    Spec.minS, Spec.stretchWidth, hd, intoOption_eq, MaybeMath.of_sub, Option.none_or, Option.or_none, Spec.floorAt,
    Spec.marginSum, Rect.horizontalAxisSum]
  rfl


theorem scrollbarGutter_eq (s : Style Rat) :
    scrollbarGutter s = ⟨(Spec.gutter s).width, (Spec.gutter s).height⟩ := by
  unfold scrollbarGutter Spec.gutter Point.transpose
  cases s.overflow.x <;> cases s.overflow.y <;> simp

/-- node_size of the leaf when called from the root -/
def NS (s : Style Rat) (av : Size (AvailableSpace Rat)) : Size (Option Rat) :=
  (rootKnownDimensions s av).orOpt (Spec.pref s av)

def insetOf (s : Style Rat) (av : Size (AvailableSpace Rat)) : Rect Rat :=
  contentBoxInset ((Spec.padding s av).add (Spec.border s av)) ⟨(Spec.gutter s).width, (Spec.gutter s).height⟩

def Acode (s : Style Rat) (av : Size (AvailableSpace Rat)) : Size (AvailableSpace Rat) :=
  measureAvailableSpace (rootInput s av) (Spec.margin s av) (insetOf s av) (NS s av) (Spec.minS s av) (Spec.maxS s av)

theorem leaf_at_root (s : Style Rat) (m : MeasureFn) (av : Size (AvailableSpace Rat)) :
    ∃ out, computeLeafLayout (rootInput s av) s m = .ok (out, [⟨Size.none, Acode s av⟩]) ∧
      out.contentSize = (m Size.none (Acode s av)).add (Spec.padding s av).sumAxes ∧
      out.size =
        (let cl := Size.fo_clamp (((rootKnownDimensions s av).orOpt (NS s av)).unwrapOr
                    ((m Size.none (Acode s av)).add (insetOf s av).sumAxes)) (Spec.minS s av) (Spec.maxS s av)
         Size.f32Max ⟨cl.width,
           if ((rootKnownDimensions s av).orOpt (NS s av)).height.isSome then cl.height
           else MaybeMath.fo_clamp (Num.fmax cl.height ((s.aspectRatio.map fun r => cl.width / r).getD 0))
             (Spec.minS s av).height (Spec.maxS s av).height⟩ (Spec.pb s av)) := by
  have e1 := declared_transfer s av s.size
  have e2 := declared_transfer s av s.minSize
  have e3 := declared_plain s av s.maxSize
  simp only [Size.map] at e1 e2 e3
  have hrm : (RunMode.performLayout == RunMode.computeSize) = false := rfl
  unfold computeLeafLayout
  simp only [rootInput, nodeSizes, box, Size.map, margin_eq, padding_eq, border_eq, pb_eq, adj_eq, e1, e2, e3,
    scrollbarGutter_eq, hrm, Bool.false_and, Bool.false_eq_true, if_false]
  exact ⟨_, rfl, rfl, rfl⟩


/-! ### per-axis algebra -/


def deg (mn mx : Option Rat) : Option Rat :=
  match mn, mx with
  | some a, some b => if Num.fle b a then some a else none
  | _, _ => none

/-- one axis of `Spec.settledOuter` for a block root -/
def Kax (P mn mx st : Option Rat) (pb : Rat) : Option Rat :=
  (((deg mn mx).or (P.map fun v => Spec.clampMinWins v mn mx)).or st).map (Spec.floorAt · pb)

macro "axis_algebra" : tactic => `(tactic|
  (simp only [Kax, deg, fle_def, decide_eq_true_eq] <;> (try split_ifs) <;>
   (try simp only [Spec.clampMinWins, Spec.floorAt, fmax_def, fmin_def, Option.or_some, Option.none_or, Option.or_none,
      Option.some_or, Option.map_some, Option.map_none, Option.getD_some, Option.getD_none]) <;>
   (try split_ifs) <;> (try linarith)))

theorem fmax_comm3 (a x p : Rat) : Num.fmax (Num.fmax a x) p = Num.fmax (Num.fmax a p) x := by
  simp only [fmax_def]; split_ifs <;> linarith

/-- (A2) the root's pre-sizing of a block does not change the clamped, floored size -/
theorem floor_clamp_K (P mn mx st : Option Rat) (pb c : Rat) :
    Spec.floorAt (Spec.clampMinWins (((Kax P mn mx st pb).or ((Kax P mn mx st pb).or P)).getD c) mn mx) pb
      = Spec.floorAt (Spec.clampMinWins ((P.or st).getD c) mn mx) pb := by
  cases P <;> cases mn <;> cases mx <;> cases st <;> axis_algebra



/-- (A5a) with the floor inactive the unfloored clamped size is unchanged too -/
theorem clamp_K_of_floor_inactive (P mn mx st : Option Rat) (pb c : Rat)
    (h : pb ≤ Spec.clampMinWins ((P.or st).getD c) mn mx) :
    Spec.clampMinWins (((Kax P mn mx st pb).or ((Kax P mn mx st pb).or P)).getD c) mn mx
      = Spec.clampMinWins ((P.or st).getD c) mn mx := by
  revert h
  cases P <;> cases mn <;> cases mx <;> cases st <;> axis_algebra <;>
    (intro h; first | trivial | linarith)

/-- (A5b) in general it is at most the floored size -/
theorem clamp_K_le (P mn mx st : Option Rat) (pb c : Rat) :
    Spec.clampMinWins (((Kax P mn mx st pb).or ((Kax P mn mx st pb).or P)).getD c) mn mx
      ≤ Spec.floorAt (Spec.clampMinWins ((P.or st).getD c) mn mx) pb := by
  cases P <;> cases mn <;> cases mx <;> cases st <;> axis_algebra

theorem clamp_le_floor (v pb : Rat) (mn mx : Option Rat) :
    Spec.clampMinWins v mn mx ≤ Spec.floorAt (Spec.clampMinWins v mn mx) pb := by
  simp only [Spec.floorAt, fmax_def]; split_ifs <;> linarith

/-- `K.or P = K` for a block root -/
theorem K_or_P (P mn mx st : Option Rat) (pb : Rat) : (Kax P mn mx st pb).or P = Kax P mn mx st pb := by
  cases P <;> cases mn <;> cases mx <;> cases st <;> axis_algebra

/-- (A4) aspect-ratio floor with an automatic height -/
theorem ar_auto_height (nat x pb : Rat) (mn mx : Option Rat)
    (h : x ≤ Spec.floorAt (Spec.clampMinWins (Num.fmax nat x) mn mx) pb) :
    Num.fmax (Spec.floorAt (Spec.clampMinWins nat mn mx) pb) x
      = Spec.floorAt (Spec.clampMinWins (Num.fmax nat x) mn mx) pb := by
  cases mn <;> cases mx <;> simp only [Spec.clampMinWins, Spec.floorAt, fmax_def, fmin_def] at h ⊢ <;>
    split_ifs at h ⊢ <;> linarith

theorem fmax_of_le (a x : Rat) (h : x ≤ a) : Num.fmax a x = a := by
  simp only [fmax_def]; split_ifs <;> linarith

theorem floor_ge (v pb : Rat) : pb ≤ Spec.floorAt v pb := by
  simp only [Spec.floorAt, fmax_def]; split_ifs <;> linarith

theorem floor_eq_of_le (v pb : Rat) (h : pb ≤ v) : Spec.floorAt v pb = v := by
  simp only [Spec.floorAt, fmax_def]; split_ifs <;> linarith




theorem availableAxis_eq (K P mn mx : Option Rat) (avail : AvailableSpace Rat) (margin ins pb gut : Rat)
    (hins : ins = pb + gut) :
    availableAxis K avail margin (K.or P) mn mx ins = Spec.measureAvailAxis (K.or P) avail margin mn mx pb gut := by
  subst hins
  cases K <;> cases P <;> cases avail <;>
    simp [availableAxis, Spec.measureAvailAxis, AvailableSpace.maybeSet, MaybeMath.af_sub, fo_clamp_eq, Spec.definite]



/-! ### assembling the size -/

/-- the root's known dimension in one axis: settled for a block, nothing otherwise -/
def Kof (blk : Bool) (P mn mx st : Option Rat) (pb : Rat) : Option Rat :=
  if blk then Kax P mn mx st pb else none

theorem floor_clamp_Kof (blk : Bool) (P mn mx st : Option Rat) (pb c : Rat) (hst : blk = false → st = none) :
    Spec.floorAt (Spec.clampMinWins (((Kof blk P mn mx st pb).or ((Kof blk P mn mx st pb).or P)).getD c) mn mx) pb
      = Spec.floorAt (Spec.clampMinWins ((P.or st).getD c) mn mx) pb := by
  cases blk
  · simp [Kof, hst rfl]
  · simpa [Kof] using floor_clamp_K P mn mx st pb c

theorem clamp_Kof_of_floor_inactive (blk : Bool) (P mn mx st : Option Rat) (pb c : Rat) (hst : blk = false → st = none)
    (h : pb ≤ Spec.clampMinWins ((P.or st).getD c) mn mx) :
    Spec.clampMinWins (((Kof blk P mn mx st pb).or ((Kof blk P mn mx st pb).or P)).getD c) mn mx
      = Spec.clampMinWins ((P.or st).getD c) mn mx := by
  cases blk
  · simp [Kof, hst rfl]
  · simpa [Kof] using clamp_K_of_floor_inactive P mn mx st pb c h

theorem clamp_Kof_le (blk : Bool) (P mn mx st : Option Rat) (pb c : Rat) (hst : blk = false → st = none) :
    Spec.clampMinWins (((Kof blk P mn mx st pb).or ((Kof blk P mn mx st pb).or P)).getD c) mn mx
      ≤ Spec.floorAt (Spec.clampMinWins ((P.or st).getD c) mn mx) pb := by
  cases blk
  · simpa [Kof, hst rfl] using clamp_le_floor (P.getD c) pb mn mx
  · simpa [Kof] using clamp_K_le P mn mx st pb c

theorem Kof_or_P (blk : Bool) (P mn mx st : Option Rat) (pb : Rat) :
    (Kof blk P mn mx st pb).or P = if blk then Kax P mn mx st pb else P := by
  cases blk
  · simp [Kof]
  · simpa [Kof] using K_or_P P mn mx st pb

def isBlk (s : Style Rat) : Bool := match s.display with | .block => true | _ => false

theorem stretch_none_of_not_block (s : Style Rat) (av : Size (AvailableSpace Rat)) (h : isBlk s = false) :
    Spec.stretchWidth s av = none := by
  unfold Spec.stretchWidth; unfold isBlk at h
  cases hd : s.display <;> simp_all

theorem settledOuter_eq (s : Style Rat) (av : Size (AvailableSpace Rat)) :
    Spec.settledOuter s av =
      ⟨if isBlk s then Kax (Spec.pref s av).width (Spec.minS s av).width (Spec.maxS s av).width (Spec.stretchWidth s av)
          (Spec.pb s av).width else (Spec.pref s av).width,
       if isBlk s then Kax (Spec.pref s av).height (Spec.minS s av).height (Spec.maxS s av).height none
          (Spec.pb s av).height else (Spec.pref s av).height⟩ := by
  unfold Spec.settledOuter isBlk
  cases hd : s.display <;> simp only [Kax, deg, if_true, Bool.false_eq_true, if_false] <;>
    rcases (Spec.minS s av) with ⟨_ | _, _ | _⟩ <;> rcases (Spec.maxS s av) with ⟨_ | _, _ | _⟩ <;> rfl

theorem rootKnown_eq (s : Style Rat) (av : Size (AvailableSpace Rat))
    (h : s.display = .block → s.aspectRatio = none ∨ MaxBothOrNeither s av) :
    rootKnownDimensions s av =
      ⟨Kof (isBlk s) (Spec.pref s av).width (Spec.minS s av).width (Spec.maxS s av).width (Spec.stretchWidth s av)
          (Spec.pb s av).width,
       Kof (isBlk s) (Spec.pref s av).height (Spec.minS s av).height (Spec.maxS s av).height none
          (Spec.pb s av).height⟩ := by
  by_cases hd : s.display = .block
  · rw [rootKnown_block s av hd (h hd), settledOuter_eq]
    have : isBlk s = true := by unfold isBlk; rw [hd]
    simp [this, Kof]
  · rw [rootKnown_nonblock s av hd]
    have : isBlk s = false := by unfold isBlk; cases h : s.display <;> first | rfl | exact absurd h hd
    simp [this, Kof, Size.none]

theorem inset_w (s : Style Rat) (av : Size (AvailableSpace Rat)) :
    (insetOf s av).horizontalAxisSum = (Spec.pb s av).width + (Spec.gutter s).width := by
  simp only [insetOf, contentBoxInset, Rect.add, Rect.horizontalAxisSum, Spec.pb]; ring

theorem inset_h (s : Style Rat) (av : Size (AvailableSpace Rat)) :
    (insetOf s av).verticalAxisSum = (Spec.pb s av).height + (Spec.gutter s).height := by
  simp only [insetOf, contentBoxInset, Rect.add, Rect.verticalAxisSum, Spec.pb]; ring

theorem Acode_eq (s : Style Rat) (av : Size (AvailableSpace Rat))
    (h : s.display = .block → s.aspectRatio = none ∨ MaxBothOrNeither s av) :
    Acode s av = Spec.measureAvail s av := by
  unfold Acode measureAvailableSpace NS Spec.measureAvail
  simp only [rootInput, rootKnown_eq s av h, Size.orOpt, settledOuter_eq]
  rw [availableAxis_eq _ _ _ _ _ _ _ _ _ (inset_w s av), availableAxis_eq _ _ _ _ _ _ _ _ _ (inset_h s av)]
  simp only [Kof_or_P]
  rfl


theorem scrollbarSize_eq (s : Style Rat) :
    ({ width := if s.overflow.y == .scroll then s.scrollbarWidth else 0
       height := if s.overflow.x == .scroll then s.scrollbarWidth else 0 } : Size Rat) = Spec.gutter s := by
  unfold Spec.gutter
  cases s.overflow.x <;> cases s.overflow.y <;> rfl

/-- hypotheses of the specification theorem that concern the aspect ratio -/
structure ARHyp (s : Style Rat) (m : MeasureFn) (av : Size (AvailableSpace Rat)) : Prop where
  /-- block root: `max-size` has both axes definite or neither (the root transfers a single max axis, the leaf does not) -/
  maxBoth : s.display = .block → MaxBothOrNeither s av
  /-- undeclared height: the width is not determined by the padding+border floor (the ratio divides the unfloored width) -/
  widthNotFloored : (Spec.pref s av).height = none → (Spec.pb s av).width ≤ Spec.widthUnfloored s m av

theorem hmax_of (s : Style Rat) (m : MeasureFn) (av : Size (AvailableSpace Rat))
    (har : s.aspectRatio ≠ none → ARHyp s m av) :
    s.display = .block → s.aspectRatio = none ∨ MaxBothOrNeither s av := by
  intro hd
  cases h : s.aspectRatio with
  | none => exact Or.inl rfl
  | some r => exact Or.inr ((har (by rw [h]; exact Option.some_ne_none r)).maxBoth hd)

/-- clamping twice around the ratio floor is clamping once (lattice distributivity) -/
theorem clamp_fmax_clamp (n x : Rat) (mn mx : Option Rat) :
    Spec.clampMinWins (Num.fmax (Spec.clampMinWins n mn mx) x) mn mx = Spec.clampMinWins (Num.fmax n x) mn mx := by
  cases mn <;> cases mx <;> simp only [Spec.clampMinWins, fmax_def, fmin_def] <;> split_ifs <;> linarith

/-- without a ratio the `0` floor of l.153 is invisible under a non-negative padding + border -/
theorem clamp_fmax_zero (n pb : Rat) (mn mx : Option Rat) (hpb : 0 ≤ pb) :
    Spec.floorAt (Spec.clampMinWins (Num.fmax (Spec.clampMinWins n mn mx) 0) mn mx) pb
      = Spec.floorAt (Spec.clampMinWins n mn mx) pb := by
  cases mn <;> cases mx <;> simp only [Spec.clampMinWins, Spec.floorAt, fmax_def, fmin_def] <;> split_ifs <;> linarith

theorem Kof_none_of_or_none (blk : Bool) (P mn mx st : Option Rat) (pb : Rat)
    (h : ((Kof blk P mn mx st pb).or ((Kof blk P mn mx st pb).or P)) = none) :
    Kof blk P mn mx st pb = none ∧ P = none := by
  cases hk : Kof blk P mn mx st pb <;> cases P <;> simp_all

theorem leaf_size_eq (s : Style Rat) (m : MeasureFn) (av : Size (AvailableSpace Rat))
    (hpb : 0 ≤ (Spec.pb s av).height)
    (har : s.aspectRatio ≠ none → ARHyp s m av) :
    (let cl := Size.fo_clamp (((rootKnownDimensions s av).orOpt (NS s av)).unwrapOr
                  ((m Size.none (Spec.measureAvail s av)).add (insetOf s av).sumAxes)) (Spec.minS s av) (Spec.maxS s av)
     Size.f32Max ⟨cl.width,
       if ((rootKnownDimensions s av).orOpt (NS s av)).height.isSome then cl.height
       else MaybeMath.fo_clamp (Num.fmax cl.height ((s.aspectRatio.map fun r => cl.width / r).getD 0))
         (Spec.minS s av).height (Spec.maxS s av).height⟩ (Spec.pb s av))
      = ⟨Spec.width s m av, Spec.height s m av⟩ := by
  have hmax := hmax_of s m av har
  have hst := stretch_none_of_not_block s av
  simp only [NS, rootKnown_eq s av hmax, Size.fo_clamp, Size.unwrapOr, Size.orOpt, Size.add, Size.f32Max, Rect.sumAxes,
    inset_w, inset_h, fo_clamp_eq]
  have hw := floor_clamp_Kof (isBlk s) (Spec.pref s av).width (Spec.minS s av).width (Spec.maxS s av).width
    (Spec.stretchWidth s av) (Spec.pb s av).width
    ((Spec.content s m av).width + ((Spec.pb s av).width + (Spec.gutter s).width)) hst
  have hh := floor_clamp_Kof (isBlk s) (Spec.pref s av).height (Spec.minS s av).height (Spec.maxS s av).height
    none (Spec.pb s av).height
    ((Spec.content s m av).height + ((Spec.pb s av).height + (Spec.gutter s).height)) (fun _ => rfl)
  have hweq := clamp_Kof_of_floor_inactive (isBlk s) (Spec.pref s av).width (Spec.minS s av).width
    (Spec.maxS s av).width (Spec.stretchWidth s av) (Spec.pb s av).width
    ((Spec.content s m av).width + ((Spec.pb s av).width + (Spec.gutter s).width)) hst
  have hnone := Kof_none_of_or_none (isBlk s) (Spec.pref s av).height (Spec.minS s av).height (Spec.maxS s av).height
    none (Spec.pb s av).height
  have hc : m Size.none (Spec.measureAvail s av) = Spec.content s m av := rfl
  rw [hc]
  -- name the code's unfloored width, the height's node size and the clamped height
  generalize hcW : Spec.clampMinWins
      (((Kof (isBlk s) (Spec.pref s av).width (Spec.minS s av).width (Spec.maxS s av).width (Spec.stretchWidth s av)
          (Spec.pb s av).width).or
        ((Kof (isBlk s) (Spec.pref s av).width (Spec.minS s av).width (Spec.maxS s av).width (Spec.stretchWidth s av)
          (Spec.pb s av).width).or (Spec.pref s av).width)).getD
        ((Spec.content s m av).width + ((Spec.pb s av).width + (Spec.gutter s).width)))
      (Spec.minS s av).width (Spec.maxS s av).width = cW at hw hweq ⊢
  generalize hNS : ((Kof (isBlk s) (Spec.pref s av).height (Spec.minS s av).height (Spec.maxS s av).height none
          (Spec.pb s av).height).or
        ((Kof (isBlk s) (Spec.pref s av).height (Spec.minS s av).height (Spec.maxS s av).height none
          (Spec.pb s av).height).or (Spec.pref s av).height)) = nsH at hh hnone ⊢
  have hwidth : Num.fmax cW (Spec.pb s av).width = Spec.width s m av := hw
  simp only [Option.or_none] at hh
  cases hns : nsH with
  | some v =>
    -- the height is determined before measuring: no ratio term at all
    subst hns
    simp only [Option.isSome_some, if_true, Option.getD_some] at hh ⊢
    rw [hwidth]
    congr 1
    have hh' : Num.fmax (Spec.clampMinWins v (Spec.minS s av).height (Spec.maxS s av).height) (Spec.pb s av).height = _ := hh
    rw [hh']
    cases hp : (Spec.pref s av).height with
    | some p => simp only [Spec.height, hp, Option.getD_some]
    | none =>
      -- block root with a degenerate min ≥ max range: the clamp gives the minimum whatever the candidate
      simp only [Spec.height, Option.getD_none]
      have hK : (Kof (isBlk s) none (Spec.minS s av).height (Spec.maxS s av).height none
          (Spec.pb s av).height) = some v := by
        rw [hp] at hNS; simpa using hNS
      revert hK
      cases isBlk s <;> cases hmn : (Spec.minS s av).height <;> cases hmx : (Spec.maxS s av).height <;>
        simp only [Kof, Kax, deg, fle_def, decide_eq_true_eq, Option.map_none, Option.or_none, Option.none_or,
          if_true, Bool.false_eq_true, if_false, reduceCtorEq, false_implies, Option.map_none] <;>
        (try (intro hK; cases hK)) <;> (try trivial)
      rename_i mn mx
      split_ifs with hle
      · intro _
        generalize ((Spec.content s m av).height + ((Spec.pb s av).height + (Spec.gutter s).height)) = n1
        have e : ∀ n : Rat, Spec.clampMinWins n (some mn) (some mx) = mn := fun n => by
          simp only [Spec.clampMinWins, fmax_def, fmin_def]; split_ifs <;> linarith
        cases s.aspectRatio <;> simp only [e]
      · intro hK; simp at hK
  | none =>
    subst hns
    obtain ⟨-, hp⟩ := hnone rfl
    simp only [Option.isSome_none, Bool.false_eq_true, if_false, Option.getD_none] at hh ⊢
    rw [hwidth]
    congr 1
    simp only [Spec.height, hp, Option.getD_none]
    cases hr : s.aspectRatio with
    | none =>
      simp only [Option.map_none, Option.getD_none]
      exact clamp_fmax_zero _ _ _ _ hpb
    | some r =>
      have H := har (by rw [hr]; exact Option.some_ne_none r)
      have hwf := H.widthNotFloored hp
      have e1 : cW = Spec.widthUnfloored s m av := hweq hwf
      have e2 : Spec.width s m av = Spec.widthUnfloored s m av := floor_eq_of_le _ _ hwf
      simp only [Option.map_some, Option.getD_some]
      rw [clamp_fmax_clamp, e1, ← e2]
      rfl

end C19L

namespace C19L
theorem clamp_degenerate (v mn mx : Rat) (h : mx ≤ mn) : Spec.clampMinWins v (some mn) (some mx) = mn := by
  simp only [Spec.clampMinWins, fmax_def, fmin_def]; split_ifs <;> linarith
end C19L
