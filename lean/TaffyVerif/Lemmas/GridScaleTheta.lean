/-
  C04 for grid: the constant-carrying functions of the grid model with their absolute constants as PARAMETERS
  (generated from Model/FrSize.lean, Model/GridSizing.lean, Model/GridTracksInit.lean by textual substitution):
      θd  = `distribute_space_up_to_limits`' THRESHOLD (0.01)           `thresholdDist`
      θi  = `distribute_item_space_to_base_size_inner`'s THRESHOLD (1e-6) `thresholdItem`
      one = the width an auto-repetition that takes no space is given (1px)
  `…T thresholdDist thresholdItem` / `…T 1` ARE the model's functions (`*_eq`).  No Mathlib.
-/
import TaffyVerif.Lemmas.GridBoxSizing5
import TaffyVerif.Lemmas.GridScaleStages

set_option linter.unusedSectionVars false
set_option linter.unusedVariables false

namespace GridTheta
open GridModel GridTracks GridStages GridRel GridScale
variable {α : Type} [Num α]

def distributeApplyT (θd : α) (iterInc : α) (isAffected : GridTrack α → Bool) (proportion : GridTrack α → α)
    (affectedProp : GridTrack α → α) (limit : GridTrack α → Ext α) :
    List (GridTrack α) → α → List (GridTrack α) × α
  | [], space => ([], space)
  | t :: rest, space =>
    if isAffected t then
      let increase := iterInc * proportion t
      -- `increase > 0.0 && is_growable && affected_property + increase <= limit + THRESHOLD`
      if Num.flt 0 increase && ((limit t).gtF (affectedProp t + t.itemIncurredIncrease) &&
          ((limit t).addF θd).geF (affectedProp t + increase)) then
        let (rest', space') := distributeApplyT θd iterInc isAffected proportion affectedProp limit rest (space - increase)
        ({ t with itemIncurredIncrease := t.itemIncurredIncrease + increase } :: rest', space')
      else
        let (rest', space') := distributeApplyT θd iterInc isAffected proportion affectedProp limit rest space
        (t :: rest', space')
    else
      let (rest', space') := distributeApplyT θd iterInc isAffected proportion affectedProp limit rest space
      (t :: rest', space')

def distributeSpaceUpToLimitsT (θd : α) (fuel : Nat) (space : α) (tracks : List (GridTrack α))
    (isAffected : GridTrack α → Bool) (proportion : GridTrack α → α) (affectedProp : GridTrack α → α)
    (limit : GridTrack α → Ext α) : α × List (GridTrack α) :=
  match fuel with
  | 0 => (space, tracks)
  | fuel + 1 =>
    if !Num.flt θd space then (space, tracks) else
    let growable := tracks.filter fun t =>
      (limit t).gtF (affectedProp t + t.itemIncurredIncrease) && isAffected t
    let propSum : α := sumF (growable.map proportion)
    if Num.feq propSum 0 then (space, tracks) else
    match extMinList (growable.map fun t => (limit t).subDiv (affectedProp t) (proportion t)) with
    | none => (space, tracks)   -- `unwrap` on an empty iterator: unreachable, `propSum ≠ 0` needs a growable track
    | some minIncreaseLimit =>
      let iterInc := minIncreaseLimit.minF (space / propSum)
      let (tracks', space') := distributeApplyT θd iterInc isAffected proportion affectedProp limit tracks space
      distributeSpaceUpToLimitsT θd fuel space' tracks' isAffected proportion affectedProp limit

def distributeItemSpaceToBaseSizeInnerT (θd θi : α) (space : α) (tracks : List (GridTrack α))
    (isAffected : GridTrack α → Bool) (proportion : GridTrack α → α) (limit : GridTrack α → Ext α)
    (ty : ContributionType) : List (GridTrack α) :=
  if Num.feq space 0 || !tracks.any isAffected then tracks else
  let trackSizes : α := sumF (tracks.map (·.baseSize))
  let extra := Num.fmax 0 (space - trackSizes)
  let r1 := distributeSpaceUpToLimitsT θd (distFuel tracks.length) extra tracks isAffected proportion (·.baseSize) limit
  let tracks2 :=
    if Num.flt θi r1.1 then
      let n := (r1.2.filter fun t => isAffected t && beyondLimitsFilter ty t).length
      let filter : GridTrack α → Bool := if n == 0 then fun _ => true else beyondLimitsFilter ty
      (distributeSpaceUpToLimitsT θd (distFuel r1.2.length) r1.1 r1.2 filter proportion (·.baseSize) limit).2
    else r1.2
  tracks2.map finishBaseDistribution

def distributeItemSpaceToBaseSizeT (θd θi : α) (isFlex useFlexFactor : Bool) (space : α) (tracks : List (GridTrack α))
    (isAffected : GridTrack α → Bool) (limit : GridTrack α → Ext α) (ty : ContributionType) :
    List (GridTrack α) :=
  if isFlex then
    let filter := fun (t : GridTrack α) => t.isFlexible && isAffected t
    if useFlexFactor then
      distributeItemSpaceToBaseSizeInnerT θd θi space tracks filter (·.flexFactor) limit ty
    else
      distributeItemSpaceToBaseSizeInnerT θd θi space tracks filter (fun _ => 1) limit ty
  else
    distributeItemSpaceToBaseSizeInnerT θd θi space tracks isAffected (fun _ => 1) limit ty

def distributeItemSpaceToGrowthLimitT (θd : α) (space : α) (tracks : List (GridTrack α))
    (isAffected : GridTrack α → Bool) (axisInner : Option α) : List (GridTrack α) :=
  if Num.feq space 0 || (tracks.filter isAffected).length == 0 then tracks else
  let trackSizes : α := sumF (tracks.map (·.growthLimitOrBase))
  let extra := Num.fmax 0 (space - trackSizes)
  let growable := fun (t : GridTrack α) =>
    isAffected t && (t.infinitelyGrowable || (t.fitContentLimitedGrowthLimit axisInner).isInf)
  let n := (tracks.filter growable).length
  let tracks :=
    if n > 0 then
      let inc := extra / Num.ofNat n
      tracks.map fun t => if growable t then { t with itemIncurredIncrease := inc } else t
    else
      (distributeSpaceUpToLimitsT θd (distFuel tracks.length) extra tracks isAffected (fun _ => 1)
        (·.growthLimitOrBase) (fun t => t.fitContentLimit axisInner)).2
  tracks.map finishGrowthDistribution

def maximiseTracksT (θd : α) (tracks : List (GridTrack α)) (axisInner : Option α) (avail : AvailableSpace α) :
    List (GridTrack α) :=
  let used : α := sumF (tracks.map (·.baseSize))
  match avail with
  | .maxContent =>
    -- free space = ∞: `base_size = growth_limit` (finite after `resolve_intrinsic_track_sizes`' last step)
    tracks.map fun t => { t with baseSize := t.growthLimitOrBase }
  | .minContent => tracks
  | .definite a =>
    let free := a - used
    if Num.flt 0 free then
      let tracks := (distributeSpaceUpToLimitsT θd (distFuel tracks.length) free tracks (fun _ => true) (fun _ => 1)
        (·.baseSize) (fun t => t.fitContentLimitedGrowthLimit axisInner)).2
      tracks.map fun t => { t with baseSize := t.baseSize + t.itemIncurredIncrease, itemIncurredIncrease := 0 }
    else tracks

section Explicit
variable [NumCast α]

def numRepetitionsT (one : α) (size maxSize : Dimension α) (gap : LP α) (template : List (TrackDef α))
    (repDef : List (TrackFn α)) (nonAuto : Nat) (inner : Option α) : Except GErr Nat :=
  let repetitionTrackCount := repDef.length % 65536
  let styleSizeIsDefinite := (size.maybeResolve inner).isSome
  let styleMaxSizeIsDefinite := (maxSize.maybeResolve inner).isSome
  let sizeIsMaximum := styleSizeIsDefinite || styleMaxSizeIsDefinite
  match inner with
  | none => .ok 1
  | some innerSize =>
    let parent := some innerSize
    match allSome (template.map (nonRepeatingUsed parent)) with
    | none => .error .unwrapNone
    | some usedL =>
      let nonRepeatingTrackUsedSpace : α := sumF usedL
      let gapSize := gap.resolveOrZero (some innerSize)
      match allSome (repDef.map fun f => trackDefiniteValue f parent) with
      | none => .error .unwrapNone
      | some perRepL =>
        let perRepetitionTrackUsedSpace : α := sumF perRepL
        if nonAuto + repetitionTrackCount > u16Max then .error .overflow else
        let firstUsed := nonRepeatingTrackUsedSpace + perRepetitionTrackUsedSpace
          + (Num.ofNat (nonAuto + repetitionTrackCount - 1) * gapSize)
        if Num.flt innerSize firstUsed then .ok 1
        else
          let perRepetitionGapUsedSpace := Num.ofNat repDef.length * gapSize
          -- a repetition that takes no space is treated as 1px wide (no division by zero)
          let perRepetitionUsedSpace0 := perRepetitionTrackUsedSpace + perRepetitionGapUsedSpace
          let perRepetitionUsedSpace := if Num.fgt perRepetitionUsedSpace0 0 then perRepetitionUsedSpace0 else one
          let numerator := innerSize - firstUsed
          let q := numerator / perRepetitionUsedSpace
          let fitU16 : Nat := NumCast.toU16Sat (if sizeIsMaximum then Num.floor q else Num.ceil q)
          -- `(… as u16).saturating_add(1)`
          .ok (if fitU16 + 1 > u16Max then u16Max else fitU16 + 1)

def computeExplicitT (one : α) (size maxSize : Dimension α) (gap : LP α) (template : List (TrackDef α))
    (inner : Option α) : Except GErr Nat :=
  if template.isEmpty then .ok 0 else
  if hasZeroRep template then .ok 0 else
  match nonAutoRepeatingTrackCount template with
  | .error e => .error e
  | .ok nonAuto =>
    let autoRepetitionCount := (template.filter TrackDef.isAutoRepetition).length % 65536
    let templateIsValid := autoRepetitionCount == 0 ||
      (autoRepetitionCount == 1 && allTrackDefsHaveFixedComponent template)
    if !templateIsValid then .ok 0 else
    if autoRepetitionCount == 0 then .ok nonAuto else
    match findAutoRepetition template with
    | none => .error .unwrapNone
    | some repDef =>
      match numRepetitionsT one size maxSize gap template repDef nonAuto inner with
      | .error e => .error e
      | .ok k =>
        let r := repDef.length % 65536
        if r * k > u16Max then .error .overflow else
        if nonAuto + r * k > u16Max then .error .overflow else .ok (nonAuto + r * k)

end Explicit

def distBaseT (θd θi : α) (axis : Ax) (isFlex useFF : Bool) (it : GItem α) (space : α) (aff : GridTrack α → Bool)
    (lim : GridTrack α → Ext α) (ty : ContributionType) (ts : List (GridTrack α)) : List (GridTrack α) :=
  if Num.flt 0 space then
    let (lo, hi) := it.trackRange axis
    onRange ts lo hi fun sl => distributeItemSpaceToBaseSizeT θd θi isFlex useFF space sl aff lim ty
  else ts

def distGrowthT (θd : α) (axis : Ax) (axisInner : Option α) (it : GItem α) (space : α) (aff : GridTrack α → Bool)
    (ts : List (GridTrack α)) : List (GridTrack α) :=
  if Num.flt 0 space then
    let (lo, hi) := it.trackRange axis
    onRange ts lo hi fun sl => distributeItemSpaceToGrowthLimitT θd space sl aff axisInner
  else ts

def gStep1T (θd θi : α) (s : Sizer α) (avail : AvailableSpace α) (axisInner : Option α) (isFlex useFF : Bool) : Step α :=
  fun it ts =>
    if !it.crossesIntrinsicTrack s.axis then pure (it, ts) else do
      let (space, it) ← minimumSpaceM s avail it ts (fun it => it.spannedTrackLimit s.axis ts axisInner)
      pure (it, distBaseT θd θi s.axis isFlex useFF it space (fun t => (t.minFn.definiteValue axisInner).isNone)
        (minLimit s.axis axisInner it) .minimum ts)

def gStep2T (θd θi : α) (s : Sizer α) (axisInner : Option α) (isFlex useFF : Bool) : Step α :=
  fun it ts => do
    let (space, it) ← s.minContentContribution it
    pure (it, distBaseT θd θi s.axis isFlex useFF it space (fun t => t.minFn.isMinOrMaxContent)
      (minLimit s.axis axisInner it) .minimum ts)

def gStep3T (θd θi : α) (s : Sizer α) (axisInner : Option α) (isFlex useFF : Bool) : Step α :=
  fun it ts => do
    let (axisMaxContentSize, it) ← s.maxContentContribution it
    let limit := it.spannedTrackLimit s.axis ts axisInner
    let space := MaybeMath.fo_min axisMaxContentSize limit
    if (it.spannedTracks s.axis ts).any (fun t => t.minFn.isMaxContent) then
      pure (it, distBaseT θd θi s.axis isFlex useFF it space (fun t => t.minFn.isMaxContent) (fun _ => .inf) .maximum ts)
    else
      pure (it, distBaseT θd θi s.axis isFlex useFF it space (fun t => t.minFn.isAuto && !t.maxFn.isMinContent)
        (fun t => t.fitContentLimitedGrowthLimit axisInner) .maximum ts)

def gStep3bT (θd θi : α) (s : Sizer α) (isFlex useFF : Bool) : Step α :=
  fun it ts => do
    let (space, it) ← s.maxContentContribution it
    pure (it, distBaseT θd θi s.axis isFlex useFF it space (fun t => t.minFn.isMaxContent) (fun t => t.growthLimit)
      .maximum ts)

def gStep5T (θd : α) (s : Sizer α) (axisInner : Option α) : Step α :=
  fun it ts => do
    let (space, it) ← s.minContentContribution it
    pure (it, distGrowthT θd s.axis axisInner it space (fun t => !t.maxFn.hasDefiniteValue axisInner) ts)

def gStep6T (θd : α) (s : Sizer α) (axisInner : Option α) : Step α :=
  fun it ts => do
    let (space, it) ← s.maxContentContribution it
    pure (it, distGrowthT θd s.axis axisInner it space
      (fun t => t.maxFn.isMaxContentAlike || (t.maxFn.usesPercentage && axisInner.isNone)) ts)

/-- the general path of a batch, in the stage form of `GridRel.sizeBatchGeneralM_eq` -/
def sizeBatchGeneralT (θd θi : α) (s : Sizer α) (avail : AvailableSpace α) (axisInner : Option α) (isFlex : Bool)
    (flexFactorSum : α) (batch : List (GItem α)) (tracks : List (GridTrack α)) :
    GM α (List (GItem α) × List (GridTrack α)) :=
  forItemsM (gStep1T θd θi s avail axisInner isFlex (isFlex && !Num.feq flexFactorSum 0)) batch tracks >>= fun r1 =>
  forItemsM (gStep2T θd θi s axisInner isFlex (isFlex && !Num.feq flexFactorSum 0)) r1.1
      (flushPlannedBaseSizeIncreases r1.2) >>= fun r2 =>
  (match avail with
    | .maxContent =>
      forItemsM (gStep3T θd θi s axisInner isFlex (isFlex && !Num.feq flexFactorSum 0)) r2.1
          (flushPlannedBaseSizeIncreases r2.2) >>= fun r =>
        pure (r.1, flushPlannedBaseSizeIncreases r.2)
    | _ => pure (r2.1, flushPlannedBaseSizeIncreases r2.2)) >>= fun r3 =>
  forItemsM (gStep3bT θd θi s isFlex (isFlex && !Num.feq flexFactorSum 0)) r3.1 r3.2 >>= fun r4 =>
  if isFlex then pure (r4.1, raiseGrowthLimits (flushPlannedBaseSizeIncreases r4.2)) else
  forItemsM (gStep5T θd s axisInner) r4.1 (raiseGrowthLimits (flushPlannedBaseSizeIncreases r4.2)) >>= fun r5 =>
  forItemsM (gStep6T θd s axisInner) r5.1 (flushPlannedGrowthLimitIncreases r5.2 true) >>= fun r6 =>
  pure (r6.1, flushPlannedGrowthLimitIncreases r6.2 false)

def batchWorkT (θd θi : α) (s : Sizer α) (avail : AvailableSpace α) (axisInner : Option α) (flexFactorSum : α) (item : GItem α)
    (batch : List (GItem α)) (tracks : List (GridTrack α)) : GM α (List (GItem α) × List (GridTrack α)) :=
  if !item.crossesFlexibleTrack s.axis && item.span s.axis == 1 then do
    let (batch, tracks) ← forItemsM (fun it ts => sizeSpanOneItemM s avail axisInner it ts) batch tracks
    pure (batch, flushSpanOne tracks)
  else sizeBatchGeneralT θd θi s avail axisInner (item.crossesFlexibleTrack s.axis) flexFactorSum batch tracks

/-- the batch loop, in the form of `GridRel.batchLoopM_succ` -/
def batchLoopT (θd θi : α) (s : Sizer α) (avail : AvailableSpace α) (axisInner : Option α) (flexFactorSum : α) :
    Nat → List (GItem α) → Nat → List (GridTrack α) → GM α (List (GItem α) × List (GridTrack α))
  | 0, items, _, tracks => pure (items, tracks)
  | fuel + 1, items, offset, tracks =>
    match items[offset]? with
    | none => pure (items, tracks)
    | some item =>
      batchWorkT θd θi s avail axisInner flexFactorSum item
          ((items.drop offset).take (batchNext s.axis items item - offset)) tracks >>= fun r =>
      if item.crossesFlexibleTrack s.axis then
        pure (items.take offset ++ r.1 ++ items.drop (batchNext s.axis items item), r.2)
      else batchLoopT θd θi s avail axisInner flexFactorSum fuel
        (items.take offset ++ r.1 ++ items.drop (batchNext s.axis items item)) (batchNext s.axis items item) r.2

def resolveIntrinsicTrackSizesT (θd θi : α) (s : Sizer α) (tracks : List (GridTrack α)) (items : List (GItem α))
    (avail : AvailableSpace α) : GM α (List (GItem α) × List (GridTrack α)) := do
  let axis := s.axis
  let items := items.mergeSort (GridModel.itemLe axis)
  let axisInner := sget s.innerNodeSize axis
  let flexFactorSum : α := sumF (tracks.map (·.flexFactor))
  let (items, tracks) ← batchLoopT θd θi s avail axisInner flexFactorSum (items.length + 1) items 0 tracks
  let tracks := tracks.map fun t => match t.growthLimit with
    | .inf => { t with growthLimit := .fin t.baseSize }
    | _ => t
  pure (items, tracks)

def trackSizingAlgorithmT (θd θi : α) (a : RunArgs α) (st : RunState α) : GM α (RunState α) := do
  let axis := a.axis
  let axisInner := sget a.innerNodeSize axis
  -- 11.4 Initialise Track sizes
  let axisTracks := initializeTrackSizes st.axisTracks axisInner
  -- 11.5.1 Shim item baselines
  let items ← (if a.hasBaselineAlignedItem then resolveItemBaselines axis st.items a.innerNodeSize
    else pure st.items : GM α (List (GItem α)))
  -- If all tracks have base_size = growth_limit, then skip the rest of this function
  if axisTracks.all (fun t => t.growthLimit.eqF t.baseSize) then
    pure { axisTracks, otherAxisTracks := st.otherAxisTracks, items }
  else do
  let gutterAlignmentAdjustment := computeAlignmentGutterAdjustment a.otherAxisAlignment
    (sget a.innerNodeSize axis.other) a.est st.otherAxisTracks
  let otherAxisTracks := setGutterAdjustment gutterAlignmentAdjustment st.otherAxisTracks
  -- 11.5 Resolve Intrinsic Track Sizes
  let avail := sget a.availableGridSpace axis
  let sizer : Sizer α := { otherAxisTracks, est := a.est, axis, innerNodeSize := a.innerNodeSize }
  let (items, axisTracks) ← resolveIntrinsicTrackSizesT θd θi sizer axisTracks items avail
  -- 11.6 Maximise Tracks
  let axisTracks := maximiseTracksT θd axisTracks axisInner avail
  let availForExpansion : AvailableSpace α := match axisInner with
    | some s => .definite s
    | none => match avail with
      | .minContent => .minContent
      | _ => .maxContent
  -- 11.7 Expand Flexible Tracks
  let (items, axisTracks) ←
    expandFlexibleTracksM axis axisTracks items a.axisMinSize a.axisMaxSize availForExpansion a.innerNodeSize
  -- 11.8 Stretch auto Tracks
  let axisTracks :=
    if a.axisAlignment == .stretch then stretchAutoTracks axisTracks a.axisMinSize availForExpansion else axisTracks
  pure { axisTracks, otherAxisTracks, items }

/-! ### at the model's constants these ARE the model's functions -/

theorem distributeApplyT_eq : (distributeApplyT (thresholdDist : α)) = distributeApply := by
  funext iterInc isAffected proportion affectedProp limit l
  induction l with
  | nil => funext space; rfl
  | cons t rest ih =>
    funext space
    unfold distributeApplyT distributeApply
    simp only [ih]
    try rfl

theorem distributeSpaceUpToLimitsT_eq : (distributeSpaceUpToLimitsT (thresholdDist : α)) = distributeSpaceUpToLimits := by
  funext fuel
  induction fuel with
  | zero => funext space tracks a b c d; rfl
  | succ n ih =>
    funext space tracks a b c d
    unfold distributeSpaceUpToLimitsT distributeSpaceUpToLimits
    simp only [ih, distributeApplyT_eq]
    try rfl

theorem distributeItemSpaceToBaseSizeInnerT_eq :
    (distributeItemSpaceToBaseSizeInnerT (thresholdDist : α) thresholdItem) = distributeItemSpaceToBaseSizeInner := by
  funext space tracks a b c d
  unfold distributeItemSpaceToBaseSizeInnerT distributeItemSpaceToBaseSizeInner
  simp only [distributeSpaceUpToLimitsT_eq]
  try rfl

theorem distributeItemSpaceToBaseSizeT_eq :
    (distributeItemSpaceToBaseSizeT (thresholdDist : α) thresholdItem) = distributeItemSpaceToBaseSize := by
  funext a b space tracks c d e
  unfold distributeItemSpaceToBaseSizeT distributeItemSpaceToBaseSize
  simp only [distributeItemSpaceToBaseSizeInnerT_eq]
  try rfl

theorem distributeItemSpaceToGrowthLimitT_eq :
    (distributeItemSpaceToGrowthLimitT (thresholdDist : α)) = distributeItemSpaceToGrowthLimit := by
  funext space tracks a b
  unfold distributeItemSpaceToGrowthLimitT distributeItemSpaceToGrowthLimit
  simp only [distributeSpaceUpToLimitsT_eq]
  try rfl

theorem maximiseTracksT_eq : (maximiseTracksT (thresholdDist : α)) = maximiseTracks := by
  funext tracks a b
  unfold maximiseTracksT maximiseTracks
  simp only [distributeSpaceUpToLimitsT_eq]
  try rfl

theorem distBaseT_eq : (distBaseT (thresholdDist : α) thresholdItem) = distBase := by
  funext a b c d e f g h i
  unfold distBaseT distBase
  simp only [distributeItemSpaceToBaseSizeT_eq]
  try rfl

theorem distGrowthT_eq : (distGrowthT (thresholdDist : α)) = distGrowth := by
  funext a b c d e f
  unfold distGrowthT distGrowth
  simp only [distributeItemSpaceToGrowthLimitT_eq]
  try rfl

theorem sizeBatchGeneralT_eq : (sizeBatchGeneralT (thresholdDist : α) thresholdItem) = sizeBatchGeneralM := by
  funext s avail axisInner isFlex ffs batch tracks
  rw [sizeBatchGeneralM_eq]
  unfold sizeBatchGeneralT gStep1T gStep2T gStep3T gStep3bT gStep5T gStep6T
  simp only [distBaseT_eq, distGrowthT_eq]
  try rfl

theorem batchWorkT_eq : (batchWorkT (thresholdDist : α) thresholdItem) = batchWork := by
  funext s avail axisInner ffs item batch tracks
  unfold batchWorkT batchWork
  rw [sizeBatchGeneralT_eq]
  try rfl

theorem batchLoopT_eq : (batchLoopT (thresholdDist : α) thresholdItem) = batchLoopM := by
  funext s avail axisInner ffs fuel
  induction fuel with
  | zero => funext items offset tracks; rfl
  | succ n ih =>
    funext items offset tracks
    rw [batchLoopM_succ]
    unfold batchLoopT
    rw [batchWorkT_eq, ih]
    try rfl

theorem resolveIntrinsicTrackSizesT_eq :
    (resolveIntrinsicTrackSizesT (thresholdDist : α) thresholdItem) = resolveIntrinsicTrackSizesM := by
  funext s tracks items avail
  unfold resolveIntrinsicTrackSizesT resolveIntrinsicTrackSizesM
  rw [batchLoopT_eq]
  try rfl

/-- **trackSizingAlgorithmT_eq** -/
theorem trackSizingAlgorithmT_eq :
    (trackSizingAlgorithmT (thresholdDist : α) thresholdItem) = trackSizingAlgorithmM := by
  funext a st
  unfold trackSizingAlgorithmT trackSizingAlgorithmM
  rw [resolveIntrinsicTrackSizesT_eq, maximiseTracksT_eq]
  try rfl

section Explicit
variable [NumCast α]

theorem numRepetitionsT_eq : (numRepetitionsT (1 : α)) = numRepetitions := by
  funext a b c d e f g
  rfl

/-- **computeExplicitT_eq** -/
theorem computeExplicitT_eq : (computeExplicitT (1 : α)) = computeExplicitGridSizeInAxis := by
  funext a b c d e
  unfold computeExplicitT computeExplicitGridSizeInAxis
  rw [numRepetitionsT_eq]
  try rfl

end Explicit

end GridTheta
