/-
  C04 — the tree level, relational form: the cache-free evaluator run with the algorithms `algs'` on the scaled tree
  against the evaluator run with `algs` on the original tree.  Generalises Lemmas/ScaleEval.lean in two directions:

    * two different `Algs` on the two sides (`AlgsHomRel algs' algs k G`), e.g. the grid algorithm with scaled constants
      on the scaled side;
    * the grid component has to be related only on containers that satisfy a predicate `G`, and the tree has to satisfy
      `G` only at the nodes the dispatch `sel` sends to the grid algorithm, outside the subtrees `sel` treats as hidden
      (`GridNodes sel G`).

  `AlgsHomogeneous algs k` is `AlgsHomRel algs algs k (fun _ => True)` (`AlgsHomogeneous.toRel`).
-/
import TaffyVerif.Lemmas.ScaleEval

set_option linter.unusedSectionVars false
set_option linter.unusedVariables false
set_option linter.unusedSimpArgs false

namespace C04
open Scalable Eval

variable {k : Rat}

abbrev Ev := STree Rat → NS Rat Unit → LayoutInput Rat → LayoutOutput Rat × NS Rat Unit

/-- the recursive calls of the two sides correspond under scaling, on the trees that satisfy `Q` -/
def EvHomOn (k : Rat) (ev' ev : Ev) (Q : STree Rat → Prop) : Prop :=
  ∀ t, Q t → ∀ n cin, ev' (scale k t) (scale k n) (scale k cin) = scale k (ev t n cin)

theorem evalChildOf_scale_rel (ev' ev : Ev) (Q : STree Rat → Prop) (hev : EvHomOn k ev' ev Q)
    (kids : List (STree Rat)) (hkids : ∀ (i : Nat) (t : STree Rat), kids[i]? = some t → Q t) (i : Nat) (cin : LayoutInput Rat)
    (ks : List (NS Rat Unit)) :
    evalChildOf ev' (scale k kids) i (scale k cin) (scale k ks) = scale k (evalChildOf ev kids i cin ks) := by
  unfold evalChildOf
  rw [getElem?_scale, getElem?_scale]
  cases h1 : kids[i]? with
  | none => simp only [scale_simp]
  | some t =>
    cases h2 : ks[i]? with
    | none => simp only [scale_simp]
    | some n =>
      simp only [scale_some, hev t (hkids i t h1) n cin, scale_pair, scale_fst, scale_snd, set_scale]

theorem runProg_scale_rel {β : Type} [Scalable β] (hk : 0 < k) (ev' ev : Ev) (Q : STree Rat → Prop)
    (hev : EvHomOn k ev' ev Q) (kids : List (STree Rat)) (hkids : ∀ (i : Nat) (t : STree Rat), kids[i]? = some t → Q t) (p : ProgM Rat β) :
    ∀ ks : List (NS Rat Unit),
      runProg (evalChildOf ev' (scale k kids)) (scaleProg k p) (scale k ks) =
        scale k (runProg (evalChildOf ev kids) p ks) := by
  induction p with
  | pure b => intro ks; rfl
  | call i cin c ih =>
    intro ks
    simp only [scaleProg, runProg, evalChildOf_scale_rel ev' ev Q hev kids hkids, scale_fst, scale_snd,
      scale_cancel_inv hk]
    exact ih _ _
  | setLayout i l c ih =>
    intro ks
    simp only [scaleProg, runProg, setLayoutAt_scale]
    exact ih _ _

theorem runOn_scale_rel (hk : 0 < k) (ev' ev : Ev) (Q : STree Rat → Prop) (hev : EvHomOn k ev' ev Q)
    (kids : List (STree Rat)) (hkids : ∀ (i : Nat) (t : STree Rat), kids[i]? = some t → Q t) (ns : NS Rat Unit)
    (p : ProgM Rat (LayoutOutput Rat)) :
    runOn (evalChildOf ev' (scale k kids)) (scale k ns) (scaleProg k p) = scale k (runOn (evalChildOf ev kids) ns p) := by
  cases ns with
  | mk c l nk =>
    simp only [scale_ns_mk, runOn, runProg_scale_rel hk ev' ev Q hev kids hkids, scale_pair, scale_fst, scale_snd]

/-- the layout algorithms `algs'` (scaled side) and `algs` (original side) correspond under scaling by `k`; the grid
components only on the containers that satisfy `G` -/
structure AlgsHomRel (algs' algs : Algs Rat) (k : Rat) (G : Style Rat → Prop) : Prop where
  leaf : ∀ (inp : LayoutInput Rat) (style : Style Rat) (m : Size (Option Rat) → Size (AvailableSpace Rat) → Size Rat),
    algs'.leaf (scale k inp) (scale k style) (scaleMeasure k m) = scale k (algs.leaf inp style m)
  block : ∀ (style : Style Rat) (styles : List (Style Rat)) (inp : LayoutInput Rat),
    algs'.block (scale k style) (styles.map (scale k)) (scale k inp) = scaleProg k (algs.block style styles inp)
  flex : ∀ (style : Style Rat) (styles : List (Style Rat)) (inp : LayoutInput Rat),
    algs'.flex (scale k style) (styles.map (scale k)) (scale k inp) = scaleProg k (algs.flex style styles inp)
  grid : ∀ (style : Style Rat) (styles : List (Style Rat)) (inp : LayoutInput Rat), G style →
    algs'.grid (scale k style) (styles.map (scale k)) (scale k inp) = scaleProg k (algs.grid style styles inp)

theorem AlgsHomogeneous.toRel {algs : Algs Rat} (h : AlgsHomogeneous algs k) : AlgsHomRel algs algs k (fun _ => True) :=
  ⟨h.leaf, h.block, h.flex, fun s cs inp _ => h.grid s cs inp⟩

theorem AlgsHomRel.toHomogeneous {algs : Algs Rat} (h : AlgsHomRel algs algs k (fun _ => True)) : AlgsHomogeneous algs k :=
  ⟨h.leaf, h.block, h.flex, fun s cs inp => h.grid s cs inp trivial⟩

mutual
/-- every node that the dispatch `sel` sends to the grid algorithm, and that is not inside a subtree `sel` treats as
hidden, satisfies `G` -/
def GridNodes (sel : Display → Bool → Option Gen.Facts.Callee) (G : Style Rat → Prop) : STree Rat → Prop
  | .node s _ kids =>
    sel s.display (!kids.isEmpty) = some .hidden ∨
      ((sel s.display (!kids.isEmpty) = some .grid → G s) ∧ GridNodesList sel G kids)
def GridNodesList (sel : Display → Bool → Option Gen.Facts.Callee) (G : Style Rat → Prop) : List (STree Rat) → Prop
  | [] => True
  | t :: ts => GridNodes sel G t ∧ GridNodesList sel G ts
end

theorem GridNodesList_get (sel : Display → Bool → Option Gen.Facts.Callee) (G : Style Rat → Prop) :
    ∀ (kids : List (STree Rat)) (i : Nat) (t : STree Rat), GridNodesList sel G kids → kids[i]? = some t →
      GridNodes sel G t
  | [], _, _, _, h => by simp at h
  | a :: as, 0, t, hn, h => by
    simp only [List.getElem?_cons_zero, Option.some.injEq] at h
    subst h
    exact hn.1
  | a :: as, i + 1, t, hn, h => by
    simp only [List.getElem?_cons_succ] at h
    exact GridNodesList_get sel G as i t hn.2 h

mutual
/-- with `G` true everywhere the predicate holds of every tree -/
theorem GridNodes_true (sel : Display → Bool → Option Gen.Facts.Callee) :
    ∀ t : STree Rat, GridNodes sel (fun _ => True) t
  | .node s c kids => by
    simp only [GridNodes]
    exact Or.inr ⟨fun _ => trivial, GridNodesList_true sel kids⟩
theorem GridNodesList_true (sel : Display → Bool → Option Gen.Facts.Callee) :
    ∀ ts : List (STree Rat), GridNodesList sel (fun _ => True) ts
  | [] => trivial
  | t :: ts => ⟨GridNodes_true sel t, GridNodesList_true sel ts⟩
end

theorem computeOf_scale_rel (hk : 0 < k) (sel : Display → Bool → Option Gen.Facts.Callee) (algs' algs : Algs Rat)
    (G : Style Rat → Prop) (h : AlgsHomRel algs' algs k G) (ev' ev : Ev)
    (hev : EvHomOn k ev' ev (GridNodes sel G))
    (style : Style Rat) (ctx : Option (MeasureSpec Rat)) (kids : List (STree Rat)) (ns : NS Rat Unit)
    (inp : LayoutInput Rat) (hn : GridNodes sel G (.node style ctx kids)) :
    computeOf noCache sel algs' ev' (scale k style) (scale k ctx) (scale k kids) (scale k ns) (scale k inp) =
      scale k (computeOf noCache sel algs ev style ctx kids ns inp) := by
  unfold computeOf
  rw [style_display, isEmpty_scale, map_style_scale]
  simp only [GridNodes] at hn
  cases hs : sel style.display (!kids.isEmpty) with
  | none => simp only [scale_simp]
  | some c =>
    rw [hs] at hn
    cases c with
    | hidden => simp only [scale_simp, hiddenLayout_scale]
    | leaf => simp only [scale_pair, measureOf_scale hk, h.leaf]
    | block =>
      have hkids := fun i t => GridNodesList_get sel G kids i t (hn.resolve_left (by simp)).2
      simp only [h.block, runOn_scale_rel hk ev' ev _ hev kids hkids]
    | flex =>
      have hkids := fun i t => GridNodesList_get sel G kids i t (hn.resolve_left (by simp)).2
      simp only [h.flex, runOn_scale_rel hk ev' ev _ hev kids hkids]
    | grid =>
      have hn' := hn.resolve_left (by simp)
      have hkids := fun i t => GridNodesList_get sel G kids i t hn'.2
      simp only [h.grid _ _ _ (hn'.1 rfl), runOn_scale_rel hk ev' ev _ hev kids hkids]

/-- **tree level, relational**: the cache-free evaluator with `algs'` on the scaled tree is the scaled evaluator with
`algs` on the tree, for every dispatch table, fuel, state of the stored layouts and input, on every tree whose
grid-dispatched nodes satisfy `G` -/
theorem evalNodeWith_scale_rel (hk : 0 < k) (sel : Display → Bool → Option Gen.Facts.Callee) (algs' algs : Algs Rat)
    (G : Style Rat → Prop) (h : AlgsHomRel algs' algs k G) :
    ∀ (fuel : Nat) (t : STree Rat), GridNodes sel G t → ∀ (ns : NS Rat Unit) (inp : LayoutInput Rat),
      evalNodeWith noCache sel algs' fuel (scale k t) (scale k ns) (scale k inp) =
        scale k (evalNodeWith noCache sel algs fuel t ns inp) := by
  intro fuel
  induction fuel with
  | zero =>
    intro t _ ns inp
    simp only [eval_zero, scale_pair, scale_lo_hidden]
  | succ fuel ih =>
    intro t ht ns inp
    cases t with
    | node style ctx kids =>
      rw [scale_tree_node, eval_succ, eval_succ, li_runMode]
      split
      · simp only [scale_pair, scale_lo_hidden, hiddenLayout_scale]
      · have hg : ∀ (c : Unit) (i : LayoutInput Rat), (noCache : CacheImpl Rat Unit).get c i = none := fun _ _ => rfl
        simp only [hg]
        rw [computeOf_scale_rel hk sel algs' algs G h _ _ ih style ctx kids ns inp ht, storeOf_scale]

end C04
