/-
  Helper lemmas for C15 (flat dirtiness model).
-/
import TaffyVerif.Model.Dirty

namespace Dirty

@[simp] theorem upd_same {β : Type} (f : Nat → β) (n : Nat) (v : β) : upd f n v n = v := by simp [upd]
theorem upd_other {β : Type} (f : Nat → β) (n m : Nat) (v : β) (h : m ≠ n) : upd f n v m = f m := by simp [upd, h]

/-- (a) a measure entry never outlives the final entry between passes; (b) below a clean, box-generating node every
child is clean -/
structure K (s : St) : Prop where
  a : ∀ n, s.meas n = true → s.fin n = true
  b : ∀ n p, s.parent n = some p → s.fin p = true → s.hidden p = false → s.fin n = true

/-- `K` except that edges into a parent satisfying `E` are not required to satisfy (b) -/
structure KX (s : St) (E : Nat → Prop) : Prop where
  a : ∀ n, s.meas n = true → s.fin n = true
  b : ∀ n p, s.parent n = some p → s.fin p = true → s.hidden p = false → s.fin n = true ∨ E p

/-- the invariant that makes `mark_dirty`'s early exit sound -/
def I (s : St) : Prop :=
  ∀ n p, s.parent n = some p → s.dirty n = true → s.dirty p = true ∨ s.hidden p = true

theorem dirty_iff_of_a {s : St} (ha : ∀ n, s.meas n = true → s.fin n = true) (n : Nat) :
    s.dirty n = true ↔ s.fin n = false := by
  unfold St.dirty
  constructor
  · intro h
    simp only [Bool.and_eq_true, Bool.not_eq_eq_eq_not, Bool.not_true] at h
    exact h.1
  · intro h
    have : s.meas n = false := by
      cases hm : s.meas n with
      | false => rfl
      | true => rw [ha n hm] at h; cases h
    simp [h, this]

theorem I_of_K {s : St} (k : K s) : I s := by
  intro n p hp hd
  rw [dirty_iff_of_a k.a] at hd
  cases hh : s.hidden p with
  | true => exact Or.inr rfl
  | false =>
    left
    rw [dirty_iff_of_a k.a]
    cases hf : s.fin p with
    | false => rfl
    | true => rw [k.b n p hp hf hh] at hd; cases hd

theorem K.toX {s : St} (k : K s) (E : Nat → Prop) : KX s E :=
  ⟨k.a, fun n p h1 h2 h3 => Or.inl (k.b n p h1 h2 h3)⟩

theorem KX.toK {s : St} (k : KX s (fun _ => False)) : K s :=
  ⟨k.a, fun n p h1 h2 h3 => (k.b n p h1 h2 h3).elim id False.elim⟩

theorem KX.mono {s : St} {E F : Nat → Prop} (k : KX s E) (h : ∀ q, E q → F q) : KX s F :=
  ⟨k.a, fun n p h1 h2 h3 => (k.b n p h1 h2 h3).imp id (h p)⟩

/-- same structure (everything but the cache flags) -/
def SameShape (s s' : St) : Prop :=
  s'.next = s.next ∧ s'.live = s.live ∧ s'.parent = s.parent ∧ s'.children = s.children ∧ s'.hidden = s.hidden

theorem SameShape.refl (s : St) : SameShape s s := ⟨rfl, rfl, rfl, rfl, rfl⟩
theorem SameShape.trans {a b c : St} (h1 : SameShape a b) (h2 : SameShape b c) : SameShape a c :=
  ⟨h2.1.trans h1.1, h2.2.1.trans h1.2.1, h2.2.2.1.trans h1.2.2.1, h2.2.2.2.1.trans h1.2.2.2.1,
   h2.2.2.2.2.trans h1.2.2.2.2⟩

theorem clearNode_shape (s : St) (n : Nat) : SameShape s (clearNode s n) := ⟨rfl, rfl, rfl, rfl, rfl⟩

/-- the main lemma about `mark_dirty`: it restores `K` from `KExc`, dirties its argument, only ever clears flags,
only on the ancestor chain, and changes nothing else. -/
theorem markDirty_spec (E : Nat → Prop) : ∀ (fuel : Nat) (s : St) (n : Nat) (s' : St),
    KX s (fun q => E q ∨ q = n) → markDirty fuel s n = some s' →
    KX s' E ∧ s'.dirty n = true ∧ SameShape s s' ∧
    (∀ m, s'.fin m = true → s.fin m = true) ∧ (∀ m, s'.meas m = true → s.meas m = true) ∧
    (∀ m, m ∉ chain fuel s n → s'.fin m = s.fin m ∧ s'.meas m = s.meas m) := by
  intro fuel
  induction fuel with
  | zero => intro s n s' _ h; simp [markDirty] at h
  | succ fuel ih =>
    intro s n s' kx h
    unfold markDirty at h
    split at h
    · -- already dirty: nothing changes, and the excepted edges are fine because `n` has no final entry
      rename_i hd
      simp only [Option.some.injEq] at h
      subst h
      have hfin : s.fin n = false := (dirty_iff_of_a kx.a n).1 hd
      refine ⟨⟨kx.a, ?_⟩, hd, SameShape.refl s, fun _ h => h, fun _ h => h, fun _ _ => ⟨rfl, rfl⟩⟩
      intro x p hp hf hh
      rcases kx.b x p hp hf hh with h1 | h1 | h1
      · exact Or.inl h1
      · exact Or.inr h1
      · subst h1; rw [hfin] at hf; cases hf
    · rename_i hd
      -- cleared: continue with the parent
      have hs1a : ∀ x, (clearNode s n).meas x = true → (clearNode s n).fin x = true := by
        intro x hx
        by_cases hxn : x = n
        · subst hxn; simp [clearNode] at hx
        · simp only [clearNode, upd_other _ _ _ _ hxn] at hx ⊢
          exact kx.a x hx
      cases hp : s.parent n with
      | none =>
        rw [hp] at h
        simp only [Option.some.injEq] at h
        subst h
        refine ⟨⟨hs1a, ?_⟩, by simp [St.dirty, clearNode], clearNode_shape s n, ?_, ?_, ?_⟩
        · intro x p hxp hf hh
          have hxp' : s.parent x = some p := hxp
          by_cases hpn : p = n
          · subst hpn; simp [clearNode] at hf
          · have hf' : s.fin p = true := by simpa [clearNode, upd_other _ _ _ _ hpn] using hf
            by_cases hxn : x = n
            · subst hxn; rw [hp] at hxp'; cases hxp'
            · simp only [clearNode, upd_other _ _ _ _ hxn]
              rcases kx.b x p hxp' hf' hh with h1 | h1 | h1
              · exact Or.inl h1
              · exact Or.inr h1
              · exact absurd h1 hpn
        · intro m hm
          by_cases hmn : m = n
          · subst hmn; simp [clearNode] at hm
          · simpa [clearNode, upd_other _ _ _ _ hmn] using hm
        · intro m hm
          by_cases hmn : m = n
          · subst hmn; simp [clearNode] at hm
          · simpa [clearNode, upd_other _ _ _ _ hmn] using hm
        · intro m hm
          have hmn : m ≠ n := by
            intro h; subst h; simp [chain] at hm
          simp [clearNode, upd_other _ _ _ _ hmn]
      | some p =>
        rw [hp] at h
        have kx1 : KX (clearNode s n) (fun q => E q ∨ q = p) := by
          refine ⟨hs1a, ?_⟩
          intro x q hxq hf hh
          have hxq' : s.parent x = some q := hxq
          by_cases hqn : q = n
          · subst hqn; simp [clearNode] at hf
          · have hf' : s.fin q = true := by simpa [clearNode, upd_other _ _ _ _ hqn] using hf
            by_cases hxn : x = n
            · subst hxn
              rw [hp] at hxq'
              right; right; exact (Option.some.inj hxq').symm
            · simp only [clearNode, upd_other _ _ _ _ hxn]
              rcases kx.b x q hxq' hf' hh with h1 | h1 | h1
              · exact Or.inl h1
              · exact Or.inr (Or.inl h1)
              · exact absurd h1 hqn
        obtain ⟨k', _, hshape, hfin, hmeas, hframe⟩ := ih (clearNode s n) p s' kx1 h
        refine ⟨k', ?_, (clearNode_shape s n).trans hshape, ?_, ?_, ?_⟩
        · -- n stays dirty: flags only ever get cleared
          have h1 : s'.fin n = false := by
            cases hh : s'.fin n with
            | false => rfl
            | true => have := hfin n hh; simp [clearNode] at this
          have h2 : s'.meas n = false := by
            cases hh : s'.meas n with
            | false => rfl
            | true => have := hmeas n hh; simp [clearNode] at this
          simp [St.dirty, h1, h2]
        · intro m hm
          have := hfin m hm
          by_cases hmn : m = n
          · subst hmn; simp [clearNode] at this
          · simpa [clearNode, upd_other _ _ _ _ hmn] using this
        · intro m hm
          have := hmeas m hm
          by_cases hmn : m = n
          · subst hmn; simp [clearNode] at this
          · simpa [clearNode, upd_other _ _ _ _ hmn] using this
        · intro m hm
          have hmn : m ≠ n := by
            intro h; subst h; simp [chain] at hm
          have hmc : m ∉ chain fuel (clearNode s n) p := by
            intro hc
            apply hm
            simp only [chain, hp, List.mem_cons]
            right
            -- chains only read `parent`, which `clearNode` does not change
            have : ∀ (f : Nat) (q : Nat), chain f (clearNode s n) q = chain f s q := by
              intro f
              induction f with
              | zero => intro q; rfl
              | succ f ihf =>
                intro q
                simp only [chain]
                show q :: (match s.parent q with | some p => chain f (clearNode s n) p | none => []) = _
                cases s.parent q with
                | none => rfl
                | some r => simp [ihf r]
            rw [this] at hc; exact hc
          obtain ⟨h1, h2⟩ := hframe m hmc
          constructor
          · rw [h1]; simp [clearNode, upd_other _ _ _ _ hmn]
          · rw [h2]; simp [clearNode, upd_other _ _ _ _ hmn]

end Dirty
