/-
  C04 for flexbox, part 8: runs against child-answer functions.

  `runO orc p` runs an interaction program against children that answer as the pure function `orc child input`; it
  returns the result, the list of queries and the list of layouts set.  `scaleOrc k orc` is the scaled family of children
  (`scaleOrc k orc i (scale k inp) = scale k (orc i inp)`).  A simulation `SimS k Q p' p` transports to runs:
  the queries and layouts of `p'` against the scaled children are the scaled ones, the results are `Q`-related.
-/
import TaffyVerif.Lemmas.FlexScaleTop

set_option linter.unusedSectionVars false
set_option linter.unusedVariables false
set_option linter.unusedSimpArgs false

namespace C04
open Scalable FlexModel FlexStages

variable {k : Rat}

/-- the trace of a run: queries (child, input) and layouts set (child, layout), in order -/
abbrev Trace := List (Nat × LayoutInput Rat) × List (Nat × Layout Rat)

/-- run a program against children answering `orc child input` -/
def runO {β : Type} (orc : Nat → LayoutInput Rat → LayoutOutput Rat) : ProgM Rat β → β × Trace
  | .pure b => (b, [], [])
  | .call i inp c => let r := runO orc (c (orc i inp)); (r.1, (i, inp) :: r.2.1, r.2.2)
  | .setLayout i l c => let r := runO orc (c ()); (r.1, r.2.1, (i, l) :: r.2.2)

/-- the scaled children -/
def scaleOrc (k : Rat) (orc : Nat → LayoutInput Rat → LayoutOutput Rat) : Nat → LayoutInput Rat → LayoutOutput Rat :=
  fun i inp => scale k (orc i (scale k⁻¹ inp))

theorem scaleOrc_apply (hk : 0 < k) (orc : Nat → LayoutInput Rat → LayoutOutput Rat) (i : Nat) (inp : LayoutInput Rat) :
    scaleOrc k orc i (scale k inp) = scale k (orc i inp) := by
  unfold scaleOrc
  rw [scale_cancel_inv hk]

def Trace.append (a b : Trace) : Trace := (a.1 ++ b.1, a.2 ++ b.2)

theorem runO_bind {β γ : Type} (orc : Nat → LayoutInput Rat → LayoutOutput Rat) (p : ProgM Rat β)
    (f : β → ProgM Rat γ) :
    runO orc (p >>= f) = ((runO orc (f (runO orc p).1)).1, (runO orc p).2.append (runO orc (f (runO orc p).1)).2) := by
  show runO orc (ProgM.bind p f) = _
  induction p with
  | pure b => simp only [ProgM.bind, runO, Trace.append, List.nil_append]
  | call i inp c ih => simp only [ProgM.bind, runO, ih, Trace.append, List.cons_append]
  | setLayout i l c ih => simp only [ProgM.bind, runO, ih, Trace.append, List.cons_append]

theorem scale_trace_append (k : Rat) (a b : Trace) : scale k (a.append b) = (scale k a).append (scale k b) := by
  simp only [Trace.append, scale_pair, scale_fst, scale_snd, scale_list, List.map_append]

/-- a simulation transports to runs -/
theorem runO_sim {β : Type} (hk : 0 < k) {Q : β → β → Prop} (orc : Nat → LayoutInput Rat → LayoutOutput Rat)
    {p' p : ProgM Rat β} (h : SimS k Q p' p) :
    Q (runO (scaleOrc k orc) p').1 (runO orc p).1 ∧ (runO (scaleOrc k orc) p').2 = scale k (runO orc p).2 := by
  induction h with
  | pure b' b hq => exact ⟨hq, rfl⟩
  | call i inp c' c _ ih =>
    simp only [runO, scaleOrc_apply hk]
    obtain ⟨h1, h2⟩ := ih (orc i inp)
    refine ⟨h1, ?_⟩
    rw [h2]
    rfl
  | setLayout i l c' c _ ih =>
    simp only [runO]
    obtain ⟨h1, h2⟩ := ih
    refine ⟨h1, ?_⟩
    rw [h2]
    rfl

/-- running the scaled program against the scaled children: everything scaled -/
theorem runO_scaleProg {β : Type} [Scalable β] (hk : 0 < k) (orc : Nat → LayoutInput Rat → LayoutOutput Rat)
    (p : ProgM Rat β) : runO (scaleOrc k orc) (scaleProg k p) = scale k (runO orc p) := by
  obtain ⟨h1, h2⟩ := runO_sim hk orc (SimS.of_eq hk p)
  exact Prod.ext h1 h2

/-- **computeFlexboxLayout_scale_run**: for EVERY family of children `orc`, the run of the scaled container against the
scaled children returns the scaled output, having sent the scaled queries and set the scaled layouts -/
theorem computeFlexboxLayout_scale_run (hk : 0 < k) (style : Style Rat) (cs : List (Style Rat)) (inp : LayoutInput Rat)
    (orc : Nat → LayoutInput Rat → LayoutOutput Rat) :
    runO (scaleOrc k orc) (computeFlexboxLayout (scale k style) (cs.map (scale k)) (scale k inp)) =
      scale k (runO orc (computeFlexboxLayout style cs inp)) := by
  rw [computeFlexboxLayout_scale hk, runO_scaleProg hk]

end C04
