/-
  C04 for flexbox, part 4: the stages of `compute_preliminary` that talk to children, as interaction programs.

  Unconditionally homogeneous (`… = scaleProg k …`): determine_flex_base_size, determine_hypothetical_cross_size,
  calculate_children_base_lines, the final layout pass, the absolute pass.

  `SimS k Q p' p` ("same shape, inputs and layouts scaled, answers scaled, results related by `Q`") generalises
  `p' = scaleProg k p` (which is `Q b' b := b' = scale k b`, `SimS.to_eq`/`SimS.of_eq'`); it transports to runs against
  child-answer functions (Lemmas/FlexScaleRun.lean).
-/
import TaffyVerif.Lemmas.FlexScaleCross
import TaffyVerif.Lemmas.FlexItemStages

set_option linter.unusedSectionVars false
set_option linter.unusedVariables false
set_option linter.unusedSimpArgs false

namespace C04
open Scalable FlexModel FlexStages BlockModel
open FlexLine (sumF sumAxisGaps)

variable {k : Rat}

/-! ### simulation up to scaling, with a result relation -/

/-- `p'` and `p` have the same shape; the inputs of `p'`'s calls and the layouts it sets are those of `p` scaled by `k`;
for an answer `o` to `p` the answer `scale k o` is fed to `p'`; final results are related by `Q` -/
inductive SimS (k : Rat) {β : Type} (Q : β → β → Prop) : ProgM Rat β → ProgM Rat β → Prop
  | pure (b' b : β) : Q b' b → SimS k Q (.pure b') (.pure b)
  | call (i : Nat) (inp : LayoutInput Rat) (c' c : LayoutOutput Rat → ProgM Rat β) :
      (∀ o, SimS k Q (c' (scale k o)) (c o)) → SimS k Q (.call i (scale k inp) c') (.call i inp c)
  | setLayout (i : Nat) (l : Layout Rat) (c' c : Unit → ProgM Rat β) :
      SimS k Q (c' ()) (c ()) → SimS k Q (.setLayout i (scale k l) c') (.setLayout i l c)

section sims
variable {β γ : Type}

theorem SimS.bind {Q : β → β → Prop} {Q2 : γ → γ → Prop} {p' p : ProgM Rat β} {f' f : β → ProgM Rat γ}
    (h : SimS k Q p' p) (hf : ∀ b' b, Q b' b → SimS k Q2 (f' b') (f b)) : SimS k Q2 (p' >>= f') (p >>= f) := by
  induction h with
  | pure b' b hq => exact hf b' b hq
  | call i inp c' c _ ih => exact .call i inp _ _ fun o => ih o
  | setLayout i l c' c _ ih => exact .setLayout i l _ _ ih

theorem SimS.mono {Q Q2 : β → β → Prop} {p' p : ProgM Rat β} (h : SimS k Q p' p) (hq : ∀ b' b, Q b' b → Q2 b' b) :
    SimS k Q2 p' p := by
  induction h with
  | pure b' b h => exact .pure b' b (hq b' b h)
  | call i inp c' c _ ih => exact .call i inp _ _ ih
  | setLayout i l c' c _ ih => exact .setLayout i l _ _ ih

variable [Scalable β]

/-- the exact case: `SimS` with "result scaled" is `scaleProg` -/
theorem SimS.of_eq (hk : 0 < k) (p : ProgM Rat β) : SimS k (fun b' b => b' = scale k b) (scaleProg k p) p := by
  induction p with
  | pure b => exact .pure _ _ rfl
  | call i inp c ih =>
    rw [scaleProg_call]
    refine .call i inp _ _ fun o => ?_
    show SimS k _ (scaleProg k (c (scale k⁻¹ (scale k o)))) (c o)
    rw [scale_cancel_inv hk]
    exact ih o
  | setLayout i l c ih =>
    rw [scaleProg_setLayout]
    exact .setLayout i l _ _ (ih ())

theorem SimS.of_eq' (hk : 0 < k) {p' p : ProgM Rat β} (h : p' = scaleProg k p) :
    SimS k (fun b' b => b' = scale k b) p' p := by
  rw [h]; exact SimS.of_eq hk p

theorem SimS.to_eq (hk : 0 < k) {p' p : ProgM Rat β} (h : SimS k (fun b' b => b' = scale k b) p' p) :
    p' = scaleProg k p := by
  induction h with
  | pure b' b h => rw [h]; rfl
  | call i inp c' c _ ih =>
    rw [scaleProg_call]
    congr 1
    funext o
    have := ih (scale k⁻¹ o)
    rwa [scale_inv_cancel hk] at this
  | setLayout i l c' c _ ih =>
    rw [scaleProg_setLayout]
    congr 1
    funext u
    exact ih

end sims

/-! ### determine_flex_base_size -/

theorem fbCrossAvail_scale (hk : 0 < k) (c : AlgoConstants Rat) (av : Size (AvailableSpace Rat)) (child : FlexItem Rat) :
    fbCrossAvail (scale k c) (scale k av) (scale k child) = scale k (fbCrossAvail c av child) := by
  simp only [fbCrossAvail, fxk_dir, fxk_nodeInnerSize, fxk_margin, fxi_minSize, fxi_maxSize, Size.cross_scale,
    Rect.crossAxisSum_scale, of_add_scale hk]
  cases av.cross c.dir with
  | definite v => simp only [scale_simp, hk]
  | minContent =>
    simp only [scale_minContent]
    cases MaybeMath.of_add (child.minSize.cross c.dir) (c.margin.crossAxisSum c.dir) <;> rfl
  | maxContent =>
    simp only [scale_maxContent]
    cases MaybeMath.of_add (child.maxSize.cross c.dir) (c.margin.crossAxisSum c.dir) <;> rfl

theorem fbKnown_scale (hk : 0 < k) (c : AlgoConstants Rat) (av : Size (AvailableSpace Rat)) (child : FlexItem Rat) :
    fbKnown (scale k c) (scale k av) (scale k child) = scale k (fbKnown c av child) := by
  simp only [fbKnown, fxk_dir, fbCrossAvail_scale hk, childKnownDimensions_scale hk]

theorem fbParent_scale (k : Rat) (c : AlgoConstants Rat) : fbParent (scale k c) = scale k (fbParent c) := by
  simp only [fbParent, scale_simp]

theorem fbAdjust_scale (k : Rat) (c : AlgoConstants Rat) (cs : Style Rat) :
    fbAdjust (scale k c) (scale k cs) = scale k (fbAdjust c cs) := by
  simp only [fbAdjust, scale_simp]

theorem fbDefinite_scale (hk : 0 < k) (c : AlgoConstants Rat) (cs : Style Rat) (child : FlexItem Rat) :
    fbDefinite (scale k c) (scale k cs) (scale k child) = scale k (fbDefinite c cs child) := by
  simp only [fbDefinite, fbAdjust_scale, scale_simp, hk]

theorem fbAvailBasis_scale (hk : 0 < k) (c : AlgoConstants Rat) (av : Size (AvailableSpace Rat)) (child : FlexItem Rat) :
    fbAvailBasis (scale k c) (scale k av) (scale k child) = scale k (fbAvailBasis c av child) := by
  simp only [fbAvailBasis, fxk_dir, fbCrossAvail_scale hk, Size.main_scale]
  cases av.main c.dir <;>
    (simp only [scale_definite, scale_minContent, scale_maxContent]
     rw [← setCross_scale, ← setMain_scale]
     rfl)

theorem fbAvailMin_scale (hk : 0 < k) (c : AlgoConstants Rat) (av : Size (AvailableSpace Rat)) (child : FlexItem Rat) :
    fbAvailMin (scale k c) (scale k av) (scale k child) = scale k (fbAvailMin c av child) := by
  simp only [fbAvailMin, fxk_dir, fbCrossAvail_scale hk]
  rw [← setCross_scale]
  rfl

theorem maybeIntoAutomaticMinSize_scale (k : Rat) (o : Overflow) :
    (o.maybeIntoAutomaticMinSize : Option Rat) = scale k (o.maybeIntoAutomaticMinSize : Option Rat) := by
  unfold Overflow.maybeIntoAutomaticMinSize
  split
  · simp only [scale_some, scale_zero]
  · rfl

/-- `fbFinish` keeps `content_flex_fraction`; on fresh items (`= 0`) it is homogeneous -/
theorem fbFinish_scale (hk : 0 < k) (c : AlgoConstants Rat) (child : FlexItem Rat) (fb mc : Rat)
    (h0 : child.contentFlexFraction = 0) :
    fbFinish (scale k c) (scale k child) (scale k fb) (scale k mc) = scale k (fbFinish c child fb mc) := by
  unfold fbFinish
  simp only [fxi_overflow]
  have ha : (⟨child.overflow.x.maybeIntoAutomaticMinSize, child.overflow.y.maybeIntoAutomaticMinSize⟩ :
      Size (Option Rat)) = scale k ⟨child.overflow.x.maybeIntoAutomaticMinSize,
        child.overflow.y.maybeIntoAutomaticMinSize⟩ := by
    rw [scale_size_mk, ← maybeIntoAutomaticMinSize_scale, ← maybeIntoAutomaticMinSize_scale]
  generalize (⟨child.overflow.x.maybeIntoAutomaticMinSize, child.overflow.y.maybeIntoAutomaticMinSize⟩ :
      Size (Option Rat)) = am at ha ⊢
  conv_lhs => rw [ha]
  simp only [scale_fxi_mk, scale_simp, hk, h0, cffScale_zero]

theorem fbFinish_cff (c : AlgoConstants Rat) (child : FlexItem Rat) (fb mc : Rat) :
    (fbFinish c child fb mc).contentFlexFraction = child.contentFlexFraction := rfl

theorem flexBaseSizeItem_scale (hk : 0 < k) (c : AlgoConstants Rat) (av : Size (AvailableSpace Rat)) (cs : Style Rat)
    (child : FlexItem Rat) (h0 : child.contentFlexFraction = 0) :
    flexBaseSizeItem (scale k c) (scale k av) (scale k cs) (scale k child) =
      scaleProg k (flexBaseSizeItem c av cs child) := by
  rw [flexBaseSizeItem_eq, flexBaseSizeItem_eq, fbDefinite_scale hk, fbKnown_scale hk, fbParent_scale,
    fbAvailBasis_scale hk, fbAvailMin_scale hk, fxi_nodeIdx, fxk_dir]
  apply bind_scale_of
  · cases fbDefinite c cs child with
    | some fb => rfl
    | none => exact measureChildSize_scale hk _ _ _ _ _ _ _
  · intro fb
    apply bind_scale_of
    · exact measureChildSize_scale hk _ _ _ _ _ _ _
    · intro mc
      rw [fbFinish_scale hk c child fb mc h0]
      rfl

theorem determineFlexBaseSize_scale (hk : 0 < k) (c : AlgoConstants Rat) (av : Size (AvailableSpace Rat))
    (cs : List (Style Rat)) : ∀ (items : List (FlexItem Rat)), (∀ it ∈ items, it.contentFlexFraction = 0) →
      determineFlexBaseSize (scale k c) (scale k av) (styleOf (cs.map (scale k))) (scale k items) =
        scaleProg k (determineFlexBaseSize c av (styleOf cs) items)
  | [], _ => rfl
  | child :: rest, h => by
    rw [scale_cons]
    unfold determineFlexBaseSize
    rw [fxi_nodeIdx, styleOf_scale]
    apply bind_scale_of
    · exact flexBaseSizeItem_scale hk c av _ child (h child List.mem_cons_self)
    · intro child'
      apply bind_scale_of
      · exact determineFlexBaseSize_scale hk c av cs rest fun it hit => h it (List.mem_cons_of_mem _ hit)
      · intro rest'
        rfl

end C04
