/-
  C07 lifted to the flexbox program, part 7: assembly of `flexibility_exhausted` for a single-line container with a
  definite main size.

    * `flexBaseItems`        the items as `determine_flex_base_size` leaves them in the run (flex basis, inner flex
                             basis, resolved minimum main size, hypothetical sizes are fixed from here on)
    * `flexMid_single`       with `flex-wrap: nowrap` and a definite inner main size `W` the measuring prefix hands on ONE
                             line whose projection is the result `r` of `resolve_flexible_lengths (some W)`
    * `flexRun_exhausted`    C07 `flexibility_exhausted` about the layouts the run sets
-/
import TaffyVerif.Lemmas.LiftFlexExhaust

set_option linter.unusedSectionVars false
set_option linter.unusedVariables false

namespace Lift
open FlexModel EvalFlex FlexLine FlexStages AbsPosLemmas
open EvalBlock (Post Post_bind Post_true)
open AbsPos (Dir.mainStart Dir.mainEnd)

/-! ### list bookkeeping (three lists in step) -/

theorem forall₂_triple {β γ δ : Type} {A : β → δ → Prop} {B : γ → δ → Prop} {T : β → γ → Prop} :
    ∀ {l1 : List β} {l3 : List δ} {l2 : List γ}, List.Forall₂ A l1 l3 → List.Forall₂ B l2 l3 →
    (∀ a b c, c ∈ l3 → A a c → B b c → T a b) → List.Forall₂ T l1 l2 := by
  intro l1 l3 l2 hA
  induction hA generalizing l2 with
  | nil => intro hB _; cases hB; exact List.Forall₂.nil
  | cons hab _ ih =>
    intro hB hT
    cases hB with
    | cons hb1 hb2 =>
      exact List.Forall₂.cons (hT _ _ _ List.mem_cons_self hab hb1)
        (ih hb2 fun a b c hc => hT a b c (List.mem_cons_of_mem _ hc))

theorem lsum_zipWith_triple {β γ δ : Type} {A : β → δ → Prop} {B : γ → δ → Prop} (F : β → γ → Rat) (G : δ → Rat) :
    ∀ {l1 : List β} {l3 : List δ} {l2 : List γ}, List.Forall₂ A l1 l3 → List.Forall₂ B l2 l3 →
    (∀ a b c, c ∈ l3 → A a c → B b c → F a b = G c) → lsum (List.zipWith F l1 l2) = lsum (l3.map G) := by
  intro l1 l3 l2 hA
  induction hA generalizing l2 with
  | nil => intro hB _; cases hB; rfl
  | cons hab _ ih =>
    intro hB hT
    cases hB with
    | cons hb1 hb2 =>
      simp only [List.zipWith_cons_cons, List.map_cons, lsum]
      rw [hT _ _ _ List.mem_cons_self hab hb1, ih hb2 fun a b c hc => hT a b c (List.mem_cons_of_mem _ hc)]

/-! ### the run with a definite main size and a single line -/

/-- the items as `determine_flex_base_size` leaves them -/
def flexBaseItems (orc : Orc) (style : Style Rat) (cs : List (Style Rat)) (inp : LayoutInput Rat) : List (FlexItem Rat) :=
  res orc (determineFlexBaseSize (k0 style (flexInp style inp)) (av0 style (flexInp style inp)) (EvalFlex.styleOf cs)
    (items0 style cs (flexInp style inp)))

theorem flexMid_eq (orc : Orc) (style : Style Rat) (cs : List (Style Rat)) (inp : LayoutInput Rat) :
    flexMid orc style cs inp =
      res orc (hypStage (flexInp style inp) (av0 style (flexInp style inp))
        (res orc (mainSizeStage style (k0 style (flexInp style inp)) (av0 style (flexInp style inp))
          (collectFlexLines (k0 style (flexInp style inp)) (av0 style (flexInp style inp))
            (flexBaseItems orc style cs inp))))) := by
  unfold flexMid flexPrefix
  rw [res_bind, res_bind]
  rfl

theorem mainSizeStage_known (style : Style Rat) (k : AlgoConstants Rat) (av : Size (AvailableSpace Rat))
    (lines : List (FlexLineS Rat)) (W : Rat) (h : k.nodeInnerSize.main k.dir = some W) :
    mainSizeStage style k av lines = pure (lines, mainKnown k W) := by
  unfold mainSizeStage
  simp only [h]
  rfl

theorem collectFlexLines_nowrap (k : AlgoConstants Rat) (av : Size (AvailableSpace Rat)) (items : List (FlexItem Rat))
    (h : k.isWrap = false) : collectFlexLines k av items = [mkLine items] := by
  unfold collectFlexLines
  simp only [h, Bool.not_false, if_true]

theorem k0_isWrap_nowrap (style : Style Rat) (inputs : LayoutInput Rat) (h : style.flexWrap = .noWrap) :
    (k0 style inputs).isWrap = false := by
  show (style.flexWrap == .wrap || style.flexWrap == .wrapReverse) = false
  rw [h]; rfl

theorem idxs_aligned (orc : Orc) (style : Style Rat) (cs : List (Style Rat)) (inp : LayoutInput Rat) :
    idxs (flexAlignedLines orc style cs inp) = iidx (items0 style cs (flexInp style inp)) := by
  obtain ⟨-, hm⟩ := lays_meas orc _ _ (Meas_flexPrefix style cs (flexInp style inp))
  have h2 : idxs (flexAlignedLines orc style cs inp) = idxs (flexMid orc style cs inp).1 := by
    simp only [idxs, flexAlignedLines, flexCrossLines, crossStage, shape_alignFlexLines,
      shape_resolveCrossAxisAutoMargins, shape_distribute, shape_determineUsedCrossSize,
      shape_handleAlignContentStretch, shape_calculateCrossSize]
  rw [h2]
  exact hm

theorem iidx_flexBaseItems (orc : Orc) (style : Style Rat) (cs : List (Style Rat)) (inp : LayoutInput Rat) :
    iidx (flexBaseItems orc style cs inp) = iidx (items0 style cs (flexInp style inp)) :=
  (lays_meas orc _ _ (Meas_determineFlexBaseSize _ _ _ _)).2

/-- the single line the prefix hands on, its projection and the constants -/
theorem flexMid_single (orc : Orc) (style : Style Rat) (cs : List (Style Rat)) (inp : LayoutInput Rat)
    (hnw : style.flexWrap = .noWrap) (W : Rat)
    (hW : (k0 style (flexInp style inp)).nodeInnerSize.main style.flexDirection = some W)
    (r : List (FlexItemM Rat))
    (hr : resolveFlexibleLengths ((flexBaseItems orc style cs inp).map (toM style.flexDirection)) (some W)
      ((k0 style (flexInp style inp)).gap.main style.flexDirection)
      (((flexBaseItems orc style cs inp).map (toM style.flexDirection)).length + 1) = some r) :
    mshape style.flexDirection (flexMid orc style cs inp).1 = [r] ∧
    (flexMid orc style cs inp).2 = mainKnown (k0 style (flexInp style inp)) W := by
  have hk : (k0 style (flexInp style inp)).dir = style.flexDirection := rfl
  rw [flexMid_eq, mainSizeStage_known style _ _ _ W (by rw [hk]; exact hW), res_pure,
    collectFlexLines_nowrap _ _ _ (k0_isWrap_nowrap style _ hnw)]
  obtain ⟨h1, h2⟩ := res_post orc _ (Post_hypStage_M (flexInp style inp) (av0 style (flexInp style inp))
    ([mkLine (flexBaseItems orc style cs inp)], mainKnown (k0 style (flexInp style inp)) W))
  refine ⟨?_, h2⟩
  have hd : (mainKnown (k0 style (flexInp style inp)) W).dir = style.flexDirection := rfl
  rw [hd] at h1
  rw [h1]
  have hline : resolveFlexibleLengthsLine (mainKnown (k0 style (flexInp style inp)) W)
      (mkLine (flexBaseItems orc style cs inp)) =
      { mkLine (flexBaseItems orc style cs inp) with
        items := zipBack style.flexDirection (flexBaseItems orc style cs inp) r } := by
    unfold resolveFlexibleLengthsLine
    simp only
    have e1 : (mainKnown (k0 style (flexInp style inp)) W).nodeInnerSize.main style.flexDirection = some W := hW
    have e2 : (mainKnown (k0 style (flexInp style inp)) W).gap = (k0 style (flexInp style inp)).gap := rfl
    rw [hd, e1, e2]
    have e3 : (mkLine (flexBaseItems orc style cs inp)).items = flexBaseItems orc style cs inp := rfl
    rw [e3, hr]
  simp only [List.map_cons, List.map_nil, hline, mshape]
  congr 1
  apply map_toM_zipBack
  have := rfl_sframe _ _ _ _ _ hr
  have h' := congrArg (List.map dframe) this
  simp only [List.map_map] at h' ⊢
  exact h'

/-! ### the oracle hypothesis -/

/-- the children return the main size they are told: PerformLayout queries with both dimensions known (the queries of the
final layout pass) are answered with that main size -/
def OracleHonoursKnownMain (dir : FlexDirection) (orc : Orc) : Prop :=
  ∀ (i : Nat) (q : LayoutInput Rat) (w h : Rat), q.runMode = .performLayout → q.knownDimensions = ⟨some w, some h⟩ →
    (orc i q).size.main dir = (Size.mk w h).main dir

/-- the children return the size they are told when both dimensions are known (PerformLayout) -/
def OracleHonoursKnown (orc : Orc) : Prop :=
  ∀ (i : Nat) (q : LayoutInput Rat) (w h : Rat), q.runMode = .performLayout → q.knownDimensions = ⟨some w, some h⟩ →
    (orc i q).size = ⟨w, h⟩

theorem honoursKnownMain_of_honoursKnown (dir : FlexDirection) (orc : Orc) (h : OracleHonoursKnown orc) :
    OracleHonoursKnownMain dir orc := by
  intro i q w h' hm hq
  rw [h i q w h' hm hq]

theorem outOf_main (orc : Orc) (dir : FlexDirection) (h : OracleHonoursKnownMain dir orc) (k : AlgoConstants Rat)
    (it : FlexItem Rat) : (outOf orc k it).size.main dir = it.targetSize.main dir :=
  h _ _ _ _ rfl rfl

/-! ### the lifted theorem -/

/-- the style-level conditions on an in-flow child, read off its generated item -/
structure ChildWF (dir : FlexDirection) (g : FlexItem Rat) : Prop where
  grow : 0 ≤ g.flexGrow
  shrink : 0 ≤ g.flexShrink
  growF : g.flexGrow = 0 ∨ 1 ≤ g.flexGrow
  shrinkF : g.flexShrink = 0 ∨ 1 ≤ g.flexShrink
  pb : 0 ≤ pbMain dir g
  maxPb : ∀ u, g.maxSize.main dir = some u → pbMain dir g ≤ u

theorem items0_unfrozen (style : Style Rat) (cs : List (Style Rat)) (inputs : LayoutInput Rat) :
    AllI (fun it => it.frozen = false) (items0 style cs inputs) :=
  items0_of_styles style cs inputs _ fun _ _ _ _ => rfl

/-- **flexRun_exhausted** -/
theorem flexRun_exhausted (orc : Orc) (style : Style Rat) (cs : List (Style Rat)) (inp : LayoutInput Rat)
    (h : inp.runMode = .performLayout) (hnw : style.flexWrap = .noWrap) (W : Rat)
    (hW : (k0 style (flexInp style inp)).nodeInnerSize.main style.flexDirection = some W)
    (hkids : AllI (ChildWF style.flexDirection) (items0 style cs (flexInp style inp)))
    (horc : OracleHonoursKnownMain style.flexDirection orc) :
    ∃ Ls : List (Nat × Layout Rat),
      Ls.map Prod.fst = iidx (items0 style cs (flexInp style inp)) ∧
      (∀ x ∈ Ls, x ∈ lays orc (computeFlexboxLayout style cs inp)) ∧
      (lsum (List.zipWith (fun (it : FlexItem Rat) (x : Nat × Layout Rat) =>
            x.2.size.main style.flexDirection + it.margin.mainAxisSum style.flexDirection)
          (flexBaseItems orc style cs inp) Ls) +
        sumAxisGaps ((k0 style (flexInp style inp)).gap.main style.flexDirection) (flexBaseItems orc style cs inp).length = W ∨
       (if sumAxisGaps ((k0 style (flexInp style inp)).gap.main style.flexDirection) (flexBaseItems orc style cs inp).length +
            sumF ((flexBaseItems orc style cs inp).map fun it => it.hypotheticalOuterSize.main style.flexDirection) < W then
          List.Forall₂ (fun (it : FlexItem Rat) (x : Nat × Layout Rat) => 0 < it.flexGrow →
            ∃ u, it.maxSize.main style.flexDirection = some u ∧
              x.2.size.main style.flexDirection = max (max u it.resolvedMinimumMainSize) 0)
            (flexBaseItems orc style cs inp) Ls
        else
          List.Forall₂ (fun (it : FlexItem Rat) (x : Nat × Layout Rat) => 0 < it.innerFlexBasis * it.flexShrink →
            x.2.size.main style.flexDirection = max it.resolvedMinimumMainSize 0)
            (flexBaseItems orc style cs inp) Ls)) := by
  -- the items of the run and C07's hypotheses
  have hfb : List.Forall₂ (fun it c => ∃ fb mc, it = fbFinish (k0 style (flexInp style inp)) c fb mc)
      (flexBaseItems orc style cs inp) (items0 style cs (flexInp style inp)) :=
    res_post orc _ (Post_determineFlexBaseSize_fb _ _ _ _)
  have hk : (k0 style (flexInp style inp)).dir = style.flexDirection := rfl
  have hfacts : ∀ it ∈ flexBaseItems orc style cs inp, ItemWF (toM style.flexDirection it) ∧
      (it.flexGrow = 0 ∨ 1 ≤ it.flexGrow) ∧ (it.flexShrink = 0 ∨ 1 ≤ it.flexShrink) := by
    intro it hit
    obtain ⟨c, hc, fb, mc, rfl⟩ := forall₂_mem_left hfb it hit
    have hw := hkids c hc
    refine ⟨?_, hw.growF, hw.shrinkF⟩
    have := itemWF_fbFinish (k0 style (flexInp style inp)) c fb mc (items0_unfrozen style cs _ c hc) hw.grow hw.shrink
      (by rw [hk]; exact hw.pb) (by rw [hk]; exact hw.maxPb)
    rw [hk] at this
    exact this
  obtain ⟨r, hr, hall, hconcl⟩ := C07.flexibility_exhausted_total
    ((flexBaseItems orc style cs inp).map (toM style.flexDirection)) W
    ((k0 style (flexInp style inp)).gap.main style.flexDirection)
    (by intro c hc; obtain ⟨it, hit, rfl⟩ := List.mem_map.1 hc; exact (hfacts it hit).1)
    (by intro _ c hc; obtain ⟨it, hit, rfl⟩ := List.mem_map.1 hc; exact (hfacts it hit).2.1)
    (by intro _ c hc; obtain ⟨it, hit, rfl⟩ := List.mem_map.1 hc; exact (hfacts it hit).2.2)
  have hsf := rfl_sframe _ _ _ _ _ hr
  have hout := rfl_outer _ _ _ _ _ hr
    (by intro c hc; obtain ⟨it, hit, rfl⟩ := List.mem_map.1 hc; exact (hfacts it hit).1.unfrozen) hall
  -- the run
  obtain ⟨hmid1, hmid2⟩ := flexMid_single orc style cs inp hnw W hW r hr
  obtain ⟨hd1, hd2⟩ := flexRun_dirs orc style cs inp
  have hshape := mshape_aligned cs (flexInp style inp) (flexMid orc style cs inp).2 (flexFinalK orc style cs inp).2
    (flexFinalK orc style cs inp).1 (flexMid orc style cs inp).1
  have hshape' : mshape (flexMid orc style cs inp).2.dir (flexAlignedLines orc style cs inp) = _ := hshape
  rw [hd1, hmid1] at hshape'
  simp only [List.map_cons, List.map_nil] at hshape'
  -- the single aligned line
  obtain ⟨ln, hln, hlnM⟩ : ∃ ln, flexAlignedLines orc style cs inp = [ln] ∧
      ln.items.map (toM style.flexDirection) = distributeRemainingFreeSpace r
        ((flexMid orc style cs inp).2.innerContainerSize.main style.flexDirection)
        ((flexMid orc style cs inp).2.gap.main style.flexDirection) (flexMid orc style cs inp).2.justifyContent
        style.flexDirection := by
    cases hal : flexAlignedLines orc style cs inp with
    | nil => rw [hal] at hshape'; simp [mshape] at hshape'
    | cons a rest =>
      rw [hal] at hshape'
      cases rest with
      | nil =>
        simp only [mshape, List.map_cons, List.map_nil, List.cons.injEq, and_true] at hshape'
        exact ⟨a, rfl, hshape'⟩
      | cons b rest' => simp [mshape] at hshape'
  have hidx : iidx ln.items = iidx (items0 style cs (flexInp style inp)) := by
    have := idxs_aligned orc style cs inp
    rw [hln] at this
    simpa [idxs_cons, idxs_nil] using this
  obtain ⟨toc, hmem⟩ := mem_lays_finalLayoutPass_of_line orc (flexFinalK orc style cs inp).2
    (flexAlignedLines orc style cs inp) ln (by rw [hln]; exact List.mem_cons_self)
  -- the three lists in step: base items / layouts / result of `resolve_flexible_lengths`
  have hA : List.Forall₂ (fun (it : FlexItem Rat) (c : FlexItemM Rat) => sframe c = sframe (toM style.flexDirection it))
      (flexBaseItems orc style cs inp) r := by
    have := forall₂_of_map_eq sframe sframe r ((flexBaseItems orc style cs inp).map (toM style.flexDirection)) hsf
    have h2 := forall₂_flip this
    exact (List.forall₂_map_left_iff.1 h2)
  have hB : List.Forall₂ (fun (x : Nat × Layout Rat) (c : FlexItemM Rat) =>
      x.2.size.main style.flexDirection = c.targetMain) (lineLays orc (flexFinalK orc style cs inp).2 ln toc) r := by
    have hz := lineLays_zip orc (flexFinalK orc style cs inp).2 ln toc
    have h1 : List.Forall₂ (fun (it : FlexItem Rat) (c : FlexItemM Rat) => (toM style.flexDirection it).targetMain = c.targetMain)
        ln.items r := by
      have e : (ln.items.map (toM style.flexDirection)).map dframe = r.map dframe := by
        rw [hlnM]; exact drfs_dframe _ _ _ _ _
      have := forall₂_of_map_eq dframe dframe _ _ e
      have h2 := List.forall₂_map_left_iff.1 this
      exact forall₂_mono (fun it c hc => by have := congrArg FlexItemM.targetMain hc; exact this) h2
    have h3 := forall₂_trans hz h1
    refine forall₂_mono ?_ h3
    rintro x c ⟨it, ⟨_, hsz, _, _⟩, htm⟩
    rw [hsz, ← hd2, outOf_main orc _ (by rw [hd2]; exact horc), hd2]
    exact htm
  refine ⟨lineLays orc (flexFinalK orc style cs inp).2 ln toc, (lineLays_fst _ _ _ _).trans hidx, ?_, ?_⟩
  · intro x hx
    rw [flexRun_lays orc style cs inp h]
    exact List.mem_append_left _ (hmem x hx)
  · have hlen : ((flexBaseItems orc style cs inp).map (toM style.flexDirection)).length =
        (flexBaseItems orc style cs inp).length := List.length_map _
    have hhyp : ((flexBaseItems orc style cs inp).map (toM style.flexDirection)).map (·.hypOuter) =
        (flexBaseItems orc style cs inp).map fun it => it.hypotheticalOuterSize.main style.flexDirection := by
      rw [List.map_map]; rfl
    rw [hlen, hhyp] at hconcl
    rcases hconcl with hsum | hrest
    · left
      rw [← hsum, sumF_eq]
      congr 1
      refine lsum_zipWith_triple _ _ hA hB ?_
      intro it x c hc h1 h2
      rw [hout c hc, h2]
      have e : c.marginSum = (toM style.flexDirection it).marginSum := by
        have := congrArg FlexItemM.marginSum h1; exact this
      rw [e]
      simp only [FlexItemM.marginSum, toM, mainAxisSum_eq]
    · right
      split
      · rename_i hlt
        rw [if_pos hlt] at hrest
        refine forall₂_triple hA hB ?_
        intro it x c hc h1 h2 hg
        have eg : c.flexGrow = it.flexGrow := by have := congrArg FlexItemM.flexGrow h1; exact this
        have em : c.maxMain = it.maxSize.main style.flexDirection := by have := congrArg FlexItemM.maxMain h1; exact this
        have en : c.resolvedMinMain = it.resolvedMinimumMainSize := by
          have := congrArg FlexItemM.resolvedMinMain h1; exact this
        obtain ⟨u, hu, ht⟩ := hrest c hc (by rw [eg]; exact hg)
        exact ⟨u, by rw [← em]; exact hu, by rw [h2, ht, en]⟩
      · rename_i hlt
        rw [if_neg hlt] at hrest
        refine forall₂_triple hA hB ?_
        intro it x c hc h1 h2 hg
        have ei : c.innerFlexBasis = it.innerFlexBasis := by have := congrArg FlexItemM.innerFlexBasis h1; exact this
        have es : c.flexShrink = it.flexShrink := by have := congrArg FlexItemM.flexShrink h1; exact this
        have en : c.resolvedMinMain = it.resolvedMinimumMainSize := by
          have := congrArg FlexItemM.resolvedMinMain h1; exact this
        have ht := hrest c hc (by rw [ei, es]; exact hg)
        unfold AtMin at ht
        rw [h2, ht, en]

end Lift
