/-
  C03 (finiteness) — "lay out one absolutely positioned child" (Model/AbsPos.lean, the functions C11's theorems are about)
  at `ER`: the block copy (`absBlock`) and the flexbox copy (`absFlex`, whose stages are the loop body of the flex program),
  stage by stage.  Divisions: `free_space / auto_margin_count` (count > 0 under its guard) and `/ 2.0`.
-/
import TaffyVerif.Lemmas.FinBasic
import TaffyVerif.Model.AbsPos

namespace C03Fin
open AbsPos

theorem fin_abs_scrollbarSize {st : Style ER} (hs : StyleFin st) : SFin (AbsPos.scrollbarSize st) :=
  ⟨fin_ite hs.scrollbarWidth fin_zero, fin_ite hs.scrollbarWidth fin_zero⟩

theorem fin_abs_scrollbarGutter {st : Style ER} (hs : StyleFin st) : PFin (AbsPos.scrollbarGutter st) :=
  ⟨fin_ite hs.scrollbarWidth fin_zero, fin_ite hs.scrollbarWidth fin_zero⟩

theorem autoCount_cases (a b : Option ER) : autoCount a b = 0 ∨ 0 < autoCount a b := by
  unfold autoCount; omega

theorem fin_div_autoCount {x : ER} {a b : Option ER} (hx : IsFin x) :
    IsFin (if autoCount a b > 0 then x / countF (autoCount a b) else 0) :=
  fin_ite' (fun hpos => fin_div hx (fin_ofNat _) (ofNat_ne_zero hpos)) (fun _ => fin_zero)

theorem fin_map_some {s : Size ER} (h : SFin s) : SOFin (s.map some) := ⟨h.1, h.2⟩

theorem fin_perform {kd ps : Size (Option ER)} {av : Size (AvailableSpace ER)} {sm : SizingMode} (h1 : SOFin kd)
    (h2 : SOFin ps) (h3 : SAvFin av) : InFin (performInput kd ps av sm) := ⟨h1, h2, h3⟩

/-- location along one axis: `inset.start + margin`, else `area − size − inset.end − margin`, else static -/
theorem fin_locAxis {a b : Option ER} {rmS rmE areaD fsD offD stat : ER} (ha : OFin a) (hb : OFin b)
    (h1 : IsFin rmS) (h2 : IsFin rmE) (h3 : IsFin areaD) (h4 : IsFin fsD) (h5 : IsFin offD) (h6 : IsFin stat) :
    IsFin ((MaybeMath.of_add ((a.map fun l => l + rmS).or (b.map fun rr => areaD - fsD - rr - rmE)) offD).getD
      (stat + rmS)) := by
  refine fin_getD (fin_of_add (fin_or ?_ ?_) h5) (fin_add h6 h1)
  · cases a with
    | none => trivial
    | some l => exact fin_add ha h1
  · cases b with
    | none => trivial
    | some rr => exact fin_sub (fin_sub (fin_sub h3 h4) hb) h2

/-! ## block.rs -/

structure BlockArgsFin (a : BlockArgs ER) : Prop where
  areaSize : SFin a.areaSize
  areaOffset : PFin a.areaOffset
  staticPosition : PFin a.staticPosition

structure BlockResolvedFin (r : BlockResolved ER) : Prop where
  margin : ROFin r.margin
  padding : RFin r.padding
  border : RFin r.border
  left : OFin r.left
  right : OFin r.right
  top : OFin r.top
  bottom : OFin r.bottom
  styleSize : SOFin r.styleSize
  minSize : SOFin r.minSize
  maxSize : SOFin r.maxSize

theorem fin_blockCallSite {cst : Style ER} {outer : Size ER} {order : Nat} (hs : StyleFin cst) (ho : SFin outer) :
    BlockArgsFin (blockCallSite cst outer order) := by
  have hg := fin_abs_scrollbarGutter hs
  have hgr : RFin (⟨0, (AbsPos.scrollbarGutter cst).x, 0, (AbsPos.scrollbarGutter cst).y⟩ : Rect ER) :=
    ⟨fin_zero, hg.1, fin_zero, hg.2⟩
  have hw : OFin (some outer.width) := ho.1
  have hp := fin_rectLPOrZero hs.padding hw
  have hb := fin_rectLPOrZero hs.border hw
  have hc := fin_rect_add (fin_rect_add hp hb) hgr
  have hi := fin_rect_add hb hgr
  exact ⟨fin_size_sub ho (fin_sumAxes hi), ⟨hi.l, hi.t⟩, ⟨hc.l, hc.t⟩⟩

theorem fin_blockResolve {a : BlockArgs ER} {st : Style ER} (ha : BlockArgsFin a) (hs : StyleFin st) :
    BlockResolvedFin (blockResolve a st) := by
  have hw : OFin (some a.areaSize.width) := ha.areaSize.1
  have hh : OFin (some a.areaSize.height) := ha.areaSize.2
  have hao : SOFin (⟨some a.areaSize.width, some a.areaSize.height⟩ : Size (Option ER)) := ⟨hw, hh⟩
  have hp := fin_rectLPOrZero hs.padding hw
  have hb := fin_rectLPOrZero hs.border hw
  have hpb := fin_sumAxes (fin_rect_add hp hb)
  have hbsa : SFin (if st.boxSizing == .contentBox then
      ((Resolve.rectLPOrZero st.padding (some a.areaSize.width)).add
        (Resolve.rectLPOrZero st.border (some a.areaSize.width))).sumAxes else Size.zero) :=
    fin_site hpb fin_size_zero
  have hsz := fun {d : Size (Dimension ER)} (hd : SLPAFin d) =>
    fin_size_of_add (fin_maybeApplyAspectRatio (fin_sizeMaybe hd hao) hs.aspectRatio) hbsa
  exact
    { margin := ⟨fin_LPA_resolveToOption hs.margin.1 ha.areaSize.1, fin_LPA_resolveToOption hs.margin.2.1 ha.areaSize.1,
        fin_LPA_resolveToOption hs.margin.2.2.1 ha.areaSize.1, fin_LPA_resolveToOption hs.margin.2.2.2 ha.areaSize.1⟩
      padding := hp, border := hb
      left := fin_LPA_maybeResolve hs.inset.1 hw, right := fin_LPA_maybeResolve hs.inset.2.1 hw
      top := fin_LPA_maybeResolve hs.inset.2.2.1 hh, bottom := fin_LPA_maybeResolve hs.inset.2.2.2 hh
      styleSize := hsz hs.size
      minSize := fin_size_of_max (fin_orOpt (hsz hs.minSize) (fin_map_some hpb)) hpb
      maxSize := hsz hs.maxSize }

theorem fin_blockFillWidth {a : BlockArgs ER} {r : BlockResolved ER} {ar : Option ER} {kd : Size (Option ER)}
    (ha : BlockArgsFin a) (hr : BlockResolvedFin r) (har : ARFin ar) (hk : SOFin kd) :
    SOFin (blockFillWidth a r ar kd) := by
  unfold blockFillWidth
  split
  · rename_i l rr e1 e2 e3
    refine fin_size_oo_clamp (fin_maybeApplyAspectRatio ⟨?_, hk.2⟩ har) hr.minSize hr.maxSize
    exact fin_fmax (fin_sub (fin_sub (fin_fo_sub (fin_fo_sub ha.areaSize.1 hr.margin.l) hr.margin.r)
      (OFin.of_some hr.left e2)) (OFin.of_some hr.right e3)) fin_zero
  · exact hk

theorem fin_blockFillHeight {a : BlockArgs ER} {r : BlockResolved ER} {ar : Option ER} {kd : Size (Option ER)}
    (ha : BlockArgsFin a) (hr : BlockResolvedFin r) (har : ARFin ar) (hk : SOFin kd) :
    SOFin (blockFillHeight a r ar kd) := by
  unfold blockFillHeight
  split
  · rename_i t b e1 e2 e3
    refine fin_size_oo_clamp (fin_maybeApplyAspectRatio ⟨hk.1, ?_⟩ har) hr.minSize hr.maxSize
    exact fin_fmax (fin_sub (fin_sub (fin_fo_sub (fin_fo_sub ha.areaSize.2 hr.margin.t) hr.margin.b)
      (OFin.of_some hr.top e2)) (OFin.of_some hr.bottom e3)) fin_zero
  · exact hk

theorem fin_blockKnown {a : BlockArgs ER} {r : BlockResolved ER} {ar : Option ER}
    (ha : BlockArgsFin a) (hr : BlockResolvedFin r) (har : ARFin ar) : SOFin (blockKnown a r ar) :=
  fin_blockFillHeight ha hr har (fin_blockFillWidth ha hr har (fin_size_oo_clamp hr.styleSize hr.minSize hr.maxSize))

theorem fin_blockChildInput {a : BlockArgs ER} {r : BlockResolved ER} {kd : Size (Option ER)}
    (ha : BlockArgsFin a) (hr : BlockResolvedFin r) (hk : SOFin kd) : InFin (blockChildInput a r kd) :=
  fin_perform hk ⟨ha.areaSize.1, ha.areaSize.2⟩
    ⟨fin_fo_clamp ha.areaSize.1 hr.minSize.1 hr.maxSize.1, fin_fo_clamp ha.areaSize.2 hr.minSize.2 hr.maxSize.2⟩

theorem fin_blockFinalSize {r : BlockResolved ER} {kd : Size (Option ER)} {m : Size ER}
    (hr : BlockResolvedFin r) (hk : SOFin kd) (hm : SFin m) : SFin (blockFinalSize r kd m) :=
  fin_size_fo_clamp (fin_unwrapOr hk hm) hr.minSize hr.maxSize

theorem fin_blockAutoMarginSize {ms me ss : Option ER} {free : ER} (hf : IsFin free) :
    IsFin (blockAutoMarginSize ms me ss free) := by
  unfold blockAutoMarginSize
  exact fin_ite fin_zero (fin_ite' (fun hpos => fin_div hf (fin_ofNat _) (ofNat_ne_zero hpos)) (fun _ => fin_zero))

theorem fin_autoMarginSide {m : Option ER} {x : ER} (hm : OFin m) (hx : IsFin x) :
    IsFin (m.getD ((m.map fun _ => (0 : ER)).getD x)) := by
  cases m with
  | none => exact hx
  | some v => exact hm

theorem fin_blockResolvedMargin {a : BlockArgs ER} {r : BlockResolved ER} {fs : Size ER}
    (ha : BlockArgsFin a) (hr : BlockResolvedFin r) (hf : SFin fs) : RFin (blockResolvedMargin a r fs) := by
  have hna : RFin
      { left := if r.left.isSome then r.margin.left.getD 0 else 0,
        right := if r.right.isSome then r.margin.right.getD 0 else 0,
        top := if r.top.isSome then r.margin.top.getD 0 else 0,
        bottom := if r.bottom.isSome then r.margin.bottom.getD 0 else (0 : ER) } :=
    ⟨fin_ite (fin_getD hr.margin.l fin_zero) fin_zero, fin_ite (fin_getD hr.margin.r fin_zero) fin_zero,
     fin_ite (fin_getD hr.margin.t fin_zero) fin_zero, fin_ite (fin_getD hr.margin.b fin_zero) fin_zero⟩
  unfold blockResolvedMargin
  dsimp only
  refine ⟨fin_autoMarginSide hr.margin.l ?_, fin_autoMarginSide hr.margin.r ?_, fin_autoMarginSide hr.margin.t ?_,
    fin_autoMarginSide hr.margin.b ?_⟩
  · refine fin_blockAutoMarginSize (fin_sub (fin_sub ?_ hf.1) (fin_hsum hna))
    split
    · rename_i rr e; exact fin_sub (fin_sub ha.areaSize.1 (OFin.of_some hr.right e)) (fin_getD hr.left fin_zero)
    · exact hf.1
  · refine fin_blockAutoMarginSize (fin_sub (fin_sub ?_ hf.1) (fin_hsum hna))
    split
    · rename_i rr e; exact fin_sub (fin_sub ha.areaSize.1 (OFin.of_some hr.right e)) (fin_getD hr.left fin_zero)
    · exact hf.1
  · refine fin_blockAutoMarginSize (fin_sub (fin_sub ?_ hf.2) (fin_vsum hna))
    split
    · rename_i b e; exact fin_sub (fin_sub ha.areaSize.2 (OFin.of_some hr.bottom e)) (fin_getD hr.top fin_zero)
    · exact hf.2
  · refine fin_blockAutoMarginSize (fin_sub (fin_sub ?_ hf.2) (fin_vsum hna))
    split
    · rename_i b e; exact fin_sub (fin_sub ha.areaSize.2 (OFin.of_some hr.bottom e)) (fin_getD hr.top fin_zero)
    · exact hf.2

theorem fin_blockLocation {a : BlockArgs ER} {r : BlockResolved ER} {fs : Size ER} {rm : Rect ER}
    (ha : BlockArgsFin a) (hr : BlockResolvedFin r) (hf : SFin fs) (hrm : RFin rm) :
    PFin (blockLocation a r fs rm) :=
  ⟨fin_locAxis hr.left hr.right hrm.l hrm.r ha.areaSize.1 hf.1 ha.areaOffset.1 ha.staticPosition.1,
   fin_locAxis hr.top hr.bottom hrm.t hrm.b ha.areaSize.2 hf.2 ha.areaOffset.2 ha.staticPosition.2⟩

/-- **absBlock**: the `Layout` block.rs hands to `set_unrounded_layout` for an absolutely positioned child, for every
oracle that answers finite inputs with finite outputs -/
theorem fin_absBlock {a : BlockArgs ER} {st : Style ER} {oracle : Oracle ER} (ha : BlockArgsFin a) (hs : StyleFin st)
    (ho : ∀ i, InFin i → OutFin (oracle i)) : LayFin (absBlock a st oracle) := by
  have hr := fin_blockResolve ha hs
  have hk := fin_blockKnown ha hr hs.aspectRatio
  have hout := ho _ (fin_blockChildInput ha hr hk)
  have hf := fin_blockFinalSize hr hk hout.size
  have hrm := fin_blockResolvedMargin ha hr hf
  exact ⟨fin_blockLocation ha hr hf hrm, hf, hout.contentSize, fin_abs_scrollbarSize hs, hr.border, hr.padding, hrm⟩

/-! ## flexbox.rs -/

section dir
variable {d : FlexDirection}
theorem fin_mainStart {r : Rect ER} (h : RFin r) : IsFin (Dir.mainStart r d) := by
  unfold Dir.mainStart; split
  · exact h.l
  · exact h.t
theorem fin_mainEnd {r : Rect ER} (h : RFin r) : IsFin (Dir.mainEnd r d) := by
  unfold Dir.mainEnd; split
  · exact h.r
  · exact h.b
theorem fin_crossStart {r : Rect ER} (h : RFin r) : IsFin (Dir.crossStart r d) := by
  unfold Dir.crossStart; split
  · exact h.t
  · exact h.l
theorem fin_crossEnd {r : Rect ER} (h : RFin r) : IsFin (Dir.crossEnd r d) := by
  unfold Dir.crossEnd; split
  · exact h.b
  · exact h.r
theorem fin_omainStart {r : Rect (Option ER)} (h : ROFin r) : OFin (Dir.mainStart r d) := by
  unfold Dir.mainStart; split
  · exact h.l
  · exact h.t
theorem fin_omainEnd {r : Rect (Option ER)} (h : ROFin r) : OFin (Dir.mainEnd r d) := by
  unfold Dir.mainEnd; split
  · exact h.r
  · exact h.b
theorem fin_ocrossStart {r : Rect (Option ER)} (h : ROFin r) : OFin (Dir.crossStart r d) := by
  unfold Dir.crossStart; split
  · exact h.t
  · exact h.l
theorem fin_ocrossEnd {r : Rect (Option ER)} (h : ROFin r) : OFin (Dir.crossEnd r d) := by
  unfold Dir.crossEnd; split
  · exact h.b
  · exact h.r
theorem fin_pMain {p : Point ER} (h : PFin p) : IsFin (Dir.pMain p d) := by
  unfold Dir.pMain; split
  · exact h.1
  · exact h.2
theorem fin_pCross {p : Point ER} (h : PFin p) : IsFin (Dir.pCross p d) := by
  unfold Dir.pCross; split
  · exact h.2
  · exact h.1
end dir

structure FlexArgsFin (a : FlexArgs ER) : Prop where
  containerSize : SFin a.containerSize
  border : RFin a.border
  scrollbarGutter : PFin a.scrollbarGutter
  contentBoxInset : RFin a.contentBoxInset
  nodeInnerSize : SOFin a.nodeInnerSize

structure FlexResolvedFin (r : FlexResolved ER) : Prop where
  margin : ROFin r.margin
  padding : RFin r.padding
  border : RFin r.border
  left : OFin r.left
  right : OFin r.right
  top : OFin r.top
  bottom : OFin r.bottom
  styleSize : SOFin r.styleSize
  minSize : SOFin r.minSize
  maxSize : SOFin r.maxSize

theorem fin_flexInsetRelativeSize {a : FlexArgs ER} (ha : FlexArgsFin a) : SFin (flexInsetRelativeSize a) :=
  fin_size_sub (fin_size_sub ha.containerSize (fin_sumAxes ha.border)) ⟨ha.scrollbarGutter.1, ha.scrollbarGutter.2⟩

theorem fin_flexResolve {a : FlexArgs ER} {st : Style ER} (ha : FlexArgsFin a) (hs : StyleFin st) :
    FlexResolvedFin (flexResolve a st) := by
  have hirs := fin_flexInsetRelativeSize ha
  have hw : OFin (some (flexInsetRelativeSize a).width) := hirs.1
  have hh : OFin (some (flexInsetRelativeSize a).height) := hirs.2
  have hao : SOFin (⟨some (flexInsetRelativeSize a).width, some (flexInsetRelativeSize a).height⟩ : Size (Option ER)) :=
    ⟨hw, hh⟩
  have hp := fin_rectLPOrZero hs.padding hw
  have hb := fin_rectLPOrZero hs.border hw
  have hpb := fin_sumAxes (fin_rect_add hp hb)
  have hbsa : SFin (if st.boxSizing == .contentBox then
      ((Resolve.rectLPOrZero st.padding (some (flexInsetRelativeSize a).width)).add
        (Resolve.rectLPOrZero st.border (some (flexInsetRelativeSize a).width))).sumAxes else Size.zero) :=
    fin_site hpb fin_size_zero
  have hsz := fun {d : Size (Dimension ER)} (hd : SLPAFin d) =>
    fin_size_of_add (fin_maybeApplyAspectRatio (fin_sizeMaybe hd hao) hs.aspectRatio) hbsa
  exact
    { margin := ⟨fin_LPA_resolveToOption hs.margin.1 hirs.1, fin_LPA_resolveToOption hs.margin.2.1 hirs.1,
        fin_LPA_resolveToOption hs.margin.2.2.1 hirs.1, fin_LPA_resolveToOption hs.margin.2.2.2 hirs.1⟩
      padding := hp, border := hb
      left := fin_LPA_maybeResolve hs.inset.1 hw, right := fin_LPA_maybeResolve hs.inset.2.1 hw
      top := fin_LPA_maybeResolve hs.inset.2.2.1 hh, bottom := fin_LPA_maybeResolve hs.inset.2.2.2 hh
      styleSize := hsz hs.size
      minSize := fin_size_of_max (fin_orOpt (hsz hs.minSize) (fin_map_some hpb)) hpb
      maxSize := hsz hs.maxSize }

theorem fin_flexFillWidth {a : FlexArgs ER} {r : FlexResolved ER} {ar : Option ER} {kd : Size (Option ER)}
    (ha : FlexArgsFin a) (hr : FlexResolvedFin r) (har : ARFin ar) (hk : SOFin kd) :
    SOFin (flexFillWidth a r ar kd) := by
  unfold flexFillWidth
  split
  · rename_i l rr e1 e2 e3
    refine fin_size_oo_clamp (fin_maybeApplyAspectRatio ⟨?_, hk.2⟩ har) hr.minSize hr.maxSize
    exact fin_fmax (fin_sub (fin_sub (fin_fo_sub (fin_fo_sub (fin_flexInsetRelativeSize ha).1 hr.margin.l) hr.margin.r)
      (OFin.of_some hr.left e2)) (OFin.of_some hr.right e3)) fin_zero
  · exact hk

theorem fin_flexFillHeight {a : FlexArgs ER} {r : FlexResolved ER} {ar : Option ER} {kd : Size (Option ER)}
    (ha : FlexArgsFin a) (hr : FlexResolvedFin r) (har : ARFin ar) (hk : SOFin kd) :
    SOFin (flexFillHeight a r ar kd) := by
  unfold flexFillHeight
  split
  · rename_i t b e1 e2 e3
    refine fin_size_oo_clamp (fin_maybeApplyAspectRatio ⟨hk.1, ?_⟩ har) hr.minSize hr.maxSize
    exact fin_fmax (fin_sub (fin_sub (fin_fo_sub (fin_fo_sub (fin_flexInsetRelativeSize ha).2 hr.margin.t) hr.margin.b)
      (OFin.of_some hr.top e2)) (OFin.of_some hr.bottom e3)) fin_zero
  · exact hk

theorem fin_flexKnown {a : FlexArgs ER} {r : FlexResolved ER} {ar : Option ER}
    (ha : FlexArgsFin a) (hr : FlexResolvedFin r) (har : ARFin ar) : SOFin (flexKnown a r ar) :=
  fin_flexFillHeight ha hr har (fin_flexFillWidth ha hr har (fin_size_oo_clamp hr.styleSize hr.minSize hr.maxSize))

theorem fin_flexChildInput {a : FlexArgs ER} {r : FlexResolved ER} {kd : Size (Option ER)}
    (ha : FlexArgsFin a) (hr : FlexResolvedFin r) (hk : SOFin kd) : InFin (flexChildInput a r kd) :=
  fin_perform hk ha.nodeInnerSize
    ⟨fin_fo_clamp ha.containerSize.1 hr.minSize.1 hr.maxSize.1, fin_fo_clamp ha.containerSize.2 hr.minSize.2 hr.maxSize.2⟩

theorem fin_flexFinalSize {r : FlexResolved ER} {kd : Size (Option ER)} {m : Size ER}
    (hr : FlexResolvedFin r) (hk : SOFin kd) (hm : SFin m) : SFin (flexFinalSize r kd m) :=
  fin_size_fo_clamp (fin_unwrapOr hk hm) hr.minSize hr.maxSize

theorem fin_flexResolvedMargin {a : FlexArgs ER} {r : FlexResolved ER} {fs : Size ER}
    (ha : FlexArgsFin a) (hr : FlexResolvedFin r) (hf : SFin fs) : RFin (flexResolvedMargin a r fs) := by
  have hna : RFin (⟨r.margin.left.getD 0, r.margin.right.getD 0, r.margin.top.getD 0, r.margin.bottom.getD 0⟩ : Rect ER) :=
    ⟨fin_getD hr.margin.l fin_zero, fin_getD hr.margin.r fin_zero, fin_getD hr.margin.t fin_zero,
     fin_getD hr.margin.b fin_zero⟩
  have hfree := fin_f32Max
    (s := ⟨a.containerSize.width - fs.width - (⟨r.margin.left.getD 0, r.margin.right.getD 0, r.margin.top.getD 0,
        r.margin.bottom.getD 0⟩ : Rect ER).horizontalAxisSum,
      a.containerSize.height - fs.height - (⟨r.margin.left.getD 0, r.margin.right.getD 0, r.margin.top.getD 0,
        r.margin.bottom.getD 0⟩ : Rect ER).verticalAxisSum⟩)
    ⟨fin_sub (fin_sub ha.containerSize.1 hf.1) (fin_hsum hna), fin_sub (fin_sub ha.containerSize.2 hf.2) (fin_vsum hna)⟩
    fin_size_zero
  unfold flexResolvedMargin
  dsimp only
  have hW := fin_div_autoCount (a := r.margin.left) (b := r.margin.right) hfree.1
  have hH := fin_div_autoCount (a := r.margin.top) (b := r.margin.bottom) hfree.2
  exact ⟨fin_getD hr.margin.l hW, fin_getD hr.margin.r hW, fin_getD hr.margin.t hH, fin_getD hr.margin.b hH⟩

theorem fin_flexOffsetMain {a : FlexArgs ER} {sm em : Option ER} {fs : Size ER} {rm : Rect ER}
    (ha : FlexArgsFin a) (hsm : OFin sm) (hem : OFin em) (hf : SFin fs) (hrm : RFin rm) :
    IsFin (flexOffsetMain a sm em fs rm) := by
  have hcm := fin_size_main (d := a.dir) ha.containerSize
  have hfm := fin_size_main (d := a.dir) hf
  have hS := fin_mainStart (d := a.dir) ha.contentBoxInset
  have hE := fin_mainEnd (d := a.dir) ha.contentBoxInset
  have hrS := fin_mainStart (d := a.dir) hrm
  have hrE := fin_mainEnd (d := a.dir) hrm
  unfold flexOffsetMain
  dsimp only
  cases sm with
  | some s => exact fin_add (fin_add hsm (fin_mainStart ha.border)) hrS
  | none =>
    cases em with
    | some en =>
      exact fin_sub (fin_sub (fin_sub (fin_sub (fin_sub hcm (fin_mainEnd ha.border)) (fin_pMain ha.scrollbarGutter)) hfm)
        hem) hrE
    | none =>
      dsimp only
      have h1 := fin_add hS hrS
      have h2 := fin_sub (fin_sub (fin_sub hcm hE) hfm) hrE
      have h3 := fin_div (fin_sub (fin_add (fin_sub (fin_sub (fin_add hcm hS) hE) hfm) hrS) hrE) fin_two two_ne_zero
      split <;> first | exact h1 | exact h2 | exact h3

theorem fin_flexOffsetCross {a : FlexArgs ER} {al : AlignItems} {sc ec : Option ER} {fs : Size ER} {rm : Rect ER}
    (ha : FlexArgsFin a) (hsc : OFin sc) (hec : OFin ec) (hf : SFin fs) (hrm : RFin rm) :
    IsFin (flexOffsetCross a al sc ec fs rm) := by
  have hcm := fin_size_cross (d := a.dir) ha.containerSize
  have hfm := fin_size_cross (d := a.dir) hf
  have hS := fin_crossStart (d := a.dir) ha.contentBoxInset
  have hE := fin_crossEnd (d := a.dir) ha.contentBoxInset
  have hrS := fin_crossStart (d := a.dir) hrm
  have hrE := fin_crossEnd (d := a.dir) hrm
  unfold flexOffsetCross
  dsimp only
  cases sc with
  | some s => exact fin_add (fin_add hsc (fin_crossStart ha.border)) hrS
  | none =>
    cases ec with
    | some en =>
      exact fin_sub (fin_sub (fin_sub (fin_sub (fin_sub hcm (fin_crossEnd ha.border)) (fin_pCross ha.scrollbarGutter)) hfm)
        hec) hrE
    | none =>
      dsimp only
      have h1 := fin_add hS hrS
      have h2 := fin_sub (fin_sub (fin_sub hcm hE) hfm) hrE
      have h3 := fin_div (fin_sub (fin_add (fin_sub (fin_sub (fin_add hcm hS) hE) hfm) hrS) hrE) fin_two two_ne_zero
      split <;> first | exact h1 | exact h2 | exact h3

theorem fin_flexLocation {a : FlexArgs ER} {r : FlexResolved ER} {fs : Size ER} {rm : Rect ER}
    (ha : FlexArgsFin a) (hr : FlexResolvedFin r) (hf : SFin fs) (hrm : RFin rm) : PFin (flexLocation a r fs rm) := by
  unfold flexLocation
  cases hrow : a.dir.isRow
  · simp only [Bool.false_eq_true, if_false]
    exact ⟨fin_flexOffsetCross ha hr.left hr.right hf hrm, fin_flexOffsetMain ha hr.top hr.bottom hf hrm⟩
  · simp only [if_true]
    exact ⟨fin_flexOffsetMain ha hr.left hr.right hf hrm, fin_flexOffsetCross ha hr.top hr.bottom hf hrm⟩

/-- **absFlex**: the `Layout` flexbox.rs hands to `set_unrounded_layout` for an absolutely positioned child -/
theorem fin_absFlex {a : FlexArgs ER} {st : Style ER} {oracle : Oracle ER} (ha : FlexArgsFin a) (hs : StyleFin st)
    (ho : ∀ i, InFin i → OutFin (oracle i)) : LayFin (absFlex a st oracle) := by
  have hr := fin_flexResolve ha hs
  have hk := fin_flexKnown ha hr hs.aspectRatio
  have hout := ho _ (fin_flexChildInput ha hr hk)
  have hf := fin_flexFinalSize hr hk hout.size
  have hrm := fin_flexResolvedMargin ha hr hf
  exact ⟨fin_flexLocation ha hr hf hrm, hf, hout.contentSize, fin_abs_scrollbarSize hs, hr.border, hr.padding, hrm⟩

/-! ## grid: alignment.rs -/

def LOFin (l : Line (Option ER)) : Prop := OFin l.start ∧ OFin l.«end»
def LFin (l : Line ER) : Prop := IsFin l.start ∧ IsFin l.«end»

structure GridArgsFin (a : GridArgs ER) : Prop where
  gridArea : RFin a.gridArea
  baselineShim : IsFin a.baselineShim

structure GridResolvedFin (r : GridResolved ER) : Prop where
  gridAreaSize : SFin r.gridAreaSize
  insetH : LOFin r.insetH
  insetV : LOFin r.insetV
  padding : RFin r.padding
  border : RFin r.border
  inherentSize : SOFin r.inherentSize
  minSize : SOFin r.minSize
  maxSize : SOFin r.maxSize
  margin : ROFin r.margin
  areaMinusMargins : SFin r.areaMinusMargins

theorem fin_gridCallSite {cst : Style ER} {ps : Size (Option ER)} {bb : Size ER} {order : Nat} (hs : StyleFin cst)
    (hps : SOFin ps) (hbb : SFin bb) : GridArgsFin (gridCallSite cst ps bb order) := by
  have hb := fin_rectLPOrZero hs.border hps.1
  have hg := fin_abs_scrollbarGutter hs
  exact ⟨⟨hb.l, fin_sub (fin_sub hbb.1 hb.r) hg.1, hb.t, fin_sub (fin_sub hbb.2 hb.b) hg.2⟩, fin_zero⟩

theorem fin_gridResolve {a : GridArgs ER} {st : Style ER} (ha : GridArgsFin a) (hs : StyleFin st) :
    GridResolvedFin (gridResolve a st) := by
  have hgas : SFin (⟨a.gridArea.right - a.gridArea.left, a.gridArea.bottom - a.gridArea.top⟩ : Size ER) :=
    ⟨fin_sub ha.gridArea.r ha.gridArea.l, fin_sub ha.gridArea.b ha.gridArea.t⟩
  have hw : OFin (some (a.gridArea.right - a.gridArea.left)) := hgas.1
  have hao : SOFin (⟨some (a.gridArea.right - a.gridArea.left), some (a.gridArea.bottom - a.gridArea.top)⟩ :
      Size (Option ER)) := ⟨hgas.1, hgas.2⟩
  have hp := fin_rectLPOrZero hs.padding hw
  have hb := fin_rectLPOrZero hs.border hw
  have hpb := fin_sumAxes (fin_rect_add hp hb)
  have hbsa : SFin (if st.boxSizing == .contentBox then
      ((Resolve.rectLPOrZero st.padding (some (a.gridArea.right - a.gridArea.left))).add
        (Resolve.rectLPOrZero st.border (some (a.gridArea.right - a.gridArea.left)))).sumAxes else Size.zero) :=
    fin_site hpb fin_size_zero
  have hm : ROFin (⟨st.margin.left.resolveToOption (a.gridArea.right - a.gridArea.left),
      st.margin.right.resolveToOption (a.gridArea.right - a.gridArea.left),
      st.margin.top.resolveToOption (a.gridArea.right - a.gridArea.left),
      st.margin.bottom.resolveToOption (a.gridArea.right - a.gridArea.left)⟩ : Rect (Option ER)) :=
    ⟨fin_LPA_resolveToOption hs.margin.1 hgas.1, fin_LPA_resolveToOption hs.margin.2.1 hgas.1,
      fin_LPA_resolveToOption hs.margin.2.2.1 hgas.1, fin_LPA_resolveToOption hs.margin.2.2.2 hgas.1⟩
  exact
    { gridAreaSize := hgas
      insetH := ⟨fin_LPA_resolveToOption hs.inset.1 hgas.1, fin_LPA_resolveToOption hs.inset.2.1 hgas.1⟩
      insetV := ⟨fin_LPA_resolveToOption hs.inset.2.2.1 hgas.2, fin_LPA_resolveToOption hs.inset.2.2.2 hgas.2⟩
      padding := hp, border := hb
      inherentSize := fin_size_of_add (fin_maybeApplyAspectRatio (fin_sizeMaybe hs.size hao) hs.aspectRatio) hbsa
      minSize := fin_maybeApplyAspectRatio (fin_size_of_max (fin_orOpt (fin_size_of_add (fin_sizeMaybe hs.minSize hao) hbsa)
        (fin_map_some hpb)) hpb) hs.aspectRatio
      maxSize := fin_size_of_add (fin_maybeApplyAspectRatio (fin_sizeMaybe hs.maxSize hao) hs.aspectRatio) hbsa
      margin := hm
      areaMinusMargins := ⟨fin_fo_sub (fin_fo_sub hgas.1 hm.l) hm.r,
        fin_sub (fin_fo_sub (fin_fo_sub hgas.2 hm.t) hm.b) ha.baselineShim⟩ }

theorem fin_gridWidth {r : GridResolved ER} {pos : Position} (hr : GridResolvedFin r) : OFin (gridWidth r pos) := by
  unfold gridWidth
  split
  · rename_i w e; exact OFin.of_some hr.inherentSize.1 e
  · split
    · rename_i l rr e1 e2 e3
      exact fin_fmax (fin_sub (fin_sub hr.areaMinusMargins.1 (OFin.of_some hr.insetH.1 e2)) (OFin.of_some hr.insetH.2 e3))
        fin_zero
    · exact fin_oite (a := some r.areaMinusMargins.width) hr.areaMinusMargins.1 trivial

theorem fin_gridHeight {r : GridResolved ER} {pos : Position} {h : Option ER} (hr : GridResolvedFin r) (hh : OFin h) :
    OFin (gridHeight r pos h) := by
  unfold gridHeight
  split
  · exact hh
  · split
    · rename_i t b e1 e2 e3
      exact fin_fmax (fin_sub (fin_sub hr.areaMinusMargins.2 (OFin.of_some hr.insetV.1 e2)) (OFin.of_some hr.insetV.2 e3))
        fin_zero
    · exact fin_oite (a := some r.areaMinusMargins.height) hr.areaMinusMargins.2 trivial

theorem fin_gridKnown {r : GridResolved ER} {pos : Position} {ar : Option ER} (hr : GridResolvedFin r) (har : ARFin ar) :
    SOFin (gridKnown r pos ar) := by
  have h1 := fin_maybeApplyAspectRatio (o := ⟨gridWidth r pos, r.inherentSize.height⟩)
    ⟨fin_gridWidth hr, hr.inherentSize.2⟩ har
  have h2 := fin_maybeApplyAspectRatio
    (o := ⟨(Size.maybeApplyAspectRatio ⟨gridWidth r pos, r.inherentSize.height⟩ ar).width,
      gridHeight r pos (Size.maybeApplyAspectRatio ⟨gridWidth r pos, r.inherentSize.height⟩ ar).height⟩)
    ⟨h1.1, fin_gridHeight hr h1.2⟩ har
  exact fin_size_oo_clamp h2 hr.minSize hr.maxSize

theorem fin_gridChildInput {r : GridResolved ER} {kd : Size (Option ER)} (hr : GridResolvedFin r) (hk : SOFin kd) :
    InFin (gridChildInput r kd) :=
  fin_perform hk ⟨hr.gridAreaSize.1, hr.gridAreaSize.2⟩ ⟨hr.areaMinusMargins.1, hr.areaMinusMargins.2⟩

theorem fin_gridFinalSize {r : GridResolved ER} {kd : Size (Option ER)} {m : Size ER}
    (hr : GridResolvedFin r) (hk : SOFin kd) (hm : SFin m) : SFin (gridFinalSize r kd m) :=
  fin_size_fo_clamp (fin_unwrapOr hk hm) hr.minSize hr.maxSize

/-- `align_item_within_area`: the position along one axis and the resolved margins -/
theorem fin_alignItemWithinArea {ga : Line ER} {al : AlignItems} {rs : ER} {pos : Position} {inset margin : Line (Option ER)}
    {shim : ER} (hga : LFin ga) (hrs : IsFin rs) (hin : LOFin inset) (hm : LOFin margin) (hs : IsFin shim) :
    IsFin (alignItemWithinArea ga al rs pos inset margin shim).1 ∧
    LFin (alignItemWithinArea ga al rs pos inset margin shim).2 := by
  unfold alignItemWithinArea
  extract_lets nam gas free n ams rm abo owa st0 st1
  have hnam : LFin nam := ⟨fin_add (fin_getD hm.1 fin_zero) hs, fin_getD hm.2 fin_zero⟩
  have hgas : IsFin gas := fin_fmax (fin_sub hga.2 hga.1) fin_zero
  have hfree : IsFin free := fin_fmax (fin_sub (fin_sub hgas hrs) (fin_add hnam.1 hnam.2)) fin_zero
  have hams : IsFin ams := fin_ite' (fun hpos => fin_div hfree (fin_ofNat _) (ofNat_ne_zero hpos)) (fun _ => fin_zero)
  have hrm : LFin rm := ⟨fin_add (fin_getD hm.1 hams) hs, fin_getD hm.2 hams⟩
  have habo : IsFin abo := by
    unfold abo
    have h1 := hrm.1
    have h2 := fin_sub (fin_sub hgas hrs) hrm.2
    have h3 := fin_div (fin_sub (fin_add (fin_sub hgas hrs) hrm.1) hrm.2) fin_two two_ne_zero
    split <;> first | exact h1 | exact h2 | exact h3
  clear_value nam gas free ams rm abo
  have howa : IsFin owa := by
    unfold owa
    refine fin_ite ?_ habo
    split
    · rename_i s e; exact fin_add (OFin.of_some hin.1 e) hnam.1
    · split
      · rename_i en e; exact fin_sub (fin_sub (fin_sub hgas (OFin.of_some hin.2 e)) hrs) hnam.2
      · exact habo
  have hst0 : IsFin st0 := fin_add hga.1 howa
  have hst1 : IsFin st1 := fin_ite (fin_add hst0 (fin_getD (fin_or hin.1 (fin_neg_map hin.2)) fin_zero)) hst0
  exact ⟨hst1, hrm⟩

/-- **absGrid**: the `Layout` `align_and_position_item` hands to `set_unrounded_layout` -/
theorem fin_absGrid {a : GridArgs ER} {st : Style ER} {oracle : Oracle ER} (ha : GridArgsFin a) (hs : StyleFin st)
    (ho : ∀ i, InFin i → OutFin (oracle i)) : LayFin (absGrid a st oracle) := by
  have hr := fin_gridResolve ha hs
  have hk := fin_gridKnown (pos := st.position) hr hs.aspectRatio
  have hout := ho _ (fin_gridChildInput hr hk)
  have hf := fin_gridFinalSize hr hk hout.size
  have hx := fin_alignItemWithinArea (ga := ⟨a.gridArea.left, a.gridArea.right⟩) (al := st.justifySelf.getD (gridResolve a st).alignH)
    (pos := st.position) (margin := ⟨(gridResolve a st).margin.left, (gridResolve a st).margin.right⟩)
    ⟨ha.gridArea.l, ha.gridArea.r⟩ hf.1 hr.insetH ⟨hr.margin.l, hr.margin.r⟩ fin_zero
  have hy := fin_alignItemWithinArea (ga := ⟨a.gridArea.top, a.gridArea.bottom⟩) (al := st.alignSelf.getD (gridResolve a st).alignV)
    (pos := st.position) (margin := ⟨(gridResolve a st).margin.top, (gridResolve a st).margin.bottom⟩)
    ⟨ha.gridArea.t, ha.gridArea.b⟩ hf.2 hr.insetV ⟨hr.margin.t, hr.margin.b⟩ ha.baselineShim
  unfold absGrid
  exact ⟨⟨hx.1, hy.1⟩, hf, hout.contentSize, fin_abs_scrollbarSize hs, hr.border, hr.padding,
    ⟨hx.2.1, hx.2.2, hy.2.1, hy.2.2⟩⟩

end C03Fin
