/-
  C04 — the three copies of "lay out an absolutely positioned child" (Model/AbsPos.lean) commute with scaling.
-/
import TaffyVerif.Lemmas.ScaleMath
import TaffyVerif.Model.AbsPos

set_option linter.unusedSectionVars false
set_option linter.unusedVariables false
set_option linter.unusedSimpArgs false

namespace C04
open Scalable AbsPos

/-! ### `Scalable` instances for the argument/intermediate records (generated boilerplate) -/

instance : Scalable (BlockArgs Rat) :=
  ⟨fun k x => ⟨scale k x.areaSize, scale k x.areaOffset, scale k x.staticPosition, x.order⟩⟩

@[scale_simp] theorem ba_areaSize (k : Rat) (x : BlockArgs Rat) : (scale k x).areaSize = scale k x.areaSize := rfl
@[scale_simp] theorem ba_areaOffset (k : Rat) (x : BlockArgs Rat) : (scale k x).areaOffset = scale k x.areaOffset := rfl
@[scale_simp] theorem ba_staticPosition (k : Rat) (x : BlockArgs Rat) : (scale k x).staticPosition = scale k x.staticPosition := rfl
@[scale_simp] theorem ba_order (k : Rat) (x : BlockArgs Rat) : (scale k x).order = x.order := rfl
@[scale_simp] theorem scale_ba_mk (k : Rat) (a0 : Size Rat) (a1 : Point Rat) (a2 : Point Rat) (a3 : Nat) :
    scale k (BlockArgs.mk a0 a1 a2 a3 : BlockArgs Rat) = ⟨scale k a0, scale k a1, scale k a2, a3⟩ := rfl

instance : Scalable (BlockResolved Rat) :=
  ⟨fun k x => ⟨scale k x.margin, scale k x.padding, scale k x.border, scale k x.left, scale k x.right, scale k x.top, scale k x.bottom, scale k x.styleSize, scale k x.minSize, scale k x.maxSize⟩⟩

@[scale_simp] theorem br_margin (k : Rat) (x : BlockResolved Rat) : (scale k x).margin = scale k x.margin := rfl
@[scale_simp] theorem br_padding (k : Rat) (x : BlockResolved Rat) : (scale k x).padding = scale k x.padding := rfl
@[scale_simp] theorem br_border (k : Rat) (x : BlockResolved Rat) : (scale k x).border = scale k x.border := rfl
@[scale_simp] theorem br_left (k : Rat) (x : BlockResolved Rat) : (scale k x).left = scale k x.left := rfl
@[scale_simp] theorem br_right (k : Rat) (x : BlockResolved Rat) : (scale k x).right = scale k x.right := rfl
@[scale_simp] theorem br_top (k : Rat) (x : BlockResolved Rat) : (scale k x).top = scale k x.top := rfl
@[scale_simp] theorem br_bottom (k : Rat) (x : BlockResolved Rat) : (scale k x).bottom = scale k x.bottom := rfl
@[scale_simp] theorem br_styleSize (k : Rat) (x : BlockResolved Rat) : (scale k x).styleSize = scale k x.styleSize := rfl
@[scale_simp] theorem br_minSize (k : Rat) (x : BlockResolved Rat) : (scale k x).minSize = scale k x.minSize := rfl
@[scale_simp] theorem br_maxSize (k : Rat) (x : BlockResolved Rat) : (scale k x).maxSize = scale k x.maxSize := rfl
@[scale_simp] theorem scale_br_mk (k : Rat) (a0 : Rect (Option Rat)) (a1 : Rect Rat) (a2 : Rect Rat) (a3 : Option Rat) (a4 : Option Rat) (a5 : Option Rat) (a6 : Option Rat) (a7 : Size (Option Rat)) (a8 : Size (Option Rat)) (a9 : Size (Option Rat)) :
    scale k (BlockResolved.mk a0 a1 a2 a3 a4 a5 a6 a7 a8 a9 : BlockResolved Rat) = ⟨scale k a0, scale k a1, scale k a2, scale k a3, scale k a4, scale k a5, scale k a6, scale k a7, scale k a8, scale k a9⟩ := rfl

instance : Scalable (FlexArgs Rat) :=
  ⟨fun k x => ⟨scale k x.containerSize, scale k x.border, scale k x.scrollbarGutter, scale k x.contentBoxInset, scale k x.nodeInnerSize, x.dir, x.isWrapReverse, x.justifyContent, x.alignItems, x.order⟩⟩

@[scale_simp] theorem fa_containerSize (k : Rat) (x : FlexArgs Rat) : (scale k x).containerSize = scale k x.containerSize := rfl
@[scale_simp] theorem fa_border (k : Rat) (x : FlexArgs Rat) : (scale k x).border = scale k x.border := rfl
@[scale_simp] theorem fa_scrollbarGutter (k : Rat) (x : FlexArgs Rat) : (scale k x).scrollbarGutter = scale k x.scrollbarGutter := rfl
@[scale_simp] theorem fa_contentBoxInset (k : Rat) (x : FlexArgs Rat) : (scale k x).contentBoxInset = scale k x.contentBoxInset := rfl
@[scale_simp] theorem fa_nodeInnerSize (k : Rat) (x : FlexArgs Rat) : (scale k x).nodeInnerSize = scale k x.nodeInnerSize := rfl
@[scale_simp] theorem fa_dir (k : Rat) (x : FlexArgs Rat) : (scale k x).dir = x.dir := rfl
@[scale_simp] theorem fa_isWrapReverse (k : Rat) (x : FlexArgs Rat) : (scale k x).isWrapReverse = x.isWrapReverse := rfl
@[scale_simp] theorem fa_justifyContent (k : Rat) (x : FlexArgs Rat) : (scale k x).justifyContent = x.justifyContent := rfl
@[scale_simp] theorem fa_alignItems (k : Rat) (x : FlexArgs Rat) : (scale k x).alignItems = x.alignItems := rfl
@[scale_simp] theorem fa_order (k : Rat) (x : FlexArgs Rat) : (scale k x).order = x.order := rfl
@[scale_simp] theorem scale_fa_mk (k : Rat) (a0 : Size Rat) (a1 : Rect Rat) (a2 : Point Rat) (a3 : Rect Rat) (a4 : Size (Option Rat)) (a5 : FlexDirection) (a6 : Bool) (a7 : Option AlignContent) (a8 : AlignItems) (a9 : Nat) :
    scale k (FlexArgs.mk a0 a1 a2 a3 a4 a5 a6 a7 a8 a9 : FlexArgs Rat) = ⟨scale k a0, scale k a1, scale k a2, scale k a3, scale k a4, a5, a6, a7, a8, a9⟩ := rfl

instance : Scalable (FlexResolved Rat) :=
  ⟨fun k x => ⟨x.alignSelf, scale k x.margin, scale k x.padding, scale k x.border, scale k x.left, scale k x.right, scale k x.top, scale k x.bottom, scale k x.styleSize, scale k x.minSize, scale k x.maxSize⟩⟩

@[scale_simp] theorem fr_alignSelf (k : Rat) (x : FlexResolved Rat) : (scale k x).alignSelf = x.alignSelf := rfl
@[scale_simp] theorem fr_margin (k : Rat) (x : FlexResolved Rat) : (scale k x).margin = scale k x.margin := rfl
@[scale_simp] theorem fr_padding (k : Rat) (x : FlexResolved Rat) : (scale k x).padding = scale k x.padding := rfl
@[scale_simp] theorem fr_border (k : Rat) (x : FlexResolved Rat) : (scale k x).border = scale k x.border := rfl
@[scale_simp] theorem fr_left (k : Rat) (x : FlexResolved Rat) : (scale k x).left = scale k x.left := rfl
@[scale_simp] theorem fr_right (k : Rat) (x : FlexResolved Rat) : (scale k x).right = scale k x.right := rfl
@[scale_simp] theorem fr_top (k : Rat) (x : FlexResolved Rat) : (scale k x).top = scale k x.top := rfl
@[scale_simp] theorem fr_bottom (k : Rat) (x : FlexResolved Rat) : (scale k x).bottom = scale k x.bottom := rfl
@[scale_simp] theorem fr_styleSize (k : Rat) (x : FlexResolved Rat) : (scale k x).styleSize = scale k x.styleSize := rfl
@[scale_simp] theorem fr_minSize (k : Rat) (x : FlexResolved Rat) : (scale k x).minSize = scale k x.minSize := rfl
@[scale_simp] theorem fr_maxSize (k : Rat) (x : FlexResolved Rat) : (scale k x).maxSize = scale k x.maxSize := rfl
@[scale_simp] theorem scale_fr_mk (k : Rat) (a0 : AlignItems) (a1 : Rect (Option Rat)) (a2 : Rect Rat) (a3 : Rect Rat) (a4 : Option Rat) (a5 : Option Rat) (a6 : Option Rat) (a7 : Option Rat) (a8 : Size (Option Rat)) (a9 : Size (Option Rat)) (a10 : Size (Option Rat)) :
    scale k (FlexResolved.mk a0 a1 a2 a3 a4 a5 a6 a7 a8 a9 a10 : FlexResolved Rat) = ⟨a0, scale k a1, scale k a2, scale k a3, scale k a4, scale k a5, scale k a6, scale k a7, scale k a8, scale k a9, scale k a10⟩ := rfl

instance : Scalable (GridArgs Rat) :=
  ⟨fun k x => ⟨scale k x.gridArea, x.justifyItems, x.alignItems, scale k x.baselineShim, x.order⟩⟩

@[scale_simp] theorem ga_gridArea (k : Rat) (x : GridArgs Rat) : (scale k x).gridArea = scale k x.gridArea := rfl
@[scale_simp] theorem ga_justifyItems (k : Rat) (x : GridArgs Rat) : (scale k x).justifyItems = x.justifyItems := rfl
@[scale_simp] theorem ga_alignItems (k : Rat) (x : GridArgs Rat) : (scale k x).alignItems = x.alignItems := rfl
@[scale_simp] theorem ga_baselineShim (k : Rat) (x : GridArgs Rat) : (scale k x).baselineShim = scale k x.baselineShim := rfl
@[scale_simp] theorem ga_order (k : Rat) (x : GridArgs Rat) : (scale k x).order = x.order := rfl
@[scale_simp] theorem scale_ga_mk (k : Rat) (a0 : Rect Rat) (a1 : Option AlignItems) (a2 : Option AlignItems) (a3 : Rat) (a4 : Nat) :
    scale k (GridArgs.mk a0 a1 a2 a3 a4 : GridArgs Rat) = ⟨scale k a0, a1, a2, scale k a3, a4⟩ := rfl

instance : Scalable (GridResolved Rat) :=
  ⟨fun k x => ⟨scale k x.gridAreaSize, scale k x.insetH, scale k x.insetV, scale k x.padding, scale k x.border, scale k x.inherentSize, scale k x.minSize, scale k x.maxSize, x.alignH, x.alignV, scale k x.margin, scale k x.areaMinusMargins⟩⟩

@[scale_simp] theorem gr_gridAreaSize (k : Rat) (x : GridResolved Rat) : (scale k x).gridAreaSize = scale k x.gridAreaSize := rfl
@[scale_simp] theorem gr_insetH (k : Rat) (x : GridResolved Rat) : (scale k x).insetH = scale k x.insetH := rfl
@[scale_simp] theorem gr_insetV (k : Rat) (x : GridResolved Rat) : (scale k x).insetV = scale k x.insetV := rfl
@[scale_simp] theorem gr_padding (k : Rat) (x : GridResolved Rat) : (scale k x).padding = scale k x.padding := rfl
@[scale_simp] theorem gr_border (k : Rat) (x : GridResolved Rat) : (scale k x).border = scale k x.border := rfl
@[scale_simp] theorem gr_inherentSize (k : Rat) (x : GridResolved Rat) : (scale k x).inherentSize = scale k x.inherentSize := rfl
@[scale_simp] theorem gr_minSize (k : Rat) (x : GridResolved Rat) : (scale k x).minSize = scale k x.minSize := rfl
@[scale_simp] theorem gr_maxSize (k : Rat) (x : GridResolved Rat) : (scale k x).maxSize = scale k x.maxSize := rfl
@[scale_simp] theorem gr_alignH (k : Rat) (x : GridResolved Rat) : (scale k x).alignH = x.alignH := rfl
@[scale_simp] theorem gr_alignV (k : Rat) (x : GridResolved Rat) : (scale k x).alignV = x.alignV := rfl
@[scale_simp] theorem gr_margin (k : Rat) (x : GridResolved Rat) : (scale k x).margin = scale k x.margin := rfl
@[scale_simp] theorem gr_areaMinusMargins (k : Rat) (x : GridResolved Rat) : (scale k x).areaMinusMargins = scale k x.areaMinusMargins := rfl
@[scale_simp] theorem scale_gr_mk (k : Rat) (a0 : Size Rat) (a1 : Line (Option Rat)) (a2 : Line (Option Rat)) (a3 : Rect Rat) (a4 : Rect Rat) (a5 : Size (Option Rat)) (a6 : Size (Option Rat)) (a7 : Size (Option Rat)) (a8 : AlignItems) (a9 : AlignItems) (a10 : Rect (Option Rat)) (a11 : Size Rat) :
    scale k (GridResolved.mk a0 a1 a2 a3 a4 a5 a6 a7 a8 a9 a10 a11 : GridResolved Rat) = ⟨scale k a0, scale k a1, scale k a2, scale k a3, scale k a4, scale k a5, scale k a6, scale k a7, a8, a9, scale k a10, scale k a11⟩ := rfl


variable {k : Rat}

theorem sizeNone_orOpt' {β : Type} (s : Size (Option β)) : Size.orOpt Size.none s = s := by
  cases s; rfl

/-- the child's answer function, scaled: scaled inputs ↦ scaled outputs -/
def scaleOracle (k : Rat) (orc : Oracle Rat) : Oracle Rat := fun inp => scale k (orc (scale k⁻¹ inp))

theorem scaleOracle_apply (hk : 0 < k) (orc : Oracle Rat) (inp : LayoutInput Rat) :
    scaleOracle k orc (scale k inp) = scale k (orc inp) := by
  simp only [scaleOracle, scale_cancel_inv hk]

@[scale_simp] theorem performInput_scale (k : Rat) (kd ps : Size (Option Rat)) (av : Size (AvailableSpace Rat)) (sm : SizingMode) :
    performInput (scale k kd) (scale k ps) (scale k av) sm = scale k (performInput kd ps av sm) := rfl

@[scale_simp] theorem AbsPos.scrollbarSize_scale (k : Rat) (st : Style Rat) :
    scrollbarSize (scale k st) = scale k (scrollbarSize st) := by
  simp only [scrollbarSize, scale_simp]

@[scale_simp] theorem AbsPos.scrollbarGutter_scale (k : Rat) (st : Style Rat) :
    AbsPos.scrollbarGutter (scale k st) = scale k (AbsPos.scrollbarGutter st) := by
  simp only [AbsPos.scrollbarGutter, scale_simp]

@[scale_simp] theorem autoCount_scale (k : Rat) (a b : Option Rat) : autoCount (scale k a) (scale k b) = autoCount a b := by
  simp only [autoCount, scale_simp]

/-! ### block.rs -/

theorem blockCallSite_scale (hk : 0 < k) (cst : Style Rat) (outer : Size Rat) (order : Nat) :
    blockCallSite (scale k cst) (scale k outer) order = scale k (blockCallSite cst outer order) := by
  simp only [blockCallSite, Size.sub, Rect.add, Rect.sumAxes, Rect.horizontalAxisSum, Rect.verticalAxisSum, scale_simp, hk]

theorem blockResolve_scale (hk : 0 < k) (a : BlockArgs Rat) (st : Style Rat) :
    blockResolve (scale k a) (scale k st) = scale k (blockResolve a st) := by
  simp only [blockResolve, scale_simp, hk]

/-- `Size { width, height }.maybe_apply_aspect_ratio(ar).maybe_clamp(min, max)` on a size literal -/
theorem fill_scale (hk : 0 < k) (w h : Option Rat) (ar : Option Rat) (mn mx : Size (Option Rat)) :
    ((⟨scale k w, scale k h⟩ : Size (Option Rat)).maybeApplyAspectRatio ar).oo_clamp (scale k mn) (scale k mx) =
      scale k (((⟨w, h⟩ : Size (Option Rat)).maybeApplyAspectRatio ar).oo_clamp mn mx) := by
  rw [← scale_size_mk, Size.maybeApplyAspectRatio_scale, Size.oo_clamp_scale hk]
@[scale_simp] theorem fill_scale_left (hk : 0 < k) (w : Rat) (h : Option Rat) (ar : Option Rat) (mn mx : Size (Option Rat)) :
    ((⟨some (scale k w), scale k h⟩ : Size (Option Rat)).maybeApplyAspectRatio ar).oo_clamp (scale k mn) (scale k mx) =
      scale k (((⟨some w, h⟩ : Size (Option Rat)).maybeApplyAspectRatio ar).oo_clamp mn mx) :=
  fill_scale hk (some w) h ar mn mx
@[scale_simp] theorem fill_scale_right (hk : 0 < k) (w : Option Rat) (h : Rat) (ar : Option Rat) (mn mx : Size (Option Rat)) :
    ((⟨scale k w, some (scale k h)⟩ : Size (Option Rat)).maybeApplyAspectRatio ar).oo_clamp (scale k mn) (scale k mx) =
      scale k (((⟨w, some h⟩ : Size (Option Rat)).maybeApplyAspectRatio ar).oo_clamp mn mx) :=
  fill_scale hk w (some h) ar mn mx

theorem blockFillWidth_scale (hk : 0 < k) (a : BlockArgs Rat) (r : BlockResolved Rat) (ar : Option Rat)
    (kd : Size (Option Rat)) :
    blockFillWidth (scale k a) (scale k r) ar (scale k kd) = scale k (blockFillWidth a r ar kd) := by
  obtain ⟨margin, padding, border, left, right, top, bottom, ss, mn, mx⟩ := r
  obtain ⟨w, h⟩ := kd
  cases w <;> cases left <;> cases right <;> simp only [blockFillWidth, scale_simp, hk]

theorem blockFillHeight_scale (hk : 0 < k) (a : BlockArgs Rat) (r : BlockResolved Rat) (ar : Option Rat)
    (kd : Size (Option Rat)) :
    blockFillHeight (scale k a) (scale k r) ar (scale k kd) = scale k (blockFillHeight a r ar kd) := by
  obtain ⟨margin, padding, border, left, right, top, bottom, ss, mn, mx⟩ := r
  obtain ⟨w, h⟩ := kd
  cases h <;> cases top <;> cases bottom <;> simp only [blockFillHeight, scale_simp, hk]

theorem blockKnown_scale (hk : 0 < k) (a : BlockArgs Rat) (r : BlockResolved Rat) (ar : Option Rat) :
    blockKnown (scale k a) (scale k r) ar = scale k (blockKnown a r ar) := by
  simp only [blockKnown, scale_simp, hk, blockFillWidth_scale hk, blockFillHeight_scale hk]

theorem blockChildInput_scale (hk : 0 < k) (a : BlockArgs Rat) (r : BlockResolved Rat) (kd : Size (Option Rat)) :
    blockChildInput (scale k a) (scale k r) (scale k kd) = scale k (blockChildInput a r kd) := by
  simp only [blockChildInput, performInput, scale_li_mk, scale_simp, hk]

theorem blockFinalSize_scale (hk : 0 < k) (r : BlockResolved Rat) (kd : Size (Option Rat)) (measured : Size Rat) :
    blockFinalSize (scale k r) (scale k kd) (scale k measured) = scale k (blockFinalSize r kd measured) := by
  simp only [blockFinalSize, scale_simp, hk]

@[scale_simp] theorem blockAutoMarginSize_scale (hk : 0 < k) (ms me ss : Option Rat) (free : Rat) :
    blockAutoMarginSize (scale k ms) (scale k me) (scale k ss) (scale k free) =
      scale k (blockAutoMarginSize ms me ss free) := by
  cases ss <;> simp only [blockAutoMarginSize, countF, scale_simp, hk]

theorem blockResolvedMargin_scale (hk : 0 < k) (a : BlockArgs Rat) (r : BlockResolved Rat) (finalSize : Size Rat) :
    blockResolvedMargin (scale k a) (scale k r) (scale k finalSize) = scale k (blockResolvedMargin a r finalSize) := by
  obtain ⟨margin, padding, border, left, right, top, bottom, ss, mn, mx⟩ := r
  cases right <;> cases bottom <;>
    simp only [blockResolvedMargin, Rect.horizontalAxisSum, Rect.verticalAxisSum, scale_simp, hk, Option.isSome_some,
      Option.isSome_none]

theorem blockLocation_scale (hk : 0 < k) (a : BlockArgs Rat) (r : BlockResolved Rat) (finalSize : Size Rat)
    (rm : Rect Rat) :
    blockLocation (scale k a) (scale k r) (scale k finalSize) (scale k rm) = scale k (blockLocation a r finalSize rm) := by
  obtain ⟨margin, padding, border, left, right, top, bottom, ss, mn, mx⟩ := r
  cases left <;> cases right <;> cases top <;> cases bottom <;>
    simp only [blockLocation, scale_simp, hk, Option.map_none, Option.map_some, Option.none_or, Option.some_or,
      MaybeMath.of_add, Option.getD_none, Option.getD_some]

/-- **abs-pos, block copy**: the layout assigned to an absolutely positioned child of a block container -/
theorem absBlock_scale (hk : 0 < k) (a : BlockArgs Rat) (st : Style Rat) (orc : Oracle Rat) :
    absBlock (scale k a) (scale k st) (scaleOracle k orc) = scale k (absBlock a st orc) := by
  simp only [absBlock, scale_l_mk, scale_simp, hk, blockResolve_scale hk, blockKnown_scale hk, blockChildInput_scale hk,
    scaleOracle_apply hk, blockFinalSize_scale hk, blockResolvedMargin_scale hk, blockLocation_scale hk]

/-! ### flexbox.rs -/

section dir
variable {β : Type} [Scalable β]
@[scale_simp] theorem Dir.mainStart_scale (k : Rat) (r : Rect β) (d : FlexDirection) :
    Dir.mainStart (scale k r) d = scale k (Dir.mainStart r d) := by simp only [Dir.mainStart, scale_simp]
@[scale_simp] theorem Dir.mainEnd_scale (k : Rat) (r : Rect β) (d : FlexDirection) :
    Dir.mainEnd (scale k r) d = scale k (Dir.mainEnd r d) := by simp only [Dir.mainEnd, scale_simp]
@[scale_simp] theorem Dir.crossStart_scale (k : Rat) (r : Rect β) (d : FlexDirection) :
    Dir.crossStart (scale k r) d = scale k (Dir.crossStart r d) := by simp only [Dir.crossStart, scale_simp]
@[scale_simp] theorem Dir.crossEnd_scale (k : Rat) (r : Rect β) (d : FlexDirection) :
    Dir.crossEnd (scale k r) d = scale k (Dir.crossEnd r d) := by simp only [Dir.crossEnd, scale_simp]
@[scale_simp] theorem Dir.pMain_scale (k : Rat) (p : Point β) (d : FlexDirection) :
    Dir.pMain (scale k p) d = scale k (Dir.pMain p d) := by simp only [Dir.pMain, scale_simp]
@[scale_simp] theorem Dir.pCross_scale (k : Rat) (p : Point β) (d : FlexDirection) :
    Dir.pCross (scale k p) d = scale k (Dir.pCross p d) := by simp only [Dir.pCross, scale_simp]
end dir

theorem flexStyledKnownDimensions_scale (hk : 0 < k) (cst : Style Rat) (ps : Size (Option Rat)) :
    flexStyledKnownDimensions (scale k cst) (scale k ps) = scale k (flexStyledKnownDimensions cst ps) := by
  simp only [flexStyledKnownDimensions, scale_simp, hk]
  rw [zipMap_scale_of]
  · simp only [scale_simp, hk, sizeNone_orOpt']
  · intro a b
    cases a <;> cases b <;> simp only [scale_simp, hk]

theorem flexCallSite_scale (hk : 0 < k) (cst : Style Rat) (ps kd : Size (Option Rat)) (cs : Size Rat) (order : Nat) :
    flexCallSite (scale k cst) (scale k ps) (scale k kd) (scale k cs) order =
      scale k (flexCallSite cst ps kd cs order) := by
  simp only [flexCallSite, scale_simp, hk]
  simp only [← scale_rect_mk]
  simp only [scale_simp, hk]
  generalize (kd.of_sub _).main cst.flexDirection = e
  cases e <;> simp only [scale_simp, hk]
  split <;> simp only [← scale_some, ← scale_size_mk]

@[scale_simp] theorem flexInsetRelativeSize_scale (k : Rat) (a : FlexArgs Rat) :
    flexInsetRelativeSize (scale k a) = scale k (flexInsetRelativeSize a) := by
  simp only [flexInsetRelativeSize, Size.sub, scale_simp]
attribute [scale_simp ↓] flexInsetRelativeSize_scale

theorem flexResolve_scale (hk : 0 < k) (a : FlexArgs Rat) (st : Style Rat) :
    flexResolve (scale k a) (scale k st) = scale k (flexResolve a st) := by
  simp only [flexResolve, scale_simp, hk]

theorem flexFillWidth_scale (hk : 0 < k) (a : FlexArgs Rat) (r : FlexResolved Rat) (ar : Option Rat)
    (kd : Size (Option Rat)) :
    flexFillWidth (scale k a) (scale k r) ar (scale k kd) = scale k (flexFillWidth a r ar kd) := by
  obtain ⟨als, margin, padding, border, left, right, top, bottom, ss, mn, mx⟩ := r
  obtain ⟨w, h⟩ := kd
  cases w <;> cases left <;> cases right <;> simp only [flexFillWidth, scale_simp, hk]

theorem flexFillHeight_scale (hk : 0 < k) (a : FlexArgs Rat) (r : FlexResolved Rat) (ar : Option Rat)
    (kd : Size (Option Rat)) :
    flexFillHeight (scale k a) (scale k r) ar (scale k kd) = scale k (flexFillHeight a r ar kd) := by
  obtain ⟨als, margin, padding, border, left, right, top, bottom, ss, mn, mx⟩ := r
  obtain ⟨w, h⟩ := kd
  cases h <;> cases top <;> cases bottom <;> simp only [flexFillHeight, scale_simp, hk]

theorem flexKnown_scale (hk : 0 < k) (a : FlexArgs Rat) (r : FlexResolved Rat) (ar : Option Rat) :
    flexKnown (scale k a) (scale k r) ar = scale k (flexKnown a r ar) := by
  simp only [flexKnown, scale_simp, hk, flexFillWidth_scale hk, flexFillHeight_scale hk]

theorem flexChildInput_scale (hk : 0 < k) (a : FlexArgs Rat) (r : FlexResolved Rat) (kd : Size (Option Rat)) :
    flexChildInput (scale k a) (scale k r) (scale k kd) = scale k (flexChildInput a r kd) := by
  simp only [flexChildInput, performInput, scale_li_mk, scale_simp, hk]

theorem flexFinalSize_scale (hk : 0 < k) (r : FlexResolved Rat) (kd : Size (Option Rat)) (measured : Size Rat) :
    flexFinalSize (scale k r) (scale k kd) (scale k measured) = scale k (flexFinalSize r kd measured) := by
  simp only [flexFinalSize, scale_simp, hk]

theorem flexResolvedMargin_scale (hk : 0 < k) (a : FlexArgs Rat) (r : FlexResolved Rat) (finalSize : Size Rat) :
    flexResolvedMargin (scale k a) (scale k r) (scale k finalSize) = scale k (flexResolvedMargin a r finalSize) := by
  simp only [flexResolvedMargin, Size.f32Max, Size.zero, Rect.horizontalAxisSum, Rect.verticalAxisSum, countF,
    scale_simp, hk]

theorem flexOffsetMain_scale (hk : 0 < k) (a : FlexArgs Rat) (s e : Option Rat) (finalSize : Size Rat) (rm : Rect Rat) :
    flexOffsetMain (scale k a) (scale k s) (scale k e) (scale k finalSize) (scale k rm) =
      scale k (flexOffsetMain a s e finalSize rm) := by
  cases s <;> cases e <;> simp only [flexOffsetMain, scale_simp, hk]
  split <;> rfl

theorem flexOffsetCross_scale (hk : 0 < k) (a : FlexArgs Rat) (als : AlignItems) (s e : Option Rat)
    (finalSize : Size Rat) (rm : Rect Rat) :
    flexOffsetCross (scale k a) als (scale k s) (scale k e) (scale k finalSize) (scale k rm) =
      scale k (flexOffsetCross a als s e finalSize rm) := by
  cases s <;> cases e <;> simp only [flexOffsetCross, scale_simp, hk]
  split <;> rfl

theorem flexLocation_scale (hk : 0 < k) (a : FlexArgs Rat) (r : FlexResolved Rat) (finalSize : Size Rat)
    (rm : Rect Rat) :
    flexLocation (scale k a) (scale k r) (scale k finalSize) (scale k rm) = scale k (flexLocation a r finalSize rm) := by
  simp only [flexLocation, scale_simp]
  cases a.dir.isRow <;>
    simp only [Bool.false_eq_true, if_false, if_true, flexOffsetMain_scale hk, flexOffsetCross_scale hk, scale_simp]

/-- **abs-pos, flex copy** -/
theorem absFlex_scale (hk : 0 < k) (a : FlexArgs Rat) (st : Style Rat) (orc : Oracle Rat) :
    absFlex (scale k a) (scale k st) (scaleOracle k orc) = scale k (absFlex a st orc) := by
  simp only [absFlex, scale_l_mk, scale_simp, hk, flexResolve_scale hk, flexKnown_scale hk, flexChildInput_scale hk,
    scaleOracle_apply hk, flexFinalSize_scale hk, flexResolvedMargin_scale hk, flexLocation_scale hk]

/-! ### grid: alignment.rs -/

theorem gridCallSite_scale (hk : 0 < k) (cst : Style Rat) (ps : Size (Option Rat)) (bb : Size Rat) (order : Nat) :
    gridCallSite (scale k cst) (scale k ps) (scale k bb) order = scale k (gridCallSite cst ps bb order) := by
  simp only [gridCallSite, scale_ga_mk, scale_simp, hk]

theorem gridResolve_scale (hk : 0 < k) (a : GridArgs Rat) (st : Style Rat) :
    gridResolve (scale k a) (scale k st) = scale k (gridResolve a st) := by
  simp only [gridResolve, scale_simp, hk]

theorem pos_ra : (Position.relative == Position.absolute) = false := rfl
theorem pos_aa : (Position.absolute == Position.absolute) = true := rfl
theorem pos_rr : (Position.relative == Position.relative) = true := rfl
theorem pos_ar : (Position.absolute == Position.relative) = false := rfl
theorem pos_ra' : (Position.relative != Position.absolute) = true := rfl
theorem pos_aa' : (Position.absolute != Position.absolute) = false := rfl

theorem gridWidth_scale (hk : 0 < k) (r : GridResolved Rat) (position : Position) :
    gridWidth (scale k r) position = scale k (gridWidth r position) := by
  obtain ⟨gas, ⟨ihs, ihe⟩, iv, padding, border, ⟨iw, ih⟩, mn, mx, alh, alv, margin, amm⟩ := r
  cases iw <;> cases position <;> cases ihs <;> cases ihe <;>
    simp only [gridWidth, scale_simp, hk, pos_ra, pos_aa, pos_ra', pos_aa'] <;> rfl

theorem gridHeight_scale (hk : 0 < k) (r : GridResolved Rat) (position : Position) (height : Option Rat) :
    gridHeight (scale k r) position (scale k height) = scale k (gridHeight r position height) := by
  obtain ⟨gas, ih, ⟨ivs, ive⟩, padding, border, ins, mn, mx, alh, alv, margin, amm⟩ := r
  cases height <;> cases position <;> cases ivs <;> cases ive <;>
    simp only [gridHeight, scale_simp, hk, pos_ra, pos_aa, pos_ra', pos_aa'] <;> rfl

theorem gridKnown_scale (hk : 0 < k) (r : GridResolved Rat) (position : Position) (ar : Option Rat) :
    gridKnown (scale k r) position ar = scale k (gridKnown r position ar) := by
  simp only [gridKnown, gridWidth_scale hk, scale_simp, hk]
  simp only [← scale_size_mk]
  simp only [scale_simp, hk, gridHeight_scale hk]
  simp only [← scale_size_mk]
  simp only [scale_simp, hk]

theorem gridChildInput_scale (hk : 0 < k) (r : GridResolved Rat) (kd : Size (Option Rat)) :
    gridChildInput (scale k r) (scale k kd) = scale k (gridChildInput r kd) := by
  simp only [gridChildInput, performInput, scale_li_mk, scale_simp, hk]

theorem gridFinalSize_scale (hk : 0 < k) (r : GridResolved Rat) (kd : Size (Option Rat)) (measured : Size Rat) :
    gridFinalSize (scale k r) (scale k kd) (scale k measured) = scale k (gridFinalSize r kd measured) := by
  simp only [gridFinalSize, scale_simp, hk]

theorem alignItemWithinArea_scale (hk : 0 < k) (area : Line Rat) (als : AlignItems) (rs : Rat) (position : Position)
    (inset margin : Line (Option Rat)) (shim : Rat) :
    alignItemWithinArea (scale k area) als (scale k rs) position (scale k inset) (scale k margin) (scale k shim) =
      scale k (alignItemWithinArea area als rs position inset margin shim) := by
  obtain ⟨is, ie⟩ := inset
  cases is <;> cases ie <;> cases position <;> cases als <;>
    simp only [alignItemWithinArea, countF, scale_simp, hk, pos_ra, pos_aa, pos_rr, pos_ar, Bool.false_eq_true,
      if_false, if_true, Option.map_none, Option.map_some, Option.none_or, Option.some_or, Option.getD_none,
      Option.getD_some]

theorem alignItemWithinArea_scale_zero (hk : 0 < k) (area : Line Rat) (als : AlignItems) (rs : Rat) (position : Position)
    (inset margin : Line (Option Rat)) :
    alignItemWithinArea (scale k area) als (scale k rs) position (scale k inset) (scale k margin) 0 =
      scale k (alignItemWithinArea area als rs position inset margin 0) := by
  have := alignItemWithinArea_scale hk area als rs position inset margin 0
  rwa [scale_zero] at this

/-- **abs-pos, grid copy** -/
theorem absGrid_scale (hk : 0 < k) (a : GridArgs Rat) (st : Style Rat) (orc : Oracle Rat) :
    absGrid (scale k a) (scale k st) (scaleOracle k orc) = scale k (absGrid a st orc) := by
  simp only [absGrid, scale_l_mk, scale_simp, hk, gridResolve_scale hk, gridKnown_scale hk, gridChildInput_scale hk,
    scaleOracle_apply hk, gridFinalSize_scale hk]
  simp only [← scale_line_mk]
  simp only [↓alignItemWithinArea_scale hk, ↓alignItemWithinArea_scale_zero hk, scale_simp]

end C04
