/-
  A kernel-evaluable reformulation of the grid program.

  `List.mergeSort` (and `List.merge`) are defined by well-founded recursion; the kernel cannot evaluate them on lists of
  two or more elements, so `decide +kernel` gets stuck on every concrete grid with two grid items.  `msort` is the same
  algorithm (split into two contiguous halves, sort, merge) written with fuel, hence structurally recursive, and
  `mergeSort_eq_msort` shows `l.mergeSort le = msort le l` for EVERY list and EVERY `le`.  `gridAlgK` is `gridAlg` with the
  five sorts of the model replaced by `msort`; `gridAlg_eq_gridAlgK : gridAlg = gridAlgK`.  Concrete examples are evaluated
  on `gridAlgK` and transferred.
-/
import TaffyVerif.Lemmas.EvalGridTrees

set_option linter.unusedSectionVars false
set_option linter.unusedVariables false

namespace EvalGrid
open GridModel GridTracks

/-! ### a structurally recursive merge sort -/
section msort
variable {β : Type}

def mergeF (le : β → β → Bool) : Nat → List β → List β → List β
  | 0, xs, ys => xs ++ ys
  | _ + 1, [], ys => ys
  | _ + 1, x :: xs, [] => x :: xs
  | f + 1, x :: xs, y :: ys =>
    if le x y then x :: mergeF le f xs (y :: ys) else y :: mergeF le f (x :: xs) ys

theorem merge_eq_mergeF (le : β → β → Bool) : ∀ (f : Nat) (xs ys : List β), xs.length + ys.length ≤ f →
    List.merge xs ys le = mergeF le f xs ys := by
  intro f
  induction f with
  | zero =>
    intro xs ys h
    have hx : xs = [] := List.eq_nil_of_length_eq_zero (by omega)
    have hy : ys = [] := List.eq_nil_of_length_eq_zero (by omega)
    subst hx; subst hy
    simp [mergeF]
  | succ f ih =>
    intro xs ys h
    cases xs with
    | nil => simp [mergeF]
    | cons x xs =>
      cases ys with
      | nil => simp [mergeF]
      | cons y ys =>
        simp only [List.length_cons] at h
        rw [List.cons_merge_cons]
        simp only [mergeF]
        rw [ih xs (y :: ys) (by simp only [List.length_cons]; omega),
          ih (x :: xs) ys (by simp only [List.length_cons]; omega)]

def msortF (le : β → β → Bool) : Nat → List β → List β
  | 0, l => l
  | _ + 1, [] => []
  | _ + 1, [a] => [a]
  | f + 1, a :: b :: xs =>
    let l := a :: b :: xs
    let n := l.length
    mergeF le n (msortF le f (l.take ((n + 1) / 2))) (msortF le f (l.drop ((n + 1) / 2)))

/-- merge sort with fuel `l.length` -/
def msort (le : β → β → Bool) (l : List β) : List β := msortF le l.length l

open List.MergeSort.Internal in
theorem mergeSort_eq_msortF (le : β → β → Bool) : ∀ (f : Nat) (l : List β), l.length ≤ f →
    l.mergeSort le = msortF le f l := by
  intro f
  induction f with
  | zero =>
    intro l h
    have hl : l = [] := List.eq_nil_of_length_eq_zero (by omega)
    subst hl
    simp [msortF]
  | succ f ih =>
    intro l h
    match l, h with
    | [], _ => simp [msortF]
    | [a], _ => simp [msortF]
    | a :: b :: xs, h =>
      rw [List.mergeSort]
      simp only [splitInTwo_fst, splitInTwo_snd, msortF]
      simp only [List.length_cons] at h
      have h1 : ((a :: b :: xs).take (((a :: b :: xs).length + 1) / 2)).length ≤ f := by
        simp only [List.length_take, List.length_cons]; omega
      have h2 : ((a :: b :: xs).drop (((a :: b :: xs).length + 1) / 2)).length ≤ f := by
        simp only [List.length_drop, List.length_cons]; omega
      rw [ih _ h1, ih _ h2]
      refine merge_eq_mergeF le _ _ _ ?_
      have e1 := (List.mergeSort_perm ((a :: b :: xs).take (((a :: b :: xs).length + 1) / 2)) le).length_eq
      have e2 := (List.mergeSort_perm ((a :: b :: xs).drop (((a :: b :: xs).length + 1) / 2)) le).length_eq
      rw [← ih _ h1, ← ih _ h2, e1, e2]
      simp only [List.length_take, List.length_drop, List.length_cons]
      omega

theorem mergeSort_eq_msort (le : β → β → Bool) (l : List β) : l.mergeSort le = msort le l :=
  mergeSort_eq_msortF le l.length l (Nat.le_refl _)

end msort

/-! ### the grid program with `msort` -/
section prog
variable {α : Type} [Num α]

def resolveItemBaselinesK (axis : Ax) (items : List (GItem α)) (innerNodeSize : Size (Option α)) :
    GM α (List (GItem α)) :=
  let otherAxis := axis.other
  let items := msort (fun a b => decide ((a.placement otherAxis).start ≤ (b.placement otherAxis).start)) items
  baselineRows axis innerNodeSize (items.length + 1) items

theorem resolveItemBaselines_eq (axis : Ax) (items : List (GItem α)) (inner : Size (Option α)) :
    resolveItemBaselines axis items inner = resolveItemBaselinesK axis items inner := by
  unfold resolveItemBaselines
  simp only [mergeSort_eq_msort]
  rfl

def resolveIntrinsicTrackSizesMK (s : Sizer α) (tracks : List (GridTrack α)) (items : List (GItem α))
    (avail : AvailableSpace α) : GM α (List (GItem α) × List (GridTrack α)) := do
  let axis := s.axis
  let items := msort (itemLe axis) items
  let axisInner := sget s.innerNodeSize axis
  let flexFactorSum : α := sumF (tracks.map (·.flexFactor))
  let (items, tracks) ← batchLoopM s avail axisInner flexFactorSum (items.length + 1) items 0 tracks
  let tracks := tracks.map fun t => match t.growthLimit with
    | .inf => { t with growthLimit := .fin t.baseSize }
    | _ => t
  pure (items, tracks)

theorem resolveIntrinsicTrackSizesM_eq (s : Sizer α) (tracks : List (GridTrack α)) (items : List (GItem α))
    (avail : AvailableSpace α) :
    resolveIntrinsicTrackSizesM s tracks items avail = resolveIntrinsicTrackSizesMK s tracks items avail := by
  unfold resolveIntrinsicTrackSizesM
  simp only [mergeSort_eq_msort]
  rfl

def trackSizingAlgorithmMK (a : RunArgs α) (st : RunState α) : GM α (RunState α) := do
  let axis := a.axis
  let axisInner := sget a.innerNodeSize axis
  let axisTracks := initializeTrackSizes st.axisTracks axisInner
  let items ← (if a.hasBaselineAlignedItem then resolveItemBaselinesK axis st.items a.innerNodeSize
    else pure st.items : GM α (List (GItem α)))
  if axisTracks.all (fun t => t.growthLimit.eqF t.baseSize) then
    pure { axisTracks, otherAxisTracks := st.otherAxisTracks, items }
  else do
  let gutterAlignmentAdjustment := computeAlignmentGutterAdjustment a.otherAxisAlignment
    (sget a.innerNodeSize axis.other) a.est st.otherAxisTracks
  let otherAxisTracks := setGutterAdjustment gutterAlignmentAdjustment st.otherAxisTracks
  let avail := sget a.availableGridSpace axis
  let sizer : Sizer α := { otherAxisTracks, est := a.est, axis, innerNodeSize := a.innerNodeSize }
  let (items, axisTracks) ← resolveIntrinsicTrackSizesMK sizer axisTracks items avail
  let axisTracks := maximiseTracks axisTracks axisInner avail
  let availForExpansion : AvailableSpace α := match axisInner with
    | some s => .definite s
    | none => match avail with
      | .minContent => .minContent
      | _ => .maxContent
  let (items, axisTracks) ←
    expandFlexibleTracksM axis axisTracks items a.axisMinSize a.axisMaxSize availForExpansion a.innerNodeSize
  let axisTracks :=
    if a.axisAlignment == .stretch then stretchAutoTracks axisTracks a.axisMinSize availForExpansion else axisTracks
  pure { axisTracks, otherAxisTracks, items }

theorem trackSizingAlgorithmM_eq (a : RunArgs α) (st : RunState α) :
    trackSizingAlgorithmM a st = trackSizingAlgorithmMK a st := by
  unfold trackSizingAlgorithmM
  simp only [resolveItemBaselines_eq, resolveIntrinsicTrackSizesM_eq]
  rfl

def gridContainerBaselineK (items : List (GItem α)) : α :=
  let items := msort (fun a b => decide (a.rowIndexes.start ≤ b.rowIndexes.start)) items
  match items with
  | [] => 0
  | first :: _ =>
    let firstRow := first.rowIndexes.start
    let firstRowItems := items.takeWhile fun it => it.rowIndexes.start == firstRow
    let item := (firstRowItems.find? fun it => it.alignSelf == .baseline).getD first
    item.yPosition + item.baseline.getD item.height

theorem gridContainerBaseline_eq (items : List (GItem α)) : gridContainerBaseline items = gridContainerBaselineK items := by
  unfold gridContainerBaseline
  simp only [mergeSort_eq_msort]
  rfl

variable [NumCast α]

def gridTailK (c : Ctx α) (childStyles : List (GridChildStyle α)) (containerBorderBox containerContentBox : Size α)
    (finalColCounts finalRowCounts : GridPlacement.TrackCounts) (columns rows : List (GridTrack α))
    (items : List (GItem α)) : GM α (LayoutOutput α) := do
  let columns := alignTracks containerContentBox.width c.padding.left c.border.left columns c.justifyContent
  let rows := alignTracks containerContentBox.height c.padding.top c.border.top rows c.alignContent
  let items := msort (fun a b => decide (a.sourceOrder ≤ b.sourceOrder)) items
  let (items, itemContentSize) ← positionItems childStyles rows columns c.justifyItems c.alignItems items 0 Size.zero
  let itemContentSize ← hiddenAbsLoop c containerBorderBox rows columns finalColCounts finalRowCounts childStyles 0
    items.length itemContentSize
  if items.isEmpty then pure (LayoutOutput.fromOuterSize containerBorderBox) else
  pure (LayoutOutput.fromSizesAndBaselines containerBorderBox itemContentSize ⟨none, some (gridContainerBaselineK items)⟩)

theorem gridTail_eq (c : Ctx α) (childStyles : List (GridChildStyle α)) (bb cb : Size α)
    (cc rc : GridPlacement.TrackCounts) (columns rows : List (GridTrack α)) (items : List (GItem α)) :
    gridTail c childStyles bb cb cc rc columns rows items = gridTailK c childStyles bb cb cc rc columns rows items := by
  unfold gridTail
  simp only [mergeSort_eq_msort, gridContainerBaseline_eq]
  rfl

def step7MidK (availableSpace : Size (AvailableSpace α)) (colArgs rowArgs : RunArgs α) (innerNodeSize : Size (Option α))
    (columns rows : List (GridTrack α)) (rerunColumnSizing : Bool) (items : List (GItem α)) :
    GM α (List (GridTrack α) × List (GridTrack α) × List (GItem α)) :=
  if rerunColumnSizing then do
    let st ← trackSizingAlgorithmMK { colArgs with innerNodeSize, est := .baseSize }
      { axisTracks := columns, otherAxisTracks := rows, items }
    let columns := st.axisTracks
    let rows := st.otherAxisTracks
    let items := st.items
    let hasPercentageRow := rows.any (·.usesPercentage)
    let parentHeightIndefinite := !availableSpace.height.isDefinite
    let rerunRowSizing0 := parentHeightIndefinite && hasPercentageRow
    let (rerunRowSizing, items) ← step7Prep .blk rerunRowSizing0 columns innerNodeSize items
    if rerunRowSizing then do
      let st ← trackSizingAlgorithmMK { rowArgs with innerNodeSize }
        { axisTracks := rows, otherAxisTracks := columns, items }
      pure (st.otherAxisTracks, st.axisTracks, st.items)
    else pure (columns, rows, items)
  else pure (columns, rows, items)

theorem step7Mid_eq (availableSpace : Size (AvailableSpace α)) (colArgs rowArgs : RunArgs α)
    (inner : Size (Option α)) (columns rows : List (GridTrack α)) (rerun : Bool) (items : List (GItem α)) :
    step7Mid availableSpace colArgs rowArgs inner columns rows rerun items =
      step7MidK availableSpace colArgs rowArgs inner columns rows rerun items := by
  unfold step7Mid
  simp only [trackSizingAlgorithmM_eq]
  rfl

def gridStep7K (c : Ctx α) (childStyles : List (GridChildStyle α)) (availableSpace : Size (AvailableSpace α))
    (colArgs rowArgs : RunArgs α) (innerNodeSize : Size (Option α)) (containerBorderBox containerContentBox : Size α)
    (finalColCounts finalRowCounts : GridPlacement.TrackCounts) (columns rows : List (GridTrack α))
    (items : List (GItem α)) : GM α (LayoutOutput α) := do
  let columns :=
    if !c.availableGridSpace.width.isDefinite then reresolvePercentTracks containerContentBox.width columns else columns
  let rows :=
    if !c.availableGridSpace.height.isDefinite then reresolvePercentTracks containerContentBox.height rows else rows
  let hasPercentageColumn := columns.any (·.usesPercentage)
  let parentWidthIndefinite := !availableSpace.width.isDefinite
  let rerunColumnSizing0 := parentWidthIndefinite && hasPercentageColumn
  let (rerunColumnSizing, items) ← step7Prep .inl rerunColumnSizing0 rows innerNodeSize items
  let (columns, rows, items) ← step7MidK availableSpace colArgs rowArgs innerNodeSize columns rows rerunColumnSizing items
  gridTailK c childStyles containerBorderBox containerContentBox finalColCounts finalRowCounts columns rows items

theorem gridStep7_eq (c : Ctx α) (childStyles : List (GridChildStyle α)) (availableSpace : Size (AvailableSpace α))
    (colArgs rowArgs : RunArgs α) (inner : Size (Option α)) (bb cb : Size α) (cc rc : GridPlacement.TrackCounts)
    (columns rows : List (GridTrack α)) (items : List (GItem α)) :
    gridStep7 c childStyles availableSpace colArgs rowArgs inner bb cb cc rc columns rows items =
      gridStep7K c childStyles availableSpace colArgs rowArgs inner bb cb cc rc columns rows items := by
  unfold gridStep7
  simp only [step7Mid_eq, gridTail_eq]
  rfl

def gridMainK (style : GridStyle α) (childStyles : List (GridChildStyle α)) (inputs : LayoutInput α) (su : Setup α) :
    GM α (LayoutOutput α) := do
  let c := mkCtx style.base inputs
  let hasBaselineAlignedItem := su.items.any fun it => it.alignSelf == .baseline
  let innerNodeSize := c.innerNodeSize
  let colArgs : RunArgs α := colArgsOf c hasBaselineAlignedItem
  let st ← trackSizingAlgorithmMK colArgs { axisTracks := su.columns, otherAxisTracks := su.rows, items := su.items }
  let columns := st.axisTracks
  let rows := st.otherAxisTracks
  let items := st.items
  let initialColumnSum : α := sumF (columns.map (·.baseSize))
  let innerNodeSize : Size (Option α) := { innerNodeSize with width := innerNodeSize.width.or (some initialColumnSum) }
  let items := items.map fun it => { it with availableSpaceCache := none }
  let rowArgs : RunArgs α := rowArgsOf c innerNodeSize
  let st ← trackSizingAlgorithmMK rowArgs { axisTracks := rows, otherAxisTracks := columns, items }
  let rows := st.axisTracks
  let columns := st.otherAxisTracks
  let items := st.items
  let initialRowSum : α := sumF (rows.map (·.baseSize))
  let innerNodeSize : Size (Option α) := { innerNodeSize with height := innerNodeSize.height.or (some initialRowSum) }
  let resolvedStyleSize := inputs.knownDimensions.orOpt c.preferredSize
  let containerBorderBox : Size α :=
    ⟨Num.fmax (MaybeMath.fo_clamp (resolvedStyleSize.width.getD (initialColumnSum + c.contentBoxInset.horizontalAxisSum))
        c.minSize.width c.maxSize.width) c.paddingBorderSize.width,
     Num.fmax (MaybeMath.fo_clamp (resolvedStyleSize.height.getD (initialRowSum + c.contentBoxInset.verticalAxisSum))
        c.minSize.height c.maxSize.height) c.paddingBorderSize.height⟩
  let containerContentBox : Size α :=
    ⟨Num.fmax 0 (containerBorderBox.width - c.contentBoxInset.horizontalAxisSum),
     Num.fmax 0 (containerBorderBox.height - c.contentBoxInset.verticalAxisSum)⟩
  if inputs.runMode == .computeSize then pure (LayoutOutput.fromOuterSize containerBorderBox) else
  gridStep7K c childStyles inputs.availableSpace colArgs rowArgs innerNodeSize containerBorderBox containerContentBox
    su.finalColCounts su.finalRowCounts columns rows items

theorem gridMain_eq (style : GridStyle α) (childStyles : List (GridChildStyle α)) (inputs : LayoutInput α)
    (su : Setup α) : gridMain style childStyles inputs su = gridMainK style childStyles inputs su := by
  unfold gridMain
  simp only [trackSizingAlgorithmM_eq, gridStep7_eq]
  rfl

/-- `compute_grid_layout` in stages -/
def computeGridLayoutES (style : GridStyle α) (childStyles : List (GridChildStyle α)) (inputs : LayoutInput α) :
    GM α (LayoutOutput α) :=
  let c := mkCtx style.base inputs
  match inputs.runMode, c.outerNodeSize.width, c.outerNodeSize.height with
  | .computeSize, some width, some height => pure (LayoutOutput.fromOuterSize ⟨width, height⟩)
  | _, _, _ => gridSetupK style childStyles inputs (gridMain style childStyles inputs)

theorem computeGridLayoutE_eq_stages (style : GridStyle α) (childStyles : List (GridChildStyle α))
    (inputs : LayoutInput α) : computeGridLayoutE style childStyles inputs = computeGridLayoutES style childStyles inputs :=
  rfl

/-- `compute_grid_layout` with `msort` for the sorts -/
def computeGridLayoutEK (style : GridStyle α) (childStyles : List (GridChildStyle α)) (inputs : LayoutInput α) :
    GM α (LayoutOutput α) :=
  let c := mkCtx style.base inputs
  match inputs.runMode, c.outerNodeSize.width, c.outerNodeSize.height with
  | .computeSize, some width, some height => pure (LayoutOutput.fromOuterSize ⟨width, height⟩)
  | _, _, _ => gridSetupK style childStyles inputs (gridMainK style childStyles inputs)

theorem computeGridLayoutE_eq (style : GridStyle α) (childStyles : List (GridChildStyle α)) (inputs : LayoutInput α) :
    computeGridLayoutE style childStyles inputs = computeGridLayoutEK style childStyles inputs := by
  have hm : gridMain style childStyles inputs = gridMainK style childStyles inputs :=
    funext fun su => gridMain_eq style childStyles inputs su
  rw [computeGridLayoutE_eq_stages]
  unfold computeGridLayoutES computeGridLayoutEK
  rw [hm]

def computeGridLayoutK (style : GridStyle α) (childStyles : List (GridChildStyle α)) (inputs : LayoutInput α) :
    ProgM α (LayoutOutput α) := do
  match ← (computeGridLayoutEK style childStyles inputs).run with
  | .ok out => pure out
  | .error _ => pure LayoutOutput.hidden

/-- the kernel-evaluable grid algorithm -/
def gridAlgK (s : Style α) (cs : List (Style α)) (inp : LayoutInput α) : ProgM α (LayoutOutput α) :=
  computeGridLayoutK (GridStyle.ofStyle s) (cs.map GridChildStyle.ofStyle) inp

theorem gridAlg_eq_gridAlgK : (GridModel.gridAlg : Style α → List (Style α) → LayoutInput α → _) = gridAlgK := by
  funext s cs inp
  unfold GridModel.gridAlg gridAlgK computeGridLayout computeGridLayoutK
  rw [computeGridLayoutE_eq]
  rfl

end prog

end EvalGrid
