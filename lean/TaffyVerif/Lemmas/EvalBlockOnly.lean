/-
  Trees on which the evaluator never runs the flexbox or grid algorithm: there the evaluator does not depend on the
  `flex`/`grid` components of `Eval.Algs` at all (`eval_algs_congr`).
-/
import TaffyVerif.Lemmas.EvalUnfold

set_option linter.unusedSectionVars false

namespace EvalBlock
open Eval Gen.Facts
variable {α : Type} [Num α] {C : Type}

mutual
/-- under dispatch `sel`, no node outside `display:none`-dispatched subtrees is dispatched to flexbox or grid -/
def NoFG (sel : Display → Bool → Option Callee) : STree α → Prop
  | .node s _ kids =>
    sel s.display (!kids.isEmpty) = some .hidden ∨
    (sel s.display (!kids.isEmpty) ≠ some .flex ∧ sel s.display (!kids.isEmpty) ≠ some .grid ∧ NoFGList sel kids)
def NoFGList (sel : Display → Bool → Option Callee) : List (STree α) → Prop
  | [] => True
  | t :: ts => NoFG sel t ∧ NoFGList sel ts
end

mutual
/-- **BlockOnly**: every node that is not inside a `display:none` subtree is `display:none`, or childless (a leaf,
whatever its `display`), or a `display:block` container.  I.e. the tree has no flexbox/grid container with children
outside hidden subtrees. -/
def BlockOnly : STree α → Prop
  | .node s _ kids => s.display = .none ∨ ((kids = [] ∨ s.display = .block) ∧ BlockOnlyList kids)
def BlockOnlyList : List (STree α) → Prop
  | [] => True
  | t :: ts => BlockOnly t ∧ BlockOnlyList ts
end

theorem NoFGList_get (sel : Display → Bool → Option Callee) : ∀ (kids : List (STree α)) (i : Nat) (t : STree α),
    NoFGList sel kids → kids[i]? = some t → NoFG sel t
  | [], _, _, _, h => by simp at h
  | a :: as, 0, t, hn, h => by
    simp only [List.getElem?_cons_zero, Option.some.injEq] at h
    subst h
    exact hn.1
  | a :: as, i + 1, t, hn, h => by
    simp only [List.getElem?_cons_succ] at h
    exact NoFGList_get sel as i t hn.2 h

theorem evalChildOf_congr' (ev1 ev2 : STree α → NS α C → LayoutInput α → LayoutOutput α × NS α C) (kids : List (STree α))
    (h : ∀ (i : Nat) (t : STree α), kids[i]? = some t → ∀ k cin, ev1 t k cin = ev2 t k cin) :
    evalChildOf ev1 kids = evalChildOf ev2 kids := by
  funext i cin ks
  simp only [evalChildOf]
  cases hk : kids[i]? with
  | none => rfl
  | some t =>
    cases hk2 : ks[i]? with
    | none => rfl
    | some k => simp only [h i t hk k cin]

/-- **eval_algs_congr**: on a tree that is never dispatched to flexbox/grid, two choices of algorithms with the same
leaf and block algorithms give the same evaluator (same outputs, same states) -/
theorem eval_algs_congr (ci : CacheImpl α C) (sel : Display → Bool → Option Callee) (a1 a2 : Algs α)
    (hl : a1.leaf = a2.leaf) (hb : a1.block = a2.block) :
    ∀ (fuel : Nat) (t : STree α) (ns : NS α C) (inp : LayoutInput α), NoFG sel t →
      evalNodeWith ci sel a1 fuel t ns inp = evalNodeWith ci sel a2 fuel t ns inp := by
  intro fuel
  induction fuel with
  | zero => intro t ns inp _; rw [eval_zero, eval_zero]
  | succ fuel ih =>
    intro t ns inp hn
    cases t with
    | node s ctx kids =>
      rw [eval_succ, eval_succ]
      have hc : computeOf ci sel a1 (evalNodeWith ci sel a1 fuel) s ctx kids ns inp =
          computeOf ci sel a2 (evalNodeWith ci sel a2 fuel) s ctx kids ns inp := by
        unfold computeOf
        simp only [NoFG] at hn
        cases hsel : sel s.display (!kids.isEmpty) with
        | none => rfl
        | some c =>
          cases c with
          | hidden => rfl
          | leaf => simp only [hl]
          | block =>
            rcases hn with hn | ⟨_, _, hk⟩
            · rw [hsel] at hn; cases hn
            · have he := evalChildOf_congr' (evalNodeWith ci sel a1 fuel) (evalNodeWith ci sel a2 fuel) kids
                (fun i t ht k cin => ih t k cin (NoFGList_get sel kids i t hk ht))
              simp only [hb, he]
          | flex =>
            rcases hn with hn | ⟨hn, _, _⟩
            · rw [hsel] at hn; cases hn
            · exact absurd hsel hn
          | grid =>
            rcases hn with hn | ⟨_, hn, _⟩
            · rw [hsel] at hn; cases hn
            · exact absurd hsel hn
      rw [hc]

mutual
/-- with `TaffyTree`'s own (documented = extracted) dispatch, `BlockOnly` trees are never dispatched to flexbox/grid -/
theorem BlockOnly_NoFG (sel : Display → Bool → Option Callee)
    (hsel : ∀ d b, sel d b = some (match d with
      | .none => Callee.hidden
      | .block => if b then Callee.block else Callee.leaf
      | .flex => if b then Callee.flex else Callee.leaf
      | .grid => if b then Callee.grid else Callee.leaf)) :
    ∀ t : STree α, BlockOnly t → NoFG sel t
  | .node s ctx kids, h => by
    simp only [BlockOnly] at h
    simp only [NoFG]
    rcases h with h | ⟨h, hk⟩
    · left; rw [hsel, h]
    · right
      refine ⟨?_, ?_, BlockOnlyList_NoFG sel hsel kids hk⟩
      · rw [hsel]
        rcases h with h | h
        · subst h; cases s.display <;> simp
        · rw [h]; cases kids <;> simp
      · rw [hsel]
        rcases h with h | h
        · subst h; cases s.display <;> simp
        · rw [h]; cases kids <;> simp
theorem BlockOnlyList_NoFG (sel : Display → Bool → Option Callee)
    (hsel : ∀ d b, sel d b = some (match d with
      | .none => Callee.hidden
      | .block => if b then Callee.block else Callee.leaf
      | .flex => if b then Callee.flex else Callee.leaf
      | .grid => if b then Callee.grid else Callee.leaf)) :
    ∀ ts : List (STree α), BlockOnlyList ts → NoFGList sel ts
  | [], _ => trivial
  | t :: ts, h => ⟨BlockOnly_NoFG sel hsel t h.1, BlockOnlyList_NoFG sel hsel ts h.2⟩
end

/-! ### `BlockOnly` is kept by subtree replacement -/

theorem BlockOnlyList_get : ∀ (kids : List (STree α)) (i : Nat) (t : STree α),
    BlockOnlyList kids → kids[i]? = some t → BlockOnly t
  | [], _, _, _, h => by simp at h
  | a :: as, 0, t, hn, h => by
    simp only [List.getElem?_cons_zero, Option.some.injEq] at h
    subst h
    exact hn.1
  | a :: as, i + 1, t, hn, h => by
    simp only [List.getElem?_cons_succ] at h
    exact BlockOnlyList_get as i t hn.2 h

theorem BlockOnlyList_set : ∀ (kids : List (STree α)) (i : Nat) (x : STree α),
    BlockOnlyList kids → BlockOnly x → BlockOnlyList (kids.set i x)
  | [], _, _, _, _ => by simp only [List.set_nil, BlockOnlyList]
  | a :: as, 0, x, hn, hx => by
    simp only [List.set_cons_zero, BlockOnlyList]
    exact ⟨hx, hn.2⟩
  | a :: as, i + 1, x, hn, hx => by
    simp only [List.set_cons_succ, BlockOnlyList]
    exact ⟨hn.1, BlockOnlyList_set as i x hn.2 hx⟩

theorem BlockOnly_replaceAt : ∀ (p : List Nat) (t r : STree α), BlockOnly t → BlockOnly r → BlockOnly (replaceAt t p r)
  | [], _, r, _, hr => by simpa only [replaceAt] using hr
  | i :: p, .node s c kids, r, ht, hr => by
    simp only [replaceAt]
    cases hk : kids[i]? with
    | none => exact ht
    | some k =>
      simp only [BlockOnly] at ht ⊢
      rcases ht with hd | ⟨h1, h2⟩
      · exact Or.inl hd
      · refine Or.inr ⟨?_, BlockOnlyList_set kids i _ h2 (BlockOnly_replaceAt p k r (BlockOnlyList_get kids i k h2 hk) hr)⟩
        rcases h1 with h1 | h1
        · subst h1; simp at hk
        · exact Or.inr h1

end EvalBlock
