/-
  Finite sums over lists of rationals (recursive `lsum`) and their relation to the folds the model uses.
-/
import TaffyVerif.Model.FlexLine
import Mathlib.Tactic.Linarith
import Mathlib.Tactic.Ring

namespace FlexLine

def lsum : List Rat → Rat
  | [] => 0
  | a :: l => a + lsum l

variable {β : Type}

@[simp] theorem lsum_nil : lsum [] = 0 := rfl
@[simp] theorem lsum_cons (a : Rat) (l : List Rat) : lsum (a :: l) = a + lsum l := rfl

theorem lsum_map_add (f g : β → Rat) (l : List β) :
    lsum (l.map fun x => f x + g x) = lsum (l.map f) + lsum (l.map g) := by
  induction l with
  | nil => simp
  | cons a t ih => simp only [List.map_cons, lsum_cons, ih]; ring

theorem lsum_map_sub (f g : β → Rat) (l : List β) :
    lsum (l.map fun x => f x - g x) = lsum (l.map f) - lsum (l.map g) := by
  induction l with
  | nil => simp
  | cons a t ih => simp only [List.map_cons, lsum_cons, ih]; ring

theorem lsum_map_mul_left (k : Rat) (f : β → Rat) (l : List β) :
    lsum (l.map fun x => k * f x) = k * lsum (l.map f) := by
  induction l with
  | nil => simp
  | cons a t ih => simp only [List.map_cons, lsum_cons, ih]; ring

theorem lsum_map_le (f g : β → Rat) (l : List β) (h : ∀ x ∈ l, f x ≤ g x) :
    lsum (l.map f) ≤ lsum (l.map g) := by
  induction l with
  | nil => simp
  | cons a t ih =>
    simp only [List.map_cons, lsum_cons]
    have := ih (fun x hx => h x (List.mem_cons_of_mem _ hx))
    have := h a List.mem_cons_self
    linarith

theorem lsum_map_congr (f g : β → Rat) (l : List β) (h : ∀ x ∈ l, f x = g x) :
    lsum (l.map f) = lsum (l.map g) := by
  induction l with
  | nil => simp
  | cons a t ih =>
    simp only [List.map_cons, lsum_cons]
    rw [ih (fun x hx => h x (List.mem_cons_of_mem _ hx)), h a List.mem_cons_self]

theorem lsum_map_nonneg (f : β → Rat) (l : List β) (h : ∀ x ∈ l, 0 ≤ f x) : 0 ≤ lsum (l.map f) := by
  have := lsum_map_le (fun _ => (0 : Rat)) f l h
  have h0 : lsum (l.map fun _ => (0 : Rat)) = 0 := by
    induction l with
    | nil => simp
    | cons a t ih => simp only [List.map_cons, lsum_cons]; rw [ih (fun x hx => h x (List.mem_cons_of_mem _ hx))
        (by exact lsum_map_le _ _ _ (fun x hx => h x (List.mem_cons_of_mem _ hx)))]; ring
  linarith

theorem lsum_map_eq_zero (f : β → Rat) (l : List β) (h : ∀ x ∈ l, 0 ≤ f x) (hs : lsum (l.map f) = 0) :
    ∀ x ∈ l, f x = 0 := by
  induction l with
  | nil => intro x hx; simp at hx
  | cons a t ih =>
    simp only [List.map_cons, lsum_cons] at hs
    have ha := h a List.mem_cons_self
    have ht := lsum_map_nonneg f t (fun x hx => h x (List.mem_cons_of_mem _ hx))
    intro x hx
    rw [List.mem_cons] at hx
    rcases hx with rfl | hx
    · linarith
    · exact ih (fun x hx => h x (List.mem_cons_of_mem _ hx)) (by linarith) x hx

/-- a sum of terms that are each `0` or `≥ 1` (and `≥ 0`) is `0` or `≥ 1` -/
theorem lsum_map_zero_or_ge_one (f : β → Rat) (l : List β) (h : ∀ x ∈ l, f x = 0 ∨ 1 ≤ f x) :
    (∀ x ∈ l, f x = 0) ∨ 1 ≤ lsum (l.map f) := by
  induction l with
  | nil => left; intro x hx; simp at hx
  | cons a t ih =>
    have hnn : 0 ≤ lsum (t.map f) := lsum_map_nonneg f t (fun x hx => by
      rcases h x (List.mem_cons_of_mem _ hx) with h0 | h1 <;> linarith)
    rcases h a List.mem_cons_self with ha | ha
    · rcases ih (fun x hx => h x (List.mem_cons_of_mem _ hx)) with h0 | h1
      · left
        intro x hx
        rw [List.mem_cons] at hx
        rcases hx with rfl | hx
        · exact ha
        · exact h0 x hx
      · right; simp only [List.map_cons, lsum_cons]; linarith
    · right; simp only [List.map_cons, lsum_cons]; linarith

theorem foldl_add_eq (f : β → Rat) (l : List β) (init : Rat) :
    l.foldl (fun a c => a + f c) init = init + lsum (l.map f) := by
  induction l generalizing init with
  | nil => simp
  | cons a t ih => simp only [List.foldl_cons, List.map_cons, lsum_cons, ih]; ring

theorem sumF_eq (l : List Rat) : sumF l = lsum l := by
  unfold sumF
  have := foldl_add_eq (fun x : Rat => x) l (-(0 : Rat))
  simp only [List.map_id'] at this
  rw [show (fun (x1 x2 : Rat) => x1 + x2) = (fun a c => a + (fun x : Rat => x) c) from rfl, this]
  simp

theorem lsum_filter_map (p : β → Bool) (f : β → Rat) (l : List β) :
    lsum ((l.filter p).map f) = lsum (l.map fun x => if p x then f x else 0) := by
  induction l with
  | nil => simp
  | cons a t ih =>
    by_cases hp : p a = true
    · simp [hp, ih]
    · simp [hp, ih]

end FlexLine
