/-
  C04 for grid, part 2: simulation up to scaling for `GM` programs (`ExceptT String (ProgM Rat)`), on top of
  `C04.SimS` (Lemmas/FlexScaleProg.lean): same shape, inputs and layouts scaled, answers scaled, `.ok` results related
  by `Q`, panics equal.
-/
import TaffyVerif.Lemmas.GridScaleInst
import TaffyVerif.Lemmas.FlexScaleProg

set_option linter.unusedSectionVars false
set_option linter.unusedVariables false

namespace C04
open Scalable GridModel GridTracks GridStages

variable {k : Rat} {β γ : Type}

def ExS (Q : β → β → Prop) : Except String β → Except String β → Prop
  | .ok a', .ok a => Q a' a
  | .error e', .error e => e' = e
  | _, _ => False

def GSim (k : Rat) (Q : β → β → Prop) (p' p : GM Rat β) : Prop := SimS k (ExS Q) p'.run p.run

theorem GSim.pure {Q : β → β → Prop} {a' a : β} (h : Q a' a) : GSim k Q (Pure.pure a' : GM Rat β) (Pure.pure a) :=
  SimS.pure _ _ h

theorem GSim.throw {Q : β → β → Prop} (e : String) : GSim k Q (throw e : GM Rat β) (throw e) :=
  SimS.pure _ _ rfl

theorem GSim.bind {Q : β → β → Prop} {Q2 : γ → γ → Prop} {p' p : GM Rat β} {f' f : β → GM Rat γ}
    (h : GSim k Q p' p) (hf : ∀ b' b, Q b' b → GSim k Q2 (f' b') (f b)) : GSim k Q2 (p' >>= f') (p >>= f) := by
  show SimS k (ExS Q2) (p'.run >>= _) (p.run >>= _)
  refine SimS.bind h fun r' r hr => ?_
  cases r' with
  | ok a' =>
    cases r with
    | ok a => exact hf a' a hr
    | error e => exact hr.elim
  | error e' =>
    cases r with
    | ok a => exact hr.elim
    | error e => exact SimS.pure _ _ hr

theorem GSim.mono {Q Q2 : β → β → Prop} {p' p : GM Rat β} (h : GSim k Q p' p) (hq : ∀ b' b, Q b' b → Q2 b' b) :
    GSim k Q2 p' p := by
  refine SimS.mono h fun r' r hr => ?_
  cases r' <;> cases r <;> first | exact hq _ _ hr | exact hr

theorem GSim.ite {Q : β → β → Prop} {c : Prop} [Decidable c] {p1 p2 q1 q2 : GM Rat β}
    (h1 : GSim k Q p1 q1) (h2 : GSim k Q p2 q2) : GSim k Q (if c then p1 else p2) (if c then q1 else q2) := by
  split
  · exact h1
  · exact h2

/-- the same integer computation on both sides -/
theorem GSim.ofOutcome {Q : β → β → Prop} (o : GridPlacement.Outcome β) (h : ∀ a, Q a a) :
    GSim k Q (GM.ofOutcome o : GM Rat β) (GM.ofOutcome o) := by
  cases o with
  | ok a => exact GSim.pure (h a)
  | panic m => exact GSim.throw _
  | overflow => exact GSim.throw _
  | outOfFuel => exact GSim.throw _

theorem GSim.ofExcept {Q : β → β → Prop} (o : Except GErr β) (h : ∀ a, Q a a) :
    GSim k Q (GM.ofExcept o : GM Rat β) (GM.ofExcept o) := by
  cases o with
  | ok a => exact GSim.pure (h a)
  | error e => cases e <;> exact GSim.throw _

/-- related pure (possibly failing) computations -/
theorem GSim.ofExcept_rel {Q : β → β → Prop} {o' o : Except GErr β}
    (h : match o', o with | .ok a', .ok a => Q a' a | .error e', .error e => e' = e | _, _ => False) :
    GSim k Q (GM.ofExcept o' : GM Rat β) (GM.ofExcept o) := by
  cases o' with
  | ok a' =>
    cases o with
    | ok a => exact GSim.pure h
    | error e => exact h.elim
  | error e' =>
    cases o with
    | ok a => exact h.elim
    | error e =>
      have : e' = e := h
      subst this
      cases e' <;> exact GSim.throw _

theorem GSim.call (i : Nat) (inp : LayoutInput Rat) :
    GSim k (fun o' o => o' = scale k o) (GM.call i (scale k inp)) (GM.call i inp) := by
  show SimS k _ (ProgM.call i (scale k inp) _) (ProgM.call i inp _)
  exact SimS.call i inp _ _ fun o => SimS.pure _ _ rfl

theorem GSim.setLayout (i : Nat) (l : Layout Rat) :
    GSim k (fun _ _ => True) (GM.setLayout i (scale k l)) (GM.setLayout i l) := by
  show SimS k _ (ProgM.setLayout i (scale k l) _) (ProgM.setLayout i l _)
  exact SimS.setLayout i l _ _ (SimS.pure _ _ trivial)

/-- `GSim` with "result scaled" is `scaleProg` of the underlying program -/
theorem GSim.to_eq [Scalable β] (hk : 0 < k) {p' p : GM Rat β} (h : GSim k (fun b' b => b' = scale k b) p' p) :
    p'.run = scaleProg k p.run := by
  refine SimS.to_eq hk (SimS.mono h fun r' r hr => ?_)
  cases r' with
  | ok a' =>
    cases r with
    | ok a => rw [show a' = scale k a from hr]; rfl
    | error e => exact hr.elim
  | error e' =>
    cases r with
    | ok a => exact hr.elim
    | error e => rw [show e' = e from hr]; rfl

end C04
