/-
  C04 for grid, part 11: steps 2–5 (`gridSetupKG`) and the whole `gridAlgG` are homogeneous for related parameters.
-/
import TaffyVerif.Lemmas.GridScaleTop

set_option linter.unusedSectionVars false
set_option linter.unusedVariables false
set_option linter.unusedSimpArgs false

namespace C04
open Scalable GridModel GridTracks GridStages GridScale

variable {k : Rat}

theorem default_gscale (k : Rat) : gscale k (Style.default : Style Rat) = Style.default := by
  show ({ (Style.default : Style Rat) with
      scrollbarWidth := scale k (Style.default : Style Rat).scrollbarWidth
      inset := scale k (Style.default : Style Rat).inset
      size := scale k (Style.default : Style Rat).size
      minSize := scale k (Style.default : Style Rat).minSize
      maxSize := scale k (Style.default : Style Rat).maxSize
      margin := scale k (Style.default : Style Rat).margin
      padding := scale k (Style.default : Style Rat).padding
      border := scale k (Style.default : Style Rat).border
      gap := scale k (Style.default : Style Rat).gap
      flexBasis := scale k (Style.default : Style Rat).flexBasis
      grid := scale k (Style.default : Style Rat).grid } : Style Rat) = Style.default
  simp only [Style.default, scale_simp]
  rfl

theorem boxChildren_scale (k : Rat) (cs : List (GridChildStyle Rat)) : boxChildren (scale k cs) = boxChildren cs := by
  unfold boxChildren
  rw [scale_list, List.filter_map, List.filter_map, List.map_map]
  rfl

theorem enumFrom_scale (k : Rat) : ∀ (cs : List (GridChildStyle Rat)) (n : Nat),
    GridPlacement.enumFrom n (scale k cs) = (GridPlacement.enumFrom n cs).map (fun ic => (ic.1, scale k ic.2))
  | [], _ => rfl
  | c :: rest, n => by
    show GridPlacement.enumFrom n (scale k c :: scale k rest) = _
    simp only [GridPlacement.enumFrom, List.map_cons, enumFrom_scale k rest]

theorem inFlowChildren_scale (k : Rat) (cs : List (GridChildStyle Rat)) :
    inFlowChildren (scale k cs) = inFlowChildren cs := by
  unfold inFlowChildren
  rw [enumFrom_scale, List.filter_map, List.map_map]
  rfl

theorem mkItem_scale (k : Rat) (cs : List (GridChildStyle Rat)) (ai ji : AlignItems) (p : GridPlacement.Item) :
    mkItem (scale k cs) ai ji p = scale k (mkItem cs ai ji p) := by
  unfold mkItem
  rw [getElem?_scale_list]
  cases cs[p.index]? with
  | none =>
    show GItem.new p.index p.column p.row Style.default ai ji p.index = _
    rw [← default_gscale k, itemNew_scale, default_gscale]
    rfl
  | some c => exact itemNew_scale k _ _ _ c.base ai ji _

/-- `Outcome.map` -/
def omap {β γ : Type} (f : β → γ) : GridPlacement.Outcome β → GridPlacement.Outcome γ
  | .ok a => .ok (f a)
  | .panic m => .panic m
  | .overflow => .overflow
  | .outOfFuel => .outOfFuel

theorem omap_bind {α β γ : Type} (f : β → γ) (x : GridPlacement.Outcome α) (g : α → GridPlacement.Outcome β) :
    omap f (x >>= g) = x >>= fun a => omap f (g a) := by
  cases x <;> rfl

theorem mapO_map {α β : Type} (h : α → α) (h2 : β → β) (g : α → GridPlacement.Outcome β)
    (hg : ∀ x, g (h x) = omap h2 (g x)) : ∀ (l : List α),
    GridPlacement.mapO g (l.map h) = omap (List.map h2) (GridPlacement.mapO g l)
  | [] => rfl
  | x :: xs => by
    simp only [List.map_cons, GridPlacement.mapO, hg, mapO_map h h2 g hg xs]
    cases g x with
    | ok y => cases GridPlacement.mapO g xs <;> rfl
    | panic m => rfl
    | overflow => rfl
    | outOfFuel => rfl

theorem resolveItemTrackIndexes_scale (k : Rat) (cc rc : GridPlacement.TrackCounts) (items : List (GItem Rat)) :
    resolveItemTrackIndexes (scale k items) cc rc = omap (scale k) (resolveItemTrackIndexes items cc rc) := by
  unfold resolveItemTrackIndexes
  refine mapO_map (scale k) (scale k) _ (fun it => ?_) items
  simp only [gi_column, gi_row, omap_bind]
  rfl

theorem determineCrossings_scale (k : Rat) (items : List (GItem Rat)) (columns rows : List (GridTrack Rat)) :
    determineCrossings (scale k items) (scale k columns) (scale k rows) =
      scale k (determineCrossings items columns rows) := by
  unfold determineCrossings
  refine map_scale_list k items _ _ fun it => ?_
  rw [gi_spannedTracks, gi_spannedTracks]
  simp only [any_scale_list k _ _ _ (gt_isFlexible k), any_scale_list k _ _ _ (gt_hasIntrinsic k)]
  rfl

variable {FT : GridTrack Rat → Prop} (hFT : TrackProp FT) {ts' ts : TS Rat} (hts : TSHom k FT ts' ts) (hk : 0 < k)

theorem gridSetupKG_sim {β : Type} {Q : β → β → Prop} (ceg' ceg : CEG Rat) (style : GridStyle Rat)
    (cs : List (GridChildStyle Rat)) (c : Ctx Rat)
    (hcol : ceg' (scale k style.base.size.width) (scale k style.base.maxSize.width) (scale k style.base.gap.width)
      (scale k style.gridTemplateColumns) (scale k c.autoFitContainerSize.width) =
      ceg style.base.size.width style.base.maxSize.width style.base.gap.width style.gridTemplateColumns
        c.autoFitContainerSize.width)
    (hrow : ceg' (scale k style.base.size.height) (scale k style.base.maxSize.height) (scale k style.base.gap.height)
      (scale k style.gridTemplateRows) (scale k c.autoFitContainerSize.height) =
      ceg style.base.size.height style.base.maxSize.height style.base.gap.height style.gridTemplateRows
        c.autoFitContainerSize.height)
    (hTPc : ∀ counts has l, initializeGridTracks counts style.gridTemplateColumns style.gridAutoColumns
      style.base.gap.width has = .ok l → TPs FT l)
    (hTPr : ∀ counts has l, initializeGridTracks counts style.gridTemplateRows style.gridAutoRows
      style.base.gap.height has = .ok l → TPs FT l)
    (k1' k1 : Setup Rat → GM Rat β)
    (hk1 : ∀ su, TPs FT su.columns → TPs FT su.rows → GSim k Q (k1' (scale k su)) (k1 su)) :
    GSim k Q (gridSetupKG ceg' (scale k style) (scale k cs) (scale k c) k1') (gridSetupKG ceg style cs c k1) := by
  unfold gridSetupKG
  simp only [gs_base, gs_cols, gs_rows, gs_autoRows, gs_autoCols, gs_flow, gstyle_size, gstyle_maxSize, gstyle_gap,
    scale_size_width, scale_size_height, cx_autoFitContainerSize, cx_alignItems, cx_justifyItems, hcol, hrow,
    boxChildren_scale, inFlowChildren_scale]
  refine GSim.bind (GSim.ofExcept _ fun _ => rfl) fun ec' ec hec => ?_
  subst hec
  refine GSim.bind (GSim.ofExcept _ fun _ => rfl) fun er' er her => ?_
  subst her
  refine GSim.bind (GSim.ofOutcome _ fun _ => rfl) fun e' e he => ?_
  subst he
  refine GSim.bind (GSim.ofOutcome _ fun _ => rfl) fun m' m hm => ?_
  subst hm
  refine GSim.bind (GSim.ofOutcome _ fun _ => rfl) fun pl' pl hpl => ?_
  subst hpl
  simp only [initializeGridTracks_scale]
  cases hci : initializeGridTracks (toNatCounts pl'.matrix.columns) style.gridTemplateColumns style.gridAutoColumns
      style.base.gap.width (columnIsOccupied pl'.matrix) with
  | error e => cases e <;> exact GSim.throw _
  | ok cols =>
    show GSim k Q ((Pure.pure (scale k cols) : GM Rat _) >>= _) ((Pure.pure cols : GM Rat _) >>= _)
    rw [pure_bind, pure_bind]
    cases hri : initializeGridTracks (toNatCounts pl'.matrix.rows) style.gridTemplateRows style.gridAutoRows
        style.base.gap.height (rowIsOccupied pl'.matrix) with
    | error e => cases e <;> exact GSim.throw _
    | ok rows =>
      show GSim k Q ((Pure.pure (scale k rows) : GM Rat _) >>= _) ((Pure.pure rows : GM Rat _) >>= _)
      rw [pure_bind, pure_bind]
      have hitems : (pl'.items.reverse.map (mkItem (scale k cs) (c.alignItems.getD .stretch)
          (c.justifyItems.getD .stretch))) =
          scale k (pl'.items.reverse.map (mkItem cs (c.alignItems.getD .stretch) (c.justifyItems.getD .stretch))) := by
        show _ = List.map (scale k) (List.map _ _)
        rw [List.map_map]
        exact List.map_congr_left fun p _ => mkItem_scale k cs _ _ p
      rw [hitems, resolveItemTrackIndexes_scale]
      unfold omap
      cases resolveItemTrackIndexes (pl'.items.reverse.map (mkItem cs (c.alignItems.getD .stretch)
          (c.justifyItems.getD .stretch))) pl'.matrix.columns pl'.matrix.rows with
      | panic msg => exact GSim.throw _
      | overflow => exact GSim.throw _
      | outOfFuel => exact GSim.throw _
      | ok items =>
        show GSim k Q ((Pure.pure (scale k items) : GM Rat _) >>= _) ((Pure.pure items : GM Rat _) >>= _)
        rw [pure_bind, pure_bind, determineCrossings_scale]
        exact hk1 ⟨determineCrossings items cols rows, cols, rows, pl'.matrix.columns, pl'.matrix.rows⟩
          (hTPc _ _ _ hci) (hTPr _ _ _ hri)

include hFT hts hk

/-- **gridAlgG_scale**: the glue of `compute_grid_layout` is homogeneous for related parameters -/
theorem gridAlgG_scale (ceg' ceg : CEG Rat) (s : Style Rat) (cs : List (Style Rat)) (inp : LayoutInput Rat)
    (hcol : ceg' (scale k s.size.width) (scale k s.maxSize.width) (scale k s.gap.width)
      (scale k s.grid.templateColumns) (scale k (mkCtx s inp).autoFitContainerSize.width) =
      ceg s.size.width s.maxSize.width s.gap.width s.grid.templateColumns (mkCtx s inp).autoFitContainerSize.width)
    (hrow : ceg' (scale k s.size.height) (scale k s.maxSize.height) (scale k s.gap.height)
      (scale k s.grid.templateRows) (scale k (mkCtx s inp).autoFitContainerSize.height) =
      ceg s.size.height s.maxSize.height s.gap.height s.grid.templateRows (mkCtx s inp).autoFitContainerSize.height)
    (hTPc : ∀ counts has l, initializeGridTracks counts s.grid.templateColumns s.grid.autoColumns s.gap.width has =
      .ok l → TPs FT l)
    (hTPr : ∀ counts has l, initializeGridTracks counts s.grid.templateRows s.grid.autoRows s.gap.height has =
      .ok l → TPs FT l) :
    gridAlgG ceg' ts' (gscale k s) (cs.map (gscale k)) (scale k inp) = scaleProg k (gridAlgG ceg ts s cs inp) := by
  have hE : GSim k (Sc k)
      (computeGridLayoutEG ceg' ts' (GridStyle.ofStyle (gscale k s)) ((cs.map (gscale k)).map GridChildStyle.ofStyle)
        (scale k inp))
      (computeGridLayoutEG ceg ts (GridStyle.ofStyle s) (cs.map GridChildStyle.ofStyle) inp) := by
    have hcs : (cs.map (gscale k)).map GridChildStyle.ofStyle = scale k (cs.map GridChildStyle.ofStyle) := by
      rw [scale_list, List.map_map, List.map_map]
      rfl
    rw [ofStyle_gscale, hcs]
    unfold computeGridLayoutEG
    have eb : (GridStyle.ofStyle s).base = s := rfl
    simp only [gs_base, eb, mkCtx_scale hk, li_runMode, cx_outerNodeSize, scale_size_width, scale_size_height]
    have hmain := gridSetupKG_sim (Q := Sc k) ceg' ceg (GridStyle.ofStyle s) (cs.map GridChildStyle.ofStyle)
      (mkCtx s inp) hcol hrow hTPc hTPr
      (gridSizingG ts' (scale k (mkCtx s inp)) (scale k (cs.map GridChildStyle.ofStyle)) (scale k inp))
      (gridSizingG ts (mkCtx s inp) (cs.map GridChildStyle.ofStyle) inp)
      (fun su h1 h2 => gridSizingG_sim hFT hts hk _ _ inp su h1 h2)
    cases inp.runMode with
    | computeSize =>
      cases (mkCtx s inp).outerNodeSize.width with
      | none => exact hmain
      | some w =>
        cases (mkCtx s inp).outerNodeSize.height with
        | none => exact hmain
        | some h => exact GSim.pure (fromOuterSize_scale k ⟨w, h⟩)
    | performLayout => exact hmain
    | performHiddenLayout => exact hmain
  unfold gridAlgG
  have h1 := GSim.to_eq hk hE
  show (ExceptT.run _ >>= _) = _
  rw [h1]
  generalize (computeGridLayoutEG ceg ts (GridStyle.ofStyle s) (cs.map GridChildStyle.ofStyle) inp).run = p
  show ProgM.bind (scaleProg k p) _ = scaleProg k (ProgM.bind p _)
  induction p with
  | pure r =>
    cases r with
    | ok o => rfl
    | error e =>
      show ProgM.pure LayoutOutput.hidden = ProgM.pure (scale k LayoutOutput.hidden)
      rw [scale_lo_hidden]
  | call i input c ih =>
    simp only [scaleProg, ProgM.bind]
    congr 1
    funext o
    exact ih _
  | setLayout i l c ih =>
    simp only [scaleProg, ProgM.bind]
    congr 1
    funext u
    exact ih _

end C04
