/-
  Assembly of C07 `flexibility_exhausted` from the abstract loop theorem and the refinement.
-/
import TaffyVerif.Lemmas.FlexRefine

namespace FlexLine

/-- hypotheses on an item as `determine_flex_base_size` hands it to `resolve_flexible_lengths` -/
structure ItemWF (c : FlexItemM Rat) : Prop where
  unfrozen : c.frozen = false
  grow : 0 ≤ c.flexGrow
  shrink : 0 ≤ c.flexShrink
  inner : 0 ≤ c.innerFlexBasis
  /-- the hypothetical main size is the flex base size clamped by the clamp the loop uses -/
  hyp : c.hypInner = clampMain c c.flexBasis
  outer : c.hypOuter = c.hypInner + c.marginSum

/-- every non-zero flex factor in the used direction is at least 1 -/
def FactorOK (g : Bool) (c : FlexItemM Rat) : Prop :=
  if g then (c.flexGrow = 0 ∨ 1 ≤ c.flexGrow) else (c.flexShrink = 0 ∨ 1 ≤ c.flexShrink)

/-- the item sits at its max main size (upper bound of the loop's clamp) -/
def AtMax (c : FlexItemM Rat) : Prop := ∃ u, c.maxMain = some u ∧ c.targetMain = max (max u c.resolvedMinMain) 0
/-- the item sits at its min main size (lower bound of the loop's clamp) -/
def AtMin (c : FlexItemM Rat) : Prop := c.targetMain = max c.resolvedMinMain 0

theorem clampQ_lt_imp (mn : Rat) (mx : Option Rat) (y : Rat) (h : clampQ mn mx y < y) :
    ∃ u, mx = some u ∧ clampQ mn mx y = max (max u mn) 0 := by
  cases mx with
  | none =>
    rw [clampQ_none] at h
    have : y ≤ max (max y mn) 0 := le_trans (le_max_left _ _) (le_max_left _ _)
    linarith
  | some u =>
    refine ⟨u, rfl, ?_⟩
    rw [clampQ_some] at h ⊢
    simp only [max_def, min_def] at h ⊢
    split_ifs at h ⊢ <;> linarith

theorem clampQ_gt_imp (mn : Rat) (mx : Option Rat) (y : Rat) (h : y < clampQ mn mx y) :
    clampQ mn mx y = max mn 0 := by
  cases mx with
  | none =>
    rw [clampQ_none] at h ⊢
    simp only [max_def] at h ⊢
    split_ifs at h ⊢ <;> linarith
  | some u =>
    rw [clampQ_some] at h ⊢
    simp only [max_def, min_def] at h ⊢
    split_ifs at h ⊢ <;> linarith

theorem loop_result_frozen (k : RflCtx Rat) : ∀ (fuel : Nat) (items r : List (FlexItemM Rat)),
    loop k fuel items = some r → r.all (·.frozen) = true := by
  intro fuel
  induction fuel with
  | zero =>
    intro items r hr
    unfold loop at hr
    by_cases hall : items.all (·.frozen) = true
    · simp only [hall, if_true, Option.some.injEq] at hr; subst hr; exact hall
    · simp [hall] at hr
  | succ n ih =>
    intro items r hr
    unfold loop at hr
    by_cases hall : items.all (·.frozen) = true
    · simp only [hall, if_true, Option.some.injEq] at hr; subst hr; exact hall
    · simp only [hall, Bool.false_eq_true, if_false] at hr
      exact ih _ r hr

/-! ### step 2 -/

/-- the freeze condition of step 2 when the line is not exactly sized -/
def initCond (g : Bool) (c : FlexItemM Rat) : Bool :=
  (Num.feq c.flexGrow 0 && Num.feq c.flexShrink 0) || (g && Num.fgt c.flexBasis c.hypInner)
    || (!g && Num.flt c.flexBasis c.hypInner)

theorem initFreeze_eq (g : Bool) (c : FlexItemM Rat) :
    initFreeze false g (!g) c =
      if initCond g c then
        { c with targetMain := c.hypInner, frozen := true, outerTargetMain := c.hypInner + c.marginSum }
      else { c with targetMain := c.hypInner } := by
  unfold initFreeze initCond FlexItemM.marginSum
  simp only [Bool.false_or]

theorem initFreeze_fields (g : Bool) (c : FlexItemM Rat) (hf : c.frozen = false) :
    (initFreeze false g (!g) c).flexBasis = c.flexBasis ∧
    (initFreeze false g (!g) c).innerFlexBasis = c.innerFlexBasis ∧
    (initFreeze false g (!g) c).resolvedMinMain = c.resolvedMinMain ∧
    (initFreeze false g (!g) c).maxMain = c.maxMain ∧
    (initFreeze false g (!g) c).flexGrow = c.flexGrow ∧
    (initFreeze false g (!g) c).flexShrink = c.flexShrink ∧
    (initFreeze false g (!g) c).marginSum = c.marginSum ∧
    (initFreeze false g (!g) c).targetMain = c.hypInner ∧
    (initFreeze false g (!g) c).frozen = initCond g c ∧
    ((initFreeze false g (!g) c).frozen = true →
      (initFreeze false g (!g) c).outerTargetMain = c.hypInner + c.marginSum) := by
  rw [initFreeze_eq]
  split <;> simp_all [FlexItemM.marginSum]

theorem toA_init (g : Bool) (c : FlexItemM Rat) (h : ItemWF c) :
    (toA g (initFreeze false g (!g) c)).b = sg g * c.flexBasis ∧
    (toA g (initFreeze false g (!g) c)).w = wt g c ∧
    (toA g (initFreeze false g (!g) c)).c = sg g * c.hypInner ∧
    (toA g (initFreeze false g (!g) c)).frozen = initCond g c ∧
    (toA g (initFreeze false g (!g) c)).K (sg g * c.flexBasis) = sg g * c.hypInner := by
  obtain ⟨h1, h2, h3, h4, h5, h6, _, h8, h9, _⟩ := initFreeze_fields g c h.unfrozen
  refine ⟨?_, ?_, ?_, ?_, ?_⟩
  · simp only [toA]; rw [h1]
  · simp only [toA, wt]; rw [h2, h5, h6]
  · simp only [toA]; rw [h8]
  · simp only [toA]; rw [h9]
  · rw [aK_toA, clampMain_eq, h3, h4, ← clampMain_eq, ← h.hyp]

theorem aok_toA (g : Bool) (c : FlexItemM Rat) (h : StaticOK g c) : AOK (toA g c) :=
  ⟨wt_nonneg h, clamp_sign _ (clamp_clampQ _ _) _ (sg_cases g)⟩

theorem exhausted_core (g : Bool) (items : List (FlexItemM Rat)) (W : Rat) (k : RflCtx Rat) (fuel : Nat)
    (r : List (FlexItemM Rat))
    (hwf : ∀ c ∈ items, ItemWF c) (hfac : ∀ c ∈ items, FactorOK g c)
    (hinner : k.innerMain = some W) (hgrow : k.growing = g) (hshrink : k.shrinking = !g)
    (hmode : if g then k.gapTotal + lsum (items.map (·.hypOuter)) < W
             else W < k.gapTotal + lsum (items.map (·.hypOuter)))
    (hr : loop k fuel (items.map (initFreeze false g (!g))) = some r) :
    lsum (r.map (·.outerTargetMain)) + k.gapTotal = W ∨
      ∀ c ∈ r, 0 < wt g c → (if g then AtMax c else AtMin c) := by
  -- the model state after step 2
  have hms : MState g k W (items.map (initFreeze false g (!g))) := by
    refine ⟨hinner, hgrow, hshrink, ?_, ?_⟩
    · intro c0 hc0
      rw [List.mem_map] at hc0
      obtain ⟨c, hc, rfl⟩ := hc0
      obtain ⟨_, h2, _, _, h5, h6, _⟩ := initFreeze_fields g c (hwf c hc).unfrozen
      unfold StaticOK
      rw [h2, h5, h6]
      exact ⟨(hwf c hc).grow, (hwf c hc).shrink, (hwf c hc).inner, hfac c hc⟩
    · intro c0 hc0 hf0
      rw [List.mem_map] at hc0
      obtain ⟨c, hc, rfl⟩ := hc0
      obtain ⟨_, _, _, _, _, _, h7, h8, _, h10⟩ := initFreeze_fields g c (hwf c hc).unfrozen
      rw [h10 hf0, h8, h7]
  have hmargins : lsum ((items.map (initFreeze false g (!g))).map (·.marginSum)) = lsum (items.map (·.marginSum)) := by
    rw [List.map_map]
    apply lsum_map_congr
    intro c hc
    exact (initFreeze_fields g c (hwf c hc).unfrozen).2.2.2.2.2.2.1
  -- the abstract invariant
  have hinv : AInv (aW g k W (items.map (initFreeze false g (!g))))
      ((items.map (initFreeze false g (!g))).map (toA g)) := by
    apply ainv_init
    · intro a ha
      rw [List.mem_map] at ha
      obtain ⟨c0, hc0, rfl⟩ := ha
      exact aok_toA g c0 (hms.static c0 hc0)
    · intro a ha
      rw [List.mem_map] at ha
      obtain ⟨c0, hc0, rfl⟩ := ha
      rw [List.mem_map] at hc0
      obtain ⟨c, hc, rfl⟩ := hc0
      obtain ⟨h1, _, h3, _, h5⟩ := toA_init g c (hwf c hc)
      rw [h1, h3, h5]
    · intro a ha hf
      rw [List.mem_map] at ha
      obtain ⟨c0, hc0, rfl⟩ := ha
      rw [List.mem_map] at hc0
      obtain ⟨c, hc, rfl⟩ := hc0
      obtain ⟨h1, h2, _, h4, h5⟩ := toA_init g c (hwf c hc)
      rw [h4] at hf
      rw [h1, h2, h5]
      unfold initCond at hf
      simp only [Bool.or_eq_true, Bool.and_eq_true, Num.feq, Num.fgt, Num.flt, decide_eq_true_eq,
        Bool.not_eq_true'] at hf
      rcases hf with (⟨hg0, hs0⟩ | ⟨hg, hlt⟩) | ⟨hg, hlt⟩
      · left; unfold wt; split
        · exact hg0
        · rw [hs0, mul_zero]
      · right; subst hg; simp only [sg, if_true, one_mul]; exact hlt
      · right; subst hg; simp only [sg, Bool.false_eq_true, if_false, neg_mul, one_mul]; linarith
    · intro a ha hf
      rw [List.mem_map] at ha
      obtain ⟨c0, hc0, rfl⟩ := ha
      rw [List.mem_map] at hc0
      obtain ⟨c, hc, rfl⟩ := hc0
      obtain ⟨h1, _, _, h4, h5⟩ := toA_init g c (hwf c hc)
      rw [h4] at hf
      rw [h1, h5]
      unfold initCond at hf
      simp only [Bool.or_eq_false_iff, Bool.and_eq_false_imp, Num.fgt, Num.flt, decide_eq_false_iff_not, not_lt,
        Bool.not_eq_true'] at hf
      obtain ⟨⟨_, hA⟩, hB⟩ := hf
      cases g with
      | true => simp only [sg, if_true, one_mul]; exact hA rfl
      | false => simp only [sg, Bool.false_eq_true, if_false, neg_mul, one_mul]; have := hB rfl; linarith
    · -- Σ sg·hyp < sg·(W − G − Σ margins)
      have e1 : lsum (((items.map (initFreeze false g (!g))).map (toA g)).map (·.c)) =
          sg g * lsum (items.map (·.hypInner)) := by
        rw [List.map_map, List.map_map, ← lsum_map_mul_left]
        apply lsum_map_congr
        intro c hc
        exact (toA_init g c (hwf c hc)).2.2.1
      have e2 : lsum (items.map (·.hypOuter)) = lsum (items.map (·.hypInner)) + lsum (items.map (·.marginSum)) := by
        rw [← lsum_map_add]
        apply lsum_map_congr
        intro c hc
        exact (hwf c hc).outer
      rw [e1]
      unfold aW
      rw [hmargins]
      rw [e2] at hmode
      cases g with
      | true => simp only [if_true] at hmode; simp only [sg, if_true, one_mul]; linarith
      | false =>
        simp only [Bool.false_eq_true, if_false] at hmode
        simp only [sg, Bool.false_eq_true, if_false, neg_mul, one_mul]; linarith
  -- run both loops
  obtain ⟨ha, hmr, hmsum⟩ := refine_loop fuel _ r hms hr
  have hfrozen := loop_result_frozen k fuel _ r hr
  rcases aLoop_exhausted _ fuel _ _ hinv ha with hfill | htop
  · left
    have e1 : lsum ((r.map (toA g)).map (·.c)) = sg g * lsum (r.map (·.targetMain)) := by
      rw [List.map_map, ← lsum_map_mul_left]
      apply lsum_map_congr
      intro c _; rfl
    have e2 : lsum (r.map (·.outerTargetMain)) = lsum (r.map (·.targetMain)) + lsum (r.map (·.marginSum)) := by
      rw [← lsum_map_add]
      apply lsum_map_congr
      intro c hc
      exact hmr.outer c hc (List.all_eq_true.1 hfrozen c hc)
    rw [e1] at hfill
    unfold aW at hfill
    rw [hmargins] at hfill
    have := congrArg (fun x => sg g * x) hfill
    simp only [sg_cancel] at this
    rw [e2, hmsum, hmargins, this]; ring
  · right
    intro c hc hw
    have hmem : toA g c ∈ r.map (toA g) := List.mem_map_of_mem hc
    obtain ⟨x, hx1, hx2⟩ := htop (toA g c) hmem hw
    simp only [toA] at hx1 hx2
    cases g with
    | true =>
      simp only [sg, if_true, one_mul] at hx1 hx2
      simp only [if_true]
      obtain ⟨u, hu, hval⟩ := clampQ_lt_imp _ _ _ hx1
      exact ⟨u, hu, by rw [hx2, hval]⟩
    | false =>
      simp only [sg, Bool.false_eq_true, if_false, neg_mul, one_mul, neg_inj] at hx1 hx2
      simp only [Bool.false_eq_true, if_false]
      have := clampQ_gt_imp c.resolvedMinMain c.maxMain (-x) (by linarith)
      unfold AtMin
      rw [hx2, this]

end FlexLine
