/-
  C03 (finiteness) — interaction programs (Model/Prog.lean) at `ER`.

  `FinP Q p`: along EVERY run of `p` in which the children answer with finite outputs (`OutFin`; the answers are
  universally quantified), every `LayoutInput` passed to a child is finite (`InFin`: known dimensions, parent size, definite
  available space), every `Layout` set is finite (`LayFin`), and the result satisfies `Q`.
-/
import TaffyVerif.Lemmas.FinBasic
import TaffyVerif.Model.Prog

namespace C03Fin

def FinP {β : Type} (Q : β → Prop) : ProgM ER β → Prop
  | .pure b => Q b
  | .call _ i k => InFin i ∧ ∀ o, OutFin o → FinP Q (k o)
  | .setLayout _ l k => LayFin l ∧ FinP Q (k ())

variable {β γ : Type}

theorem bind_eq (p : ProgM ER β) (f : β → ProgM ER γ) : p >>= f = p.bind f := rfl
theorem pure_eq (b : β) : (pure b : ProgM ER β) = .pure b := rfl

theorem FinP_pure {Q : β → Prop} {b : β} (h : Q b) : FinP Q (pure b : ProgM ER β) := h

theorem FinP_mono {Q R : β → Prop} (hqr : ∀ b, Q b → R b) : ∀ {p : ProgM ER β}, FinP Q p → FinP R p
  | .pure _, h => hqr _ h
  | .call _ _ _, h => ⟨h.1, fun o ho => FinP_mono hqr (h.2 o ho)⟩
  | .setLayout _ _ _, h => ⟨h.1, FinP_mono hqr h.2⟩

theorem FinP_bind {Q : β → Prop} {R : γ → Prop} {f : β → ProgM ER γ} (hf : ∀ b, Q b → FinP R (f b)) :
    ∀ {p : ProgM ER β}, FinP Q p → FinP R (p >>= f)
  | .pure _, h => hf _ h
  | .call _ _ _, h => ⟨h.1, fun o ho => FinP_bind hf (h.2 o ho)⟩
  | .setLayout _ _ _, h => ⟨h.1, FinP_bind hf h.2⟩

theorem FinP_computeChildLayout {c : Nat} {i : LayoutInput ER} (hi : InFin i) :
    FinP OutFin (ProgM.computeChildLayout c i) := ⟨hi, fun _ ho => ho⟩

theorem FinP_setUnroundedLayout {c : Nat} {l : Layout ER} (hl : LayFin l) :
    FinP (fun _ => True) (ProgM.setUnroundedLayout c l) := ⟨hl, trivial⟩

theorem FinP_performChildLayout {c : Nat} {kd ps : Size (Option ER)} {av : Size (AvailableSpace ER)} {sm : SizingMode}
    {vm : Line Bool} (h1 : SOFin kd) (h2 : SOFin ps) (h3 : SAvFin av) :
    FinP OutFin (ProgM.performChildLayout c kd ps av sm vm) := ⟨⟨h1, h2, h3⟩, fun _ ho => ho⟩

theorem FinP_measureChildSize {c : Nat} {kd ps : Size (Option ER)} {av : Size (AvailableSpace ER)} {sm : SizingMode}
    {hz : Bool} {vm : Line Bool} (h1 : SOFin kd) (h2 : SOFin ps) (h3 : SAvFin av) :
    FinP IsFin (ProgM.measureChildSize c kd ps av sm hz vm) := by
  refine ⟨⟨h1, h2, h3⟩, fun o ho => ?_⟩
  show IsFin (if hz then o.size.width else o.size.height)
  split
  · exact ho.size.1
  · exact ho.size.2

end C03Fin
