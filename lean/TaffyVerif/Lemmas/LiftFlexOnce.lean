/-
  C07 lifted to the flexbox program, part 8: bookkeeping about the children a run lays out.

    * `flexRun_sets_once`       a PerformLayout run sets every child at most once (in fact exactly once: the flex items in
                                the final layout pass, the absolutely positioned boxes in the absolute pass, the
                                `display:none` children in the hidden pass)
    * `flexRun_lines_flatten`   the lines the final layout pass visits partition the flex items, in document order
    * `flexRun_lines_nowrap`    `flex-wrap: nowrap`: one line
-/
import TaffyVerif.Lemmas.LiftFlexExhaustRun

set_option linter.unusedSectionVars false
set_option linter.unusedVariables false

namespace Lift
open FlexModel EvalFlex FlexLine FlexStages

/-! ### strictly increasing index lists -/

theorem nodup_iidx_generateItemsFrom (k : AlgoConstants Rat) : ∀ (l : List (Style Rat)) (idx : Nat),
    (iidx (generateItemsFrom k l idx)).Nodup
  | [], _ => List.nodup_nil
  | s :: rest, idx => by
    rw [generateItemsFrom_cons]
    split
    · rw [iidx_cons, List.nodup_cons]
      refine ⟨?_, nodup_iidx_generateItemsFrom k rest (idx + 1)⟩
      intro hm
      obtain ⟨j, _, hj, _, _⟩ := (mem_iidx_generateItemsFrom k rest (idx + 1) _).1 hm
      rw [generateItem_idx] at hj
      omega
    · exact nodup_iidx_generateItemsFrom k rest (idx + 1)

theorem nodup_absIdxFrom : ∀ (l : List (Style Rat)) (order : Nat), (absIdxFrom l order).Nodup
  | [], _ => List.nodup_nil
  | s :: rest, order => by
    rw [absIdxFrom]
    split
    · rw [List.nodup_cons]
      refine ⟨?_, nodup_absIdxFrom rest (order + 1)⟩
      intro hm
      obtain ⟨j, _, hj, _, _⟩ := (mem_absIdxFrom rest (order + 1) order).1 hm
      omega
    · exact nodup_absIdxFrom rest (order + 1)

theorem nodup_lays_hiddenLoop (orc : Orc) : ∀ (l : List (Style Rat)) (order : Nat),
    ((lays orc (BlockModel.hiddenLoop l order)).map Prod.fst).Nodup
  | [], _ => List.nodup_nil
  | s :: rest, order => by
    by_cases hs : s.isHidden = true
    · rw [EvalBlock.hiddenLoop_cons_hidden s rest order hs, lays_call, lays_set, List.map_cons, List.nodup_cons]
      refine ⟨?_, nodup_lays_hiddenLoop orc rest (order + 1)⟩
      intro hm
      obtain ⟨x, hx, hx1⟩ := List.mem_map.1 hm
      obtain ⟨_, _, hle, _⟩ := mem_lays_hiddenLoop orc rest (order + 1) x hx
      simp only at hx1
      omega
    · have hs' : s.isHidden = false := by simpa using hs
      rw [EvalBlock.hiddenLoop_cons_visible s rest order hs']
      exact nodup_lays_hiddenLoop orc rest (order + 1)

/-- **every child is set at most once** -/
theorem flexRun_sets_once (orc : Orc) (style : Style Rat) (cs : List (Style Rat)) (inp : LayoutInput Rat)
    (h : inp.runMode = .performLayout) :
    ((lays orc (computeFlexboxLayout style cs inp)).map Prod.fst).Nodup := by
  rw [flexRun_lays orc style cs inp h, List.map_append, List.map_append]
  obtain ⟨J, hp, hJ⟩ := Lays_finalLayoutPass (flexFinalK orc style cs inp).2 (flexAlignedLines orc style cs inp)
  rw [lays_Lays orc J _ hJ, lays_Lays orc _ _ (Lays_absLoop (flexFinalK orc style cs inp).2 cs 0 Size.zero)]
  have hJm : ∀ i, i ∈ J ↔ ∃ s, cs[i]? = some s ∧ isItem s = true := by
    intro i
    rw [hp.mem_iff, idxs_aligned]
    exact mem_iidx_items _ cs i
  have hJn : J.Nodup := by
    rw [hp.nodup_iff, idxs_aligned]
    exact nodup_iidx_generateItemsFrom _ cs 0
  rw [List.nodup_append]
  refine ⟨hJn, ?_, ?_⟩
  · rw [List.nodup_append]
    refine ⟨nodup_absIdxFrom cs 0, nodup_lays_hiddenLoop orc cs 0, ?_⟩
    intro a ha b hb hab
    subst hab
    obtain ⟨s, hs, hv⟩ := (mem_absIdx cs a).1 ha
    obtain ⟨x, hx, hx1⟩ := List.mem_map.1 hb
    obtain ⟨s', hs', _, hh⟩ := mem_lays_hiddenLoop orc cs 0 x hx
    rw [hx1, Nat.sub_zero, hs] at hs'
    cases hs'
    simp only [isAbsV, hh, Bool.true_or, Bool.not_true] at hv
    cases hv
  · intro a ha b hb hab
    subst hab
    obtain ⟨s, hs, hi⟩ := (hJm a).1 ha
    rcases List.mem_append.1 hb with hb | hb
    · obtain ⟨s', hs', hv⟩ := (mem_absIdx cs a).1 hb
      rw [hs] at hs'; cases hs'
      simp only [isItem, isAbsV, EvalBlock.pos_beq, EvalBlock.pos_bne] at hi hv
      cases hh : s.isHidden <;> by_cases hp' : s.position = .absolute <;> simp [hh, hp'] at hi hv
    · obtain ⟨x, hx, hx1⟩ := List.mem_map.1 hb
      obtain ⟨s', hs', _, hh⟩ := mem_lays_hiddenLoop orc cs 0 x hx
      rw [hx1, Nat.sub_zero, hs] at hs'
      cases hs'
      simp only [isItem, hh, Bool.or_true, Bool.not_true] at hi
      cases hi

/-! ### the lines -/

/-- the child indices of the lines the final layout pass visits, line by line, in document order -/
def flexLinesOf (orc : Orc) (style : Style Rat) (cs : List (Style Rat)) (inp : LayoutInput Rat) : List (List Nat) :=
  shape (flexAlignedLines orc style cs inp)

/-- the indices of the flex items (box-generating, not absolutely positioned children), in document order -/
def inflowIdx (cs : List (Style Rat)) : List Nat :=
  iidx (generateAnonymousFlexItems (default : AlgoConstants Rat) cs)

theorem iidx_generateItemsFrom_indep (k k' : AlgoConstants Rat) : ∀ (l : List (Style Rat)) (idx : Nat),
    iidx (generateItemsFrom k l idx) = iidx (generateItemsFrom k' l idx)
  | [], _ => rfl
  | s :: rest, idx => by
    rw [generateItemsFrom_cons, generateItemsFrom_cons]
    split
    · rw [iidx_cons, iidx_cons, iidx_generateItemsFrom_indep k k' rest]; rfl
    · exact iidx_generateItemsFrom_indep k k' rest _

theorem mem_inflowIdx (cs : List (Style Rat)) (i : Nat) : i ∈ inflowIdx cs ↔ ∃ s, cs[i]? = some s ∧ isItem s = true :=
  mem_iidx_items _ cs i

/-- **the lines partition the flex items, in document order** -/
theorem flexRun_lines_flatten (orc : Orc) (style : Style Rat) (cs : List (Style Rat)) (inp : LayoutInput Rat) :
    (flexLinesOf orc style cs inp).flatten = inflowIdx cs := by
  have := idxs_aligned orc style cs inp
  unfold idxs at this
  rw [flexLinesOf, this]
  exact iidx_generateItemsFrom_indep _ _ cs 0

/-- with `flex-wrap: nowrap` the measuring prefix hands on one line -/
theorem Meas_flexPrefix_nowrap (style : Style Rat) (cs : List (Style Rat)) (inputs : LayoutInput Rat)
    (hnw : style.flexWrap = .noWrap) :
    Meas (fun r => shape r.1 = [iidx (items0 style cs inputs)]) (5 * (items0 style cs inputs).length)
      (flexPrefix style cs inputs) := by
  unfold flexPrefix
  have hn : ∀ l : List (FlexItem Rat), l.length = (iidx l).length := fun l => by simp only [iidx, List.length_map]
  rw [show 5 * (items0 style cs inputs).length = 2 * (items0 style cs inputs).length +
    ((items0 style cs inputs).length + 2 * (items0 style cs inputs).length) by omega]
  refine Meas_bind _ _ _ _ _ _ (Meas_determineFlexBaseSize _ _ _ _) fun items hi => ?_
  have hc := idxs_collectFlexLines (k0 style inputs) (av0 style inputs) items
  have hlen : nItems (collectFlexLines (k0 style inputs) (av0 style inputs) items) = (items0 style cs inputs).length := by
    rw [nItems, hc, hi, ← hn]
  have hsh : shape (collectFlexLines (k0 style inputs) (av0 style inputs) items) = [iidx (items0 style cs inputs)] := by
    rw [collectFlexLines_nowrap _ _ _ (k0_isWrap_nowrap style inputs hnw)]
    show [iidx items] = _
    rw [hi]
  have h2 := Meas_mainSizeStage style (k0 style inputs) (av0 style inputs)
    (collectFlexLines (k0 style inputs) (av0 style inputs) items)
  rw [hlen] at h2
  refine Meas_bind _ _ _ _ _ _ h2 fun r hr => ?_
  have h3 := Meas_hypStage inputs (av0 style inputs) r
  rw [nItems_of_shape _ _ hr, hlen] at h3
  refine Meas_mono _ _ ?_ _ _ _ (Nat.le_refl _) h3
  intro r' hr'
  rw [hr', hr, hsh]

/-- **`flex-wrap: nowrap`: one line** -/
theorem flexRun_lines_nowrap (orc : Orc) (style : Style Rat) (cs : List (Style Rat)) (inp : LayoutInput Rat)
    (hnw : style.flexWrap = .noWrap) : flexLinesOf orc style cs inp = [inflowIdx cs] := by
  obtain ⟨-, hm⟩ := lays_meas orc _ _ (Meas_flexPrefix_nowrap style cs (flexInp style inp) hnw)
  have h2 : shape (flexAlignedLines orc style cs inp) = shape (flexMid orc style cs inp).1 := by
    simp only [flexAlignedLines, flexCrossLines, crossStage, shape_alignFlexLines,
      shape_resolveCrossAxisAutoMargins, shape_distribute, shape_determineUsedCrossSize,
      shape_handleAlignContentStretch, shape_calculateCrossSize]
  rw [flexLinesOf, h2]
  have hm' : shape (flexMid orc style cs inp).1 = [iidx (items0 style cs (flexInp style inp))] := hm
  rw [hm']
  congr 1
  exact iidx_generateItemsFrom_indep _ _ cs 0

end Lift
