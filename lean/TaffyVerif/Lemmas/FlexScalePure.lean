/-
  C04 for flexbox, part 2: the pure stages of `compute_preliminary` commute with scaling (no side condition, except
  `intrinsicTarget`, which reads `content_flex_fraction`).
-/
import TaffyVerif.Lemmas.FlexScaleInst

set_option linter.unusedSectionVars false
set_option linter.unusedVariables false
set_option linter.unusedSimpArgs false

namespace C04
open Scalable FlexModel FlexStages BlockModel
open FlexLine (sumF sumAxisGaps)

variable {k : Rat}

/-! ### compute_flexbox_layout / compute_constants / items -/

theorem flexStyledBasedKnownDimensions_scale (hk : 0 < k) (style : Style Rat) (inputs : LayoutInput Rat) :
    FlexModel.styledBasedKnownDimensions (scale k style) (scale k inputs) =
      scale k (FlexModel.styledBasedKnownDimensions style inputs) := by
  simp only [FlexModel.styledBasedKnownDimensions, scale_simp, hk]
  generalize resolveStyleSize style.minSize _ _ _ = mn
  generalize resolveStyleSize style.maxSize _ _ _ = mx
  obtain ⟨mnw, mnh⟩ := mn
  obtain ⟨mxw, mxh⟩ := mx
  cases mnw <;> cases mnh <;> cases mxw <;> cases mxh <;>
    simp only [Size.orOpt, Size.of_max, scale_simp, hk, Option.or_none, Option.none_or]

theorem sumAxes_scale_mk (k a b c d : Rat) :
    (Rect.mk (scale k a) (scale k b) (scale k c) (scale k d)).sumAxes = scale k (Rect.mk a b c d).sumAxes := by
  rw [← scale_rect_mk, Rect.sumAxes_scale]

theorem computeConstants_scale (hk : 0 < k) (style : Style Rat) (kd ps : Size (Option Rat)) :
    computeConstants (scale k style) (scale k kd) (scale k ps) = scale k (computeConstants style kd ps) := by
  have h0 : (⟨some 0, some 0⟩ : Size (Option Rat)) = scale k (⟨some 0, some 0⟩ : Size (Option Rat)) := by
    simp only [scale_size_mk, scale_some, scale_zero]
  simp only [computeConstants, scale_fxk_mk, scale_simp, hk, sumAxes_scale_mk]
  rw [h0]
  simp only [scale_simp, hk]

theorem flexGenerateItem_scale (hk : 0 < k) (c : AlgoConstants Rat) (idx : Nat) (cs : Style Rat) :
    FlexModel.generateItem (scale k c) idx (scale k cs) = scale k (FlexModel.generateItem c idx cs) := by
  simp only [FlexModel.generateItem, scale_fxi_mk, scale_simp, hk]

theorem flexGenerateItemsFrom_scale (hk : 0 < k) (c : AlgoConstants Rat) : ∀ (l : List (Style Rat)) (idx : Nat),
    FlexModel.generateItemsFrom (scale k c) (scale k l) idx = scale k (FlexModel.generateItemsFrom c l idx)
  | [], _ => rfl
  | cs :: rest, idx => by
    simp only [scale_cons, FlexModel.generateItemsFrom]
    rw [style_isHidden, style_position]
    by_cases h : (cs.position == Position.absolute || cs.isHidden) = true
    · rw [if_pos h, if_pos h]
      exact flexGenerateItemsFrom_scale hk c rest _
    · rw [if_neg h, if_neg h, flexGenerateItem_scale hk, flexGenerateItemsFrom_scale hk c rest]
      rfl

/-- freshly generated items have `content_flex_fraction = 0` -/
theorem generateItemsFrom_cff (c : AlgoConstants Rat) : ∀ (l : List (Style Rat)) (idx : Nat),
    ∀ it ∈ FlexModel.generateItemsFrom c l idx, it.contentFlexFraction = 0
  | [], _, it, h => by simp [FlexModel.generateItemsFrom] at h
  | cs :: rest, idx, it, h => by
    unfold FlexModel.generateItemsFrom at h
    split at h
    · exact generateItemsFrom_cff c rest _ it h
    · rcases List.mem_cons.1 h with e | e
      · subst e; rfl
      · exact generateItemsFrom_cff c rest _ it e

theorem determineAvailableSpace_scale (hk : 0 < k) (kd : Size (Option Rat)) (outer : Size (AvailableSpace Rat))
    (c : AlgoConstants Rat) :
    determineAvailableSpace (scale k kd) (scale k outer) (scale k c) = scale k (determineAvailableSpace kd outer c) := by
  obtain ⟨w, h⟩ := kd
  cases w <;> cases h <;> simp only [determineAvailableSpace, scale_simp, hk]

theorem childKnownDimensions_scale (hk : 0 < k) (dir : FlexDirection) (item : FlexItem Rat) (ca : AvailableSpace Rat) :
    childKnownDimensions dir (scale k item) (scale k ca) = scale k (childKnownDimensions dir item ca) := by
  simp only [childKnownDimensions, scale_simp, hk]

/-! ### collect_flex_lines -/

theorem mkLine_scale (k : Rat) (items : List (FlexItem Rat)) : mkLine (scale k items) = scale k (mkLine items) := by
  simp only [mkLine, scale_fxl_mk, scale_simp]

theorem breakIndex_scale (hk : 0 < k) (dir : FlexDirection) (avail gap : Rat) :
    ∀ (l : List (FlexItem Rat)) (idx : Nat) (len : Rat),
      breakIndex dir (scale k avail) (scale k gap) (scale k l) idx (scale k len) = breakIndex dir avail gap l idx len
  | [], _, _ => rfl
  | c :: rest, idx, len => by
    simp only [scale_cons, breakIndex, scale_simp, hk]
    rw [breakIndex_scale hk dir avail gap rest]

theorem take_scale {β : Type} [Scalable β] (k : Rat) (n : Nat) (l : List β) : (scale k l).take n = scale k (l.take n) := by
  simp only [scale_list, List.map_take]
theorem drop_scale {β : Type} [Scalable β] (k : Rat) (n : Nat) (l : List β) : (scale k l).drop n = scale k (l.drop n) := by
  simp only [scale_list, List.map_drop]

theorem splitLines_scale (hk : 0 < k) (dir : FlexDirection) (avail gap : Rat) :
    ∀ (fuel : Nat) (items : List (FlexItem Rat)),
      splitLines dir (scale k avail) (scale k gap) fuel (scale k items) = scale k (splitLines dir avail gap fuel items)
  | 0, _ => by unfold splitLines; rfl
  | _ + 1, [] => by simp only [scale_nil]; unfold splitLines; rfl
  | fuel + 1, a :: l => by
    rw [scale_cons]
    unfold splitLines
    dsimp only
    have h := breakIndex_scale hk dir avail gap (a :: l) 0 0
    rw [scale_zero, scale_cons] at h
    rw [h, ← scale_cons, take_scale, drop_scale, mkLine_scale, splitLines_scale hk dir avail gap fuel, scale_cons]

theorem collectFlexLines_scale (hk : 0 < k) (c : AlgoConstants Rat) (av : Size (AvailableSpace Rat))
    (items : List (FlexItem Rat)) :
    collectFlexLines (scale k c) (scale k av) (scale k items) = scale k (collectFlexLines c av items) := by
  unfold collectFlexLines
  simp only [fxk_isWrap]
  by_cases hw : (!c.isWrap) = true
  · rw [if_pos hw, if_pos hw, mkLine_scale]; rfl
  · rw [if_neg hw, if_neg hw]
    simp only [fxk_maxSize, fxk_minSize, fxk_dir, fxk_gap, Size.main_scale, length_scale]
    cases hmx : c.maxSize.main c.dir with
    | none =>
      simp only [scale_none]
      generalize av.main c.dir = mainAv
      cases mainAv with
      | maxContent => simp only [scale_maxContent, mkLine_scale]; rfl
      | minContent =>
        simp only [scale_minContent]
        rw [map_scale_comm k (fun i => mkLine [i]) (fun i => mkLine [i])]
        intro x
        rw [← mkLine_scale]; rfl
      | definite v =>
        simp only [scale_definite]
        exact splitLines_scale hk _ _ _ _ _
    | some mx =>
      simp only [scale_some, scale_simp, hk]
      exact splitLines_scale hk _ _ _ _ _

/-! ### determine_container_main_size (the pure parts) -/

theorem longestLineLength_scale (hk : 0 < k) (c : AlgoConstants Rat) (lines : List (FlexLineS Rat)) :
    longestLineLength (scale k c) (scale k lines) = scale k (longestLineLength c lines) := by
  unfold longestLineLength
  simp only [fxk_dir, fxk_gap, Size.main_scale]
  rw [map_scale_comm k (fun line : FlexLineS Rat =>
      sumF (line.items.map fun child =>
        Num.fmax (MaybeMath.fo_max child.flexBasis (child.minSize.main c.dir) + child.margin.mainAxisSum c.dir)
          ((child.padding.add child.border).mainAxisSum c.dir)) + sumAxisGaps (c.gap.main c.dir) line.items.length) _]
  · rw [maxByTotalCmp_scale hk, getD_scale_zero]
  · intro line
    simp only [fxl_items, fxk_dir, fxk_gap, length_scale, Size.main_scale, sumAxisGaps_scale]
    rw [map_scale_comm k (fun child : FlexItem Rat =>
      Num.fmax (MaybeMath.fo_max child.flexBasis (child.minSize.main c.dir) + child.margin.mainAxisSum c.dir)
        ((child.padding.add child.border).mainAxisSum c.dir)) _]
    · simp only [scale_simp]
    · intro child
      simp only [scale_simp, hk]

/-- `intrinsicTarget` reads `content_flex_fraction`: a positive fraction is a length multiplied by the (pure) grow
factor, a negative one a pure number multiplied by the scaled shrink factor `max(1, flex_shrink) · inner_flex_basis`
(a length); homogeneous, no side condition -/
theorem intrinsicTarget_scale (hk : 0 < k) (dir : FlexDirection) (item : FlexItem Rat) :
    intrinsicTarget dir (scale k item) = scale k (intrinsicTarget dir item) := by
  have key : ∀ c' : Rat, c' = cffScale k item.contentFlexFraction →
      (if Num.fgt c' 0 = true then Num.fmax 1 item.flexGrow * c'
      else if Num.flt c' 0 = true then Num.fmax 1 item.flexShrink * scale k item.innerFlexBasis * c'
      else 0) =
      scale k (if Num.fgt item.contentFlexFraction 0 = true then Num.fmax 1 item.flexGrow * item.contentFlexFraction
        else if Num.flt item.contentFlexFraction 0 = true then
          Num.fmax 1 item.flexShrink * item.innerFlexBasis * item.contentFlexFraction
        else 0) := by
    intro c' hc'
    simp only [fgt_def, flt_def, decide_eq_true_eq, scale_rat]
    rcases lt_trichotomy item.contentFlexFraction 0 with hc | hc | hc
    · have hnp : ¬ (0 < item.contentFlexFraction) := not_lt.2 hc.le
      have e : c' = item.contentFlexFraction := by rw [hc', cffScale, if_pos hc]
      simp only [e, if_neg hnp, if_pos hc]
      ring
    · have e : c' = 0 := by rw [hc', hc, cffScale_zero]
      rw [e, hc]
      simp only [lt_self_iff_false, if_false, mul_zero]
    · have hn : ¬ (item.contentFlexFraction < 0) := not_lt.2 hc.le
      have e : c' = k * item.contentFlexFraction := by
        rw [hc', cffScale, if_neg hn]
        rfl
      have hkc : 0 < k * item.contentFlexFraction := mul_pos hk hc
      simp only [e, if_pos hkc, if_pos hc]
      ring
  unfold intrinsicTarget
  simp only [fxi_contentFlexFraction, fxi_flexGrow, fxi_flexShrink, fxi_innerFlexBasis, fxi_flexBasis, key _ rfl,
    scale_pair, scale_fxi_mk, fxi_outerTargetSize, fxi_targetSize, add_scale, setMain_scale]
  rfl

theorem mainKnown_scale (k : Rat) (c : AlgoConstants Rat) (inner : Rat) :
    mainKnown (scale k c) (scale k inner) = scale k (mainKnown c inner) := by
  simp only [mainKnown, scale_fxk_mk, scale_simp]

theorem mainPatch_scale (k : Rat) (style : Style Rat) (c : AlgoConstants Rat) :
    mainPatch (scale k style) (scale k c) = scale k (mainPatch style c) := by
  simp only [mainPatch, scale_fxk_mk, scale_simp]

end C04
