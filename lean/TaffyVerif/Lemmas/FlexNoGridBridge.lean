/-
  OPTIONAL bridge (not an obligation): `FlexTrees.NoGrid` (Lemmas/FlexNoGrid.lean, used by the C06/C12 flexbox corollaries)
  is the same predicate as `EvalFlex.NoGrid` (Lemmas/EvalFlexTrees.lean, used by the C05/C01/C16 flexbox corollaries).
  Importing both families of modules together also shows that their declaration names do not clash.
-/
import TaffyVerif.Lemmas.FlexNoGrid
import TaffyVerif.Lemmas.EvalFlexTrees

namespace FlexTrees
variable {α : Type} [Num α]

mutual
theorem noGrid_iff : ∀ t : STree α, NoGrid t ↔ EvalFlex.NoGrid t
  | .node s c kids => by
    simp only [NoGrid, EvalFlex.NoGrid, noGridList_iff kids]
theorem noGridList_iff : ∀ ts : List (STree α), NoGridList ts ↔ EvalFlex.NoGridList ts
  | [] => by simp only [NoGridList, EvalFlex.NoGridList]
  | t :: ts => by simp only [NoGridList, EvalFlex.NoGridList, noGrid_iff t, noGridList_iff ts]
end

end FlexTrees
