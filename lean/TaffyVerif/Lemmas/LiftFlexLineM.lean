/-
  C07 lifted to the flexbox program, part 1: the main-axis projection (`FlexModel.toM` / `fromM` / `zipBack`).

  `resolve_flexible_lengths` and `distribute_remaining_free_space` run on the projection `toM dir` of the items and write
  their results back with `fromM` (`zipBack`).  Here:
    * `wframe`            the fields of `FlexItemM` neither function writes; both keep it pointwise
                          (`rfl_wframe`, `drfs_wframe`)
    * `toM_fromM`         writing back and projecting again is the identity on results with the item's own `wframe`;
                          `map_toM_zipBack`
    * what the two functions keep pointwise beyond `wframe`: `rfl_keeps` (margins, offset), `drfs_keeps` (frozen,
      violation, target sizes)
    * the projection is blind to the cross-axis updates of the later stages
-/
import TaffyVerif.Model.Flex
import TaffyVerif.Lemmas.FlexRefine

set_option linter.unusedSectionVars false
set_option linter.unusedVariables false

namespace Lift
open FlexModel FlexLine
open AbsPos (Dir.mainStart Dir.mainEnd Dir.crossStart Dir.crossEnd Dir.pMain Dir.pCross)

/-! ### geometry of the main axis -/

theorem main_setMain {β : Type} (s : Size β) (d : FlexDirection) (v : β) : (setMain s d v).main d = v := by
  unfold setMain Size.main; split <;> simp_all
theorem main_setCross {β : Type} (s : Size β) (d : FlexDirection) (v : β) : (setCross s d v).main d = s.main d := by
  unfold setCross Size.main; split <;> simp_all
theorem cross_setMain {β : Type} (s : Size β) (d : FlexDirection) (v : β) : (setMain s d v).cross d = s.cross d := by
  unfold setMain Size.cross; split <;> simp_all
theorem mainStart_setMainStart {β : Type} (r : Rect β) (d : FlexDirection) (v : β) :
    Dir.mainStart (setMainStart r d v) d = v := by
  unfold setMainStart Dir.mainStart; split <;> simp_all
theorem mainStart_setMainEnd {β : Type} (r : Rect β) (d : FlexDirection) (v : β) :
    Dir.mainStart (setMainEnd r d v) d = Dir.mainStart r d := by
  unfold setMainEnd Dir.mainStart; split <;> simp_all
theorem mainEnd_setMainEnd {β : Type} (r : Rect β) (d : FlexDirection) (v : β) :
    Dir.mainEnd (setMainEnd r d v) d = v := by
  unfold setMainEnd Dir.mainEnd; split <;> simp_all
theorem mainEnd_setMainStart {β : Type} (r : Rect β) (d : FlexDirection) (v : β) :
    Dir.mainEnd (setMainStart r d v) d = Dir.mainEnd r d := by
  unfold setMainStart Dir.mainEnd; split <;> simp_all
theorem mainStart_setCrossStart {β : Type} (r : Rect β) (d : FlexDirection) (v : β) :
    Dir.mainStart (setCrossStart r d v) d = Dir.mainStart r d := by
  unfold setCrossStart Dir.mainStart; split <;> simp_all
theorem mainStart_setCrossEnd {β : Type} (r : Rect β) (d : FlexDirection) (v : β) :
    Dir.mainStart (setCrossEnd r d v) d = Dir.mainStart r d := by
  unfold setCrossEnd Dir.mainStart; split <;> simp_all
theorem mainEnd_setCrossStart {β : Type} (r : Rect β) (d : FlexDirection) (v : β) :
    Dir.mainEnd (setCrossStart r d v) d = Dir.mainEnd r d := by
  unfold setCrossStart Dir.mainEnd; split <;> simp_all
theorem mainEnd_setCrossEnd {β : Type} (r : Rect β) (d : FlexDirection) (v : β) :
    Dir.mainEnd (setCrossEnd r d v) d = Dir.mainEnd r d := by
  unfold setCrossEnd Dir.mainEnd; split <;> simp_all

/-- `margin.main_axis_sum(dir)` = main start + main end -/
theorem mainAxisSum_eq (r : Rect Rat) (d : FlexDirection) : r.mainAxisSum d = Dir.mainStart r d + Dir.mainEnd r d := by
  unfold Rect.mainAxisSum Dir.mainStart Dir.mainEnd Rect.horizontalAxisSum Rect.verticalAxisSum
  split <;> rfl

/-! ### the fields neither main-axis function writes -/

/-- everything but `frozen`, `violation`, the target sizes, the margins and the offset -/
def wframe (c : FlexItemM Rat) : FlexItemM Rat :=
  { c with frozen := false, violation := 0, targetMain := 0, outerTargetMain := 0, marginStart := 0, marginEnd := 0,
           offsetMain := 0 }

/-- what `resolve_flexible_lengths` keeps: `wframe`, the margins and the offset -/
def sframe (c : FlexItemM Rat) : FlexItemM Rat :=
  { c with frozen := false, violation := 0, targetMain := 0, outerTargetMain := 0 }

/-- what `distribute_remaining_free_space` keeps: `wframe`, `frozen`, `violation` and the target sizes -/
def dframe (c : FlexItemM Rat) : FlexItemM Rat :=
  { c with marginStart := 0, marginEnd := 0, offsetMain := 0 }

theorem wframe_of_sframe {c c' : FlexItemM Rat} (h : sframe c' = sframe c) : wframe c' = wframe c := by
  have := congrArg dframe h
  exact this
theorem wframe_of_dframe {c c' : FlexItemM Rat} (h : dframe c' = dframe c) : wframe c' = wframe c := by
  have := congrArg sframe h
  exact this

theorem sframe_initFreeze (a b d : Bool) (c : FlexItemM Rat) : sframe (initFreeze a b d c) = sframe c := by
  unfold initFreeze
  simp only
  split <;> rfl

theorem sframe_mStep (k : RflCtx Rat) (items : List (FlexItemM Rat)) (c : FlexItemM Rat) :
    sframe (mStep k items c) = sframe c := by
  unfold mStep freezeItem clampItem
  split
  · rfl
  · split
    · rfl
    · split <;> rfl

theorem map_sframe_iter (k : RflCtx Rat) (items : List (FlexItemM Rat)) :
    (iter k items).map sframe = items.map sframe := by
  rw [iter_eq_map, List.map_map]
  exact List.map_congr_left fun c _ => sframe_mStep k items c

theorem map_sframe_loop (k : RflCtx Rat) : ∀ (fuel : Nat) (items r : List (FlexItemM Rat)),
    loop k fuel items = some r → r.map sframe = items.map sframe
  | 0, items, r, h => by
    unfold loop at h
    split at h
    · cases h; rfl
    · cases h
  | fuel + 1, items, r, h => by
    unfold loop at h
    split at h
    · cases h; rfl
    · rw [map_sframe_loop k fuel _ r h, map_sframe_iter]

/-- **`resolve_flexible_lengths` keeps everything but `frozen`, `violation` and the target sizes**, item by item -/
theorem rfl_sframe (items : List (FlexItemM Rat)) (inner : Option Rat) (gap : Rat) (fuel : Nat) (r : List (FlexItemM Rat))
    (h : resolveFlexibleLengths items inner gap fuel = some r) : r.map sframe = items.map sframe := by
  unfold resolveFlexibleLengths at h
  simp only at h
  have e : ∀ a b d, (items.map (initFreeze a b d)).map sframe = items.map sframe := by
    intro a b d
    rw [List.map_map]
    exact List.map_congr_left fun c _ => sframe_initFreeze a b d c
  split at h
  · cases h; exact e _ _ _
  · rw [map_sframe_loop _ _ _ r h]; exact e _ _ _

theorem dframe_justifyForward (f : Bool → Rat) : ∀ l : List (FlexItemM Rat),
    (justifyForward f l).map dframe = l.map dframe
  | [] => rfl
  | c :: rest => by
    simp only [justifyForward, List.map_cons, List.map_map]
    refine congrArg₂ _ rfl ?_
    exact List.map_congr_left fun c _ => rfl

/-- **`distribute_remaining_free_space` keeps everything but the margins and the offset**, item by item -/
theorem drfs_dframe (items : List (FlexItemM Rat)) (inner gap : Rat) (jc : Option AlignContent) (dir : FlexDirection) :
    (distributeRemainingFreeSpace items inner gap jc dir).map dframe = items.map dframe := by
  unfold distributeRemainingFreeSpace
  simp only
  split
  · rw [List.map_map]
    exact List.map_congr_left fun c _ => rfl
  · split
    · rw [List.map_reverse, dframe_justifyForward, List.map_reverse, List.reverse_reverse]
    · exact dframe_justifyForward _ _

theorem length_of_map_eq {β γ δ : Type} {f : β → δ} {g : γ → δ} {l : List β} {l' : List γ} (h : l.map f = l'.map g) :
    l.length = l'.length := by
  have := congrArg List.length h
  simpa using this

theorem drfs_length (items : List (FlexItemM Rat)) (inner gap : Rat) (jc : Option AlignContent) (dir : FlexDirection) :
    (distributeRemainingFreeSpace items inner gap jc dir).length = items.length :=
  length_of_map_eq (drfs_dframe items inner gap jc dir)

/-! ### writing back and projecting again -/

theorem toM_fromM (dir : FlexDirection) (i : FlexItem Rat) (m : FlexItemM Rat) (h : wframe m = wframe (toM dir i)) :
    toM dir (fromM dir i m) = m := by
  obtain ⟨a1, a2, a3, a4, a5, a6, a7, a8, a9, a10, a11, a12, a13, a14, a15, a16, a17, a18, a19⟩ := m
  simp only [wframe, toM, FlexItemM.mk.injEq, true_and, and_true] at h
  obtain ⟨h1, h2, h3, h4, h5, h6, h7, h8, h11, h12, h13, h14⟩ := h
  simp only [toM, fromM, main_setMain, mainStart_setMainEnd, mainStart_setMainStart, mainEnd_setMainEnd,
    FlexItemM.mk.injEq, true_and, and_true]
  exact ⟨h1.symm, h2.symm, h3.symm, h4.symm, h5.symm, h6.symm, h7.symm, h8.symm, h11.symm, h12.symm, h13.symm, h14.symm⟩

theorem map_toM_zipBack (dir : FlexDirection) : ∀ (is : List (FlexItem Rat)) (ms : List (FlexItemM Rat)),
    ms.map wframe = is.map (fun i => wframe (toM dir i)) → (zipBack dir is ms).map (toM dir) = ms
  | [], [], _ => rfl
  | [], _ :: _, h => by simp at h
  | _ :: _, [], h => by simp at h
  | i :: is, m :: ms, h => by
    simp only [List.map_cons, List.cons.injEq] at h
    simp only [zipBack, List.map_cons, toM_fromM dir i m h.1, map_toM_zipBack dir is ms h.2]

/-- the fields of the full item that `fromM` does not touch -/
theorem fromM_other (dir : FlexDirection) (i : FlexItem Rat) (m : FlexItemM Rat) :
    (fromM dir i m).nodeIdx = i.nodeIdx ∧ (fromM dir i m).inset = i.inset ∧ (fromM dir i m).padding = i.padding ∧
    (fromM dir i m).border = i.border ∧ (fromM dir i m).maxSize = i.maxSize ∧ (fromM dir i m).minSize = i.minSize ∧
    (fromM dir i m).size = i.size ∧ (fromM dir i m).flexGrow = i.flexGrow ∧ (fromM dir i m).flexShrink = i.flexShrink :=
  ⟨rfl, rfl, rfl, rfl, rfl, rfl, rfl, rfl, rfl⟩

/-! ### the later stages do not touch the projection -/

theorem toM_usedCrossItem (k : AlgoConstants Rat) (lcs : Rat) (st : Style Rat) (c : FlexItem Rat) :
    toM k.dir (usedCrossItem k lcs st c) = toM k.dir c := by
  simp only [toM, usedCrossItem, main_setCross]

theorem toM_crossAutoMarginItem (k : AlgoConstants Rat) (a b : Rat) (c : FlexItem Rat) :
    toM k.dir (crossAutoMarginItem k a b c) = toM k.dir c := by
  unfold crossAutoMarginItem
  simp only
  split
  · simp only [toM, mainStart_setCrossEnd, mainStart_setCrossStart, mainEnd_setCrossEnd, mainEnd_setCrossStart]
  · split
    · simp only [toM, mainStart_setCrossStart, mainEnd_setCrossStart]
    · split
      · simp only [toM, mainStart_setCrossEnd, mainEnd_setCrossEnd]
      · rfl

end Lift
