/-
  A layout pass (`Model/DirtyPass.lean`) changes cache flags only: the skeleton of the rose tree — the `display:none`
  flag of every node and the shape — is the same before and after, for every fuel, mode and choice stream.
  (Needed to write the result of a pass back into the flat state: `Props/C15Link.lean`.)  No Mathlib.
-/
import TaffyVerif.Model.DirtyPass

namespace DirtyPass

mutual
/-- forget the cache flags -/
def skel : FT → FT
  | .node h _ _ kids => .node h false false (skelList kids)
def skelList : List FT → List FT
  | [] => []
  | t :: ts => skel t :: skelList ts
end

mutual
theorem skel_hvisit : ∀ t, skel (hvisit t) = skel t
  | .node h f m kids => by simp only [hvisit, skel]; rw [skelList_hvisitList kids]
theorem skelList_hvisitList : ∀ l, skelList (hvisitList l) = skelList l
  | [] => rfl
  | t :: ts => by simp only [hvisitList, skelList]; rw [skel_hvisit t, skelList_hvisitList ts]
end

theorem skel_store (m : Mode) (t : FT) : skel (store m t) = skel t := by
  cases t; cases m <;> rfl

/-- the contract: a visit function keeps the skeleton -/
def SkelGood (visitF : Mode → FT → List Choice → FT × List Choice) : Prop :=
  ∀ m t cs, skel (visitF m t cs).1 = skel t

theorem skelList_set : ∀ (l : List FT) (i : Nat) (k k' : FT), l[i]? = some k → skel k' = skel k →
    skelList (l.set i k') = skelList l
  | [], _, _, _, h, _ => by simp at h
  | a :: as, 0, k, k', h, hk => by
    simp only [List.getElem?_cons_zero, Option.some.injEq] at h
    subst h
    simp only [List.set_cons_zero, skelList, hk]
  | a :: as, i + 1, k, k', h, hk => by
    simp only [List.getElem?_cons_succ] at h
    simp only [List.set_cons_succ, skelList, skelList_set as i k k' h hk]

theorem steps_skel (visitF : Mode → FT → List Choice → FT × List Choice) (hg : SkelGood visitF) :
    ∀ (n : Nat) (cs : List Choice), cs.length ≤ n → ∀ (kids : List FT),
      skelList (steps visitF kids cs).1 = skelList kids := by
  intro n
  induction n with
  | zero =>
    intro cs hl kids
    cases cs with
    | nil => unfold steps; rfl
    | cons c cs => simp at hl
  | succ n ih =>
    intro cs hl kids
    cases cs with
    | nil => unfold steps; rfl
    | cons c cs =>
      have hlen : cs.length ≤ n := by simp at hl; omega
      cases c with
      | hit => unfold steps; rfl
      | miss => unfold steps; rfl
      | done => unfold steps; rfl
      | step i m =>
        unfold steps
        cases hk : kids[i]? with
        | none => exact ih cs hlen kids
        | some k =>
          simp only
          split
          · exact ih cs hlen kids
          · have hs := skelList_set kids i k (visitF m k cs).1 hk (hg m k cs)
            split
            · rename_i hle
              rw [ih (visitF m k cs).2 (by omega) _, hs]
            · exact hs

theorem visitAllL_skel (visitF : Mode → FT → List Choice → FT × List Choice) (hg : SkelGood visitF) :
    ∀ (kids : List FT) (cs : List Choice), skelList (visitAllL visitF kids cs).1 = skelList kids
  | [], _ => rfl
  | k :: ks, cs => by
    simp only [visitAllL, skelList]
    rw [hg .L k cs, visitAllL_skel visitF hg ks _]

theorem recompute_skel (visitF : Mode → FT → List Choice → FT × List Choice) (hg : SkelGood visitF)
    (m : Mode) (kids : List FT) (cs : List Choice) : skelList (recompute visitF m kids cs).1 = skelList kids := by
  unfold recompute
  simp only
  rw [steps_skel visitF hg _ _ (Nat.le_refl _)]
  cases m with
  | S => simp only [finalPhase]; exact steps_skel visitF hg _ _ (Nat.le_refl _) kids
  | L =>
    simp only [finalPhase]
    rw [visitAllL_skel visitF hg, steps_skel visitF hg _ _ (Nat.le_refl _)]

theorem visit_skel : ∀ fuel, SkelGood (visit fuel) := by
  intro fuel
  induction fuel with
  | zero => intro m t cs; rfl
  | succ fuel ih =>
    intro m t cs
    unfold visit
    split
    · rfl
    · cases t with
      | node h f ms kids =>
        cases h with
        | true =>
          simp only
          rw [skel_store]
          simp only [skel, skelList_hvisitList]
        | false =>
          simp only
          rw [skel_store]
          simp only [skel, recompute_skel (visit fuel) ih]

/-- **a pass keeps the skeleton** -/
theorem pass_skel (t : FT) (cs : List Choice) : skel (pass t cs) = skel t := visit_skel _ _ _ _

end DirtyPass
