/-
  Helper lemmas about Model/GridPlacement.lean, part 1: the outcome monad, checked integers, the line-resolution
  functions, what the three search loops return, and an induction principle over `place_grid_items`.
-/
import TaffyVerif.Model.GridPlacement

set_option linter.unusedSimpArgs false
set_option linter.unusedVariables false

namespace GridPlacement
open Outcome

/-! ### the outcome monad -/

@[simp] theorem pure_eq {α : Type} (a : α) : (pure a : Outcome α) = .ok a := rfl
@[simp] theorem bind_eq {α β : Type} (x : Outcome α) (f : α → Outcome β) : (x >>= f) = x.bind f := rfl
@[simp] theorem ok_bind {α β : Type} (a : α) (f : α → Outcome β) : (Outcome.ok a).bind f = f a := rfl

theorem bind_eq_ok {α β : Type} {x : Outcome α} {f : α → Outcome β} {b : β} :
    x.bind f = .ok b ↔ ∃ a, x = .ok a ∧ f a = .ok b := by
  cases x <;> simp [Outcome.bind]

/-! ### checked integers -/

theorem i16_eq_ok {x y : Int} : i16 x = .ok y ↔ (y = x ∧ -32768 ≤ x ∧ x ≤ 32767) := by
  unfold i16 i16Min i16Max
  split <;> simp_all <;> omega

theorem u16_eq_ok {x y : Int} : u16 x = .ok y ↔ (y = x ∧ 0 ≤ x ∧ x ≤ 65535) := by
  unfold u16 u16Max
  split <;> simp_all <;> omega

theorem usize_eq_ok {x y : Int} : usize x = .ok y ↔ (y = x ∧ 0 ≤ x ∧ x ≤ 18446744073709551615) := by
  unfold usize usizeMax
  split <;> simp_all <;> omega

theorem ozAdd_eq_ok {l n r : Int} :
    ozAdd l n = .ok r ↔ (r = l + n ∧ -32768 ≤ n ∧ n ≤ 32767 ∧ -32768 ≤ l + n ∧ l + n ≤ 32767) := by
  simp only [ozAdd, bind_eq, bind_eq_ok, i16_eq_ok]
  constructor
  · rintro ⟨a, ⟨rfl, h1, h2⟩, rfl, h3, h4⟩; omega
  · rintro ⟨rfl, h1, h2, h3, h4⟩; exact ⟨n, ⟨rfl, h1, h2⟩, rfl, h3, h4⟩

theorem ozSub_eq_ok {l n r : Int} :
    ozSub l n = .ok r ↔ (r = l - n ∧ -32768 ≤ n ∧ n ≤ 32767 ∧ -32768 ≤ l - n ∧ l - n ≤ 32767) := by
  simp only [ozSub, bind_eq, bind_eq_ok, i16_eq_ok]
  constructor
  · rintro ⟨a, ⟨rfl, h1, h2⟩, rfl, h3, h4⟩; omega
  · rintro ⟨rfl, h1, h2, h3, h4⟩; exact ⟨n, ⟨rfl, h1, h2⟩, rfl, h3, h4⟩

/-! ### placements -/

/-- spans of origin-zero placements are ≥ 1 (`span.max(1)` in `into_origin_zero_placement`) -/
def SpanPos : Placement → Prop
  | .span s => 1 ≤ s
  | _ => True

def OzWF (l : Line Placement) : Prop := SpanPos l.start ∧ SpanPos l.«end»

def Placement.isLine : Placement → Bool
  | .line _ => true
  | _ => false

theorem intoOriginZeroPlacement_spec {p oz : Placement} {e : Int} (h : intoOriginZeroPlacement p e = .ok oz) :
    SpanPos oz ∧ oz.isLine = isNonzeroLine p := by
  cases p with
  | auto => simp only [intoOriginZeroPlacement, pure_eq] at h; cases h; simp [SpanPos, isNonzeroLine, Placement.isLine]
  | span s =>
    simp only [intoOriginZeroPlacement, pure_eq] at h; cases h
    refine ⟨?_, by simp [isNonzeroLine, Placement.isLine]⟩
    show 1 ≤ max s 1; omega
  | line l =>
    simp only [intoOriginZeroPlacement] at h
    split at h
    · simp only [pure_eq] at h; cases h; simp_all [SpanPos, isNonzeroLine, Placement.isLine]
    · simp only [bind_eq, bind_eq_ok, pure_eq] at h
      obtain ⟨a, _, h⟩ := h
      cases h; simp_all [SpanPos, isNonzeroLine, Placement.isLine]

theorem intoOriginZero_spec {l oz : Line Placement} {e : Int} (h : intoOriginZero l e = .ok oz) :
    OzWF oz ∧ isDefiniteOz oz = isDefiniteRaw l := by
  simp only [intoOriginZero, bind_eq, bind_eq_ok, pure_eq] at h
  obtain ⟨s, hs, en, he, h⟩ := h
  cases h
  have h1 := intoOriginZeroPlacement_spec hs
  have h2 := intoOriginZeroPlacement_spec he
  refine ⟨⟨h1.1, h2.1⟩, ?_⟩
  simp only [isDefiniteRaw, ← h1.2, ← h2.2, isDefiniteOz]
  cases s <;> cases en <;> rfl

/-- what a style asks of one axis, on the origin-zero placement -/
def AxisOK (oz : Line Placement) (a : Line Int) : Prop :=
  (isDefiniteOz oz = true ∧ resolveDefiniteGridLines oz = .ok a) ∨
  (isDefiniteOz oz = false ∧ indefiniteSpan oz = .ok (a.«end» - a.start))

theorem axisHonoured_iff {pl : Line Placement} {e : Int} {a : Line Int} :
    axisHonoured pl e a = true ↔ ∃ oz, intoOriginZero pl e = .ok oz ∧ AxisOK oz a := by
  unfold axisHonoured AxisOK
  cases hoz : intoOriginZero pl e with
  | ok oz =>
    simp only [Outcome.ok.injEq, exists_eq_left']
    by_cases hd : isDefiniteOz oz = true
    · simp [hd]
    · simp [hd]
  | panic m => simp
  | overflow => simp
  | outOfFuel => simp

theorem resolveDefinite_isDefinite {oz : Line Placement} {a : Line Int} (h : resolveDefiniteGridLines oz = .ok a) :
    isDefiniteOz oz = true := by
  obtain ⟨st, en⟩ := oz
  cases st <;> cases en <;> simp_all [resolveDefiniteGridLines, isDefiniteOz]

theorem resolveDefinite_lt {oz : Line Placement} {a : Line Int} (wf : OzWF oz)
    (h : resolveDefiniteGridLines oz = .ok a) : a.start < a.«end» := by
  obtain ⟨st, en⟩ := oz
  obtain ⟨w1, w2⟩ := wf
  cases st <;> cases en <;>
    simp only [resolveDefiniteGridLines, bind_eq, bind_eq_ok, pure_eq, ozAdd_eq_ok, ozSub_eq_ok, SpanPos] at h w1 w2
  all_goals first
    | (obtain ⟨e, ⟨rfl, _⟩, h⟩ := h; cases h; dsimp only; omega)
    | (split at h
       · simp only [bind_eq, bind_eq_ok, pure_eq, ozAdd_eq_ok] at h
         obtain ⟨e, ⟨rfl, _⟩, h⟩ := h; cases h; dsimp only; omega
       · cases h; dsimp only; omega)
    | (cases h; done)

theorem indefiniteSpan_pos {oz : Line Placement} {s : Int} (wf : OzWF oz) (h : indefiniteSpan oz = .ok s) : 1 ≤ s := by
  obtain ⟨st, en⟩ := oz
  obtain ⟨w1, w2⟩ := wf
  cases st <;> cases en <;> simp_all [indefiniteSpan, SpanPos] <;> omega

theorem resolveIndefinite_spec {oz : Line Placement} {p : Int} {a : Line Int}
    (h : resolveIndefiniteGridTracks oz p = .ok a) :
    a.start = p ∧ isDefiniteOz oz = false ∧ indefiniteSpan oz = .ok (a.«end» - a.start) := by
  obtain ⟨st, en⟩ := oz
  cases st <;> cases en <;>
    simp only [resolveIndefiniteGridTracks, bind_eq, bind_eq_ok, pure_eq, ozAdd_eq_ok] at h
  all_goals first
    | (obtain ⟨e, ⟨rfl, _⟩, h⟩ := h
       cases h
       refine ⟨rfl, rfl, ?_⟩
       simp only [indefiniteSpan, pure_eq]
       congr 1; omega)
    | (cases h; done)

theorem axisOK_lt {oz : Line Placement} {a : Line Int} (wf : OzWF oz) (h : AxisOK oz a) : a.start < a.«end» := by
  rcases h with ⟨_, h⟩ | ⟨_, h⟩
  · exact resolveDefinite_lt wf h
  · have := indefiniteSpan_pos wf h; omega

/-! ### what the search loops return -/

theorem searchSecondary_spec {m : Matrix} {ax : Axis} {pl : Line Placement} {sec : Line Int} :
    ∀ {fuel : Nat} {pos : Int} {p s : Line Int}, searchSecondary m ax pl sec fuel pos = .ok (p, s) →
      s = sec ∧ pos ≤ p.start ∧ isDefiniteOz pl = false ∧ indefiniteSpan pl = .ok (p.«end» - p.start) ∧
      m.lineAreaIsUnoccupied ax p s = .ok true := by
  intro fuel
  induction fuel with
  | zero => intro pos p s h; cases h
  | succ n ih =>
    intro pos p s h
    simp only [searchSecondary, bind_eq, bind_eq_ok] at h
    obtain ⟨prim, h1, fits, h2, h3⟩ := h
    split at h3
    · cases h3
      obtain ⟨a1, a2, a3⟩ := resolveIndefinite_spec h1
      rename_i hf; subst hf
      exact ⟨rfl, by omega, a2, a3, h2⟩
    · simp only [bind_eq, bind_eq_ok, ozAdd_eq_ok] at h3
      obtain ⟨pos', ⟨rfl, _⟩, h3⟩ := h3
      obtain ⟨b1, b2, b3⟩ := ih h3
      exact ⟨b1, by omega, b3⟩

theorem searchFixedPrimary_spec {m : Matrix} {ax : Axis} {prim : Line Int} {span : Int} :
    ∀ {fuel : Nat} {idx : Int} {p s : Line Int}, searchFixedPrimary m ax prim span fuel idx = .ok (p, s) →
      p = prim ∧ idx ≤ s.start ∧ s.«end» - s.start = span ∧ m.lineAreaIsUnoccupied ax p s = .ok true := by
  intro fuel
  induction fuel with
  | zero => intro idx p s h; cases h
  | succ n ih =>
    intro idx p s h
    simp only [searchFixedPrimary, bind_eq, bind_eq_ok, ozAdd_eq_ok] at h
    obtain ⟨e, ⟨rfl, _⟩, free, h2, h3⟩ := h
    split at h3
    · simp only [bind_eq, bind_eq_ok, ozAdd_eq_ok] at h3
      obtain ⟨s', ⟨rfl, _⟩, h3⟩ := h3
      obtain ⟨b1, b2, b3⟩ := ih h3
      exact ⟨b1, by omega, b3⟩
    · cases h3
      rename_i hf
      simp only [Bool.not_eq_true', Bool.not_eq_false] at hf
      subst hf
      exact ⟨rfl, by show idx ≤ idx; omega, by show idx + span - idx = span; omega, h2⟩

theorem searchBoth_spec {m : Matrix} {ax : Axis} {pspan sspan startLine endLine : Int} :
    ∀ {fuel : Nat} {pi si : Int} {p s : Line Int},
      searchBoth m ax pspan sspan startLine endLine fuel pi si = .ok (p, s) →
      p.«end» - p.start = pspan ∧ s.«end» - s.start = sspan ∧ si ≤ s.start ∧ p.«end» ≤ endLine ∧
      m.lineAreaIsUnoccupied ax p s = .ok true := by
  intro fuel
  induction fuel with
  | zero => intro pi si p s h; cases h
  | succ n ih =>
    intro pi si p s h
    simp only [searchBoth, bind_eq, bind_eq_ok, ozAdd_eq_ok] at h
    obtain ⟨pe, ⟨rfl, _⟩, se, ⟨rfl, _⟩, h3⟩ := h
    split at h3
    · simp only [bind_eq, bind_eq_ok, ozAdd_eq_ok] at h3
      obtain ⟨s', ⟨rfl, _⟩, h3⟩ := h3
      obtain ⟨b1, b2, b3, b4⟩ := ih h3
      exact ⟨b1, b2, by omega, b4⟩
    · rename_i hle
      simp only [bind_eq, bind_eq_ok] at h3
      obtain ⟨free, h2, h3⟩ := h3
      split at h3
      · simp only [bind_eq, bind_eq_ok, ozAdd_eq_ok] at h3
        obtain ⟨p', ⟨rfl, _⟩, h3⟩ := h3
        exact ih h3
      · cases h3
        rename_i hf
        simp only [Bool.not_eq_true', Bool.not_eq_false] at hf
        subst hf
        refine ⟨by show pi + pspan - pi = pspan; omega, by show si + sspan - si = sspan; omega,
          by show si ≤ si; omega, ?_, h2⟩
        show pi + pspan ≤ endLine
        have : ¬ (pi + pspan > endLine) := hle
        omega

/-! ### the three placement functions -/

/-- `(p, s)` is a legal answer for child `c` along primary axis `ax`; auto-placed answers were found unoccupied -/
structure Placed (m : Matrix) (c : OzChild) (ax : Axis) (p s : Line Int) (kind : Cell) : Prop where
  primary : AxisOK (c.get ax) p
  secondary : AxisOK (c.get ax.other) s
  free : kind = .autoPlaced → m.lineAreaIsUnoccupied ax p s = .ok true

theorem placeDefiniteGridItem_spec {m : Matrix} {c : OzChild} {ax : Axis} {p s : Line Int}
    (h : placeDefiniteGridItem c ax = .ok (p, s)) : Placed m c ax p s .definitelyPlaced := by
  simp only [placeDefiniteGridItem, bind_eq, bind_eq_ok, pure_eq] at h
  obtain ⟨p', h1, s', h2, h3⟩ := h
  cases h3
  exact ⟨.inl ⟨resolveDefinite_isDefinite h1, h1⟩, .inl ⟨resolveDefinite_isDefinite h2, h2⟩, fun h => by cases h⟩

theorem placeDefiniteSecondaryAxisItem_spec {fuel : Nat} {m : Matrix} {c : OzChild} {flow : AutoFlow} {p s : Line Int}
    (h : placeDefiniteSecondaryAxisItem fuel m c flow = .ok (p, s)) : Placed m c flow.primaryAxis p s .autoPlaced := by
  simp only [placeDefiniteSecondaryAxisItem, bind_eq, bind_eq_ok] at h
  obtain ⟨sec, h1, startLine, _, starting, _, h4⟩ := h
  obtain ⟨rfl, _, b2, b3, b4⟩ := searchSecondary_spec h4
  exact ⟨.inr ⟨b2, b3⟩, .inl ⟨resolveDefinite_isDefinite h1, h1⟩, fun _ => b4⟩

theorem placeIndefinitelyPositionedItem_spec {fuel : Nat} {m : Matrix} {c : OzChild} {flow : AutoFlow}
    {pos : Int × Int} {p s : Line Int} (hsec : isDefiniteOz (c.get flow.primaryAxis.other) = false)
    (h : placeIndefinitelyPositionedItem fuel m c flow pos = .ok (p, s)) :
    Placed m c flow.primaryAxis p s .autoPlaced := by
  simp only [placeIndefinitelyPositionedItem, bind_eq, bind_eq_ok] at h
  obtain ⟨sspan, h1, startLine, _, endLine, _, sstart, _, h5⟩ := h
  split at h5
  · rename_i hdef
    simp only [bind_eq, bind_eq_ok] at h5
    obtain ⟨prim, h6, sidx, _, h8⟩ := h5
    obtain ⟨rfl, _, b2, b3⟩ := searchFixedPrimary_spec h8
    exact ⟨.inl ⟨hdef, h6⟩, .inr ⟨hsec, by rw [b2]; exact h1⟩, fun _ => b3⟩
  · rename_i hdef
    simp only [bind_eq, bind_eq_ok] at h5
    obtain ⟨pspan, h6, h8⟩ := h5
    obtain ⟨b1, b2, _, _, b5⟩ := searchBoth_spec h8
    exact ⟨.inr ⟨by simpa using hdef, by rw [b1]; exact h6⟩, .inr ⟨hsec, by rw [b2]; exact h1⟩, fun _ => b5⟩

/-! ### record_grid_placement -/

theorem recordGridPlacement_spec {st st' : State} {index : Nat} {ax : Axis} {p s : Line Int} {kind : Cell}
    (h : recordGridPlacement st index ax p s kind = .ok st') :
    st'.items = ⟨index, rowOf ax p s, colOf ax p s, kind == .autoPlaced⟩ :: st.items ∧
      st.matrix.markAreaAs ax p s kind = .ok st'.matrix := by
  simp only [recordGridPlacement, bind_eq, bind_eq_ok, pure_eq] at h
  obtain ⟨m', h1, _, _, h3⟩ := h
  cases h3
  exact ⟨rfl, h1⟩

/-! ### lists -/

theorem mapO_spec {α β : Type} {f : α → Outcome β} : ∀ {l : List α} {l' : List β}, mapO f l = .ok l' →
    ∀ y ∈ l', ∃ x ∈ l, f x = .ok y := by
  intro l
  induction l with
  | nil => intro l' h y hy; simp only [mapO, pure_eq] at h; cases h; cases hy
  | cons x xs ih =>
    intro l' h y hy
    simp only [mapO, bind_eq, bind_eq_ok, pure_eq] at h
    obtain ⟨y0, h1, ys, h2, h3⟩ := h
    cases h3
    rcases List.mem_cons.1 hy with rfl | hy
    · exact ⟨x, List.mem_cons_self, h1⟩
    · obtain ⟨x', hx', hf⟩ := ih h2 y hy
      exact ⟨x', List.mem_cons_of_mem _ hx', hf⟩

theorem mem_enumFrom {α : Type} : ∀ {l : List α} {n i : Nat} {x : α}, (i, x) ∈ enumFrom n l →
    n ≤ i ∧ l[i - n]? = some x := by
  intro l
  induction l with
  | nil => intro n i x h; cases h
  | cons y ys ih =>
    intro n i x h
    simp only [enumFrom, List.mem_cons, Prod.mk.injEq] at h
    rcases h with ⟨rfl, rfl⟩ | h
    · simp
    · obtain ⟨h1, h2⟩ := ih h
      refine ⟨by omega, ?_⟩
      have : i - n = (i - (n + 1)) + 1 := by omega
      rw [this]; simpa using h2

/-! ### induction over `place_grid_items` -/

/-- `c` is the origin-zero form of an in-flow child `(c.index, ch)` -/
def FromChild (ec er : Int) (children : List (Nat × Child)) (c : OzChild) (ch : Child) : Prop :=
  (c.index, ch) ∈ children ∧ intoOriginZero ch.column ec = .ok c.horizontal ∧ intoOriginZero ch.row er = .ok c.vertical

theorem toOz_spec {ec er : Int} {ic : Nat × Child} {c : OzChild} (h : toOz ec er ic = .ok c) :
    c.index = ic.1 ∧ intoOriginZero ic.2.column ec = .ok c.horizontal ∧ intoOriginZero ic.2.row er = .ok c.vertical := by
  simp only [toOz, bind_eq, bind_eq_ok, pure_eq] at h
  obtain ⟨hh, h1, v, h2, h3⟩ := h
  cases h3
  exact ⟨rfl, h1, h2⟩

theorem fromChild_of_mapO {ec er : Int} {children : List (Nat × Child)} {q : Nat × Child → Bool} {cs : List OzChild}
    (h : mapO (toOz ec er) (children.filter q) = .ok cs) :
    ∀ c ∈ cs, ∃ ch, FromChild ec er children c ch ∧ q (c.index, ch) = true := by
  intro c hc
  obtain ⟨ic, hic, hf⟩ := mapO_spec h c hc
  obtain ⟨h1, h2, h3⟩ := toOz_spec hf
  rw [List.mem_filter] at hic
  refine ⟨ic.2, ⟨?_, h2, h3⟩, ?_⟩
  · rw [h1]; exact hic.1
  · rw [h1]; exact hic.2

theorem get_isDefiniteOz_of_raw {ec er : Int} {children : List (Nat × Child)} {c : OzChild} {ch : Child}
    (h : FromChild ec er children c ch) (ax : Axis) : isDefiniteOz (c.get ax) = isDefiniteRaw (ch.gridPlacement ax) := by
  cases ax
  · exact (intoOriginZero_spec h.2.1).2
  · exact (intoOriginZero_spec h.2.2).2

/-- **Induction principle**: a state predicate that holds initially and is preserved by every
`record_grid_placement` of a legally placed child holds for the final state of `place_grid_items`.
`hrec` may use that definitely placed items (phase 1) are only recorded while no auto-placed item exists. -/
theorem place_induction (P : State → Prop) {fuel : Nat} {m : Matrix} {children : List (Nat × Child)}
    {flow : AutoFlow} {final : State}
    (h : placeGridItems fuel m children flow = .ok final)
    (h0 : P ⟨m, []⟩)
    (hrec : ∀ (st st' : State) (c : OzChild) (ch : Child) (p s : Line Int) (kind : Cell),
      P st → FromChild m.columns.explicit m.rows.explicit children c ch →
      Placed st.matrix c flow.primaryAxis p s kind →
      (kind = .definitelyPlaced ∨ kind = .autoPlaced) →
      (kind == .autoPlaced) = isAutoPlaced ch →
      (kind = .definitelyPlaced → ∀ it ∈ st.items, it.auto = false) →
      recordGridPlacement st c.index flow.primaryAxis p s kind = .ok st' → P st') :
    P final := by
  simp only [placeGridItems, bind_eq, bind_eq_ok] at h
  obtain ⟨cs1, hm1, st1, hp1, cs2, hm2, st2, hp2, pn, _, sn, _, ps, _, ss, _, cs4, hm4, hp4⟩ := h
  -- phase 1
  have e1 : ∀ (cs : List OzChild) (st st' : State),
      (∀ c ∈ cs, ∃ ch, FromChild m.columns.explicit m.rows.explicit children c ch ∧ isAutoPlaced ch = false) →
      P st → (∀ it ∈ st.items, it.auto = false) → phase1 flow.primaryAxis st cs = .ok st' → P st' := by
    intro cs
    induction cs with
    | nil => intro st st' _ hP _ h; simp only [phase1, pure_eq] at h; cases h; exact hP
    | cons c cs ih =>
      intro st st' hcs hP hdef h
      simp only [phase1, bind_eq, bind_eq_ok] at h
      obtain ⟨⟨p, s⟩, h1, st1, h2, h3⟩ := h
      obtain ⟨ch, hch, hauto⟩ := hcs c List.mem_cons_self
      have hP1 := hrec st st1 c ch p s .definitelyPlaced hP hch (placeDefiniteGridItem_spec h1) (.inl rfl)
        (by rw [hauto]; rfl) (fun _ => hdef) h2
      obtain ⟨hit, _⟩ := recordGridPlacement_spec h2
      refine ih st1 st' (fun c' hc' => hcs c' (List.mem_cons_of_mem _ hc')) hP1 ?_ h3
      intro it' hit'
      rw [hit] at hit'
      rcases List.mem_cons.1 hit' with rfl | hit'
      · rfl
      · exact hdef it' hit'
  have P1 : P st1 := e1 cs1 _ _ (fun c hc => by
    obtain ⟨ch, h, hq⟩ := fromChild_of_mapO hm1 c hc
    refine ⟨ch, h, ?_⟩
    simp only [isPhase1] at hq
    simp [isAutoPlaced, hq]) h0 (fun _ h => by cases h) hp1
  -- phase 2
  have e2 : ∀ (cs : List OzChild) (st st' : State),
      (∀ c ∈ cs, ∃ ch, FromChild m.columns.explicit m.rows.explicit children c ch ∧ isAutoPlaced ch = true) →
      P st → phase2 fuel flow st cs = .ok st' → P st' := by
    intro cs
    induction cs with
    | nil => intro st st' _ hP h; simp only [phase2, pure_eq] at h; cases h; exact hP
    | cons c cs ih =>
      intro st st' hcs hP h
      simp only [phase2, bind_eq, bind_eq_ok] at h
      obtain ⟨⟨p, s⟩, h1, st1, h2, h3⟩ := h
      obtain ⟨ch, hch, hauto⟩ := hcs c List.mem_cons_self
      have hP1 := hrec st st1 c ch p s .autoPlaced hP hch (placeDefiniteSecondaryAxisItem_spec h1) (.inr rfl)
        (by rw [hauto]; rfl) (fun h => by cases h) h2
      exact ih st1 st' (fun c' hc' => hcs c' (List.mem_cons_of_mem _ hc')) hP1 h3
  have P2 : P st2 := e2 cs2 _ _ (fun c hc => by
    obtain ⟨ch, h, hq⟩ := fromChild_of_mapO hm2 c hc
    refine ⟨ch, h, ?_⟩
    simp only [isPhase2, Bool.and_eq_true, Bool.not_eq_true'] at hq
    cases hax : flow.primaryAxis <;> rw [hax] at hq <;>
      simp only [Axis.other, Child.gridPlacement] at hq <;> simp [isAutoPlaced, hq.1, hq.2]) P1 hp2
  -- phase 4
  have e4 : ∀ (cs : List OzChild) (st st' : State) (pos : Int × Int),
      (∀ c ∈ cs, ∃ ch, FromChild m.columns.explicit m.rows.explicit children c ch ∧
        isDefiniteOz (c.get flow.primaryAxis.other) = false ∧ isAutoPlaced ch = true) →
      P st → phase4 fuel flow (ps, ss) st pos cs = .ok st' → P st' := by
    intro cs
    induction cs with
    | nil => intro st st' pos _ hP h; simp only [phase4, pure_eq] at h; cases h; exact hP
    | cons c cs ih =>
      intro st st' pos hcs hP h
      simp only [phase4, bind_eq, bind_eq_ok] at h
      obtain ⟨⟨p, s⟩, h1, st1, h2, h3⟩ := h
      obtain ⟨ch, hch, hsec, hauto⟩ := hcs c List.mem_cons_self
      have hP1 := hrec st st1 c ch p s .autoPlaced hP hch (placeIndefinitelyPositionedItem_spec hsec h1) (.inr rfl)
        (by rw [hauto]; rfl) (fun h => by cases h) h2
      exact ih st1 st' _ (fun c' hc' => hcs c' (List.mem_cons_of_mem _ hc')) hP1 h3
  refine e4 cs4 _ _ _ (fun c hc => ?_) P2 hp4
  obtain ⟨ch, h, hq⟩ := fromChild_of_mapO hm4 c hc
  have hq' : isDefiniteRaw (ch.gridPlacement flow.primaryAxis.other) = false := by simpa [isPhase4] using hq
  refine ⟨ch, h, ?_, ?_⟩
  · rw [get_isDefiniteOz_of_raw h]; exact hq'
  · cases hax : flow.primaryAxis <;> rw [hax] at hq' <;>
      simp only [Axis.other, Child.gridPlacement] at hq' <;> simp [isAutoPlaced, hq']

end GridPlacement
