/-
  C06 for grid at the tree level, second part: grid containers that cannot panic.

  `AlgAbsBlind gridAlg` is false only because the checked i16 arithmetic on the grid lines of an absolutely positioned
  child can panic (Props/EvalGridAbs.lean, `grid_not_AbsBlind`).  On runs that cannot panic `gridAlg` is blind
  (`GridAbs.gridAlg_absEquiv_noErr`), whatever the lines.  To use the evaluator-level theorem, which asks for a
  container algorithm that is blind on ALL child-style lists:

    * `gridAlgC` = `gridAlg` wherever it cannot panic (for this style, these child styles, this input), `gridAlgN`
      (the lines of absolutely positioned children reset to `auto`) elsewhere.  It IS `AlgAbsBlind`
      (`gridAlgC_AbsBlind`; the mixed cases are `gridAlg_absEquiv_autoR` / `_autoL`: the run that cannot panic against
      the run of the other list with `auto` lines, in which the resolution of the lines cannot panic);
    * `GridAbsCalm t`: every grid container of the tree (outside `display:none` subtrees) cannot panic, or all its
      absolutely positioned children have `auto` lines.  On such a tree the evaluator with `gridAlg` and the evaluator
      with `gridAlgC` coincide (`GridAbsCalm_agree`).  `EvalGrid.GridCalm` (decidable sufficient condition
      `EvalGrid.gridCalmB`) and `GridAbsAuto` both imply `GridAbsCalm`.
-/
import TaffyVerif.Lemmas.GridAbsTrees
import TaffyVerif.Lemmas.EvalGridSafe4

set_option linter.unusedSectionVars false
set_option linter.unusedVariables false

namespace GridAbs
open GridModel Eval EvalBlock C06 Gen.Facts GridRel
variable {α : Type} [Num α] [GridTracks.NumCast α] {C : Type}

/-! ### `NoErr` (Lemmas/GridBoxRel.lean) is `EvalGrid.NoPanic` -/

theorem noErr_iff_post {β : Type} (p : ProgM α (Except String β)) :
    NoErr p ↔ EvalBlock.Post (fun r => ∃ b, r = .ok b) p := by
  induction p with
  | pure r => exact Iff.rfl
  | call i inp k ih => exact forall_congr' fun o => ih o
  | setLayout i l k ih => exact ih ()

theorem noErr_iff_noPanic {β : Type} (p : GM α β) : NoErr p.run ↔ EvalGrid.NoPanic p := noErr_iff_post _

/-! ### `normAbs` on one side -/

theorem absAutoLines_normAbs (cs : List (Style α)) : AbsAutoLines (cs.map normAbs) := by
  intro s hs hv
  obtain ⟨s0, _, rfl⟩ := List.mem_map.1 hs
  have hv0 := (normAbs_absVis s0).1 hv
  unfold normAbs
  rw [if_pos hv0]
  exact ⟨rfl, rfl⟩

theorem agreeA_normAbs_right : ∀ (xs ys : List (Style α)), AgreeA xs ys → AgreeA xs (ys.map normAbs)
  | [], [], _ => trivial
  | [], _ :: _, h => by simp only [AgreeA] at h
  | _ :: _, [], h => by simp only [AgreeA] at h
  | x :: xs, y :: ys, h => by
    simp only [AgreeA] at h
    simp only [List.map_cons, AgreeA]
    refine ⟨?_, agreeA_normAbs_right xs ys h.2⟩
    rcases h.1 with ⟨hx, hy⟩ | ⟨hx, rfl⟩
    · exact Or.inl ⟨hx, (normAbs_absVis y).2 hy⟩
    · exact Or.inr ⟨hx, (normAbs_of_not hx).symm⟩

theorem agreeA_normAbs_left : ∀ (xs ys : List (Style α)), AgreeA xs ys → AgreeA (xs.map normAbs) ys
  | [], [], _ => trivial
  | [], _ :: _, h => by simp only [AgreeA] at h
  | _ :: _, [], h => by simp only [AgreeA] at h
  | x :: xs, y :: ys, h => by
    simp only [AgreeA] at h
    simp only [List.map_cons, AgreeA]
    refine ⟨?_, agreeA_normAbs_left xs ys h.2⟩
    rcases h.1 with ⟨hx, hy⟩ | ⟨hx, rfl⟩
    · exact Or.inl ⟨(normAbs_absVis x).2 hx, hy⟩
    · exact Or.inr ⟨fun hv => hx ((normAbs_absVis x).1 hv), normAbs_of_not hx⟩

/-! ### the stand-in -/

/-- this run of the grid container cannot panic, whatever its children answer -/
abbrev RunNoErr (s : Style α) (cs : List (Style α)) (inp : LayoutInput α) : Prop :=
  NoErr (computeGridLayoutE (GridStyle.ofStyle s) (cs.map GridChildStyle.ofStyle) inp).run

open Classical in
/-- `compute_grid_layout` wherever it cannot panic; with the grid lines of absolutely positioned children reset to `auto`
elsewhere -/
noncomputable def gridAlgC (s : Style α) (cs : List (Style α)) (inp : LayoutInput α) : ProgM α (LayoutOutput α) :=
  if RunNoErr s cs inp then gridAlg s cs inp else gridAlgN s cs inp

/-- **gridAlgC_AbsBlind**: the stand-in is blind to absolutely positioned children, for all child-style lists -/
theorem gridAlgC_AbsBlind : AlgAbsBlind (gridAlgC : ContainerAlg α) := by
  intro style xs ys inp h
  unfold gridAlgC
  by_cases hx : RunNoErr style xs inp
  · by_cases hy : RunNoErr style ys inp
    · rw [if_pos hx, if_pos hy]
      exact gridAlg_absEquiv_noErr style xs ys inp h hx hy
    · rw [if_pos hx, if_neg hy]
      exact gridAlg_absEquiv_autoR style xs (ys.map normAbs) inp (agreeA_normAbs_right xs ys h)
        (absAutoLines_normAbs ys) hx
  · by_cases hy : RunNoErr style ys inp
    · rw [if_neg hx, if_pos hy]
      have := gridAlg_absEquiv_autoL style (xs.map normAbs) ys inp (agreeA_normAbs_left xs ys h)
        (absAutoLines_normAbs xs) hy
      rw [absIdx_normAbs] at this
      exact this
    · rw [if_neg hx, if_neg hy]
      exact gridAlgN_AbsBlind style xs ys inp h

/-- what is asked of a grid container: it cannot panic (on any input), or its absolutely positioned children have `auto`
lines -/
def GridAbsOk (s : Style α) (cs : List (Style α)) : Prop := AbsAutoLines cs ∨ ∀ inp, RunNoErr s cs inp

theorem gridAlgC_eq (s : Style α) (cs : List (Style α)) (h : GridAbsOk s cs) (inp : LayoutInput α) :
    gridAlgC s cs inp = gridAlg s cs inp := by
  unfold gridAlgC
  rcases h with h | h
  · split
    · rfl
    · rw [gridAlgN_eq s cs h]
  · rw [if_pos (h inp)]

/-! ### trees -/

mutual
/-- **GridAbsCalm**: every grid container with children outside `display:none` subtrees cannot panic, or all its
absolutely positioned children have `auto` grid lines -/
def GridAbsCalm : STree α → Prop
  | .node s _ kids =>
    s.display = .none ∨
      ((s.display = .grid → kids ≠ [] → GridAbsOk s (kids.map STree.style)) ∧ GridAbsCalmList kids)
def GridAbsCalmList : List (STree α) → Prop
  | [] => True
  | t :: ts => GridAbsCalm t ∧ GridAbsCalmList ts
end

variable [FlexLine.NumX α]

mutual
/-- on a `GridAbsCalm` tree the evaluator does not distinguish `gridAlg` from `gridAlgC` -/
theorem GridAbsCalm_agree (sel : Display → Bool → Option Callee) (hsel : DocSel sel) (flex : ContainerAlg α) :
    ∀ t : STree α, GridAbsCalm t → AgreeOn sel (EvalConcrete.algs flex gridAlg) (EvalConcrete.algs flex gridAlgC) t
  | .node s ctx kids, h => by
    simp only [GridAbsCalm] at h
    simp only [AgreeOn]
    rcases h with hd | ⟨hg, hks⟩
    · refine ⟨fun inp => ?_, fun _ => rfl, fun hn => ?_⟩
      · rw [bodyOf_doc sel hsel, bodyOf_doc sel hsel, hd]
      · rw [hsel, hd] at hn
        exact absurd rfl hn
    · refine ⟨fun inp => ?_, fun _ => rfl, fun _ => GridAbsCalmList_agree sel hsel flex kids hks⟩
      rw [bodyOf_doc sel hsel, bodyOf_doc sel hsel]
      cases kids with
      | nil => cases s.display <;> rfl
      | cons k ks =>
        cases hd : s.display with
        | none => rfl
        | block => rfl
        | flex => rfl
        | grid =>
          have := gridAlgC_eq s ((k :: ks).map STree.style) (hg hd (by simp)) inp
          simp only [EvalConcrete.algs, this]
theorem GridAbsCalmList_agree (sel : Display → Bool → Option Callee) (hsel : DocSel sel) (flex : ContainerAlg α) :
    ∀ ts : List (STree α), GridAbsCalmList ts →
      AgreeOnList sel (EvalConcrete.algs flex gridAlg) (EvalConcrete.algs flex gridAlgC) ts
  | [], _ => trivial
  | t :: ts, h => ⟨GridAbsCalm_agree sel hsel flex t h.1, GridAbsCalmList_agree sel hsel flex ts h.2⟩
end

mutual
/-- a tree none of whose grid containers can panic (`EvalGrid.GridCalm`) is `GridAbsCalm` -/
theorem GridCalm_GridAbsCalm : ∀ t : STree α, EvalGrid.GridCalm t → GridAbsCalm t
  | .node s ctx kids, h => by
    simp only [EvalGrid.GridCalm] at h
    simp only [GridAbsCalm]
    rcases h with h | ⟨h, hk⟩
    · exact Or.inl h
    · exact Or.inr ⟨fun hg hne => Or.inr fun inp => (noErr_iff_noPanic _).2 (h hg hne inp),
        GridCalmList_GridAbsCalmList kids hk⟩
theorem GridCalmList_GridAbsCalmList : ∀ ts : List (STree α), EvalGrid.GridCalmList ts → GridAbsCalmList ts
  | [], _ => trivial
  | t :: ts, h => ⟨GridCalm_GridAbsCalm t h.1, GridCalmList_GridAbsCalmList ts h.2⟩
end

mutual
/-- a tree in which every absolutely positioned child of a grid container has `auto` lines is `GridAbsCalm` -/
theorem GridAbsAuto_GridAbsCalm : ∀ t : STree α, GridAbsAuto t → GridAbsCalm t
  | .node s ctx kids, h => by
    simp only [GridAbsAuto] at h
    simp only [GridAbsCalm]
    exact Or.inr ⟨fun hg _ => Or.inl (h.1 hg), GridAbsAutoList_GridAbsCalmList kids h.2⟩
theorem GridAbsAutoList_GridAbsCalmList : ∀ ts : List (STree α), GridAbsAutoList ts → GridAbsCalmList ts
  | [], _ => trivial
  | t :: ts, h => ⟨GridAbsAuto_GridAbsCalm t h.1, GridAbsAutoList_GridAbsCalmList ts h.2⟩
end

end GridAbs
