/-
  C15 / C01 — `TaffyTree::mark_dirty` on the evaluator's state (rose tree of caches), and what it does to the flags.

    * `DirtyObs ci`        a `CacheObs` plus the emptiness test `mark_dirty` branches on (`Cache::clear` returning
                           `AlreadyEmpty`): it is `!fin && !meas` on well-formed caches, and clearing an already-empty
                           cache changes nothing;
    * `markDirtyGo`        `mark_dirty_recursive` expressed on the path from the root: descend to the node, clear its cache;
                           on the way back clear the parent's cache iff the child's `clear` reported `Cleared`;
    * `markDirtyFTGo`      the same on a rose tree of flags (`DirtyPass.FT`);
    * `abs_markDirtyGo`    `absFT` commutes with them;
    * `clearPath`          what `EvalMemo.Edit` does: clear EVERY cache on the path (`EvalMemo.stateModifyAt`);
    * `go_eq_clearPath`    under the local invariant along the path (`PathK`, implied by `KT`) and when no proper ancestor
                           is `display:none`, the early exit loses nothing: both states are EQUAL;
    * `Bx`, `go_restores`  `mark_dirty(p)` restores `KT` from "`KT` except the clause (b) at the node at `p`" — the rose-tree
                           form of `Dirty.markDirty_spec`.
  Property theorems: Props/C15Mut.lean.
-/
import TaffyVerif.Lemmas.EvalDirty
import TaffyVerif.Lemmas.EvalCost
import TaffyVerif.Lemmas.EvalHidden
import TaffyVerif.Lemmas.EvalMemo
import TaffyVerif.Props.C15Pass

set_option autoImplicit false
set_option linter.unusedSectionVars false
set_option linter.unusedVariables false

namespace EvalDirtyEdit
open Eval EvalDirty DirtyPass C15Pass

variable {α : Type} [Num α] {C : Type}

/-! ### the emptiness test -/

/-- observers of a cache implementation together with the test `mark_dirty` branches on -/
structure DirtyObs (ci : CacheImpl α C) extends CacheObs ci where
  /-- `Cache::clear` would return `ClearState::AlreadyEmpty` -/
  emp : C → Bool
  emp_flags : ∀ c, ok c → emp c = (!fin c && !meas c)
  clear_emp : ∀ c, ok c → emp c = true → ci.clear c = c

/-! ### `mark_dirty` on the state tree and on the flag tree -/

/-- `mark_dirty_recursive`, on the path from the root to the target.  Result: the new state, and whether the
recursion goes on with the parent (the `clear` at this level returned `Cleared`).  A path that leaves the tree: no-op. -/
def markDirtyGo (ci : CacheImpl α C) (emp : C → Bool) : List Nat → NS α C → NS α C × Bool
  | [], .mk c l nk => (.mk (ci.clear c) l nk, !emp c)
  | i :: p, .mk c l nk =>
    match nk[i]? with
    | none => (.mk c l nk, false)
    | some k =>
      let r := markDirtyGo ci emp p k
      if r.2 then (.mk (ci.clear c) l (nk.set i r.1), !emp c) else (.mk c l (nk.set i r.1), false)

/-- **`TaffyTree::mark_dirty(node at path p)`** on the evaluator's state -/
def markDirtyRose (ci : CacheImpl α C) (emp : C → Bool) (p : List Nat) (ns : NS α C) : NS α C :=
  (markDirtyGo ci emp p ns).1

/-- the same on flags -/
def markDirtyFTGo : List Nat → FT → FT × Bool
  | [], .node h f m ks => (.node h false false ks, f || m)
  | i :: p, .node h f m ks =>
    match ks[i]? with
    | none => (.node h f m ks, false)
    | some k =>
      let r := markDirtyFTGo p k
      if r.2 then (.node h false false (ks.set i r.1), f || m) else (.node h f m (ks.set i r.1), false)

/-- `mark_dirty` on a rose tree of flags -/
def markDirtyFT (p : List Nat) (t : FT) : FT := (markDirtyFTGo p t).1

/-- set the `display:none` flag of the node at path `p` (what `set_style` does to the flags before its `mark_dirty`) -/
def setHid (h : Bool) : List Nat → FT → FT
  | [], .node _ f m ks => .node h f m ks
  | i :: p, .node h0 f m ks =>
    .node h0 f m (match ks[i]? with
      | some k => ks.set i (setHid h p k)
      | none => ks)

/-! ### list helpers -/

theorem ShapeList_get' : ∀ (kids : List (STree α)) (ks : List (NS α C)) (i : Nat) (k : NS α C),
    C16.ShapeList kids ks → ks[i]? = some k → ∃ t, kids[i]? = some t ∧ C16.Shape t k
  | _, [], _, _, _, h => by simp at h
  | [], _ :: _, _, _, hv, _ => by simp [C16.ShapeList] at hv
  | a :: as, b :: bs, 0, k, hv, h => by
    simp only [List.getElem?_cons_zero, Option.some.injEq] at h
    subst h
    simp only [C16.ShapeList] at hv
    exact ⟨a, rfl, hv.1⟩
  | a :: as, b :: bs, i + 1, k, hv, h => by
    simp only [List.getElem?_cons_succ] at h
    simp only [C16.ShapeList] at hv
    simpa using ShapeList_get' as bs i k hv.2 h

theorem ShapeList_none : ∀ (kids : List (STree α)) (ks : List (NS α C)) (i : Nat),
    C16.ShapeList kids ks → ks[i]? = none → kids[i]? = none
  | [], _, _, _, _ => by simp
  | _ :: _, [], _, hv, _ => by simp [C16.ShapeList] at hv
  | a :: as, b :: bs, 0, hv, h => by simp at h
  | a :: as, b :: bs, i + 1, hv, h => by
    simp only [List.getElem?_cons_succ] at h ⊢
    simp only [C16.ShapeList] at hv
    exact ShapeList_none as bs i hv.2 h

theorem AList_get : ∀ (l : List FT) (i : Nat) (k : FT), AList l → l[i]? = some k → A k
  | [], _, _, _, h => by simp at h
  | a :: as, 0, k, hv, h => by
    simp only [List.getElem?_cons_zero, Option.some.injEq] at h
    subst h; exact hv.1
  | a :: as, i + 1, k, hv, h => by
    simp only [List.getElem?_cons_succ] at h
    exact AList_get as i k hv.2 h

theorem BList_get : ∀ (l : List FT) (i : Nat) (k : FT), BList l → l[i]? = some k → B k
  | [], _, _, _, h => by simp at h
  | a :: as, 0, k, hv, h => by
    simp only [List.getElem?_cons_zero, Option.some.injEq] at h
    subst h; exact hv.1
  | a :: as, i + 1, k, hv, h => by
    simp only [List.getElem?_cons_succ] at h
    exact BList_get as i k hv.2 h

theorem allFin_get : ∀ (l : List FT) (i : Nat) (k : FT), allFin l → l[i]? = some k → k.fin = true
  | [], _, _, _, h => by simp at h
  | a :: as, 0, k, hv, h => by
    simp only [List.getElem?_cons_zero, Option.some.injEq] at h
    subst h; exact hv.1
  | a :: as, i + 1, k, hv, h => by
    simp only [List.getElem?_cons_succ] at h
    exact allFin_get as i k hv.2 h

theorem AList_set : ∀ (l : List FT) (i : Nat) (k' : FT), AList l → A k' → AList (l.set i k')
  | [], _, _, _, _ => by simp [AList]
  | a :: as, 0, k', hv, h => by simp only [List.set_cons_zero, AList]; exact ⟨h, hv.2⟩
  | a :: as, i + 1, k', hv, h => by
    simp only [List.set_cons_succ, AList]
    exact ⟨hv.1, AList_set as i k' hv.2 h⟩

theorem BList_set : ∀ (l : List FT) (i : Nat) (k' : FT), BList l → B k' → BList (l.set i k')
  | [], _, _, _, _ => by simp [BList]
  | a :: as, 0, k', hv, h => by simp only [List.set_cons_zero, BList]; exact ⟨h, hv.2⟩
  | a :: as, i + 1, k', hv, h => by
    simp only [List.set_cons_succ, BList]
    exact ⟨hv.1, BList_set as i k' hv.2 h⟩

theorem allFin_set : ∀ (l : List FT) (i : Nat) (k' : FT), allFin l → k'.fin = true → allFin (l.set i k')
  | [], _, _, _, _ => by simp [allFin]
  | a :: as, 0, k', hv, h => by simp only [List.set_cons_zero, allFin]; exact ⟨h, hv.2⟩
  | a :: as, i + 1, k', hv, h => by
    simp only [List.set_cons_succ, allFin]
    exact ⟨hv.1, allFin_set as i k' hv.2 h⟩

theorem OK_cache {ci : CacheImpl α C} (ob : CacheObs ci) (ns : NS α C) (h : OK ob ns) : ob.ok ns.cache := by
  cases ns
  simp only [OK] at h
  exact h.1

theorem A_node (h f m : Bool) (ks : List FT) : A (.node h f m ks) ↔ (m = true → f = true) ∧ AList ks := by
  simp only [A]

theorem B_node (h f m : Bool) (ks : List FT) : B (.node h f m ks) ↔ (f = true → h = false → allFin ks) ∧ BList ks := by
  simp only [B]

/-! ### 1. `absFT` commutes with `mark_dirty` -/

section
variable {ci : CacheImpl α C} (D : DirtyObs ci)

theorem emp_eq_or (c : C) (h : D.ok c) : (!D.emp c) = (D.fin c || D.meas c) := by
  rw [D.emp_flags c h]
  cases D.fin c <;> cases D.meas c <;> rfl

theorem go_none (emp : C → Bool) (i : Nat) (p : List Nat) (c : C) (l : Layout α) (nk : List (NS α C))
    (hk : nk[i]? = none) : markDirtyGo ci emp (i :: p) (.mk c l nk) = (.mk c l nk, false) := by
  simp only [markDirtyGo, hk]

theorem go_true (emp : C → Bool) (i : Nat) (p : List Nat) (c : C) (l : Layout α) (nk : List (NS α C)) (k : NS α C)
    (hk : nk[i]? = some k) (hr : (markDirtyGo ci emp p k).2 = true) :
    markDirtyGo ci emp (i :: p) (.mk c l nk) = (.mk (ci.clear c) l (nk.set i (markDirtyGo ci emp p k).1), !emp c) := by
  simp only [markDirtyGo, hk, hr, if_true]

theorem go_false (emp : C → Bool) (i : Nat) (p : List Nat) (c : C) (l : Layout α) (nk : List (NS α C)) (k : NS α C)
    (hk : nk[i]? = some k) (hr : (markDirtyGo ci emp p k).2 = false) :
    markDirtyGo ci emp (i :: p) (.mk c l nk) = (.mk c l (nk.set i (markDirtyGo ci emp p k).1), false) := by
  simp only [markDirtyGo, hk, hr, Bool.false_eq_true, if_false]

theorem ftgo_none (i : Nat) (p : List Nat) (h f m : Bool) (ks : List FT) (hk : ks[i]? = none) :
    markDirtyFTGo (i :: p) (.node h f m ks) = (.node h f m ks, false) := by
  simp only [markDirtyFTGo, hk]

theorem ftgo_true (i : Nat) (p : List Nat) (h f m : Bool) (ks : List FT) (k : FT) (hk : ks[i]? = some k)
    (hr : (markDirtyFTGo p k).2 = true) :
    markDirtyFTGo (i :: p) (.node h f m ks) = (.node h false false (ks.set i (markDirtyFTGo p k).1), f || m) := by
  simp only [markDirtyFTGo, hk, hr, if_true]

theorem ftgo_false (i : Nat) (p : List Nat) (h f m : Bool) (ks : List FT) (k : FT) (hk : ks[i]? = some k)
    (hr : (markDirtyFTGo p k).2 = false) :
    markDirtyFTGo (i :: p) (.node h f m ks) = (.node h f m (ks.set i (markDirtyFTGo p k).1), false) := by
  simp only [markDirtyFTGo, hk, hr, Bool.false_eq_true, if_false]

/-- **abs_markDirtyGo**: on a state of the shape of the style tree with well-formed caches, the flags after
`mark_dirty` at any path are `markDirtyFTGo` of the flags before, and both report the same `ClearState` upwards -/
theorem abs_markDirtyGo : ∀ (p : List Nat) (t : STree α) (ns : NS α C), C16.Shape t ns → OK D.toCacheObs ns →
    absFT D.toCacheObs t (markDirtyGo ci D.emp p ns).1 = (markDirtyFTGo p (absFT D.toCacheObs t ns)).1 ∧
    (markDirtyGo ci D.emp p ns).2 = (markDirtyFTGo p (absFT D.toCacheObs t ns)).2
  | [], .node s cx kids, .mk c l nk, hsh, hok => by
    simp only [OK] at hok
    obtain ⟨e1, e2⟩ := D.clear_flags c hok.1
    simp only [markDirtyGo, absFT, markDirtyFTGo, e1, e2, emp_eq_or D c hok.1, and_self]
  | i :: p, .node s cx kids, .mk c l nk, hsh, hok => by
    simp only [OK] at hok
    simp only [C16.Shape] at hsh
    cases hk : nk[i]? with
    | none =>
      have hkn := ShapeList_none kids nk i hsh hk
      have hg : (absList D.toCacheObs kids nk)[i]? = none := by rw [absList_get, hkn]
      rw [go_none D.emp i p c l nk hk]
      simp only [absFT]
      rw [ftgo_none i p _ _ _ _ hg]
      exact ⟨rfl, rfl⟩
    | some k =>
      obtain ⟨tc, htc, hshc⟩ := ShapeList_get' kids nk i k hsh hk
      have hg := absList_get_some D.toCacheObs kids nk i tc k htc hk
      obtain ⟨ih1, ih2⟩ := abs_markDirtyGo p tc k hshc (OKList_get D.toCacheObs nk i k hok.2 hk)
      obtain ⟨e1, e2⟩ := D.clear_flags c hok.1
      cases hr : (markDirtyGo ci D.emp p k).2 with
      | true =>
        rw [go_true D.emp i p c l nk k hk hr]
        simp only [absFT]
        rw [ftgo_true i p _ _ _ _ _ hg (by rw [← ih2]; exact hr)]
        dsimp only
        rw [absList_set D.toCacheObs kids nk i tc _ htc, ih1, e1, e2, emp_eq_or D c hok.1]
        exact ⟨rfl, rfl⟩
      | false =>
        rw [go_false D.emp i p c l nk k hk hr]
        simp only [absFT]
        rw [ftgo_false i p _ _ _ _ _ hg (by rw [← ih2]; exact hr)]
        dsimp only
        rw [absList_set D.toCacheObs kids nk i tc _ htc, ih1]
        exact ⟨rfl, rfl⟩
termination_by p => p.length

/-- `mark_dirty` keeps the caches well-formed and the shape -/
theorem go_OK_shape : ∀ (p : List Nat) (t : STree α) (ns : NS α C), C16.Shape t ns → OK D.toCacheObs ns →
    OK D.toCacheObs (markDirtyGo ci D.emp p ns).1 ∧ C16.Shape t (markDirtyGo ci D.emp p ns).1
  | [], .node s cx kids, .mk c l nk, hsh, hok => by
    simp only [OK] at hok
    simp only [markDirtyGo, OK, C16.Shape] at hsh ⊢
    exact ⟨⟨D.ok_clear c hok.1, hok.2⟩, hsh⟩
  | i :: p, .node s cx kids, .mk c l nk, hsh, hok => by
    simp only [OK] at hok
    simp only [C16.Shape] at hsh
    cases hk : nk[i]? with
    | none =>
      rw [go_none D.emp i p c l nk hk]
      simp only [OK, C16.Shape]
      exact ⟨hok, hsh⟩
    | some k =>
      obtain ⟨tc, htc, hshc⟩ := ShapeList_get' kids nk i k hsh hk
      obtain ⟨ih1, ih2⟩ := go_OK_shape p tc k hshc (OKList_get D.toCacheObs nk i k hok.2 hk)
      have h1 := OKList_set D.toCacheObs nk i _ hok.2 ih1
      have h2 := C16.ShapeList_set kids nk i tc _ hsh htc ih2
      cases hr : (markDirtyGo ci D.emp p k).2 with
      | true =>
        rw [go_true D.emp i p c l nk k hk hr]
        simp only [OK, C16.Shape]; exact ⟨⟨D.ok_clear c hok.1, h1⟩, h2⟩
      | false =>
        rw [go_false D.emp i p c l nk k hk hr]
        simp only [OK, C16.Shape]; exact ⟨⟨hok.1, h1⟩, h2⟩
termination_by p => p.length

/-! ### 2. early exit versus clearing the whole path -/

/-- clear the cache of this node -/
def clearHere (ci : CacheImpl α C) : NS α C → NS α C
  | .mk c l nk => .mk (ci.clear c) l nk

/-- **what `EvalMemo.Edit` does**: clear the cache of the node at `p` and of every ancestor -/
def clearPath (ci : CacheImpl α C) (p : List Nat) (ns : NS α C) : NS α C :=
  EvalMemo.stateModifyAt ci (clearHere ci) p ns

/-- the part of the invariant `KT` that the early exit relies on, along the path `p` only: at every PROPER ancestor,
clause (a) (a measure entry implies a final entry) and clause (b) towards the child on the path (a clean box-generating
node's child is clean) -/
def PathK : List Nat → FT → Prop
  | [], _ => True
  | i :: p, .node h f m ks =>
    (m = true → f = true) ∧
    match ks[i]? with
    | some k => (f = true → h = false → k.fin = true) ∧ PathK p k
    | none => True

theorem PathK_of_AB : ∀ (p : List Nat) (t : FT), A t → B t → PathK p t
  | [], _, _, _ => trivial
  | i :: p, .node h f m ks, ha, hb => by
    simp only [A] at ha
    simp only [B] at hb
    simp only [PathK]
    refine ⟨ha.1, ?_⟩
    cases hk : ks[i]? with
    | none => trivial
    | some k =>
      exact ⟨fun h1 h2 => allFin_get ks i k (hb.1 h1 h2) hk,
        PathK_of_AB p k (AList_get ks i k ha.2 hk) (BList_get ks i k hb.2 hk)⟩

/-- **go_eq_clearPath**: if the path exists, no proper ancestor of its end is `display:none` and the local invariant
holds along it, `mark_dirty` with the early exit and "clear every cache on the path" end in the SAME state: every cache
the early exit skips is already empty, and clearing an empty cache is the identity.  (Second component: when the walk
stops below this node, this node's cache is empty.) -/
theorem go_eq_clearPath : ∀ (p : List Nat) (t : STree α) (ns : NS α C), C16.Shape t ns → OK D.toCacheObs ns →
    PathK p (absFT D.toCacheObs t ns) → C05.VisibleTo t p → (∃ t', treeAt t p = some t') →
    (markDirtyGo ci D.emp p ns).1 = clearPath ci p ns ∧
    ((markDirtyGo ci D.emp p ns).2 = false → D.emp ns.cache = true)
  | [], .node s cx kids, .mk c l nk, hsh, hok, hk, hv, ht => by
    simp only [markDirtyGo, clearPath, EvalMemo.stateModifyAt, clearHere, NS.cache, Bool.not_eq_false', true_and]
    exact id
  | i :: p, .node s cx kids, .mk c l nk, hsh, hok, hpk, hv, ⟨t', ht'⟩ => by
    simp only [OK] at hok
    simp only [C16.Shape] at hsh
    simp only [C05.VisibleTo] at hv
    simp only [treeAt] at ht'
    cases htc : kids[i]? with
    | none => rw [htc] at ht'; cases ht'
    | some tc =>
      rw [htc] at ht' hv
      obtain ⟨k, hk, hshc⟩ := C16.ShapeList_get kids nk i tc hsh htc
      have hg := absList_get_some D.toCacheObs kids nk i tc k htc hk
      simp only [absFT, PathK, hg] at hpk
      obtain ⟨hA, hB, hpk'⟩ := hpk
      have hokc := OKList_get D.toCacheObs nk i k hok.2 hk
      obtain ⟨ih1, ih2⟩ := go_eq_clearPath p tc k hshc hokc hpk' hv.2 ⟨t', ht'⟩
      simp only [markDirtyGo, hk, clearPath, EvalMemo.stateModifyAt, NS.cache]
      cases hr : (markDirtyGo ci D.emp p k).2 with
      | true =>
        simp only [if_true, Bool.not_eq_false']
        refine ⟨?_, id⟩
        rw [ih1]; rfl
      | false =>
        simp only [Bool.false_eq_true, if_false, true_implies]
        -- the child on the path is empty, so this node is empty too
        have hek := ih2 hr
        rw [D.emp_flags _ (OK_cache D.toCacheObs k hokc)] at hek
        have hkf : D.fin k.cache = false := by
          cases hf : D.fin k.cache with
          | false => rfl
          | true => rw [hf] at hek; cases hek
        have hcf : D.fin c = false := by
          cases hf : D.fin c with
          | false => rfl
          | true =>
            have := hB hf ((EvalDirty.isHidden_false_iff s).2 hv.1)
            rw [absFT_fin, hkf] at this
            cases this
        have hcm : D.meas c = false := by
          cases hm : D.meas c with
          | false => rfl
          | true => rw [hA hm] at hcf; cases hcf
        have hec : D.emp c = true := by rw [D.emp_flags c hok.1, hcf, hcm]; rfl
        refine ⟨?_, hec⟩
        rw [D.clear_emp c hok.1 hec, ih1]; rfl
termination_by p => p.length

/-- apply `g` to the state of the node at `q`, touching nothing else -/
def modifyAt (g : NS α C → NS α C) : List Nat → NS α C → NS α C
  | [], ns => g ns
  | i :: q, .mk c l nk =>
    .mk c l (match nk[i]? with
      | some k => nk.set i (modifyAt g q k)
      | none => nk)

/-- `q` is not empty and the node whose child `q` ends in is `display:none` -/
def HiddenParent : STree α → List Nat → Prop
  | _, [] => False
  | .node s _ _, [_] => s.display = .none
  | .node _ _ kids, i :: j :: q =>
    match kids[i]? with
    | some tc => HiddenParent tc (j :: q)
    | none => False

theorem display_none_of_isHidden (s : Style α) (h : s.isHidden = true) : s.display = .none := by
  cases hd : s.display with
  | none => rfl
  | _ =>
    have := (EvalDirty.isHidden_false_iff s).2 (by rw [hd]; intro h'; cases h')
    rw [this] at h; cases h

/-- **go_partial** (no visibility assumption — the precise difference to clearing the whole path): either
`mark_dirty` ends in the same state as clearing every cache on the path, or the path splits as `q ++ r` where `q` ends in
a child of a `display:none` node and `mark_dirty` cleared exactly the part `r` of the path below that node — the caches
of the `display:none` node and of everything above it SURVIVE (the walk stopped at the already-empty child). -/
theorem go_partial : ∀ (p : List Nat) (t : STree α) (ns : NS α C), C16.Shape t ns → OK D.toCacheObs ns →
    PathK p (absFT D.toCacheObs t ns) → (∃ t', treeAt t p = some t') →
    ((markDirtyGo ci D.emp p ns).1 = clearPath ci p ns ∧
      ((markDirtyGo ci D.emp p ns).2 = false → D.emp ns.cache = true)) ∨
    ((markDirtyGo ci D.emp p ns).2 = false ∧ ∃ q r, p = q ++ r ∧ HiddenParent t q ∧
      (markDirtyGo ci D.emp p ns).1 = modifyAt (clearPath ci r) q ns)
  | [], .node s cx kids, .mk c l nk, hsh, hok, hk, ht => by
    left
    simp only [markDirtyGo, clearPath, EvalMemo.stateModifyAt, clearHere, NS.cache, Bool.not_eq_false', true_and]
    exact id
  | i :: p, .node s cx kids, .mk c l nk, hsh, hok, hpk, ⟨t', ht'⟩ => by
    simp only [OK] at hok
    simp only [C16.Shape] at hsh
    simp only [treeAt] at ht'
    cases htc : kids[i]? with
    | none => rw [htc] at ht'; cases ht'
    | some tc =>
      rw [htc] at ht'
      obtain ⟨k, hk, hshc⟩ := C16.ShapeList_get kids nk i tc hsh htc
      have hg := absList_get_some D.toCacheObs kids nk i tc k htc hk
      simp only [absFT, PathK, hg] at hpk
      obtain ⟨hA, hB, hpk'⟩ := hpk
      have hokc := OKList_get D.toCacheObs nk i k hok.2 hk
      have hcp : clearPath ci (i :: p) (.mk c l nk) = .mk (ci.clear c) l (nk.set i (clearPath ci p k)) := by
        simp only [clearPath, EvalMemo.stateModifyAt, hk]
      rcases go_partial p tc k hshc hokc hpk' ⟨t', ht'⟩ with ⟨ih1, ih2⟩ | ⟨hr, q, r, hp, hq, he⟩
      · cases hr : (markDirtyGo ci D.emp p k).2 with
        | true =>
          left
          rw [go_true D.emp i p c l nk k hk hr, hcp, ih1]
          simp only [NS.cache, Bool.not_eq_false', true_and]
          exact id
        | false =>
          have hek := ih2 hr
          cases hh : s.isHidden with
          | false =>
            left
            rw [D.emp_flags _ (OK_cache D.toCacheObs k hokc)] at hek
            have hkf : D.fin k.cache = false := by
              cases hf : D.fin k.cache with
              | false => rfl
              | true => rw [hf] at hek; cases hek
            have hcf : D.fin c = false := by
              cases hf : D.fin c with
              | false => rfl
              | true =>
                have := hB hf hh
                rw [absFT_fin, hkf] at this
                cases this
            have hcm : D.meas c = false := by
              cases hm : D.meas c with
              | false => rfl
              | true => rw [hA hm] at hcf; cases hcf
            have hec : D.emp c = true := by rw [D.emp_flags c hok.1, hcf, hcm]; rfl
            rw [go_false D.emp i p c l nk k hk hr, hcp, ih1, D.clear_emp c hok.1 hec]
            exact ⟨rfl, fun _ => hec⟩
          | true =>
            right
            rw [go_false D.emp i p c l nk k hk hr]
            refine ⟨rfl, [i], p, rfl, display_none_of_isHidden s hh, ?_⟩
            simp only [modifyAt, hk, ih1]
      · right
        rw [go_false D.emp i p c l nk k hk hr]
        refine ⟨rfl, i :: q, r, by rw [hp]; rfl, ?_, ?_⟩
        · cases q with
          | nil => cases tc; exact hq.elim
          | cons j q => simp only [HiddenParent, htc]; exact hq
        · simp only [modifyAt, hk, he]
termination_by p => p.length

end

/-! ### 3. `mark_dirty` restores the invariant (flag level) -/

/-- `BList`, except that the element at index `i` only has to satisfy `P` -/
def BListEx (P : FT → Prop) : Nat → List FT → Prop
  | _, [] => True
  | 0, k :: ks => P k ∧ BList ks
  | i + 1, k :: ks => B k ∧ BListEx P i ks

/-- clause (b) everywhere EXCEPT at the node at path `p` (where an edit may just have broken it: a `display` toggle, a
new dirty child) -/
def Bx : List Nat → FT → Prop
  | [], .node _ _ _ kids => BList kids
  | i :: p, .node h f _ kids => (f = true → h = false → allFin kids) ∧ BListEx (Bx p) i kids

theorem BListEx_none (P : FT → Prop) : ∀ (i : Nat) (l : List FT), BListEx P i l → l[i]? = none → BList l
  | _, [], _, _ => trivial
  | 0, k :: ks, _, h => by simp at h
  | i + 1, k :: ks, hv, h => by
    simp only [List.getElem?_cons_succ] at h
    exact ⟨hv.1, BListEx_none P i ks hv.2 h⟩

theorem BListEx_get (P : FT → Prop) : ∀ (i : Nat) (l : List FT) (k : FT), BListEx P i l → l[i]? = some k → P k
  | _, [], _, _, h => by simp at h
  | 0, a :: as, k, hv, h => by
    simp only [List.getElem?_cons_zero, Option.some.injEq] at h
    subst h; exact hv.1
  | i + 1, a :: as, k, hv, h => by
    simp only [List.getElem?_cons_succ] at h
    exact BListEx_get P i as k hv.2 h

theorem BListEx_set (P : FT → Prop) : ∀ (i : Nat) (l : List FT) (k' : FT), BListEx P i l → B k' → BList (l.set i k')
  | _, [], _, _, _ => by simp [BList]
  | 0, a :: as, k', hv, h => by simp only [List.set_cons_zero, BList]; exact ⟨h, hv.2⟩
  | i + 1, a :: as, k', hv, h => by
    simp only [List.set_cons_succ, BList]
    exact ⟨hv.1, BListEx_set P i as k' hv.2 h⟩

theorem BListEx_of_BList (P : FT → Prop) (hP : ∀ k, B k → P k) : ∀ (i : Nat) (l : List FT), BList l → BListEx P i l
  | i, [], _ => by cases i <;> trivial
  | 0, a :: as, hv => ⟨hP a hv.1, hv.2⟩
  | i + 1, a :: as, hv => ⟨hv.1, BListEx_of_BList P hP i as hv.2⟩

theorem Bx_of_B : ∀ (p : List Nat) (t : FT), B t → Bx p t
  | [], .node _ _ _ kids, h => by simp only [B] at h; exact h.2
  | i :: p, .node h f _ kids, hb => by
    simp only [B] at hb
    exact ⟨hb.1, BListEx_of_BList _ (fun k hk => Bx_of_B p k hk) i kids hb.2⟩

/-- **go_restores** (`Dirty.markDirty_spec` on rose trees): from clause (a) everywhere and clause (b) everywhere except
at the target, `mark_dirty(target)` re-establishes (a) and (b) everywhere; if the walk stopped at or below this node
its `fin` flag is what it was -/
theorem go_restores : ∀ (p : List Nat) (t : FT), A t → Bx p t →
    A (markDirtyFTGo p t).1 ∧ B (markDirtyFTGo p t).1 ∧
    ((markDirtyFTGo p t).2 = false → (markDirtyFTGo p t).1.fin = t.fin) ∧
    ((markDirtyFTGo p t).2 = true → (markDirtyFTGo p t).1.fin = false)
  | [], .node h f m ks, ha, hb => by
    have ha' := (A_node h f m ks).1 ha
    simp only [Bx] at hb
    have e : markDirtyFTGo [] (.node h f m ks) = (.node h false false ks, f || m) := by simp only [markDirtyFTGo]
    rw [e]
    dsimp only
    refine ⟨(A_node _ _ _ _).2 ⟨(fun h => by cases h), ha'.2⟩, (B_node _ _ _ _).2 ⟨(fun h => by cases h), hb⟩, ?_,
      fun _ => rfl⟩
    intro h1
    show false = f
    cases f with
    | false => rfl
    | true => simp at h1
  | i :: p, .node h f m ks, ha, hb => by
    have ha' := (A_node h f m ks).1 ha
    simp only [Bx] at hb
    cases hk : ks[i]? with
    | none =>
      have e : markDirtyFTGo (i :: p) (.node h f m ks) = (.node h f m ks, false) := by simp only [markDirtyFTGo, hk]
      rw [e]
      dsimp only
      exact ⟨ha, (B_node _ _ _ _).2 ⟨hb.1, BListEx_none _ i ks hb.2 hk⟩, fun _ => rfl, fun h => by cases h⟩
    | some k =>
      obtain ⟨i1, i2, i3, i4⟩ := go_restores p k (AList_get ks i k ha'.2 hk) (BListEx_get _ i ks k hb.2 hk)
      have hA := AList_set ks i _ ha'.2 i1
      have hB := BListEx_set _ i ks _ hb.2 i2
      cases hr : (markDirtyFTGo p k).2 with
      | true =>
        have e : markDirtyFTGo (i :: p) (.node h f m ks) =
            (.node h false false (ks.set i (markDirtyFTGo p k).1), f || m) := by
          simp only [markDirtyFTGo, hk, hr, if_true]
        rw [e]
        dsimp only
        refine ⟨(A_node _ _ _ _).2 ⟨(fun h => by cases h), hA⟩, (B_node _ _ _ _).2 ⟨(fun h => by cases h), hB⟩, ?_,
          fun _ => rfl⟩
        intro h1
        show false = f
        cases f with
        | false => rfl
        | true => simp at h1
      | false =>
        have e : markDirtyFTGo (i :: p) (.node h f m ks) =
            (.node h f m (ks.set i (markDirtyFTGo p k).1), false) := by
          simp only [markDirtyFTGo, hk, hr, Bool.false_eq_true, if_false]
        rw [e]
        dsimp only
        refine ⟨(A_node _ _ _ _).2 ⟨ha'.1, hA⟩, (B_node _ _ _ _).2 ⟨?_, hB⟩, fun _ => rfl, fun h => by cases h⟩
        intro h1 h2
        have := allFin_get ks i k (hb.1 h1 h2) hk
        exact allFin_set ks i _ (hb.1 h1 h2) (by rw [i3 hr]; exact this)

end EvalDirtyEdit
