/-
  Helper lemmas about Model/GridPlacement.lean, part 3: the cells of the occupancy matrix.
  `expand_to_fit_range` keeps every occupied cell occupied (at the same origin-zero position), `mark_area_as` occupies
  exactly-at-least the marked area, an area reported free contains no occupied cell; hence invariant C:
  every recorded item's cells are occupied, and an auto-placed item overlaps no item recorded before it.
-/
import TaffyVerif.Lemmas.GridPlacementCounts

set_option linter.unusedSimpArgs false
set_option linter.unusedVariables false

namespace GridPlacement
open Outcome

/-! ### the `Grid` -/

/-- the cell exists and holds a placed item -/
def Occupied (g : Grid) (r c : Int) : Prop := ∃ w, g.get r c = some w ∧ w ≠ .unoccupied

/-- `g` is what the `grid` crate stores for an `R × C` matrix (a matrix with a zero dimension is stored as 0 × 0) -/
def GridIs (g : Grid) (R C : Nat) : Prop :=
  g.data.length = R * C ∧ ((g.rows = R ∧ g.cols = C) ∨ ((R = 0 ∨ C = 0) ∧ g.rows = 0 ∧ g.cols = 0))

theorem idx_lt {r c R C : Nat} (hr : r < R) (hc : c < C) : r * C + c < R * C := by
  have h1 : (r + 1) * C ≤ R * C := Nat.mul_le_mul_right C hr
  rw [Nat.succ_mul] at h1
  omega

theorem GridIs.len_eq {g : Grid} {R C : Nat} (h : GridIs g R C) : g.data.length = g.rows * g.cols := by
  obtain ⟨h1, h2 | ⟨h2, h3, h4⟩⟩ := h
  · rw [h2.1, h2.2]; exact h1
  · rw [h1, h3, h4]; rcases h2 with rfl | rfl <;> simp

theorem gridNew_is (R C : Nat) : GridIs (Grid.new R C) R C := by
  unfold Grid.new
  split
  · rename_i h
    refine ⟨?_, .inr ⟨h, rfl, rfl⟩⟩
    rcases h with rfl | rfl <;> simp
  · rename_i h
    exact ⟨by simp, .inl ⟨rfl, rfl⟩⟩

theorem fromVec_spec {v : List Cell} {R C : Nat} (hlen : v.length = R * C) :
    ∃ g, Grid.fromVec v C = .ok g ∧ g.data = v ∧ GridIs g R C := by
  unfold Grid.fromVec
  by_cases hC : C = 0
  · subst hC
    simp only [Nat.mul_zero] at hlen
    refine ⟨⟨v, 0, 0⟩, ?_, rfl, by simpa using hlen, .inr ⟨.inr rfl, rfl, rfl⟩⟩
    simp [hlen]
  · have hdiv : v.length / C = R := by rw [hlen]; exact Nat.mul_div_cancel _ (Nat.pos_of_ne_zero hC)
    by_cases hR : R = 0
    · subst hR
      refine ⟨⟨v, 0, 0⟩, ?_, rfl, hlen, .inr ⟨.inl rfl, rfl, rfl⟩⟩
      simp [hC, hdiv, hlen]
    · refine ⟨⟨v, R, C⟩, ?_, rfl, hlen, .inl ⟨rfl, rfl⟩⟩
      rw [hlen] at hdiv
      simp only [hC, ↓reduceIte, hlen, hdiv, ne_eq, not_true_eq_false, hR, or_self]

theorem get_eq_some {g : Grid} {r c : Int} {w : Cell} (h : g.get r c = some w) :
    0 ≤ r ∧ 0 ≤ c ∧ r.toNat < g.rows ∧ c.toNat < g.cols ∧ g.data[r.toNat * g.cols + c.toNat]? = some w := by
  unfold Grid.get at h
  split at h
  · rename_i hb; exact ⟨hb.1, hb.2.1, hb.2.2.1, hb.2.2.2, h⟩
  · cases h

theorem set_spec {g g' : Grid} {r c : Int} {v : Cell} (h : g.set r c v = .ok g') :
    g'.rows = g.rows ∧ g'.cols = g.cols ∧ g'.data.length = g.data.length ∧
    (v ≠ .unoccupied → ∀ r' c', Occupied g r' c' → Occupied g' r' c') ∧
    (v ≠ .unoccupied → g.data.length = g.rows * g.cols → Occupied g' r c) := by
  unfold Grid.set at h
  split at h
  · rename_i hb
    simp only [Outcome.ok.injEq] at h
    subst h
    refine ⟨rfl, rfl, by simp, ?_, ?_⟩
    · intro hv r' c' ⟨w, hw, hne⟩
      obtain ⟨a1, a2, a3, a4, a5⟩ := get_eq_some hw
      unfold Occupied Grid.get
      simp only [a1, a2, a3, a4, and_self, ↓reduceIte, List.getElem?_set]
      split
      · rename_i heq
        have : r.toNat * g.cols + c.toNat < g.data.length := by
          rw [heq]; exact (List.getElem?_eq_some_iff.1 a5).1
        simp only [this, ↓reduceIte]
        exact ⟨v, rfl, hv⟩
      · exact ⟨w, a5, hne⟩
    · intro hv hlen
      unfold Occupied Grid.get
      have : r.toNat * g.cols + c.toNat < g.data.length := by rw [hlen]; exact idx_lt hb.2.2.1 hb.2.2.2
      simp only [hb, and_self, ↓reduceIte, List.getElem?_set, this]
      exact ⟨v, rfl, hv⟩
  · cases h

theorem markRow_spec {x : Int} {v : Cell} (hv : v ≠ .unoccupied) :
    ∀ {ys : List Int} {g g' : Grid}, Matrix.markRow g x v ys = .ok g' →
      g'.rows = g.rows ∧ g'.cols = g.cols ∧ g'.data.length = g.data.length ∧
      (∀ r' c', Occupied g r' c' → Occupied g' r' c') ∧
      (g.data.length = g.rows * g.cols → ∀ y ∈ ys, Occupied g' x y) := by
  intro ys
  induction ys with
  | nil =>
    intro g g' h
    simp only [Matrix.markRow, pure_eq, Outcome.ok.injEq] at h
    subst h
    exact ⟨rfl, rfl, rfl, fun _ _ h => h, fun _ _ hy => nomatch hy⟩
  | cons y ys ih =>
    intro g g' h
    simp only [Matrix.markRow, bind_eq, bind_eq_ok] at h
    obtain ⟨g1, h1, h2⟩ := h
    obtain ⟨a1, a2, a3, a4, a5⟩ := set_spec h1
    obtain ⟨b1, b2, b3, b4, b5⟩ := ih h2
    refine ⟨b1.trans a1, b2.trans a2, b3.trans a3, fun r' c' ho => b4 _ _ (a4 hv _ _ ho), ?_⟩
    intro hlen y' hy'
    rcases List.mem_cons.1 hy' with rfl | hy'
    · exact b4 _ _ (a5 hv hlen)
    · exact b5 (by rw [a3, a1, a2]; exact hlen) y' hy'

theorem markRows_spec {cols : List Int} {v : Cell} (hv : v ≠ .unoccupied) :
    ∀ {xs : List Int} {g g' : Grid}, Matrix.markRows g cols v xs = .ok g' →
      g'.rows = g.rows ∧ g'.cols = g.cols ∧ g'.data.length = g.data.length ∧
      (∀ r' c', Occupied g r' c' → Occupied g' r' c') ∧
      (g.data.length = g.rows * g.cols → ∀ x ∈ xs, ∀ y ∈ cols, Occupied g' x y) := by
  intro xs
  induction xs with
  | nil =>
    intro g g' h
    simp only [Matrix.markRows, pure_eq, Outcome.ok.injEq] at h
    subst h
    exact ⟨rfl, rfl, rfl, fun _ _ h => h, fun _ _ hx => nomatch hx⟩
  | cons x xs ih =>
    intro g g' h
    simp only [Matrix.markRows, bind_eq, bind_eq_ok] at h
    obtain ⟨g1, h1, h2⟩ := h
    obtain ⟨a1, a2, a3, a4, a5⟩ := markRow_spec hv h1
    obtain ⟨b1, b2, b3, b4, b5⟩ := ih h2
    refine ⟨b1.trans a1, b2.trans a2, b3.trans a3, fun r' c' ho => b4 _ _ (a4 _ _ ho), ?_⟩
    intro hlen x' hx' y hy
    rcases List.mem_cons.1 hx' with rfl | hx'
    · exact b4 _ _ (a5 hlen y hy)
    · exact b5 (by rw [a3, a1, a2]; exact hlen) x' hx' y hy

theorem mem_rangeI {s e x : Int} : x ∈ rangeI s e ↔ s ≤ x ∧ x < e := by
  unfold rangeI
  simp only [List.mem_map, List.mem_range]
  constructor
  · rintro ⟨i, hi, rfl⟩; omega
  · rintro ⟨h1, h2⟩
    exact ⟨(x - s).toNat, by omega, by omega⟩

/-! ### copying the old cells in `expand_to_fit_range` -/

theorem copyRow_spec {g : Grid} {row : Nat} : ∀ {cols : List Nat} {ex : List Cell},
    Matrix.copyRow g row cols = .ok ex →
    ex.length = cols.length ∧ ∀ i, i < cols.length → ex[i]? = g.get row (cols[i]?.getD 0) := by
  intro cols
  induction cols with
  | nil =>
    intro ex h
    simp only [Matrix.copyRow, pure_eq, Outcome.ok.injEq] at h
    subst h
    exact ⟨rfl, fun i hi => by simp at hi⟩
  | cons c cs ih =>
    intro ex h
    simp only [Matrix.copyRow] at h
    split at h
    · rename_i v hv
      simp only [bind_eq, bind_eq_ok, pure_eq, Outcome.ok.injEq] at h
      obtain ⟨tl, htl, rfl⟩ := h
      obtain ⟨a1, a2⟩ := ih htl
      refine ⟨by simp [a1], ?_⟩
      intro i hi
      cases i with
      | zero => simpa using hv.symm
      | succ i =>
        simp only [List.length_cons] at hi
        simpa using a2 i (by omega)
    · cases h

theorem copyRows_spec {g : Grid} {C : Nat} {pc : Int} : ∀ {rows : List Nat} {body : List Cell},
    Matrix.copyRows g C 0 pc rows = .ok body →
    body.length = rows.length * (C + pc.toNat) ∧
    ∀ i c, i < rows.length → c < C → body[i * (C + pc.toNat) + c]? = g.get (rows[i]?.getD 0) c := by
  intro rows
  induction rows with
  | nil =>
    intro body h
    simp only [Matrix.copyRows, pure_eq, Outcome.ok.injEq] at h
    subst h
    exact ⟨by simp, fun i c hi => by simp at hi⟩
  | cons r rs ih =>
    intro body h
    simp only [Matrix.copyRows, bind_eq, bind_eq_ok, pure_eq, Outcome.ok.injEq] at h
    obtain ⟨ex, hex, tl, htl, rfl⟩ := h
    obtain ⟨e1, e2⟩ := copyRow_spec hex
    obtain ⟨a1, a2⟩ := ih htl
    simp only [List.length_range] at e1 e2
    simp only [Int.toNat_zero, List.replicate_zero, List.nil_append, List.append_assoc]
    refine ⟨?_, ?_⟩
    · simp only [List.length_append, List.length_replicate, List.length_cons, e1, a1, Nat.succ_mul]
      omega
    · intro i c hi hc
      cases i with
      | zero =>
        simp only [Nat.zero_mul, Nat.zero_add]
        rw [List.getElem?_append_left (by omega)]
        have := e2 c hc
        simpa [List.getElem?_range hc] using this
      | succ i =>
        simp only [List.length_cons] at hi
        have hidx : (i + 1) * (C + pc.toNat) + c = (ex ++ List.replicate pc.toNat Cell.unoccupied).length +
            (i * (C + pc.toNat) + c) := by
          simp only [List.length_append, List.length_replicate, e1, Nat.succ_mul]; omega
        rw [← List.append_assoc, hidx, List.getElem?_append_right (by omega)]
        simp only [Nat.add_sub_cancel_left]
        simpa using a2 i c (by omega) hc

/-! ### the matrix -/

def TrackCounts.total (t : TrackCounts) : Int := t.negativeImplicit + t.explicit + t.positiveImplicit

/-- the inner grid has the dimensions the track counts say -/
def MatrixWF (m : Matrix) : Prop := GridIs m.inner m.rows.total.toNat m.columns.total.toNat

/-- the cell at origin-zero track position (row `r`, column `c`) is occupied -/
def OccupiedOz (m : Matrix) (r c : Int) : Prop :=
  Occupied m.inner (r + m.rows.negativeImplicit) (c + m.columns.negativeImplicit)

theorem withTrackCounts_wf {cols rows : TrackCounts} {m : Matrix} (h : Matrix.withTrackCounts cols rows = .ok m) :
    MatrixWF m ∧ m.columns = cols ∧ m.rows = rows ∧ ∀ r c, ¬ OccupiedOz m r c := by
  simp only [Matrix.withTrackCounts, bind_eq, bind_eq_ok, pure_eq, Outcome.ok.injEq] at h
  obtain ⟨r, hr, c, hc, rfl⟩ := h
  have e1 := (len_eq_ok.1 hr).1
  have e2 := (len_eq_ok.1 hc).1
  refine ⟨?_, rfl, rfl, ?_⟩
  · unfold MatrixWF TrackCounts.total
    rw [← e1, ← e2]; exact gridNew_is _ _
  · rintro r' c' ⟨w, hw, hne⟩
    obtain ⟨_, _, a3, a4, a5⟩ := get_eq_some hw
    unfold Grid.new at a5 a3 a4
    dsimp only at a5 a3 a4
    split at a5
    · simp at a5
    · have := List.mem_of_getElem? a5
      simp only [List.mem_replicate] at this
      exact hne this.2

theorem GridIs.proper_of_get {g : Grid} {R C : Nat} (h : GridIs g R C) {r c : Int} {w : Cell}
    (hw : g.get r c = some w) : g.rows = R ∧ g.cols = C := by
  obtain ⟨_, _, a3, _, _⟩ := get_eq_some hw
  rcases h.2 with h2 | ⟨_, h3, _⟩
  · exact h2
  · omega

theorem expand_cells {m m' : Matrix} {rr cr : Line Int} (wf : MatrixWF m) (h : m.expandToFitRange rr cr = .ok m') :
    MatrixWF m' ∧ ∀ r c, OccupiedOz m r c → OccupiedOz m' r c := by
  obtain ⟨rl, cl, body, hrl, hcl, z1, z2, hbody, hvec, er, ec⟩ := expand_spec h
  have l1 := len_eq_ok.1 hrl
  have l2 := len_eq_ok.1 hcl
  have hR : m.rows.total = rl := by unfold TrackCounts.total; omega
  have hCc : m.columns.total = cl := by unfold TrackCounts.total; omega
  unfold MatrixWF at wf
  rw [hR, hCc] at wf
  obtain ⟨b1, b2⟩ := copyRows_spec hbody
  simp only [List.length_range] at b1 b2
  have hrl0 : 0 ≤ rl := by omega
  have hcl0 : 0 ≤ cl := by omega
  -- the new dimensions
  have hC : (cl + max (cr.«end» - cl) 0).toNat = cl.toNat + (max (cr.«end» - cl) 0).toNat := by omega
  have hRn : (rl + max (rr.«end» - rl) 0).toNat = rl.toNat + (max (rr.«end» - rl) 0).toNat := by omega
  have hlen : (body ++ List.replicate (max (rr.«end» - rl) 0 * (cl + max (cr.«end» - cl) 0)).toNat
      Cell.unoccupied).length = (rl.toNat + (max (rr.«end» - rl) 0).toNat) * (cl + max (cr.«end» - cl) 0).toNat := by
    simp only [List.length_append, List.length_replicate, b1, hC, Nat.add_mul]
    congr 1
    rw [Int.toNat_mul (by omega) (by omega), hC]
  obtain ⟨g, hg, hdata, hgis⟩ := fromVec_spec hlen
  rw [hvec] at hg
  simp only [Outcome.ok.injEq] at hg
  have hR' : m'.rows.total = rl + max (rr.«end» - rl) 0 := by
    rw [er]; unfold TrackCounts.total; dsimp only; omega
  have hC' : m'.columns.total = cl + max (cr.«end» - cl) 0 := by
    rw [ec]; unfold TrackCounts.total; dsimp only; omega
  have wf' : MatrixWF m' := by
    unfold MatrixWF
    rw [hR', hC', hg, hRn]; exact hgis
  refine ⟨wf', ?_⟩
  rintro r c ⟨w, hw, hne⟩
  obtain ⟨p1, p2⟩ := wf.proper_of_get hw
  obtain ⟨a1, a2, a3, a4, a5⟩ := get_eq_some hw
  rw [p1] at a3; rw [p2] at a4 a5
  have n1 : m'.rows.negativeImplicit = m.rows.negativeImplicit := by rw [er]
  have n2 : m'.columns.negativeImplicit = m.columns.negativeImplicit := by rw [ec]
  refine ⟨w, ?_, hne⟩
  unfold OccupiedOz at *
  rw [n1, n2]
  -- the new grid is proper
  have hprop : m'.inner.rows = rl.toNat + (max (rr.«end» - rl) 0).toNat ∧
      m'.inner.cols = (cl + max (cr.«end» - cl) 0).toNat := by
    rw [hg]
    rcases hgis.2 with h2 | ⟨h2, _, _⟩
    · exact h2
    · omega
  unfold Grid.get
  have c1 : (r + m.rows.negativeImplicit).toNat < m'.inner.rows := by rw [hprop.1]; omega
  have c2 : (c + m.columns.negativeImplicit).toNat < m'.inner.cols := by rw [hprop.2]; omega
  simp only [a1, a2, c1, c2, and_self, ↓reduceIte]
  rw [hprop.2, hg, hdata, hC]
  have hb := b2 (r + m.rows.negativeImplicit).toNat (c + m.columns.negativeImplicit).toNat a3 a4
  have hidx : (r + m.rows.negativeImplicit).toNat * (cl.toNat + (max (cr.«end» - cl) 0).toNat) +
      (c + m.columns.negativeImplicit).toNat < body.length := by
    rw [b1]; exact idx_lt a3 (by omega)
  rw [List.getElem?_append_left hidx, hb, List.getElem?_range a3]
  simp only [Option.getD_some, Int.toNat_of_nonneg a1, Int.toNat_of_nonneg a2]
  exact hw

theorem GridIs.transfer {g g' : Grid} {R C : Nat} (h : GridIs g R C) (h1 : g'.rows = g.rows) (h2 : g'.cols = g.cols)
    (h3 : g'.data.length = g.data.length) : GridIs g' R C := by
  unfold GridIs at *
  rw [h1, h2, h3]; exact h

/-- the line ranges of the row and column span contain the origin-zero track position `(r, c)` -/
def InArea (row col : Line Int) (r c : Int) : Prop :=
  row.start ≤ r ∧ r < row.«end» ∧ col.start ≤ c ∧ c < col.«end»

/-- `mark_area_as` with a non-`Unoccupied` value: well-formedness is kept, occupied cells stay occupied (at the same
origin-zero position, also across an expansion), and every cell of the marked area is occupied afterwards -/
theorem markAreaAs_cells {m m' : Matrix} {ax : Axis} {p s : Line Int} {v : Cell} (hv : v ≠ .unoccupied)
    (wf : MatrixWF m) (h : m.markAreaAs ax p s v = .ok m') :
    MatrixWF m' ∧ (∀ r c, OccupiedOz m r c → OccupiedOz m' r c) ∧
    (∀ r c, InArea (rowOf ax p s) (colOf ax p s) r c → OccupiedOz m' r c) := by
  obtain ⟨m1, cr, rr, hcr, hrr, hcase, hmark, hc, hr⟩ := markAreaAs_spec h
  have step1 : MatrixWF m1 ∧ ∀ r c, OccupiedOz m r c → OccupiedOz m1 r c := by
    rcases hcase with ⟨rfl, _⟩ | ⟨cr0, rr0, _, _, _, he⟩
    · exact ⟨wf, fun _ _ h => h⟩
    · exact expand_cells wf he
  obtain ⟨wf1, keep1⟩ := step1
  obtain ⟨b1, b2, b3, b4, b5⟩ := markRows_spec hv hmark
  obtain ⟨c1, c2⟩ := ozRange_eq_ok hcr
  obtain ⟨r1, r2⟩ := ozRange_eq_ok hrr
  refine ⟨?_, ?_, ?_⟩
  · unfold MatrixWF at *
    rw [hc, hr]; exact wf1.transfer b1 b2 b3
  · intro r c ho
    have := b4 _ _ (keep1 r c ho)
    unfold OccupiedOz at *
    rw [hc, hr]; exact this
  · intro r c ⟨a1, a2, a3, a4⟩
    unfold OccupiedOz
    rw [hc, hr]
    exact b5 wf1.len_eq _ (mem_rangeI.2 ⟨by omega, by omega⟩) _ (mem_rangeI.2 ⟨by omega, by omega⟩)

theorem cellFree_not_occupied {g : Grid} {x y : Int} (h : Matrix.cellFree g x y = true) : ¬ Occupied g x y := by
  rintro ⟨w, hw, hne⟩
  unfold Matrix.cellFree at h
  rw [hw] at h
  cases w <;> simp_all

/-- an area reported free by `line_area_is_unoccupied` contains no occupied cell -/
theorem free_cells {m : Matrix} {ax : Axis} {p s : Line Int} (h : m.lineAreaIsUnoccupied ax p s = .ok true) :
    ∀ r c, InArea (rowOf ax p s) (colOf ax p s) r c → ¬ OccupiedOz m r c := by
  simp only [Matrix.lineAreaIsUnoccupied, bind_eq, bind_eq_ok, pure_eq, Outcome.ok.injEq] at h
  obtain ⟨pr, hpr, sr, hsr, hall⟩ := h
  obtain ⟨p1, p2⟩ := ozRange_eq_ok hpr
  obtain ⟨s1, s2⟩ := ozRange_eq_ok hsr
  simp only [Matrix.trackAreaIsUnoccupied, List.all_eq_true] at hall
  intro r c ⟨a1, a2, a3, a4⟩
  unfold OccupiedOz
  apply cellFree_not_occupied
  cases ax
  · simp only [rowOf, colOf, Matrix.trackCounts, Axis.other] at *
    exact hall _ (mem_rangeI.2 ⟨by omega, by omega⟩) _ (mem_rangeI.2 ⟨by omega, by omega⟩)
  · simp only [rowOf, colOf, Matrix.trackCounts, Axis.other] at *
    exact hall _ (mem_rangeI.2 ⟨by omega, by omega⟩) _ (mem_rangeI.2 ⟨by omega, by omega⟩)

/-! ### invariant C -/

theorem overlaps_iff {a b : Item} (ha : a.nonempty = true) (hb : b.nonempty = true) :
    a.overlaps b = true ↔ ∃ r c, InArea a.row a.column r c ∧ InArea b.row b.column r c := by
  simp only [Item.nonempty, Bool.and_eq_true, decide_eq_true_eq] at ha hb
  simp only [Item.overlaps, Bool.and_eq_true, decide_eq_true_eq, InArea]
  constructor
  · rintro ⟨⟨⟨h1, h2⟩, h3⟩, h4⟩
    exact ⟨max a.row.start b.row.start, max a.column.start b.column.start, by omega, by omega⟩
  · rintro ⟨r, c, h1, h2⟩; omega

theorem overlaps_comm (a b : Item) : a.overlaps b = b.overlaps a := by
  simp only [Item.overlaps]
  rw [Bool.eq_iff_iff]
  simp only [Bool.and_eq_true, decide_eq_true_eq]
  constructor <;> (intro h; omega)

/-- newer item vs. an item recorded before it -/
def Rel (newer older : Item) : Prop :=
  (newer.auto = true → ∀ r c, InArea newer.row newer.column r c → ¬ InArea older.row older.column r c) ∧
  (older.auto = true → newer.auto = true)

structure InvC (children : List (Nat × Child)) (st : State) : Prop where
  wf : MatrixWF st.matrix
  covered : ∀ it ∈ st.items, ∀ r c, InArea it.row it.column r c → OccupiedOz st.matrix r c
  pairwise : st.items.Pairwise Rel
  autoFlag : ∀ it ∈ st.items, ∃ ch, (it.index, ch) ∈ children ∧ it.auto = isAutoPlaced ch

theorem invC_final {fuel : Nat} {m : Matrix} {children : List (Nat × Child)} {flow : AutoFlow} {final : State}
    (wf : MatrixWF m) (h : placeGridItems fuel m children flow = .ok final) : InvC children final := by
  refine place_induction (InvC children) h
    ⟨wf, (fun _ h => nomatch h), List.Pairwise.nil, (fun _ h => nomatch h)⟩ ?_
  intro st st' c ch p s kind inv hfc hpl hkind hflag hdef hrec
  obtain ⟨hit, hmark⟩ := recordGridPlacement_spec hrec
  have hv : kind ≠ .unoccupied := by rcases hkind with rfl | rfl <;> simp
  obtain ⟨wf', keep, mark⟩ := markAreaAs_cells hv inv.wf hmark
  refine ⟨wf', ?_, ?_, ?_⟩
  · intro it hmem r c harea
    rw [hit] at hmem
    rcases List.mem_cons.1 hmem with rfl | hmem
    · exact mark r c harea
    · exact keep r c (inv.covered it hmem r c harea)
  · rw [hit]
    refine List.Pairwise.cons ?_ inv.pairwise
    intro o ho
    constructor
    · intro hauto
      have hk : kind = .autoPlaced := by
        rcases hkind with rfl | rfl
        · have : (Cell.definitelyPlaced == Cell.autoPlaced) = false := by decide
          rw [show (_ : Item).auto = (Cell.definitelyPlaced == Cell.autoPlaced) from rfl, this] at hauto
          cases hauto
        · rfl
      have hfree := free_cells (hpl.free hk)
      intro r c h1 h2
      exact absurd (inv.covered o ho r c h2) (hfree r c h1)
    · intro hoa
      rcases hkind with rfl | rfl
      · rw [hdef rfl o ho] at hoa; cases hoa
      · rfl
  · intro it hmem
    rw [hit] at hmem
    rcases List.mem_cons.1 hmem with rfl | hmem
    · exact ⟨ch, hfc.1, hflag⟩
    · exact inv.autoFlag it hmem

end GridPlacement
