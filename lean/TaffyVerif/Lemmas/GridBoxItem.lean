/-
  C12 / C06 for grid: the item transformation.

  A `GItem` carries raw copies of the child style's `box_sizing`, `size`, `min_size`, `max_size` (grid_item.rs l.113–115).
  `phi P it` is the item the algorithm would have built from the border-box description of the child's style when the
  child index is in the switched subset `P` (and the item is eligible), and `it` itself otherwise.  The four fields are
  never modified after `GridItem::new…`, and they are read by `known_dimensions` and `minimum_contribution` only:
      `Readers P`   those two readers do not see `phi P`
  (proved at `Rat` in Lemmas/GridBoxSites.lean; trivial for `P = fun _ => false`, where `phi P = id`).
  Everything else the algorithm does with an item commutes with `phi P` (`phi_*` lemmas, all by case analysis + `rfl`).
-/
import TaffyVerif.Model.BoxSizing
import TaffyVerif.Lemmas.GridBoxRel

set_option linter.unusedSectionVars false

namespace GridRel
open GridModel GridTracks BoxSizingModel
variable {α : Type} [Num α]

def itemElig (it : GItem α) : Bool :=
  (match it.boxSizing with | .contentBox => true | .borderBox => false) && it.aspectRatio.isNone
    && rectIsLength it.padding && rectIsLength it.border
    && sizeNoPercent it.size && sizeNoPercent it.minSize && sizeNoPercent it.maxSize

def itemPb (it : GItem α) : Size α := ((rectLen it.padding).add (rectLen it.border)).sumAxes

def bumpItem (it : GItem α) : GItem α :=
  { it with boxSizing := .borderBox, size := bumpSize it.size (itemPb it), minSize := bumpSize it.minSize (itemPb it),
            maxSize := bumpSize it.maxSize (itemPb it) }

def phi (P : Nat → Bool) (it : GItem α) : GItem α := if (P it.node && itemElig it) = true then bumpItem it else it

theorem phi_cases (P : Nat → Bool) (it : GItem α) :
    phi P it = it ∨ (itemElig it = true ∧ phi P it = bumpItem it) := by
  unfold phi
  split
  · rename_i h
    simp only [Bool.and_eq_true] at h
    exact Or.inr ⟨h.2, rfl⟩
  · exact Or.inl rfl

theorem phi_false (it : GItem α) : phi (fun _ => false) it = it := by
  unfold phi
  simp only [Bool.false_and, Bool.false_eq_true, if_false]

theorem map_phi_false (l : List (GItem α)) : l.map (phi (fun _ => false)) = l := by
  rw [show phi (α := α) (fun _ => false) = id from funext phi_false, List.map_id]

/-- a function of an item that does not read the four fields does not see `phi` -/
theorem phi_blind {β : Type} (P : Nat → Bool) (f : GItem α → β) (hf : ∀ it, f (bumpItem it) = f it) (it : GItem α) :
    f (phi P it) = f it := by
  rcases phi_cases P it with h | ⟨_, h⟩ <;> rw [h]
  exact hf it

/-- an update of fields other than the four (and `node`, padding, border, aspect ratio) commutes with `phi` -/
theorem phi_upd (P : Nat → Bool) (u : GItem α → GItem α)
    (hc : ∀ it, (P (u it).node && itemElig (u it)) = (P it.node && itemElig it))
    (hb : ∀ it, bumpItem (u it) = u (bumpItem it)) (it : GItem α) : phi P (u it) = u (phi P it) := by
  unfold phi
  rw [hc]
  split
  · exact hb it
  · rfl

variable (P : Nat → Bool)

/-! ### projections -/

@[simp] theorem phi_node (it : GItem α) : (phi P it).node = it.node := phi_blind P (·.node) (fun _ => rfl) it
@[simp] theorem phi_sourceOrder (it : GItem α) : (phi P it).sourceOrder = it.sourceOrder :=
  phi_blind P (·.sourceOrder) (fun _ => rfl) it
@[simp] theorem phi_row (it : GItem α) : (phi P it).row = it.row := phi_blind P (·.row) (fun _ => rfl) it
@[simp] theorem phi_column (it : GItem α) : (phi P it).column = it.column := phi_blind P (·.column) (fun _ => rfl) it
@[simp] theorem phi_isCompressibleReplaced (it : GItem α) : (phi P it).isCompressibleReplaced = it.isCompressibleReplaced :=
  phi_blind P (·.isCompressibleReplaced) (fun _ => rfl) it
@[simp] theorem phi_overflow (it : GItem α) : (phi P it).overflow = it.overflow :=
  phi_blind P (·.overflow) (fun _ => rfl) it
@[simp] theorem phi_margin (it : GItem α) : (phi P it).margin = it.margin := phi_blind P (·.margin) (fun _ => rfl) it
@[simp] theorem phi_alignSelf (it : GItem α) : (phi P it).alignSelf = it.alignSelf :=
  phi_blind P (·.alignSelf) (fun _ => rfl) it
@[simp] theorem phi_justifySelf (it : GItem α) : (phi P it).justifySelf = it.justifySelf :=
  phi_blind P (·.justifySelf) (fun _ => rfl) it
@[simp] theorem phi_baseline (it : GItem α) : (phi P it).baseline = it.baseline :=
  phi_blind P (·.baseline) (fun _ => rfl) it
@[simp] theorem phi_baselineShim (it : GItem α) : (phi P it).baselineShim = it.baselineShim :=
  phi_blind P (·.baselineShim) (fun _ => rfl) it
@[simp] theorem phi_rowIndexes (it : GItem α) : (phi P it).rowIndexes = it.rowIndexes :=
  phi_blind P (·.rowIndexes) (fun _ => rfl) it
@[simp] theorem phi_columnIndexes (it : GItem α) : (phi P it).columnIndexes = it.columnIndexes :=
  phi_blind P (·.columnIndexes) (fun _ => rfl) it
@[simp] theorem phi_crossesFlexibleRow (it : GItem α) : (phi P it).crossesFlexibleRow = it.crossesFlexibleRow :=
  phi_blind P (·.crossesFlexibleRow) (fun _ => rfl) it
@[simp] theorem phi_crossesFlexibleColumn (it : GItem α) : (phi P it).crossesFlexibleColumn = it.crossesFlexibleColumn :=
  phi_blind P (·.crossesFlexibleColumn) (fun _ => rfl) it
@[simp] theorem phi_crossesIntrinsicRow (it : GItem α) : (phi P it).crossesIntrinsicRow = it.crossesIntrinsicRow :=
  phi_blind P (·.crossesIntrinsicRow) (fun _ => rfl) it
@[simp] theorem phi_crossesIntrinsicColumn (it : GItem α) :
    (phi P it).crossesIntrinsicColumn = it.crossesIntrinsicColumn :=
  phi_blind P (·.crossesIntrinsicColumn) (fun _ => rfl) it
@[simp] theorem phi_availableSpaceCache (it : GItem α) : (phi P it).availableSpaceCache = it.availableSpaceCache :=
  phi_blind P (·.availableSpaceCache) (fun _ => rfl) it
@[simp] theorem phi_minContentContributionCache (it : GItem α) :
    (phi P it).minContentContributionCache = it.minContentContributionCache :=
  phi_blind P (·.minContentContributionCache) (fun _ => rfl) it
@[simp] theorem phi_maxContentContributionCache (it : GItem α) :
    (phi P it).maxContentContributionCache = it.maxContentContributionCache :=
  phi_blind P (·.maxContentContributionCache) (fun _ => rfl) it
@[simp] theorem phi_minimumContributionCache (it : GItem α) :
    (phi P it).minimumContributionCache = it.minimumContributionCache :=
  phi_blind P (·.minimumContributionCache) (fun _ => rfl) it
@[simp] theorem phi_yPosition (it : GItem α) : (phi P it).yPosition = it.yPosition :=
  phi_blind P (·.yPosition) (fun _ => rfl) it
@[simp] theorem phi_height (it : GItem α) : (phi P it).height = it.height := phi_blind P (·.height) (fun _ => rfl) it

/-! ### derived readers -/

@[simp] theorem phi_placement (it : GItem α) (ax : Ax) : (phi P it).placement ax = it.placement ax :=
  phi_blind P (·.placement ax) (fun _ => rfl) it
@[simp] theorem phi_placementIndexes (it : GItem α) (ax : Ax) : (phi P it).placementIndexes ax = it.placementIndexes ax :=
  phi_blind P (·.placementIndexes ax) (fun _ => rfl) it
@[simp] theorem phi_trackRange (it : GItem α) (ax : Ax) : (phi P it).trackRange ax = it.trackRange ax :=
  phi_blind P (·.trackRange ax) (fun _ => rfl) it
@[simp] theorem phi_span (it : GItem α) (ax : Ax) : (phi P it).span ax = it.span ax :=
  phi_blind P (·.span ax) (fun _ => rfl) it
@[simp] theorem phi_crossesFlexibleTrack (it : GItem α) (ax : Ax) :
    (phi P it).crossesFlexibleTrack ax = it.crossesFlexibleTrack ax :=
  phi_blind P (·.crossesFlexibleTrack ax) (fun _ => rfl) it
@[simp] theorem phi_crossesIntrinsicTrack (it : GItem α) (ax : Ax) :
    (phi P it).crossesIntrinsicTrack ax = it.crossesIntrinsicTrack ax :=
  phi_blind P (·.crossesIntrinsicTrack ax) (fun _ => rfl) it
@[simp] theorem phi_spannedTracks (it : GItem α) (ax : Ax) (ts : List (GridTrack α)) :
    (phi P it).spannedTracks ax ts = it.spannedTracks ax ts :=
  phi_blind P (·.spannedTracks ax ts) (fun _ => rfl) it
@[simp] theorem phi_spannedTrackLimit (it : GItem α) (ax : Ax) (ts : List (GridTrack α)) (o : Option α) :
    (phi P it).spannedTrackLimit ax ts o = it.spannedTrackLimit ax ts o :=
  phi_blind P (·.spannedTrackLimit ax ts o) (fun _ => rfl) it
@[simp] theorem phi_spannedFixedTrackLimit (it : GItem α) (ax : Ax) (ts : List (GridTrack α)) (o : Option α) :
    (phi P it).spannedFixedTrackLimit ax ts o = it.spannedFixedTrackLimit ax ts o :=
  phi_blind P (·.spannedFixedTrackLimit ax ts o) (fun _ => rfl) it
@[simp] theorem phi_marginsAxisSums (it : GItem α) (o : Option α) :
    (phi P it).marginsAxisSums o = it.marginsAxisSums o :=
  phi_blind P (·.marginsAxisSums o) (fun _ => rfl) it
@[simp] theorem phi_availableSpace (it : GItem α) (ax : Ax) (ts : List (GridTrack α)) (o : Option α) (e : Estimate) :
    (phi P it).availableSpace ax ts o e = it.availableSpace ax ts o e :=
  phi_blind P (·.availableSpace ax ts o e) (fun _ => rfl) it
@[simp] theorem phi_scroll (it : GItem α) (ax : Ax) : (phi P it).scroll ax = it.scroll ax :=
  phi_blind P (·.scroll ax) (fun _ => rfl) it

/-! ### updates -/

theorem phi_setAvail (it : GItem α) (v : Option (Size (Option α))) :
    phi P { it with availableSpaceCache := v } = { phi P it with availableSpaceCache := v } :=
  phi_upd P (fun it => { it with availableSpaceCache := v }) (fun _ => rfl) (fun _ => rfl) it

theorem phi_setMinC (it : GItem α) (v : Size (Option α)) :
    phi P { it with minContentContributionCache := v } = { phi P it with minContentContributionCache := v } :=
  phi_upd P (fun it => { it with minContentContributionCache := v }) (fun _ => rfl) (fun _ => rfl) it

theorem phi_setMaxC (it : GItem α) (v : Size (Option α)) :
    phi P { it with maxContentContributionCache := v } = { phi P it with maxContentContributionCache := v } :=
  phi_upd P (fun it => { it with maxContentContributionCache := v }) (fun _ => rfl) (fun _ => rfl) it

theorem phi_setMinimumC (it : GItem α) (v : Size (Option α)) :
    phi P { it with minimumContributionCache := v } = { phi P it with minimumContributionCache := v } :=
  phi_upd P (fun it => { it with minimumContributionCache := v }) (fun _ => rfl) (fun _ => rfl) it

theorem phi_setBaseline (it : GItem α) (v : Option α) :
    phi P { it with baseline := v } = { phi P it with baseline := v } :=
  phi_upd P (fun it => { it with baseline := v }) (fun _ => rfl) (fun _ => rfl) it

theorem phi_setShim (it : GItem α) (v : α) :
    phi P { it with baselineShim := v } = { phi P it with baselineShim := v } :=
  phi_upd P (fun it => { it with baselineShim := v }) (fun _ => rfl) (fun _ => rfl) it

theorem phi_setIndexes (it : GItem α) (c r : Line Nat) :
    phi P { it with columnIndexes := c, rowIndexes := r } = { phi P it with columnIndexes := c, rowIndexes := r } :=
  phi_upd P (fun it => { it with columnIndexes := c, rowIndexes := r }) (fun _ => rfl) (fun _ => rfl) it

theorem phi_setCrossings (it : GItem α) (a b c d : Bool) :
    phi P { it with crossesFlexibleColumn := a, crossesIntrinsicColumn := b, crossesFlexibleRow := c,
                    crossesIntrinsicRow := d } =
      { phi P it with crossesFlexibleColumn := a, crossesIntrinsicColumn := b, crossesFlexibleRow := c,
                      crossesIntrinsicRow := d } :=
  phi_upd P (fun it => { it with crossesFlexibleColumn := a, crossesIntrinsicColumn := b, crossesFlexibleRow := c,
                                 crossesIntrinsicRow := d }) (fun _ => rfl) (fun _ => rfl) it

theorem phi_setCaches (it : GItem α) (a : Option (Size (Option α))) (b c d : Size (Option α)) :
    phi P { it with availableSpaceCache := a, minContentContributionCache := b, maxContentContributionCache := c,
                    minimumContributionCache := d } =
      { phi P it with availableSpaceCache := a, minContentContributionCache := b, maxContentContributionCache := c,
                      minimumContributionCache := d } :=
  phi_upd P (fun it => { it with availableSpaceCache := a, minContentContributionCache := b,
                                 maxContentContributionCache := c, minimumContributionCache := d })
    (fun _ => rfl) (fun _ => rfl) it

theorem phi_setPos (it : GItem α) (y h : α) :
    phi P { it with yPosition := y, height := h } = { phi P it with yPosition := y, height := h } :=
  phi_upd P (fun it => { it with yPosition := y, height := h }) (fun _ => rfl) (fun _ => rfl) it

/-! ### the two readers of the four fields, with their pieces named -/

/-- the `box_sizing_adjustment` of `minimum_contribution` -/
def mcAdj (it : GItem α) (innerNodeSize : Size (Option α)) : Size α :=
  let padding := Resolve.rectLPOrZeroSize it.padding innerNodeSize
  let border := Resolve.rectLPOrZeroSize it.border innerNodeSize
  let pbSize := (padding.add border).sumAxes
  if it.boxSizing == .contentBox then pbSize else Size.zero

/-- `size.or(min_size).or(overflow.maybe_into_automatic_min_size())` -/
def mcFromStyle (it : GItem α) (axis : Ax) (innerNodeSize : Size (Option α)) : Option α :=
  ((sget (GItem.resolveSize it.size innerNodeSize it.aspectRatio (mcAdj it innerNodeSize)) axis).or
    (sget (GItem.resolveSize it.minSize innerNodeSize it.aspectRatio (mcAdj it innerNodeSize)) axis)).or
    (pget it.overflow axis).maybeIntoAutomaticMinSize

/-- the cap of compressible replaced items (grid_item.rs l.517–522, with the repair); `size`/`maxSize` are read from the
item as it is after the min-content query, the adjustment was computed before it -/
def mcCap (size maxSize : Size (Dimension α)) (adj : Size α) (axis : Ax) (mc : α) : α :=
  let size := MaybeMath.of_add ((sget size axis).maybeResolve (some 0)) (sget adj axis)
  let maxSize := MaybeMath.of_add ((sget maxSize axis).maybeResolve (some 0)) (sget adj axis)
  MaybeMath.fo_min (MaybeMath.fo_min mc size) maxSize

/-- the content-based branch of the automatic minimum size -/
def mcAutomatic (it : GItem α) (axis : Ax) (axisTracks : List (GridTrack α))
    (knownDimensions innerNodeSize : Size (Option α)) : GM α (α × GItem α) :=
  let itemAxisTracks := it.spannedTracks axis axisTracks
  let spansAutoMinTrack := axisTracks.any fun t => t.minFn.isAuto
  let onlySpanOneTrack := itemAxisTracks.length == 1
  let spansAFlexibleTrack := axisTracks.any fun t => t.maxFn.isFr
  let useContentBasedMinimum := spansAutoMinTrack && (onlySpanOneTrack || !spansAFlexibleTrack)
  if useContentBasedMinimum then
    it.minContentContributionCached axis knownDimensions innerNodeSize >>= fun r =>
      if r.2.isCompressibleReplaced then pure (mcCap r.2.size r.2.maxSize (mcAdj it innerNodeSize) axis r.1, r.2)
      else pure (r.1, r.2)
  else pure (0, it)

def mcSize (it : GItem α) (axis : Ax) (axisTracks : List (GridTrack α))
    (knownDimensions innerNodeSize : Size (Option α)) : GM α (α × GItem α) :=
  match mcFromStyle it axis innerNodeSize with
  | some v => pure (v, it)
  | none => mcAutomatic it axis axisTracks knownDimensions innerNodeSize

theorem minimumContribution_eq (it : GItem α) (axis : Ax) (axisTracks : List (GridTrack α))
    (knownDimensions innerNodeSize : Size (Option α)) :
    it.minimumContribution axis axisTracks knownDimensions innerNodeSize =
      mcSize it axis axisTracks knownDimensions innerNodeSize >>= fun r =>
        pure (MaybeMath.fo_min r.1 (r.2.spannedFixedTrackLimit axis axisTracks (sget innerNodeSize axis)), r.2) := by
  rfl

/-- the fields of an item that no step of the algorithm modifies -/
def StaticEq (a b : GItem α) : Prop :=
  a.node = b.node ∧ a.boxSizing = b.boxSizing ∧ a.size = b.size ∧ a.minSize = b.minSize ∧ a.maxSize = b.maxSize ∧
  a.padding = b.padding ∧ a.border = b.border ∧ a.aspectRatio = b.aspectRatio

theorem StaticEq.refl (a : GItem α) : StaticEq a a := ⟨rfl, rfl, rfl, rfl, rfl, rfl, rfl, rfl⟩
theorem StaticEq.trans {a b c : GItem α} (h : StaticEq a b) (g : StaticEq b c) : StaticEq a c :=
  ⟨h.1.trans g.1, h.2.1.trans g.2.1, h.2.2.1.trans g.2.2.1, h.2.2.2.1.trans g.2.2.2.1, h.2.2.2.2.1.trans g.2.2.2.2.1,
   h.2.2.2.2.2.1.trans g.2.2.2.2.2.1, h.2.2.2.2.2.2.1.trans g.2.2.2.2.2.2.1, h.2.2.2.2.2.2.2.trans g.2.2.2.2.2.2.2⟩

/-- the hypothesis of the generic pass: the two readers do not see `phi P` -/
structure Readers (P : Nat → Bool) : Prop where
  known : ∀ (it : GItem α) (ins gas : Size (Option α)), (phi P it).knownDimensions ins gas = it.knownDimensions ins gas
  fromStyle : ∀ (it : GItem α) (ax : Ax) (ins : Size (Option α)), mcFromStyle (phi P it) ax ins = mcFromStyle it ax ins
  cap : ∀ (it it2 : GItem α) (ax : Ax) (ins : Size (Option α)) (mc : α), StaticEq it2 it →
    mcCap (phi P it2).size (phi P it2).maxSize (mcAdj (phi P it) ins) ax mc = mcCap it2.size it2.maxSize (mcAdj it ins) ax mc

theorem readers_false : Readers (α := α) (fun _ => false) :=
  ⟨fun it _ _ => by rw [phi_false], fun it _ _ => by rw [phi_false], fun it it2 _ _ _ _ => by rw [phi_false, phi_false]⟩

/-! ### related item lists -/

/-- `l'` is `l` with `phi P` applied, and every item addresses a child satisfying `G` -/
def LR (G : Nat → Prop) (l l' : List (GItem α)) : Prop := l' = l.map (phi P) ∧ ∀ x ∈ l, G x.node

/-- the single-item version -/
def IR (G : Nat → Prop) (a b : GItem α) : Prop := b = phi P a ∧ G a.node

variable {P} {G : Nat → Prop}

theorem LR.nil : LR P G ([] : List (GItem α)) [] := ⟨rfl, fun _ h => by cases h⟩

theorem LR.cons {a b : GItem α} {l l' : List (GItem α)} (h : IR P G a b) (hl : LR P G l l') :
    LR P G (a :: l) (b :: l') := by
  refine ⟨by rw [h.1, hl.1, List.map_cons], fun x hx => ?_⟩
  rcases List.mem_cons.1 hx with e | e
  · rw [e]; exact h.2
  · exact hl.2 x e

theorem LR.append {l1 l1' l2 l2' : List (GItem α)} (h1 : LR P G l1 l1') (h2 : LR P G l2 l2') :
    LR P G (l1 ++ l2) (l1' ++ l2') := by
  refine ⟨by rw [h1.1, h2.1, List.map_append], fun x hx => ?_⟩
  rcases List.mem_append.1 hx with e | e
  · exact h1.2 x e
  · exact h2.2 x e

theorem LR.take {l l' : List (GItem α)} (h : LR P G l l') (n : Nat) : LR P G (l.take n) (l'.take n) :=
  ⟨by rw [h.1, List.map_take], fun x hx => h.2 x (List.mem_of_mem_take hx)⟩

theorem LR.drop {l l' : List (GItem α)} (h : LR P G l l') (n : Nat) : LR P G (l.drop n) (l'.drop n) :=
  ⟨by rw [h.1, List.map_drop], fun x hx => h.2 x (List.mem_of_mem_drop hx)⟩

theorem LR.length {l l' : List (GItem α)} (h : LR P G l l') : l'.length = l.length := by
  rw [h.1, List.length_map]

/-- a map by an update that commutes with `phi` and keeps `node` -/
theorem LR.map {l l' : List (GItem α)} (h : LR P G l l') (u : GItem α → GItem α)
    (hu : ∀ it, u (phi P it) = phi P (u it)) (hn : ∀ it, (u it).node = it.node) : LR P G (l.map u) (l'.map u) := by
  refine ⟨?_, fun x hx => ?_⟩
  · rw [h.1, List.map_map, List.map_map]
    exact List.map_congr_left fun it _ => hu it
  · obtain ⟨y, hy, rfl⟩ := List.mem_map.1 hx
    rw [hn]; exact h.2 y hy

/-- a stable sort by a key that does not see `phi` -/
theorem LR.mergeSort {l l' : List (GItem α)} (h : LR P G l l') (le : GItem α → GItem α → Bool)
    (hle : ∀ a b, le (phi P a) (phi P b) = le a b) : LR P G (l.mergeSort le) (l'.mergeSort le) := by
  refine ⟨?_, fun x hx => h.2 x (List.mem_mergeSort.1 hx)⟩
  rw [h.1]
  exact (List.map_mergeSort (fun a _ b _ => (hle a b).symm)).symm

theorem LR.any {l l' : List (GItem α)} (h : LR P G l l') (p : GItem α → Bool) (hp : ∀ a, p (phi P a) = p a) :
    l'.any p = l.any p := by
  rw [h.1, List.any_map]
  exact congrArg _ (funext fun a => hp a)

theorem LR.getElem? {l l' : List (GItem α)} (h : LR P G l l') (i : Nat) :
    (l[i]? = none ∧ l'[i]? = none) ∨ ∃ a, l[i]? = some a ∧ l'[i]? = some (phi P a) ∧ G a.node := by
  rw [h.1, List.getElem?_map]
  cases ha : l[i]? with
  | none => exact Or.inl ⟨rfl, rfl⟩
  | some a => exact Or.inr ⟨a, rfl, rfl, h.2 a (List.mem_of_getElem? ha)⟩

end GridRel
