/-
  A decidable sufficient condition for "this grid container never panics, whatever its input and whatever its children
  answer" (`gridSafeB`), and its tree version (`gridCalmB`) which implies `GridCalm`.

  `gridSafeB style cs`:
    * neither template has an `auto-fill` / `auto-fit` repetition (then the setup does not depend on the input), and
    * the setup, run once (on `plIn`), does not panic and its result passes `suOKb`.
-/
import TaffyVerif.Lemmas.EvalGridSafe3

set_option linter.unusedSectionVars false
set_option linter.unusedVariables false

namespace EvalGrid
open GridModel GridTracks EvalBlock
variable {α : Type} [Num α] [NumCast α]

/-! ### without auto-repetition the setup does not depend on the input -/

def noAutoRep (tpl : List (TrackDef α)) : Bool := (tpl.filter TrackDef.isAutoRepetition).isEmpty

theorem computeExplicit_indep (size maxSize : Dimension α) (gap : LP α) (tpl : List (TrackDef α))
    (inner inner' : Option α) (h : noAutoRep tpl = true) :
    computeExplicitGridSizeInAxis size maxSize gap tpl inner =
      computeExplicitGridSizeInAxis size maxSize gap tpl inner' := by
  have h0 : tpl.filter TrackDef.isAutoRepetition = [] := by simpa [noAutoRep] using h
  unfold computeExplicitGridSizeInAxis
  simp [h0]

theorem gridSetupK_indep {β : Type} (style : GridStyle α) (childStyles : List (GridChildStyle α))
    (inp inp' : LayoutInput α) (k : Setup α → GM α β)
    (hc : noAutoRep style.gridTemplateColumns = true) (hr : noAutoRep style.gridTemplateRows = true) :
    gridSetupK style childStyles inp k = gridSetupK style childStyles inp' k := by
  have e : ∀ placed, itemsOf (mkCtx style.base inp) childStyles placed =
      itemsOf (mkCtx style.base inp') childStyles placed := fun _ => rfl
  unfold gridSetupK gridSetupA
  simp only [e]
  rw [computeExplicit_indep _ _ _ _ (mkCtx style.base inp).autoFitContainerSize.width
      (mkCtx style.base inp').autoFitContainerSize.width hc,
    computeExplicit_indep _ _ _ _ (mkCtx style.base inp).autoFitContainerSize.height
      (mkCtx style.base inp').autoFitContainerSize.height hr]

/-! ### running the setup once -/

/-- the result of a program that makes no child call -/
def probeOk {β : Type} : ProgM α (Except String β) → Option β
  | .pure (.ok b) => some b
  | _ => none

/-- the `Setup` the setup stages produce on this input, if they do not panic -/
def setupOf (style : GridStyle α) (childStyles : List (GridChildStyle α)) (inp : LayoutInput α) : Option (Setup α) :=
  probeOk (run (gridSetupK style childStyles inp fun su => (pure su : GM α (Setup α))))

theorem setupOf_spec (style : GridStyle α) (childStyles : List (GridChildStyle α)) (inp : LayoutInput α) (su : Setup α)
    (h : setupOf style childStyles inp = some su) :
    ∀ {β : Type} (k : Setup α → GM α β), gridSetupK style childStyles inp k = k su := by
  rcases gridSetupK_cases style childStyles inp with ⟨e, he⟩ | ⟨su', _, hk⟩
  · unfold setupOf at h
    rw [he] at h
    cases h
  · unfold setupOf at h
    rw [hk] at h
    have : su' = su := by
      have : probeOk (run (pure su' : GM α (Setup α))) = some su' := rfl
      rw [this] at h
      exact Option.some.inj h
    subst this
    exact fun {β} k => hk k

/-! ### the Boolean checks -/

def inRb (ax : Ax) (L : Nat) (it : GItem α) : Bool :=
  decide ((it.placementIndexes ax).start + 1 ≤ (it.placementIndexes ax).end) &&
    decide ((it.placementIndexes ax).end < L)

/-- `SuOK`, executable -/
def suOKb (childStyles : List (GridChildStyle α)) (su : Setup α) : Bool :=
  su.items.all (inRb .inl su.columns.length) && su.items.all (inRb .blk su.rows.length) &&
    su.items.all (fun it => decide (it.node < childStyles.length)) &&
    absOKb childStyles su.finalColCounts su.finalRowCounts &&
    decide (vecLen su.finalColCounts ≤ (su.columns.length : Int)) &&
    decide (vecLen su.finalRowCounts ≤ (su.rows.length : Int))

theorem suOKb_sound (childStyles : List (GridChildStyle α)) (su : Setup α) (h : suOKb childStyles su = true) :
    SuOK childStyles su := by
  simp only [suOKb, Bool.and_eq_true, List.all_eq_true, decide_eq_true_eq] at h
  obtain ⟨⟨⟨⟨⟨h1, h2⟩, h3⟩, h4⟩, h5⟩, h6⟩ := h
  refine ⟨fun it hit => ?_, fun it hit => ?_, h3, h4, h5, h6⟩
  · have := h1 it hit
    simp only [inRb, Bool.and_eq_true, decide_eq_true_eq] at this
    exact this
  · have := h2 it hit
    simp only [inRb, Bool.and_eq_true, decide_eq_true_eq] at this
    exact this

/-- **gridSafeB**: a decidable sufficient condition for `GridNoPanic` -/
def gridSafeB (style : Style α) (cs : List (Style α)) : Bool :=
  noAutoRep (GridStyle.ofStyle style).gridTemplateColumns && noAutoRep (GridStyle.ofStyle style).gridTemplateRows &&
    match setupOf (GridStyle.ofStyle style) (cs.map GridChildStyle.ofStyle) EvalBlock.plIn with
    | some su => suOKb (cs.map GridChildStyle.ofStyle) su
    | none => false

theorem gridSafeB_sound (style : Style α) (cs : List (Style α)) (h : gridSafeB style cs = true) :
    GridNoPanic style cs := by
  intro inp
  simp only [gridSafeB, Bool.and_eq_true] at h
  obtain ⟨⟨hc, hr⟩, h3⟩ := h
  cases hs : setupOf (GridStyle.ofStyle style) (cs.map GridChildStyle.ofStyle) EvalBlock.plIn with
  | none => rw [hs] at h3; cases h3
  | some su =>
    rw [hs] at h3
    refine noPanic_computeGridLayoutE _ _ inp su (fun k => ?_) (suOKb_sound _ su h3)
    rw [gridSetupK_indep _ _ inp EvalBlock.plIn k hc hr]
    exact setupOf_spec _ _ _ su hs k

/-! ### trees -/

mutual
/-- every grid container with children outside `display:none` subtrees passes `gridSafeB` -/
def gridCalmB : STree α → Bool
  | .node s _ kids =>
    s.display == .none ||
      ((!(s.display == .grid) || kids.isEmpty || gridSafeB s (kids.map STree.style)) && gridCalmListB kids)
def gridCalmListB : List (STree α) → Bool
  | [] => true
  | t :: ts => gridCalmB t && gridCalmListB ts
end

variable [FlexLine.NumX α]

mutual
/-- **gridCalmB_sound**: the executable check implies `GridCalm` -/
theorem gridCalmB_sound : ∀ t : STree α, gridCalmB t = true → GridCalm t
  | .node s ctx kids, h => by
    simp only [gridCalmB, Bool.or_eq_true, Bool.and_eq_true] at h
    simp only [GridCalm]
    rcases h with h | ⟨h1, h2⟩
    · exact Or.inl (by cases hd : s.display <;> rw [hd] at h <;> first | rfl | cases h)
    · refine Or.inr ⟨fun hg hne => ?_, gridCalmListB_sound kids h2⟩
      rcases h1 with (h1 | h1) | h1
      · rw [hg] at h1; exact absurd h1 (by decide)
      · cases kids with
        | nil => exact absurd rfl hne
        | cons _ _ => cases h1
      · exact gridSafeB_sound s _ h1
theorem gridCalmListB_sound : ∀ ts : List (STree α), gridCalmListB ts = true → GridCalmList ts
  | [], _ => trivial
  | t :: ts, h => by
    simp only [gridCalmListB, Bool.and_eq_true] at h
    exact ⟨gridCalmB_sound t h.1, gridCalmListB_sound ts h.2⟩
end

end EvalGrid
