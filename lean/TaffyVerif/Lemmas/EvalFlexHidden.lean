/-
  C05 for the flexbox program:
    * `PHZ_computeFlexboxLayout`   — every layout `compute_flexbox_layout` assigns to a `display:none` child is all-zero;
    * `computeFlexboxLayout_agree` — for child-style lists that agree except where both styles are `display:none` the two
                                     programs are EQUAL.
-/
import TaffyVerif.Lemmas.EvalFlexLay

set_option linter.unusedSectionVars false
set_option linter.unusedVariables false

namespace EvalFlex
open FlexModel EvalBlock C05
variable {α : Type} [Num α]

theorem PHZ_bind_post {β γ : Type} (cs : List (Style α)) (Q : β → Prop) (p : ProgM α β) (f : β → ProgM α γ)
    (hp : PHZ cs p) (hq : Post Q p) (hf : ∀ a, Q a → PHZ cs (f a)) : PHZ cs (p >>= f) := by
  rw [bind_eq]
  induction p with
  | pure b => exact hf b hq
  | call i inp k ih => intro o; exact ih o (hp o) (hq o)
  | setLayout i l k ih => exact ⟨hp.1, fun u => ih u (hp.2 u) hq⟩

theorem bind_congr_post {β γ : Type} (Q : β → Prop) (p : ProgM α β) (f g : β → ProgM α γ)
    (hq : Post Q p) (hfg : ∀ a, Q a → f a = g a) : p >>= f = p >>= g := by
  simp only [bind_eq]
  induction p with
  | pure b => exact hfg b hq
  | call i inp k ih =>
    simp only [ProgM.bind]
    congr 1
    funext o
    exact ih o (hq o)
  | setLayout i l k ih =>
    simp only [ProgM.bind]
    congr 1
    funext u
    exact ih u hq

/-! ### the cross stage keeps the index skeleton -/

theorem shape_crossStage (cs : List (Style α)) (inputs : LayoutInput α) (k : AlgoConstants α)
    (lines : List (FlexLineS α)) : shape (crossStage cs inputs k lines) = shape lines := by
  unfold crossStage
  rw [shape_resolveCrossAxisAutoMargins, shape_distribute, shape_determineUsedCrossSize,
    shape_handleAlignContentStretch, shape_calculateCrossSize]

theorem idxs_crossStage (cs : List (Style α)) (inputs : LayoutInput α) (k : AlgoConstants α)
    (lines : List (FlexLineS α)) : idxs (crossStage cs inputs k lines) = idxs lines := by
  simp only [idxs, shape_crossStage]

theorem idxs_alignFlexLines (k : AlgoConstants α) (t : α) (lines : List (FlexLineS α)) :
    idxs (alignFlexLinesPerAlignContent k t lines) = idxs lines := by
  simp only [idxs, shape_alignFlexLines]

/-! ### PHZ -/
section phz
variable [FlexLine.NumX α]

theorem PHZ_layoutStage (cs : List (Style α)) (k : AlgoConstants α) (t : α) (lines : List (FlexLineS α))
    (hv : ∀ i ∈ idxs lines, Vis cs i) : PHZ cs (layoutStage cs k t lines) := by
  unfold layoutStage
  obtain ⟨J, hp, hJ⟩ := Lays_finalLayoutPass k (alignFlexLinesPerAlignContent k t lines)
  refine PHZ_bind cs _ _ (Lays_PHZ cs J _ hJ fun j hj => hv j ?_) fun _ => ?_
  · rw [← idxs_alignFlexLines k t lines]; exact hp.mem_iff.1 hj
  refine PHZ_bind cs _ _ (Lays_PHZ cs _ _ (Lays_absLoop k cs 0 Size.zero) fun j hj s hs => ?_) fun _ => ?_
  · obtain ⟨s', h1, h2⟩ := (mem_absIdx cs j).1 hj
    rw [h1] at hs; cases hs
    exact isAbsV_vis s h2
  exact PHZ_bind cs _ _ (PHZ_hiddenLoop cs cs 0) fun _ => trivial

theorem PHZ_flexTail (cs : List (Style α)) (inputs : LayoutInput α) (r : List (FlexLineS α) × AlgoConstants α)
    (hv : ∀ i ∈ idxs r.1, Vis cs i) : PHZ cs (flexTail cs inputs r) := by
  unfold flexTail
  simp only
  split
  · trivial
  · exact PHZ_layoutStage cs _ _ _ (by rw [idxs_crossStage]; exact hv)

theorem items0_vis (style : Style α) (cs : List (Style α)) (inputs : LayoutInput α) :
    ∀ i ∈ iidx (items0 style cs inputs), Vis cs i := by
  intro i hi s hs
  obtain ⟨s', h1, h2⟩ := (mem_iidx_items _ cs i).1 hi
  rw [h1] at hs; cases hs
  exact isItem_vis s h2

theorem PHZ_computePreliminary (style : Style α) (cs : List (Style α)) (inputs : LayoutInput α) :
    PHZ cs (computePreliminary style cs inputs) := by
  rw [computePreliminary_eq]
  have hm := Meas_flexPrefix style cs inputs
  refine PHZ_bind_post cs _ _ _ (Meas_PHZ cs _ _ _ hm) (Meas_Post _ _ _ hm) fun r hr => ?_
  exact PHZ_flexTail cs inputs r (by rw [hr]; exact items0_vis style cs inputs)

/-- the final layout pass only addresses flex items (children that generate boxes), the absolute pass only children with
`box_generation_mode != None`, the hidden-children loop writes `Layout::with_order(order)` -/
theorem PHZ_computeFlexboxLayout (style : Style α) (cs : List (Style α)) (inputs : LayoutInput α) :
    PHZ cs (computeFlexboxLayout style cs inputs) := by
  rcases computeFlexboxLayout_cases style inputs with ⟨_, o, h⟩ | ⟨inputs', _, h⟩
  · rw [h]; trivial
  · rw [h]; exact PHZ_computePreliminary style cs inputs'

end phz

/-! ### AgreeH: the program does not read a `display:none` child's style beyond `display` -/
section agree

theorem generateItemsFrom_agree (k : AlgoConstants α) : ∀ (xs ys : List (Style α)) (idx : Nat),
    AgreeH xs ys → generateItemsFrom k xs idx = generateItemsFrom k ys idx
  | [], [], _, _ => rfl
  | [], _ :: _, _, h => by simp only [AgreeH] at h
  | _ :: _, [], _, h => by simp only [AgreeH] at h
  | x :: xs, y :: ys, idx, h => by
    simp only [AgreeH] at h
    rcases h.1 with hxy | ⟨hx, hy⟩
    · subst hxy
      simp only [generateItemsFrom, generateItemsFrom_agree k xs ys _ h.2]
    · have hx' := (isHidden_iff x).2 hx
      have hy' := (isHidden_iff y).2 hy
      simp only [generateItemsFrom, hx', hy', Bool.or_true, if_true]
      exact generateItemsFrom_agree k xs ys _ h.2

theorem absLoop_agree (k : AlgoConstants α) : ∀ (xs ys : List (Style α)) (order : Nat) (acc : Size α),
    AgreeH xs ys → absLoop k xs order acc = absLoop k ys order acc
  | [], [], _, _, _ => rfl
  | [], _ :: _, _, _, h => by simp only [AgreeH] at h
  | _ :: _, [], _, _, h => by simp only [AgreeH] at h
  | x :: xs, y :: ys, order, acc, h => by
    simp only [AgreeH] at h
    rcases h.1 with hxy | ⟨hx, hy⟩
    · subst hxy
      rw [absLoop_cons, absLoop_cons]
      simp only [absLoop_agree k xs ys _ _ h.2]
    · have hx' := (isHidden_iff x).2 hx
      have hy' := (isHidden_iff y).2 hy
      simp only [absLoop, hx', hy', Bool.true_or, if_true]
      exact absLoop_agree k xs ys _ _ h.2

/-- the styles of the flex items' children are the same in both lists -/
theorem styleOf_agree (xs ys : List (Style α)) (h : AgreeH xs ys) (i : Nat) (s : Style α) (hs : xs[i]? = some s)
    (hv : s.display ≠ .none) : styleOf xs i = styleOf ys i := by
  rcases AgreeH_getElem xs ys h i with ⟨h1, _⟩ | ⟨x, y, h1, h2, hxy⟩
  · rw [h1] at hs; cases hs
  · rw [h1] at hs; cases hs
    rcases hxy with hxy | ⟨hx, _⟩
    · simp only [styleOf, h1, h2, hxy]
    · exact absurd hx hv

theorem determineFlexBaseSize_congr (k : AlgoConstants α) (av : Size (AvailableSpace α)) (so1 so2 : Nat → Style α) :
    ∀ items : List (FlexItem α), (∀ i ∈ iidx items, so1 i = so2 i) →
      determineFlexBaseSize k av so1 items = determineFlexBaseSize k av so2 items
  | [], _ => rfl
  | c :: rest, h => by
    simp only [determineFlexBaseSize]
    rw [h c.nodeIdx (by simp [iidx]),
      determineFlexBaseSize_congr k av so1 so2 rest fun i hi => h i (by simp only [iidx_cons]; exact List.mem_cons_of_mem _ hi)]

theorem determineUsedCrossSize_congr (k : AlgoConstants α) (so1 so2 : Nat → Style α) (lines : List (FlexLineS α))
    (h : ∀ i ∈ idxs lines, so1 i = so2 i) : determineUsedCrossSize k so1 lines = determineUsedCrossSize k so2 lines := by
  unfold determineUsedCrossSize
  apply List.map_congr_left
  intro line hl
  congr 1
  apply List.map_congr_left
  intro c hc
  rw [h c.nodeIdx]
  simp only [idxs, shape, List.mem_flatten, List.mem_map]
  exact ⟨iidx line.items, ⟨line, hl, rfl⟩, by simp only [iidx, List.mem_map]; exact ⟨c, hc, rfl⟩⟩

variable [FlexLine.NumX α]

theorem flexPrefix_agree (style : Style α) (xs ys : List (Style α)) (inputs : LayoutInput α) (h : AgreeH xs ys) :
    flexPrefix style xs inputs = flexPrefix style ys inputs := by
  have hg : generateAnonymousFlexItems (k0 style inputs) xs = generateAnonymousFlexItems (k0 style inputs) ys :=
    generateItemsFrom_agree _ xs ys 0 h
  unfold flexPrefix
  rw [← hg]
  rw [determineFlexBaseSize_congr _ _ (styleOf xs) (styleOf ys)]
  intro i hi
  obtain ⟨s, h1, h2⟩ := (mem_iidx_items _ xs i).1 hi
  exact styleOf_agree xs ys h i s h1 (isItem_vis s h2)

theorem flexTail_agree (xs ys : List (Style α)) (inputs : LayoutInput α) (h : AgreeH xs ys)
    (r : List (FlexLineS α) × AlgoConstants α) (hr : ∀ i ∈ idxs r.1, styleOf xs i = styleOf ys i) :
    flexTail xs inputs r = flexTail ys inputs r := by
  have hc : crossStage xs inputs r.2 r.1 = crossStage ys inputs r.2 r.1 := by
    unfold crossStage
    rw [determineUsedCrossSize_congr _ (styleOf xs) (styleOf ys)]
    intro i hi
    apply hr
    simpa only [idxs, shape_handleAlignContentStretch, shape_calculateCrossSize] using hi
  unfold flexTail layoutStage
  simp only [hc, absLoop_agree _ xs ys 0 _ h, hiddenLoop_agree xs ys 0 h]

theorem computePreliminary_agree (style : Style α) (xs ys : List (Style α)) (inputs : LayoutInput α)
    (h : AgreeH xs ys) : computePreliminary style xs inputs = computePreliminary style ys inputs := by
  rw [computePreliminary_eq, computePreliminary_eq, ← flexPrefix_agree style xs ys inputs h]
  refine bind_congr_post _ _ _ _ (Meas_Post _ _ _ (Meas_flexPrefix style xs inputs)) fun r hr => ?_
  refine flexTail_agree xs ys inputs h r fun i hi => ?_
  rw [hr] at hi
  obtain ⟨s, h1, h2⟩ := (mem_iidx_items _ xs i).1 hi
  exact styleOf_agree xs ys h i s h1 (isItem_vis s h2)

/-- `compute_flexbox_layout` reads nothing of a `display:none` child's style but `display` -/
theorem computeFlexboxLayout_agree (style : Style α) (xs ys : List (Style α)) (inputs : LayoutInput α)
    (h : AgreeH xs ys) : computeFlexboxLayout style xs inputs = computeFlexboxLayout style ys inputs := by
  rcases computeFlexboxLayout_cases style inputs with ⟨_, o, e⟩ | ⟨inputs', _, e⟩
  · rw [e, e]
  · rw [e, e]; exact computePreliminary_agree style xs ys inputs' h

end agree

end EvalFlex
