/-
  C06 for flexbox, part 1: the index invariant and the program combinators.

  `ItemsOK G items` / `LinesOK G lines`: every flex item addresses a child index satisfying `G` (instantiated with
  "not an absolutely positioned child").  No stage of flexbox.rs changes `FlexItem.node`, so every stage keeps it.

  `SelfEq abs P p`: the program `p` is `C06.AbsEquiv` to itself (its calls go to non-`abs` children and it does not read
  `content_size` of the answers) and all its results satisfy `P`.
-/
import TaffyVerif.Lemmas.FlexStages
import TaffyVerif.Lemmas.EvalBlockAbs

set_option linter.unusedSectionVars false

namespace FlexAbs
open FlexModel FlexStages C06
variable {α : Type} [Num α]

/-! ### the index invariant -/

def ItemsOK (G : Nat → Prop) (items : List (FlexItem α)) : Prop := ∀ it ∈ items, G it.nodeIdx
def LinesOK (G : Nat → Prop) (lines : List (FlexLineS α)) : Prop := ∀ l ∈ lines, ItemsOK G l.items

theorem ItemsOK.nil (G : Nat → Prop) : ItemsOK G ([] : List (FlexItem α)) := fun _ h => by cases h
theorem ItemsOK.cons {G : Nat → Prop} {a : FlexItem α} {l : List (FlexItem α)} (ha : G a.nodeIdx) (hl : ItemsOK G l) :
    ItemsOK G (a :: l) := by
  intro it hit
  rcases List.mem_cons.1 hit with e | e
  · subst e; exact ha
  · exact hl it e
theorem ItemsOK.head {G : Nat → Prop} {a : FlexItem α} {l : List (FlexItem α)} (h : ItemsOK G (a :: l)) : G a.nodeIdx :=
  h a List.mem_cons_self
theorem ItemsOK.tail {G : Nat → Prop} {a : FlexItem α} {l : List (FlexItem α)} (h : ItemsOK G (a :: l)) : ItemsOK G l :=
  fun it hit => h it (List.mem_cons_of_mem _ hit)
theorem ItemsOK.reverse {G : Nat → Prop} {l : List (FlexItem α)} (h : ItemsOK G l) : ItemsOK G l.reverse :=
  fun it hit => h it (List.mem_reverse.1 hit)
theorem ItemsOK.of_reverse {G : Nat → Prop} {l : List (FlexItem α)} (h : ItemsOK G l.reverse) : ItemsOK G l :=
  fun it hit => h it (List.mem_reverse.2 hit)

/-- a map that keeps `nodeIdx` keeps the invariant -/
theorem ItemsOK.map {G : Nat → Prop} {l : List (FlexItem α)} (f : FlexItem α → FlexItem α)
    (hf : ∀ x, (f x).nodeIdx = x.nodeIdx) (h : ItemsOK G l) : ItemsOK G (l.map f) := by
  intro it hit
  obtain ⟨x, hx, rfl⟩ := List.mem_map.1 hit
  rw [hf]; exact h x hx

theorem LinesOK.nil (G : Nat → Prop) : LinesOK G ([] : List (FlexLineS α)) := fun _ h => by cases h
theorem LinesOK.cons {G : Nat → Prop} {a : FlexLineS α} {l : List (FlexLineS α)} (ha : ItemsOK G a.items)
    (hl : LinesOK G l) : LinesOK G (a :: l) := by
  intro x hx
  rcases List.mem_cons.1 hx with e | e
  · subst e; exact ha
  · exact hl x e
theorem LinesOK.head {G : Nat → Prop} {a : FlexLineS α} {l : List (FlexLineS α)} (h : LinesOK G (a :: l)) :
    ItemsOK G a.items := h a List.mem_cons_self
theorem LinesOK.tail {G : Nat → Prop} {a : FlexLineS α} {l : List (FlexLineS α)} (h : LinesOK G (a :: l)) :
    LinesOK G l := fun x hx => h x (List.mem_cons_of_mem _ hx)
theorem LinesOK.reverse {G : Nat → Prop} {l : List (FlexLineS α)} (h : LinesOK G l) : LinesOK G l.reverse :=
  fun x hx => h x (List.mem_reverse.1 hx)
theorem LinesOK.of_reverse {G : Nat → Prop} {l : List (FlexLineS α)} (h : LinesOK G l.reverse) : LinesOK G l :=
  fun x hx => h x (List.mem_reverse.2 hx)

/-- a map on lines under which every new line's items address old indices -/
theorem LinesOK.map {G : Nat → Prop} {l : List (FlexLineS α)} (f : FlexLineS α → FlexLineS α)
    (hf : ∀ x, ItemsOK G x.items → ItemsOK G (f x).items) (h : LinesOK G l) : LinesOK G (l.map f) := by
  intro y hy
  obtain ⟨x, hx, rfl⟩ := List.mem_map.1 hy
  exact hf x (h x hx)

/-! ### program combinators -/

/-- `p` is equivalent to itself up to `abs` children and `content_size`, and every result satisfies `P` -/
def SelfEq {β : Type} (abs : Nat → Prop) (P : β → Prop) (p : ProgM α β) : Prop :=
  AbsEquiv abs (fun a b => a = b ∧ P a) p p

theorem SelfEq.pure {β : Type} {abs : Nat → Prop} {P : β → Prop} (b : β) (h : P b) :
    SelfEq abs P (Pure.pure b : ProgM α β) := AbsEquiv.pure _ _ ⟨rfl, h⟩

theorem SelfEq.bind {β γ : Type} {abs : Nat → Prop} {P : β → Prop} {Q : γ → Prop} {p : ProgM α β}
    {f : β → ProgM α γ} (hp : SelfEq abs P p) (hf : ∀ a, P a → SelfEq abs Q (f a)) : SelfEq abs Q (p >>= f) :=
  AbsEquiv.bind hp (fun a b hab => by obtain ⟨rfl, ha⟩ := hab; exact hf a ha)

theorem SelfEq.mono {β : Type} {abs : Nat → Prop} {P Q : β → Prop} {p : ProgM α β} (hp : SelfEq abs P p)
    (h : ∀ a, P a → Q a) : SelfEq abs Q p :=
  AbsEquiv.mono hp (fun a _ hab => ⟨hab.1, h a hab.2⟩)

/-- composing a self-equivalent prefix with related continuations -/
theorem SelfEq.bindE {β γ δ : Type} {abs : Nat → Prop} {P : β → Prop} {Q : γ → δ → Prop} {p : ProgM α β}
    {f : β → ProgM α γ} {g : β → ProgM α δ} (hp : SelfEq abs P p) (hf : ∀ a, P a → AbsEquiv abs Q (f a) (g a)) :
    AbsEquiv abs Q (p >>= f) (p >>= g) :=
  AbsEquiv.bind hp (fun a b hab => by obtain ⟨rfl, ha⟩ := hab; exact hf a ha)

/-- `measure_child_size` on a non-`abs` child reads `size` only -/
theorem measure_self (abs : Nat → Prop) (i : Nat) (kd ps : Size (Option α)) (av : Size (AvailableSpace α))
    (sm : SizingMode) (hz : Bool) (v : Line Bool) (hn : ¬ abs i) :
    SelfEq abs (fun _ => True) (ProgM.measureChildSize i kd ps av sm hz v) := by
  refine AbsEquiv.call i _ _ _ hn fun oA oB ho => ?_
  refine AbsEquiv.pure _ _ ⟨?_, trivial⟩
  rw [ho.1]

end FlexAbs
