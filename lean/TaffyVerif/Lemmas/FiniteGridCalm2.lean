/-
  C03 (finiteness at `ER`) — the grid program WITHOUT the `space-between` restriction, part 2: the setup hands the stages a
  `SetupCalm` result (finite; `2·n + 1` entries; the items' track ranges inside the vectors: `SetupRanges`, which
  `EvalGrid.gridSafeB` — the decidable sufficient condition of `GridCalm` — provides), `compute_grid_layout`, `gridAlg`, and
  the evaluator over trees all of whose grid containers pass `gridSafeB` (`GridCalmS`; it implies `GridCalm`).
-/
import TaffyVerif.Lemmas.FiniteGridCalm1
import TaffyVerif.Props.EvalBlock

set_option linter.unusedSectionVars false
set_option linter.unusedVariables false

namespace C03Fin
open GridModel GridTracks EvalGrid

variable [NumCast ER] {β : Type}

/-- the container view of a finite style, no condition on the alignment -/
structure GridStyleFinC (g : GridStyle ER) : Prop where
  base : StyleFin g.base
  templateRows : ∀ d ∈ g.gridTemplateRows, TrackDefFin d
  templateColumns : ∀ d ∈ g.gridTemplateColumns, TrackDefFin d
  autoRows : ∀ f ∈ g.gridAutoRows, TrackFnFin f
  autoColumns : ∀ f ∈ g.gridAutoColumns, TrackFnFin f

/-- `FinG_gridSetupK` with the lengths: the setup hands on finite tracks and items, `2·n + 1` tracks entries per axis -/
theorem FinG_gridSetupK_odd {Q : β → Prop} {style : GridStyle ER} {cs : List (GridChildStyle ER)}
    {inputs : LayoutInput ER} {k : Setup ER → GM ER β} (hs : GridStyleFinC style) (hcs : ∀ s ∈ cs, StyleFin s.base)
    (hd : StyleFin (Style.default : Style ER))
    (hk : ∀ su, SetupFin su → su.columns.length % 2 = 1 → su.rows.length % 2 = 1 → FinG Q (k su)) :
    FinG Q (gridSetupK style cs inputs k) := by
  unfold gridSetupK gridSetupA
  refine FinG_bind (Q := fun _ => True) (FinG_ofExcept fun _ _ => trivial) fun _ _ => ?_
  refine FinG_bind (Q := fun _ => True) (FinG_ofExcept fun _ _ => trivial) fun _ _ => ?_
  refine FinG_bind (Q := fun _ => True) (FinG_ofOutcome fun _ _ => trivial) fun ⟨_, _⟩ _ => ?_
  refine FinG_bind (Q := fun _ => True) (FinG_ofOutcome fun _ _ => trivial) fun _ _ => ?_
  refine FinG_bind (Q := fun _ => True) (FinG_ofOutcome fun _ _ => trivial) fun placed _ => ?_
  unfold gridSetupB
  refine FinG_bind (Q := fun ts => TracksFin ts ∧ ts.length % 2 = 1)
    (FinG_ofExcept fun ts e => initTracksFin_odd _ _ _ _ _ ts hs.templateColumns hs.autoColumns hs.base.gap.1 e)
    fun cols hcols => ?_
  refine FinG_bind (Q := fun ts => TracksFin ts ∧ ts.length % 2 = 1)
    (FinG_ofExcept fun ts e => initTracksFin_odd _ _ _ _ _ ts hs.templateRows hs.autoRows hs.base.gap.2 e)
    fun rows hrows => ?_
  refine FinG_bind (Q := GItemsFin) (FinG_ofOutcome fun items' e => ?_) fun items' hitems => ?_
  · intro y hy
    obtain ⟨x, hx, e'⟩ := GridLift.resolveItemTrackIndexes_item _ items' _ _ e y hy
    rw [e'.1]
    exact { fin_itemsOf hcs hd x hx with }
  · exact hk _ ⟨hcols.1, hrows.1, fin_determineCrossings hitems⟩ hcols.2 hrows.2

/-- what the setup's result is like, whenever the setup does not panic -/
theorem setup_result {style : GridStyle ER} {cs : List (GridChildStyle ER)} {inputs : LayoutInput ER} {su : Setup ER}
    (hs : GridStyleFinC style) (hcs : ∀ s ∈ cs, StyleFin s.base) (hd : StyleFin (Style.default : Style ER))
    (hsu : ∀ {γ : Type} (k : Setup ER → GM ER γ), gridSetupK style cs inputs k = k su) :
    SetupFin su ∧ su.columns.length % 2 = 1 ∧ su.rows.length % 2 = 1 := by
  have h := FinG_gridSetupK_odd (Q := fun su : Setup ER => SetupFin su ∧ su.columns.length % 2 = 1 ∧ su.rows.length % 2 = 1)
    (inputs := inputs) (k := fun su => (pure su : GM ER (Setup ER))) hs hcs hd (fun su h1 h2 h3 => FinG_pure ⟨h1, h2, h3⟩)
  rw [hsu] at h
  exact h su rfl

/-- the range invariant of the setup's result: every item's track range is non-empty and inside the axis' vector -/
def SetupRanges (style : GridStyle ER) (cs : List (GridChildStyle ER)) (inputs : LayoutInput ER) : Prop :=
  ∀ su : Setup ER, (∀ {γ : Type} (k : Setup ER → GM ER γ), gridSetupK style cs inputs k = k su) →
    AllR .inl su.columns.length su.items ∧ AllR .blk su.rows.length su.items

/-- `compute_grid_layout` before the panic is mapped away, any alignment -/
theorem FinG_computeGridLayoutE_calm (style : GridStyle ER) (cs : List (GridChildStyle ER)) (inputs : LayoutInput ER)
    (hs : GridStyleFinC style) (hcs : ∀ c ∈ cs, StyleFin c.base) (hd : StyleFin (Style.default : Style ER))
    (hi : InFin inputs) (hR : SetupRanges style cs inputs) : FinG OutFin (computeGridLayoutE style cs inputs) := by
  have hctx := fin_mkCtx hs.base hi
  unfold computeGridLayoutE
  simp only []
  split
  · rename_i width height e1 e2 e3
    exact FinG_pure (fin_fromOuterSize ⟨OFin.of_some hctx.outerNodeSize.1 e2, OFin.of_some hctx.outerNodeSize.2 e3⟩)
  · show FinG OutFin (gridSetupK style cs inputs (gridMain style cs inputs))
    rcases gridSetupK_cases style cs inputs with ⟨e, he⟩ | ⟨su, _, hk⟩
    · rw [he]; exact FinG_throw
    · rw [hk]
      have h := setup_result hs hcs hd @hk
      have hr := hR su @hk
      exact FinG_gridMain_calm hs.base hcs hi ⟨h.1, hr.1, hr.2, h.2.1, h.2.2⟩

/-- **compute_grid_layout**, any alignment, under the range invariant of the setup -/
theorem FinP_computeGridLayout_calm (style : GridStyle ER) (cs : List (GridChildStyle ER)) (inputs : LayoutInput ER)
    (hs : GridStyleFinC style) (hcs : ∀ c ∈ cs, StyleFin c.base) (hd : StyleFin (Style.default : Style ER))
    (hi : InFin inputs) (hR : SetupRanges style cs inputs) : FinP OutFin (computeGridLayout style cs inputs) := by
  unfold computeGridLayout
  refine FinP_bind (fun r hr => ?_) (FinG_computeGridLayoutE_calm style cs inputs hs hcs hd hi hR)
  cases r with
  | ok out => exact hr out rfl
  | error e => exact fin_out_hidden

theorem pure_setup_inj {a b : Setup ER} (h : (pure a : GM ER (Setup ER)) = pure b) : a = b := by
  have := congrArg (fun p => probeOk (EvalGrid.run p)) h
  exact Option.some.inj this

/-- `gridSafeB` (the decidable sufficient condition of `GridCalm` at one grid container) gives the range invariant for every
input -/
theorem setupRanges_of_gridSafeB (s : Style ER) (cs : List (Style ER)) (h : gridSafeB s cs = true)
    (inp : LayoutInput ER) : SetupRanges (GridStyle.ofStyle s) (cs.map GridChildStyle.ofStyle) inp := by
  intro su hk
  simp only [gridSafeB, Bool.and_eq_true] at h
  obtain ⟨⟨hc, hr⟩, h3⟩ := h
  cases hs : setupOf (GridStyle.ofStyle s) (cs.map GridChildStyle.ofStyle) EvalBlock.plIn with
  | none => rw [hs] at h3; cases h3
  | some su0 =>
    rw [hs] at h3
    have hok := suOKb_sound _ su0 h3
    have e : (pure su : GM ER (Setup ER)) = pure su0 := by
      rw [← hk (fun su => (pure su : GM ER (Setup ER))),
        gridSetupK_indep _ _ inp EvalBlock.plIn _ hc hr]
      exact setupOf_spec _ _ _ su0 hs _
    have := pure_setup_inj e
    subst this
    exact ⟨hok.cols, hok.rows⟩

/-- **gridAlg**, any alignment, at a container that passes `gridSafeB` -/
theorem FinP_gridAlg_calm (hd : StyleFin (Style.default : Style ER)) (s : Style ER) (cs : List (Style ER))
    (inp : LayoutInput ER) (hs : StyleFin s) (hg : GridExtFin s.grid) (hsafe : gridSafeB s cs = true)
    (hcs : StylesFin cs) (hi : InFin inp) : FinP OutFin (GridModel.gridAlg s cs inp) := by
  unfold GridModel.gridAlg
  refine FinP_computeGridLayout_calm _ _ inp ⟨hs, hg.templateRows, hg.templateColumns, hg.autoRows, hg.autoColumns⟩ ?_ hd
    hi (setupRanges_of_gridSafeB s cs hsafe inp)
  intro c hc
  obtain ⟨s', hs', rfl⟩ := List.mem_map.mp hc
  exact hcs s' hs'

/-! ### trees -/

open Eval CacheModel

mutual
/-- every node has finite grid fields, and every grid container with children passes `gridSafeB` -/
def GridCalmS : STree ER → Prop
  | .node s _ kids =>
    GridExtFin s.grid ∧ (s.display = .grid → kids ≠ [] → gridSafeB s (kids.map STree.style) = true) ∧ GridCalmSList kids
def GridCalmSList : List (STree ER) → Prop
  | [] => True
  | t :: ts => GridCalmS t ∧ GridCalmSList ts
end

theorem GridCalmSList_get : ∀ (kids : List (STree ER)) (i : Nat) (t : STree ER),
    GridCalmSList kids → kids[i]? = some t → GridCalmS t
  | [], _, _, _, h => by simp at h
  | a :: as, 0, t, hn, h => by
    simp only [List.getElem?_cons_zero, Option.some.injEq] at h
    subst h; exact hn.1
  | a :: as, i + 1, t, hn, h => by
    simp only [List.getElem?_cons_succ] at h
    exact GridCalmSList_get as i t hn.2 h

variable [FlexLine.NumX ER]

mutual
/-- `GridCalmS` implies `GridCalm` (no grid container can panic) -/
theorem GridCalm_of_GridCalmS : ∀ t : STree ER, GridCalmS t → GridCalm t
  | .node s ctx kids, h => by
    simp only [GridCalmS] at h
    simp only [GridCalm]
    exact Or.inr ⟨fun hg hne => gridSafeB_sound s _ (h.2.1 hg hne), GridCalmList_of_GridCalmSList kids h.2.2⟩
theorem GridCalmList_of_GridCalmSList : ∀ ts : List (STree ER), GridCalmSList ts → GridCalmList ts
  | [], _ => trivial
  | t :: ts, h => ⟨GridCalm_of_GridCalmS t h.1, GridCalmList_of_GridCalmSList ts h.2⟩
end

variable {C : Type}

theorem fin_evalChildOfS (I : C → Prop) {ev : STree ER → NS ER C → LayoutInput ER → LayoutOutput ER × NS ER C}
    {kids : List (STree ER)} (hk : TreeListFin kids) (hg : GridCalmSList kids)
    (hev : ∀ t ns inp, TreeFin t → GridCalmS t → NSFin I ns → InFin inp →
      OutFin (ev t ns inp).1 ∧ NSFin I (ev t ns inp).2) :
    EvalChildFin I (evalChildOf ev kids) := by
  intro i cin ks hcin hks
  unfold evalChildOf
  split
  · rename_i t k e1 e2
    obtain ⟨h1, h2⟩ := hev t k cin (TreeListFin_get kids i t hk e1) (GridCalmSList_get kids i t hg e1)
      (NSListFin_get I ks i k hks e2) hcin
    exact ⟨h1, NSListFin_set I ks i _ hks h2⟩
  · exact ⟨fin_out_hidden, hks⟩

/-- **evaluator**, grid included and any alignment: for the documented dispatch (`DocSel`) and a grid algorithm that is
finite at containers passing `gridSafeB` -/
theorem fin_evalNodeWithS {ci : CacheImpl ER C} {I : C → Prop} (hci : CacheFin ci I)
    (sel : Display → Bool → Option Gen.Facts.Callee) (hsel : EvalBlock.DocSel sel) {algs : Algs ER}
    (hleaf : ∀ inp style m, InFin inp → StyleFin style → MeasureFin m → OutFin (algs.leaf inp style m))
    (hblock : AlgFin algs.block) (hflex : AlgFin algs.flex)
    (hgrid : ∀ s cs inp, StyleFin s → GridExtFin s.grid → gridSafeB s cs = true → StylesFin cs → InFin inp →
      FinP OutFin (algs.grid s cs inp)) :
    ∀ (fuel : Nat) (t : STree ER) (ns : NS ER C) (inp : LayoutInput ER), TreeFin t → GridCalmS t → NSFin I ns →
      InFin inp →
      OutFin (evalNodeWith ci sel algs fuel t ns inp).1 ∧ NSFin I (evalNodeWith ci sel algs fuel t ns inp).2 := by
  intro fuel
  induction fuel with
  | zero => intro t ns inp _ _ hns _; rw [eval_zero]; exact ⟨fin_out_hidden, hns⟩
  | succ fuel ih =>
    intro t ns inp ht hg hns hinp
    cases t with
    | node s ctx kids =>
      simp only [GridCalmS] at hg
      rw [eval_succ]
      split
      · exact ⟨fin_out_hidden, fin_hiddenLayout hci ns hns⟩
      · split
        · rename_i out e
          cases ns with
          | mk c l nk => exact ⟨hci.get c inp out hns.1 e, hns⟩
        · have hev := fin_evalChildOfS I ht.2.2 hg.2.2 (fun t ns inp => ih t ns inp)
          have hcs := TreeListFin_styles kids ht.2.2
          have hcomp : OutFin (computeOf ci sel algs (evalNodeWith ci sel algs fuel) s ctx kids ns inp).1 ∧
              NSFin I (computeOf ci sel algs (evalNodeWith ci sel algs fuel) s ctx kids ns inp).2 := by
            unfold computeOf
            split
            · exact ⟨fin_out_hidden, fin_hiddenLayout hci ns hns⟩
            · exact fin_runOn I hev ns _ (hblock s _ inp ht.1 hcs hinp) hns
            · exact fin_runOn I hev ns _ (hflex s _ inp ht.1 hcs hinp) hns
            · rename_i heq
              have hd : s.display = .grid ∧ kids ≠ [] := by
                have h := hsel s.display (!kids.isEmpty)
                rw [heq] at h
                cases hdisp : s.display <;> cases kids <;> simp_all
              exact fin_runOn I hev ns _ (hgrid s _ inp ht.1 hg.1 (hg.2.1 hd.1 hd.2) hcs hinp) hns
            · exact ⟨hleaf inp s _ hinp ht.1 (fin_measureOf ht.2.1), hns⟩
            · exact ⟨fin_out_hidden, hns⟩
          revert hcomp
          generalize computeOf ci sel algs (evalNodeWith ci sel algs fuel) s ctx kids ns inp = r
          intro hcomp
          obtain ⟨o, n⟩ := r
          cases n with
          | mk c l nk =>
            rw [storeOf_mk]
            exact ⟨hcomp.1, hci.store c inp o hcomp.2.1 hcomp.1, hcomp.2.2.1, hcomp.2.2.2⟩

end C03Fin
