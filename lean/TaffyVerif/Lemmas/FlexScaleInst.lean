/-
  C04 for flexbox, part 1: `Scalable` instances for the records of the flexbox model (Model/Flex.lean: `FlexItem`,
  `FlexLineS`, `AlgoConstants`; generated boilerplate) and the small geometry helpers.

  Lengths are scaled; flex factors (`flex_grow`, `flex_shrink`), enums, flags, `order` and the child index are not.
  `FlexItem.content_flex_fraction` is the one field of MIXED dimension: `determine_container_main_size` sets it to
  `diff / max(1, flex_grow)` (a length) when `diff > 0` and to `diff / (max(1, flex_shrink) · inner_flex_basis)` (a
  pure number: a length over a length; `0` when the scaled shrink factor is not positive) when `diff < 0`.  The sign
  tells which: `cffScale` scales a positive fraction as a length and leaves a negative one alone (the field is read by
  the same function only).
-/
import TaffyVerif.Lemmas.ScaleFlexLine
import TaffyVerif.Lemmas.ScaleAbs
import TaffyVerif.Lemmas.ScaleBlock
import TaffyVerif.Lemmas.FlexStages

set_option linter.unusedSectionVars false
set_option linter.unusedVariables false
set_option linter.unusedSimpArgs false

namespace C04
open Scalable FlexModel FlexStages

/-- how `content_flex_fraction` scales: unchanged when it is negative (the dimensionless shrink fraction
`diff / (max(1, flex_shrink) · inner_flex_basis)`), as a length otherwise -/
def cffScale (k cff : Rat) : Rat :=
  if cff < 0 then cff else scale k cff

@[scale_simp] theorem cffScale_zero (k : Rat) : cffScale k 0 = 0 := by
  simp only [cffScale, lt_self_iff_false, if_false, scale_zero]

instance : Scalable (FlexItem Rat) :=
  ⟨fun k x => ⟨x.nodeIdx, x.order, scale k x.size, scale k x.minSize, scale k x.maxSize, x.alignSelf, x.overflow, scale k x.scrollbarWidth, x.flexShrink, x.flexGrow, scale k x.resolvedMinimumMainSize, scale k x.inset, scale k x.margin, x.marginIsAuto, scale k x.padding, scale k x.border, scale k x.flexBasis, scale k x.innerFlexBasis, scale k x.violation, x.frozen, cffScale k x.contentFlexFraction, scale k x.hypotheticalInnerSize, scale k x.hypotheticalOuterSize, scale k x.targetSize, scale k x.outerTargetSize, scale k x.baseline, scale k x.offsetMain, scale k x.offsetCross⟩⟩

@[scale_simp] theorem fxi_nodeIdx (k : Rat) (x : FlexItem Rat) : (scale k x).nodeIdx = x.nodeIdx := rfl
@[scale_simp] theorem fxi_order (k : Rat) (x : FlexItem Rat) : (scale k x).order = x.order := rfl
@[scale_simp] theorem fxi_size (k : Rat) (x : FlexItem Rat) : (scale k x).size = scale k x.size := rfl
@[scale_simp] theorem fxi_minSize (k : Rat) (x : FlexItem Rat) : (scale k x).minSize = scale k x.minSize := rfl
@[scale_simp] theorem fxi_maxSize (k : Rat) (x : FlexItem Rat) : (scale k x).maxSize = scale k x.maxSize := rfl
@[scale_simp] theorem fxi_alignSelf (k : Rat) (x : FlexItem Rat) : (scale k x).alignSelf = x.alignSelf := rfl
@[scale_simp] theorem fxi_overflow (k : Rat) (x : FlexItem Rat) : (scale k x).overflow = x.overflow := rfl
@[scale_simp] theorem fxi_scrollbarWidth (k : Rat) (x : FlexItem Rat) : (scale k x).scrollbarWidth = scale k x.scrollbarWidth := rfl
@[scale_simp] theorem fxi_flexShrink (k : Rat) (x : FlexItem Rat) : (scale k x).flexShrink = x.flexShrink := rfl
@[scale_simp] theorem fxi_flexGrow (k : Rat) (x : FlexItem Rat) : (scale k x).flexGrow = x.flexGrow := rfl
@[scale_simp] theorem fxi_resolvedMinimumMainSize (k : Rat) (x : FlexItem Rat) : (scale k x).resolvedMinimumMainSize = scale k x.resolvedMinimumMainSize := rfl
@[scale_simp] theorem fxi_inset (k : Rat) (x : FlexItem Rat) : (scale k x).inset = scale k x.inset := rfl
@[scale_simp] theorem fxi_margin (k : Rat) (x : FlexItem Rat) : (scale k x).margin = scale k x.margin := rfl
@[scale_simp] theorem fxi_marginIsAuto (k : Rat) (x : FlexItem Rat) : (scale k x).marginIsAuto = x.marginIsAuto := rfl
@[scale_simp] theorem fxi_padding (k : Rat) (x : FlexItem Rat) : (scale k x).padding = scale k x.padding := rfl
@[scale_simp] theorem fxi_border (k : Rat) (x : FlexItem Rat) : (scale k x).border = scale k x.border := rfl
@[scale_simp] theorem fxi_flexBasis (k : Rat) (x : FlexItem Rat) : (scale k x).flexBasis = scale k x.flexBasis := rfl
@[scale_simp] theorem fxi_innerFlexBasis (k : Rat) (x : FlexItem Rat) : (scale k x).innerFlexBasis = scale k x.innerFlexBasis := rfl
@[scale_simp] theorem fxi_violation (k : Rat) (x : FlexItem Rat) : (scale k x).violation = scale k x.violation := rfl
@[scale_simp] theorem fxi_frozen (k : Rat) (x : FlexItem Rat) : (scale k x).frozen = x.frozen := rfl
@[scale_simp] theorem fxi_contentFlexFraction (k : Rat) (x : FlexItem Rat) : (scale k x).contentFlexFraction = cffScale k x.contentFlexFraction := rfl
@[scale_simp] theorem fxi_hypotheticalInnerSize (k : Rat) (x : FlexItem Rat) : (scale k x).hypotheticalInnerSize = scale k x.hypotheticalInnerSize := rfl
@[scale_simp] theorem fxi_hypotheticalOuterSize (k : Rat) (x : FlexItem Rat) : (scale k x).hypotheticalOuterSize = scale k x.hypotheticalOuterSize := rfl
@[scale_simp] theorem fxi_targetSize (k : Rat) (x : FlexItem Rat) : (scale k x).targetSize = scale k x.targetSize := rfl
@[scale_simp] theorem fxi_outerTargetSize (k : Rat) (x : FlexItem Rat) : (scale k x).outerTargetSize = scale k x.outerTargetSize := rfl
@[scale_simp] theorem fxi_baseline (k : Rat) (x : FlexItem Rat) : (scale k x).baseline = scale k x.baseline := rfl
@[scale_simp] theorem fxi_offsetMain (k : Rat) (x : FlexItem Rat) : (scale k x).offsetMain = scale k x.offsetMain := rfl
@[scale_simp] theorem fxi_offsetCross (k : Rat) (x : FlexItem Rat) : (scale k x).offsetCross = scale k x.offsetCross := rfl
@[scale_simp] theorem scale_fxi_mk (k : Rat) (a0 : Nat) (a1 : Nat) (a2 : Size (Option Rat)) (a3 : Size (Option Rat)) (a4 : Size (Option Rat)) (a5 : AlignItems) (a6 : Point Overflow) (a7 : Rat) (a8 : Rat) (a9 : Rat) (a10 : Rat) (a11 : Rect (Option Rat)) (a12 : Rect Rat) (a13 : Rect Bool) (a14 : Rect Rat) (a15 : Rect Rat) (a16 : Rat) (a17 : Rat) (a18 : Rat) (a19 : Bool) (a20 : Rat) (a21 : Size Rat) (a22 : Size Rat) (a23 : Size Rat) (a24 : Size Rat) (a25 : Rat) (a26 : Rat) (a27 : Rat) :
    scale k (FlexItem.mk a0 a1 a2 a3 a4 a5 a6 a7 a8 a9 a10 a11 a12 a13 a14 a15 a16 a17 a18 a19 a20 a21 a22 a23 a24 a25 a26 a27 : FlexItem Rat) = ⟨a0, a1, scale k a2, scale k a3, scale k a4, a5, a6, scale k a7, a8, a9, scale k a10, scale k a11, scale k a12, a13, scale k a14, scale k a15, scale k a16, scale k a17, scale k a18, a19, cffScale k a20, scale k a21, scale k a22, scale k a23, scale k a24, scale k a25, scale k a26, scale k a27⟩ := rfl

instance : Scalable (FlexLineS Rat) :=
  ⟨fun k x => ⟨scale k x.items, scale k x.crossSize, scale k x.offsetCross⟩⟩

@[scale_simp] theorem fxl_items (k : Rat) (x : FlexLineS Rat) : (scale k x).items = scale k x.items := rfl
@[scale_simp] theorem fxl_crossSize (k : Rat) (x : FlexLineS Rat) : (scale k x).crossSize = scale k x.crossSize := rfl
@[scale_simp] theorem fxl_offsetCross (k : Rat) (x : FlexLineS Rat) : (scale k x).offsetCross = scale k x.offsetCross := rfl
@[scale_simp] theorem scale_fxl_mk (k : Rat) (a0 : List (FlexItem Rat)) (a1 : Rat) (a2 : Rat) :
    scale k (FlexLineS.mk a0 a1 a2 : FlexLineS Rat) = ⟨scale k a0, scale k a1, scale k a2⟩ := rfl

instance : Scalable (AlgoConstants Rat) :=
  ⟨fun k x => ⟨x.dir, x.isRow, x.isColumn, x.isWrap, x.isWrapReverse, scale k x.minSize, scale k x.maxSize, scale k x.margin, scale k x.border, scale k x.contentBoxInset, scale k x.scrollbarGutter, scale k x.gap, x.alignItems, x.alignContent, x.justifyContent, scale k x.nodeOuterSize, scale k x.nodeInnerSize, scale k x.containerSize, scale k x.innerContainerSize⟩⟩

@[scale_simp] theorem fxk_dir (k : Rat) (x : AlgoConstants Rat) : (scale k x).dir = x.dir := rfl
@[scale_simp] theorem fxk_isRow (k : Rat) (x : AlgoConstants Rat) : (scale k x).isRow = x.isRow := rfl
@[scale_simp] theorem fxk_isColumn (k : Rat) (x : AlgoConstants Rat) : (scale k x).isColumn = x.isColumn := rfl
@[scale_simp] theorem fxk_isWrap (k : Rat) (x : AlgoConstants Rat) : (scale k x).isWrap = x.isWrap := rfl
@[scale_simp] theorem fxk_isWrapReverse (k : Rat) (x : AlgoConstants Rat) : (scale k x).isWrapReverse = x.isWrapReverse := rfl
@[scale_simp] theorem fxk_minSize (k : Rat) (x : AlgoConstants Rat) : (scale k x).minSize = scale k x.minSize := rfl
@[scale_simp] theorem fxk_maxSize (k : Rat) (x : AlgoConstants Rat) : (scale k x).maxSize = scale k x.maxSize := rfl
@[scale_simp] theorem fxk_margin (k : Rat) (x : AlgoConstants Rat) : (scale k x).margin = scale k x.margin := rfl
@[scale_simp] theorem fxk_border (k : Rat) (x : AlgoConstants Rat) : (scale k x).border = scale k x.border := rfl
@[scale_simp] theorem fxk_contentBoxInset (k : Rat) (x : AlgoConstants Rat) : (scale k x).contentBoxInset = scale k x.contentBoxInset := rfl
@[scale_simp] theorem fxk_scrollbarGutter (k : Rat) (x : AlgoConstants Rat) : (scale k x).scrollbarGutter = scale k x.scrollbarGutter := rfl
@[scale_simp] theorem fxk_gap (k : Rat) (x : AlgoConstants Rat) : (scale k x).gap = scale k x.gap := rfl
@[scale_simp] theorem fxk_alignItems (k : Rat) (x : AlgoConstants Rat) : (scale k x).alignItems = x.alignItems := rfl
@[scale_simp] theorem fxk_alignContent (k : Rat) (x : AlgoConstants Rat) : (scale k x).alignContent = x.alignContent := rfl
@[scale_simp] theorem fxk_justifyContent (k : Rat) (x : AlgoConstants Rat) : (scale k x).justifyContent = x.justifyContent := rfl
@[scale_simp] theorem fxk_nodeOuterSize (k : Rat) (x : AlgoConstants Rat) : (scale k x).nodeOuterSize = scale k x.nodeOuterSize := rfl
@[scale_simp] theorem fxk_nodeInnerSize (k : Rat) (x : AlgoConstants Rat) : (scale k x).nodeInnerSize = scale k x.nodeInnerSize := rfl
@[scale_simp] theorem fxk_containerSize (k : Rat) (x : AlgoConstants Rat) : (scale k x).containerSize = scale k x.containerSize := rfl
@[scale_simp] theorem fxk_innerContainerSize (k : Rat) (x : AlgoConstants Rat) : (scale k x).innerContainerSize = scale k x.innerContainerSize := rfl
@[scale_simp] theorem scale_fxk_mk (k : Rat) (a0 : FlexDirection) (a1 : Bool) (a2 : Bool) (a3 : Bool) (a4 : Bool) (a5 : Size (Option Rat)) (a6 : Size (Option Rat)) (a7 : Rect Rat) (a8 : Rect Rat) (a9 : Rect Rat) (a10 : Point Rat) (a11 : Size Rat) (a12 : AlignItems) (a13 : AlignContent) (a14 : Option AlignContent) (a15 : Size (Option Rat)) (a16 : Size (Option Rat)) (a17 : Size Rat) (a18 : Size Rat) :
    scale k (AlgoConstants.mk a0 a1 a2 a3 a4 a5 a6 a7 a8 a9 a10 a11 a12 a13 a14 a15 a16 a17 a18 : AlgoConstants Rat) = ⟨a0, a1, a2, a3, a4, scale k a5, scale k a6, scale k a7, scale k a8, scale k a9, scale k a10, scale k a11, a12, a13, a14, scale k a15, scale k a16, scale k a17, scale k a18⟩ := rfl


variable {k : Rat}

/-! ### geometry helpers -/

section geo
variable {β : Type} [Scalable β]
@[scale_simp] theorem setMain_scale (k : Rat) (s : Size β) (d : FlexDirection) (v : β) :
    setMain (scale k s) d (scale k v) = scale k (setMain s d v) := by
  unfold setMain; split <;> rfl
@[scale_simp] theorem setCross_scale (k : Rat) (s : Size β) (d : FlexDirection) (v : β) :
    setCross (scale k s) d (scale k v) = scale k (setCross s d v) := by
  unfold setCross; split <;> rfl
@[scale_simp] theorem setMainStart_scale (k : Rat) (r : Rect β) (d : FlexDirection) (v : β) :
    setMainStart (scale k r) d (scale k v) = scale k (setMainStart r d v) := by
  unfold setMainStart; split <;> rfl
@[scale_simp] theorem setMainEnd_scale (k : Rat) (r : Rect β) (d : FlexDirection) (v : β) :
    setMainEnd (scale k r) d (scale k v) = scale k (setMainEnd r d v) := by
  unfold setMainEnd; split <;> rfl
@[scale_simp] theorem setCrossStart_scale (k : Rat) (r : Rect β) (d : FlexDirection) (v : β) :
    setCrossStart (scale k r) d (scale k v) = scale k (setCrossStart r d v) := by
  unfold setCrossStart; split <;> rfl
@[scale_simp] theorem setCrossEnd_scale (k : Rat) (r : Rect β) (d : FlexDirection) (v : β) :
    setCrossEnd (scale k r) d (scale k v) = scale k (setCrossEnd r d v) := by
  unfold setCrossEnd; split <;> rfl
end geo

@[scale_simp] theorem setMain_scale_none (k : Rat) (s : Size (Option Rat)) (d : FlexDirection) :
    setMain (scale k s) d none = scale k (setMain s d none) := setMain_scale k s d none
@[scale_simp] theorem setMain_scale_some (k : Rat) (s : Size (Option Rat)) (d : FlexDirection) (v : Rat) :
    setMain (scale k s) d (some (scale k v)) = scale k (setMain s d (some v)) := setMain_scale k s d (some v)
@[scale_simp] theorem setCross_scale_some (k : Rat) (s : Size (Option Rat)) (d : FlexDirection) (v : Rat) :
    setCross (scale k s) d (some (scale k v)) = scale k (setCross s d (some v)) := setCross_scale k s d (some v)

@[scale_simp] theorem fromCross_scale (k : Rat) (d : FlexDirection) (v : Option Rat) :
    fromCross d (scale k v) = scale k (fromCross d v) := by
  unfold fromCross
  rw [← setCross_scale]
  rfl

/-- over ℚ there is no negative zero -/
theorem isNegZero_false (x : Rat) : isNegZero x = false := by
  unfold isNegZero
  by_cases h : x = 0
  · subst h
    simp [feq_def, flt_def]
  · simp [feq_def, h]

theorem totalGt_eq (a b : Rat) : totalGt a b = Num.fgt a b := by
  unfold totalGt
  rw [isNegZero_false b]
  simp

theorem totalGt_scale (hk : 0 < k) (a b : Rat) : totalGt (scale k a) (scale k b) = totalGt a b := by
  rw [totalGt_eq, totalGt_eq, fgt_scale hk]

theorem foldl_totalMax_scale (hk : 0 < k) (l : List Rat) (a : Rat) :
    List.foldl (fun acc y => if totalGt acc y then acc else y) (scale k a) (scale k l) =
      scale k (List.foldl (fun acc y => if totalGt acc y then acc else y) a l) := by
  induction l generalizing a with
  | nil => rfl
  | cons x xs ih =>
    simp only [scale_cons, List.foldl_cons, totalGt_scale hk, ite_scale, ih]

@[scale_simp] theorem maxByTotalCmp_scale (hk : 0 < k) (l : List Rat) :
    maxByTotalCmp (scale k l) = scale k (maxByTotalCmp l) := by
  cases l with
  | nil => rfl
  | cons x xs => simp only [scale_cons, maxByTotalCmp, foldl_totalMax_scale hk, scale_some]

/-! ### the main-axis projection -/

theorem toM_scale (k : Rat) (dir : FlexDirection) (i : FlexItem Rat) :
    toM dir (scale k i) = scale k (toM dir i) := by
  simp only [toM, scale_fi_mk, scale_simp]

theorem fromM_scale (k : Rat) (dir : FlexDirection) (i : FlexItem Rat) (m : FlexLine.FlexItemM Rat) :
    fromM dir (scale k i) (scale k m) = scale k (fromM dir i m) := by
  simp only [fromM, scale_fxi_mk, scale_simp]

theorem zipBack_scale (k : Rat) (dir : FlexDirection) : ∀ (is : List (FlexItem Rat)) (ms : List (FlexLine.FlexItemM Rat)),
    zipBack dir (scale k is) (scale k ms) = scale k (zipBack dir is ms)
  | [], _ => by
    unfold zipBack
    rfl
  | i :: is, [] => by
    simp only [scale_cons, scale_nil]
    unfold zipBack
    rfl
  | i :: is, m :: ms => by
    simp only [scale_cons]
    unfold zipBack
    rw [fromM_scale, zipBack_scale k dir is ms, scale_cons]

theorem length_scale {β : Type} [Scalable β] (k : Rat) (l : List β) : (scale k l).length = l.length := by
  simp only [scale_list, List.length_map]

end C04
