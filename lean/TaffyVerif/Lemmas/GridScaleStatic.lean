/-
  C04 for grid: an INPUT-INDEPENDENT form of the static side condition `GridFixed` (Props/EvalGridScale.lean).

  On an axis all of whose track sizing functions are fixed lengths and whose gap is a length (`AxisFixed`), the space an
  auto-repetition takes does not depend on the container size it is measured against, so "the 1px substitute is not used"
  (`ExplicitNoPx gap tpl inner`) can be checked once, against the size 0 (`ExplicitNoPx_static`).
  `GridFixedS style` = both axes `AxisFixed` + that check on both axes; it is decidable and mentions no input.
-/
import TaffyVerif.Lemmas.GridScaleFixed

set_option linter.unusedSectionVars false
set_option linter.unusedVariables false
set_option linter.unusedSimpArgs false

namespace C04
open Scalable GridModel GridTracks GridStages GridScale

/-- the sizing functions of the auto-repetition are sizing functions of the template -/
theorem findAutoRepetition_mem : ∀ (tpl : List (TrackDef Rat)) (repDef : List (TrackFn Rat)),
    findAutoRepetition tpl = some repDef → ∀ f ∈ repDef, f ∈ templateFns tpl
  | [], _, h, _, _ => by simp [findAutoRepetition] at h
  | .single g :: rest, repDef, h, f, hf => by
    unfold findAutoRepetition at h
    simp only [templateFns, List.mem_cons]
    exact Or.inr (findAutoRepetition_mem rest repDef h f hf)
  | .rep .autoFill fs :: rest, repDef, h, f, hf => by
    simp only [findAutoRepetition, Option.some.injEq] at h
    subst h
    simp only [templateFns, List.mem_append]
    exact Or.inl hf
  | .rep .autoFit fs :: rest, repDef, h, f, hf => by
    simp only [findAutoRepetition, Option.some.injEq] at h
    subst h
    simp only [templateFns, List.mem_append]
    exact Or.inl hf
  | .rep (.count c) fs :: rest, repDef, h, f, hf => by
    unfold findAutoRepetition at h
    simp only [templateFns, List.mem_append]
    exact Or.inr (findAutoRepetition_mem rest repDef h f hf)

/-- the definite value of a fixed-length track sizing function does not depend on the parent size -/
theorem trackDefiniteValue_fixed (f : TrackFn Rat) (hf : FixedFn f) (p q : Option Rat) :
    trackDefiniteValue f p = trackDefiniteValue f q := by
  obtain ⟨a, b, ha, hb, _⟩ := hf
  unfold trackDefiniteValue
  simp only [ha, hb, MinTrack.definiteValue, MaxTrack.definiteValue]

theorem map_trackDefiniteValue_fixed (l : List (TrackFn Rat)) (hl : ∀ f ∈ l, FixedFn f) (p q : Option Rat) :
    (l.map fun f => trackDefiniteValue f p) = l.map fun f => trackDefiniteValue f q :=
  List.map_congr_left fun f hf => trackDefiniteValue_fixed f (hl f hf) p q

/-- **ExplicitNoPx_static**: on a fixed-length axis the check "no auto-repetition takes zero space" is independent of
the container size: if it holds against the size 0 it holds against every size (and against no size) -/
theorem ExplicitNoPx_static (tpl : List (TrackDef Rat)) (autoTracks : List (TrackFn Rat)) (gap : LP Rat)
    (h : AxisFixed tpl autoTracks gap) (h0 : ExplicitNoPx gap tpl (some 0)) (inner : Option Rat) :
    ExplicitNoPx gap tpl inner := by
  obtain ⟨hf, _, _, v, rfl⟩ := h
  unfold ExplicitNoPx at h0 ⊢
  cases hr : findAutoRepetition tpl with
  | none => trivial
  | some repDef =>
    rw [hr] at h0
    simp only at h0 ⊢
    cases inner with
    | none => trivial
    | some w =>
      have hl : ∀ f ∈ repDef, FixedFn f := fun f hfm => hf f (findAutoRepetition_mem tpl repDef hr f hfm)
      unfold NumRepsNoPx at h0 ⊢
      simp only at h0 ⊢
      rw [map_trackDefiniteValue_fixed repDef hl (some w) (some 0)]
      exact h0

end C04
