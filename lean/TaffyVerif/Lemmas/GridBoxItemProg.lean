/-
  C12 / C06 for grid: the contribution queries of Model/GridItem.lean respect the item transformation `phi P`
  (same calls, same values; the resulting items again related by `phi P`).
-/
import TaffyVerif.Lemmas.GridBoxItem

set_option linter.unusedSectionVars false

namespace GridRel
open GridModel GridTracks
variable {α : Type} [Num α]

/-- results `(value, item)` of a per-item query -/
def RXI (P : Nat → Bool) (it : GItem α) {X : Type} (r r' : X × GItem α) : Prop :=
  r'.1 = r.1 ∧ r'.2 = phi P r.2 ∧ StaticEq r.2 it

variable {w : World α} (hw : w.Reads) {P : Nat → Bool} (hR : Readers (α := α) P)

theorem RXI.trans {Y : Type} {it it2 : GItem α} {r r' : Y × GItem α} (h : RXI P it2 r r') (hs : StaticEq it2 it) :
    RXI P it r r' := ⟨h.1, h.2.1, h.2.2.trans hs⟩

/-- binding a per-item query: the continuations are compared on literal pairs -/
theorem GRel.bindX {X Y Y' : Type} {it : GItem α} {p p' : GM α (X × GItem α)} (h : GRel w (RXI P it) p p')
    {Q' : Y → Y' → Prop} {f : X × GItem α → GM α Y} {f' : X × GItem α → GM α Y'}
    (hf : ∀ v i2, StaticEq i2 it → GRel w Q' (f (v, i2)) (f' (v, phi P i2))) : GRel w Q' (p >>= f) (p' >>= f') := by
  refine GRel.bind h fun r r' hr => ?_
  obtain ⟨v, i2⟩ := r
  obtain ⟨v', i2'⟩ := r'
  obtain ⟨h1, h2, h3⟩ := hr
  simp only at h1 h2 h3
  rw [h1, h2]
  exact hf v i2 h3

theorem availableSpaceCached_phi (it : GItem α) (ax : Ax) (ts : List (GridTrack α)) (o : Option α) (e : Estimate) :
    (phi P it).availableSpaceCached ax ts o e =
      ((it.availableSpaceCached ax ts o e).1, phi P (it.availableSpaceCached ax ts o e).2) ∧
    StaticEq (it.availableSpaceCached ax ts o e).2 it := by
  unfold GItem.availableSpaceCached
  rw [phi_availableSpaceCache]
  cases it.availableSpaceCache with
  | some a => exact ⟨rfl, StaticEq.refl _⟩
  | none =>
    refine ⟨?_, StaticEq.refl _⟩
    simp only [phi_availableSpace, phi_setAvail]

include hR in
theorem contributionInput_phi (it : GItem α) (ax : Ax) (av ins : Size (Option α)) (ind : AvailableSpace α) :
    (phi P it).contributionInput ax av ins ind = it.contributionInput ax av ins ind := by
  unfold GItem.contributionInput
  rw [hR.known]

include hw hR

theorem minContentContribution_rel (it : GItem α) (hn : ¬ w.abs it.node) (ax : Ax) (av ins : Size (Option α)) :
    GRel w Eq (it.minContentContribution ax av ins) ((phi P it).minContentContribution ax av ins) := by
  unfold GItem.minContentContribution
  rw [contributionInput_phi hR, phi_node]
  exact GRel.bind (GRel.call hn _) fun a b hab => GRel.pure (by rw [hw.size a b hab])

theorem maxContentContribution_rel (it : GItem α) (hn : ¬ w.abs it.node) (ax : Ax) (av ins : Size (Option α)) :
    GRel w Eq (it.maxContentContribution ax av ins) ((phi P it).maxContentContribution ax av ins) := by
  unfold GItem.maxContentContribution
  rw [contributionInput_phi hR, phi_node]
  exact GRel.bind (GRel.call hn _) fun a b hab => GRel.pure (by rw [hw.size a b hab])

theorem minContentContributionCached_rel (it : GItem α) (hn : ¬ w.abs it.node) (ax : Ax) (av ins : Size (Option α)) :
    GRel w (RXI P it) (it.minContentContributionCached ax av ins) ((phi P it).minContentContributionCached ax av ins) := by
  unfold GItem.minContentContributionCached
  rw [phi_minContentContributionCache]
  cases sget it.minContentContributionCache ax with
  | some v => exact GRel.pure ⟨rfl, rfl, StaticEq.refl _⟩
  | none =>
    refine GRel.bind (minContentContribution_rel hw hR it hn ax av ins) fun a b hab => ?_
    subst hab
    exact GRel.pure ⟨rfl, (phi_setMinC P it _).symm, StaticEq.refl _⟩

theorem maxContentContributionCached_rel (it : GItem α) (hn : ¬ w.abs it.node) (ax : Ax) (av ins : Size (Option α)) :
    GRel w (RXI P it) (it.maxContentContributionCached ax av ins) ((phi P it).maxContentContributionCached ax av ins) := by
  unfold GItem.maxContentContributionCached
  rw [phi_maxContentContributionCache]
  cases sget it.maxContentContributionCache ax with
  | some v => exact GRel.pure ⟨rfl, rfl, StaticEq.refl _⟩
  | none =>
    refine GRel.bind (maxContentContribution_rel hw hR it hn ax av ins) fun a b hab => ?_
    subst hab
    exact GRel.pure ⟨rfl, (phi_setMaxC P it _).symm, StaticEq.refl _⟩

theorem mcAutomatic_rel (it : GItem α) (hn : ¬ w.abs it.node) (ax : Ax) (ts : List (GridTrack α))
    (kd ins : Size (Option α)) :
    GRel w (RXI P it) (mcAutomatic it ax ts kd ins) (mcAutomatic (phi P it) ax ts kd ins) := by
  unfold mcAutomatic
  simp only [phi_spannedTracks]
  split
  · refine GRel.bind (minContentContributionCached_rel hw hR it hn ax kd ins) fun r r' hr => ?_
    obtain ⟨h1, h2, h3⟩ := hr
    rw [h1, h2, phi_isCompressibleReplaced]
    split
    · rw [hR.cap it r.2 ax ins r.1 h3]
      exact GRel.pure ⟨rfl, rfl, h3⟩
    · exact GRel.pure ⟨rfl, rfl, h3⟩
  · exact GRel.pure ⟨rfl, rfl, StaticEq.refl _⟩

theorem mcSize_rel (it : GItem α) (hn : ¬ w.abs it.node) (ax : Ax) (ts : List (GridTrack α))
    (kd ins : Size (Option α)) : GRel w (RXI P it) (mcSize it ax ts kd ins) (mcSize (phi P it) ax ts kd ins) := by
  unfold mcSize
  rw [hR.fromStyle]
  cases mcFromStyle it ax ins with
  | some v => exact GRel.pure ⟨rfl, rfl, StaticEq.refl _⟩
  | none => exact mcAutomatic_rel hw hR it hn ax ts kd ins

theorem minimumContribution_rel (it : GItem α) (hn : ¬ w.abs it.node) (ax : Ax) (ts : List (GridTrack α))
    (kd ins : Size (Option α)) :
    GRel w (RXI P it) (it.minimumContribution ax ts kd ins) ((phi P it).minimumContribution ax ts kd ins) := by
  rw [minimumContribution_eq, minimumContribution_eq]
  refine GRel.bind (mcSize_rel hw hR it hn ax ts kd ins) fun r r' hr => ?_
  obtain ⟨h1, h2, h3⟩ := hr
  rw [h1, h2, phi_spannedFixedTrackLimit]
  exact GRel.pure ⟨rfl, rfl, h3⟩

theorem minimumContributionCached_rel (it : GItem α) (hn : ¬ w.abs it.node) (ax : Ax) (ts : List (GridTrack α))
    (kd ins : Size (Option α)) :
    GRel w (RXI P it) (it.minimumContributionCached ax ts kd ins) ((phi P it).minimumContributionCached ax ts kd ins) := by
  unfold GItem.minimumContributionCached
  rw [phi_minimumContributionCache]
  cases sget it.minimumContributionCache ax with
  | some v => exact GRel.pure ⟨rfl, rfl, StaticEq.refl _⟩
  | none =>
    refine GRel.bind (minimumContribution_rel hw hR it hn ax ts kd ins) fun r r' hr => ?_
    obtain ⟨h1, h2, h3⟩ := hr
    obtain ⟨v, it2⟩ := r
    obtain ⟨v', it2'⟩ := r'
    simp only at h1 h2 h3
    subst h1 h2
    refine GRel.pure ⟨rfl, ?_, h3⟩
    rw [phi_minimumContributionCache]
    exact (phi_setMinimumC P it2 _).symm

/-! ### `IntrisicSizeMeasurer` -/

omit hw hR in
theorem sizer_availableSpace_phi (s : Sizer α) (it : GItem α) :
    s.availableSpace (phi P it) = ((s.availableSpace it).1, phi P (s.availableSpace it).2) ∧
    StaticEq (s.availableSpace it).2 it :=
  availableSpaceCached_phi it _ _ _ _

omit hw hR in
theorem sizer_marginAxisSums_phi (s : Sizer α) (it : GItem α) : s.marginAxisSums (phi P it) = s.marginAxisSums it :=
  phi_marginsAxisSums P it _

omit hw hR in
theorem static_abs {a b : GItem α} (h : StaticEq a b) (hn : ¬ w.abs b.node) : ¬ w.abs a.node := by
  rw [h.1]; exact hn

theorem sizer_minContentContribution_rel (s : Sizer α) (it : GItem α) (hn : ¬ w.abs it.node) :
    GRel w (RXI P it) (s.minContentContribution it) (s.minContentContribution (phi P it)) := by
  unfold Sizer.minContentContribution
  obtain ⟨h1, h2⟩ := sizer_availableSpace_phi (P := P) s it
  rw [h1]
  dsimp only
  refine GRel.bind (minContentContributionCached_rel hw hR _ (static_abs h2 hn) _ _ _) fun r r' hr => ?_
  obtain ⟨h3, h4, h5⟩ := hr
  rw [h3, h4, sizer_marginAxisSums_phi]
  exact GRel.pure ⟨rfl, rfl, h5.trans h2⟩

theorem sizer_maxContentContribution_rel (s : Sizer α) (it : GItem α) (hn : ¬ w.abs it.node) :
    GRel w (RXI P it) (s.maxContentContribution it) (s.maxContentContribution (phi P it)) := by
  unfold Sizer.maxContentContribution
  obtain ⟨h1, h2⟩ := sizer_availableSpace_phi (P := P) s it
  rw [h1]
  dsimp only
  refine GRel.bind (maxContentContributionCached_rel hw hR _ (static_abs h2 hn) _ _ _) fun r r' hr => ?_
  obtain ⟨h3, h4, h5⟩ := hr
  rw [h3, h4, sizer_marginAxisSums_phi]
  exact GRel.pure ⟨rfl, rfl, h5.trans h2⟩

theorem sizer_minimumContribution_rel (s : Sizer α) (it : GItem α) (hn : ¬ w.abs it.node) (ts : List (GridTrack α)) :
    GRel w (RXI P it) (s.minimumContribution it ts) (s.minimumContribution (phi P it) ts) := by
  unfold Sizer.minimumContribution
  obtain ⟨h1, h2⟩ := sizer_availableSpace_phi (P := P) s it
  rw [h1]
  dsimp only
  refine GRel.bind (minimumContributionCached_rel hw hR _ (static_abs h2 hn) _ _ _ _) fun r r' hr => ?_
  obtain ⟨h3, h4, h5⟩ := hr
  rw [h3, h4, sizer_marginAxisSums_phi]
  exact GRel.pure ⟨rfl, rfl, h5.trans h2⟩

end GridRel
