/-
  The flexbox algorithm (`FlexModel.computeFlexboxLayout`, Model/Flex.lean = src/compute/flexbox.rs) as an interaction
  program: its shape, stage by stage.

    computePreliminary = measuring prefix (`flexPrefix`: steps 1–7 + baselines; child queries only, no `setLayout`)
                         >>= `flexTail` (steps 8–15: pure; then, unless ComputeSize: step 16, final layout pass,
                                         absolutely positioned children, `display:none` children)

  The invariant carried through all stages is the list of child indices of the flex items, line by line (`shape`): every
  stage keeps it, `collect_flex_lines` cuts the item list into lines without losing or inventing an item.

  `Meas Q n p`: the program `p` never assigns a layout, makes at most `n` child calls on every run, and every possible
  result satisfies `Q`.  One proof per measuring stage then yields `C05.PHZ`, `C16.callsLe`, `EvalBlock.Post` at once.
-/
import TaffyVerif.Model.Flex
import TaffyVerif.Lemmas.EvalBlock
import TaffyVerif.Lemmas.EvalBlockFlags

set_option linter.unusedSectionVars false
set_option linter.unusedVariables false

namespace EvalFlex
open FlexModel EvalBlock
variable {α : Type} [Num α]

/-! ### `Meas`: measuring programs -/

/-- no `setLayout`, at most `n` calls on every run, every result satisfies `Q` -/
def Meas {β : Type} (Q : β → Prop) : Nat → ProgM α β → Prop
  | _, .pure b => Q b
  | n, .call _ _ k => ∃ m, n = m + 1 ∧ ∀ o, Meas Q m (k o)
  | _, .setLayout _ _ _ => False

theorem Meas_mono {β : Type} (Q R : β → Prop) (hQR : ∀ b, Q b → R b) (p : ProgM α β) :
    ∀ (n m : Nat), n ≤ m → Meas Q n p → Meas R m p := by
  induction p with
  | pure b => intro _ _ _ h; exact hQR b h
  | call i inp k ih =>
    intro n m hnm h
    obtain ⟨n', hn, hk⟩ := h
    exact ⟨m - 1, by omega, fun o => ih o n' (m - 1) (by omega) (hk o)⟩
  | setLayout i l k ih => intro _ _ _ h; exact h

theorem Meas_bind {β γ : Type} (Q : β → Prop) (R : γ → Prop) (p : ProgM α β) (f : β → ProgM α γ) (b : Nat) :
    ∀ (a : Nat), Meas Q a p → (∀ x, Q x → Meas R b (f x)) → Meas R (a + b) (p >>= f) := by
  rw [bind_eq]
  induction p with
  | pure x => intro a hq hf; exact Meas_mono R R (fun _ h => h) _ b (a + b) (by omega) (hf x hq)
  | call i inp k ih =>
    intro a hp hf
    obtain ⟨m, hm, hk⟩ := hp
    exact ⟨m + b, by omega, fun o => ih o m (hk o) hf⟩
  | setLayout i l k ih => intro a hp _; exact hp

theorem Meas_pure {β : Type} (Q : β → Prop) (n : Nat) (b : β) (h : Q b) : Meas Q n (pure b : ProgM α β) := h

theorem Meas_Post {β : Type} (Q : β → Prop) (p : ProgM α β) : ∀ n, Meas Q n p → Post Q p := by
  induction p with
  | pure b => intro _ h; exact h
  | call i inp k ih => intro n h o; obtain ⟨m, _, hk⟩ := h; exact ih o m (hk o)
  | setLayout i l k ih => intro _ h; exact h.elim

theorem Meas_PHZ {β : Type} (cs : List (Style α)) (Q : β → Prop) (p : ProgM α β) : ∀ n, Meas Q n p → C05.PHZ cs p := by
  induction p with
  | pure b => intro _ _; trivial
  | call i inp k ih => intro n h o; obtain ⟨m, _, hk⟩ := h; exact ih o m (hk o)
  | setLayout i l k ih => intro _ h; exact h.elim

theorem Meas_callsLe {β : Type} (Q : β → Prop) (p : ProgM α β) : ∀ n, Meas Q n p → C16.callsLe n p := by
  induction p with
  | pure b => intro _ _; trivial
  | call i inp k ih => intro n h; obtain ⟨m, hm, hk⟩ := h; exact ⟨m, hm, fun o => ih o m (hk o)⟩
  | setLayout i l k ih => intro _ h; exact h.elim

/-- a single child query -/
theorem Meas_measure (Q : α → Prop) (i : Nat) (kd ps : Size (Option α)) (av : Size (AvailableSpace α))
    (sm : SizingMode) (hz : Bool) (vm : Line Bool) (h : ∀ x, Q x) :
    Meas Q 1 (ProgM.measureChildSize i kd ps av sm hz vm) :=
  ⟨0, rfl, fun _ => h _⟩

theorem Meas_perform (Q : LayoutOutput α → Prop) (i : Nat) (kd ps : Size (Option α)) (av : Size (AvailableSpace α))
    (sm : SizingMode) (vm : Line Bool) (h : ∀ x, Q x) :
    Meas Q 1 (ProgM.performChildLayout i kd ps av sm vm) :=
  ⟨0, rfl, fun _ => h _⟩

/-! ### the index skeleton of items and lines -/

/-- the child indices of a list of flex items -/
def iidx (items : List (FlexItem α)) : List Nat := items.map (·.nodeIdx)

/-- the child indices of the items, line by line -/
def shape (lines : List (FlexLineS α)) : List (List Nat) := lines.map fun l => iidx l.items

/-- all child indices of the items of the lines -/
def idxs (lines : List (FlexLineS α)) : List Nat := (shape lines).flatten

theorem iidx_cons (a : FlexItem α) (l : List (FlexItem α)) : iidx (a :: l) = a.nodeIdx :: iidx l := rfl
theorem shape_cons (a : FlexLineS α) (l : List (FlexLineS α)) : shape (a :: l) = iidx a.items :: shape l := rfl

/-! ### `compute_preliminary` cut into stages -/
section stages
variable [FlexLine.NumX α]

/-- `style_of(child)`: the style of the `i`-th child -/
def styleOf (cs : List (Style α)) : Nat → Style α := fun i => (cs[i]?).getD Style.default

/-- the `AlgoConstants` `compute_preliminary` starts from -/
def k0 (style : Style α) (inputs : LayoutInput α) : AlgoConstants α :=
  computeConstants style inputs.knownDimensions inputs.parentSize

/-- the available space for the items (step 2) -/
def av0 (style : Style α) (inputs : LayoutInput α) : Size (AvailableSpace α) :=
  determineAvailableSpace inputs.knownDimensions inputs.availableSpace (k0 style inputs)

/-- "if container size is undefined, determine the container's main size and then re-resolve gaps" -/
def mainSizeStage (style : Style α) (k : AlgoConstants α) (availableSpace : Size (AvailableSpace α))
    (lines : List (FlexLineS α)) : ProgM α (List (FlexLineS α) × AlgoConstants α) :=
  match k.nodeInnerSize.main k.dir with
  | some innerMainSize =>
    let outerMainSize := innerMainSize + k.contentBoxInset.mainAxisSum k.dir
    pure (lines,
      { k with innerContainerSize := setMain k.innerContainerSize k.dir innerMainSize,
               containerSize := setMain k.containerSize k.dir outerMainSize })
  | none => do
    let (lines, k) ← determineContainerMainSize k availableSpace lines
    let k := { k with nodeInnerSize := setMain k.nodeInnerSize k.dir (some (k.innerContainerSize.main k.dir)),
                      nodeOuterSize := setMain k.nodeOuterSize k.dir (some (k.containerSize.main k.dir)) }
    let innerContainerSize := k.innerContainerSize.main k.dir
    let newGap := (style.gap.main k.dir).resolveOrZero (some innerContainerSize)
    pure (lines, { k with gap := setMain k.gap k.dir newGap })

/-- steps 8–15 on the lines (pure) -/
def crossStage (cs : List (Style α)) (inputs : LayoutInput α) (k : AlgoConstants α) (lines : List (FlexLineS α)) :
    List (FlexLineS α) :=
  resolveCrossAxisAutoMargins k ((determineUsedCrossSize k (styleOf cs)
    (handleAlignContentStretch k inputs.knownDimensions (calculateCrossSize k inputs.knownDimensions lines))).map
      (distributeLine k))

/-- step 16, the final layout pass, the absolutely positioned and the `display:none` children -/
def layoutStage (cs : List (Style α)) (k : AlgoConstants α) (totalLineCrossSize : α) (lines : List (FlexLineS α)) :
    ProgM α (LayoutOutput α) :=
  finalLayoutPass k (alignFlexLinesPerAlignContent k totalLineCrossSize lines) >>= fun r =>
  absLoop k cs 0 Size.zero >>= fun absoluteContentSize =>
  BlockModel.hiddenLoop cs 0 >>= fun _ =>
  pure (LayoutOutput.fromSizesAndBaselines k.containerSize (r.2.f32Max absoluteContentSize)
    ⟨none, firstVerticalBaseline k r.1⟩)

/-- everything after the last measuring stage -/
def flexTail (cs : List (Style α)) (inputs : LayoutInput α) (r : List (FlexLineS α) × AlgoConstants α) :
    ProgM α (LayoutOutput α) :=
  let lines := crossStage cs inputs r.2 r.1
  let tk := determineContainerCrossSize r.2 inputs.knownDimensions lines
  if inputs.runMode == .computeSize then pure (LayoutOutput.fromOuterSize tk.2.containerSize)
  else layoutStage cs tk.2 tk.1 lines

/-- steps 6, 7 and the baselines, from the lines and constants of `mainSizeStage` -/
def hypStage (inputs : LayoutInput α) (availableSpace : Size (AvailableSpace α))
    (r : List (FlexLineS α) × AlgoConstants α) : ProgM α (List (FlexLineS α) × AlgoConstants α) :=
  determineHypotheticalCrossSize r.2 availableSpace (r.1.map (resolveFlexibleLengthsLine r.2)) >>= fun lines =>
  calculateChildrenBaseLines r.2 inputs.knownDimensions availableSpace lines >>= fun lines =>
  pure (lines, r.2)

/-- the measuring prefix: steps 1–7 and the baselines -/
def flexPrefix (style : Style α) (cs : List (Style α)) (inputs : LayoutInput α) :
    ProgM α (List (FlexLineS α) × AlgoConstants α) :=
  determineFlexBaseSize (k0 style inputs) (av0 style inputs) (styleOf cs)
    (generateAnonymousFlexItems (k0 style inputs) cs) >>= fun flexItems =>
  mainSizeStage style (k0 style inputs) (av0 style inputs)
    (collectFlexLines (k0 style inputs) (av0 style inputs) flexItems) >>= fun r =>
  hypStage inputs (av0 style inputs) r

theorem bind_assoc' {β γ δ : Type} (p : ProgM α β) (f : β → ProgM α γ) (g : γ → ProgM α δ) :
    (p >>= f) >>= g = p >>= fun x => f x >>= g := by
  simp only [bind_eq]
  induction p with
  | pure b => rfl
  | call i inp k ih => simp only [ProgM.bind, ih]
  | setLayout i l k ih => simp only [ProgM.bind, ih]

/-- `compute_preliminary` in the nesting of the `do` block -/
theorem computePreliminary_nested (style : Style α) (cs : List (Style α)) (inputs : LayoutInput α) :
    computePreliminary style cs inputs =
      (determineFlexBaseSize (k0 style inputs) (av0 style inputs) (styleOf cs)
        (generateAnonymousFlexItems (k0 style inputs) cs) >>= fun flexItems =>
      mainSizeStage style (k0 style inputs) (av0 style inputs)
        (collectFlexLines (k0 style inputs) (av0 style inputs) flexItems) >>= fun r =>
      determineHypotheticalCrossSize r.2 (av0 style inputs) (r.1.map (resolveFlexibleLengthsLine r.2)) >>= fun lines =>
      calculateChildrenBaseLines r.2 inputs.knownDimensions (av0 style inputs) lines >>= fun lines =>
      flexTail cs inputs (lines, r.2)) := by
  rfl

theorem computePreliminary_eq (style : Style α) (cs : List (Style α)) (inputs : LayoutInput α) :
    computePreliminary style cs inputs = (flexPrefix style cs inputs >>= flexTail cs inputs) := by
  rw [computePreliminary_nested]
  simp only [flexPrefix, hypStage, bind_assoc']
  rfl

end stages

/-! ### pure stages keep the index skeleton -/
section pureStages

theorem idxs_nil : idxs ([] : List (FlexLineS α)) = [] := rfl
theorem idxs_cons (a : FlexLineS α) (l : List (FlexLineS α)) : idxs (a :: l) = iidx a.items ++ idxs l := by
  simp only [idxs, shape_cons, List.flatten_cons]

theorem iidx_map_of (f : FlexItem α → FlexItem α) (hf : ∀ i, (f i).nodeIdx = i.nodeIdx) (items : List (FlexItem α)) :
    iidx (items.map f) = iidx items := by
  simp only [iidx, List.map_map]
  exact List.map_congr_left fun i _ => hf i

/-- a per-line map that keeps every line's item indices keeps the shape -/
theorem shape_map_of (f : FlexLineS α → FlexLineS α) (hf : ∀ l, iidx (f l).items = iidx l.items)
    (lines : List (FlexLineS α)) : shape (lines.map f) = shape lines := by
  simp only [shape, List.map_map]
  exact List.map_congr_left fun l _ => hf l

theorem iidx_zipBack (dir : FlexDirection) : ∀ (is : List (FlexItem α)) (ms : List (FlexLine.FlexItemM α)),
    iidx (zipBack dir is ms) = iidx is
  | [], [] => rfl
  | [], _ :: _ => rfl
  | _ :: _, [] => rfl
  | i :: is, m :: ms => by
    simp only [zipBack, iidx_cons, iidx_zipBack dir is ms]
    rfl

theorem le_ite' {c : Prop} [Decidable c] (a b d : Nat) (h1 : a ≤ b) (h2 : a ≤ d) : a ≤ if c then b else d := by
  split <;> assumption

theorem le_breakIndex (dir : FlexDirection) (avail gap : α) : ∀ (l : List (FlexItem α)) (idx : Nat) (len : α),
    idx ≤ breakIndex dir avail gap l idx len
  | [], idx, _ => Nat.le_refl _
  | c :: rest, idx, len => by
    simp only [breakIndex]
    exact le_ite' _ _ _ (Nat.le_refl _)
      (Nat.le_trans (Nat.le_succ idx) (le_breakIndex dir avail gap rest (idx + 1) _))

theorem idxs_singletons : ∀ items : List (FlexItem α), idxs (items.map fun i => mkLine [i]) = iidx items
  | [] => rfl
  | a :: l => by
    simp only [List.map_cons, idxs_cons, idxs_singletons l]
    rfl

/-- `collect_flex_lines`' `find` never returns the first item: every line takes at least one item -/
theorem breakIndex_pos (dir : FlexDirection) (avail gap : α) (c : FlexItem α) (rest : List (FlexItem α)) (len : α) :
    1 ≤ breakIndex dir avail gap (c :: rest) 0 len := by
  simp only [breakIndex]
  rw [if_neg (by simp)]
  exact le_breakIndex dir avail gap rest 1 _

theorem idxs_splitLines (dir : FlexDirection) (avail gap : α) : ∀ (fuel : Nat) (items : List (FlexItem α)),
    items.length ≤ fuel → idxs (splitLines dir avail gap fuel items) = iidx items
  | 0, items, h => by
    have : items = [] := List.eq_nil_of_length_eq_zero (by omega)
    subst this
    rfl
  | fuel + 1, [], _ => rfl
  | fuel + 1, c :: rest, h => by
    have hp := breakIndex_pos dir avail gap c rest 0
    simp only [splitLines, idxs_cons, mkLine]
    rw [idxs_splitLines dir avail gap fuel _ (by simp only [List.length_drop, List.length_cons] at h ⊢; omega)]
    simp only [iidx, ← List.map_append, List.take_append_drop]

/-- **collect_flex_lines** cuts the item list into lines: no item is lost, duplicated or reordered -/
theorem idxs_collectFlexLines (k : AlgoConstants α) (av : Size (AvailableSpace α)) (items : List (FlexItem α)) :
    idxs (collectFlexLines k av items) = iidx items := by
  have one : idxs [mkLine items] = iidx items := by simp only [idxs_cons, idxs_nil, mkLine, List.append_nil]
  unfold collectFlexLines
  split
  · exact one
  · simp only
    split
    · exact one
    · exact idxs_singletons items
    · exact idxs_splitLines _ _ _ _ _ (Nat.le_refl _)

theorem fromM_idx (dir : FlexDirection) (i : FlexItem α) (m : FlexLine.FlexItemM α) :
    (fromM dir i m).nodeIdx = i.nodeIdx := rfl

theorem shape_resolveFlexibleLengths [FlexLine.NumX α] (k : AlgoConstants α) (lines : List (FlexLineS α)) :
    shape (lines.map (resolveFlexibleLengthsLine k)) = shape lines := by
  apply shape_map_of
  intro l
  unfold resolveFlexibleLengthsLine
  simp only
  split
  · exact iidx_zipBack _ _ _
  · rfl

theorem shape_mapHead (f : FlexLineS α → FlexLineS α) (hf : ∀ l, (f l).items = l.items) :
    ∀ lines : List (FlexLineS α), shape (mapHead f lines) = shape lines
  | [] => rfl
  | a :: l => by simp only [mapHead, shape_cons, hf]

theorem shape_calculateCrossSize (k : AlgoConstants α) (ns : Size (Option α)) (lines : List (FlexLineS α)) :
    shape (calculateCrossSize k ns lines) = shape lines := by
  unfold calculateCrossSize
  simp only
  split
  · exact shape_mapHead _ (by intro _; rfl) _
  · split
    · rw [shape_mapHead _ (by intro _; rfl)]
      exact shape_map_of _ (by intro _; rfl) _
    · exact shape_map_of _ (by intro _; rfl) _

theorem shape_handleAlignContentStretch (k : AlgoConstants α) (ns : Size (Option α)) (lines : List (FlexLineS α)) :
    shape (handleAlignContentStretch k ns lines) = shape lines := by
  unfold handleAlignContentStretch
  simp only
  split
  · split
    · exact shape_map_of _ (by intro _; rfl) _
    · rfl
  · rfl

theorem shape_determineUsedCrossSize (k : AlgoConstants α) (so : Nat → Style α) (lines : List (FlexLineS α)) :
    shape (determineUsedCrossSize k so lines) = shape lines := by
  unfold determineUsedCrossSize
  apply shape_map_of
  intro l
  exact iidx_map_of _ (by intro _; rfl) _

theorem shape_distribute (k : AlgoConstants α) (lines : List (FlexLineS α)) :
    shape (lines.map (distributeLine k)) = shape lines := by
  apply shape_map_of
  intro l
  exact iidx_zipBack _ _ _

theorem crossAutoMarginItem_idx (k : AlgoConstants α) (a b : α) (c : FlexItem α) :
    (crossAutoMarginItem k a b c).nodeIdx = c.nodeIdx := by
  unfold crossAutoMarginItem
  simp only
  split
  · rfl
  · split
    · rfl
    · split <;> rfl

theorem shape_resolveCrossAxisAutoMargins (k : AlgoConstants α) (lines : List (FlexLineS α)) :
    shape (resolveCrossAxisAutoMargins k lines) = shape lines := by
  unfold resolveCrossAxisAutoMargins
  apply shape_map_of
  intro l
  exact iidx_map_of _ (crossAutoMarginItem_idx k _ _) _

theorem shape_alignForward (f : Bool → α) : ∀ lines : List (FlexLineS α), shape (alignForward f lines) = shape lines
  | [] => rfl
  | a :: l => by
    simp only [alignForward, shape_cons]
    rw [shape_map_of _ (by intro _; rfl)]

theorem shape_reverse (lines : List (FlexLineS α)) : shape lines.reverse = (shape lines).reverse := by
  simp only [shape, List.map_reverse]

theorem shape_alignFlexLines (k : AlgoConstants α) (t : α) (lines : List (FlexLineS α)) :
    shape (alignFlexLinesPerAlignContent k t lines) = shape lines := by
  unfold alignFlexLinesPerAlignContent
  simp only
  split
  · rw [shape_reverse, shape_alignForward, shape_reverse, List.reverse_reverse]
  · exact shape_alignForward _ _

end pureStages

/-! ### measuring stages: no `setLayout`, bounded number of queries, index skeleton kept -/
section measStages

/-- a loop that maps a measuring per-item program over the items (the shape of `determineFlexBaseSize`,
`intrinsicItems`, `hypotheticalCrossItems`) -/
theorem Meas_items (c : Nat) (f : FlexItem α → ProgM α (FlexItem α))
    (loop : List (FlexItem α) → ProgM α (List (FlexItem α)))
    (hnil : loop [] = pure [])
    (hcons : ∀ a l, loop (a :: l) = (f a >>= fun a' => loop l >>= fun l' => pure (a' :: l')))
    (hf : ∀ a, Meas (fun a' => a'.nodeIdx = a.nodeIdx) c (f a)) :
    ∀ items : List (FlexItem α), Meas (fun r => iidx r = iidx items) (c * items.length) (loop items)
  | [] => by rw [hnil]; exact Meas_pure _ _ _ rfl
  | a :: l => by
    rw [hcons, List.length_cons, Nat.mul_succ, Nat.add_comm]
    refine Meas_bind _ _ _ _ _ _ (hf a) fun a' ha' => ?_
    rw [← Nat.add_zero (c * l.length)]
    refine Meas_bind _ _ _ _ _ _ (Meas_items c f loop hnil hcons hf l) fun l' hl' => ?_
    exact Meas_pure _ _ _ (by simp only [iidx_cons, ha', hl'])

theorem Meas_flexBaseSizeItem (k : AlgoConstants α) (av : Size (AvailableSpace α)) (cs : Style α) (child : FlexItem α) :
    Meas (fun c' => c'.nodeIdx = child.nodeIdx) 2 (flexBaseSizeItem k av cs child) := by
  unfold flexBaseSizeItem
  simp only
  refine Meas_bind (fun _ => True) _ _ _ 1 1 ?_ fun fb _ => ?_
  · split
    · exact Meas_pure _ _ _ trivial
    · exact Meas_measure _ _ _ _ _ _ _ _ fun _ => trivial
  · exact Meas_bind (fun _ => True) _ _ _ 0 1 (Meas_measure _ _ _ _ _ _ _ _ fun _ => trivial) fun mc _ =>
      Meas_pure _ _ _ rfl

theorem Meas_determineFlexBaseSize (k : AlgoConstants α) (av : Size (AvailableSpace α)) (so : Nat → Style α)
    (items : List (FlexItem α)) :
    Meas (fun r => iidx r = iidx items) (2 * items.length) (determineFlexBaseSize k av so items) :=
  Meas_items 2 (fun c => flexBaseSizeItem k av (so c.nodeIdx) c) (determineFlexBaseSize k av so) rfl (fun _ _ => rfl)
    (fun a => Meas_flexBaseSizeItem k av _ a) items

theorem Meas_intrinsicItem (k : AlgoConstants α) (av : Size (AvailableSpace α)) (m : α) (item : FlexItem α) :
    Meas (fun c' => c'.nodeIdx = item.nodeIdx) 1 (intrinsicItem k av m item) := by
  unfold intrinsicItem
  simp only
  refine Meas_bind (fun _ => True) _ _ _ 0 1 ?_ fun fb _ => Meas_pure _ _ _ rfl
  repeat' (first
    | exact Meas_pure _ _ _ trivial
    | refine Meas_bind (fun _ => True) _ _ _ 0 1 (Meas_measure _ _ _ _ _ _ _ _ fun _ => trivial) fun mc _ => ?_
    | split)

theorem Meas_intrinsicItems (k : AlgoConstants α) (av : Size (AvailableSpace α)) (m : α) (items : List (FlexItem α)) :
    Meas (fun r => iidx r = iidx items) (1 * items.length) (intrinsicItems k av m items) :=
  Meas_items 1 (intrinsicItem k av m) (intrinsicItems k av m) rfl (fun _ _ => rfl) (Meas_intrinsicItem k av m) items

theorem intrinsicTarget_idx (dir : FlexDirection) (i : FlexItem α) : (intrinsicTarget dir i).1.nodeIdx = i.nodeIdx := rfl

/-- number of items of the lines -/
def nItems (lines : List (FlexLineS α)) : Nat := (idxs lines).length

theorem nItems_cons (a : FlexLineS α) (l : List (FlexLineS α)) : nItems (a :: l) = a.items.length + nItems l := by
  simp only [nItems, idxs_cons, List.length_append, iidx, List.length_map]

theorem nItems_of_shape (l l' : List (FlexLineS α)) (h : shape l' = shape l) : nItems l' = nItems l := by
  simp only [nItems, idxs, h]

theorem Meas_intrinsicLines (k : AlgoConstants α) (av : Size (AvailableSpace α)) (m : α) :
    ∀ (lines : List (FlexLineS α)) (ms : α),
      Meas (fun r => shape r.1 = shape lines) (nItems lines) (intrinsicLines k av m lines ms)
  | [], _ => Meas_pure _ _ _ rfl
  | line :: rest, ms => by
    rw [nItems_cons]
    unfold intrinsicLines
    simp only
    have h1 := Meas_intrinsicItems k av m line.items
    rw [Nat.one_mul] at h1
    refine Meas_bind _ _ _ _ _ _ h1 fun items hi => ?_
    rw [← Nat.add_zero (nItems rest)]
    refine Meas_bind _ _ _ _ _ _ (Meas_intrinsicLines k av m rest _) fun r hr => ?_
    refine Meas_pure _ _ _ ?_
    simp only [shape_cons, hr, List.map_map]
    rw [← hi]
    congr 1
    exact iidx_map_of _ (intrinsicTarget_idx k.dir) items

theorem Meas_determineContainerMainSize (k : AlgoConstants α) (av : Size (AvailableSpace α)) (lines : List (FlexLineS α)) :
    Meas (fun r => shape r.1 = shape lines) (nItems lines) (determineContainerMainSize k av lines) := by
  unfold determineContainerMainSize
  simp only
  rw [← Nat.add_zero (nItems lines)]
  refine Meas_bind (fun r => shape r.1 = shape lines) _ _ _ 0 _ ?_ fun r hr => Meas_pure _ _ _ hr
  have hI : ∀ ms, Meas (fun r : List (FlexLineS α) × α => shape r.1 = shape lines) (nItems lines)
      (intrinsicLines k av (k.contentBoxInset.mainAxisSum k.dir) lines ms >>= fun r =>
        pure (r.1, r.2 + k.contentBoxInset.mainAxisSum k.dir)) := by
    intro ms
    rw [← Nat.add_zero (nItems lines)]
    exact Meas_bind _ _ _ _ _ _ (Meas_intrinsicLines k av _ lines ms) fun r hr => Meas_pure _ _ _ hr
  split
  · exact Meas_pure _ _ _ rfl
  · split
    · exact Meas_pure _ _ _ rfl
    · split
      · exact Meas_pure _ _ _ rfl
      · exact hI 0
    · exact hI 0

theorem Meas_mainSizeStage (style : Style α) (k : AlgoConstants α) (av : Size (AvailableSpace α))
    (lines : List (FlexLineS α)) :
    Meas (fun r => shape r.1 = shape lines) (nItems lines) (mainSizeStage style k av lines) := by
  unfold mainSizeStage
  split
  · exact Meas_pure _ _ _ rfl
  · rw [← Nat.add_zero (nItems lines)]
    exact Meas_bind _ _ _ _ _ _ (Meas_determineContainerMainSize k av lines) fun r hr => Meas_pure _ _ _ hr

theorem Meas_hypotheticalCrossItem (k : AlgoConstants α) (av : Size (AvailableSpace α)) (child : FlexItem α) :
    Meas (fun c' => c'.nodeIdx = child.nodeIdx) 1 (hypotheticalCrossItem k av child) := by
  unfold hypotheticalCrossItem
  simp only
  refine Meas_bind (fun _ => True) _ _ _ 0 1 ?_ fun fb _ => Meas_pure _ _ _ rfl
  split
  · exact Meas_pure _ _ _ trivial
  · exact Meas_bind (fun _ => True) _ _ _ 0 1 (Meas_measure _ _ _ _ _ _ _ _ fun _ => trivial) fun mc _ =>
      Meas_pure _ _ _ trivial

theorem Meas_hypotheticalCrossItems (k : AlgoConstants α) (av : Size (AvailableSpace α)) (items : List (FlexItem α)) :
    Meas (fun r => iidx r = iidx items) (1 * items.length) (hypotheticalCrossItems k av items) :=
  Meas_items 1 (hypotheticalCrossItem k av) (hypotheticalCrossItems k av) rfl (fun _ _ => rfl)
    (Meas_hypotheticalCrossItem k av) items

theorem Meas_determineHypotheticalCrossSize (k : AlgoConstants α) (av : Size (AvailableSpace α)) :
    ∀ lines : List (FlexLineS α),
      Meas (fun r => shape r = shape lines) (nItems lines) (determineHypotheticalCrossSize k av lines)
  | [] => Meas_pure _ _ _ rfl
  | line :: rest => by
    rw [nItems_cons]
    unfold determineHypotheticalCrossSize
    have h1 := Meas_hypotheticalCrossItems k av line.items
    rw [Nat.one_mul] at h1
    refine Meas_bind _ _ _ _ _ _ h1 fun items hi => ?_
    rw [← Nat.add_zero (nItems rest)]
    refine Meas_bind _ _ _ _ _ _ (Meas_determineHypotheticalCrossSize k av rest) fun r hr => ?_
    exact Meas_pure _ _ _ (by simp only [shape_cons, hr, hi])

theorem Meas_baselineItems (k : AlgoConstants α) (ns : Size (Option α)) (av : Size (AvailableSpace α)) :
    ∀ items : List (FlexItem α), Meas (fun r => iidx r = iidx items) items.length (baselineItems k ns av items)
  | [] => Meas_pure _ _ _ rfl
  | child :: rest => by
    unfold baselineItems
    split
    · refine Meas_mono _ _ (fun _ h => h) _ (rest.length + 0) _ (by simp) ?_
      exact Meas_bind _ _ _ _ _ _ (Meas_baselineItems k ns av rest) fun r hr =>
        Meas_pure _ _ _ (by simp only [iidx_cons, hr])
    · rw [List.length_cons, Nat.add_comm]
      refine Meas_bind (fun _ => True) _ _ _ _ 1 (Meas_perform _ _ _ _ _ _ _ fun _ => trivial) fun out _ => ?_
      simp only
      rw [← Nat.add_zero rest.length]
      exact Meas_bind _ _ _ _ _ _ (Meas_baselineItems k ns av rest) fun r hr =>
        Meas_pure _ _ _ (by simp only [iidx_cons, hr])

theorem Meas_baselineLines (k : AlgoConstants α) (ns : Size (Option α)) (av : Size (AvailableSpace α)) :
    ∀ lines : List (FlexLineS α), Meas (fun r => shape r = shape lines) (nItems lines) (baselineLines k ns av lines)
  | [] => Meas_pure _ _ _ rfl
  | line :: rest => by
    rw [nItems_cons]
    unfold baselineLines
    simp only
    refine Meas_bind (fun l' : FlexLineS α => iidx l'.items = iidx line.items) _ _ _ _ _ ?_ fun l' hl' => ?_
    · split
      · exact Meas_pure _ _ _ rfl
      · rw [← Nat.add_zero line.items.length]
        exact Meas_bind _ _ _ _ _ _ (Meas_baselineItems k ns av line.items) fun r hr => Meas_pure _ _ _ hr
    · rw [← Nat.add_zero (nItems rest)]
      refine Meas_bind _ _ _ _ _ _ (Meas_baselineLines k ns av rest) fun r hr => ?_
      exact Meas_pure _ _ _ (by simp only [shape_cons, hr, hl'])

theorem Meas_calculateChildrenBaseLines (k : AlgoConstants α) (ns : Size (Option α)) (av : Size (AvailableSpace α))
    (lines : List (FlexLineS α)) :
    Meas (fun r => shape r = shape lines) (nItems lines) (calculateChildrenBaseLines k ns av lines) := by
  unfold calculateChildrenBaseLines
  split
  · exact Meas_pure _ _ _ rfl
  · exact Meas_baselineLines k ns av lines

end measStages

/-! ### the measuring prefix as a whole -/
section pref
variable [FlexLine.NumX α]

theorem Meas_hypStage (inputs : LayoutInput α) (av : Size (AvailableSpace α)) (r : List (FlexLineS α) × AlgoConstants α) :
    Meas (fun r' => shape r'.1 = shape r.1) (2 * nItems r.1) (hypStage inputs av r) := by
  unfold hypStage
  have e : nItems (r.1.map (resolveFlexibleLengthsLine r.2)) = nItems r.1 :=
    nItems_of_shape _ _ (shape_resolveFlexibleLengths r.2 r.1)
  have h1 := Meas_determineHypotheticalCrossSize r.2 av (r.1.map (resolveFlexibleLengthsLine r.2))
  rw [e, shape_resolveFlexibleLengths] at h1
  rw [Nat.two_mul]
  refine Meas_bind _ _ _ _ _ _ h1 fun lines hl => ?_
  rw [← Nat.add_zero (nItems r.1)]
  have h2 := Meas_calculateChildrenBaseLines r.2 inputs.knownDimensions av lines
  rw [nItems_of_shape _ _ hl, hl] at h2
  exact Meas_bind _ _ _ _ _ _ h2 fun lines' hl' => Meas_pure _ _ _ hl'

/-- the flex items `compute_preliminary` generates -/
def items0 (style : Style α) (cs : List (Style α)) (inputs : LayoutInput α) : List (FlexItem α) :=
  generateAnonymousFlexItems (k0 style inputs) cs

/-- **the measuring prefix**: no `setLayout`; at most 5 queries per flex item (flex basis, min-content contribution,
intrinsic main size, hypothetical cross size, baseline); the lines it returns hold exactly the generated items' indices -/
theorem Meas_flexPrefix (style : Style α) (cs : List (Style α)) (inputs : LayoutInput α) :
    Meas (fun r => idxs r.1 = iidx (items0 style cs inputs)) (5 * (items0 style cs inputs).length)
      (flexPrefix style cs inputs) := by
  unfold flexPrefix
  have hn : ∀ l : List (FlexItem α), l.length = (iidx l).length := fun l => by simp only [iidx, List.length_map]
  rw [show 5 * (items0 style cs inputs).length = 2 * (items0 style cs inputs).length +
    ((items0 style cs inputs).length + 2 * (items0 style cs inputs).length) by omega]
  refine Meas_bind _ _ _ _ _ _ (Meas_determineFlexBaseSize _ _ _ _) fun items hi => ?_
  have hc := idxs_collectFlexLines (k0 style inputs) (av0 style inputs) items
  have hlen : nItems (collectFlexLines (k0 style inputs) (av0 style inputs) items) = (items0 style cs inputs).length := by
    rw [nItems, hc, hi, ← hn]
  have h2 := Meas_mainSizeStage style (k0 style inputs) (av0 style inputs)
    (collectFlexLines (k0 style inputs) (av0 style inputs) items)
  rw [hlen] at h2
  refine Meas_bind _ _ _ _ _ _ h2 fun r hr => ?_
  have h3 := Meas_hypStage inputs (av0 style inputs) r
  rw [nItems_of_shape _ _ hr, hlen] at h3
  refine Meas_mono _ _ ?_ _ _ _ (Nat.le_refl _) h3
  intro r' hr'
  simp only [idxs, hr', hr]
  exact hc.trans hi

/-- `compute_flexbox_layout` is either a pure early return or `compute_preliminary` on amended inputs -/
theorem computeFlexboxLayout_cases (style : Style α) (inputs : LayoutInput α) :
    (inputs.runMode = .computeSize ∧ ∃ o, ∀ cs : List (Style α), computeFlexboxLayout style cs inputs = .pure o) ∨
    (∃ inputs' : LayoutInput α, inputs'.runMode = inputs.runMode ∧
      ∀ cs : List (Style α), computeFlexboxLayout style cs inputs = computePreliminary style cs inputs') := by
  unfold computeFlexboxLayout
  simp only
  split
  · rename_i h _ _
    exact Or.inl ⟨h, _, fun _ => rfl⟩
  · exact Or.inr ⟨{ inputs with knownDimensions := styledBasedKnownDimensions style inputs }, rfl, fun _ => rfl⟩

end pref

/-! ### the item list -/
section items

theorem generateItem_idx (k : AlgoConstants α) (idx : Nat) (s : Style α) : (generateItem k idx s).nodeIdx = idx := rfl

/-- is the child a flex item (generates a box, not absolutely positioned)? -/
def isItem (s : Style α) : Bool := !(s.position == .absolute || s.isHidden)

theorem generateItemsFrom_cons (k : AlgoConstants α) (s : Style α) (rest : List (Style α)) (idx : Nat) :
    generateItemsFrom k (s :: rest) idx =
      if isItem s then generateItem k idx s :: generateItemsFrom k rest (idx + 1) else generateItemsFrom k rest (idx + 1) := by
  simp only [generateItemsFrom, isItem]
  by_cases h : (s.position == .absolute || s.isHidden) = true
  · simp only [h, if_true, Bool.not_true, Bool.false_eq_true, if_false]
  · simp only [Bool.not_eq_true] at h
    simp only [h, Bool.not_false, if_true, Bool.false_eq_true, if_false]

/-- the item indices are exactly the indices of the children that are flex items -/
theorem mem_iidx_generateItemsFrom (k : AlgoConstants α) : ∀ (l : List (Style α)) (idx i : Nat),
    i ∈ iidx (generateItemsFrom k l idx) ↔ ∃ j s, i = idx + j ∧ l[j]? = some s ∧ isItem s = true
  | [], idx, i => by simp [generateItemsFrom, iidx]
  | s :: rest, idx, i => by
    rw [generateItemsFrom_cons]
    have ih := mem_iidx_generateItemsFrom k rest (idx + 1) i
    have step : (∃ j s', i = idx + 1 + j ∧ rest[j]? = some s' ∧ isItem s' = true) ↔
        ∃ j s', i = idx + (j + 1) ∧ (s :: rest)[j + 1]? = some s' ∧ isItem s' = true := by
      constructor
      · rintro ⟨j, s', h1, h2, h3⟩; exact ⟨j, s', by omega, by simpa using h2, h3⟩
      · rintro ⟨j, s', h1, h2, h3⟩; exact ⟨j, s', by omega, by simpa using h2, h3⟩
    by_cases hs : isItem s = true
    · rw [if_pos hs, iidx_cons, List.mem_cons, ih, step, generateItem_idx]
      constructor
      · rintro (h | ⟨j, s', h1, h2, h3⟩)
        · exact ⟨0, s, by omega, rfl, hs⟩
        · exact ⟨j + 1, s', h1, h2, h3⟩
      · rintro ⟨j, s', h1, h2, h3⟩
        cases j with
        | zero => exact Or.inl (by omega)
        | succ j => exact Or.inr ⟨j, s', h1, h2, h3⟩
    · rw [if_neg hs, ih, step]
      constructor
      · rintro ⟨j, s', h1, h2, h3⟩; exact ⟨j + 1, s', h1, h2, h3⟩
      · rintro ⟨j, s', h1, h2, h3⟩
        cases j with
        | zero =>
          simp only [List.getElem?_cons_zero, Option.some.injEq] at h2
          subst h2
          exact absurd h3 hs
        | succ j => exact ⟨j, s', h1, h2, h3⟩

theorem mem_iidx_items (k : AlgoConstants α) (cs : List (Style α)) (i : Nat) :
    i ∈ iidx (generateAnonymousFlexItems k cs) ↔ ∃ s, cs[i]? = some s ∧ isItem s = true := by
  unfold generateAnonymousFlexItems
  rw [mem_iidx_generateItemsFrom]
  constructor
  · rintro ⟨j, s, h1, h2, h3⟩; exact ⟨s, by rw [h1, Nat.zero_add]; exact h2, h3⟩
  · rintro ⟨s, h2, h3⟩; exact ⟨i, s, by omega, h2, h3⟩

/-- number of flex items / of absolutely positioned boxes among the children -/
def nFlow : List (Style α) → Nat
  | [] => 0
  | s :: r => (if isItem s then 1 else 0) + nFlow r
def nAbsV : List (Style α) → Nat
  | [] => 0
  | s :: r => (if s.isHidden || s.position != .absolute then 0 else 1) + nAbsV r

theorem generateItemsFrom_length (k : AlgoConstants α) : ∀ (l : List (Style α)) (idx : Nat),
    (generateItemsFrom k l idx).length = nFlow l
  | [], _ => rfl
  | s :: rest, idx => by
    rw [generateItemsFrom_cons, nFlow]
    split
    · rw [List.length_cons, generateItemsFrom_length k rest]; omega
    · rw [generateItemsFrom_length k rest]; omega

/-- every child is a flex item, an absolutely positioned box, or `display:none` -/
theorem nFlow_nAbsV_nHid : ∀ l : List (Style α), nFlow l + nAbsV l + nHid l = l.length
  | [] => rfl
  | s :: r => by
    have := nFlow_nAbsV_nHid r
    simp only [nFlow, nAbsV, nHid, isItem, List.length_cons, pos_beq, pos_bne]
    cases s.isHidden <;> by_cases hp : s.position = .absolute <;> simp [hp] <;> omega

end items

end EvalFlex
