/-
  Stored layouts, final-state comparison (C01 part 4): the exact-memo evaluator against the cache-free evaluator when
  PerformLayout evaluations determine the whole subtree (`PLCovers`) and PerformLayout hits are quiet (`QuietRun`).
-/
import TaffyVerif.Lemmas.EvalLayouts

set_option linter.unusedSectionVars false

namespace EvalMemo
open Eval Gen.Facts
variable {α : Type} [Num α]

/-! ### fuel independence of the evaluator itself -/
section
variable {C : Type} (ci : CacheImpl α C) (sel : Display → Bool → Option Callee) (algs : Algs α)

theorem evalChildOf_congr (f1 f2 : Nat) (kids : List (STree α))
    (h : ∀ (i : Nat) (t : STree α), kids[i]? = some t → ∀ k cin, evalNodeWith ci sel algs f1 t k cin = evalNodeWith ci sel algs f2 t k cin) :
    evalChildOf ci sel algs f1 kids = evalChildOf ci sel algs f2 kids := by
  funext i cin ks
  simp only [evalChildOf]
  cases hk : kids[i]? with
  | none => rfl
  | some t =>
    cases hk2 : ks[i]? with
    | none => rfl
    | some k => simp only [h i t hk k cin]

theorem evalNodeWith_fuel_indep : ∀ (f1 f2 : Nat) (t : STree α) (ns : NS α C) (inp : LayoutInput α),
    STree.depth t ≤ f1 → STree.depth t ≤ f2 →
      evalNodeWith ci sel algs f1 t ns inp = evalNodeWith ci sel algs f2 t ns inp := by
  intro f1
  induction f1 with
  | zero => intro f2 t ns inp h1 _; cases t; simp [STree.depth] at h1
  | succ f1 ih =>
    intro f2 t ns inp h1 h2
    cases f2 with
    | zero => cases t; simp [STree.depth] at h2
    | succ f2 =>
      cases t with
      | node style ctx kids =>
        cases ns with
        | mk c l nk =>
          simp only [STree.depth] at h1 h2
          have : evalChildOf ci sel algs f1 kids = evalChildOf ci sel algs f2 kids := by
            apply evalChildOf_congr
            intro i t hk k cin
            have := depth_le_of_getElem kids i t hk
            exact ih f2 t k cin (by omega) (by omega)
          rw [evalNodeWith_succ, evalNodeWith_succ, this]
end

/-! ### `compute_hidden_layout` forgets the previous layouts -/
section
variable {C D : Type} (ci : CacheImpl α C) (cj : CacheImpl α D)

mutual
theorem hidden_erase_eq : ∀ (t : STree α) (a : NS α C) (b : NS α D), Shape t a → Shape t b →
    erase (hiddenLayout ci a) = erase (hiddenLayout cj b)
  | .node _ _ kids, .mk _ _ ak, .mk _ _ bk, ha, hb => by
    simp only [Shape] at ha hb
    simp only [hiddenLayout, erase]
    rw [hiddenList_erase_eq kids ak bk ha hb]
theorem hiddenList_erase_eq : ∀ (ts : List (STree α)) (a : List (NS α C)) (b : List (NS α D)), ShapeList ts a →
    ShapeList ts b → eraseList (hiddenLayoutList ci a) = eraseList (hiddenLayoutList cj b)
  | [], [], [], _, _ => by simp [hiddenLayoutList, eraseList]
  | t :: ts, a :: as, b :: bs, ha, hb => by
    simp only [ShapeList] at ha hb
    simp only [hiddenLayoutList, eraseList]
    rw [hidden_erase_eq t a b ha.1 hb.1, hiddenList_erase_eq ts as bs ha.2 hb.2]
  | [], _ :: _, _, ha, _ => by simp [ShapeList] at ha
  | [], [], _ :: _, _, hb => by simp [ShapeList] at hb
  | _ :: _, [], _, ha, _ => by simp [ShapeList] at ha
  | _ :: _, _ :: _, [], _, hb => by simp [ShapeList] at hb
end
end

/-! ### the ghost invariant: a PerformLayout entry at the head of a memo describes the stored layouts below -/
section
variable [DecidableEq α]
variable (sel : Display → Bool → Option Callee) (algs : Algs α)

/-- exact memo -/
abbrev MemoT (α : Type) := List (LayoutInput α × LayoutOutput α)

/-- if the newest entry of the node's memo is a PerformLayout entry for `A`, the layouts stored strictly below the node
are the ones a cache-free evaluation of `(t, A)` leaves there, whatever state it starts from -/
def Settled (t : STree α) (c : MemoT α) (nk : List (NS α (MemoT α))) : Prop :=
  ∀ A o, c.head? = some (A, o) → A.runMode = .performLayout →
    ∀ nsF : NS α Unit, Shape t nsF →
      eraseList nk = (evalNodeWith noCache sel algs (STree.depth t) t nsF A).2.kids

mutual
def J : STree α → NS α (MemoT α) → Prop
  | .node s c kids, .mk m _ nk => Settled sel algs (.node s c kids) m nk ∧ JList kids nk
def JList : List (STree α) → List (NS α (MemoT α)) → Prop
  | [], [] => True
  | t :: ts, k :: ks => J t k ∧ JList ts ks
  | [], _ :: _ => False
  | _ :: _, [] => False
end

theorem JList_get : ∀ (kids : List (STree α)) (ks : List (NS α (MemoT α))) (i : Nat) (t : STree α) (k : NS α (MemoT α)),
    JList sel algs kids ks → kids[i]? = some t → ks[i]? = some k → J sel algs t k
  | [], _, _, _, _, _, h, _ => by simp at h
  | _ :: _, [], _, _, _, hv, _, _ => by simp [JList] at hv
  | a :: as, b :: bs, 0, t, k, hv, h, h2 => by
    simp only [List.getElem?_cons_zero, Option.some.injEq] at h h2
    subst h; subst h2
    simp only [JList] at hv
    exact hv.1
  | a :: as, b :: bs, i + 1, t, k, hv, h, h2 => by
    simp only [List.getElem?_cons_succ] at h h2
    simp only [JList] at hv
    exact JList_get as bs i t k hv.2 h h2

theorem JList_set : ∀ (kids : List (STree α)) (ks : List (NS α (MemoT α))) (i : Nat) (t : STree α) (k' : NS α (MemoT α)),
    JList sel algs kids ks → kids[i]? = some t → J sel algs t k' → JList sel algs kids (ks.set i k')
  | [], _, _, _, _, _, h, _ => by simp at h
  | _ :: _, [], _, _, _, hv, _, _ => by simp [JList] at hv
  | a :: as, b :: bs, 0, t, k', hv, h, hk => by
    simp only [List.getElem?_cons_zero, Option.some.injEq] at h
    subst h
    simp only [JList] at hv
    simp only [List.set_cons_zero, JList]
    exact ⟨hk, hv.2⟩
  | a :: as, b :: bs, i + 1, t, k', hv, h, hk => by
    simp only [List.getElem?_cons_succ] at h
    simp only [JList] at hv
    simp only [List.set_cons_succ, JList]
    exact ⟨hv.1, JList_set as bs i t k' hv.2 h hk⟩

theorem JList_relayout : ∀ (kids : List (STree α)) (ks : List (NS α (MemoT α))) (i : Nat) (c : MemoT α) (l l' : Layout α)
    (nk : List (NS α (MemoT α))), JList sel algs kids ks → ks[i]? = some (.mk c l nk) →
      JList sel algs kids (ks.set i (.mk c l' nk))
  | [], [], _, _, _, _, _, _, h => by simp at h
  | _ :: _, [], _, _, _, _, _, hv, _ => by simp [JList] at hv
  | [], _ :: _, _, _, _, _, _, hv, _ => by simp [JList] at hv
  | a :: as, b :: bs, 0, c, l, l', nk, hv, h => by
    simp only [List.getElem?_cons_zero, Option.some.injEq] at h
    subst h
    simp only [JList] at hv
    simp only [List.set_cons_zero, JList]
    refine ⟨?_, hv.2⟩
    cases a with
    | node s cx kids => simpa only [J] using hv.1
  | a :: as, b :: bs, i + 1, c, l, l', nk, hv, h => by
    simp only [List.getElem?_cons_succ] at h
    simp only [JList] at hv
    simp only [List.set_cons_succ, JList]
    exact ⟨hv.1, JList_relayout as bs i c l l' nk hv.2 h⟩

theorem JList_setLayoutAt (kids : List (STree α)) (ks : List (NS α (MemoT α))) (i : Nat) (l : Layout α)
    (hv : JList sel algs kids ks) : JList sel algs kids (setLayoutAt ks i l) := by
  unfold setLayoutAt
  cases hk : ks[i]? with
  | none => exact hv
  | some k =>
    cases k with
    | mk c l0 nk => exact JList_relayout sel algs kids ks i c l0 l nk hv hk

mutual
theorem J_hidden : ∀ (t : STree α) (ns : NS α (MemoT α)), J sel algs t ns → J sel algs t (hiddenLayout exactMemo ns)
  | .node s c kids, .mk m l nk, h => by
    simp only [J] at h
    simp only [hiddenLayout, J]
    refine ⟨?_, JList_hidden kids nk h.2⟩
    intro A o hh
    simp [exactMemo] at hh
theorem JList_hidden : ∀ (kids : List (STree α)) (ks : List (NS α (MemoT α))), JList sel algs kids ks →
    JList sel algs kids (hiddenLayoutList exactMemo ks)
  | [], [], _ => by simp [hiddenLayoutList, JList]
  | t :: ts, k :: ks, h => by
    simp only [JList] at h
    simp only [hiddenLayoutList, JList]
    exact ⟨J_hidden t k h.1, JList_hidden ts ks h.2⟩
  | [], _ :: _, h => by simp [JList] at h
  | _ :: _, [], h => by simp [JList] at h
end

mutual
theorem J_init : ∀ (t : STree α), J sel algs t (NS.init exactMemo t)
  | .node s c kids => by
    simp only [NS.init, J]
    refine ⟨?_, JList_init kids⟩
    intro A o hh
    simp [exactMemo] at hh
theorem JList_init : ∀ (kids : List (STree α)), JList sel algs kids (NS.initList exactMemo kids)
  | [] => by simp [NS.initList, JList]
  | t :: ts => by
    simp only [NS.initList, JList]
    exact ⟨J_init t, JList_init ts⟩
end

end

/-! ### coverage: a PerformLayout evaluation writes every child's layout and ends each child with a determining call -/

def upd (f : Nat → Bool) (i : Nat) (b : Bool) : Nat → Bool := fun j => if j = i then b else f j

/-- `Covers n own strict p`: along every run of `p` (for all child answers), starting from the flags `own`/`strict`
(`own i`: child `i`'s own layout has been written since the last non-hidden call to it; `strict i`: the last call to
child `i` was in PerformLayout or hidden mode), at the end all `n` children have both flags.  A `setLayout` sets `own`;
a hidden-mode call sets both; a PerformLayout call sets `strict` and (conservatively) resets `own`; a ComputeSize call
resets both. -/
def Covers {β : Type} (n : Nat) : (Nat → Bool) → (Nat → Bool) → ProgM α β → Prop
  | own, strict, .pure _ => ∀ i, i < n → own i = true ∧ strict i = true
  | own, strict, .call i inp k =>
    ∀ o, Covers n (upd own i (inp.runMode == .performHiddenLayout)) (upd strict i (inp.runMode != .computeSize)) (k o)
  | own, strict, .setLayout i _ k => Covers n (upd own i true) strict (k ())

/-- **PLCovers**: every container program, run on a PerformLayout input, covers all its children -/
def PLCovers (algs : Algs α) : Prop :=
  ∀ (style : Style α) (styles : List (Style α)) (inp : LayoutInput α), inp.runMode = .performLayout →
    Covers styles.length (fun _ => false) (fun _ => false) (algs.block style styles inp) ∧
    Covers styles.length (fun _ => false) (fun _ => false) (algs.flex style styles inp) ∧
    Covers styles.length (fun _ => false) (fun _ => false) (algs.grid style styles inp)

/-- **SelOK**: a node with children is never dispatched to the leaf algorithm, and the dispatch is exhaustive for it -/
def SelOK (sel : Display → Bool → Option Callee) : Prop :=
  ∀ d, sel d true ≠ some .leaf ∧ sel d true ≠ none

/-! ### the flagged relation between the children of the two runs -/
section
variable [DecidableEq α]

abbrev RelAt (bo bs : Bool) (kM : NS α (MemoT α)) (kF : NS α Unit) : Prop :=
  (bo = true → kM.layout = kF.layout) ∧ (bs = true → eraseList kM.kids = kF.kids)

def RelList (own strict : Nat → Bool) (ksM : List (NS α (MemoT α))) (ksF : List (NS α Unit)) : Prop :=
  ∀ (i : Nat) (kM : NS α (MemoT α)) (kF : NS α Unit), ksM[i]? = some kM → ksF[i]? = some kF →
    RelAt (own i) (strict i) kM kF

theorem RelList_upd (own strict : Nat → Bool) (a a' : List (NS α (MemoT α))) (b b' : List (NS α Unit)) (i : Nat)
    (bo bs : Bool) (h : RelList own strict a b)
    (hi : ∀ kM kF, a'[i]? = some kM → b'[i]? = some kF → RelAt bo bs kM kF)
    (hne : ∀ j, j ≠ i → a'[j]? = a[j]? ∧ b'[j]? = b[j]?) :
    RelList (upd own i bo) (upd strict i bs) a' b' := by
  intro j kM kF hM hF
  by_cases hj : j = i
  · subst hj
    simp only [upd, if_true]
    exact hi kM kF hM hF
  · simp only [upd, hj, if_false]
    obtain ⟨e1, e2⟩ := hne j hj
    rw [e1] at hM
    rw [e2] at hF
    exact h j kM kF hM hF

theorem setLayoutAt_get_ne {C : Type} (ks : List (NS α C)) (i j : Nat) (l : Layout α) (h : j ≠ i) :
    (setLayoutAt ks i l)[j]? = ks[j]? := by
  unfold setLayoutAt
  cases hk : ks[i]? with
  | none => rfl
  | some k =>
    cases k with
    | mk c l0 nk =>
      simp only
      rw [List.getElem?_set_ne (Ne.symm h)]

theorem setLayoutAt_get_self {C : Type} (ks : List (NS α C)) (i : Nat) (l : Layout α) (a : NS α C)
    (h : (setLayoutAt ks i l)[i]? = some a) : a.layout = l ∧ ∃ k, ks[i]? = some k ∧ a.kids = k.kids := by
  unfold setLayoutAt at h
  cases hk : ks[i]? with
  | none => rw [hk] at h; simp only at h; rw [hk] at h; cases h
  | some k =>
    cases k with
    | mk c l0 nk =>
      rw [hk] at h
      simp only at h
      rw [List.getElem?_set_self', hk] at h
      simp only [Option.map_eq_map, Option.map_some, Function.const, Option.some.injEq] at h
      subst h
      exact ⟨rfl, _, rfl, rfl⟩

theorem RelList_setLayoutAt (own strict : Nat → Bool) (a : List (NS α (MemoT α))) (b : List (NS α Unit)) (i : Nat)
    (l : Layout α) (h : RelList own strict a b) :
    RelList (upd own i true) strict (setLayoutAt a i l) (setLayoutAt b i l) := by
  have hs : strict = upd strict i (strict i) := by
    funext j; simp only [upd]; split
    · rename_i e; rw [e]
    · rfl
  rw [hs]
  apply RelList_upd own strict a _ b _ i true (strict i) h
  · intro kM kF hM hF
    obtain ⟨m1, km, m2, m3⟩ := setLayoutAt_get_self a i l kM hM
    obtain ⟨f1, kf, f2, f3⟩ := setLayoutAt_get_self b i l kF hF
    refine ⟨fun _ => by rw [m1, f1], fun hs' => ?_⟩
    rw [m3, f3]
    exact (h i km kf m2 f2).2 hs'
  · intro j hj
    exact ⟨setLayoutAt_get_ne a i j l hj, setLayoutAt_get_ne b i j l hj⟩

theorem RelList_final (own strict : Nat → Bool) (a : List (NS α (MemoT α))) (b : List (NS α Unit))
    (hlen : a.length = b.length) (h : RelList own strict a b)
    (hall : ∀ i, i < a.length → own i = true ∧ strict i = true) : eraseList a = b := by
  apply List.ext_getElem?
  intro i
  rw [eraseList_get]
  cases ha : a[i]? with
  | none =>
    rw [List.getElem?_eq_none_iff] at ha
    have : b.length ≤ i := by omega
    simp [List.getElem?_eq_none_iff.mpr this]
  | some kM =>
    have hi : i < a.length := by
      rcases Nat.lt_or_ge i a.length with h' | h'
      · exact h'
      · rw [List.getElem?_eq_none_iff.mpr h'] at ha; cases ha
    have hb : b[i]? = some b[i] := List.getElem?_eq_getElem (by omega)
    obtain ⟨r1, r2⟩ := h i kM _ ha hb
    obtain ⟨o1, o2⟩ := hall i hi
    rw [hb]
    simp only [Option.map_some, Option.some.injEq]
    have e1 := r1 o1
    have e2 := r2 o2
    cases kM with
    | mk c l nk =>
      cases hbi : b[i] with
      | mk u l' nk' =>
        rw [hbi] at e1 e2
        simp only [NS.layout, NS.kids] at e1 e2
        simp only [erase]
        rw [e1, e2]

/-! ### quiet runs -/
variable (sel : Display → Bool → Option Callee) (algs : Algs α)

/-- **QuietRun**: in the exact-memo evaluation of `(t, ns, inp)`, every hit on a PerformLayout entry hits the *newest*
entry of that node's memo — i.e. the node's body has not been evaluated (for any other input) since that entry was
stored (a memo is cleared by hidden layout, and `store` puts the new entry at the head). -/
def QuietRun : Nat → STree α → NS α (MemoT α) → LayoutInput α → Prop
  | 0, _, _, _ => True
  | fuel + 1, .node style _ kids, .mk c _ nk, inp =>
    if inp.runMode == .performHiddenLayout then True
    else match exactMemo.get c inp with
      | some _ => inp.runMode = .performLayout → c.head?.map (·.1) = some inp
      | none =>
        match bodyOf sel algs style kids inp with
        | .prog p =>
          progAll (evalChildOf exactMemo sel algs fuel kids)
            (fun i cin ks => match kids[i]?, ks[i]? with
              | some t, some k => QuietRun fuel t k cin
              | _, _ => True) p nk
        | _ => True

theorem ShapeList_setLayoutAt {C : Type} (kids : List (STree α)) (ks : List (NS α C)) (i : Nat) (l : Layout α)
    (h : ShapeList kids ks) : ShapeList kids (setLayoutAt ks i l) :=
  let sel0 : Display → Bool → Option Callee := fun _ _ => none
  let algs0 : Algs α := ⟨fun _ _ _ => LayoutOutput.hidden, fun _ _ _ => .pure LayoutOutput.hidden,
    fun _ _ _ => .pure LayoutOutput.hidden, fun _ _ _ => .pure LayoutOutput.hidden⟩
  ValidList_shape (fun _ _ => True) sel0 algs0 kids _
    (ValidList_setLayoutAt _ sel0 algs0 kids ks i l (ShapeList_valid_true sel0 algs0 kids ks h))

theorem runProg_quiet {β : Type} (kids : List (STree α)) (n : Nat)
    (evalM : Nat → LayoutInput α → List (NS α (MemoT α)) → LayoutOutput α × List (NS α (MemoT α)))
    (evalF : Nat → LayoutInput α → List (NS α Unit) → LayoutOutput α × List (NS α Unit))
    (Q : Nat → LayoutInput α → List (NS α (MemoT α)) → Prop)
    (hc : ∀ i cin ksM ksF, ValidList memoV sel algs kids ksM → JList sel algs kids ksM → ShapeList kids ksF →
      Q i cin ksM →
        ValidList memoV sel algs kids (evalM i cin ksM).2 ∧ JList sel algs kids (evalM i cin ksM).2 ∧
        ShapeList kids (evalF i cin ksF).2 ∧ (evalM i cin ksM).1 = (evalF i cin ksF).1 ∧
        ∀ own strict, RelList own strict ksM ksF →
          RelList (upd own i (cin.runMode == .performHiddenLayout)) (upd strict i (cin.runMode != .computeSize))
            (evalM i cin ksM).2 (evalF i cin ksF).2)
    (cov : Prop) (p : ProgM α β) :
    ∀ (ksM : List (NS α (MemoT α))) (ksF : List (NS α Unit)) (own strict : Nat → Bool),
      ValidList memoV sel algs kids ksM → JList sel algs kids ksM → ShapeList kids ksF →
      RelList own strict ksM ksF → progAll evalM Q p ksM → (cov → Covers n own strict p) →
        JList sel algs kids (runProg evalM p ksM).2 ∧ ValidList memoV sel algs kids (runProg evalM p ksM).2 ∧
        ShapeList kids (runProg evalF p ksF).2 ∧
        (cov → ∃ own' strict', RelList own' strict' (runProg evalM p ksM).2 (runProg evalF p ksF).2 ∧
          ∀ i, i < n → own' i = true ∧ strict' i = true) := by
  induction p with
  | pure b =>
    intro ksM ksF own strict hv hj hsF hr _ hcv
    refine ⟨hj, hv, hsF, fun hc' => ⟨own, strict, hr, ?_⟩⟩
    have := hcv hc'
    simpa only [Covers] using this
  | call i inp k ih =>
    intro ksM ksF own strict hv hj hsF hr hq hcv
    simp only [progAll] at hq
    obtain ⟨c1, c2, c3, c4, c5⟩ := hc i inp ksM ksF hv hj hsF hq.1
    simp only [runProg]
    rw [← c4]
    apply ih _ _ _ _ _ c1 c2 c3 (c5 own strict hr) hq.2
    intro hc'
    have := hcv hc'
    simp only [Covers] at this
    exact this _
  | setLayout i l k ih =>
    intro ksM ksF own strict hv hj hsF hr hq hcv
    simp only [progAll] at hq
    simp only [runProg]
    apply ih _ _ _ _ _ (ValidList_setLayoutAt memoV sel algs kids ksM i l hv) (JList_setLayoutAt sel algs kids ksM i l hj)
      (ShapeList_setLayoutAt kids ksF i l hsF) (RelList_setLayoutAt own strict ksM ksF i l hr) hq
    intro hc'
    have := hcv hc'
    simpa only [Covers] using this

theorem beq_hidden_iff (m : RunMode) : (m == RunMode.performHiddenLayout) = true ↔ m = .performHiddenLayout := by
  cases m <;> decide
theorem bne_cs_iff (m : RunMode) : (m != RunMode.computeSize) = true ↔ m ≠ .computeSize := by
  cases m <;> decide

theorem exactMemo_store_cons (c : MemoT α) (inp : LayoutInput α) (o : LayoutOutput α)
    (h : (inp.runMode == RunMode.performHiddenLayout) = false) : exactMemo.store c inp o = (inp, o) :: c := by
  have : inp.runMode ≠ .performHiddenLayout := by
    intro e; rw [e] at h; exact absurd h (by decide)
  simp [exactMemo, this]

theorem evalF_kids (fuel : Nat) (style : Style α) (ctx : Option (MeasureSpec α)) (kids : List (STree α)) (u : Unit)
    (l : Layout α) (nkF : List (NS α Unit)) (inp : LayoutInput α)
    (hm : (inp.runMode == RunMode.performHiddenLayout) = false) :
    (evalNodeWith noCache sel algs (fuel + 1) (.node style ctx kids) (.mk u l nkF) inp).2.kids =
      (match bodyOf sel algs style kids inp with
        | .hidden => hiddenLayoutList noCache nkF
        | .prog p => (runProg (evalChildOf noCache sel algs fuel kids) p nkF).2
        | _ => nkF) := by
  rw [evalNodeWith_succ, hm]
  have hnone : (noCache (α := α)).get u inp = none := rfl
  simp only [Bool.false_eq_true, if_false, hnone]
  cases bodyOf sel algs style kids inp <;> rfl

theorem evalF_layout (fuel : Nat) (style : Style α) (ctx : Option (MeasureSpec α)) (kids : List (STree α)) (u : Unit)
    (l : Layout α) (nkF : List (NS α Unit)) (inp : LayoutInput α)
    (hm : (inp.runMode == RunMode.performHiddenLayout) = false) :
    (evalNodeWith noCache sel algs (fuel + 1) (.node style ctx kids) (.mk u l nkF) inp).2.layout =
      (match bodyOf sel algs style kids inp with
        | .hidden => Layout.withOrder 0
        | _ => l) := by
  rw [evalNodeWith_succ, hm]
  have hnone : (noCache (α := α)).get u inp = none := rfl
  simp only [Bool.false_eq_true, if_false, hnone]
  cases bodyOf sel algs style kids inp <;> rfl

theorem bodyOf_leaf_nil (hsel : SelOK sel) (style : Style α) (kids : List (STree α)) (inp : LayoutInput α)
    (h : bodyOf sel algs style kids inp = .leaf ∨ bodyOf sel algs style kids inp = .stuck) : kids = [] := by
  cases kids with
  | nil => rfl
  | cons a as =>
    exfalso
    have h1 := hsel style.display
    simp only [bodyOf, List.isEmpty_cons, Bool.not_false] at h
    cases hs : sel style.display true with
    | none => exact h1.2 hs
    | some c =>
      rw [hs] at h
      cases c
      · rcases h with h | h <;> cases h
      · rcases h with h | h <;> cases h
      · rcases h with h | h <;> cases h
      · rcases h with h | h <;> cases h
      · exact h1.1 hs

theorem bodyOf_prog_covers (hcov : PLCovers algs) (style : Style α) (kids : List (STree α)) (inp : LayoutInput α)
    (p : ProgM α (LayoutOutput α)) (hPL : inp.runMode = .performLayout)
    (h : bodyOf sel algs style kids inp = .prog p) :
    Covers kids.length (fun _ => false) (fun _ => false) p := by
  have hc := hcov style (kids.map STree.style) inp hPL
  rw [List.length_map] at hc
  simp only [bodyOf] at h
  cases hs : sel style.display (!kids.isEmpty) with
  | none => rw [hs] at h; cases h
  | some c =>
    rw [hs] at h
    cases c
    · cases h
    · injection h with h; rw [← h]; exact hc.1
    · injection h with h; rw [← h]; exact hc.2.1
    · injection h with h; rw [← h]; exact hc.2.2
    · cases h

def sel0 : Display → Bool → Option Callee := fun _ _ => none
def algs0 : Algs α := ⟨fun _ _ _ => LayoutOutput.hidden, fun _ _ _ => .pure LayoutOutput.hidden,
    fun _ _ _ => .pure LayoutOutput.hidden, fun _ _ _ => .pure LayoutOutput.hidden⟩

theorem ShapeList_get' {C : Type} (kids : List (STree α)) (ks : List (NS α C)) (i : Nat) (t : STree α)
    (h : ShapeList kids ks) (hk : kids[i]? = some t) : ∃ k, ks[i]? = some k ∧ Shape t k := by
  obtain ⟨k, h1, h2⟩ := ValidList_get (fun _ _ => True) sel0 algs0 kids ks i t (ShapeList_valid_true sel0 algs0 kids ks h) hk
  exact ⟨k, h1, Valid_shape _ sel0 algs0 t k h2⟩

theorem ShapeList_set' {C : Type} (kids : List (STree α)) (ks : List (NS α C)) (i : Nat) (t : STree α) (k' : NS α C)
    (h : ShapeList kids ks) (hk : kids[i]? = some t) (hk' : Shape t k') : ShapeList kids (ks.set i k') :=
  ValidList_shape (fun _ _ => True) sel0 algs0 kids _
    (ValidList_set _ sel0 algs0 kids ks i t k' (ShapeList_valid_true sel0 algs0 kids ks h) hk
      (Shape_valid_true sel0 algs0 t k' hk'))

theorem ShapeList_nil {C : Type} (ks : List (NS α C)) (h : ShapeList ([] : List (STree α)) ks) : ks = [] := by
  cases ks with
  | nil => rfl
  | cons _ _ => simp [ShapeList] at h

/-- **final-state transparency of stored layouts** (one evaluation): under `SelOK`, `PLCovers` and `QuietRun`, from a valid
memo state satisfying the ghost invariant `J`, and ANY cache-free state of the same shape: the invariant is kept, and
after a PerformLayout (or hidden) evaluation the layouts stored strictly below the node coincide. -/
theorem eval_quiet (hsel : SelOK sel) (hcov : PLCovers algs) :
    ∀ (fuel : Nat) (t : STree α) (nsM : NS α (MemoT α)) (nsF : NS α Unit) (inp : LayoutInput α),
      STree.depth t ≤ fuel → Valid memoV sel algs t nsM → J sel algs t nsM → Shape t nsF →
      QuietRun sel algs fuel t nsM inp →
        J sel algs t (evalNodeWith exactMemo sel algs fuel t nsM inp).2 ∧
        (inp.runMode = .performHiddenLayout →
          (evalNodeWith exactMemo sel algs fuel t nsM inp).2.layout
            = (evalNodeWith noCache sel algs fuel t nsF inp).2.layout) ∧
        (exactMemo.get nsM.cache inp = none → nsM.layout = nsF.layout →
          (evalNodeWith exactMemo sel algs fuel t nsM inp).2.layout
            = (evalNodeWith noCache sel algs fuel t nsF inp).2.layout) ∧
        (inp.runMode ≠ .computeSize →
          eraseList (evalNodeWith exactMemo sel algs fuel t nsM inp).2.kids
            = (evalNodeWith noCache sel algs fuel t nsF inp).2.kids) := by
  intro fuel
  induction fuel with
  | zero => intro t nsM nsF inp hd; cases t; simp [STree.depth] at hd
  | succ fuel ih =>
    intro t nsM nsF inp hd hv hj hsh hq
    cases t with
    | node style ctx kids =>
      cases nsM with
      | mk c l nk =>
        cases nsF with
        | mk u lF nkF =>
          have hd0 := hd
          simp only [STree.depth] at hd
          simp only [QuietRun] at hq
          simp only [Shape] at hsh
          have hv' := hv
          simp only [Valid] at hv'
          obtain ⟨hvc, hvk⟩ := hv'
          have hj' := hj
          simp only [J] at hj'
          obtain ⟨hjc, hjk⟩ := hj'
          have hshM : ShapeList kids nk := ValidList_shape memoV sel algs kids nk hvk
          have hKids : ∀ nkF' : List (NS α Unit), ShapeList kids nkF' →
              eraseList (hiddenLayoutList exactMemo nk) = hiddenLayoutList noCache nkF' := by
            intro nkF' hs'
            have := hiddenList_erase_eq exactMemo (noCache (α := α)) kids nk nkF' hshM hs'
            rw [eraseList_unit] at this
            exact this
          rw [evalNodeWith_succ exactMemo]
          cases hm : (inp.runMode == RunMode.performHiddenLayout) with
          | true =>
            rw [evalNodeWith_succ noCache, hm]
            simp only [if_true]
            refine ⟨J_hidden sel algs _ _ hj, fun _ => ?_, fun _ _ => ?_, fun _ => ?_⟩
            · simp only [hiddenLayout, NS.layout]
            · simp only [hiddenLayout, NS.layout]
            · simp only [hiddenLayout, NS.kids]
              exact hKids nkF hsh
          | false =>
            rw [hm] at hq
            simp only [Bool.false_eq_true, if_false] at hq ⊢
            have hnh : inp.runMode ≠ .performHiddenLayout := by
              intro e; rw [e] at hm; exact absurd hm (by decide)
            cases hg : exactMemo.get c inp with
            | some out =>
              rw [hg] at hq
              simp only at hq ⊢
              refine ⟨hj, fun e => absurd e hnh, fun e => ?_, fun hncs => ?_⟩
              · simp only [NS.cache] at e; rw [hg] at e; cases e
              · have hPL : inp.runMode = .performLayout := by
                  cases hr : inp.runMode with
                  | performLayout => rfl
                  | computeSize => exact absurd hr hncs
                  | performHiddenLayout => exact absurd hr hnh
                have hh := hq hPL
                simp only [Option.map_eq_some_iff] at hh
                obtain ⟨e, he1, he2⟩ := hh
                have := hjc inp e.2 (by rw [he1, ← he2]) hPL (NS.mk u lF nkF) (by simpa only [Shape] using hsh)
                have e' := evalNodeWith_fuel_indep noCache sel algs (STree.depth (STree.node style ctx kids)) (fuel + 1)
                  (STree.node style ctx kids) (NS.mk u lF nkF) inp (Nat.le_refl _) hd0
                rw [← e']
                exact this
            | none =>
              rw [hg] at hq
              simp only at hq ⊢
              rw [evalF_kids sel algs fuel style ctx kids u lF nkF inp hm,
                evalF_layout sel algs fuel style ctx kids u lF nkF inp hm]
              -- the Settled clause for a new head entry, given the kids equation against every cache-free state
              have hSet : ∀ (o : LayoutOutput α) (nk' : List (NS α (MemoT α))),
                  (inp.runMode = .performLayout → ∀ nkF' : List (NS α Unit), ShapeList kids nkF' →
                    eraseList nk' = (match bodyOf sel algs style kids inp with
                      | .hidden => hiddenLayoutList noCache nkF'
                      | .prog p => (runProg (evalChildOf noCache sel algs fuel kids) p nkF').2
                      | _ => nkF')) →
                  ∀ c0 : MemoT α, Settled sel algs (.node style ctx kids) ((inp, o) :: c0) nk' := by
                intro o nk' hk c0 A o' hh hPL nsF' hsh'
                simp only [List.head?_cons, Option.some.injEq, Prod.mk.injEq] at hh
                obtain ⟨hA, _⟩ := hh
                subst hA
                cases nsF' with
                | mk u' l' nkF' =>
                  simp only [Shape] at hsh'
                  rw [evalNodeWith_fuel_indep noCache sel algs _ (fuel + 1) _ _ inp (Nat.le_refl _) hd0,
                    evalF_kids sel algs fuel style ctx kids u' l' nkF' inp hm]
                  exact hk hPL nkF' hsh'
              cases hb : bodyOf sel algs style kids inp with
              | hidden =>
                rw [hb] at hSet
                simp only at hSet ⊢
                have hclear : exactMemo.clear c = ([] : MemoT α) := rfl
                rw [hclear, exactMemo_store_cons [] inp _ hm]
                refine ⟨?_, by first | trivial | (intros; rfl), by first | trivial | (intros; rfl), fun _ => hKids nkF hsh⟩
                simp only [J]
                exact ⟨hSet _ _ (fun _ nkF' hs' => hKids nkF' hs') [], JList_hidden sel algs kids nk hjk⟩
              | leaf =>
                rw [hb] at hSet
                simp only at hSet ⊢
                have hnil := bodyOf_leaf_nil sel algs hsel style kids inp (Or.inl hb)
                subst hnil
                have h1 := ShapeList_nil nk hshM
                have h2 := ShapeList_nil nkF hsh
                subst h1; subst h2
                rw [exactMemo_store_cons c inp _ hm]
                refine ⟨?_, fun e => absurd e hnh, fun _ e => e, fun _ => by simp [eraseList, NS.kids]⟩
                simp only [J]
                refine ⟨hSet _ _ (fun _ nkF' hs' => ?_) c, hjk⟩
                rw [ShapeList_nil nkF' hs']; rfl
              | stuck =>
                rw [hb] at hSet
                simp only at hSet ⊢
                have hnil := bodyOf_leaf_nil sel algs hsel style kids inp (Or.inr hb)
                subst hnil
                have h1 := ShapeList_nil nk hshM
                have h2 := ShapeList_nil nkF hsh
                subst h1; subst h2
                rw [exactMemo_store_cons c inp _ hm]
                refine ⟨?_, fun e => absurd e hnh, fun _ e => e, fun _ => by simp [eraseList, NS.kids]⟩
                simp only [J]
                refine ⟨hSet _ _ (fun _ nkF' hs' => ?_) c, hjk⟩
                rw [ShapeList_nil nkF' hs']; rfl
              | prog p =>
                rw [hb] at hSet hq
                simp only at hSet hq ⊢
                have hc : ∀ i cin ksM ksF, ValidList memoV sel algs kids ksM → JList sel algs kids ksM →
                    ShapeList kids ksF →
                    (match kids[i]?, ksM[i]? with
                      | some t, some k => QuietRun sel algs fuel t k cin
                      | _, _ => True) →
                    ValidList memoV sel algs kids (evalChildOf exactMemo sel algs fuel kids i cin ksM).2 ∧
                    JList sel algs kids (evalChildOf exactMemo sel algs fuel kids i cin ksM).2 ∧
                    ShapeList kids (evalChildOf noCache sel algs fuel kids i cin ksF).2 ∧
                    (evalChildOf exactMemo sel algs fuel kids i cin ksM).1
                      = (evalChildOf noCache sel algs fuel kids i cin ksF).1 ∧
                    ∀ own strict, RelList own strict ksM ksF →
                      RelList (upd own i (cin.runMode == .performHiddenLayout))
                        (upd strict i (cin.runMode != .computeSize))
                        (evalChildOf exactMemo sel algs fuel kids i cin ksM).2
                        (evalChildOf noCache sel algs fuel kids i cin ksF).2 := by
                  intro i cin ksM ksF hvl hjl hsl hqi
                  simp only [evalChildOf]
                  cases hk : kids[i]? with
                  | none =>
                    simp only
                    refine ⟨hvl, hjl, hsl, (by first | trivial | rfl), ?_⟩
                    intro own strict hr
                    apply RelList_upd own strict ksM ksM ksF ksF i _ _ hr
                    · intro kM kF hM _
                      rw [ValidList_get_none memoV sel algs kids ksM i hvl hk] at hM
                      cases hM
                    · intro j _; exact ⟨rfl, rfl⟩
                  | some t =>
                    obtain ⟨kM, hkM, hvt⟩ := ValidList_get memoV sel algs kids ksM i t hvl hk
                    obtain ⟨kF, hkF, hst⟩ := ShapeList_get' kids ksF i t hsl hk
                    rw [hk, hkM] at hqi
                    rw [hkM, hkF]
                    simp only at hqi ⊢
                    have hjt := JList_get sel algs kids ksM i t kM hjl hk hkM
                    have hdt := depth_le_of_getElem kids i t hk
                    obtain ⟨q1, q2, _, q4⟩ := ih t kM kF cin (by omega) hvt hjt hst hqi
                    obtain ⟨e1, e2⟩ := eval_valid sel algs exactMemo exactMemo_sound fuel t kM cin (by omega) hvt
                    obtain ⟨f1, f2⟩ := eval_valid sel algs noCache noCache_sound fuel t kF cin (by omega)
                      (Shape_valid_true sel algs t kF hst)
                    refine ⟨ValidList_set memoV sel algs kids ksM i t _ hvl hk e2,
                      JList_set sel algs kids ksM i t _ hjl hk q1,
                      ShapeList_set' kids ksF i t _ hsl hk (Valid_shape _ sel algs t _ f2),
                      by rw [e1, f1], ?_⟩
                    intro own strict hr
                    apply RelList_upd own strict ksM _ ksF _ i _ _ hr
                    · intro a b ha hb'
                      rw [List.getElem?_set_self', hkM] at ha
                      rw [List.getElem?_set_self', hkF] at hb'
                      simp only [Option.map_eq_map, Option.map_some, Function.const, Option.some.injEq] at ha hb'
                      subst ha; subst hb'
                      exact ⟨fun hbo => q2 ((beq_hidden_iff _).mp hbo), fun hbs => q4 ((bne_cs_iff _).mp hbs)⟩
                    · intro j hj
                      exact ⟨List.getElem?_set_ne (Ne.symm hj), List.getElem?_set_ne (Ne.symm hj)⟩
                have hrel0 : ∀ nkF' : List (NS α Unit), RelList (fun _ => false) (fun _ => false) nk nkF' := by
                  intro nkF' i a b _ _
                  exact ⟨fun h => Bool.noConfusion h, fun h => Bool.noConfusion h⟩
                have key : ∀ nkF' : List (NS α Unit), ShapeList kids nkF' → inp.runMode = .performLayout →
                    eraseList (runProg (evalChildOf exactMemo sel algs fuel kids) p nk).2
                      = (runProg (evalChildOf noCache sel algs fuel kids) p nkF').2 := by
                  intro nkF' hs' hPL
                  have hcv := bodyOf_prog_covers sel algs hcov style kids inp p hPL hb
                  obtain ⟨_, r2, r3, r4⟩ := runProg_quiet sel algs kids kids.length _ _ _ hc True p nk nkF'
                    (fun _ => false) (fun _ => false) hvk hjk hs' (hrel0 nkF') hq (fun _ => hcv)
                  obtain ⟨own', strict', hr', hall⟩ := r4 trivial
                  have l1 := ValidList_length memoV sel algs kids _ r2
                  have l2 := ValidList_length (fun _ _ => True) sel algs kids _
                    (ShapeList_valid_true sel algs kids _ r3)
                  exact RelList_final own' strict' _ _ (by omega) hr' (by rw [← l1]; exact hall)
                obtain ⟨r1, _, _, _⟩ := runProg_quiet sel algs kids kids.length _ _ _ hc False p nk nkF
                  (fun _ => false) (fun _ => false) hvk hjk hsh (hrel0 nkF) hq (fun h => h.elim)
                rw [exactMemo_store_cons c inp _ hm]
                refine ⟨?_, fun e => absurd e hnh, fun _ e => e, fun hncs => ?_⟩
                · simp only [J]
                  exact ⟨hSet _ _ (fun hPL nkF' hs' => key nkF' hs' hPL) c, r1⟩
                · have hPL : inp.runMode = .performLayout := by
                    cases hr : inp.runMode with
                    | performLayout => rfl
                    | computeSize => exact absurd hr hncs
                    | performHiddenLayout => exact absurd hr hnh
                  exact key nkF hsh hPL

theorem erase_eq_of {C : Type} (a : NS α C) (b : NS α Unit) (h1 : a.layout = b.layout) (h2 : eraseList a.kids = b.kids) :
    erase a = b := by
  cases a with
  | mk c l nk =>
    cases b with
    | mk u l' nk' =>
      simp only [NS.layout, NS.kids] at h1 h2
      simp only [erase]
      rw [h1, h2]

/-! ### the ghost invariant survives edits -/

theorem JList_set2 : ∀ (kids : List (STree α)) (ks : List (NS α (MemoT α))) (i : Nat) (t' : STree α) (k' : NS α (MemoT α)),
    JList sel algs kids ks → J sel algs t' k' → JList sel algs (kids.set i t') (ks.set i k')
  | [], [], _, _, _, _, _ => by simp [JList]
  | _ :: _, [], _, _, _, hv, _ => by simp [JList] at hv
  | [], _ :: _, _, _, _, hv, _ => by simp [JList] at hv
  | a :: as, b :: bs, 0, t', k', hv, hk => by
    simp only [JList] at hv
    simp only [List.set_cons_zero, JList]
    exact ⟨hk, hv.2⟩
  | a :: as, b :: bs, i + 1, t', k', hv, hk => by
    simp only [JList] at hv
    simp only [List.set_cons_succ, JList]
    exact ⟨hv.1, JList_set2 as bs i t' k' hv.2 hk⟩

theorem JList_insertAt (t' : STree α) (k' : NS α (MemoT α)) (hk : J sel algs t' k') :
    ∀ (i : Nat) (kids : List (STree α)) (ks : List (NS α (MemoT α))), JList sel algs kids ks →
      JList sel algs (insertAt t' i kids) (insertAt k' i ks)
  | 0, kids, ks, hv => by simp only [insertAt, JList]; exact ⟨hk, hv⟩
  | _ + 1, [], [], _ => by simp only [insertAt, JList]; exact ⟨hk, trivial⟩
  | _ + 1, _ :: _, [], hv => by simp [JList] at hv
  | _ + 1, [], _ :: _, hv => by simp [JList] at hv
  | i + 1, a :: as, b :: bs, hv => by
    simp only [JList] at hv
    simp only [insertAt, JList]
    exact ⟨hv.1, JList_insertAt t' k' hk i as bs hv.2⟩

theorem JList_eraseIdx : ∀ (i : Nat) (kids : List (STree α)) (ks : List (NS α (MemoT α))), JList sel algs kids ks →
    JList sel algs (kids.eraseIdx i) (ks.eraseIdx i)
  | _, [], [], _ => by simp [JList]
  | _, _ :: _, [], hv => by simp [JList] at hv
  | _, [], _ :: _, hv => by simp [JList] at hv
  | 0, a :: as, b :: bs, hv => by
    simp only [JList] at hv
    simp only [List.eraseIdx_cons_zero]
    exact hv.2
  | i + 1, a :: as, b :: bs, hv => by
    simp only [JList] at hv
    simp only [List.eraseIdx_cons_succ, JList]
    exact ⟨hv.1, JList_eraseIdx i as bs hv.2⟩

theorem Settled_nil (t : STree α) (nk : List (NS α (MemoT α))) : Settled sel algs t [] nk := by
  intro A o hh
  simp at hh

/-- like `modify_valid`, for the pair (validity, ghost invariant) -/
theorem modify_VJ (f : STree α → STree α) (g : NS α (MemoT α) → NS α (MemoT α))
    (hfg : ∀ t k, Valid memoV sel algs t k → J sel algs t k →
      Valid memoV sel algs (f t) (g k) ∧ J sel algs (f t) (g k)) :
    ∀ (p : List Nat) (t : STree α) (ns : NS α (MemoT α)), Valid memoV sel algs t ns → J sel algs t ns →
      J sel algs (treeModifyAt f p t) (stateModifyAt exactMemo g p ns)
  | [], t, ns, hv, hj => by simp only [treeModifyAt, stateModifyAt]; exact (hfg t ns hv hj).2
  | i :: p, .node s c kids, .mk cc l nk, hv, hj => by
    simp only [Valid] at hv
    simp only [J] at hj
    simp only [treeModifyAt, stateModifyAt, J]
    have hclear : exactMemo.clear cc = ([] : MemoT α) := rfl
    rw [hclear]
    refine ⟨Settled_nil sel algs _ _, ?_⟩
    cases hk : kids[i]? with
    | none =>
      rw [ValidList_get_none memoV sel algs kids nk i hv.2 hk]
      exact hj.2
    | some k =>
      obtain ⟨k2, hk2, hvk⟩ := ValidList_get memoV sel algs kids nk i k hv.2 hk
      rw [hk2]
      exact JList_set2 sel algs kids nk i _ _ hj.2
        (modify_VJ f g hfg p k k2 hvk (JList_get sel algs kids nk i k k2 hj.2 hk hk2))

theorem Edit.local_J (e : Edit α) (t : STree α) (k : NS α (MemoT α)) (hj : J sel algs t k) :
    J sel algs (e.onTree t) (e.onState exactMemo k) := by
  have hclear : ∀ cc : MemoT α, exactMemo.clear cc = ([] : MemoT α) := fun _ => rfl
  cases t with
  | node s c kids =>
    cases k with
    | mk cc l nk =>
      simp only [J] at hj
      cases e with
      | setStyle p s' ctx' =>
        simp only [Edit.onTree, Edit.onState, J, hclear]
        exact ⟨Settled_nil sel algs _ _, hj.2⟩
      | insertChild p i sub =>
        simp only [Edit.onTree, Edit.onState, J, hclear]
        exact ⟨Settled_nil sel algs _ _, JList_insertAt sel algs sub _ (J_init sel algs sub) i kids nk hj.2⟩
      | removeChild p i =>
        simp only [Edit.onTree, Edit.onState, J, hclear]
        exact ⟨Settled_nil sel algs _ _, JList_eraseIdx sel algs i kids nk hj.2⟩
      | replace p sub =>
        simp only [Edit.onTree, Edit.onState]
        exact J_init sel algs sub

theorem Edit.apply_J (e : Edit α) (t : STree α) (ns : NS α (MemoT α)) (hv : Valid memoV sel algs t ns)
    (hj : J sel algs t ns) : J sel algs (e.applyTree t) (e.applyState exactMemo ns) :=
  modify_VJ sel algs _ _
    (fun t k h1 h2 => ⟨Edit.local_valid sel algs exactMemo exactMemo_sound e t k h1, Edit.local_J sel algs e t k h2⟩)
    e.path t ns hv hj

/-- every pass of the history is quiet -/
def QuietHistory : STree α × NS α (MemoT α) → List (Step α) → Prop
  | _, [] => True
  | s, st :: rest =>
    QuietRun sel algs (STree.depth (st.edit.applyTree s.1) + st.extra) (st.edit.applyTree s.1)
      (st.edit.applyState exactMemo s.2) st.inp ∧
    QuietHistory (runStep exactMemo sel algs s st) rest

theorem runHistory_VJ (hsel : SelOK sel) (hcov : PLCovers algs) (h : List (Step α)) :
    ∀ (s : STree α × NS α (MemoT α)), Valid memoV sel algs s.1 s.2 → J sel algs s.1 s.2 →
      QuietHistory sel algs s h →
        Valid memoV sel algs (runHistory exactMemo sel algs s h).1 (runHistory exactMemo sel algs s h).2 ∧
        J sel algs (runHistory exactMemo sel algs s h).1 (runHistory exactMemo sel algs s h).2 := by
  induction h with
  | nil => intro s hv hj _; exact ⟨hv, hj⟩
  | cons st rest ih =>
    intro s hv hj hq
    simp only [QuietHistory] at hq
    simp only [runHistory, List.foldl_cons]
    have hv1 := Edit.apply_valid sel algs exactMemo exactMemo_sound st.edit s.1 s.2 hv
    have hj1 := Edit.apply_J sel algs st.edit s.1 s.2 hv hj
    apply ih _ _ _ hq.2
    · simp only [runStep]
      exact (eval_valid sel algs exactMemo exactMemo_sound _ _ _ st.inp (Nat.le_add_right _ _) hv1).2
    · simp only [runStep]
      exact (eval_quiet sel algs hsel hcov _ _ _ (NS.init noCache (st.edit.applyTree s.1)) st.inp
        (Nat.le_add_right _ _) hv1 hj1
        (Valid_shape _ sel algs _ _ (Valid_init sel algs noCache noCache_sound _)) hq.1).1

/-! ### executable form of `QuietRun` (the monitor) -/

def progAllB {C β : Type} (evalChild : Nat → LayoutInput α → List (NS α C) → LayoutOutput α × List (NS α C))
    (Q : Nat → LayoutInput α → List (NS α C) → Bool) : ProgM α β → List (NS α C) → Bool
  | .pure _, _ => true
  | .call i inp k, ks => Q i inp ks && progAllB evalChild Q (k (evalChild i inp ks).1) (evalChild i inp ks).2
  | .setLayout i l k, ks => progAllB evalChild Q (k ()) (setLayoutAt ks i l)

theorem progAllB_sound {C β : Type}
    (evalChild : Nat → LayoutInput α → List (NS α C) → LayoutOutput α × List (NS α C))
    (QB : Nat → LayoutInput α → List (NS α C) → Bool) (Q : Nat → LayoutInput α → List (NS α C) → Prop)
    (hQ : ∀ i cin ks, QB i cin ks = true → Q i cin ks) (p : ProgM α β) :
    ∀ ks, progAllB evalChild QB p ks = true → progAll evalChild Q p ks := by
  induction p with
  | pure b => intro ks _; trivial
  | call i inp k ih =>
    intro ks h
    simp only [progAllB, Bool.and_eq_true] at h
    exact ⟨hQ i inp ks h.1, ih _ _ h.2⟩
  | setLayout i l k ih =>
    intro ks h
    simp only [progAllB] at h
    exact ih _ _ h

/-- Bool-valued `QuietRun` -/
def quietRunB : Nat → STree α → NS α (MemoT α) → LayoutInput α → Bool
  | 0, _, _, _ => true
  | fuel + 1, .node style _ kids, .mk c _ nk, inp =>
    if inp.runMode == .performHiddenLayout then true
    else match exactMemo.get c inp with
      | some _ => if inp.runMode == .performLayout then decide (c.head?.map (·.1) = some inp) else true
      | none =>
        match bodyOf sel algs style kids inp with
        | .prog p =>
          progAllB (evalChildOf exactMemo sel algs fuel kids)
            (fun i cin ks => match kids[i]?, ks[i]? with
              | some t, some k => quietRunB fuel t k cin
              | _, _ => true) p nk
        | _ => true

theorem quietRunB_sound : ∀ (fuel : Nat) (t : STree α) (ns : NS α (MemoT α)) (inp : LayoutInput α),
    quietRunB sel algs fuel t ns inp = true → QuietRun sel algs fuel t ns inp := by
  intro fuel
  induction fuel with
  | zero => intro t ns inp _; simp only [QuietRun]
  | succ fuel ih =>
    intro t ns inp h
    cases t with
    | node style ctx kids =>
      cases ns with
      | mk c l nk =>
        simp only [quietRunB] at h
        simp only [QuietRun]
        cases hm : (inp.runMode == RunMode.performHiddenLayout) with
        | true => simp only [if_true]
        | false =>
          rw [hm] at h
          simp only [Bool.false_eq_true, if_false] at h ⊢
          cases hg : exactMemo.get c inp with
          | some out =>
            rw [hg] at h
            simp only at h ⊢
            intro hPL
            have : (inp.runMode == RunMode.performLayout) = true := by rw [hPL]; decide
            rw [this] at h
            simpa using h
          | none =>
            rw [hg] at h
            simp only at h ⊢
            cases hb : bodyOf sel algs style kids inp with
            | prog p =>
              rw [hb] at h
              simp only at h ⊢
              apply progAllB_sound _ _ _ _ p nk h
              intro i cin ks hq
              cases hk : kids[i]? with
              | none => simp only
              | some t =>
                cases hk2 : ks[i]? with
                | none => simp only
                | some k =>
                  rw [hk, hk2] at hq
                  simp only at hq ⊢
                  exact ih t k cin hq
            | hidden => simp only
            | leaf => simp only
            | stuck => simp only

theorem progAllB_complete {C β : Type}
    (evalChild : Nat → LayoutInput α → List (NS α C) → LayoutOutput α × List (NS α C))
    (QB : Nat → LayoutInput α → List (NS α C) → Bool) (Q : Nat → LayoutInput α → List (NS α C) → Prop)
    (hQ : ∀ i cin ks, Q i cin ks → QB i cin ks = true) (p : ProgM α β) :
    ∀ ks, progAll evalChild Q p ks → progAllB evalChild QB p ks = true := by
  induction p with
  | pure b => intro ks _; rfl
  | call i inp k ih =>
    intro ks h
    simp only [progAll] at h
    simp only [progAllB, Bool.and_eq_true]
    exact ⟨hQ i inp ks h.1, ih _ _ h.2⟩
  | setLayout i l k ih =>
    intro ks h
    simp only [progAll] at h
    simp only [progAllB]
    exact ih _ _ h

theorem quietRunB_complete : ∀ (fuel : Nat) (t : STree α) (ns : NS α (MemoT α)) (inp : LayoutInput α),
    QuietRun sel algs fuel t ns inp → quietRunB sel algs fuel t ns inp = true := by
  intro fuel
  induction fuel with
  | zero => intro t ns inp _; simp only [quietRunB]
  | succ fuel ih =>
    intro t ns inp h
    cases t with
    | node style ctx kids =>
      cases ns with
      | mk c l nk =>
        simp only [QuietRun] at h
        simp only [quietRunB]
        cases hm : (inp.runMode == RunMode.performHiddenLayout) with
        | true => simp only [if_true]
        | false =>
          rw [hm] at h
          simp only [Bool.false_eq_true, if_false] at h ⊢
          cases hg : exactMemo.get c inp with
          | some out =>
            rw [hg] at h
            simp only at h ⊢
            cases hpl : (inp.runMode == RunMode.performLayout) with
            | false => simp only [Bool.false_eq_true, if_false]
            | true =>
              simp only [if_true, decide_eq_true_eq]
              apply h
              revert hpl
              cases inp.runMode <;> decide
          | none =>
            rw [hg] at h
            simp only at h ⊢
            cases hb : bodyOf sel algs style kids inp with
            | prog p =>
              rw [hb] at h
              simp only at h ⊢
              apply progAllB_complete _ _ _ _ p nk h
              intro i cin ks hq
              cases hk : kids[i]? with
              | none => simp only
              | some t =>
                cases hk2 : ks[i]? with
                | none => simp only
                | some k =>
                  rw [hk, hk2] at hq
                  simp only at hq ⊢
                  exact ih t k cin hq
            | hidden => simp only
            | leaf => simp only
            | stuck => simp only

theorem quietRunB_iff (fuel : Nat) (t : STree α) (ns : NS α (MemoT α)) (inp : LayoutInput α) :
    quietRunB sel algs fuel t ns inp = true ↔ QuietRun sel algs fuel t ns inp :=
  ⟨quietRunB_sound sel algs fuel t ns inp, quietRunB_complete sel algs fuel t ns inp⟩

end

end EvalMemo
