/-
  C04 — `compute_leaf_layout` (Model/Leaf.lean) and `compute_root_layout` (Model/Root.lean) commute with scaling.
-/
import TaffyVerif.Lemmas.ScaleMath
import TaffyVerif.Model.Root

set_option linter.unusedSectionVars false
set_option linter.unusedVariables false
set_option linter.unusedSimpArgs false

namespace C04
open Scalable LeafModel

instance : Scalable (Box Rat) :=
  ⟨fun k b => ⟨scale k b.margin, scale k b.padding, scale k b.border, scale k b.paddingBorder, scale k b.pbSum,
    scale k b.boxSizingAdjustment⟩⟩

@[scale_simp] theorem box_margin (k : Rat) (b : Box Rat) : (scale k b).margin = scale k b.margin := rfl
@[scale_simp] theorem box_padding (k : Rat) (b : Box Rat) : (scale k b).padding = scale k b.padding := rfl
@[scale_simp] theorem box_border (k : Rat) (b : Box Rat) : (scale k b).border = scale k b.border := rfl
@[scale_simp] theorem box_paddingBorder (k : Rat) (b : Box Rat) : (scale k b).paddingBorder = scale k b.paddingBorder := rfl
@[scale_simp] theorem box_pbSum (k : Rat) (b : Box Rat) : (scale k b).pbSum = scale k b.pbSum := rfl
@[scale_simp] theorem box_bsa (k : Rat) (b : Box Rat) : (scale k b).boxSizingAdjustment = scale k b.boxSizingAdjustment := rfl

@[scale_simp] theorem scale_box_mk (k : Rat) (a b c d : Rect Rat) (e f : Size Rat) :
    scale k (Box.mk a b c d e f) = ⟨scale k a, scale k b, scale k c, scale k d, scale k e, scale k f⟩ := rfl

variable {k : Rat}

theorem scaleMeasure_apply (hk : 0 < k) (m : Size (Option Rat) → Size (AvailableSpace Rat) → Size Rat)
    (kd : Size (Option Rat)) (av : Size (AvailableSpace Rat)) :
    scaleMeasure k m (scale k kd) (scale k av) = scale k (m kd av) := by
  simp only [scaleMeasure, scale_cancel_inv hk]

theorem scaleMeasure_apply_none (hk : 0 < k) (m : Size (Option Rat) → Size (AvailableSpace Rat) → Size Rat)
    (av : Size (AvailableSpace Rat)) :
    scaleMeasure k m Size.none (scale k av) = scale k (m Size.none av) :=
  scaleMeasure_apply hk m Size.none av

@[scale_simp] theorem box_scale (k : Rat) (ps : Size (Option Rat)) (style : Style Rat) :
    box (scale k ps) (scale k style) = scale k (box ps style) := by
  simp only [box, scale_simp]

theorem nodeSizes_scale (hk : 0 < k) (inp : LayoutInput Rat) (style : Style Rat) (adj : Size Rat) :
    nodeSizes (scale k inp) (scale k style) (scale k adj) =
      (scale k (nodeSizes inp style adj).1, scale k (nodeSizes inp style adj).2.1,
       scale k (nodeSizes inp style adj).2.2.1, (nodeSizes inp style adj).2.2.2) := by
  simp only [nodeSizes, scale_simp, hk]
  cases inp.sizingMode <;> simp only [scale_simp, hk]

@[scale_simp] theorem scrollbarGutter_scale (k : Rat) (style : Style Rat) :
    scrollbarGutter (scale k style) = scale k (scrollbarGutter style) := by
  simp only [scrollbarGutter, scale_simp]
  cases style.overflow.transpose.x <;> cases style.overflow.transpose.y <;> simp only [scale_simp]

@[scale_simp] theorem contentBoxInset_scale (k : Rat) (pb : Rect Rat) (g : Point Rat) :
    contentBoxInset (scale k pb) (scale k g) = scale k (contentBoxInset pb g) := by
  simp only [contentBoxInset, scale_simp]

@[scale_simp] theorem hasStyles_scale (hk : 0 < k) (style : Style Rat) (padding border : Rect Rat)
    (nodeSize nodeMinSize : Size (Option Rat)) :
    hasStylesPreventingBeingCollapsedThrough (scale k style) (scale k padding) (scale k border) (scale k nodeSize)
        (scale k nodeMinSize) =
      hasStylesPreventingBeingCollapsedThrough style padding border nodeSize nodeMinSize := by
  obtain ⟨nw, nh⟩ := nodeSize
  obtain ⟨mw, mh⟩ := nodeMinSize
  cases nh <;> cases mh <;> simp only [hasStylesPreventingBeingCollapsedThrough, scale_simp, hk]

@[scale_simp] theorem availableAxis_scale (hk : 0 < k) (known : Option Rat) (available : AvailableSpace Rat) (marginSum : Rat)
    (nodeSize nodeMin nodeMax : Option Rat) (insetSum : Rat) :
    availableAxis (scale k known) (scale k available) (scale k marginSum) (scale k nodeSize) (scale k nodeMin)
        (scale k nodeMax) (scale k insetSum) =
      scale k (availableAxis known available marginSum nodeSize nodeMin nodeMax insetSum) := by
  simp only [availableAxis, scale_simp, hk]
  cases known <;> cases nodeSize <;> cases available <;>
    simp only [scale_simp, hk, Option.map_none, Option.map_some, Option.getD_none, Option.getD_some,
      MaybeMath.af_sub, AvailableSpace.maybeSet]

@[scale_simp] theorem measureAvailableSpace_scale (hk : 0 < k) (input : LayoutInput Rat) (margin cbi : Rect Rat)
    (nodeSize nodeMinSize nodeMaxSize : Size (Option Rat)) :
    measureAvailableSpace (scale k input) (scale k margin) (scale k cbi) (scale k nodeSize) (scale k nodeMinSize)
        (scale k nodeMaxSize) =
      scale k (measureAvailableSpace input margin cbi nodeSize nodeMinSize nodeMaxSize) := by
  simp only [measureAvailableSpace, scale_simp, hk]

@[scale_simp] theorem scale_traced_ok {β : Type} [Scalable β] (k : Rat) (b : β) (calls : List (MeasureCall Rat)) :
    scale k (Except.ok (b, calls) : Traced Rat β) = .ok (scale k b, scale k calls) := rfl
@[scale_simp] theorem scale_traced_error {β : Type} [Scalable β] (k : Rat) (e : Panic) :
    scale k (Except.error e : Traced Rat β) = .error e := rfl
@[scale_simp] theorem scale_mc_mk (k : Rat) (kd : Size (Option Rat)) (av : Size (AvailableSpace Rat)) :
    scale k (MeasureCall.mk kd av) = ⟨scale k kd, scale k av⟩ := rfl

/-! ### the tail of `compute_leaf_layout` as separate functions (definitional re-bracketing, `computeLeafLayout_eq`) -/

/-- l.135–142: the `known_dimensions` argument of the measure call (`none` = the `unreachable!()` arm) -/
def leafKd (runMode : RunMode) (known : Size (Option Rat)) : Option (Size (Option Rat)) :=
  match runMode with
  | .computeSize => some known
  | .performLayout => some Size.none
  | .performHiddenLayout => none

/-- l.143–170: the output, given the measured size -/
def leafOut (known : Size (Option Rat)) (pbSum paddingSum : Size Rat) (ns nmin nmax : Size (Option Rat))
    (ar : Option Rat) (insetSum : Size Rat) (hasStyles : Bool) (measured : Size Rat) : LayoutOutput Rat :=
  let clampedSize := Size.fo_clamp ((known.orOpt ns).unwrapOr (measured.add insetSum)) nmin nmax
  let size : Size Rat :=
    { width := clampedSize.width
      height :=
        if (known.orOpt ns).height.isSome then clampedSize.height
        else MaybeMath.fo_clamp
          (Num.fmax clampedSize.height ((ar.map fun ratio => clampedSize.width / ratio).getD 0))
          nmin.height nmax.height }
  let size := Size.f32Max size pbSum
  { size
    contentSize := measured.add paddingSum
    firstBaselines := ⟨none, none⟩
    topMargin := MarginSet.zero
    bottomMargin := MarginSet.zero
    marginsCanCollapseThrough := !hasStyles && Num.feq size.height 0 && Num.feq measured.height 0 }

/-- l.93–108: the early-return output -/
def leafEarly (w h : Rat) (pbSum : Size Rat) (nmin nmax : Size (Option Rat)) : LayoutOutput Rat :=
  { size := Size.f32Max (Size.fo_clamp ⟨w, h⟩ nmin nmax) pbSum
    contentSize := Size.zero
    firstBaselines := ⟨none, none⟩
    topMargin := MarginSet.zero
    bottomMargin := MarginSet.zero
    marginsCanCollapseThrough := false }

/-- l.110–170 -/
def leafMeasured (inp : LayoutInput Rat) (b : Box Rat) (ns nmin nmax : Size (Option Rat)) (ar : Option Rat)
    (inset : Rect Rat) (hasStyles : Bool) (m : Size (Option Rat) → Size (AvailableSpace Rat) → Size Rat) :
    Traced Rat (LayoutOutput Rat) :=
  let av := measureAvailableSpace inp b.margin inset ns nmin nmax
  match leafKd inp.runMode inp.knownDimensions with
  | none => .error .unreachableHiddenRunMode
  | some kd =>
    .ok (leafOut inp.knownDimensions b.paddingBorder.sumAxes b.padding.sumAxes ns nmin nmax ar inset.sumAxes hasStyles
          (m kd av), [{ knownDimensions := kd, availableSpace := av }])

def leafBody (inp : LayoutInput Rat) (style : Style Rat) (b : Box Rat)
    (r : Size (Option Rat) × Size (Option Rat) × Size (Option Rat) × Option Rat)
    (m : Size (Option Rat) → Size (AvailableSpace Rat) → Size Rat) : Traced Rat (LayoutOutput Rat) :=
  let inset := contentBoxInset b.paddingBorder (scrollbarGutter style)
  let hasStyles := hasStylesPreventingBeingCollapsedThrough style b.padding b.border r.1 r.2.1
  if inp.runMode == .computeSize && hasStyles then
    match r.1 with
    | ⟨some w, some h⟩ => .ok (leafEarly w h b.paddingBorder.sumAxes r.2.1 r.2.2.1, [])
    | _ => leafMeasured inp b r.1 r.2.1 r.2.2.1 r.2.2.2 inset hasStyles m
  else leafMeasured inp b r.1 r.2.1 r.2.2.1 r.2.2.2 inset hasStyles m

theorem computeLeafLayout_eq (inp : LayoutInput Rat) (style : Style Rat)
    (m : Size (Option Rat) → Size (AvailableSpace Rat) → Size Rat) :
    computeLeafLayout inp style m =
      leafBody inp style (box inp.parentSize style)
        (nodeSizes inp style (box inp.parentSize style).boxSizingAdjustment) m := by
  unfold computeLeafLayout
  dsimp only
  generalize nodeSizes inp style (box inp.parentSize style).boxSizingAdjustment = r
  obtain ⟨a, b, c, d⟩ := r
  unfold leafBody leafMeasured leafOut leafKd
  dsimp only
  cases inp.runMode <;> dsimp only <;> split <;> try rfl
  all_goals (obtain ⟨aw, ah⟩ := a; cases aw <;> cases ah <;> dsimp only)
  all_goals rfl

theorem leafKd_scale (k : Rat) (rm : RunMode) (known : Size (Option Rat)) :
    leafKd rm (scale k known) = scale k (leafKd rm known) := by
  cases rm <;> rfl

theorem leafOut_scale (hk : 0 < k) (known : Size (Option Rat)) (pbSum paddingSum : Size Rat)
    (ns nmin nmax : Size (Option Rat)) (ar : Option Rat) (insetSum : Size Rat) (hasStyles : Bool) (measured : Size Rat) :
    leafOut (scale k known) (scale k pbSum) (scale k paddingSum) (scale k ns) (scale k nmin) (scale k nmax) ar
        (scale k insetSum) hasStyles (scale k measured) =
      scale k (leafOut known pbSum paddingSum ns nmin nmax ar insetSum hasStyles measured) := by
  cases ar <;>
    simp only [leafOut, Size.f32Max, scale_lo_mk, scale_simp, hk, Option.map_none, Option.map_some, Option.getD_none,
      Option.getD_some]

theorem leafEarly_scale (hk : 0 < k) (w h : Rat) (pbSum : Size Rat) (nmin nmax : Size (Option Rat)) :
    leafEarly (scale k w) (scale k h) (scale k pbSum) (scale k nmin) (scale k nmax) =
      scale k (leafEarly w h pbSum nmin nmax) := by
  have := Size.fo_clamp_scale hk ⟨w, h⟩ nmin nmax
  simp only [scale_simp] at this
  simp only [leafEarly, scale_lo_mk, scale_simp, hk, this]

theorem leafMeasured_scale (hk : 0 < k) (inp : LayoutInput Rat) (b : Box Rat) (ns nmin nmax : Size (Option Rat))
    (ar : Option Rat) (inset : Rect Rat) (hasStyles : Bool)
    (m : Size (Option Rat) → Size (AvailableSpace Rat) → Size Rat) :
    leafMeasured (scale k inp) (scale k b) (scale k ns) (scale k nmin) (scale k nmax) ar (scale k inset) hasStyles
        (scaleMeasure k m) =
      scale k (leafMeasured inp b ns nmin nmax ar inset hasStyles m) := by
  simp only [leafMeasured, scale_simp, hk, leafKd_scale]
  cases leafKd inp.runMode inp.knownDimensions with
  | none => rfl
  | some kd => simp only [scale_simp, scaleMeasure_apply hk, leafOut_scale hk]

theorem leafBody_scale (hk : 0 < k) (inp : LayoutInput Rat) (style : Style Rat) (b : Box Rat)
    (ns nmin nmax : Size (Option Rat)) (ar : Option Rat)
    (m : Size (Option Rat) → Size (AvailableSpace Rat) → Size Rat) :
    leafBody (scale k inp) (scale k style) (scale k b) (scale k ns, scale k nmin, scale k nmax, ar) (scaleMeasure k m) =
      scale k (leafBody inp style b (ns, nmin, nmax, ar) m) := by
  simp only [leafBody, scale_simp, hk, leafMeasured_scale hk]
  obtain ⟨w, h⟩ := ns
  split
  · cases w <;> cases h <;> simp only [scale_simp, hk, leafEarly_scale hk, leafMeasured_scale hk]
  · rfl

/-- `compute_leaf_layout` is homogeneous: scaled input, scaled style, scaled measure function ↦ scaled output and
scaled recorded measure-call arguments (a panic stays the same panic) -/
theorem leaf_homogeneous' (hk : 0 < k) (inp : LayoutInput Rat) (style : Style Rat)
    (m : Size (Option Rat) → Size (AvailableSpace Rat) → Size Rat) :
    computeLeafLayout (scale k inp) (scale k style) (scaleMeasure k m) = scale k (computeLeafLayout inp style m) := by
  rw [computeLeafLayout_eq, computeLeafLayout_eq]
  simp only [li_parentSize, box_scale, box_bsa, nodeSizes_scale hk]
  exact leafBody_scale hk inp style _ _ _ _ _ m

/-! ### `compute_root_layout` -/

open RootModel

/-- `compute_root_layout` l.59–113: the root's known dimensions are homogeneous -/
theorem rootKnownDimensions_scale (hk : 0 < k) (style : Style Rat) (av : Size (AvailableSpace Rat)) :
    rootKnownDimensions (scale k style) (scale k av) = scale k (rootKnownDimensions style av) := by
  simp only [rootKnownDimensions, scale_simp, hk]
  split
  · rw [zipMap_scale_of]
    · simp only [Size.orOpt, Size.of_max, Size.none, Option.none_or, Option.or_none, scale_simp, hk]
    · intro a b
      cases a <;> cases b <;> simp only [scale_simp, hk]
  · rfl

/-- `compute_root_layout` l.116–123 -/
theorem rootInput_scale (hk : 0 < k) (style : Style Rat) (av : Size (AvailableSpace Rat)) :
    rootInput (scale k style) (scale k av) = scale k (rootInput style av) := by
  simp only [rootInput, scale_li_mk, rootKnownDimensions_scale hk, scale_simp]

/-- `compute_root_layout` l.125–152: the layout written for the root -/
theorem rootLayout_scale (hk : 0 < k) (style : Style Rat) (av : Size (AvailableSpace Rat)) (out : LayoutOutput Rat) :
    rootLayout (scale k style) (scale k av) (scale k out) = scale k (rootLayout style av out) := by
  simp only [rootLayout, scale_l_mk, scale_simp]

end C04
