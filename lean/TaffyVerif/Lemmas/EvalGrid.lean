/-
  The grid algorithm (`GridModel.computeGridLayoutE`, Model/Grid.lean = src/compute/grid/mod.rs) as an interaction
  program: the program predicates used for it.

    `MeasB Q n p` — measuring program with a call budget: `p` never assigns a layout; started with a budget of `n` child
                    calls it never exceeds it; on every run that returns `b` with `m` calls of the budget left, `Q m b`.
    `GMeas Q n p` — the same for `GM α = ExceptT String (ProgM α)` programs: the postcondition is asked of `.ok` results
                    only (a panic ends the run; the budget is respected by panicking runs too).
    `GPost`, `GPHZ`, `GCalls`, `GTrack` — `EvalBlock.Post`, `C05.PHZ`, `C16.callsLe`, `EvalBlock.Track` on the underlying
                    `ProgM α (Except String β)`.
-/
import TaffyVerif.Model.GridEval
import TaffyVerif.Lemmas.EvalBlock
import TaffyVerif.Lemmas.EvalBlockFlags

set_option linter.unusedSectionVars false
set_option linter.unusedVariables false

namespace EvalGrid
open GridModel GridTracks EvalBlock
variable {α : Type} [Num α]

/-! ### `MeasB`: measuring programs with a call budget -/

/-- no `setLayout`; started with a budget of `n` calls the program never exceeds it, and on every run that returns `b`
with `m` calls of the budget left, `Q m b` holds -/
def MeasB {β : Type} (Q : Nat → β → Prop) : Nat → ProgM α β → Prop
  | n, .pure b => Q n b
  | n, .call _ _ k => ∃ m, n = m + 1 ∧ ∀ o, MeasB Q m (k o)
  | _, .setLayout _ _ _ => False

theorem MeasB_mono {β : Type} (Q R : Nat → β → Prop) (h : ∀ m b, Q m b → R m b) (p : ProgM α β) :
    ∀ n, MeasB Q n p → MeasB R n p := by
  induction p with
  | pure b => intro n hp; exact h n b hp
  | call i inp k ih => intro n ⟨m, hm, hk⟩; exact ⟨m, hm, fun o => ih o m (hk o)⟩
  | setLayout i l k ih => intro _ hp; exact hp

/-- the frame rule: `s` more calls of budget are left untouched -/
theorem MeasB_frame {β : Type} (Q R : Nat → β → Prop) (s : Nat) (h : ∀ m b, Q m b → R (m + s) b) (p : ProgM α β) :
    ∀ n, MeasB Q n p → MeasB R (n + s) p := by
  induction p with
  | pure b => intro n hp; exact h n b hp
  | call i inp k ih => intro n ⟨m, hm, hk⟩; exact ⟨m + s, by omega, fun o => ih o m (hk o)⟩
  | setLayout i l k ih => intro _ hp; exact hp

theorem MeasB_bind {β γ : Type} (Q : Nat → β → Prop) (R : Nat → γ → Prop) (p : ProgM α β) (f : β → ProgM α γ) :
    ∀ n, MeasB Q n p → (∀ m x, Q m x → MeasB R m (f x)) → MeasB R n (p >>= f) := by
  rw [bind_eq]
  induction p with
  | pure x => intro n hp hf; exact hf n x hp
  | call i inp k ih => intro n ⟨m, hm, hk⟩ hf; exact ⟨m, hm, fun o => ih o m (hk o) hf⟩
  | setLayout i l k ih => intro _ hp _; exact hp

theorem Post_mono {β : Type} (P P' : β → Prop) (p : ProgM α β) (h : Post P p) (hh : ∀ b, P b → P' b) : Post P' p := by
  induction p with
  | pure b => exact hh b h
  | call i inp k ih => intro o; exact ih o (h o)
  | setLayout i l k ih => exact ih () h

theorem MeasB_Post {β : Type} (Q : Nat → β → Prop) (p : ProgM α β) : ∀ n, MeasB Q n p → Post (fun b => ∃ m, Q m b) p := by
  induction p with
  | pure b => intro n h; exact ⟨n, h⟩
  | call i inp k ih => intro n ⟨m, _, hk⟩ o; exact ih o m (hk o)
  | setLayout i l k ih => intro _ h; exact h.elim

theorem MeasB_PHZ {β : Type} (cs : List (Style α)) (Q : Nat → β → Prop) (p : ProgM α β) :
    ∀ n, MeasB Q n p → C05.PHZ cs p := by
  induction p with
  | pure b => intro _ _; trivial
  | call i inp k ih => intro n ⟨m, _, hk⟩ o; exact ih o m (hk o)
  | setLayout i l k ih => intro _ h; exact h.elim

theorem MeasB_callsLe {β : Type} (Q : Nat → β → Prop) (p : ProgM α β) : ∀ n, MeasB Q n p → C16.callsLe n p := by
  induction p with
  | pure b => intro _ _; trivial
  | call i inp k ih => intro n ⟨m, hm, hk⟩; exact ⟨m, hm, fun o => ih o m (hk o)⟩
  | setLayout i l k ih => intro _ h; exact h.elim

/-- a measuring prefix followed by any tail that stays within what the prefix left of the budget -/
theorem callsLe_bind_MeasB {β γ : Type} (Q : Nat → β → Prop) (p : ProgM α β) (f : β → ProgM α γ) :
    ∀ n, MeasB Q n p → (∀ m b, Q m b → C16.callsLe m (f b)) → C16.callsLe n (p >>= f) := by
  rw [bind_eq]
  induction p with
  | pure b => intro n hp hf; exact hf n b hp
  | call i inp k ih => intro n ⟨m, hm, hk⟩ hf; exact ⟨m, hm, fun o => ih o m (hk o) hf⟩
  | setLayout i l k ih => intro _ hp _; exact hp.elim

theorem MeasB_Track {β : Type} (Q : Nat → β → Prop) (p : ProgM α β) : ∀ (n : Nat) (own strict : Nat → Bool),
    MeasB Q n p → Track own strict p (fun r _ _ => ∃ m, Q m r) := by
  induction p with
  | pure b => intro n _ _ h; exact ⟨n, h⟩
  | call i inp k ih => intro n own strict ⟨m, _, hk⟩ o; exact ih o m _ _ (hk o)
  | setLayout i l k ih => intro _ _ _ h; exact h.elim

/-! ### `GM α` programs -/

/-- the underlying program of a `GM` program -/
abbrev run {β : Type} (p : GM α β) : ProgM α (Except String β) := p

theorem run_bind {β γ : Type} (p : GM α β) (f : β → GM α γ) :
    run (p >>= f) = (run p >>= fun r => match r with
      | .ok a => run (f a)
      | .error e => pure (.error e)) := by
  show (ExceptT.bind p f : GM α γ) = _
  unfold ExceptT.bind ExceptT.mk
  congr 1
  funext r
  cases r <;> rfl

theorem run_pure {β : Type} (b : β) : run (pure b : GM α β) = .pure (.ok b) := rfl
theorem run_throw {β : Type} (e : String) : run (throw e : GM α β) = .pure (.error e) := rfl
theorem run_call (i : Nat) (inp : LayoutInput α) : run (GM.call i inp) = .call i inp fun o => .pure (.ok o) := rfl
theorem run_setLayout (i : Nat) (l : Layout α) : run (GM.setLayout i l) = .setLayout i l fun _ => .pure (.ok ()) := rfl

/-- a postcondition asked of `.ok` results only -/
def okB {β : Type} (Q : Nat → β → Prop) : Nat → Except String β → Prop := fun m r => ∀ b, r = .ok b → Q m b

/-- `MeasB` for `GM` programs: no `setLayout`; never more than `n` calls (panicking runs included); every run that does
not panic returns some `b` with `Q m b`, `m` = what is left of the budget -/
def GMeas {β : Type} (Q : Nat → β → Prop) (n : Nat) (p : GM α β) : Prop := MeasB (okB Q) n (run p)

theorem GMeas_mono {β : Type} (Q R : Nat → β → Prop) (n : Nat) (p : GM α β) (h : ∀ m b, Q m b → R m b)
    (hp : GMeas Q n p) : GMeas R n p :=
  MeasB_mono _ _ (fun m r hr b hb => h m b (hr b hb)) _ _ hp

theorem GMeas_frame {β : Type} (Q R : Nat → β → Prop) (n s : Nat) (p : GM α β) (h : ∀ m b, Q m b → R (m + s) b)
    (hp : GMeas Q n p) : GMeas R (n + s) p :=
  MeasB_frame _ _ s (fun m r hr b hb => h m b (hr b hb)) _ _ hp

theorem GMeas_pure {β : Type} (Q : Nat → β → Prop) (n : Nat) (b : β) (h : Q n b) : GMeas Q n (pure b : GM α β) := by
  intro b' hb'; cases hb'; exact h

theorem GMeas_throw {β : Type} (Q : Nat → β → Prop) (n : Nat) (e : String) : GMeas Q n (throw e : GM α β) := by
  intro b' hb'; cases hb'

theorem GMeas_bind {β γ : Type} (Q : Nat → β → Prop) (R : Nat → γ → Prop) (n : Nat) (p : GM α β) (f : β → GM α γ)
    (hp : GMeas Q n p) (hf : ∀ m x, Q m x → GMeas R m (f x)) : GMeas R n (p >>= f) := by
  unfold GMeas
  rw [run_bind]
  refine MeasB_bind _ _ _ _ _ hp fun m r hr => ?_
  cases r with
  | ok a => exact hf m a (hr a rfl)
  | error e => intro b hb; cases hb

theorem GMeas_call (Q : Nat → LayoutOutput α → Prop) (n : Nat) (i : Nat) (inp : LayoutInput α) (h : ∀ o, Q n o) :
    GMeas Q (n + 1) (GM.call i inp) :=
  ⟨n, rfl, fun o b hb => by cases hb; exact h o⟩

theorem GMeas_ofOutcome {β : Type} (Q : Nat → β → Prop) (n : Nat) (x : GridPlacement.Outcome β)
    (h : ∀ b, x = .ok b → Q n b) : GMeas Q n (GM.ofOutcome x : GM α β) := by
  cases x with
  | ok a => exact GMeas_pure _ _ _ (h a rfl)
  | panic m => exact GMeas_throw _ _ _
  | overflow => exact GMeas_throw _ _ _
  | outOfFuel => exact GMeas_throw _ _ _

theorem GMeas_ofExcept {β : Type} (Q : Nat → β → Prop) (n : Nat) (x : Except GErr β) (h : ∀ b, x = .ok b → Q n b) :
    GMeas Q n (GM.ofExcept x : GM α β) := by
  cases x with
  | ok a => exact GMeas_pure _ _ _ (h a rfl)
  | error e => cases e <;> exact GMeas_throw _ _ _

/-- `Post` for `GM` programs (`.ok` results only) -/
def GPost {β : Type} (Q : β → Prop) (p : GM α β) : Prop := Post (fun r => ∀ b, r = .ok b → Q b) (run p)

theorem GMeas_GPost {β : Type} (Q : Nat → β → Prop) (n : Nat) (p : GM α β) (h : GMeas Q n p) :
    GPost (fun b => ∃ m, Q m b) p := by
  refine Post_mono _ _ _ (MeasB_Post _ _ _ h) ?_
  intro r ⟨m, hm⟩ b hb
  exact ⟨m, hm b hb⟩

theorem GPost_mono {β : Type} (Q R : β → Prop) (p : GM α β) (h : ∀ b, Q b → R b) (hp : GPost Q p) : GPost R p :=
  Post_mono _ _ _ hp fun r hr b hb => h b (hr b hb)

theorem GPost_bind {β γ : Type} (Q : β → Prop) (R : γ → Prop) (p : GM α β) (f : β → GM α γ)
    (hp : GPost Q p) (hf : ∀ x, Q x → GPost R (f x)) : GPost R (p >>= f) := by
  unfold GPost
  rw [run_bind]
  refine Post_bind _ _ hp fun r hr => ?_
  cases r with
  | ok a => exact hf a (hr a rfl)
  | error e => intro b hb; cases hb

theorem GPost_pure {β : Type} (Q : β → Prop) (b : β) (h : Q b) : GPost Q (pure b : GM α β) := by
  intro b' hb'; cases hb'; exact h

theorem GPost_throw {β : Type} (Q : β → Prop) (e : String) : GPost Q (throw e : GM α β) := by
  intro b' hb'; cases hb'

theorem bind_congr_post {β γ : Type} (Q : β → Prop) (p : ProgM α β) (f g : β → ProgM α γ)
    (hq : Post Q p) (hfg : ∀ a, Q a → f a = g a) : p >>= f = p >>= g := by
  simp only [bind_eq]
  induction p with
  | pure b => exact hfg b hq
  | call i inp k ih =>
    simp only [ProgM.bind]
    congr 1
    funext o
    exact ih o (hq o)
  | setLayout i l k ih =>
    simp only [ProgM.bind]
    congr 1
    funext u
    exact ih u hq

/-- congruence of `>>=` under a postcondition of the first program -/
theorem gbind_congr {β γ : Type} (Q : β → Prop) (p : GM α β) (f g : β → GM α γ)
    (hq : GPost Q p) (hfg : ∀ a, Q a → f a = g a) : p >>= f = p >>= g := by
  show run (p >>= f) = run (p >>= g)
  rw [run_bind, run_bind]
  refine bind_congr_post _ _ _ _ hq fun r hr => ?_
  cases r with
  | ok a => simp only; rw [hfg a (hr a rfl)]
  | error e => rfl

/-- `C05.PHZ` for `GM` programs -/
def GPHZ {β : Type} (cs : List (Style α)) (p : GM α β) : Prop := C05.PHZ cs (run p)

theorem GMeas_GPHZ {β : Type} (cs : List (Style α)) (Q : Nat → β → Prop) (n : Nat) (p : GM α β) (h : GMeas Q n p) :
    GPHZ cs p :=
  MeasB_PHZ cs _ _ _ h

theorem PHZ_bind_post {β γ : Type} (cs : List (Style α)) (Q : β → Prop) (p : ProgM α β) (f : β → ProgM α γ)
    (hp : C05.PHZ cs p) (hq : Post Q p) (hf : ∀ a, Q a → C05.PHZ cs (f a)) : C05.PHZ cs (p >>= f) := by
  rw [bind_eq]
  induction p with
  | pure b => exact hf b hq
  | call i inp k ih => intro o; exact ih o (hp o) (hq o)
  | setLayout i l k ih => exact ⟨hp.1, fun u => ih u (hp.2 u) hq⟩

theorem GPHZ_bind {β γ : Type} (cs : List (Style α)) (Q : β → Prop) (p : GM α β) (f : β → GM α γ)
    (hp : GPHZ cs p) (hq : GPost Q p) (hf : ∀ a, Q a → GPHZ cs (f a)) : GPHZ cs (p >>= f) := by
  unfold GPHZ
  rw [run_bind]
  refine PHZ_bind_post cs _ _ _ hp hq fun r hr => ?_
  cases r with
  | ok a => exact hf a (hr a rfl)
  | error e => trivial

theorem GPHZ_pure {β : Type} (cs : List (Style α)) (b : β) : GPHZ cs (pure b : GM α β) := trivial
theorem GPHZ_throw {β : Type} (cs : List (Style α)) (e : String) : GPHZ cs (throw e : GM α β) := trivial

/-- `C16.callsLe` for `GM` programs -/
def GCalls {β : Type} (n : Nat) (p : GM α β) : Prop := C16.callsLe n (run p)

theorem GCalls_pure {β : Type} (n : Nat) (b : β) : GCalls n (pure b : GM α β) := trivial
theorem GCalls_throw {β : Type} (n : Nat) (e : String) : GCalls n (throw e : GM α β) := trivial

theorem GCalls_mono {β : Type} (n m : Nat) (p : GM α β) (h : n ≤ m) (hp : GCalls n p) : GCalls m p :=
  C16.callsLe_mono _ n m h hp

theorem GMeas_GCalls {β : Type} (Q : Nat → β → Prop) (n : Nat) (p : GM α β) (h : GMeas Q n p) : GCalls n p :=
  MeasB_callsLe _ _ _ h

theorem GCalls_bind_GMeas {β γ : Type} (Q : Nat → β → Prop) (n : Nat) (p : GM α β) (f : β → GM α γ)
    (hp : GMeas Q n p) (hf : ∀ m b, Q m b → GCalls m (f b)) : GCalls n (p >>= f) := by
  unfold GCalls
  rw [run_bind]
  refine callsLe_bind_MeasB _ _ _ _ hp fun m r hr => ?_
  cases r with
  | ok a => exact hf m a (hr a rfl)
  | error e => trivial

theorem GCalls_bind {β γ : Type} (a b : Nat) (p : GM α β) (f : β → GM α γ)
    (hp : GCalls a p) (hf : ∀ x, GCalls b (f x)) : GCalls (a + b) (p >>= f) := by
  unfold GCalls
  rw [run_bind]
  refine callsLe_bind' _ _ a b hp fun r => ?_
  cases r with
  | ok x => exact hf x
  | error e => trivial

/-- `EvalBlock.Track` for `GM` programs; the final condition is asked of `.ok` results only -/
def GTrack {β : Type} (own strict : Nat → Bool) (p : GM α β) (Q : β → (Nat → Bool) → (Nat → Bool) → Prop) : Prop :=
  Track own strict (run p) (fun r o s => ∀ b, r = .ok b → Q b o s)

theorem GTrack_bind {β γ : Type} (p : GM α β) (f : β → GM α γ)
    (P : β → (Nat → Bool) → (Nat → Bool) → Prop) (Q : γ → (Nat → Bool) → (Nat → Bool) → Prop)
    (own strict : Nat → Bool) (hp : GTrack own strict p P) (hf : ∀ a o s, P a o s → GTrack o s (f a) Q) :
    GTrack own strict (p >>= f) Q := by
  unfold GTrack
  rw [run_bind]
  refine Track_bind _ _ _ _ own strict hp fun r o s hr => ?_
  cases r with
  | ok a => exact hf a o s (hr a rfl)
  | error e => intro b hb; cases hb

theorem GTrack_mono {β : Type} (p : GM α β) (P Q : β → (Nat → Bool) → (Nat → Bool) → Prop)
    (h : ∀ a o s, P a o s → Q a o s) (own strict : Nat → Bool) (hp : GTrack own strict p P) : GTrack own strict p Q :=
  Track_mono _ _ _ (fun r o s hr b hb => h b o s (hr b hb)) own strict hp

theorem GTrack_pure {β : Type} (b : β) (Q : β → (Nat → Bool) → (Nat → Bool) → Prop) (own strict : Nat → Bool)
    (h : Q b own strict) : GTrack own strict (pure b : GM α β) Q := by
  intro b' hb'; cases hb'; exact h

theorem GTrack_throw {β : Type} (e : String) (Q : β → (Nat → Bool) → (Nat → Bool) → Prop) (own strict : Nat → Bool) :
    GTrack own strict (throw e : GM α β) Q := by
  intro b' hb'; cases hb'

/-- a measuring program leaves the flags alone -/
theorem GMeas_GTrack {β : Type} (Q : Nat → β → Prop) (n : Nat) (p : GM α β) (own strict : Nat → Bool)
    (h : GMeas Q n p) : GTrack own strict p (fun r _ _ => ∃ m, Q m r) :=
  Track_mono _ _ _ (fun r _ _ ⟨m, hm⟩ b hb => ⟨m, hm b hb⟩) own strict (MeasB_Track _ _ _ own strict h)

end EvalGrid
