/-
  C10, tree-level theorem — part 6: one block container against a pure oracle.  `interp_block_PL`: the result of a
  `PerformLayout` run of `compute_block_layout` is `innerOutput` of the pure walk; the container's own data under the
  family's style restrictions; and **`block_output_meets`**: the output (margin sets, collapse-through flag, height 0
  when collapsed through) of a block container that is an in-flow child itself says about its subtree what the
  specification says, provided the outputs of its in-flow children do.
-/
import TaffyVerif.Lemmas.C10TreeFlow
import TaffyVerif.Lemmas.EvalBlock
import Mathlib.Tactic.Tauto

set_option linter.unusedSectionVars false

namespace C10Thm
open MarginCollapse BlockModel C10Tree C10Conv EvalMemo EvalBlock

theorem interp_bind {β γ : Type} (ans : Nat → LayoutInput Rat → LayoutOutput Rat) (p : ProgM Rat β)
    (f : β → ProgM Rat γ) : interp ans (p >>= f) = interp ans (f (interp ans p)) := by
  rw [EvalBlock.bind_eq]
  induction p with
  | pure b => rfl
  | call i inp k ih => simp only [ProgM.bind, interp]; exact ih _
  | setLayout i l k ih => simp only [ProgM.bind, interp]; exact ih _

theorem interp_pure {β : Type} (ans : Nat → LayoutInput Rat → LayoutOutput Rat) (b : β) :
    interp ans (ProgM.pure b : ProgM Rat β) = b := rfl

theorem interp_flowLoop (c : FlowCtx Rat) (inner : Size (Option Rat)) (ans : Nat → LayoutInput Rat → LayoutOutput Rat) :
    ∀ (cs : List (Style Rat)) (idx order : Nat) (st : FlowState Rat),
      interp ans (flowLoop c (generateItemsFrom inner cs idx order) st)
        = ((walk c inner ans cs idx order st).1, (walk c inner ans cs idx order st).2.1) := by
  intro cs
  induction cs with
  | nil => intro idx order st; rfl
  | cons s rest ih =>
    intro idx order st
    by_cases hh : s.isHidden = true
    · simp only [generateItemsFrom, walk, hh, if_true]
      exact ih _ _ _
    · have hh' : s.isHidden = false := by simpa using hh
      simp only [generateItemsFrom, hh', Bool.false_eq_true, if_false]
      by_cases hab : (s.position == Position.absolute) = true
      · have hp : (generateItem idx order s inner).position = .absolute := by
          have : (generateItem idx order s inner).position = s.position := rfl
          rw [this]; cases hs : s.position with
          | absolute => rfl
          | relative => rw [hs] at hab; exact absurd hab (by decide)
        rw [flowLoop_cons_abs c _ _ st hp, interp_bind, ih]
        simp only [walk, hh', hab, Bool.false_eq_true, if_false, if_true]
        rfl
      · have hab' : (s.position == Position.absolute) = false := by simpa using hab
        have hp : (generateItem idx order s inner).position ≠ .absolute := by
          have : (generateItem idx order s inner).position = s.position := rfl
          rw [this]; intro hs; rw [hs] at hab'; exact absurd hab' (by decide)
        rw [flowLoop_cons_flow c _ _ st hp]
        simp only [interp, interp_bind, ih, walk, hh', hab', Bool.false_eq_true, if_false]
        rfl


/-- the inputs `compute_inner` runs with -/
def innerInputs (s : Style Rat) (inp : LayoutInput Rat) : LayoutInput Rat :=
  { inp with knownDimensions := styledBasedKnownDimensions s inp }

theorem computeBlockLayout_PL (s : Style Rat) (cs : List (Style Rat)) (inp : LayoutInput Rat)
    (hm : inp.runMode = .performLayout) :
    computeBlockLayout s cs inp = computeInner s cs (innerInputs s inp) := by
  unfold computeBlockLayout
  simp only []
  split
  · rename_i h _ _; rw [hm] at h; cases h
  · rfl

/-- the container's outer width in a run against a pure oracle (step 2 of `compute_inner`) -/
def blockW (ans : Nat → LayoutInput Rat → LayoutOutput Rat) (s : Style Rat) (cs : List (Style Rat))
    (inp : LayoutInput Rat) : Rat :=
  interp ans (containerWidthProg (innerCtx s (innerInputs s inp))
    (generateItemList cs (innerCtx s (innerInputs s inp)).containerContentBoxSize) (innerInputs s inp))

/-- the result of a `PerformLayout` run of `compute_block_layout` against a pure oracle, in terms of `walk` -/
theorem interp_block_PL (ans : Nat → LayoutInput Rat → LayoutOutput Rat) (s : Style Rat) (cs : List (Style Rat))
    (inp : LayoutInput Rat) (hm : inp.runMode = .performLayout) :
    ∃ (w : Rat) (acs : Size Rat),
      w = blockW ans s cs inp ∧
      (∀ w', (innerInputs s inp).knownDimensions.width = some w' → w = w') ∧
      ((innerInputs s inp).knownDimensions.width = none →
        (innerCtx s (innerInputs s inp)).paddingBorderSize.width ≤ w) ∧
      interp ans (computeBlockLayout s cs inp) =
        let ic := innerCtx s (innerInputs s inp)
        let c := flowCtxOf s ic w
        let r := walk c ic.containerContentBoxSize ans cs 0 0 c.initState
        innerOutput s inp.parentSize ic r.1 (finalOuterSize ic (innerInputs s inp) w (r.1, flowResult c r.2.1))
          (flowResult c r.2.1).1 acs (flowResult c r.2.1).2.2.1 (flowResult c r.2.1).2.2.2 := by
  rw [computeBlockLayout_PL s cs inp hm, computeInner_eq, interp_bind]
  have hm' : (innerInputs s inp).runMode = .performLayout := hm
  refine ⟨interp ans (containerWidthProg (innerCtx s (innerInputs s inp))
    (generateItemList cs (innerCtx s (innerInputs s inp)).containerContentBoxSize) (innerInputs s inp)), ?_⟩
  have hbw : blockW ans s cs inp = interp ans (containerWidthProg (innerCtx s (innerInputs s inp))
    (generateItemList cs (innerCtx s (innerInputs s inp)).containerContentBoxSize) (innerInputs s inp)) := rfl
  rw [hbw]
  generalize hw : interp ans (containerWidthProg (innerCtx s (innerInputs s inp))
    (generateItemList cs (innerCtx s (innerInputs s inp)).containerContentBoxSize) (innerInputs s inp)) = w
  have hwk : ∀ w', (innerInputs s inp).knownDimensions.width = some w' → w = w' := by
    intro w' h
    rw [← hw, containerWidthProg_known _ _ _ w' h]; rfl
  have hwu : (innerInputs s inp).knownDimensions.width = none →
      (innerCtx s (innerInputs s inp)).paddingBorderSize.width ≤ w := by
    intro h
    rw [← hw, containerWidthProg_unknown _ _ _ h, interp_bind]
    simp only [interp_pure, MaybeMath.fo_max, rat_fmax]
    exact le_max_right _ _
  have hnot : ((innerInputs s inp).runMode == RunMode.computeSize) = false := by rw [hm']; rfl
  have hafter : innerAfterWidth s cs (innerInputs s inp) w =
      (performFinalLayoutOnInFlowChildren (flowCtxOf s (innerCtx s (innerInputs s inp)) w)
        (generateItemList cs (innerCtx s (innerInputs s inp)).containerContentBoxSize)
        >>= innerTail s cs (innerInputs s inp) w) := by
    unfold innerAfterWidth
    simp only [hm']
  rw [hafter, interp_bind, performFinal_eq, interp_bind, generateItemList, interp_flowLoop, interp_pure]
  unfold innerTail
  simp only [hnot, Bool.false_eq_true, if_false, interp_bind, interp_pure]
  exact ⟨_, trivial, hwk, hwu, rfl⟩


/-! ### the container's own data under the family's style restrictions -/

theorem rectLP_px (r : Rect (LP Rat)) (ctx : Option Rat) (hl : isLenP r.left = true) (hr : isLenP r.right = true)
    (ht : isLenP r.top = true) (hb : isLenP r.bottom = true) :
    Resolve.rectLPOrZero r ctx = ⟨pxP r.left, pxP r.right, pxP r.top, pxP r.bottom⟩ := by
  simp only [Resolve.rectLPOrZero, lp_resolveOrZero _ hl, lp_resolveOrZero _ hr, lp_resolveOrZero _ ht,
    lp_resolveOrZero _ hb]

theorem padding_px (s : Style Rat) (h : Px s) (ctx : Option Rat) :
    Resolve.rectLPOrZero s.padding ctx = ⟨pxP s.padding.left, pxP s.padding.right, pxP s.padding.top, pxP s.padding.bottom⟩ :=
  rectLP_px _ _ h.pl h.pr h.pt h.pb
theorem border_px (s : Style Rat) (h : Px s) (ctx : Option Rat) :
    Resolve.rectLPOrZero s.border ctx = ⟨pxP s.border.left, pxP s.border.right, pxP s.border.top, pxP s.border.bottom⟩ :=
  rectLP_px _ _ h.bl h.br h.bt h.bb

theorem gutter_px (s : Style Rat) (h : Px s) : scrollbarGutter s = ⟨0, 0, 0, 0⟩ := by
  have e1 : (Overflow.visible == Overflow.scroll) = false := rfl
  simp only [scrollbarGutter, h.ox, h.oy, e1, Bool.false_eq_true, if_false]

/-- the fields of `innerCtx` that matter, for a px style -/
theorem innerCtx_px (s : Style Rat) (h : Px s) (inputs : LayoutInput Rat) :
    (innerCtx s inputs).padding = ⟨pxP s.padding.left, pxP s.padding.right, pxP s.padding.top, pxP s.padding.bottom⟩ ∧
    (innerCtx s inputs).border = ⟨pxP s.border.left, pxP s.border.right, pxP s.border.top, pxP s.border.bottom⟩ ∧
    (innerCtx s inputs).scrollbarGutter = ⟨0, 0, 0, 0⟩ ∧
    (innerCtx s inputs).size = ⟨dimO s.size.width, dimO s.size.height⟩ ∧
    (innerCtx s inputs).minSize = ⟨none, dimO s.minSize.height⟩ ∧
    (innerCtx s inputs).maxSize = ⟨none, none⟩ := by
  have e1 := resolveStyleSize_px s.size h.w h.h inputs.parentSize s h
  have e2 := resolveStyleSize_px s.minSize (by rw [h.minW]; rfl) h.minH inputs.parentSize s h
  have e3 := resolveStyleSize_px s.maxSize (by rw [h.maxW]; rfl) (by rw [h.maxH]; rfl) inputs.parentSize s h
  simp only [innerCtx, padding_px s h, border_px s h, gutter_px s h, e1, e2, e3, h.minW, h.maxW, h.maxH, dimO_auto,
    and_self]


def gt0 (o : Option Rat) : Bool := match o with | some h => decide (0 < h) | none => false

theorem innerCtx_flags (s : Style Rat) (h : Px s) (inputs : LayoutInput Rat) :
    (innerCtx s inputs).ownMarginsCollapseWithChildren.start
      = (inputs.verticalMarginsAreCollapsible.start && (s.position == .relative) && decide (pxP s.padding.top = 0)
          && decide (pxP s.border.top = 0)) ∧
    (innerCtx s inputs).ownMarginsCollapseWithChildren.end
      = (inputs.verticalMarginsAreCollapsible.end && (s.position == .relative) && decide (pxP s.padding.bottom = 0)
          && decide (pxP s.border.bottom = 0) && (dimO s.size.height).isNone) ∧
    (innerCtx s inputs).hasStylesPreventingBeingCollapsedThrough
      = (!s.isBlock || (s.position == .absolute) || decide (0 < pxP s.padding.top) || decide (0 < pxP s.padding.bottom)
          || decide (0 < pxP s.border.top) || decide (0 < pxP s.border.bottom) || gt0 (dimO s.size.height)
          || gt0 inputs.knownDimensions.height || gt0 (dimO s.minSize.height)) := by
  have e1 := resolveStyleSize_px s.size h.w h.h inputs.parentSize s h
  have e2 := resolveStyleSize_px s.minSize (by rw [h.minW]; rfl) h.minH inputs.parentSize s h
  have hv : Overflow.visible.isScrollContainer = false := rfl
  simp only [innerCtx, padding_px s h, border_px s h, e1, e2, h.ox, h.oy, hv, Bool.not_false, Bool.and_true,
    rat_feq, rat_fgt, Bool.or_false]
  refine ⟨trivial, trivial, ?_⟩
  cases dimO s.size.height <;> cases inputs.knownDimensions.height <;> cases dimO s.minSize.height <;> rfl


/-- vertical padding + border of a box, as block.rs adds them up -/
def pbH (s : Style Rat) : Rat := (pxP s.padding.top + pxP s.border.top) + (pxP s.padding.bottom + pxP s.border.bottom)

theorem pbSize_px (s : Style Rat) (h : Px s) (ctx : Option Rat) :
    ((Resolve.rectLPOrZero s.padding ctx).add (Resolve.rectLPOrZero s.border ctx)).sumAxes = ⟨pbW s, pbH s⟩ := by
  simp only [padding_px s h, border_px s h, Rect.add, Rect.sumAxes, Rect.horizontalAxisSum, Rect.verticalAxisSum, pbW, pbH]

theorem oo_clamp_none (x : Option Rat) : MaybeMath.oo_clamp x none none = x := by
  cases x <;> rfl

theorem styled_width_known (s : Style Rat) (h : Px s) (inp : LayoutInput Rat) (kw : Rat)
    (hk : inp.knownDimensions.width = some kw) :
    (styledBasedKnownDimensions s inp).width = some (max kw (pbW s)) := by
  simp only [styledBasedKnownDimensions, pbSize_px s h, Size.orOpt, Size.of_max, hk, MaybeMath.of_max, rat_fmax]
  simp

theorem styled_height_inflow (s : Style Rat) (h : Px s) (inp : LayoutInput Rat) (hin : InFlowIn s inp) :
    (styledBasedKnownDimensions s inp).height = (styledH s).map (fun v => max v (pbH s)) := by
  have e1 := resolveStyleSize_px s.size h.w h.h inp.parentSize s h
  have e2 := resolveStyleSize_px s.minSize (by rw [h.minW]; rfl) h.minH inp.parentSize s h
  have e3 := resolveStyleSize_px s.maxSize (by rw [h.maxW]; rfl) (by rw [h.maxH]; rfl) inp.parentSize s h
  have hs : (inp.sizingMode == SizingMode.inherentSize) = true := by rw [hin.sizing]; rfl
  simp only [styledBasedKnownDimensions, pbSize_px s h, e1, e2, e3, h.maxH, dimO_auto, hs, if_true, Size.orOpt,
    Size.of_max, Size.oo_clamp, hin.height, MaybeMath.of_max, rat_fmax]
  unfold styledH
  cases dimO s.size.height <;> cases dimO s.minSize.height <;> simp [MaybeMath.oo_clamp]


/-- the sign conditions `nonNegOk` packs -/
structure NN (s : Style Rat) (ctx : Option (MeasureSpec Rat)) : Prop where
  pt : 0 ≤ pxP s.padding.top
  pb : 0 ≤ pxP s.padding.bottom
  bt : 0 ≤ pxP s.border.top
  bb : 0 ≤ pxP s.border.bottom
  h : 0 ≤ (dimO s.size.height).getD 0
  minH : 0 ≤ (dimO s.minSize.height).getD 0
  content : 0 ≤ contentOf ctx

theorem nonNegOk_nn (s : Style Rat) (ctx : Option (MeasureSpec Rat)) (h : nonNegOk s ctx = true) : NN s ctx := by
  simp only [nonNegOk, Bool.and_eq_true, decide_eq_true_eq] at h
  obtain ⟨⟨⟨⟨⟨⟨h1, h2⟩, h3⟩, h4⟩, h5⟩, h6⟩, h7⟩ := h
  exact ⟨h1, h2, h3, h4, h5, h6, h7⟩

theorem pos_iff_ne (x : Rat) (h : 0 ≤ x) : 0 < x ↔ ¬ x = 0 := by
  constructor
  · intro h1 h2; rw [h2] at h1; exact lt_irrefl _ h1
  · intro h1; exact lt_of_le_of_ne h (fun e => h1 e.symm)

theorem prevent_arith (a b c d : Rat) (h m : Option Rat) (na : 0 ≤ a) (nb : 0 ≤ b) (nc : 0 ≤ c) (nd : 0 ≤ d)
    (nh : 0 ≤ h.getD 0) (nm : 0 ≤ m.getD 0) :
    (decide (0 < a) || decide (0 < b) || decide (0 < c) || decide (0 < d) || gt0 h ||
        gt0 (Option.map (fun v => max v (a + c + (b + d))) (MaybeMath.oo_clamp h m none)) || gt0 m)
      = !((Kind.block == Kind.block) && (m.getD 0 == 0) && (a == 0) && (b == 0) && (c == 0) && (d == 0) &&
          (h.isNone || h == some 0) && ((0 : Rat) == 0)) := by
  have hkb : (Kind.block == Kind.block) = true := rfl
  have hsum : 0 < a + c + (b + d) → (¬a = 0 ∨ ¬b = 0 ∨ ¬c = 0 ∨ ¬d = 0) := by
    intro hs
    by_contra hcon
    simp only [not_or, not_not] at hcon
    obtain ⟨h1, h2, h3, h4⟩ := hcon
    rw [h1, h2, h3, h4] at hs
    norm_num at hs
  rw [Bool.eq_iff_iff]
  simp only [hkb, Bool.true_and, Bool.or_eq_true, decide_eq_true_eq, Bool.not_eq_true', Bool.and_eq_false_iff,
    beq_eq_false_iff_ne, ne_eq, beq_self_eq_true, Bool.true_eq_false, or_false, pos_iff_ne a na, pos_iff_ne b nb,
    pos_iff_ne c nc, pos_iff_ne d nd]
  cases h with
  | none =>
    cases m with
    | none => simp [gt0, MaybeMath.oo_clamp]
    | some mv =>
      simp only [Option.getD_some] at nm
      simp [gt0, MaybeMath.oo_clamp, pos_iff_ne mv nm]
      tauto
  | some hv =>
    simp only [Option.getD_some] at nh
    cases m with
    | none =>
      simp [gt0, MaybeMath.oo_clamp, pos_iff_ne hv nh]
      tauto
    | some mv =>
      simp only [Option.getD_some] at nm
      simp [gt0, MaybeMath.oo_clamp, pos_iff_ne hv nh, pos_iff_ne mv nm, rat_fmax]
      tauto

theorem prevent_eq (s : Style Rat) (ctx : Option (MeasureSpec Rat)) (l : Layout Rat) (hp : Px s) (hn : NN s ctx)
    (hb : s.display = .block) (hr : s.position = .relative) (hc : contentOf ctx = 0)
    (inp : LayoutInput Rat) (hin : InFlowIn s inp) :
    (innerCtx s (innerInputs s inp)).hasStylesPreventingBeingCollapsedThrough = !(sbox s ctx l).ownMarginsMayMeet := by
  rw [(innerCtx_flags s hp _).2.2]
  have hk : (innerInputs s inp).knownDimensions.height = (styledH s).map (fun v => max v (pbH s)) :=
    styled_height_inflow s hp inp hin
  rw [hk]
  have hbl : s.isBlock = true := by simp only [Style.isBlock, hb]; rfl
  have hra : (s.position == Position.absolute) = false := by rw [hr]; rfl
  have hkind : (sbox s ctx l).kind = .block := by simp only [sbox, hb]; rfl
  simp only [hbl, hra, Bool.not_true, Bool.false_or, Box.ownMarginsMayMeet, hkind]
  have e : (sbox s ctx l).minHeight = (dimO s.minSize.height).getD 0 ∧ (sbox s ctx l).paddingTop = pxP s.padding.top ∧
      (sbox s ctx l).paddingBottom = pxP s.padding.bottom ∧ (sbox s ctx l).borderTop = pxP s.border.top ∧
      (sbox s ctx l).borderBottom = pxP s.border.bottom ∧ (sbox s ctx l).height = dimO s.size.height ∧
      (sbox s ctx l).content = contentOf ctx := ⟨rfl, rfl, rfl, rfl, rfl, rfl, rfl⟩
  obtain ⟨e1, e2, e3, e4, e5, e6, e7⟩ := e
  rw [e1, e2, e3, e4, e5, e6, e7, hc]
  have n1 := hn.pt; have n2 := hn.pb; have n3 := hn.bt; have n4 := hn.bb; have n5 := hn.h; have n6 := hn.minH
  unfold styledH pbH
  generalize pxP s.padding.top = a at *
  generalize pxP s.padding.bottom = b at *
  generalize pxP s.border.top = c at *
  generalize pxP s.border.bottom = d at *
  generalize dimO s.size.height = h at *
  generalize dimO s.minSize.height = m at *
  exact prevent_arith a b c d h m n1 n2 n3 n4 n5 n6


theorem flowCtx_px (s : Style Rat) (h : Px s) (inputs : LayoutInput Rat) (w : Rat) :
    (flowCtxOf s (innerCtx s inputs) w).resolvedContentBoxInset
      = ⟨pxP s.padding.left + pxP s.border.left + 0, pxP s.padding.right + pxP s.border.right + 0,
         pxP s.padding.top + pxP s.border.top + 0, pxP s.padding.bottom + pxP s.border.bottom + 0⟩ ∧
    (flowCtxOf s (innerCtx s inputs) w).contentBoxInset
      = ⟨pxP s.padding.left + pxP s.border.left + 0, pxP s.padding.right + pxP s.border.right + 0,
         pxP s.padding.top + pxP s.border.top + 0, pxP s.padding.bottom + pxP s.border.bottom + 0⟩ ∧
    (flowCtxOf s (innerCtx s inputs) w).containerOuterWidth = w ∧
    (flowCtxOf s (innerCtx s inputs) w).ownMarginsCollapseWithChildren
      = (innerCtx s inputs).ownMarginsCollapseWithChildren := by
  obtain ⟨e1, e2, e3, _, _, _⟩ := innerCtx_px s h inputs
  refine ⟨?_, ?_, rfl, rfl⟩
  · simp only [flowCtxOf, padding_px s h, border_px s h, e3, Rect.add]
  · show (innerCtx s inputs).contentBoxInset = _
    simp only [innerCtx, padding_px s h, border_px s h, gutter_px s h, Rect.add]

theorem sbox_open (s : Style Rat) (ctx : Option (MeasureSpec Rat)) (l : Layout Rat) (hb : s.display = .block) :
    (sbox s ctx l).topOpen = (decide (pxP s.padding.top = 0) && decide (pxP s.border.top = 0)) ∧
    (sbox s ctx l).bottomOpen = (decide (pxP s.padding.bottom = 0) && decide (pxP s.border.bottom = 0)
      && (dimO s.size.height).isNone) := by
  have hkind : (sbox s ctx l).kind = .block := by simp only [sbox, hb]; rfl
  have hkb : (Kind.block == Kind.block) = true := rfl
  simp only [Box.topOpen, Box.bottomOpen, hkind, hkb, Bool.true_and, beq_eq_decide]
  exact ⟨rfl, rfl⟩


theorem own_elim (s : Style Rat) (ctx : Option (MeasureSpec Rat)) (l : Layout Rat)
    (h : (sbox s ctx l).ownMarginsMayMeet = true) :
    (dimO s.minSize.height).getD 0 = 0 ∧ pxP s.padding.top = 0 ∧ pxP s.padding.bottom = 0 ∧ pxP s.border.top = 0 ∧
    pxP s.border.bottom = 0 ∧ (dimO s.size.height = none ∨ dimO s.size.height = some 0) := by
  simp only [Box.ownMarginsMayMeet, Bool.and_eq_true, Bool.or_eq_true, beq_iff_eq] at h
  obtain ⟨⟨⟨⟨⟨⟨⟨_, h2⟩, h3⟩, h4⟩, h5⟩, h6⟩, h7⟩, _⟩ := h
  refine ⟨h2, h3, h4, h5, h6, ?_⟩
  rcases h7 with h7 | h7
  · left
    have : (sbox s ctx l).height = dimO s.size.height := rfl
    rw [this] at h7
    cases hd : dimO s.size.height with
    | none => rfl
    | some v => rw [hd] at h7; cases h7
  · right; exact h7

theorem through_height (s : Style Rat) (ctx : Option (MeasureSpec Rat)) (l : Layout Rat) (inp : LayoutInput Rat)
    (w : Rat) (items : List (BlockItem Rat)) (st' : FlowState Rat)
    (hp : Px s) (hr : s.position = .relative) (hin : InFlowIn s inp)
    (hown : (sbox s ctx l).ownMarginsMayMeet = true)
    (hcom : st'.committedYOffset
      = (flowCtxOf s (innerCtx s (innerInputs s inp)) w).resolvedContentBoxInset.top) :
    (finalOuterSize (innerCtx s (innerInputs s inp)) (innerInputs s inp) w
      (items, flowResult (flowCtxOf s (innerCtx s (innerInputs s inp)) w) st')).height = 0 := by
  obtain ⟨m0, a0, b0, c0, d0, hh⟩ := own_elim s ctx l hown
  obtain ⟨f1, f2, f3, f4⟩ := flowCtx_px s hp (innerInputs s inp) w
  obtain ⟨_, _, _, _, i5, i6⟩ := innerCtx_px s hp (innerInputs s inp)
  obtain ⟨_, g2, _⟩ := innerCtx_flags s hp (innerInputs s inp)
  have hvmc : (innerInputs s inp).verticalMarginsAreCollapsible = ⟨true, true⟩ := hin.vmc
  have hrel : (s.position == Position.relative) = true := by rw [hr]; rfl
  have hk : (innerInputs s inp).knownDimensions.height = (styledH s).map (fun v => max v (pbH s)) :=
    styled_height_inflow s hp inp hin
  have hpb : (innerCtx s (innerInputs s inp)).paddingBorderSize = ⟨pbW s, pbH s⟩ := by
    show ((Resolve.rectLPOrZero s.padding _).add (Resolve.rectLPOrZero s.border _)).sumAxes = _
    exact pbSize_px s hp _
  have hpbH : pbH s = 0 := by simp only [pbH, a0, b0, c0, d0]; norm_num
  simp only [finalOuterSize, flowResult, hk, i5, i6, hpb, hpbH, hcom, f1, f4, g2, hvmc, hrel, a0, b0, c0, d0,
    Bool.true_and, decide_true]
  unfold styledH
  rcases hh with hh | hh
  · rw [hh]
    cases hm : dimO s.minSize.height with
    | none => simp [MaybeMath.oo_clamp, MaybeMath.fo_clamp, MaybeMath.fo_max, rat_fmax]
    | some mv =>
      rw [hm] at m0
      simp only [Option.getD_some] at m0
      simp [MaybeMath.oo_clamp, MaybeMath.fo_clamp, MaybeMath.fo_max, rat_fmax, m0]
  · rw [hh]
    cases hm : dimO s.minSize.height with
    | none => simp [MaybeMath.oo_clamp, MaybeMath.fo_clamp, MaybeMath.fo_max, rat_fmax]
    | some mv =>
      rw [hm] at m0
      simp only [Option.getD_some] at m0
      simp [MaybeMath.oo_clamp, MaybeMath.fo_clamp, MaybeMath.fo_max, rat_fmax, m0]

theorem trailFrom_nil (Ts : List Tree) : trailFrom [] Ts = trailing Ts := by
  unfold trailFrom; split <;> simp
theorem leadFrom_nil (Ts : List Tree) : leadFrom [] true Ts = leading Ts := by
  unfold leadFrom; simp

theorem styleTree_node (s : Style Rat) (ctx : Option (MeasureSpec Rat)) (kids : List (STree Rat)) :
    styleTree (.node s ctx kids) = .node (sbox s ctx Layout.new) (styleKids kids) := by
  simp only [styleTree]

/-- **the output of one block container** meets the specification when the outputs of its in-flow children do -/
theorem block_output_meets (ans : Nat → LayoutInput Rat → LayoutOutput Rat) (s : Style Rat)
    (ctx : Option (MeasureSpec Rat)) (kids : List (STree Rat)) (inp : LayoutInput Rat)
    (hp : Px s) (hn : NN s ctx) (hb : s.display = .block) (hr : s.position = .relative) (hc : contentOf ctx = 0)
    (hkids : inFamilyCoreKids kids = true) (hin : InFlowIn s inp) (hmeet : KidsMeet ans 0 kids) :
    Meets (styleTree (.node s ctx kids)) (interp ans (computeBlockLayout s (kids.map STree.style) inp)) := by
  obtain ⟨w, acs, _, _, _, heq⟩ := interp_block_PL ans s (kids.map STree.style) inp hin.mode
  rw [heq]
  clear heq
  simp only []
  generalize hic : innerCtx s (innerInputs s inp) = ic
  generalize hcc : flowCtxOf s ic w = c
  have hinit : c.initState.activeCollapsibleMarginSet = toSet [] ∧ c.initState.firstChildTopMarginSet = toSet [] ∧
      c.initState.isCollapsingWithFirstMarginSet = true ∧
      c.initState.committedYOffset = c.resolvedContentBoxInset.top := ⟨rfl, rfl, rfl, rfl⟩
  obtain ⟨w1, w2, w3, w4⟩ := walk_final c ic.containerContentBoxSize ans kids 0 0 c.initState [] [] hkids hmeet
    hinit.1 hinit.2.1
  rw [trailFrom_nil] at w1
  rw [hinit.2.2.1, leadFrom_nil] at w2
  rw [hinit.2.2.2] at w4
  generalize walk c ic.containerContentBoxSize ans (kids.map STree.style) 0 0 c.initState = r at *
  -- flags
  have hvmc : (innerInputs s inp).verticalMarginsAreCollapsible = ⟨true, true⟩ := hin.vmc
  obtain ⟨g1, g2, _⟩ := innerCtx_flags s hp (innerInputs s inp)
  rw [hic, hvmc] at g1 g2
  have hrel : (s.position == Position.relative) = true := by rw [hr]; rfl
  simp only [hrel, Bool.true_and] at g1 g2
  obtain ⟨o1, o2⟩ := sbox_open s ctx Layout.new hb
  have hprev := prevent_eq s ctx Layout.new hp hn hb hr hc inp hin
  rw [hic] at hprev
  have hstart : ic.ownMarginsCollapseWithChildren.start = (sbox s ctx Layout.new).topOpen := g1.trans o1.symm
  have hend : ic.ownMarginsCollapseWithChildren.end = (sbox s ctx Layout.new).bottomOpen := g2.trans o2.symm
  have hH : (sbox s ctx Layout.new).ownMarginsMayMeet = true → allThrough (styleKids kids) = true →
      (finalOuterSize ic (innerInputs s inp) w (r.1, flowResult c r.2.1)).height = 0 := by
    intro h1 h2
    have := through_height s ctx Layout.new inp w r.1 r.2.1 hp hr hin h1 (by rw [hic, hcc]; exact w4 h2)
    rw [hic, hcc] at this
    exact this
  have hmt : s.margin.top.resolveOrZero inp.parentSize.width = pxA s.margin.top := lpa_resolveOrZero _ hp.mt _
  have hmb : s.margin.bottom.resolveOrZero inp.parentSize.width = pxA s.margin.bottom := lpa_resolveOrZero _ hp.mb _
  have hfl : (innerOutput s inp.parentSize ic r.1 (finalOuterSize ic (innerInputs s inp) w (r.1, flowResult c r.2.1))
      (flowResult c r.2.1).1 acs (flowResult c r.2.1).2.2.1 (flowResult c r.2.1).2.2.2).marginsCanCollapseThrough
      = ((sbox s ctx Layout.new).ownMarginsMayMeet && allThrough (styleKids kids)) := by
    simp only [innerOutput, hprev, w3, Bool.not_not, rat_feq]
    cases h1 : (sbox s ctx Layout.new).ownMarginsMayMeet with
    | false => rfl
    | true =>
      cases h2 : allThrough (styleKids kids) with
      | false => rfl
      | true => simp only [hH h1 h2, decide_true, Bool.and_self]
  rw [styleTree_node]
  refine ⟨?_, ?_, ?_, ?_⟩
  · rw [hfl]; simp only [collapsesThrough]
  · simp only [innerOutput, hstart, topSet, Tree.box, sbox_marginTop]
    cases (sbox s ctx Layout.new).topOpen with
    | true =>
      simp only [if_true]
      show (flowResult c r.2.1).2.2.1.collapseWithMargin _ = _
      simp only [flowResult, w2, toSet_snoc]
      rw [toSet_cons]
    | false =>
      simp only [Bool.false_eq_true, if_false]
      exact (toSet_single _).symm
  · simp only [innerOutput, hend, bottomSet, Tree.box, sbox_marginBottom]
    cases (sbox s ctx Layout.new).bottomOpen with
    | true =>
      simp only [if_true]
      show (flowResult c r.2.1).2.2.2.collapseWithMargin _ = _
      simp only [flowResult, w1, toSet_snoc]
      rw [toSet_cons]
    | false =>
      simp only [Bool.false_eq_true, if_false]
      exact (toSet_single _).symm
  · intro hflag
    simp only [innerOutput, Bool.and_eq_true, rat_feq, decide_eq_true_eq] at hflag
    exact hflag.2

end C10Thm
