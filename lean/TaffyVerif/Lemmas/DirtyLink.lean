/-
  Lemmas for the C15 flat ↔ rose-tree link (`Props/C15Link.lean`): finiteness of the subtree under a parentless node,
  the unfolding `unfold` and the subtree relation `Unf`, `K ⇒ KT` on unfoldings, descendants, and the relation
  `PassFlat` ("`s'` is `s` after a pass from `r`") with the lemmas that read `K` back from the rose tree.
  No Mathlib.
-/
import TaffyVerif.Lemmas.DirtyStruct
import TaffyVerif.Props.C15Pass

namespace C15Link
open Dirty DirtyPass C15Pass

/-! ### 2. below a parentless node the graph is a finite tree -/

/-- the subtree under `n` has depth at most `d` (no chain of `d + 1` child steps starts at `n`) -/
def Shallow (s : St) : Nat → Nat → Prop
  | 0, n => s.children n = []
  | d + 1, n => ∀ c ∈ s.children n, Shallow s d c

theorem shallow_of_nil {s : St} {n : Nat} (h : s.children n = []) : ∀ d, Shallow s d n
  | 0 => h
  | d + 1 => by intro c hc; rw [h] at hc; cases hc

theorem shallow_succ {s : St} : ∀ (d n : Nat), Shallow s d n → Shallow s (d + 1) n
  | 0, _, h => shallow_of_nil h 1
  | d + 1, _, h => fun c hc => shallow_succ d c (h c hc)

theorem shallow_mono {s : St} {d n : Nat} (h : Shallow s d n) : ∀ k, Shallow s (d + k) n
  | 0 => h
  | k + 1 => shallow_succ _ _ (shallow_mono h k)

/-- `n :: rest` is `n` followed by its chain of ancestors, ending in a parentless node -/
def IsAnc (s : St) : List Nat → Prop
  | [] => False
  | [r] => s.parent r = none
  | a :: b :: rest => s.parent a = some b ∧ IsAnc s (b :: rest)

theorem isAnc_parent {s : St} : ∀ (rest : List Nat) (a : Nat), IsAnc s (a :: rest) →
    ∀ x ∈ a :: rest, s.parent x = none ∨ ∃ y ∈ rest, s.parent x = some y
  | [], a, h, x, hx => by
    simp only [List.mem_singleton] at hx; subst hx; exact Or.inl h
  | b :: rest, a, h, x, hx => by
    rcases List.mem_cons.mp hx with e | e
    · subst e; exact Or.inr ⟨b, List.mem_cons_self, h.1⟩
    · rcases isAnc_parent rest b h.2 x e with h1 | ⟨y, hy, h1⟩
      · exact Or.inl h1
      · exact Or.inr ⟨y, List.mem_cons_of_mem _ hy, h1⟩

/-- a child of the head of an ancestor chain is not on the chain: the downward path stays simple -/
theorem child_not_on_chain {s : St} (st : Struct s) {n c : Nat} {rest : List Nat} (ha : IsAnc s (n :: rest))
    (hnd : (n :: rest).Nodup) (hc : c ∈ s.children n) : c ∉ n :: rest := by
  intro hm
  have hp := st.kidsPar n c hc
  rcases isAnc_parent rest n ha c hm with h | ⟨y, hy, h⟩
  · rw [hp] at h; cases h
  · rw [hp] at h
    have : n = y := Option.some.inj h
    subst this
    exact (List.nodup_cons.mp hnd).1 hy

theorem length_le_of_nodup_lt {l : List Nat} {N : Nat} (hnd : l.Nodup) (hlt : ∀ x ∈ l, x < N) : l.length ≤ N := by
  have := hnd.length_le_of_subset (l₂ := List.range N) (fun x hx => List.mem_range.mpr (hlt x hx))
  simpa using this

theorem shallow_of_chain {s : St} (st : Struct s) : ∀ (d n : Nat) (rest : List Nat), IsAnc s (n :: rest) →
    (n :: rest).Nodup → (∀ x ∈ n :: rest, x < s.next) → s.next ≤ (n :: rest).length + d → Shallow s d n
  | 0, n, rest, ha, hnd, hlt, hlen => by
    show s.children n = []
    apply List.eq_nil_iff_forall_not_mem.mpr
    intro c hc
    have hcn := child_not_on_chain st ha hnd hc
    have h1 : (c :: n :: rest).Nodup := List.nodup_cons.mpr ⟨hcn, hnd⟩
    have h2 : ∀ x ∈ c :: n :: rest, x < s.next := by
      intro x hx
      rcases List.mem_cons.mp hx with e | e
      · subst e; exact (st.bound n _ hc).1
      · exact hlt x e
    have := length_le_of_nodup_lt h1 h2
    simp only [List.length_cons] at this hlen
    omega
  | d + 1, n, rest, ha, hnd, hlt, hlen => by
    intro c hc
    have hcn := child_not_on_chain st ha hnd hc
    apply shallow_of_chain st d c (n :: rest) ⟨st.kidsPar n c hc, ha⟩ (List.nodup_cons.mpr ⟨hcn, hnd⟩)
    · intro x hx
      rcases List.mem_cons.mp hx with e | e
      · subst e; exact (st.bound n _ hc).1
      · exact hlt x e
    · simp only [List.length_cons] at hlen ⊢; omega

/-- **the subtree under a parentless node is finite**: its depth is below the number of allocated ids -/
theorem subtree_finite {s : St} (st : Struct s) {r : Nat} (hr : s.parent r = none) : Shallow s s.next r := by
  by_cases hk : s.children r = []
  · exact shallow_of_nil hk _
  · obtain ⟨c, hc⟩ := List.exists_mem_of_ne_nil _ hk
    have hlt := (st.bound r c hc).2
    have h1 := shallow_of_chain st (s.next - 1) r [] hr (by simp) (by simpa using hlt) (by simp; omega)
    have h2 := shallow_mono h1 1
    have : s.next - 1 + 1 = s.next := by omega
    rwa [this] at h2

/-! ### 3. the unfolding -/

/-- the rose tree under `n`, cut off after `fuel` levels -/
def unfold (s : St) : Nat → Nat → FT
  | 0, n => .node (s.hidden n) (s.fin n) (s.meas n) []
  | fuel + 1, n => .node (s.hidden n) (s.fin n) (s.meas n) ((s.children n).map (unfold s fuel))

mutual
/-- `t` is the subtree of the flat state under `n`: the flags of `n`, and the subtree of every child, in order -/
inductive Unf (s : St) : Nat → FT → Prop
  | node {n : Nat} {ts : List FT} : UnfList s (s.children n) ts → Unf s n (.node (s.hidden n) (s.fin n) (s.meas n) ts)
inductive UnfList (s : St) : List Nat → List FT → Prop
  | nil : UnfList s [] []
  | cons {n : Nat} {ns : List Nat} {t : FT} {ts : List FT} : Unf s n t → UnfList s ns ts → UnfList s (n :: ns) (t :: ts)
end

theorem unfList_map {s : St} (g : Nat → FT) : ∀ (l : List Nat), (∀ c ∈ l, Unf s c (g c)) → UnfList s l (l.map g)
  | [], _ => .nil
  | c :: l, h => .cons (h c List.mem_cons_self) (unfList_map g l (fun x hx => h x (List.mem_cons_of_mem _ hx)))

/-- with enough fuel the unfolding is exact -/
theorem unfold_exact {s : St} : ∀ (d n : Nat), Shallow s d n → Unf s n (unfold s d n)
  | 0, n, h => by
    have h0 : s.children n = [] := h
    have : UnfList s (s.children n) [] := by rw [h0]; exact .nil
    exact Unf.node this
  | d + 1, n, h => Unf.node (unfList_map _ _ (fun c hc => unfold_exact d c (h c hc)))

/-- … and more fuel does not change it -/
theorem unfold_stable {s : St} : ∀ (d n : Nat), Shallow s d n → ∀ k, unfold s (d + k) n = unfold s d n
  | 0, n, h, k => by
    have h0 : s.children n = [] := h
    cases k with
    | zero => rfl
    | succ k => simp [unfold, h0]
  | d + 1, n, h, k => by
    have : d + 1 + k = (d + k) + 1 := by omega
    rw [this]
    simp only [unfold, FT.node.injEq, true_and]
    apply List.map_congr_left
    intro c hc
    exact unfold_stable d c (h c hc) k

mutual
/-- the subtree relation determines the rose tree -/
theorem Unf.unique {s : St} : ∀ (t : FT) (n : Nat) (t' : FT), Unf s n t → Unf s n t' → t = t'
  | .node _ _ _ ts, _, _, h1, h2 => by
    cases h1 with
    | node hl1 =>
      cases h2 with
      | node hl2 => rw [UnfList.unique ts _ _ hl1 hl2]
theorem UnfList.unique {s : St} : ∀ (ts : List FT) (ns : List Nat) (ts' : List FT),
    UnfList s ns ts → UnfList s ns ts' → ts = ts'
  | [], _, _, h1, h2 => by cases h1; cases h2; rfl
  | t :: ts, _, _, h1, h2 => by
    cases h1 with
    | cons a b =>
      cases h2 with
      | cons a' b' => rw [Unf.unique t _ _ a a', UnfList.unique ts _ _ b b']
end

/-- **flat ↔ rose tree**: in a state satisfying the structural invariant, the subtree under a parentless node `r` is
    a finite rose tree, `unfold s s.next r` is it, and it is the only one -/
theorem subtree_is_rose_tree {s : St} (st : Struct s) {r : Nat} (hr : s.parent r = none) :
    Unf s r (unfold s s.next r) ∧ (∀ t, Unf s r t → t = unfold s s.next r) ∧
    ∀ k, unfold s (s.next + k) r = unfold s s.next r :=
  let sh := subtree_finite st hr
  ⟨unfold_exact _ _ sh, fun t ht => Unf.unique t r _ ht (unfold_exact _ _ sh), unfold_stable _ _ sh⟩

/-! ### 4. the flat invariant gives the rose-tree invariant -/

theorem unfold_fin (s : St) (d n : Nat) : (unfold s d n).fin = s.fin n := by cases d <;> rfl
theorem unfold_hidden (s : St) (d n : Nat) : (unfold s d n).hidden = s.hidden n := by cases d <;> rfl
theorem unfold_meas (s : St) (d n : Nat) : (unfold s d n).meas = s.meas n := by cases d <;> rfl

theorem AList_map (g : Nat → FT) : ∀ (l : List Nat), (∀ c ∈ l, A (g c)) → AList (l.map g)
  | [], _ => trivial
  | c :: l, h => ⟨h c List.mem_cons_self, AList_map g l (fun x hx => h x (List.mem_cons_of_mem _ hx))⟩

theorem BList_map (g : Nat → FT) : ∀ (l : List Nat), (∀ c ∈ l, B (g c)) → BList (l.map g)
  | [], _ => trivial
  | c :: l, h => ⟨h c List.mem_cons_self, BList_map g l (fun x hx => h x (List.mem_cons_of_mem _ hx))⟩

theorem allFin_map (g : Nat → FT) : ∀ (l : List Nat), (∀ c ∈ l, (g c).fin = true) → allFin (l.map g)
  | [], _ => trivial
  | c :: l, h => ⟨h c List.mem_cons_self, allFin_map g l (fun x hx => h x (List.mem_cons_of_mem _ hx))⟩

theorem A_unfold {s : St} (k : K s) : ∀ (d n : Nat), A (unfold s d n)
  | 0, n => by simp only [unfold, A, AList]; exact ⟨k.a n, trivial⟩
  | d + 1, n => by
    simp only [unfold, A]
    exact ⟨k.a n, AList_map _ _ (fun c _ => A_unfold k d c)⟩

theorem B_unfold {s : St} (k : K s) (st : Struct s) : ∀ (d n : Nat), B (unfold s d n)
  | 0, n => by simp only [unfold, B, BList, allFin]; exact ⟨fun _ _ => trivial, trivial⟩
  | d + 1, n => by
    simp only [unfold, B]
    refine ⟨fun hf hh => allFin_map _ _ (fun c hc => ?_), BList_map _ _ (fun c _ => B_unfold k st d c)⟩
    rw [unfold_fin]
    exact k.b c n (st.kidsPar n c hc) hf hh

/-- **`K` on the flat state ⇒ `KT` on the unfolding of any node** (`K` also gives `I`: `C15.I_of_K`) -/
theorem KT_unfold {s : St} (k : K s) (st : Struct s) (d n : Nat) : KT (unfold s d n) :=
  ⟨A_unfold k d n, B_unfold k st d n⟩

/-! ### 6. back to the flat state: a pass as a relation between flat states, and histories of mutators AND passes

`C15.run` only executes mutators, and no mutator ever sets a flag, so the states it reaches have all flags false. The
states that matter are reached by mutators interleaved with passes. `PassFlat s r cs s'` says what it means for a flat
state `s'` to be "`s` after the pass from `r` resolved by `cs`": same structure, the subtree of `r` now carries exactly the
flags of the rose-tree result, every node outside the subtree is untouched. -/

/-- `n` is `r` or a descendant of `r` -/
inductive Desc (s : St) (r : Nat) : Nat → Prop
  | refl : Desc s r r
  | step {n c : Nat} : Desc s r n → c ∈ s.children n → Desc s r c

/-- `n` is reachable from `r` without passing *through* a `display:none` node -/
inductive VisReach (s : St) (r : Nat) : Nat → Prop
  | refl : VisReach s r r
  | step {n c : Nat} : VisReach s r n → s.hidden n = false → c ∈ s.children n → VisReach s r c

structure PassFlat (s : St) (r : Nat) (cs : List Choice) (s' : St) : Prop where
  shape : SameShape s s'
  tree : Unf s' r (pass (unfold s s.next r) cs)
  frame : ∀ n, ¬ Desc s r n → s'.fin n = s.fin n ∧ s'.meas n = s.meas n

theorem unfList_mem {s : St} {P : FT → Prop} {PL : List FT → Prop}
    (hcons : ∀ t ts, PL (t :: ts) → P t ∧ PL ts) :
    ∀ {ns : List Nat} {ts : List FT}, UnfList s ns ts → PL ts → ∀ c ∈ ns, ∃ tc, Unf s c tc ∧ P tc
  | _, _, .nil, _, c, hc => by cases hc
  | _, _, .cons (n := n) (t := t) hu hl, hp, c, hc => by
    obtain ⟨h1, h2⟩ := hcons _ _ hp
    rcases List.mem_cons.mp hc with e | e
    · subst e; exact ⟨t, hu, h1⟩
    · exact unfList_mem hcons hl h2 c e

theorem unf_fin {s : St} {n : Nat} {t : FT} (h : Unf s n t) : t.fin = s.fin n ∧ t.meas = s.meas n ∧ t.hidden = s.hidden n := by
  cases h; exact ⟨rfl, rfl, rfl⟩

theorem unfList_allFin {s : St} : ∀ {ns : List Nat} {ts : List FT}, UnfList s ns ts → allFin ts → ∀ c ∈ ns, s.fin c = true
  | _, _, .nil, _, c, hc => by cases hc
  | _, _, .cons hu hl, hp, c, hc => by
    rcases List.mem_cons.mp hc with e | e
    · subst e; rw [← (unf_fin hu).1]; exact hp.1
    · exact unfList_allFin hl hp.2 c e

/-- every descendant's subtree is a subtree of the unfolding, with the rose-tree invariant -/
theorem unf_desc {s : St} {r : Nat} {t0 : FT} (h0 : Unf s r t0) (a0 : A t0) (b0 : B t0) :
    ∀ n, Desc s r n → ∃ t, Unf s n t ∧ A t ∧ B t := by
  intro n hd
  induction hd with
  | refl => exact ⟨t0, h0, a0, b0⟩
  | @step n c _ hc ih =>
    obtain ⟨t, hu, ha, hb⟩ := ih
    cases hu with
    | node hl =>
      simp only [A] at ha
      simp only [B] at hb
      obtain ⟨tc, h1, h2⟩ := unfList_mem (P := fun t => A t ∧ B t) (PL := fun ts => AList ts ∧ BList ts)
        (fun t ts h => ⟨⟨h.1.1, h.2.1⟩, ⟨h.1.2, h.2.2⟩⟩) hl ⟨ha.2, hb.2⟩ c hc
      exact ⟨tc, h1, h2.1, h2.2⟩

/-- the invariant on the tree gives the two clauses of `K` at every node of the subtree -/
theorem unf_local {s : St} {n : Nat} {t : FT} (hu : Unf s n t) (ha : A t) (hb : B t) :
    (s.meas n = true → s.fin n = true) ∧
    (∀ c ∈ s.children n, s.fin n = true → s.hidden n = false → s.fin c = true) := by
  cases hu with
  | node hl =>
    simp only [A] at ha
    simp only [B] at hb
    exact ⟨ha.1, fun c hc hf hh => unfList_allFin hl (hb.1 hf hh) c hc⟩

theorem unf_visReach {s : St} {r : Nat} {t0 : FT} (h0 : Unf s r t0) (c0 : Clean t0) :
    ∀ n, VisReach s r n → ∃ t, Unf s n t ∧ Clean t := by
  intro n hd
  induction hd with
  | refl => exact ⟨t0, h0, c0⟩
  | @step n c _ hh hc ih =>
    obtain ⟨t, hu, hcl⟩ := ih
    cases hu with
    | node hl =>
      simp only [Clean] at hcl
      exact unfList_mem (P := Clean) (PL := CleanList) (fun _ _ h => h) hl (hcl.2 hh) c hc

theorem desc_shape {s s' : St} (h : s'.children = s.children) {r n : Nat} (hd : Desc s r n) : Desc s' r n := by
  induction hd with
  | refl => exact .refl
  | step _ hc ih => exact .step ih (by rw [h]; exact hc)

end C15Link
