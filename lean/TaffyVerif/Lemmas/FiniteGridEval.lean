/-
  C03 (finiteness at `ER`) — the evaluator over trees whose GRID fields are finite too: `fin_evalNodeWith` of
  Lemmas/FinEval.lean with the tree predicate `TreeFin t ∧ TreeGridOK t` and the grid algorithm finite on such nodes.
-/
import TaffyVerif.Lemmas.FiniteGrid8
import TaffyVerif.Lemmas.FinEval

set_option linter.unusedSectionVars false
set_option linter.unusedVariables false

namespace C03Fin
open Eval CacheModel

variable {C : Type}

/-- what the grid algorithm needs of a node's style beyond `StyleFin`: finite track sizing functions, and neither content
alignment `space-between` (asked of every node; used at grid containers only) -/
def GridNodeOK (s : Style ER) : Prop :=
  GridExtFin s.grid ∧ s.alignContent ≠ some .spaceBetween ∧ s.justifyContent ≠ some .spaceBetween

mutual
def TreeGridOK : STree ER → Prop
  | .node s _ kids => GridNodeOK s ∧ TreeListGridOK kids
def TreeListGridOK : List (STree ER) → Prop
  | [] => True
  | t :: ts => TreeGridOK t ∧ TreeListGridOK ts
end

theorem TreeListGridOK_get : ∀ (kids : List (STree ER)) (i : Nat) (t : STree ER),
    TreeListGridOK kids → kids[i]? = some t → TreeGridOK t
  | [], _, _, _, h => by simp at h
  | a :: as, 0, t, hn, h => by
    simp only [List.getElem?_cons_zero, Option.some.injEq] at h
    subst h; exact hn.1
  | a :: as, i + 1, t, hn, h => by
    simp only [List.getElem?_cons_succ] at h
    exact TreeListGridOK_get as i t hn.2 h

/-- a grid algorithm that is finite on nodes with finite grid fields -/
def GridAlgFin (f : Style ER → List (Style ER) → LayoutInput ER → ProgM ER (LayoutOutput ER)) : Prop :=
  ∀ style cs inp, StyleFin style → GridNodeOK style → StylesFin cs → InFin inp → FinP OutFin (f style cs inp)

theorem fin_evalChildOfG (I : C → Prop) {ev : STree ER → NS ER C → LayoutInput ER → LayoutOutput ER × NS ER C}
    {kids : List (STree ER)} (hk : TreeListFin kids) (hg : TreeListGridOK kids)
    (hev : ∀ t ns inp, TreeFin t → TreeGridOK t → NSFin I ns → InFin inp →
      OutFin (ev t ns inp).1 ∧ NSFin I (ev t ns inp).2) :
    EvalChildFin I (evalChildOf ev kids) := by
  intro i cin ks hcin hks
  unfold evalChildOf
  split
  · rename_i t k e1 e2
    obtain ⟨h1, h2⟩ := hev t k cin (TreeListFin_get kids i t hk e1) (TreeListGridOK_get kids i t hg e1)
      (NSListFin_get I ks i k hks e2) hcin
    exact ⟨h1, NSListFin_set I ks i _ hks h2⟩
  · exact ⟨fin_out_hidden, hks⟩

/-- **evaluator**, grid included: `compute_child_layout` on a whole subtree keeps everything finite -/
theorem fin_evalNodeWithG {ci : CacheImpl ER C} {I : C → Prop} (hci : CacheFin ci I)
    (sel : Display → Bool → Option Gen.Facts.Callee) {algs : Algs ER}
    (hleaf : ∀ inp style m, InFin inp → StyleFin style → MeasureFin m → OutFin (algs.leaf inp style m))
    (hblock : AlgFin algs.block) (hflex : AlgFin algs.flex) (hgrid : GridAlgFin algs.grid) :
    ∀ (fuel : Nat) (t : STree ER) (ns : NS ER C) (inp : LayoutInput ER), TreeFin t → TreeGridOK t → NSFin I ns →
      InFin inp →
      OutFin (evalNodeWith ci sel algs fuel t ns inp).1 ∧ NSFin I (evalNodeWith ci sel algs fuel t ns inp).2 := by
  intro fuel
  induction fuel with
  | zero => intro t ns inp _ _ hns _; rw [eval_zero]; exact ⟨fin_out_hidden, hns⟩
  | succ fuel ih =>
    intro t ns inp ht hg hns hinp
    cases t with
    | node s ctx kids =>
      rw [eval_succ]
      split
      · exact ⟨fin_out_hidden, fin_hiddenLayout hci ns hns⟩
      · split
        · rename_i out e
          cases ns with
          | mk c l nk => exact ⟨hci.get c inp out hns.1 e, hns⟩
        · have hev := fin_evalChildOfG I ht.2.2 hg.2 (fun t ns inp => ih t ns inp)
          have hcs := TreeListFin_styles kids ht.2.2
          have hcomp : OutFin (computeOf ci sel algs (evalNodeWith ci sel algs fuel) s ctx kids ns inp).1 ∧
              NSFin I (computeOf ci sel algs (evalNodeWith ci sel algs fuel) s ctx kids ns inp).2 := by
            unfold computeOf
            split
            · exact ⟨fin_out_hidden, fin_hiddenLayout hci ns hns⟩
            · exact fin_runOn I hev ns _ (hblock s _ inp ht.1 hcs hinp) hns
            · exact fin_runOn I hev ns _ (hflex s _ inp ht.1 hcs hinp) hns
            · exact fin_runOn I hev ns _ (hgrid s _ inp ht.1 hg.1 hcs hinp) hns
            · exact ⟨hleaf inp s _ hinp ht.1 (fin_measureOf ht.2.1), hns⟩
            · exact ⟨fin_out_hidden, hns⟩
          revert hcomp
          generalize computeOf ci sel algs (evalNodeWith ci sel algs fuel) s ctx kids ns inp = r
          intro hcomp
          obtain ⟨o, n⟩ := r
          cases n with
          | mk c l nk =>
            rw [storeOf_mk]
            exact ⟨hcomp.1, hci.store c inp o hcomp.2.1 hcomp.1, hcomp.2.2.1, hcomp.2.2.2⟩

end C03Fin
