/-
  Stored layouts: comparing the exact-memo evaluator with the cache-free evaluator state by state (C01 part 4).
-/
import TaffyVerif.Lemmas.EvalMemo

set_option linter.unusedSectionVars false

namespace EvalMemo
open Eval Gen.Facts
variable {α : Type} [Num α]

/-! ### forgetting the caches -/
section
variable {C : Type}

mutual
/-- the stored layouts of a state (all caches forgotten) -/
def erase : NS α C → NS α Unit
  | .mk _ l kids => .mk () l (eraseList kids)
def eraseList : List (NS α C) → List (NS α Unit)
  | [] => []
  | k :: ks => erase k :: eraseList ks
end

theorem eraseList_get : ∀ (ks : List (NS α C)) (i : Nat), (eraseList ks)[i]? = ks[i]?.map erase
  | [], _ => by simp [eraseList]
  | k :: ks, 0 => by simp [eraseList]
  | k :: ks, i + 1 => by simp only [eraseList, List.getElem?_cons_succ]; exact eraseList_get ks i

theorem eraseList_set : ∀ (ks : List (NS α C)) (i : Nat) (k' : NS α C),
    eraseList (ks.set i k') = (eraseList ks).set i (erase k')
  | [], _, _ => by simp [eraseList]
  | k :: ks, 0, k' => by simp [eraseList]
  | k :: ks, i + 1, k' => by simp only [eraseList, List.set_cons_succ]; rw [eraseList_set ks i k']

theorem eraseList_setLayoutAt (ks : List (NS α C)) (i : Nat) (l : Layout α) :
    eraseList (setLayoutAt ks i l) = setLayoutAt (eraseList ks) i l := by
  unfold setLayoutAt
  rw [eraseList_get]
  cases hk : ks[i]? with
  | none => rfl
  | some k =>
    cases k with
    | mk c l0 nk =>
      simp only [Option.map_some, erase]
      rw [eraseList_set]
      simp only [erase]

variable (ci : CacheImpl α C)

mutual
theorem erase_hidden : ∀ (ns : NS α C), erase (hiddenLayout ci ns) = hiddenLayout noCache (erase ns)
  | .mk c l nk => by
    simp only [hiddenLayout, erase]
    rw [eraseList_hidden nk]
theorem eraseList_hidden : ∀ (ks : List (NS α C)), eraseList (hiddenLayoutList ci ks) = hiddenLayoutList noCache (eraseList ks)
  | [] => by simp [hiddenLayoutList, eraseList]
  | k :: ks => by
    simp only [hiddenLayoutList, eraseList]
    rw [erase_hidden k, eraseList_hidden ks]
end

mutual
theorem erase_init : ∀ (t : STree α), erase (NS.init ci t) = NS.init noCache t
  | .node s c kids => by
    simp only [NS.init, erase]
    rw [eraseList_init kids]
theorem eraseList_init : ∀ (ts : List (STree α)), eraseList (NS.initList ci ts) = NS.initList noCache ts
  | [] => by simp [NS.initList, eraseList]
  | t :: ts => by
    simp only [NS.initList, eraseList]
    rw [erase_init t, eraseList_init ts]
end
end

mutual
theorem erase_unit : ∀ (ns : NS α Unit), erase ns = ns
  | .mk c l nk => by simp only [erase]; rw [eraseList_unit nk]
theorem eraseList_unit : ∀ (ks : List (NS α Unit)), eraseList ks = ks
  | [] => rfl
  | k :: ks => by simp only [eraseList]; rw [erase_unit k, eraseList_unit ks]
end

mutual
theorem erase_shape {C : Type} : ∀ (t : STree α) (k : NS α C), Shape t k → Shape t (erase k)
  | .node _ _ kids, .mk _ _ nk, h => by
    simp only [Shape] at h
    simp only [erase, Shape]
    exact eraseList_shape kids nk h
theorem eraseList_shape {C : Type} : ∀ (ts : List (STree α)) (ks : List (NS α C)), ShapeList ts ks →
    ShapeList ts (eraseList ks)
  | [], [], _ => by simp [eraseList, ShapeList]
  | t :: ts, k :: ks, h => by
    simp only [ShapeList] at h
    simp only [eraseList, ShapeList]
    exact ⟨erase_shape t k h.1, eraseList_shape ts ks h.2⟩
  | [], _ :: _, h => by simp [ShapeList] at h
  | _ :: _, [], h => by simp [ShapeList] at h
end

/-! ### the condition under which a memo hit is invisible in the stored layouts -/
section
variable {C : Type}

/-- along the run of `p` from `ks`, every `call` satisfies `Q` in the state it is issued in -/
def progAll {β : Type} (evalChild : Nat → LayoutInput α → List (NS α C) → LayoutOutput α × List (NS α C))
    (Q : Nat → LayoutInput α → List (NS α C) → Prop) : ProgM α β → List (NS α C) → Prop
  | .pure _, _ => True
  | .call i inp k, ks => Q i inp ks ∧ progAll evalChild Q (k (evalChild i inp ks).1) (evalChild i inp ks).2
  | .setLayout i l k, ks => progAll evalChild Q (k ()) (setLayoutAt ks i l)

/-- **HitsSettled**: in the evaluation of `(t, ns, inp)` with cache `ci`, at every cache hit — at node `n` with input
`i`, in the state the hit happens in — a cache-free evaluation of `(n, i)` would leave every stored layout of `n`'s
subtree unchanged ("the subtree is settled for `i`"). -/
def HitsSettled (ci : CacheImpl α C) (sel : Display → Bool → Option Callee) (algs : Algs α) :
    Nat → STree α → NS α C → LayoutInput α → Prop
  | 0, _, _, _ => True
  | fuel + 1, .node style ctx kids, .mk c l nk, inp =>
    if inp.runMode == .performHiddenLayout then True
    else match ci.get c inp with
      | some _ =>
        (evalNodeWith noCache sel algs (fuel + 1) (.node style ctx kids) (erase (NS.mk c l nk)) inp).2
          = erase (NS.mk c l nk)
      | none =>
        match bodyOf sel algs style kids inp with
        | .prog p =>
          progAll (evalChildOf ci sel algs fuel kids)
            (fun i cin ks => match kids[i]?, ks[i]? with
              | some t, some k => HitsSettled ci sel algs fuel t k cin
              | _, _ => True) p nk
        | _ => True

end

/-! ### lockstep -/
section
variable {C : Type} {V : C → (LayoutInput α → LayoutOutput α) → Prop}
variable (sel : Display → Bool → Option Callee) (algs : Algs α) (ci : CacheImpl α C) (hs : CacheSound ci V)
include hs

theorem runProg_lockstep {β : Type} (kids : List (STree α))
    (evalM : Nat → LayoutInput α → List (NS α C) → LayoutOutput α × List (NS α C))
    (evalF : Nat → LayoutInput α → List (NS α Unit) → LayoutOutput α × List (NS α Unit))
    (Q : Nat → LayoutInput α → List (NS α C) → Prop)
    (hc : ∀ i cin ks, ValidList V sel algs kids ks → Q i cin ks →
      ValidList V sel algs kids (evalM i cin ks).2 ∧
      (evalM i cin ks).1 = (evalF i cin (eraseList ks)).1 ∧
      eraseList (evalM i cin ks).2 = (evalF i cin (eraseList ks)).2)
    (p : ProgM α β) : ∀ ks, ValidList V sel algs kids ks → progAll evalM Q p ks →
      eraseList (runProg evalM p ks).2 = (runProg evalF p (eraseList ks)).2 := by
  induction p with
  | pure b => intro ks _ _; rfl
  | call i inp k ih =>
    intro ks hv hq
    simp only [progAll] at hq
    obtain ⟨h1, h2, h3⟩ := hc i inp ks hv hq.1
    simp only [runProg]
    rw [← h2, ← h3]
    exact ih _ _ h1 hq.2
  | setLayout i l k ih =>
    intro ks hv hq
    simp only [progAll] at hq
    simp only [runProg]
    rw [← eraseList_setLayoutAt]
    exact ih _ _ (ValidList_setLayoutAt V sel algs kids ks i l hv) hq

/-- **lockstep**: if every hit is settled, the evaluator with the (sound) cache `ci` and the cache-free evaluator, started
from states with equal layouts, end in states with equal layouts -/
theorem eval_lockstep : ∀ (fuel : Nat) (t : STree α) (ns : NS α C) (inp : LayoutInput α), STree.depth t ≤ fuel →
    Valid V sel algs t ns → HitsSettled ci sel algs fuel t ns inp →
      erase (evalNodeWith ci sel algs fuel t ns inp).2 = (evalNodeWith noCache sel algs fuel t (erase ns) inp).2 := by
  intro fuel
  induction fuel with
  | zero => intro t ns inp hd _; cases t; simp [STree.depth] at hd
  | succ fuel ih =>
    intro t ns inp hd hv hq
    cases t with
    | node style ctx kids =>
      cases ns with
      | mk c l nk =>
        simp only [STree.depth] at hd
        simp only [HitsSettled] at hq
        simp only [erase] at hq ⊢
        rw [evalNodeWith_succ, evalNodeWith_succ]
        cases hm : (inp.runMode == RunMode.performHiddenLayout) with
        | true =>
          simp only [if_true]
          have := erase_hidden ci (NS.mk c l nk)
          simpa only [erase] using this
        | false =>
          rw [hm] at hq
          simp only [Bool.false_eq_true, if_false] at hq ⊢
          have hv' := hv
          simp only [Valid] at hv'
          obtain ⟨hvc, hvk⟩ := hv'
          have hnone : (noCache (α := α)).get () inp = none := rfl
          cases hg : ci.get c inp with
          | some out =>
            rw [hg] at hq
            simp only at hq ⊢
            rw [evalNodeWith_succ, hm] at hq
            simp only [Bool.false_eq_true, if_false] at hq
            simp only [erase]
            exact hq.symm
          | none =>
            rw [hg] at hq
            simp only [hnone] at hq ⊢
            cases hb : bodyOf sel algs style kids inp with
            | hidden =>
              simp only [erase]
              rw [eraseList_hidden]
            | leaf => simp only [erase]
            | stuck => simp only [erase]
            | prog p =>
              rw [hb] at hq
              simp only at hq ⊢
              simp only [erase]
              have hc : ∀ i cin ks, ValidList V sel algs kids ks →
                  (match kids[i]?, ks[i]? with
                    | some t, some k => HitsSettled ci sel algs fuel t k cin
                    | _, _ => True) →
                  ValidList V sel algs kids (evalChildOf ci sel algs fuel kids i cin ks).2 ∧
                  (evalChildOf ci sel algs fuel kids i cin ks).1
                    = (evalChildOf noCache sel algs fuel kids i cin (eraseList ks)).1 ∧
                  eraseList (evalChildOf ci sel algs fuel kids i cin ks).2
                    = (evalChildOf noCache sel algs fuel kids i cin (eraseList ks)).2 := by
                intro i cin ks hvl hqi
                simp only [evalChildOf]
                rw [eraseList_get]
                cases hk : kids[i]? with
                | none => exact ⟨hvl, rfl, rfl⟩
                | some t =>
                  obtain ⟨k, hk2, hvt⟩ := ValidList_get V sel algs kids ks i t hvl hk
                  rw [hk, hk2] at hqi
                  rw [hk2]
                  simp only [Option.map_some] at hqi ⊢
                  have hdt := depth_le_of_getElem kids i t hk
                  obtain ⟨e1, e2⟩ := eval_valid sel algs ci hs fuel t k cin (by omega) hvt
                  have hvF : Valid (fun (_ : Unit) _ => True) sel algs t (erase k) :=
                    Shape_valid_true sel algs t (erase k) (by
                      have := Valid_shape V sel algs t k hvt
                      exact erase_shape t k this)
                  obtain ⟨f1, _⟩ := eval_valid sel algs noCache noCache_sound fuel t (erase k) cin (by omega) hvF
                  refine ⟨ValidList_set V sel algs kids ks i t _ hvl hk e2, by rw [e1, f1], ?_⟩
                  rw [eraseList_set, ih t k cin (by omega) hvt hqi]
              have := runProg_lockstep sel algs ci hs kids _ (evalChildOf noCache sel algs fuel kids) _ hc p nk hvk hq
              rw [this]

end

end EvalMemo
