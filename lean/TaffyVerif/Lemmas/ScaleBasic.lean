/-
  C04 — basic facts about `Scalable.scale`: numbers, options, geometry, style projections, inverse/cancellation.
-/
import TaffyVerif.Model.Scale
import TaffyVerif.Lemmas.ScaleAttr
import Mathlib.Tactic.Ring
import Mathlib.Tactic.Linarith
import Mathlib.Tactic.FieldSimp

set_option linter.unusedSectionVars false
set_option linter.unusedVariables false
set_option linter.unusedSimpArgs false

namespace C04
open Scalable

/-! ### `Rat` -/

theorem scale_rat (k x : Rat) : scale k x = k * x := rfl

@[scale_simp] theorem scale_zero (k : Rat) : scale k (0 : Rat) = 0 := by simp [scale_rat]
theorem scale_one_rat (x : Rat) : scale 1 x = x := by simp [scale_rat]
theorem scale_scale_rat (a b x : Rat) : scale a (scale b x) = scale (a * b) x := by
  simp only [scale_rat]; ring

@[scale_simp] theorem add_scale (k a b : Rat) : scale k a + scale k b = scale k (a + b) := by simp only [scale_rat]; ring
@[scale_simp] theorem sub_scale (k a b : Rat) : scale k a - scale k b = scale k (a - b) := by simp only [scale_rat]; ring
@[scale_simp] theorem neg_scale (k a : Rat) : -scale k a = scale k (-a) := by simp only [scale_rat]; ring
@[scale_simp] theorem mul_scale (k a f : Rat) : scale k a * f = scale k (a * f) := by simp only [scale_rat]; ring
@[scale_simp] theorem mul_scale' (k a f : Rat) : f * scale k a = scale k (f * a) := by simp only [scale_rat]; ring
@[scale_simp] theorem div_scale (k a r : Rat) : scale k a / r = scale k (a / r) := by simp only [scale_rat]; ring
@[scale_simp high] theorem div_scale_scale {k : Rat} (hk : 0 < k) (a b : Rat) : scale k a / scale k b = a / b := by
  simp only [scale_rat]
  rcases eq_or_ne b 0 with rfl | hb
  · simp
  · field_simp
@[scale_simp] theorem zero_sub_scale (k a : Rat) : 0 - scale k a = scale k (0 - a) := by simp only [scale_rat]; ring
@[scale_simp] theorem scale_sub_zero (k a : Rat) : scale k a - 0 = scale k (a - 0) := by simp only [scale_rat]; ring
@[scale_simp] theorem scale_add_zero (k a : Rat) : scale k a + 0 = scale k (a + 0) := by simp only [scale_rat]; ring
@[scale_simp] theorem zero_add_scale (k a : Rat) : 0 + scale k a = scale k (0 + a) := by simp only [scale_rat]; ring

theorem fmax_def (a b : Rat) : Num.fmax a b = if a ≤ b then b else a := rfl
theorem fmin_def (a b : Rat) : Num.fmin a b = if a ≤ b then a else b := rfl
theorem abs_def (a : Rat) : Num.abs a = if a < 0 then -a else a := rfl
theorem feq_def (a b : Rat) : Num.feq a b = decide (a = b) := rfl
theorem flt_def (a b : Rat) : Num.flt a b = decide (a < b) := rfl
theorem fle_def (a b : Rat) : Num.fle a b = decide (a ≤ b) := rfl
theorem fgt_def (a b : Rat) : Num.fgt a b = decide (b < a) := rfl
theorem fge_def (a b : Rat) : Num.fge a b = decide (b ≤ a) := rfl
theorem fne_def (a b : Rat) : Num.fne a b = !decide (a = b) := rfl

@[scale_simp] theorem scale_le {k : Rat} (hk : 0 < k) (a b : Rat) : scale k a ≤ scale k b ↔ a ≤ b := by
  simp only [scale_rat]
  constructor
  · intro h; exact le_of_mul_le_mul_left h hk
  · intro h; exact mul_le_mul_of_nonneg_left h hk.le
@[scale_simp] theorem scale_lt {k : Rat} (hk : 0 < k) (a b : Rat) : scale k a < scale k b ↔ a < b := by
  simp only [scale_rat]
  constructor
  · intro h; exact lt_of_mul_lt_mul_left h hk.le
  · intro h; exact mul_lt_mul_of_pos_left h hk
@[scale_simp] theorem scale_eq {k : Rat} (hk : 0 < k) (a b : Rat) : scale k a = scale k b ↔ a = b := by
  simp only [scale_rat]
  constructor
  · intro h; exact mul_left_cancel₀ hk.ne' h
  · intro h; rw [h]
@[scale_simp] theorem scale_le_zero {k : Rat} (hk : 0 < k) (a : Rat) : scale k a ≤ 0 ↔ a ≤ 0 := by
  have := scale_le hk a 0; rwa [scale_zero] at this
@[scale_simp] theorem zero_le_scale {k : Rat} (hk : 0 < k) (a : Rat) : 0 ≤ scale k a ↔ 0 ≤ a := by
  have := scale_le hk 0 a; rwa [scale_zero] at this
@[scale_simp] theorem scale_lt_zero {k : Rat} (hk : 0 < k) (a : Rat) : scale k a < 0 ↔ a < 0 := by
  have := scale_lt hk a 0; rwa [scale_zero] at this
@[scale_simp] theorem zero_lt_scale {k : Rat} (hk : 0 < k) (a : Rat) : 0 < scale k a ↔ 0 < a := by
  have := scale_lt hk 0 a; rwa [scale_zero] at this
@[scale_simp] theorem scale_eq_zero {k : Rat} (hk : 0 < k) (a : Rat) : scale k a = 0 ↔ a = 0 := by
  have := scale_eq hk a 0; rwa [scale_zero] at this
@[scale_simp] theorem zero_eq_scale {k : Rat} (hk : 0 < k) (a : Rat) : 0 = scale k a ↔ 0 = a := by
  have := scale_eq hk 0 a; rwa [scale_zero] at this

/-- `f32::max` commutes with scaling by a positive factor -/
@[scale_simp] theorem fmax_scale {k : Rat} (hk : 0 < k) (a b : Rat) : Num.fmax (scale k a) (scale k b) = scale k (Num.fmax a b) := by
  simp only [fmax_def, scale_le hk]; split <;> rfl
@[scale_simp] theorem fmin_scale {k : Rat} (hk : 0 < k) (a b : Rat) : Num.fmin (scale k a) (scale k b) = scale k (Num.fmin a b) := by
  simp only [fmin_def, scale_le hk]; split <;> rfl
@[scale_simp] theorem abs_scale {k : Rat} (hk : 0 < k) (a : Rat) : Num.abs (scale k a) = scale k (Num.abs a) := by
  simp only [abs_def, scale_lt_zero hk, neg_scale]; split <;> rfl
@[scale_simp] theorem fmax_scale_zero {k : Rat} (hk : 0 < k) (a : Rat) : Num.fmax (scale k a) 0 = scale k (Num.fmax a 0) := by
  have := fmax_scale hk a 0; rwa [scale_zero] at this
@[scale_simp] theorem fmax_zero_scale {k : Rat} (hk : 0 < k) (a : Rat) : Num.fmax 0 (scale k a) = scale k (Num.fmax 0 a) := by
  have := fmax_scale hk 0 a; rwa [scale_zero] at this
@[scale_simp] theorem fmin_scale_zero {k : Rat} (hk : 0 < k) (a : Rat) : Num.fmin (scale k a) 0 = scale k (Num.fmin a 0) := by
  have := fmin_scale hk a 0; rwa [scale_zero] at this
@[scale_simp] theorem fmin_zero_scale {k : Rat} (hk : 0 < k) (a : Rat) : Num.fmin 0 (scale k a) = scale k (Num.fmin 0 a) := by
  have := fmin_scale hk 0 a; rwa [scale_zero] at this

@[scale_simp] theorem feq_scale {k : Rat} (hk : 0 < k) (a b : Rat) : Num.feq (scale k a) (scale k b) = Num.feq a b := by
  simp only [feq_def, scale_eq hk]
@[scale_simp] theorem flt_scale {k : Rat} (hk : 0 < k) (a b : Rat) : Num.flt (scale k a) (scale k b) = Num.flt a b := by
  simp only [flt_def, scale_lt hk]
@[scale_simp] theorem fle_scale {k : Rat} (hk : 0 < k) (a b : Rat) : Num.fle (scale k a) (scale k b) = Num.fle a b := by
  simp only [fle_def, scale_le hk]
@[scale_simp] theorem fgt_scale {k : Rat} (hk : 0 < k) (a b : Rat) : Num.fgt (scale k a) (scale k b) = Num.fgt a b := by
  simp only [fgt_def, scale_lt hk]
@[scale_simp] theorem fge_scale {k : Rat} (hk : 0 < k) (a b : Rat) : Num.fge (scale k a) (scale k b) = Num.fge a b := by
  simp only [fge_def, scale_le hk]
@[scale_simp] theorem feq_scale_zero {k : Rat} (hk : 0 < k) (a : Rat) : Num.feq (scale k a) 0 = Num.feq a 0 := by
  have := feq_scale hk a 0; rwa [scale_zero] at this
@[scale_simp] theorem flt_scale_zero {k : Rat} (hk : 0 < k) (a : Rat) : Num.flt (scale k a) 0 = Num.flt a 0 := by
  have := flt_scale hk a 0; rwa [scale_zero] at this
@[scale_simp] theorem flt_zero_scale {k : Rat} (hk : 0 < k) (a : Rat) : Num.flt 0 (scale k a) = Num.flt 0 a := by
  have := flt_scale hk 0 a; rwa [scale_zero] at this
@[scale_simp] theorem fle_scale_zero {k : Rat} (hk : 0 < k) (a : Rat) : Num.fle (scale k a) 0 = Num.fle a 0 := by
  have := fle_scale hk a 0; rwa [scale_zero] at this
@[scale_simp] theorem fle_zero_scale {k : Rat} (hk : 0 < k) (a : Rat) : Num.fle 0 (scale k a) = Num.fle 0 a := by
  have := fle_scale hk 0 a; rwa [scale_zero] at this
@[scale_simp] theorem fgt_scale_zero {k : Rat} (hk : 0 < k) (a : Rat) : Num.fgt (scale k a) 0 = Num.fgt a 0 := by
  have := fgt_scale hk a 0; rwa [scale_zero] at this
@[scale_simp] theorem fge_scale_zero {k : Rat} (hk : 0 < k) (a : Rat) : Num.fge (scale k a) 0 = Num.fge a 0 := by
  have := fge_scale hk a 0; rwa [scale_zero] at this

/-! ### structural (`rfl`) lemmas: scale goes inward through constructors, outward through projections -/

section struct
variable {β γ : Type} [Scalable β] [Scalable γ] (k : Rat)

@[scale_simp] theorem scale_bool (b : Bool) : scale k b = b := rfl
@[scale_simp] theorem scale_nat (n : Nat) : scale k n = n := rfl
@[scale_simp] theorem scale_unit (u : Unit) : scale k u = u := rfl

@[scale_simp] theorem scale_some (a : β) : scale k (some a) = some (scale k a) := rfl
@[scale_simp] theorem scale_none : scale k (none : Option β) = none := rfl
@[scale_simp] theorem scale_nil : scale k ([] : List β) = [] := rfl
@[scale_simp] theorem scale_cons (a : β) (l : List β) : scale k (a :: l) = scale k a :: scale k l := rfl
theorem scale_list (l : List β) : scale k l = l.map (scale k) := rfl
theorem scale_option (o : Option β) : scale k o = o.map (scale k) := rfl
@[scale_simp] theorem scale_pair (a : β) (b : γ) : scale k (a, b) = (scale k a, scale k b) := rfl
@[scale_simp] theorem scale_fst (p : β × γ) : (scale k p).1 = scale k p.1 := rfl
@[scale_simp] theorem scale_snd (p : β × γ) : (scale k p).2 = scale k p.2 := rfl

@[scale_simp] theorem scale_size_mk (a b : β) : scale k (Size.mk a b) = ⟨scale k a, scale k b⟩ := rfl
@[scale_simp] theorem scale_size_width (s : Size β) : (scale k s).width = scale k s.width := rfl
@[scale_simp] theorem scale_size_height (s : Size β) : (scale k s).height = scale k s.height := rfl
@[scale_simp] theorem scale_point_mk (a b : β) : scale k (Point.mk a b) = ⟨scale k a, scale k b⟩ := rfl
@[scale_simp] theorem scale_point_x (s : Point β) : (scale k s).x = scale k s.x := rfl
@[scale_simp] theorem scale_point_y (s : Point β) : (scale k s).y = scale k s.y := rfl
@[scale_simp] theorem scale_line_mk (a b : β) : scale k (Line.mk a b) = ⟨scale k a, scale k b⟩ := rfl
@[scale_simp] theorem scale_line_start (s : Line β) : (scale k s).start = scale k s.start := rfl
@[scale_simp] theorem scale_line_end (s : Line β) : (scale k s).«end» = scale k s.«end» := rfl
@[scale_simp] theorem scale_rect_mk (a b c d : β) : scale k (Rect.mk a b c d) = ⟨scale k a, scale k b, scale k c, scale k d⟩ := rfl
@[scale_simp] theorem scale_rect_left (s : Rect β) : (scale k s).left = scale k s.left := rfl
@[scale_simp] theorem scale_rect_right (s : Rect β) : (scale k s).right = scale k s.right := rfl
@[scale_simp] theorem scale_rect_top (s : Rect β) : (scale k s).top = scale k s.top := rfl
@[scale_simp] theorem scale_rect_bottom (s : Rect β) : (scale k s).bottom = scale k s.bottom := rfl
@[scale_simp] theorem scale_ms_mk (a b : β) : scale k (MarginSet.mk a b) = ⟨scale k a, scale k b⟩ := rfl
@[scale_simp] theorem scale_ms_positive (s : MarginSet β) : (scale k s).positive = scale k s.positive := rfl
@[scale_simp] theorem scale_ms_negative (s : MarginSet β) : (scale k s).negative = scale k s.negative := rfl

@[scale_simp] theorem scale_definite (v : β) : scale k (AvailableSpace.definite v) = .definite (scale k v) := rfl
@[scale_simp] theorem scale_minContent : scale k (AvailableSpace.minContent : AvailableSpace β) = .minContent := rfl
@[scale_simp] theorem scale_maxContent : scale k (AvailableSpace.maxContent : AvailableSpace β) = .maxContent := rfl
@[scale_simp] theorem scale_lp_length (v : β) : scale k (LP.length v) = .length (scale k v) := rfl
@[scale_simp] theorem scale_lp_percent (v : β) : scale k (LP.percent v) = .percent v := rfl
@[scale_simp] theorem scale_lpa_length (v : β) : scale k (LPA.length v) = .length (scale k v) := rfl
@[scale_simp] theorem scale_lpa_percent (v : β) : scale k (LPA.percent v) = .percent v := rfl
@[scale_simp] theorem scale_lpa_auto : scale k (LPA.auto : LPA β) = .auto := rfl

theorem scale_ite (c : Prop) [Decidable c] (a b : β) : scale k (if c then a else b) = if c then scale k a else scale k b := by
  split <;> rfl
/-- `if` is treated like a function: scaling is pulled out of both branches -/
@[scale_simp] theorem ite_scale (c : Prop) [Decidable c] (a b : β) :
    (if c then scale k a else scale k b) = scale k (if c then a else b) := by
  split <;> rfl

end struct

/-! ### projections of scaled records -/

section proj
variable (k : Rat)

@[scale_simp] theorem style_display (s : Style Rat) : (scale k s).display = s.display := rfl
@[scale_simp] theorem style_itemIsTable (s : Style Rat) : (scale k s).itemIsTable = s.itemIsTable := rfl
@[scale_simp] theorem style_itemIsReplaced (s : Style Rat) : (scale k s).itemIsReplaced = s.itemIsReplaced := rfl
@[scale_simp] theorem style_boxSizing (s : Style Rat) : (scale k s).boxSizing = s.boxSizing := rfl
@[scale_simp] theorem style_overflow (s : Style Rat) : (scale k s).overflow = s.overflow := rfl
@[scale_simp] theorem style_scrollbarWidth (s : Style Rat) : (scale k s).scrollbarWidth = scale k s.scrollbarWidth := rfl
@[scale_simp] theorem style_position (s : Style Rat) : (scale k s).position = s.position := rfl
@[scale_simp] theorem style_inset (s : Style Rat) : (scale k s).inset = scale k s.inset := rfl
@[scale_simp] theorem style_size (s : Style Rat) : (scale k s).size = scale k s.size := rfl
@[scale_simp] theorem style_minSize (s : Style Rat) : (scale k s).minSize = scale k s.minSize := rfl
@[scale_simp] theorem style_maxSize (s : Style Rat) : (scale k s).maxSize = scale k s.maxSize := rfl
@[scale_simp] theorem style_aspectRatio (s : Style Rat) : (scale k s).aspectRatio = s.aspectRatio := rfl
@[scale_simp] theorem style_margin (s : Style Rat) : (scale k s).margin = scale k s.margin := rfl
@[scale_simp] theorem style_padding (s : Style Rat) : (scale k s).padding = scale k s.padding := rfl
@[scale_simp] theorem style_border (s : Style Rat) : (scale k s).border = scale k s.border := rfl
@[scale_simp] theorem style_alignItems (s : Style Rat) : (scale k s).alignItems = s.alignItems := rfl
@[scale_simp] theorem style_alignSelf (s : Style Rat) : (scale k s).alignSelf = s.alignSelf := rfl
@[scale_simp] theorem style_justifyItems (s : Style Rat) : (scale k s).justifyItems = s.justifyItems := rfl
@[scale_simp] theorem style_justifySelf (s : Style Rat) : (scale k s).justifySelf = s.justifySelf := rfl
@[scale_simp] theorem style_alignContent (s : Style Rat) : (scale k s).alignContent = s.alignContent := rfl
@[scale_simp] theorem style_justifyContent (s : Style Rat) : (scale k s).justifyContent = s.justifyContent := rfl
@[scale_simp] theorem style_gap (s : Style Rat) : (scale k s).gap = scale k s.gap := rfl
@[scale_simp] theorem style_textAlign (s : Style Rat) : (scale k s).textAlign = s.textAlign := rfl
@[scale_simp] theorem style_flexDirection (s : Style Rat) : (scale k s).flexDirection = s.flexDirection := rfl
@[scale_simp] theorem style_flexWrap (s : Style Rat) : (scale k s).flexWrap = s.flexWrap := rfl
@[scale_simp] theorem style_flexBasis (s : Style Rat) : (scale k s).flexBasis = scale k s.flexBasis := rfl
@[scale_simp] theorem style_flexGrow (s : Style Rat) : (scale k s).flexGrow = s.flexGrow := rfl
@[scale_simp] theorem style_flexShrink (s : Style Rat) : (scale k s).flexShrink = s.flexShrink := rfl
@[scale_simp] theorem style_isHidden (s : Style Rat) : (scale k s).isHidden = s.isHidden := rfl
@[scale_simp] theorem style_isBlock (s : Style Rat) : (scale k s).isBlock = s.isBlock := rfl

@[scale_simp] theorem li_runMode (i : LayoutInput Rat) : (scale k i).runMode = i.runMode := rfl
@[scale_simp] theorem li_sizingMode (i : LayoutInput Rat) : (scale k i).sizingMode = i.sizingMode := rfl
@[scale_simp] theorem li_axis (i : LayoutInput Rat) : (scale k i).axis = i.axis := rfl
@[scale_simp] theorem li_knownDimensions (i : LayoutInput Rat) : (scale k i).knownDimensions = scale k i.knownDimensions := rfl
@[scale_simp] theorem li_parentSize (i : LayoutInput Rat) : (scale k i).parentSize = scale k i.parentSize := rfl
@[scale_simp] theorem li_availableSpace (i : LayoutInput Rat) : (scale k i).availableSpace = scale k i.availableSpace := rfl
@[scale_simp] theorem li_vmc (i : LayoutInput Rat) :
    (scale k i).verticalMarginsAreCollapsible = i.verticalMarginsAreCollapsible := rfl
theorem scale_li_mk (rm : RunMode) (sm : SizingMode) (ax : RequestedAxis) (kd ps : Size (Option Rat))
    (av : Size (AvailableSpace Rat)) (v : Line Bool) :
    scale k (LayoutInput.mk rm sm ax kd ps av v) = ⟨rm, sm, ax, scale k kd, scale k ps, scale k av, v⟩ := rfl

@[scale_simp] theorem lo_size (o : LayoutOutput Rat) : (scale k o).size = scale k o.size := rfl
@[scale_simp] theorem lo_contentSize (o : LayoutOutput Rat) : (scale k o).contentSize = scale k o.contentSize := rfl
@[scale_simp] theorem lo_firstBaselines (o : LayoutOutput Rat) : (scale k o).firstBaselines = scale k o.firstBaselines := rfl
@[scale_simp] theorem lo_topMargin (o : LayoutOutput Rat) : (scale k o).topMargin = scale k o.topMargin := rfl
@[scale_simp] theorem lo_bottomMargin (o : LayoutOutput Rat) : (scale k o).bottomMargin = scale k o.bottomMargin := rfl
@[scale_simp] theorem lo_mcct (o : LayoutOutput Rat) : (scale k o).marginsCanCollapseThrough = o.marginsCanCollapseThrough := rfl
theorem scale_lo_mk (s cs : Size Rat) (fb : Point (Option Rat)) (tm bm : MarginSet Rat) (b : Bool) :
    scale k (LayoutOutput.mk s cs fb tm bm b) = ⟨scale k s, scale k cs, scale k fb, scale k tm, scale k bm, b⟩ := rfl

@[scale_simp] theorem l_order (l : Layout Rat) : (scale k l).order = l.order := rfl
@[scale_simp] theorem l_location (l : Layout Rat) : (scale k l).location = scale k l.location := rfl
@[scale_simp] theorem l_size (l : Layout Rat) : (scale k l).size = scale k l.size := rfl
@[scale_simp] theorem l_contentSize (l : Layout Rat) : (scale k l).contentSize = scale k l.contentSize := rfl
@[scale_simp] theorem l_scrollbarSize (l : Layout Rat) : (scale k l).scrollbarSize = scale k l.scrollbarSize := rfl
@[scale_simp] theorem l_border (l : Layout Rat) : (scale k l).border = scale k l.border := rfl
@[scale_simp] theorem l_padding (l : Layout Rat) : (scale k l).padding = scale k l.padding := rfl
@[scale_simp] theorem l_margin (l : Layout Rat) : (scale k l).margin = scale k l.margin := rfl
theorem scale_l_mk (o : Nat) (loc : Point Rat) (s cs sb : Size Rat) (b p m : Rect Rat) :
    scale k (Layout.mk o loc s cs sb b p m) = ⟨o, scale k loc, scale k s, scale k cs, scale k sb, scale k b, scale k p, scale k m⟩ := rfl

@[scale_simp] theorem scale_fixed (w h : Rat) : scale k (MeasureSpec.fixed w h) = .fixed (scale k w) (scale k h) := rfl
@[scale_simp] theorem scale_wrap (w h : Rat) : scale k (MeasureSpec.wrap w h) = .wrap (scale k w) (scale k h) := rfl

end proj

/-! ### constants that scaling fixes -/

@[scale_simp] theorem scale_size_zero (k : Rat) : scale k (Size.zero : Size Rat) = Size.zero := by
  simp only [Size.zero, scale_size_mk, scale_zero]
@[scale_simp] theorem scale_size_none (k : Rat) : scale k (Size.none : Size (Option Rat)) = Size.none := rfl
@[scale_simp] theorem scale_rect_zero (k : Rat) : scale k (Rect.zero : Rect Rat) = Rect.zero := by
  simp only [Rect.zero, scale_rect_mk, scale_zero]
@[scale_simp] theorem scale_ms_zero (k : Rat) : scale k (MarginSet.zero : MarginSet Rat) = MarginSet.zero := by
  simp only [MarginSet.zero, scale_ms_mk, scale_zero]
@[scale_simp] theorem scale_lo_hidden (k : Rat) : scale k (LayoutOutput.hidden : LayoutOutput Rat) = LayoutOutput.hidden := by
  simp only [LayoutOutput.hidden, scale_lo_mk, scale_size_mk, scale_point_mk, scale_zero, scale_none, scale_ms_zero]
@[scale_simp] theorem scale_l_withOrder (k : Rat) (o : Nat) : scale k (Layout.withOrder o : Layout Rat) = Layout.withOrder o := by
  simp only [Layout.withOrder, scale_l_mk, scale_size_mk, scale_point_mk, scale_rect_mk, scale_zero]
@[scale_simp] theorem scale_l_new (k : Rat) : scale k (Layout.new : Layout Rat) = Layout.new := scale_l_withOrder k 0
@[scale_simp] theorem scale_li_hidden (k : Rat) : scale k (LayoutInput.hidden : LayoutInput Rat) = LayoutInput.hidden := rfl

@[scale_simp] theorem ite_scale_zero (k : Rat) (c : Prop) [Decidable c] (a : Rat) :
    (if c then scale k a else 0) = scale k (if c then a else 0) := by
  split <;> simp only [scale_zero]
@[scale_simp] theorem ite_zero_scale (k : Rat) (c : Prop) [Decidable c] (a : Rat) :
    (if c then 0 else scale k a) = scale k (if c then 0 else a) := by
  split <;> simp only [scale_zero]
@[scale_simp] theorem ite_scale_sizeZero (k : Rat) (c : Prop) [Decidable c] (a : Size Rat) :
    (if c then scale k a else Size.zero) = scale k (if c then a else Size.zero) := by
  split <;> simp only [scale_size_zero]
@[scale_simp] theorem ite_sizeZero_scale (k : Rat) (c : Prop) [Decidable c] (a : Size Rat) :
    (if c then Size.zero else scale k a) = scale k (if c then Size.zero else a) := by
  split <;> simp only [scale_size_zero]
@[scale_simp] theorem ite_scale_sizeNone (k : Rat) (c : Prop) [Decidable c] (a : Size (Option Rat)) :
    (if c then scale k a else Size.none) = scale k (if c then a else Size.none) := by
  split <;> rfl
@[scale_simp] theorem ite_sizeNone_scale (k : Rat) (c : Prop) [Decidable c] (a : Size (Option Rat)) :
    (if c then Size.none else scale k a) = scale k (if c then Size.none else a) := by
  split <;> rfl
@[scale_simp] theorem ite_scale_none {β : Type} [Scalable β] (k : Rat) (c : Prop) [Decidable c] (a : Option β) :
    (if c then scale k a else none) = scale k (if c then a else none) := by
  split <;> rfl
@[scale_simp] theorem ite_none_scale {β : Type} [Scalable β] (k : Rat) (c : Prop) [Decidable c] (a : Option β) :
    (if c then none else scale k a) = scale k (if c then none else a) := by
  split <;> rfl

@[scale_simp] theorem ite_some_scale_none (k : Rat) (c : Prop) [Decidable c] (a : Rat) :
    (if c then some (scale k a) else none) = scale k (if c then some a else none) := by
  split <;> rfl

/-! ### composition / cancellation -/

/-- types on which `scale` is a multiplicative action -/
class LawfulScalable (β : Type) [Scalable β] : Prop where
  scale_scale : ∀ (a b : Rat) (x : β), scale a (scale b x) = scale (a * b) x
  scale_one : ∀ x : β, scale 1 x = x

export LawfulScalable (scale_scale scale_one)

instance : LawfulScalable Rat := ⟨scale_scale_rat, scale_one_rat⟩
instance : LawfulScalable Bool := ⟨fun _ _ _ => rfl, fun _ => rfl⟩
instance : LawfulScalable Nat := ⟨fun _ _ _ => rfl, fun _ => rfl⟩
instance : LawfulScalable Unit := ⟨fun _ _ _ => rfl, fun _ => rfl⟩

section lawful
variable {β γ : Type} [Scalable β] [LawfulScalable β] [Scalable γ] [LawfulScalable γ]

instance : LawfulScalable (Option β) :=
  ⟨fun a b x => by cases x <;> simp only [scale_some, scale_none, scale_scale],
   fun x => by cases x <;> simp only [scale_some, scale_none, scale_one]⟩
instance : LawfulScalable (List β) :=
  ⟨fun a b x => by induction x with
    | nil => rfl
    | cons h t ih => simp only [scale_cons, scale_scale, ih],
   fun x => by induction x with
    | nil => rfl
    | cons h t ih => simp only [scale_cons, scale_one, ih]⟩
instance : LawfulScalable (β × γ) :=
  ⟨fun a b x => by cases x; simp only [scale_pair, scale_scale],
   fun x => by cases x; simp only [scale_pair, scale_one]⟩
instance : LawfulScalable (Size β) :=
  ⟨fun a b x => by cases x; simp only [scale_size_mk, scale_scale],
   fun x => by cases x; simp only [scale_size_mk, scale_one]⟩
instance : LawfulScalable (Point β) :=
  ⟨fun a b x => by cases x; simp only [scale_point_mk, scale_scale],
   fun x => by cases x; simp only [scale_point_mk, scale_one]⟩
instance : LawfulScalable (Rect β) :=
  ⟨fun a b x => by cases x; simp only [scale_rect_mk, scale_scale],
   fun x => by cases x; simp only [scale_rect_mk, scale_one]⟩
instance : LawfulScalable (Line β) :=
  ⟨fun a b x => by cases x; simp only [scale_line_mk, scale_scale],
   fun x => by cases x; simp only [scale_line_mk, scale_one]⟩
instance : LawfulScalable (MarginSet β) :=
  ⟨fun a b x => by cases x; simp only [scale_ms_mk, scale_scale],
   fun x => by cases x; simp only [scale_ms_mk, scale_one]⟩
instance : LawfulScalable (AvailableSpace β) :=
  ⟨fun a b x => by cases x <;> simp only [scale_definite, scale_minContent, scale_maxContent, scale_scale],
   fun x => by cases x <;> simp only [scale_definite, scale_minContent, scale_maxContent, scale_one]⟩
instance : LawfulScalable (LP β) :=
  ⟨fun a b x => by cases x <;> simp only [scale_lp_length, scale_lp_percent, scale_scale],
   fun x => by cases x <;> simp only [scale_lp_length, scale_lp_percent, scale_one]⟩
instance : LawfulScalable (LPA β) :=
  ⟨fun a b x => by cases x <;> simp only [scale_lpa_length, scale_lpa_percent, scale_lpa_auto, scale_scale],
   fun x => by cases x <;> simp only [scale_lpa_length, scale_lpa_percent, scale_lpa_auto, scale_one]⟩

end lawful

instance : LawfulScalable (LayoutInput Rat) :=
  ⟨fun a b x => by cases x; simp only [scale_li_mk, scale_scale],
   fun x => by cases x; simp only [scale_li_mk, scale_one]⟩
instance : LawfulScalable (LayoutOutput Rat) :=
  ⟨fun a b x => by cases x; simp only [scale_lo_mk, scale_scale],
   fun x => by cases x; simp only [scale_lo_mk, scale_one]⟩
instance : LawfulScalable (Layout Rat) :=
  ⟨fun a b x => by cases x; simp only [scale_l_mk, scale_scale],
   fun x => by cases x; simp only [scale_l_mk, scale_one]⟩
instance : LawfulScalable (MeasureSpec Rat) :=
  ⟨fun a b x => by cases x <;> simp only [scale_fixed, scale_wrap, scale_scale],
   fun x => by cases x <;> simp only [scale_fixed, scale_wrap, scale_one]⟩

section cancel
variable {β : Type} [Scalable β] [LawfulScalable β]

theorem scale_inv_cancel {k : Rat} (hk : 0 < k) (x : β) : scale k (scale k⁻¹ x) = x := by
  rw [scale_scale, mul_inv_cancel₀ hk.ne', scale_one]
theorem scale_cancel_inv {k : Rat} (hk : 0 < k) (x : β) : scale k⁻¹ (scale k x) = x := by
  rw [scale_scale, inv_mul_cancel₀ hk.ne', scale_one]

end cancel

end C04
