/-
  C04 for grid, part 19: JOINT homogeneity of the whole `track_sizing_algorithm`, of
  `compute_explicit_grid_size_in_axis` and of `compute_grid_layout` in (lengths, the three absolute constants).
-/
import TaffyVerif.Lemmas.GridScaleSz3
import TaffyVerif.Lemmas.GridScaleTop2
import TaffyVerif.Lemmas.GridScaleJoint

set_option linter.unusedSectionVars false
set_option linter.unusedVariables false
set_option linter.unusedSimpArgs false

namespace C04
open Scalable GridModel GridTracks GridStages GridTheta GridRel GridScale

variable {k : Rat}

theorem scale_rs_mk (k : Rat) (a b : List (GridTrack Rat)) (c : List (GItem Rat)) :
    scale k (RunState.mk a b c) = ⟨scale k a, scale k b, scale k c⟩ := rfl

def tsTail (a : RunArgs Rat) (other trs : List (GridTrack Rat)) (its : List (GItem Rat)) (X : AvailableSpace Rat) :
    GM Rat (RunState Rat) :=
  expandFlexibleTracksM a.axis trs its a.axisMinSize a.axisMaxSize X a.innerNodeSize >>= fun x =>
    pure (RunState.mk (if a.axisAlignment == .stretch then stretchAutoTracks x.2 a.axisMinSize X else x.2) other x.1)

theorem tsTail_sim (hk : 0 < k) (a : RunArgs Rat) (other trs : List (GridTrack Rat)) (its : List (GItem Rat))
    (X : AvailableSpace Rat) :
    GSim k (fun r' r => r' = scale k r ∧ TPs (fun _ => True) r.axisTracks ∧ TPs (fun _ => True) r.otherAxisTracks)
      (tsTail (scale k a) (scale k other) (scale k trs) (scale k its) (scale k X)) (tsTail a other trs its X) := by
  unfold tsTail
  simp only [ra_axis, ra_innerNodeSize, ra_axisMinSize, ra_axisMaxSize, ra_axisAlignment]
  refine GSim.bind (expandFlexibleTracksM_sim hk _ _ _ _ _ _ _) fun e' e he => ?_
  rw [show e' = scale k e from he]
  obtain ⟨its2, trs2⟩ := e
  simp only [scale_pair]
  refine GSim.pure ⟨?_, fun _ _ => trivial, fun _ _ => trivial⟩
  by_cases hs : (a.axisAlignment == AlignContent.stretch) = true
  · simp only [hs, if_true]
    rw [stretchAutoTracks_scale hk]
    rfl
  · simp only [hs, if_false]
    rfl

/-- **trackSizingT_hom**: `track_sizing_algorithm` with thresholds `k·θd`, `k·θi` on the scaled state is the scaled
run with thresholds `θd`, `θi` — on EVERY state (no side condition) -/
theorem trackSizingT_hom (hk : 0 < k) (θd θi : Rat) :
    TSHom k (fun _ => True) (trackSizingAlgorithmT (scale k θd) (scale k θi)) (trackSizingAlgorithmT θd θi) := by
  intro a st _ _
  unfold trackSizingAlgorithmT
  dsimp only
  simp only [ra_axis, ra_innerNodeSize, ra_hasBaselineAlignedItem, ra_otherAxisAlignment, ra_est,
    ra_availableGridSpace, ra_axisMinSize, ra_axisMaxSize, ra_axisAlignment, rs_axisTracks, rs_otherAxisTracks,
    rs_items, sget_scale, initializeTrackSizes_scale hk]
  refine GSim.bind (Q := Sc k) ?_ fun l' l hl => ?_
  · refine GSim.ite ?_ ?_
    · exact resolveItemBaselines_sim hk _ _ _
    · exact GSim.pure rfl
  · rw [show l' = scale k l from hl,
      all_scale_list k _ (fun t : GridTrack Rat => t.growthLimit.eqF t.baseSize)
        (fun t : GridTrack Rat => t.growthLimit.eqF t.baseSize)
        (fun t => by rw [gt_growthLimit, gt_baseSize, ext_eqF hk])]
    refine GSim.ite ?_ ?_
    · exact GSim.pure ⟨rfl, fun _ _ => trivial, fun _ _ => trivial⟩
    · rw [computeAlignmentGutterAdjustment_scale hk, setGutterAdjustment_scale]
      have hsz : (Sizer.mk (scale k (setGutterAdjustment (computeAlignmentGutterAdjustment a.otherAxisAlignment
            (sget a.innerNodeSize a.axis.other) a.est st.otherAxisTracks) st.otherAxisTracks)) a.est a.axis
            (scale k a.innerNodeSize) : Sizer Rat) =
          scale k (Sizer.mk (setGutterAdjustment (computeAlignmentGutterAdjustment a.otherAxisAlignment
            (sget a.innerNodeSize a.axis.other) a.est st.otherAxisTracks) st.otherAxisTracks) a.est a.axis
            a.innerNodeSize) := rfl
      rw [hsz]
      refine GSim.bind (resolveIntrinsicTrackSizesT_sim hk θd θi _ _ l _) fun r' r hr => ?_
      rw [show r' = scale k r from hr]
      obtain ⟨its, trs⟩ := r
      simp only [scale_pair]
      rw [maximiseTracksT_scale hk]
      generalize sget a.innerNodeSize a.axis = ai
      generalize sget a.availableGridSpace a.axis = av
      cases ai with
      | some v => exact tsTail_sim hk a _ _ _ (.definite v)
      | none =>
        cases av with
        | definite v => exact tsTail_sim hk a _ _ _ .maxContent
        | minContent => exact tsTail_sim hk a _ _ _ .minContent
        | maxContent => exact tsTail_sim hk a _ _ _ .maxContent

/-! ### `compute_explicit_grid_size_in_axis` with the 1px substitute as a parameter -/

theorem numRepetitionsT_scale (hk : 0 < k) (one : Rat) (size maxSize : Dimension Rat) (gap : LP Rat)
    (tpl : List (TrackDef Rat)) (repDef : List (TrackFn Rat)) (nonAuto : Nat) (inner : Option Rat) :
    numRepetitionsT (scale k one) (scale k size) (scale k maxSize) (scale k gap) (scale k tpl) (scale k repDef) nonAuto
      (scale k inner) = numRepetitionsT one size maxSize gap tpl repDef nonAuto inner := by
  unfold numRepetitionsT
  rw [dimIsSome_scale, dimIsSome_scale, length_scale_list]
  cases inner with
  | none => rfl
  | some v =>
    simp only [scale_some]
    rw [show some (scale k v) = scale k (some v) from rfl,
      map_scale_list k tpl _ _ (fun d => nonRepeatingUsed_scale hk (some v) d), allSome_scale]
    cases hu : allSome (tpl.map (nonRepeatingUsed (some v))) with
    | none => rfl
    | some usedL =>
      simp only [scale_simp, scale_option, Option.map]
      rw [show some (scale k v) = scale k (some v) from rfl,
        map_scale_list k repDef _ _ (fun f => trackDefiniteValue_scale hk f (some v)), allSome_scale]
      cases hp : allSome (repDef.map fun f => trackDefiniteValue f (some v)) with
      | none => rfl
      | some perRepL =>
        simp only [scale_simp, scale_option, Option.map, gsumF_scale, LP.resolveOrZero_scale_some, ofNat_mul_scale,
          add_scale, sub_scale, flt_scale hk, fgt_scale_zero hk]
        split
        · rfl
        · split
          · rfl
          · have hdiv : ∀ a b : Rat, scale k (a / scale k b) = a / b := by
              intro a b
              simp only [scale_rat]
              rw [← mul_div_assoc, mul_div_mul_left _ _ hk.ne']
            have hite : ∀ (c : Bool) (x y : Rat), (if c = true then scale k x else scale k y) =
                scale k (if c = true then x else y) := by
              intro c x y; cases c <;> rfl
            simp only [hite, hdiv]

theorem computeExplicitT_scale (hk : 0 < k) (one : Rat) (size maxSize : Dimension Rat) (gap : LP Rat)
    (tpl : List (TrackDef Rat)) (inner : Option Rat) :
    computeExplicitT (scale k one) (scale k size) (scale k maxSize) (scale k gap) (scale k tpl) (scale k inner) =
      computeExplicitT one size maxSize gap tpl inner := by
  unfold computeExplicitT
  rw [isEmpty_scale_list, hasZeroRep_scale, nonAutoRepeatingTrackCount_scale, filter_autoRep_scale, allFixed_scale,
    findAutoRepetition_scale]
  cases hf : findAutoRepetition tpl with
  | none => rfl
  | some repDef =>
    rw [show scale k (some repDef) = some (scale k repDef) from rfl]
    have := numRepetitionsT_scale hk one size maxSize gap tpl repDef
    simp only [this, length_scale_list]

/-- **gridAlgT_scale**: `compute_grid_layout` is JOINTLY homogeneous in (lengths, the three absolute constants), for
every container, child list and input -/
theorem gridAlgT_scale (hk : 0 < k) (one θd θi : Rat) (s : Style Rat) (cs : List (Style Rat)) (inp : LayoutInput Rat) :
    gridAlgT (scale k one) (scale k θd) (scale k θi) (gscale k s) (cs.map (gscale k)) (scale k inp) =
      scaleProg k (gridAlgT one θd θi s cs inp) :=
  gridAlgG_scale (FT := fun _ => True) ⟨fun _ _ _ _ _ => trivial⟩ (trackSizingT_hom hk θd θi) hk _ _ s cs inp
    (computeExplicitT_scale hk one _ _ _ _ _) (computeExplicitT_scale hk one _ _ _ _ _)
    (fun _ _ _ _ _ _ => trivial) (fun _ _ _ _ _ _ => trivial)

end C04
