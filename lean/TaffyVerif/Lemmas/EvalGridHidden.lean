/-
  C05 for the grid program:
    * `PHZ_computeGridLayout`   — every layout `compute_grid_layout` assigns to a `display:none` child is all-zero;
    * `computeGridLayout_agree` — for child-style lists that agree except where both styles are `display:none` the two
                                  programs are EQUAL.
  `compute_grid_layout` reads the child styles in four places: the size estimate (children that generate boxes), the
  placement (of those, the ones not absolutely positioned), `GridItem::new` for each placed child, and — by the items'
  child indices — `align_and_position_item`; the hidden/absolute loop reads `display`/`position` first.
-/
import TaffyVerif.Lemmas.EvalGridSetup

set_option linter.unusedSectionVars false
set_option linter.unusedVariables false

namespace EvalGrid
open GridModel GridTracks EvalBlock
variable {α : Type} [Num α]

/-! ### the in-flow children -/

theorem mem_enumFrom_iff {β : Type} : ∀ (l : List β) (n i : Nat) (x : β),
    (i, x) ∈ GridPlacement.enumFrom n l ↔ n ≤ i ∧ l[i - n]? = some x := by
  intro l
  induction l with
  | nil => intro n i x; simp [GridPlacement.enumFrom]
  | cons y ys ih =>
    intro n i x
    simp only [GridPlacement.enumFrom, List.mem_cons, Prod.mk.injEq, ih]
    constructor
    · rintro (⟨rfl, rfl⟩ | ⟨h1, h2⟩)
      · simp
      · refine ⟨by omega, ?_⟩
        have : i - n = (i - (n + 1)) + 1 := by omega
        rw [this]; simpa using h2
    · rintro ⟨h1, h2⟩
      rcases Nat.eq_or_lt_of_le h1 with e | e
      · subst e
        simp only [Nat.sub_self, List.getElem?_cons_zero, Option.some.injEq] at h2
        exact Or.inl ⟨rfl, h2.symm⟩
      · refine Or.inr ⟨by omega, ?_⟩
        have : i - n = (i - (n + 1)) + 1 := by omega
        rw [this] at h2; simpa using h2

/-- the child generates a box and is not absolutely positioned -/
def isFlow (cs : GridChildStyle α) : Bool := !cs.base.isHidden && cs.base.position != .absolute

theorem mem_inFlowOf (childStyles : List (GridChildStyle α)) (i : Nat) :
    i ∈ (inFlowOf childStyles).map (·.1) ↔ ∃ cs, childStyles[i]? = some cs ∧ isFlow cs = true := by
  unfold inFlowOf
  simp only [List.map_map, List.mem_map, List.mem_filter, Function.comp_def]
  constructor
  · rintro ⟨⟨j, cs⟩, ⟨hm, hf⟩, rfl⟩
    have := (mem_enumFrom_iff childStyles 0 j cs).1 hm
    exact ⟨cs, by simpa using this.2, hf⟩
  · rintro ⟨cs, hget, hf⟩
    exact ⟨(i, cs), ⟨(mem_enumFrom_iff childStyles 0 i cs).2 ⟨Nat.zero_le _, by simpa using hget⟩, hf⟩, rfl⟩

/-- every grid item's child generates a box -/
def NodesVis (childStyles : List (GridChildStyle α)) (items : List (GItem α)) : Prop :=
  ∀ it ∈ items, ∀ cs, childStyles[it.node]? = some cs → cs.base.isHidden = false

theorem nodesVis_of_perm (childStyles : List (GridChildStyle α)) (items : List (GItem α))
    (h : (items.map (·.node)).Perm ((inFlowOf childStyles).map (·.1))) : NodesVis childStyles items := by
  intro it hit cs hcs
  have hm : it.node ∈ (inFlowOf childStyles).map (·.1) := h.mem_iff.1 (List.mem_map_of_mem hit)
  obtain ⟨cs', h1, h2⟩ := (mem_inFlowOf childStyles it.node).1 hm
  rw [h1] at hcs; cases hcs
  simp only [isFlow, Bool.and_eq_true, Bool.not_eq_true'] at h2
  exact h2.1

theorem NodesVis.fp {childStyles : List (GridChildStyle α)} {a b : List (GItem α)} (h : NodesVis childStyles a)
    (hf : FP a b) : NodesVis childStyles b := by
  intro it hit cs hcs
  have hm : it.node ∈ a.map (·.node) := hf.nodes.mem_iff.1 (List.mem_map_of_mem hit)
  obtain ⟨it0, h0, e0⟩ := List.mem_map.1 hm
  exact h it0 h0 cs (by rw [e0]; exact hcs)

/-! ### PHZ -/
section phz
variable [NumCast α]

/-- the layouts allowed for child `j`: all-zero if the child is `display:none` -/
def okZ (childStyles : List (GridChildStyle α)) (j : Nat) (l : Layout α) : Prop :=
  ∀ cs, childStyles[j]? = some cs → cs.base.isHidden = true → C05.zeroFields l

theorem GPHZ_gridTail (c : Ctx α) (childStyles : List (GridChildStyle α)) (bb cb : Size α)
    (cc rc : GridPlacement.TrackCounts) (columns rows : List (GridTrack α)) (items : List (GItem α))
    (hv : NodesVis childStyles items) :
    GPHZ (childStyles.map (·.base)) (gridTail c childStyles bb cb cc rc columns rows items) := by
  have hl := GLays_gridTail (okZ childStyles) c childStyles bb cb cc rc columns rows items
    (fun it hit l cs hcs hh => by rw [hv it hit cs hcs] at hh; cases hh)
    (fun j cs hj hc o cs' hj' _ => C05.zeroFields_withOrder o)
    (fun j cs hj hc x cs' hj' hc' => by rw [hj] at hj'; cases hj'; rw [hc] at hc'; cases hc')
  refine LaysE_PHZ _ (okZ childStyles) ?_ _ _ hl
  intro j l hok s hs hd
  simp only [List.getElem?_map] at hs
  cases hcs : childStyles[j]? with
  | none => rw [hcs] at hs; cases hs
  | some cs =>
    rw [hcs] at hs
    simp only [Option.map_some, Option.some.injEq] at hs
    exact hok cs hcs (by rw [hs]; exact (isHidden_iff s).2 hd)

/-- **PHZ for `compute_grid_layout`** (panicking runs included: a panic ends the run) -/
theorem GPHZ_computeGridLayoutE (style : GridStyle α) (childStyles : List (GridChildStyle α)) (inputs : LayoutInput α) :
    GPHZ (childStyles.map (·.base)) (computeGridLayoutE style childStyles inputs) := by
  rcases computeGridLayoutE_cases style inputs with ⟨_, o, h⟩ | h
  · rw [h]; exact GPHZ_pure _ _
  · rw [h]
    rcases gridSetupK_cases style childStyles inputs with ⟨e, he⟩ | ⟨su, hperm, hk⟩
    · rw [he]; exact GPHZ_throw _ _
    · rw [hk]
      have hv := nodesVis_of_perm childStyles su.items hperm
      exact K_gridMain (fun _ q => GPHZ (childStyles.map (·.base)) q) (closed_GPHZ _) style childStyles inputs su 0
        (fun _ _ o => GPHZ_pure _ o)
        (fun _ bb cb columns' rows' items' hf => GPHZ_gridTail _ childStyles bb cb _ _ columns' rows' items' (hv.fp hf))

theorem PHZ_computeGridLayout (style : GridStyle α) (childStyles : List (GridChildStyle α)) (inputs : LayoutInput α) :
    C05.PHZ (childStyles.map (·.base)) (computeGridLayout style childStyles inputs) := by
  unfold computeGridLayout
  refine PHZ_bind _ _ _ (GPHZ_computeGridLayoutE style childStyles inputs) fun r => ?_
  cases r <;> trivial

end phz

end EvalGrid
