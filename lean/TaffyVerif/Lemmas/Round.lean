/-
  Lemmas for C13 (pixel rounding): facts about half-away-from-zero rounding on `Rat`, the vocabulary the theorems
  are stated in (paths, absolute edges, integrality), and the structural lemmas about `roundInner`.
-/
import Mathlib.Tactic.Linarith
import Mathlib.Tactic.Ring
import Mathlib.Tactic.NormNum
import Mathlib.Tactic.Push
import TaffyVerif.Model.Round

namespace RoundLemmas
open RoundModel

/-! ### vocabulary -/

/-- `q` is a whole number -/
def IsInt (q : Rat) : Prop := ∃ z : Int, q = (z : Rat)

/-- `q` lies exactly on a half pixel: `n + 1/2` -/
def IsHalf (q : Rat) : Prop := ∃ z : Int, q = (z : Rat) + 1 / 2

/-- Rust `f32::round` at exact rationals (`Num.round` of the `Rat` instance) -/
abbrev rnd (q : Rat) : Rat := RatNum.round q

/-- sum of the `location`s (on axis `ax`) of the **proper ancestors** of the node at path `p`, root first -/
def off (ax : Axis) : LTree Rat → List Nat → Rat
  | _, [] => 0
  | .node l cs, i :: p =>
    match cs[i]? with
    | some c => l.loc ax + off ax c p
    | none => 0

/-- every **proper ancestor** of the node at path `p` has an integral unrounded `location` on axis `ax` -/
def AncInt (ax : Axis) : LTree Rat → List Nat → Prop
  | _, [] => True
  | .node l cs, i :: p =>
    match cs[i]? with
    | some c => IsInt (l.loc ax) ∧ AncInt ax c p
    | none => True

/-- the cumulative coordinate selected by the axis -/
def sel (ax : Axis) (cx cy : Rat) : Rat := match ax with | .x => cx | .y => cy

/-! ### floor and round on `Rat` -/

theorem floor_eq_of {q : Rat} {z : Int} (h1 : (z : Rat) ≤ q) (h2 : q < (z : Rat) + 1) : q.floor = z := by
  have a : z ≤ q.floor := Rat.le_floor_iff.mpr h1
  have b : q.floor < z + 1 := Rat.floor_lt_iff.mpr (by push_cast; exact h2)
  omega

theorem floor_le' (q : Rat) : ((q.floor : Int) : Rat) ≤ q := Rat.floor_le q
theorem lt_floor_add_one' (q : Rat) : q < ((q.floor : Int) : Rat) + 1 := by
  have := Rat.lt_floor_add_one q
  push_cast at this
  exact this

theorem rnd_nonneg {q : Rat} (h : 0 ≤ q) : rnd q = (((q + 1 / 2).floor : Int) : Rat) := by
  unfold rnd RatNum.round
  rw [if_neg (not_lt.mpr h)]

theorem rnd_neg {q : Rat} (h : q < 0) : rnd q = ((-((-q) + 1 / 2).floor : Int) : Rat) := by
  unfold rnd RatNum.round
  rw [if_pos h]

/-- the result of `round` is a whole number -/
theorem rnd_isInt (q : Rat) : IsInt (rnd q) := by
  by_cases h : q < 0
  · exact ⟨_, rnd_neg h⟩
  · exact ⟨_, rnd_nonneg (not_lt.mp h)⟩

/-- `round` moves a number by at most half a pixel -/
theorem rnd_bounds (q : Rat) : q - 1 / 2 ≤ rnd q ∧ rnd q ≤ q + 1 / 2 := by
  by_cases h : q < 0
  · rw [rnd_neg h]
    have a := floor_le' (-q + 1 / 2)
    have b := lt_floor_add_one' (-q + 1 / 2)
    push_cast
    constructor <;> linarith
  · rw [rnd_nonneg (not_lt.mp h)]
    have a := floor_le' (q + 1 / 2)
    have b := lt_floor_add_one' (q + 1 / 2)
    constructor <;> linarith

/-- explicit evaluation of `round` (for concrete examples): `z − 1/2 ≤ q < z + 1/2` and `0 ≤ q` -/
theorem rnd_eq_of_nonneg {q : Rat} {z : Int} (h : 0 ≤ q) (h1 : (z : Rat) - 1 / 2 ≤ q) (h2 : q < (z : Rat) + 1 / 2) :
    rnd q = (z : Rat) := by
  rw [rnd_nonneg h, floor_eq_of (z := z) (by linarith) (by linarith)]

/-- explicit evaluation of `round` for negative numbers: `z − 1/2 < q ≤ z + 1/2` and `q < 0` -/
theorem rnd_eq_of_neg {q : Rat} {z : Int} (h : q < 0) (h1 : (z : Rat) - 1 / 2 < q) (h2 : q ≤ (z : Rat) + 1 / 2) :
    rnd q = (z : Rat) := by
  rw [rnd_neg h, floor_eq_of (z := -z) (by push_cast; linarith) (by push_cast; linarith)]
  simp

/-- off the half pixels, half-away-from-zero is `⌊q + 1/2⌋` whatever the sign -/
theorem rnd_eq_floor_of_not_half {q : Rat} (h : ¬ IsHalf q) : rnd q = (((q + 1 / 2).floor : Int) : Rat) := by
  by_cases hq : q < 0
  · rw [rnd_neg hq]
    have a := floor_le' (-q + 1 / 2)
    have b := lt_floor_add_one' (-q + 1 / 2)
    have hne : q ≠ ((-(-q + 1 / 2).floor : Int) : Rat) + 1 / 2 := fun e => h ⟨_, e⟩
    have e : (q + 1 / 2).floor = -(-q + 1 / 2).floor := by
      apply floor_eq_of
      · push_cast; linarith
      · push_cast
        push_cast at hne
        rcases lt_or_gt_of_ne hne with h' | h'
        · linarith
        · linarith
    rw [e]
  · exact rnd_nonneg (not_lt.mp hq)

theorem isHalf_int_add {z : Int} {q : Rat} : IsHalf ((z : Rat) + q) ↔ IsHalf q := by
  constructor
  · rintro ⟨w, hw⟩
    exact ⟨w - z, by push_cast; linarith⟩
  · rintro ⟨w, hw⟩
    exact ⟨z + w, by push_cast; linarith⟩

/-- `round` commutes with whole-pixel shifts off the half pixels -/
theorem rnd_int_add {z : Int} {q : Rat} (h : ¬ IsHalf q) : rnd ((z : Rat) + q) = (z : Rat) + rnd q := by
  rw [rnd_eq_floor_of_not_half h, rnd_eq_floor_of_not_half (mt isHalf_int_add.mp h)]
  have : (z : Rat) + q + 1 / 2 = (q + 1 / 2) + (z : Rat) := by ring
  rw [this, Rat.floor_add_intCast]
  push_cast
  ring

/-- without sign change, `round` commutes with whole-pixel shifts even on the half pixels -/
theorem rnd_int_add_nonneg {z : Int} {q : Rat} (h1 : 0 ≤ q) (h2 : 0 ≤ (z : Rat) + q) : rnd ((z : Rat) + q) = (z : Rat) + rnd q := by
  rw [rnd_nonneg h1, rnd_nonneg h2]
  have : (z : Rat) + q + 1 / 2 = (q + 1 / 2) + (z : Rat) := by ring
  rw [this, Rat.floor_add_intCast]
  push_cast
  ring

/-- whole numbers are fixed by `round` -/
theorem rnd_int (z : Int) : rnd (z : Rat) = (z : Rat) := by
  by_cases h : (z : Rat) < 0
  · exact rnd_eq_of_neg h (by linarith) (by linarith)
  · exact rnd_eq_of_nonneg (not_lt.mp h) (by linarith) (by linarith)

theorem rnd_of_isInt {q : Rat} (h : IsInt q) : rnd q = q := by
  obtain ⟨z, rfl⟩ := h
  exact rnd_int z

theorem IsInt.sub {a b : Rat} (ha : IsInt a) (hb : IsInt b) : IsInt (a - b) := by
  obtain ⟨x, rfl⟩ := ha
  obtain ⟨y, rfl⟩ := hb
  exact ⟨x - y, by push_cast; ring⟩

theorem IsInt.add {a b : Rat} (ha : IsInt a) (hb : IsInt b) : IsInt (a + b) := by
  obtain ⟨x, rfl⟩ := ha
  obtain ⟨y, rfl⟩ := hb
  exact ⟨x + y, by push_cast; ring⟩

theorem isInt_zero : IsInt 0 := ⟨0, by simp⟩

/-- difference of two rounded edges against the unrounded extent -/
theorem rnd_diff_within_one (a b : Rat) : |rnd a - rnd b - (a - b)| ≤ 1 := by
  have ha := rnd_bounds a
  have hb := rnd_bounds b
  rw [abs_le]
  constructor <;> linarith

theorem rnd_within_half (a : Rat) : |rnd a - a| ≤ 1 / 2 := by
  have ha := rnd_bounds a
  rw [abs_le]
  constructor <;> linarith

/-- an extent taken as `round(c + e) − round(c)` -/
theorem near_extent_within (c e : Rat) : |rnd (c + e) - rnd c - e| ≤ 1 := by
  have := rnd_diff_within_one (c + e) c
  simpa using this

theorem far_extent_within (c e : Rat) : |rnd c - rnd (c - e) - e| ≤ 1 := by
  have := rnd_diff_within_one c (c - e)
  simpa using this

/-! ### concrete values used by the witnesses -/

theorem rnd_neg_two : rnd (-2 : Rat) = -2 := by
  have := rnd_int (-2); push_cast at this; exact this
theorem rnd_neg_one : rnd (-1 : Rat) = -1 := by
  have := rnd_int (-1); push_cast at this; exact this
theorem rnd_zero : rnd (0 : Rat) = 0 := by
  have := rnd_int 0; push_cast at this; exact this
theorem rnd_neg_half : rnd (-1 / 2 : Rat) = -1 := by
  have := rnd_eq_of_neg (q := -1 / 2) (z := -1) (by norm_num) (by norm_num) (by norm_num)
  push_cast at this; exact this
theorem rnd_half : rnd (1 / 2 : Rat) = 1 := by
  have := rnd_eq_of_nonneg (q := 1 / 2) (z := 1) (by norm_num) (by norm_num) (by norm_num)
  push_cast at this; exact this

theorem not_half_of_den {q : Rat} (k : Int) (h : 4 * q = (k : Rat)) (hk : k % 4 ≠ 2) : ¬ IsHalf q := by
  rintro ⟨z, hz⟩
  have h2 : (k : Rat) = ((4 * z + 2 : Int) : Rat) := by push_cast; rw [← h, hz]; ring
  have h3 : k = 4 * z + 2 := by exact_mod_cast h2
  omega

/-! ### one node -/

section node
variable (u : Layout Rat) (cx cy : Rat)

theorem roundNode_loc (ax : Axis) : (roundNode u cx cy).loc ax = rnd (u.loc ax) := by
  cases ax <;> rfl

theorem roundNode_ext (ax : Axis) :
    (roundNode u cx cy).ext ax = rnd (sel ax cx cy + u.ext ax) - rnd (sel ax cx cy) := by
  cases ax <;> rfl

end node

/-! ### the recursion -/

theorem roundForest_eq_map (cs : List (LTree Rat)) (cx cy : Rat) :
    roundForest cs cx cy = cs.map (fun c => roundInner c cx cy) := by
  induction cs with
  | nil => simp [roundForest]
  | cons c cs ih => simp [roundForest, ih]

theorem roundInner_node (u : Layout Rat) (cs : List (LTree Rat)) (cx cy : Rat) :
    roundInner (.node u cs) cx cy =
      .node (roundNode u (cx + u.location.x) (cy + u.location.y))
        (cs.map (fun c => roundInner c (cx + u.location.x) (cy + u.location.y))) := by
  simp [roundInner, roundForest_eq_map]

/-- the subtree of the rounded tree at path `p` is the rounding of the subtree at `p`, started at the cumulative offset of `p` -/
theorem get?_roundInner (p : List Nat) : ∀ (t : LTree Rat) (cx cy : Rat),
    (roundInner t cx cy).get? p = (t.get? p).map (fun s => roundInner s (cx + off .x t p) (cy + off .y t p)) := by
  induction p with
  | nil => intro t cx cy; simp [LTree.get?, off]
  | cons i p ih =>
    intro t cx cy
    cases t with
    | node u cs =>
      rw [roundInner_node]
      simp only [LTree.get?, off, List.getElem?_map]
      cases h : cs[i]? with
      | none => simp
      | some c =>
        simp only [Option.map_some]
        rw [ih]
        simp only [Layout.loc, add_assoc]

/-- rounding keeps the shape: a path exists in the rounded tree iff it exists in the unrounded one -/
theorem get?_roundLayout_isSome (t : LTree Rat) (p : List Nat) :
    ((roundLayout t).get? p).isSome = (t.get? p).isSome := by
  unfold roundLayout
  rw [get?_roundInner]
  simp

/-- the layout written for the node at path `p` -/
theorem layout_at (t : LTree Rat) (p : List Nat) (s r : LTree Rat)
    (hs : t.get? p = some s) (hr : (roundLayout t).get? p = some r) :
    r.layout = roundNode s.layout (off .x t p + s.layout.location.x) (off .y t p + s.layout.location.y) := by
  unfold roundLayout at hr
  rw [get?_roundInner, hs] at hr
  simp only [Option.map_some, Option.some.injEq] at hr
  subst hr
  cases s with
  | node u cs =>
    rw [roundInner_node]
    simp [LTree.layout]

/-- with integral proper ancestors the rounded locations of the ancestors add up to the unrounded ones, a whole number -/
theorem off_round (ax : Axis) (p : List Nat) : ∀ (t : LTree Rat) (cx cy : Rat), AncInt ax t p →
    off ax (roundInner t cx cy) p = off ax t p ∧ IsInt (off ax t p) := by
  induction p with
  | nil => intro t cx cy _; exact ⟨by simp [off], by simpa [off] using isInt_zero⟩
  | cons i p ih =>
    intro t cx cy h
    cases t with
    | node u cs =>
      rw [roundInner_node]
      simp only [off, AncInt, List.getElem?_map] at h ⊢
      cases hc : cs[i]? with
      | none => simp [isInt_zero]
      | some c =>
        rw [hc] at h
        simp only [Option.map_some]
        obtain ⟨h1, h2⟩ := h
        obtain ⟨e1, e2⟩ := ih c (cx + u.location.x) (cy + u.location.y) h2
        rw [e1, roundNode_loc, rnd_of_isInt h1]
        exact ⟨rfl, h1.add e2⟩

/-- `AncInt` says what it should: it follows from integrality of the node at every proper prefix of the path -/
theorem ancInt_of_prefixes (ax : Axis) (p : List Nat) : ∀ (t : LTree Rat),
    (∀ q s a, q ++ s = p → s ≠ [] → t.get? q = some a → IsInt (a.layout.loc ax)) → AncInt ax t p := by
  induction p with
  | nil => intro t _; simp [AncInt]
  | cons i p ih =>
    intro t h
    cases t with
    | node u cs =>
      simp only [AncInt]
      cases hc : cs[i]? with
      | none => trivial
      | some c =>
        refine ⟨?_, ?_⟩
        · exact h [] (i :: p) (.node u cs) rfl (by simp) (by simp [LTree.get?])
        · apply ih
          intro q s a hqs hs ha
          exact h (i :: q) s a (by simp [hqs]) hs (by simp [LTree.get?, hc, ha])

/-! ### paths reach every node -/

mutual
/-- every layout in the preorder listing of a tree sits at some path -/
theorem mem_flatten (t : LTree Rat) (l : Layout Rat) (h : l ∈ t.flatten) :
    ∃ p s, t.get? p = some s ∧ s.layout = l :=
  match t, h with
  | .node u cs, h => by
    simp only [LTree.flatten, List.mem_cons] at h
    rcases h with rfl | h
    · exact ⟨[], .node l cs, rfl, rfl⟩
    · obtain ⟨i, c, hc, p, s, hp, hl⟩ := mem_flattenForest cs l h
      exact ⟨i :: p, s, by simp [LTree.get?, hc, hp], hl⟩
theorem mem_flattenForest (cs : List (LTree Rat)) (l : Layout Rat) (h : l ∈ LTree.flattenForest cs) :
    ∃ (i : Nat) (c : LTree Rat), cs[i]? = some c ∧ ∃ (p : List Nat) (s : LTree Rat), c.get? p = some s ∧ s.layout = l :=
  match cs, h with
  | [], h => by simp [LTree.flattenForest] at h
  | c :: cs, h => by
    simp only [LTree.flattenForest, List.mem_append] at h
    rcases h with h | h
    · obtain ⟨p, s, hp, hl⟩ := mem_flatten c l h
      exact ⟨0, c, rfl, p, s, hp, hl⟩
    · obtain ⟨i, c', hc, rest⟩ := mem_flattenForest cs l h
      exact ⟨i + 1, c', by simpa using hc, rest⟩
end

end RoundLemmas
