/-
  Relational reasoning about the grid interaction programs (`GridModel.GM α = ExceptT String (ProgM α)`).

  `PRel w Q p q` — two interaction programs are related in the "world" `w`:
      * calls to children outside `w.abs` match one for one (same child, same input) and the continuations are related
        for every pair of answers related by `w.RO`;
      * `setLayout`s to children match with layouts related by `w.RL`;
      * a `call`/`setLayout` addressed to a `w.abs` child may occur on either side alone;
      * results related by `Q`.
  Two instances are used:
      `World.eq`       no `abs` child, answers and layouts equal         ⇒  `PRel` with `Q = Eq` is EQUALITY of programs (C12)
      `World.absW abs` answers `C06.OutEqv`, layouts `C06.LayEqv`        ⇒  `PRel` is `C06.AbsEquiv`            (C06)
  `GRel w Q` is the same for `GM` programs: `.ok` results related by `Q`, panics equal.
-/
import TaffyVerif.Model.Grid
import TaffyVerif.Lemmas.EvalAbs

set_option linter.unusedSectionVars false

namespace GridRel
open GridModel
variable {α : Type} [Num α]

/-! ### interaction programs form a lawful monad (so does `GM α = ExceptT String (ProgM α)`) -/

theorem prog_bind_pure {β : Type} (p : ProgM α β) : ProgM.bind p ProgM.pure = p := by
  induction p with
  | pure b => rfl
  | call i inp c ih => simp only [ProgM.bind, ih]
  | setLayout i l c ih => simp only [ProgM.bind, ih]

theorem prog_bind_assoc {β γ δ : Type} (p : ProgM α β) (f : β → ProgM α γ) (g : γ → ProgM α δ) :
    ProgM.bind (ProgM.bind p f) g = ProgM.bind p fun b => ProgM.bind (f b) g := by
  induction p with
  | pure b => rfl
  | call i inp c ih => simp only [ProgM.bind, ih]
  | setLayout i l c ih => simp only [ProgM.bind, ih]

instance : LawfulMonad (ProgM α) := LawfulMonad.mk' (m := ProgM α)
  (id_map := fun x => prog_bind_pure x)
  (pure_bind := fun _ _ => rfl)
  (bind_assoc := fun x f g => prog_bind_assoc x f g)

structure World (α : Type) where
  abs : Nat → Prop
  RO : LayoutOutput α → LayoutOutput α → Prop
  RL : Layout α → Layout α → Prop
  /-- `PRelW` only (C06): a run that has panicked on the left is related to every run -/
  errL : Prop := False
  /-- `PRelW` only (C06): a run that has panicked on the right is related to every run -/
  errR : Prop := False

/-- answers related by `RO` have the same `size` and `first_baselines` — all the track sizing algorithm reads -/
structure World.Reads (w : World α) : Prop where
  size : ∀ a b, w.RO a b → a.size = b.size
  baselines : ∀ a b, w.RO a b → a.firstBaselines = b.firstBaselines

def World.eq : World α := { abs := fun _ => False, RO := Eq, RL := Eq }
def World.absW (abs : Nat → Prop) : World α := { abs := abs, RO := C06.OutEqv, RL := C06.LayEqv }
/-- the world of C06 in which panics on the left (`eL`) / on the right (`eR`) are tolerated -/
def World.absE (abs : Nat → Prop) (eL eR : Prop) : World α :=
  { abs := abs, RO := C06.OutEqv, RL := C06.LayEqv, errL := eL, errR := eR }

theorem World.eq_reads : (World.eq : World α).Reads := ⟨fun _ _ h => by rw [h], fun _ _ h => by rw [h]⟩
theorem World.absW_reads (abs : Nat → Prop) : (World.absW abs : World α).Reads :=
  ⟨fun _ _ h => h.1, fun _ _ h => h.2.1⟩

inductive PRel {β γ : Type} (w : World α) (Q : β → γ → Prop) : ProgM α β → ProgM α γ → Prop where
  | pure (a : β) (b : γ) : Q a b → PRel w Q (.pure a) (.pure b)
  | call (i : Nat) (inp : LayoutInput α) (kA : LayoutOutput α → ProgM α β) (kB : LayoutOutput α → ProgM α γ) :
      ¬ w.abs i → (∀ oA oB, w.RO oA oB → PRel w Q (kA oA) (kB oB)) → PRel w Q (.call i inp kA) (.call i inp kB)
  | setLayout (i : Nat) (lA lB : Layout α) (kA : Unit → ProgM α β) (kB : Unit → ProgM α γ) :
      w.RL lA lB → PRel w Q (kA ()) (kB ()) → PRel w Q (.setLayout i lA kA) (.setLayout i lB kB)
  | callL (i : Nat) (inp : LayoutInput α) (kA : LayoutOutput α → ProgM α β) (q : ProgM α γ) :
      w.abs i → (∀ o, PRel w Q (kA o) q) → PRel w Q (.call i inp kA) q
  | callR (i : Nat) (inp : LayoutInput α) (p : ProgM α β) (kB : LayoutOutput α → ProgM α γ) :
      w.abs i → (∀ o, PRel w Q p (kB o)) → PRel w Q p (.call i inp kB)
  | setL (i : Nat) (l : Layout α) (kA : Unit → ProgM α β) (q : ProgM α γ) :
      w.abs i → PRel w Q (kA ()) q → PRel w Q (.setLayout i l kA) q
  | setR (i : Nat) (l : Layout α) (p : ProgM α β) (kB : Unit → ProgM α γ) :
      w.abs i → PRel w Q p (kB ()) → PRel w Q p (.setLayout i l kB)

variable {w : World α} {β γ β' γ' : Type}

theorem PRel.bind' {Q : β → γ → Prop} {Q' : β' → γ' → Prop} {p : ProgM α β} {q : ProgM α γ} (h : PRel w Q p q)
    {f : β → ProgM α β'} {g : γ → ProgM α γ'} (hfg : ∀ a b, Q a b → PRel w Q' (f a) (g b)) :
    PRel w Q' (ProgM.bind p f) (ProgM.bind q g) := by
  induction h with
  | pure a b hab => exact hfg a b hab
  | call i inp k1 k2 hi _ ih => exact .call i inp _ _ hi (fun oA oB ho => ih oA oB ho)
  | setLayout i lA lB k1 k2 hl _ ih => exact .setLayout i lA lB _ _ hl ih
  | callL i inp k1 q hi _ ih =>
    simp only [ProgM.bind]
    exact .callL i inp _ _ hi (fun o => ih o)
  | callR i inp p k2 hi _ ih =>
    simp only [ProgM.bind]
    exact .callR i inp _ _ hi (fun o => ih o)
  | setL i l k1 q hi _ ih =>
    simp only [ProgM.bind]
    exact .setL i l _ _ hi ih
  | setR i l p k2 hi _ ih =>
    simp only [ProgM.bind]
    exact .setR i l _ _ hi ih

theorem PRel.bind {Q : β → γ → Prop} {Q' : β' → γ' → Prop} {p : ProgM α β} {q : ProgM α γ} (h : PRel w Q p q)
    {f : β → ProgM α β'} {g : γ → ProgM α γ'} (hfg : ∀ a b, Q a b → PRel w Q' (f a) (g b)) :
    PRel w Q' (p >>= f) (q >>= g) := PRel.bind' h hfg

theorem PRel.mono {Q Q' : β → γ → Prop} {p : ProgM α β} {q : ProgM α γ} (h : PRel w Q p q)
    (hq : ∀ a b, Q a b → Q' a b) : PRel w Q' p q := by
  induction h with
  | pure a b hab => exact .pure a b (hq a b hab)
  | call i inp k1 k2 hi _ ih => exact .call i inp _ _ hi ih
  | setLayout i lA lB k1 k2 hl _ ih => exact .setLayout i lA lB _ _ hl ih
  | callL i inp k1 q hi _ ih => exact .callL i inp _ _ hi ih
  | callR i inp p k2 hi _ ih => exact .callR i inp _ _ hi ih
  | setL i l k1 q hi _ ih => exact .setL i l _ _ hi ih
  | setR i l p k2 hi _ ih => exact .setR i l _ _ hi ih

/-- in the world without `abs` children and with equal answers/layouts, related programs with equal results are EQUAL -/
theorem PRel.to_eq {p q : ProgM α β} (h : PRel (World.eq : World α) Eq p q) : p = q := by
  induction h with
  | pure a b hab => rw [hab]
  | call i inp k1 k2 _ _ ih =>
    have : k1 = k2 := funext fun o => ih o o rfl
    rw [this]
  | setLayout i lA lB k1 k2 hl _ ih =>
    have hl' : lA = lB := hl
    have : k1 = k2 := funext fun u => by cases u; exact ih
    rw [hl', this]
  | callL i inp k1 q hi _ _ => exact hi.elim
  | callR i inp p k2 hi _ _ => exact hi.elim
  | setL i l k1 q hi _ _ => exact hi.elim
  | setR i l p k2 hi _ _ => exact hi.elim

/-- in the world of C06, `PRel` is `C06.AbsEquiv` -/
theorem PRel.to_absEquiv {abs : Nat → Prop} {Q : β → γ → Prop} {p : ProgM α β} {q : ProgM α γ}
    (h : PRel (World.absW abs : World α) Q p q) : C06.AbsEquiv abs Q p q := by
  induction h with
  | pure a b hab => exact .pure a b hab
  | call i inp k1 k2 hi _ ih => exact .call i inp _ _ hi ih
  | setLayout i lA lB k1 k2 hl _ ih => exact .setLayout i lA lB _ _ hl ih
  | callL i inp k1 q hi _ ih => exact .callL i inp _ _ hi ih
  | callR i inp p k2 hi _ ih => exact .callR i inp _ _ hi ih
  | setL i l k1 q hi _ ih => exact .setL i l _ _ hi ih
  | setR i l p k2 hi _ ih => exact .setR i l _ _ hi ih

/-! ### `GM` programs -/

/-- results related by `Q`, panics equal -/
def ExRel (Q : β → γ → Prop) : Except String β → Except String γ → Prop
  | .ok a, .ok b => Q a b
  | .error e, .error e' => e = e'
  | _, _ => False

def GRel (w : World α) (Q : β → γ → Prop) (p : GM α β) (q : GM α γ) : Prop := PRel w (ExRel Q) p.run q.run

theorem GRel.pure {Q : β → γ → Prop} {a : β} {b : γ} (h : Q a b) : GRel w Q (Pure.pure a : GM α β) (Pure.pure b) :=
  PRel.pure _ _ h

theorem GRel.throw {Q : β → γ → Prop} (e : String) : GRel w Q (throw e : GM α β) (throw e : GM α γ) :=
  PRel.pure _ _ rfl

theorem GRel.bind {Q : β → γ → Prop} {Q' : β' → γ' → Prop} {p : GM α β} {q : GM α γ} (h : GRel w Q p q)
    {f : β → GM α β'} {g : γ → GM α γ'} (hfg : ∀ a b, Q a b → GRel w Q' (f a) (g b)) :
    GRel w Q' (p >>= f) (q >>= g) := by
  show PRel w (ExRel Q') (p.run >>= _) (q.run >>= _)
  refine PRel.bind h fun r r' hr => ?_
  cases r with
  | ok a =>
    cases r' with
    | ok b => exact hfg a b hr
    | error e => exact hr.elim
  | error e =>
    cases r' with
    | ok b => exact hr.elim
    | error e' => exact PRel.pure _ _ hr

theorem GRel.mono {Q Q' : β → γ → Prop} {p : GM α β} {q : GM α γ} (h : GRel w Q p q)
    (hq : ∀ a b, Q a b → Q' a b) : GRel w Q' p q := by
  refine PRel.mono h fun r r' hr => ?_
  cases r <;> cases r' <;> first | exact hq _ _ hr | exact hr

theorem GRel.ite {Q : β → γ → Prop} {c : Prop} [Decidable c] {p1 p2 : GM α β} {q1 q2 : GM α γ}
    (h1 : GRel w Q p1 q1) (h2 : GRel w Q p2 q2) : GRel w Q (if c then p1 else p2) (if c then q1 else q2) := by
  split
  · exact h1
  · exact h2

/-- the same pure (possibly panicking) computation on both sides -/
theorem GRel.ofOutcome {Q : β → β → Prop} (o : GridPlacement.Outcome β) (h : ∀ a, Q a a) :
    GRel w Q (GM.ofOutcome o : GM α β) (GM.ofOutcome o) := by
  cases o with
  | ok a => exact GRel.pure (h a)
  | panic m => exact GRel.throw _
  | overflow => exact GRel.throw _
  | outOfFuel => exact GRel.throw _

theorem GRel.ofExcept {Q : β → β → Prop} (o : Except GridTracks.GErr β) (h : ∀ a, Q a a) :
    GRel w Q (GM.ofExcept o : GM α β) (GM.ofExcept o) := by
  cases o with
  | ok a => exact GRel.pure (h a)
  | error e => cases e <;> exact GRel.throw _

/-- a matched call to a non-`abs` child -/
theorem GRel.call {i : Nat} (hi : ¬ w.abs i) (inp : LayoutInput α) :
    GRel w w.RO (GM.call i inp) (GM.call i inp) := by
  show PRel w _ (ProgM.call i inp _) (ProgM.call i inp _)
  exact PRel.call i inp _ _ hi fun oA oB ho => PRel.pure _ _ ho

theorem GRel.setLayout {i : Nat} {lA lB : Layout α} (hl : w.RL lA lB) :
    GRel w (fun _ _ => True) (GM.setLayout i lA) (GM.setLayout i lB) := by
  show PRel w _ (ProgM.setLayout i lA _) (ProgM.setLayout i lB _)
  exact PRel.setLayout i lA lB _ _ hl (PRel.pure _ _ trivial)

/-- in the equality world a `GRel` with `Eq` results is equality -/
theorem GRel.to_eq {p q : GM α β} (h : GRel (World.eq : World α) Eq p q) : p = q := by
  have h' : PRel (World.eq : World α) Eq p.run q.run :=
    PRel.mono h fun r r' hr => by
      cases r <;> cases r' <;> first | (rw [show _ = _ from hr]) | exact hr.elim
  exact PRel.to_eq h'

/-! ### related up to panics (C06)

`PRelW w Q p q`: as `PRel w (ExRel Q) p q`, except that a run that has panicked on the left (when `w.errL`) or on the
right (when `w.errR`) is related to every run of the other side.  It composes (`GRelW.bind`: a panic ends the `GM`
program), every `GRel` is a `GRelW`, and a `GRelW` between programs that cannot panic on the tolerated sides is a `GRel`
(`GRelW.to_GRel`). -/

inductive PRelW {β γ : Type} (w : World α) (Q : β → γ → Prop) :
    ProgM α (Except String β) → ProgM α (Except String γ) → Prop where
  | pure (a : Except String β) (b : Except String γ) : ExRel Q a b → PRelW w Q (.pure a) (.pure b)
  | call (i : Nat) (inp : LayoutInput α) (kA : LayoutOutput α → ProgM α (Except String β))
      (kB : LayoutOutput α → ProgM α (Except String γ)) :
      ¬ w.abs i → (∀ oA oB, w.RO oA oB → PRelW w Q (kA oA) (kB oB)) → PRelW w Q (.call i inp kA) (.call i inp kB)
  | setLayout (i : Nat) (lA lB : Layout α) (kA : Unit → ProgM α (Except String β))
      (kB : Unit → ProgM α (Except String γ)) :
      w.RL lA lB → PRelW w Q (kA ()) (kB ()) → PRelW w Q (.setLayout i lA kA) (.setLayout i lB kB)
  | callL (i : Nat) (inp : LayoutInput α) (kA : LayoutOutput α → ProgM α (Except String β))
      (q : ProgM α (Except String γ)) :
      w.abs i → (∀ o, PRelW w Q (kA o) q) → PRelW w Q (.call i inp kA) q
  | callR (i : Nat) (inp : LayoutInput α) (p : ProgM α (Except String β))
      (kB : LayoutOutput α → ProgM α (Except String γ)) :
      w.abs i → (∀ o, PRelW w Q p (kB o)) → PRelW w Q p (.call i inp kB)
  | setL (i : Nat) (l : Layout α) (kA : Unit → ProgM α (Except String β)) (q : ProgM α (Except String γ)) :
      w.abs i → PRelW w Q (kA ()) q → PRelW w Q (.setLayout i l kA) q
  | setR (i : Nat) (l : Layout α) (p : ProgM α (Except String β)) (kB : Unit → ProgM α (Except String γ)) :
      w.abs i → PRelW w Q p (kB ()) → PRelW w Q p (.setLayout i l kB)
  | errL (e : String) (q : ProgM α (Except String γ)) : w.errL → PRelW w Q (.pure (.error e)) q
  | errR (e : String) (p : ProgM α (Except String β)) : w.errR → PRelW w Q p (.pure (.error e))

def GRelW (w : World α) (Q : β → γ → Prop) (p : GM α β) (q : GM α γ) : Prop := PRelW w Q p.run q.run

theorem PRelW.of_PRel {Q : β → γ → Prop} {p : ProgM α (Except String β)} {q : ProgM α (Except String γ)}
    (h : PRel w (ExRel Q) p q) : PRelW w Q p q := by
  induction h with
  | pure a b hab => exact .pure a b hab
  | call i inp k1 k2 hi _ ih => exact .call i inp _ _ hi ih
  | setLayout i lA lB k1 k2 hl _ ih => exact .setLayout i lA lB _ _ hl ih
  | callL i inp k1 q hi _ ih => exact .callL i inp _ _ hi ih
  | callR i inp p k2 hi _ ih => exact .callR i inp _ _ hi ih
  | setL i l k1 q hi _ ih => exact .setL i l _ _ hi ih
  | setR i l p k2 hi _ ih => exact .setR i l _ _ hi ih

theorem GRelW.of_GRel {Q : β → γ → Prop} {p : GM α β} {q : GM α γ} (h : GRel w Q p q) : GRelW w Q p q :=
  PRelW.of_PRel h

theorem PRelW.bindCont {Q : β → γ → Prop} {Q' : β' → γ' → Prop} {p : ProgM α (Except String β)}
    {q : ProgM α (Except String γ)} (h : PRelW w Q p q) {f : β → GM α β'} {g : γ → GM α γ'}
    (hfg : ∀ a b, Q a b → PRelW w Q' (f a).run (g b).run) :
    PRelW w Q' (ProgM.bind p (ExceptT.bindCont f)) (ProgM.bind q (ExceptT.bindCont g)) := by
  induction h with
  | pure a b hab =>
    cases a with
    | ok a =>
      cases b with
      | ok b => exact hfg a b hab
      | error e => exact hab.elim
    | error e =>
      cases b with
      | ok b => exact hab.elim
      | error e' => exact .pure _ _ hab
  | call i inp k1 k2 hi _ ih => exact .call i inp _ _ hi (fun oA oB ho => ih oA oB ho)
  | setLayout i lA lB k1 k2 hl _ ih => exact .setLayout i lA lB _ _ hl ih
  | callL i inp k1 q hi _ ih =>
    simp only [ProgM.bind]
    exact .callL i inp _ _ hi (fun o => ih o)
  | callR i inp p k2 hi _ ih =>
    simp only [ProgM.bind]
    exact .callR i inp _ _ hi (fun o => ih o)
  | setL i l k1 q hi _ ih =>
    simp only [ProgM.bind]
    exact .setL i l _ _ hi ih
  | setR i l p k2 hi _ ih =>
    simp only [ProgM.bind]
    exact .setR i l _ _ hi ih
  | errL e q hl => exact .errL e _ hl
  | errR e p hr => exact .errR e _ hr

theorem GRelW.bind {Q : β → γ → Prop} {Q' : β' → γ' → Prop} {p : GM α β} {q : GM α γ} (h : GRelW w Q p q)
    {f : β → GM α β'} {g : γ → GM α γ'} (hfg : ∀ a b, Q a b → GRelW w Q' (f a) (g b)) :
    GRelW w Q' (p >>= f) (q >>= g) :=
  PRelW.bindCont h hfg

theorem GRelW.pure {Q : β → γ → Prop} {a : β} {b : γ} (h : Q a b) : GRelW w Q (Pure.pure a : GM α β) (Pure.pure b) :=
  PRelW.pure _ _ h

theorem GRelW.ite {Q : β → γ → Prop} {c : Prop} [Decidable c] {p1 p2 : GM α β} {q1 q2 : GM α γ}
    (h1 : GRelW w Q p1 q1) (h2 : GRelW w Q p2 q2) : GRelW w Q (if c then p1 else p2) (if c then q1 else q2) := by
  split
  · exact h1
  · exact h2

/-- a panic on the left, when tolerated -/
theorem GRelW.throwL {Q : β → γ → Prop} (hl : w.errL) (e : String) (q : GM α γ) : GRelW w Q (throw e : GM α β) q :=
  PRelW.errL e _ hl

/-- a panic on the right, when tolerated -/
theorem GRelW.throwR {Q : β → γ → Prop} (hr : w.errR) (e : String) (p : GM α β) : GRelW w Q p (throw e : GM α γ) :=
  PRelW.errR e _ hr

/-- no run of the program ends in a panic, whatever the children answer -/
def NoErr {β : Type} : ProgM α (Except String β) → Prop
  | .pure r => ∃ b, r = .ok b
  | .call _ _ k => ∀ o, NoErr (k o)
  | .setLayout _ _ k => NoErr (k ())

theorem PRelW.to_PRel {Q : β → γ → Prop} {p : ProgM α (Except String β)} {q : ProgM α (Except String γ)}
    (h : PRelW w Q p q) (hL : w.errL → NoErr p) (hR : w.errR → NoErr q) : PRel w (ExRel Q) p q := by
  induction h with
  | pure a b hab => exact .pure a b hab
  | call i inp k1 k2 hi _ ih =>
    exact .call i inp _ _ hi fun oA oB ho => ih oA oB ho (fun e => hL e oA) (fun e => hR e oB)
  | setLayout i lA lB k1 k2 hl _ ih => exact .setLayout i lA lB _ _ hl (ih hL hR)
  | callL i inp k1 q hi _ ih => exact .callL i inp _ _ hi fun o => ih o (fun e => hL e o) hR
  | callR i inp p k2 hi _ ih => exact .callR i inp _ _ hi fun o => ih o hL (fun e => hR e o)
  | setL i l k1 q hi _ ih => exact .setL i l _ _ hi (ih hL hR)
  | setR i l p k2 hi _ ih => exact .setR i l _ _ hi (ih hL hR)
  | errL e q hl =>
    obtain ⟨b, hb⟩ := hL hl
    cases hb
  | errR e p hr =>
    obtain ⟨b, hb⟩ := hR hr
    cases hb

/-- programs related up to panics that cannot panic on the tolerated sides are related -/
theorem GRelW.to_GRel {Q : β → γ → Prop} {p : GM α β} {q : GM α γ} (h : GRelW w Q p q)
    (hL : w.errL → NoErr p.run) (hR : w.errR → NoErr q.run) : GRel w Q p q :=
  PRelW.to_PRel h hL hR

end GridRel
