/-
  Helper lemmas about Model/GridPlacement.lean, part 6: the occupancy matrix operations do not panic on a well-formed
  matrix when the area does not start before the implicit grid.
-/
import TaffyVerif.Lemmas.GridPlacementEstimate

set_option linter.unusedSimpArgs false
set_option linter.unusedVariables false

namespace GridPlacement
open Outcome

/-- "does not panic" -/
class NP {α : Type} (x : Outcome α) : Prop where
  out : ∀ msg, x ≠ .panic msg

instance {α : Type} (a : α) : NP (Outcome.ok a) := ⟨by simp⟩
instance {α : Type} (a : α) : NP (pure a : Outcome α) := ⟨by simp⟩
instance {α : Type} : NP (Outcome.outOfFuel : Outcome α) := ⟨by simp⟩
instance {α : Type} : NP (Outcome.overflow : Outcome α) := ⟨by simp⟩

theorem np_bind_ok {α β : Type} {x : Outcome α} {f : α → Outcome β} (hx : NP x) (hf : ∀ a, x = .ok a → NP (f a)) :
    NP (x >>= f) := by
  constructor
  intro msg
  have := hx.out
  cases x with
  | ok a => exact (hf a rfl).out msg
  | panic m => exact absurd rfl (this m)
  | overflow => simp [Outcome.bind]
  | outOfFuel => simp [Outcome.bind]

theorem np_bind' {α β : Type} {x : Outcome α} {f : α → Outcome β} (hx : NP x) (hf : ∀ a, NP (f a)) : NP (x >>= f) :=
  np_bind_ok hx fun a _ => hf a

theorem np_bind {α β : Type} {x : Outcome α} {f : α → Outcome β} (hx : NP x) (hf : ∀ a, NP (f a)) : NP (x.bind f) :=
  np_bind' hx hf

instance (x : Int) : NP (i16 x) := ⟨by unfold i16; split <;> simp⟩
instance (x : Int) : NP (u16 x) := ⟨by unfold u16; split <;> simp⟩
instance (x : Int) : NP (usize x) := ⟨by unfold usize; split <;> simp⟩

macro "np_step" : tactic => `(tactic| first
  | infer_instance | assumption | (apply np_bind') | (apply np_bind) | (intro _) | split)
macro "np" : tactic => `(tactic| repeat' np_step)

instance (l n : Int) : NP (ozAdd l n) := by unfold ozAdd; np
instance (l n : Int) : NP (ozSub l n) := by unfold ozSub; np
instance (t : TrackCounts) : NP t.len := by unfold TrackCounts.len; np
instance (t : TrackCounts) (i : Int) : NP (t.ozLineToNextTrack i) := by unfold TrackCounts.ozLineToNextTrack; np
instance (t : TrackCounts) (a : Line Int) : NP (t.ozLineRangeToTrackRange a) := by
  unfold TrackCounts.ozLineRangeToTrackRange; np
instance (m : Matrix) (ax : Axis) (a b : Line Int) : NP (m.isAreaInRange ax a b) := by
  unfold Matrix.isAreaInRange; np

theorem set_np {g : Grid} {r c : Int} (v : Cell) (hr : 0 ≤ r ∧ r.toNat < g.rows) (hc : 0 ≤ c ∧ c.toNat < g.cols) :
    NP (g.set r c v) := by
  unfold Grid.set
  simp only [hr, hc, and_self, ↓reduceIte]
  infer_instance

theorem markRow_np {x : Int} {v : Cell} : ∀ (ys : List Int) (g : Grid), (0 ≤ x ∧ x.toNat < g.rows) →
    (∀ y ∈ ys, 0 ≤ y ∧ y.toNat < g.cols) → NP (Matrix.markRow g x v ys) := by
  intro ys
  induction ys with
  | nil => intro g _ _; unfold Matrix.markRow; infer_instance
  | cons y ys ih =>
    intro g hx hys
    unfold Matrix.markRow
    apply np_bind_ok (set_np v hx (hys y List.mem_cons_self)); intro g' hg'
    obtain ⟨a1, a2, _⟩ := set_spec hg'
    exact ih g' (by rw [a1]; exact hx) (fun y' hy' => by rw [a2]; exact hys y' (List.mem_cons_of_mem _ hy'))

theorem markRows_np {cols : List Int} {v : Cell} : ∀ (xs : List Int) (g : Grid),
    (∀ x ∈ xs, 0 ≤ x ∧ x.toNat < g.rows) →
    (∀ y ∈ cols, 0 ≤ y ∧ y.toNat < g.cols) → NP (Matrix.markRows g cols v xs) := by
  intro xs
  induction xs with
  | nil => intro g _ _; unfold Matrix.markRows; infer_instance
  | cons x xs ih =>
    intro g hxs hys
    unfold Matrix.markRows
    by_cases hv : v = .unoccupied
    · apply np_bind_ok (markRow_np cols g (hxs x List.mem_cons_self) hys); intro g' hg'
      -- dimensions are kept by `set` whatever the value
      have dims : g'.rows = g.rows ∧ g'.cols = g.cols := by
        clear ih
        revert g
        induction cols with
        | nil => intro g _ _ hg'; simp only [Matrix.markRow, pure_eq, Outcome.ok.injEq] at hg'; subst hg'; exact ⟨rfl, rfl⟩
        | cons y ys ihy =>
          intro g hxs hys hg'
          simp only [Matrix.markRow, bind_eq, bind_eq_ok] at hg'
          obtain ⟨g1, h1, h2⟩ := hg'
          obtain ⟨a1, a2, _⟩ := set_spec h1
          obtain ⟨b1, b2⟩ := ihy g1 (fun x' hx' => by rw [a1]; exact hxs x' hx')
            (fun y' hy' => by rw [a2]; exact hys y' (List.mem_cons_of_mem _ hy')) h2
          exact ⟨b1.trans a1, b2.trans a2⟩
      exact ih g' (fun x' hx' => by rw [dims.1]; exact hxs x' (List.mem_cons_of_mem _ hx'))
        (fun y hy => by rw [dims.2]; exact hys y hy)
    · apply np_bind_ok (markRow_np cols g (hxs x List.mem_cons_self) hys); intro g' hg'
      obtain ⟨a1, a2, _⟩ := markRow_spec hv hg'
      exact ih g' (fun x' hx' => by rw [a1]; exact hxs x' (List.mem_cons_of_mem _ hx'))
        (fun y hy => by rw [a2]; exact hys y hy)

theorem copyRow_np {g : Grid} {row : Nat} : ∀ (cols : List Nat), (∀ c ∈ cols, (g.get row c).isSome = true) →
    NP (Matrix.copyRow g row cols) := by
  intro cols
  induction cols with
  | nil => intro _; unfold Matrix.copyRow; infer_instance
  | cons c cs ih =>
    intro h
    unfold Matrix.copyRow
    have := h c List.mem_cons_self
    cases hg : g.get row c with
    | none => rw [hg] at this; cases this
    | some v =>
      simp only
      exact np_bind' (ih fun c' hc' => h c' (List.mem_cons_of_mem _ hc')) fun _ => inferInstance

theorem copyRows_np {g : Grid} {oc : Nat} {n p : Int} : ∀ (rows : List Nat),
    (∀ r ∈ rows, ∀ c, c < oc → (g.get r c).isSome = true) → NP (Matrix.copyRows g oc n p rows) := by
  intro rows
  induction rows with
  | nil => intro _; unfold Matrix.copyRows; infer_instance
  | cons r rs ih =>
    intro h
    unfold Matrix.copyRows
    apply np_bind' (copyRow_np _ fun c hc => h r List.mem_cons_self c (List.mem_range.1 hc)); intro ex
    exact np_bind' (ih fun r' hr' => h r' (List.mem_cons_of_mem _ hr')) fun _ => inferInstance

theorem gridIs_get_isSome {g : Grid} {R C : Nat} (h : GridIs g R C) {r c : Nat} (hr : r < R) (hc : c < C) :
    (g.get r c).isSome = true := by
  rcases h.2 with ⟨h1, h2⟩ | ⟨h1, _, _⟩
  · unfold Grid.get
    have hlen := h.1
    have : r * C + c < g.data.length := by rw [hlen]; exact idx_lt hr hc
    simp [h1, h2, hr, hc, this]
  · omega

/-- `expand_to_fit_range` on a well-formed matrix does not panic when no negative growth is requested -/
theorem expand_np {m : Matrix} {rr cr : Line Int} (wf : MatrixWF m) (hr : 0 ≤ rr.start) (hc : 0 ≤ cr.start) :
    NP (m.expandToFitRange rr cr) := by
  unfold Matrix.expandToFitRange
  have e1 : min rr.start 0 = 0 := by omega
  have e2 : min cr.start 0 = 0 := by omega
  simp only [e1, e2]
  apply np_bind_ok inferInstance; intro rl hrl
  apply np_bind_ok inferInstance; intro rl16 hrl16
  apply np_bind_ok inferInstance; intro dr hdr
  apply np_bind_ok inferInstance; intro cl hcl
  apply np_bind_ok inferInstance; intro cl16 hcl16
  apply np_bind_ok inferInstance; intro dc hdc
  apply np_bind_ok inferInstance; intro sr hsr
  apply np_bind_ok inferInstance; intro sru hsru
  apply np_bind_ok inferInstance; intro newRows hnr
  apply np_bind_ok inferInstance; intro sc hsc
  apply np_bind_ok inferInstance; intro scu hscu
  apply np_bind_ok inferInstance; intro newCols hnc
  apply np_bind' inferInstance; intro cap
  apply np_bind_ok inferInstance; intro nru hnru
  apply np_bind_ok inferInstance; intro nneg hnneg
  have l1 := len_eq_ok.1 hrl
  have l2 := len_eq_ok.1 hcl
  have hR : m.rows.total = rl := by unfold TrackCounts.total; omega
  have hC : m.columns.total = cl := by unfold TrackCounts.total; omega
  unfold MatrixWF at wf
  rw [hR, hC] at wf
  apply np_bind_ok (copyRows_np _ fun r hr' c hc' => gridIs_get_isSome wf (List.mem_range.1 hr') hc')
  intro body hbody
  apply np_bind_ok inferInstance; intro pru hpru
  apply np_bind_ok inferInstance; intro npos hnpos
  -- the vector handed to `Grid::from_vec` has newRows * newCols elements
  obtain ⟨b1, _⟩ := copyRows_spec hbody
  simp only [List.length_range] at b1
  obtain ⟨q1, _, _⟩ := i16_eq_ok.1 hrl16; subst rl16
  obtain ⟨q2, _, _⟩ := i16_eq_ok.1 hcl16; subst cl16
  obtain ⟨q3, _, _⟩ := i16_eq_ok.1 hdr; subst dr
  obtain ⟨q4, _, _⟩ := i16_eq_ok.1 hdc; subst dc
  obtain ⟨q5, _, _⟩ := i16_eq_ok.1 hsc; subst sc
  obtain ⟨q6, _, _⟩ := usize_eq_ok.1 hscu; subst scu
  obtain ⟨q7, _, _⟩ := usize_eq_ok.1 hnc; subst newCols
  obtain ⟨q8, _, _⟩ := usize_eq_ok.1 hnru; subst nru
  obtain ⟨q9, _, _⟩ := usize_eq_ok.1 hnneg; subst nneg
  obtain ⟨q10, _, _⟩ := usize_eq_ok.1 hpru; subst pru
  obtain ⟨q11, _, _⟩ := usize_eq_ok.1 hnpos; subst npos
  have hCn : (cl + (0 + max (cr.«end» - cl) 0)).toNat = cl.toNat + (max (cr.«end» - cl) 0).toNat := by omega
  have hlen : (List.replicate (0 * (cl + (0 + max (cr.«end» - cl) 0))).toNat Cell.unoccupied ++ body ++
      List.replicate (max (rr.«end» - rl) 0 * (cl + (0 + max (cr.«end» - cl) 0))).toNat Cell.unoccupied).length =
      (rl.toNat + (max (rr.«end» - rl) 0).toNat) * (cl + (0 + max (cr.«end» - cl) 0)).toNat := by
    simp only [Int.zero_mul, Int.toNat_zero, List.replicate_zero, List.nil_append, List.length_append,
      List.length_replicate, b1, hCn, Nat.add_mul]
    congr 1
    rw [Int.toNat_mul (by omega) (by omega), hCn]
  obtain ⟨g, hg, _, _⟩ := fromVec_spec hlen
  apply np_bind_ok ⟨by rw [hg]; simp⟩; intro inner _
  np

theorem markRows_nil_cols {v : Cell} : ∀ (xs : List Int) (g : Grid), NP (Matrix.markRows g [] v xs) := by
  intro xs
  induction xs with
  | nil => intro g; unfold Matrix.markRows; infer_instance
  | cons x xs ih =>
    intro g
    unfold Matrix.markRows
    simp only [Matrix.markRow, pure_eq, bind_eq, ok_bind]
    exact ih g

theorem rangeI_eq_nil {s e : Int} (h : rangeI s e ≠ []) : s < e := by
  obtain ⟨x, hx⟩ := List.exists_mem_of_ne_nil _ h
  have := mem_rangeI.1 hx
  omega

/-- marking a track range that lies inside a well-formed matrix never indexes out of bounds -/
theorem markRows_in_wf {m : Matrix} {rr cr : Line Int} (v : Cell) (wf : MatrixWF m)
    (r0 : 0 ≤ rr.start) (r1 : rr.«end» ≤ m.rows.total) (c0 : 0 ≤ cr.start) (c1 : cr.«end» ≤ m.columns.total) :
    NP (Matrix.markRows m.inner (rangeI cr.start cr.«end») v (rangeI rr.start rr.«end»)) := by
  by_cases hcols : rangeI cr.start cr.«end» = []
  · rw [hcols]; exact markRows_nil_cols _ _
  by_cases hrows : rangeI rr.start rr.«end» = []
  · rw [hrows]; unfold Matrix.markRows; infer_instance
  have hc := rangeI_eq_nil hcols
  have hr := rangeI_eq_nil hrows
  unfold MatrixWF at wf
  have hprop : m.inner.rows = m.rows.total.toNat ∧ m.inner.cols = m.columns.total.toNat := by
    rcases wf.2 with h | ⟨h, _, _⟩
    · exact h
    · omega
  apply markRows_np
  · intro x hx
    have := mem_rangeI.1 hx
    rw [hprop.1]; omega
  · intro y hy
    have := mem_rangeI.1 hy
    rw [hprop.2]; omega

/-- **`mark_area_as` never panics** on a well-formed matrix for an area that does not start before the implicit
grid: `expand_to_fit_range` is then only asked for non-negative growth, it copies only existing cells, hands
`Grid::from_vec` a vector of exactly rows × columns cells, and every `get_mut(..).unwrap()` is in bounds. -/
theorem markAreaAs_np {m : Matrix} {ax : Axis} {p s : Line Int} (v : Cell) (wf : MatrixWF m)
    (hc : -m.columns.negativeImplicit ≤ (colOf ax p s).start) (hr : -m.rows.negativeImplicit ≤ (rowOf ax p s).start) :
    NP (m.markAreaAs ax p s v) := by
  unfold Matrix.markAreaAs
  dsimp only
  apply np_bind_ok inferInstance; intro cr hcr
  apply np_bind_ok inferInstance; intro rr hrr
  apply np_bind_ok inferInstance; intro inRange hin
  obtain ⟨c1, c2⟩ := ozRange_eq_ok hcr
  obtain ⟨r1, r2⟩ := ozRange_eq_ok hrr
  cases inRange
  · simp only [Bool.not_false, ↓reduceIte]
    apply np_bind_ok
    · apply np_bind_ok (expand_np wf (by omega) (by omega)); intro m' _
      np
    · intro ⟨m1, cr', rr'⟩ h3
      simp only [bind_eq, bind_eq_ok, pure_eq, Outcome.ok.injEq, Prod.mk.injEq] at h3
      obtain ⟨m1', he, cr'', hcr', rr'', hrr', rfl, rfl, rfl⟩ := h3
      obtain ⟨wf', _⟩ := expand_cells wf he
      obtain ⟨rl, cl, body, hrl, hcl, _, _, _, _, er, ec⟩ := expand_spec he
      obtain ⟨c1', c2'⟩ := ozRange_eq_ok hcr'
      obtain ⟨r1', r2'⟩ := ozRange_eq_ok hrr'
      have l1 := len_eq_ok.1 hrl
      have l2 := len_eq_ok.1 hcl
      dsimp only
      apply np_bind' ?_ (fun _ => inferInstance)
      apply markRows_in_wf v wf'
      · rw [r1', er]; dsimp only; omega
      · rw [r2', er]; unfold TrackCounts.total; dsimp only; omega
      · rw [c1', ec]; dsimp only; omega
      · rw [c2', ec]; unfold TrackCounts.total; dsimp only; omega
  · simp only [Bool.not_true, Bool.false_eq_true, ↓reduceIte, pure_eq, bind_eq, ok_bind]
    obtain ⟨pl, sl, hpl, hsl, a1, a2, a3, a4⟩ := isAreaInRange_true hin
    simp only [Matrix.trackCounts, Axis.other, len_eq_ok] at hpl hsl
    apply np_bind ?_ (fun _ => inferInstance)
    apply markRows_in_wf v wf
    · omega
    · unfold TrackCounts.total; omega
    · omega
    · unfold TrackCounts.total; omega

end GridPlacement
