/-
  C06 for flexbox, part 3: the pure cross-axis stages keep the index invariant and read the styles of the items' own
  children only; the final layout pass is equivalent to itself up to `content_size`; the absolute pass talks to
  absolutely positioned children only; the stages compose to `FlexModel.computeFlexboxLayout`.
-/
import TaffyVerif.Lemmas.FlexAbsStages

set_option linter.unusedSectionVars false

namespace FlexAbs
open FlexModel FlexStages C06
variable {α : Type} [Num α]

/-! ### steps 8–13 (pure) -/

theorem LinesOK.mapHead {G : Nat → Prop} {l : List (FlexLineS α)} (f : FlexLineS α → FlexLineS α)
    (hf : ∀ x, (f x).items = x.items) (h : LinesOK G l) : LinesOK G (mapHead f l) := by
  cases l with
  | nil => exact h
  | cons a l =>
    refine LinesOK.cons (a := f a) ?_ h.tail
    rw [hf]; exact h.head

theorem LinesOK.mapSame {G : Nat → Prop} {l : List (FlexLineS α)} (f : FlexLineS α → FlexLineS α)
    (hf : ∀ x, (f x).items = x.items) (h : LinesOK G l) : LinesOK G (l.map f) :=
  h.map f fun x hx => by rw [hf]; exact hx

theorem calculateCrossSize_ok (G : Nat → Prop) (k : AlgoConstants α) (ns : Size (Option α))
    (lines : List (FlexLineS α)) (h : LinesOK G lines) : LinesOK G (calculateCrossSize k ns lines) := by
  unfold calculateCrossSize
  dsimp only
  split
  · exact h.mapHead _ fun _ => rfl
  · split
    · refine LinesOK.mapHead _ (fun _ => rfl) ?_
      refine LinesOK.mapSame _ ?_ h
      intro x; rfl
    · refine LinesOK.mapSame _ ?_ h
      intro x; rfl

theorem handleAlignContentStretch_ok (G : Nat → Prop) (k : AlgoConstants α) (ns : Size (Option α))
    (lines : List (FlexLineS α)) (h : LinesOK G lines) : LinesOK G (handleAlignContentStretch k ns lines) := by
  unfold handleAlignContentStretch
  dsimp only
  split
  · split
    · refine LinesOK.mapSame _ ?_ h
      intro x; rfl
    · exact h
  · exact h

theorem usedCrossItem_idx (k : AlgoConstants α) (lcs : α) (cs : Style α) (child : FlexItem α) :
    (usedCrossItem k lcs cs child).nodeIdx = child.nodeIdx := rfl

theorem determineUsedCrossSize_ok (G : Nat → Prop) (k : AlgoConstants α) (styleOf : Nat → Style α)
    (lines : List (FlexLineS α)) (h : LinesOK G lines) : LinesOK G (determineUsedCrossSize k styleOf lines) := by
  unfold determineUsedCrossSize
  exact h.map _ fun x hx => hx.map _ fun _ => rfl

/-- step 11 reads the style of the items' own children only -/
theorem determineUsedCrossSize_congr (k : AlgoConstants α) (s1 s2 : Nat → Style α) (lines : List (FlexLineS α))
    (h : ∀ l ∈ lines, ∀ it ∈ l.items, s1 it.nodeIdx = s2 it.nodeIdx) :
    determineUsedCrossSize k s1 lines = determineUsedCrossSize k s2 lines := by
  unfold determineUsedCrossSize
  refine List.map_congr_left fun l hl => ?_
  have : l.items.map (fun c => usedCrossItem k l.crossSize (s1 c.nodeIdx) c) =
      l.items.map (fun c => usedCrossItem k l.crossSize (s2 c.nodeIdx) c) :=
    List.map_congr_left fun c hc => by rw [h l hl c hc]
  rw [this]

theorem distributeLine_ok (G : Nat → Prop) (k : AlgoConstants α) (line : FlexLineS α) (h : ItemsOK G line.items) :
    ItemsOK G (distributeLine k line).items := by
  unfold distributeLine
  exact zipBack_ok G _ _ _ h

theorem crossAutoMarginItem_idx (k : AlgoConstants α) (lcs mb : α) (child : FlexItem α) :
    (crossAutoMarginItem k lcs mb child).nodeIdx = child.nodeIdx := by
  unfold crossAutoMarginItem
  dsimp only
  split
  · rfl
  · split
    · rfl
    · split <;> rfl

theorem resolveCrossAxisAutoMargins_ok (G : Nat → Prop) (k : AlgoConstants α) (lines : List (FlexLineS α))
    (h : LinesOK G lines) : LinesOK G (resolveCrossAxisAutoMargins k lines) := by
  unfold resolveCrossAxisAutoMargins
  exact h.map _ fun x hx => hx.map _ fun c => crossAutoMarginItem_idx k _ _ c

theorem crossLines_ok (G : Nat → Prop) (k : AlgoConstants α) (kd : Size (Option α)) (styleOf : Nat → Style α)
    (lines : List (FlexLineS α)) (h : LinesOK G lines) : LinesOK G (crossLines k kd styleOf lines) := by
  unfold crossLines
  exact resolveCrossAxisAutoMargins_ok G k _
    (LinesOK.map _ (fun x hx => distributeLine_ok G k x hx)
      (determineUsedCrossSize_ok G k styleOf _
        (handleAlignContentStretch_ok G k kd _ (calculateCrossSize_ok G k kd lines h))))

theorem crossLines_congr (G : Nat → Prop) (k : AlgoConstants α) (kd : Size (Option α)) (s1 s2 : Nat → Style α)
    (hs : ∀ i, G i → s1 i = s2 i) (lines : List (FlexLineS α)) (h : LinesOK G lines) :
    crossLines k kd s1 lines = crossLines k kd s2 lines := by
  unfold crossLines
  dsimp only
  rw [determineUsedCrossSize_congr k s1 s2 _ fun l hl it hit =>
    hs _ (handleAlignContentStretch_ok G k kd _ (calculateCrossSize_ok G k kd lines h) l hl it hit)]

/-! ### step 16 (pure) -/

theorem alignForward_ok (G : Nat → Prop) (f : Bool → α) (lines : List (FlexLineS α)) (h : LinesOK G lines) :
    LinesOK G (alignForward f lines) := by
  cases lines with
  | nil => exact h
  | cons a l =>
    unfold alignForward
    exact LinesOK.cons (a := { a with offsetCross := f true }) h.head (h.tail.mapSame _ fun _ => rfl)

theorem alignFlexLinesPerAlignContent_ok (G : Nat → Prop) (k : AlgoConstants α) (total : α)
    (lines : List (FlexLineS α)) (h : LinesOK G lines) : LinesOK G (alignFlexLinesPerAlignContent k total lines) := by
  unfold alignFlexLinesPerAlignContent
  dsimp only
  split
  · exact (alignForward_ok G _ _ h.reverse).reverse
  · exact alignForward_ok G _ _ h

/-! ### the final layout pass -/

/-- one item: the same query; the layout and the running content size differ in `content_size` only -/
theorem calculateFlexItem_equiv (abs : Nat → Prop) (k : AlgoConstants α) (item : FlexItem α) (tom toc loc : α)
    (csA csB : Size α) (hn : ¬ abs item.nodeIdx) :
    AbsEquiv abs (fun a b => a.1 = b.1 ∧ a.2.1 = b.2.1)
      (calculateFlexItem k item tom toc loc csA) (calculateFlexItem k item tom toc loc csB) := by
  unfold calculateFlexItem
  refine AbsEquiv.call item.nodeIdx _ _ _ hn fun oA oB ho => ?_
  obtain ⟨sz, cA, fb, tm, bm, cc⟩ := oA
  obtain ⟨sz', cB, fb', tm', bm', cc'⟩ := oB
  simp only [OutEqv] at ho
  obtain ⟨h1, h2, h3, h4, h5⟩ := ho
  subst h1 h2 h3 h4 h5
  refine AbsEquiv.setLayout item.nodeIdx _ _ _ _ ⟨rfl, rfl, rfl, rfl, rfl, rfl, rfl⟩ ?_
  exact AbsEquiv.pure _ _ ⟨rfl, rfl⟩

theorem layoutItems_equiv (abs : Nat → Prop) (k : AlgoConstants α) (toc loc : α) :
    ∀ (items : List (FlexItem α)) (tom : α) (csA csB : Size α), ItemsOK (NA abs) items →
      AbsEquiv abs (fun a b => a.1 = b.1) (layoutItems k toc loc items tom csA) (layoutItems k toc loc items tom csB)
  | [], _, _, _, _ => AbsEquiv.pure _ _ rfl
  | item :: rest, tom, csA, csB, h => by
    unfold layoutItems
    refine AbsEquiv.bind (calculateFlexItem_equiv abs k item tom toc loc csA csB h.head) fun a b hab => ?_
    obtain ⟨a1, a2, a3⟩ := a
    obtain ⟨b1, b2, b3⟩ := b
    obtain ⟨e1, e2⟩ := hab
    dsimp only at e1 e2
    subst e1 e2
    refine AbsEquiv.bind (layoutItems_equiv abs k toc loc rest a2 a3 b3 h.tail) fun r s hrs => ?_
    obtain ⟨r1, r2⟩ := r
    obtain ⟨s1, s2⟩ := s
    dsimp only at hrs
    subst hrs
    exact AbsEquiv.pure _ _ rfl

theorem calculateLayoutLine_equiv (abs : Nat → Prop) (k : AlgoConstants α) (line : FlexLineS α) (toc : α)
    (csA csB : Size α) (h : ItemsOK (NA abs) line.items) :
    AbsEquiv abs (fun a b => a.1 = b.1 ∧ a.2.1 = b.2.1)
      (calculateLayoutLine k line toc csA) (calculateLayoutLine k line toc csB) := by
  unfold calculateLayoutLine
  refine AbsEquiv.bind (Q := fun a b => a.1 = b.1) ?_ fun a b hab => ?_
  · dsimp only
    split
    · refine AbsEquiv.bind (layoutItems_equiv abs k toc _ _ _ csA csB h.reverse) fun r s hrs => ?_
      obtain ⟨r1, r2⟩ := r
      obtain ⟨s1, s2⟩ := s
      dsimp only at hrs
      subst hrs
      exact AbsEquiv.pure _ _ rfl
    · exact layoutItems_equiv abs k toc _ _ _ csA csB h
  · obtain ⟨a1, a2⟩ := a
    obtain ⟨b1, b2⟩ := b
    dsimp only at hab
    subst hab
    exact AbsEquiv.pure _ _ ⟨rfl, rfl⟩

theorem layoutLines_equiv (abs : Nat → Prop) (k : AlgoConstants α) :
    ∀ (lines : List (FlexLineS α)) (toc : α) (csA csB : Size α), LinesOK (NA abs) lines →
      AbsEquiv abs (fun a b => a.1 = b.1) (layoutLines k lines toc csA) (layoutLines k lines toc csB)
  | [], _, _, _, _ => AbsEquiv.pure _ _ rfl
  | line :: rest, toc, csA, csB, h => by
    unfold layoutLines
    refine AbsEquiv.bind (calculateLayoutLine_equiv abs k line toc csA csB h.head) fun a b hab => ?_
    obtain ⟨a1, a2, a3⟩ := a
    obtain ⟨b1, b2, b3⟩ := b
    obtain ⟨e1, e2⟩ := hab
    dsimp only at e1 e2
    subst e1 e2
    refine AbsEquiv.bind (layoutLines_equiv abs k rest a2 a3 b3 h.tail) fun r s hrs => ?_
    obtain ⟨r1, r2⟩ := r
    obtain ⟨s1, s2⟩ := s
    dsimp only at hrs
    subst hrs
    exact AbsEquiv.pure _ _ rfl

theorem finalLayoutPass_equiv (abs : Nat → Prop) (k : AlgoConstants α) (lines : List (FlexLineS α))
    (h : LinesOK (NA abs) lines) :
    AbsEquiv abs (fun a b => a.1 = b.1) (finalLayoutPass k lines) (finalLayoutPass k lines) := by
  unfold finalLayoutPass
  refine AbsEquiv.bind (Q := fun a b => a.1 = b.1) ?_ fun a b hab => ?_
  · dsimp only
    split
    · refine AbsEquiv.bind (layoutLines_equiv abs k _ _ _ _ h.reverse) fun r s hrs => ?_
      obtain ⟨r1, r2⟩ := r
      obtain ⟨s1, s2⟩ := s
      dsimp only at hrs
      subst hrs
      exact AbsEquiv.pure _ _ rfl
    · exact layoutLines_equiv abs k _ _ _ _ h
  · obtain ⟨a1, a2⟩ := a
    obtain ⟨b1, b2⟩ := b
    dsimp only at hab
    subst hab
    exact AbsEquiv.pure _ _ rfl

/-! ### the absolute pass -/

open EvalBlock (OnlyAbs OnlyAbs_bind OnlyAbs_equiv)

theorem OnlyAbs_ite {β : Type} (abs : Nat → Prop) (c : Prop) [Decidable c] (a b : β) :
    OnlyAbs abs (if c then (ProgM.pure a : ProgM α β) else ProgM.pure b) := by
  split <;> trivial

theorem absItem_onlyAbs (abs : Nat → Prop) (k : AlgoConstants α) (order : Nat) (cs : Style α) (acc : Size α)
    (h : abs order) : OnlyAbs abs (absItem k order cs acc) := by
  unfold absItem
  refine ⟨h, fun o => ⟨h, ?_⟩⟩
  exact OnlyAbs_ite abs _ _ _

/-- `perform_absolute_layout_on_absolute_children` only talks to absolutely positioned, box-generating children -/
theorem absLoop_onlyAbs (abs : Nat → Prop) (k : AlgoConstants α) :
    ∀ (l : List (Style α)) (order : Nat) (acc : Size α),
      (∀ j x, l[j]? = some x → absVis x → abs (order + j)) → OnlyAbs abs (absLoop k l order acc)
  | [], _, _, _ => trivial
  | cs :: rest, order, acc, h => by
    have hr : ∀ j x, rest[j]? = some x → absVis x → abs (order + 1 + j) := by
      intro j x hj hx
      have := h (j + 1) x (by simpa using hj) hx
      rwa [show order + (j + 1) = order + 1 + j by omega] at this
    unfold absLoop
    split
    · exact absLoop_onlyAbs abs k rest (order + 1) acc hr
    · rename_i hc
      have hv : absVis cs := by
        simp only [Bool.or_eq_true, not_or, EvalBlock.pos_bne, decide_eq_true_eq, Bool.not_eq_true,
          Decidable.not_not] at hc
        exact ⟨hc.2, (EvalBlock.isHidden_false_iff cs).1 hc.1⟩
      have h0 : abs order := by simpa using h 0 cs (by simp) hv
      exact OnlyAbs_bind abs _ _ (absItem_onlyAbs abs k order cs acc h0) fun _ =>
        absLoop_onlyAbs abs k rest (order + 1) _ hr

end FlexAbs
