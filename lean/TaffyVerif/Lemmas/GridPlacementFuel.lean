/-
  Helper lemmas about Model/GridPlacement.lean, part 4: `outOfFuel` can only come from the three search loops, and
  those never run out of `defaultFuel`.
-/
import TaffyVerif.Lemmas.GridPlacementBasic

set_option linter.unusedSimpArgs false
set_option linter.unusedVariables false

namespace GridPlacement
open Outcome

/-- "does not run out of fuel" -/
class NF {α : Type} (x : Outcome α) : Prop where
  out : x ≠ .outOfFuel

instance {α : Type} (a : α) : NF (Outcome.ok a) := ⟨by simp⟩
instance {α : Type} (a : α) : NF (pure a : Outcome α) := ⟨by simp⟩
instance {α : Type} (m : String) : NF (Outcome.panic m : Outcome α) := ⟨by simp⟩
instance {α : Type} : NF (Outcome.overflow : Outcome α) := ⟨by simp⟩

theorem nf_bind {α β : Type} {x : Outcome α} {f : α → Outcome β} (hx : NF x) (hf : ∀ a, NF (f a)) : NF (x.bind f) := by
  constructor
  have := hx.out
  cases x with
  | ok a => exact (hf a).out
  | panic m => simp [Outcome.bind]
  | overflow => simp [Outcome.bind]
  | outOfFuel => exact absurd rfl this

theorem nf_bind' {α β : Type} {x : Outcome α} {f : α → Outcome β} (hx : NF x) (hf : ∀ a, NF (f a)) : NF (x >>= f) :=
  nf_bind hx hf

instance (x : Int) : NF (i16 x) := ⟨by unfold i16; split <;> simp⟩
instance (x : Int) : NF (u16 x) := ⟨by unfold u16; split <;> simp⟩
instance (x : Int) : NF (usize x) := ⟨by unfold usize; split <;> simp⟩

macro "nf_step" : tactic => `(tactic| first
  | infer_instance | assumption | (apply nf_bind') | (apply nf_bind) | (intro _) | split)
macro "nf" : tactic => `(tactic| repeat' nf_step)

instance (l n : Int) : NF (ozAdd l n) := by unfold ozAdd; nf
instance (l n : Int) : NF (ozSub l n) := by unfold ozSub; nf
instance (l e : Int) : NF (intoOriginZeroLine l e) := by unfold intoOriginZeroLine; nf
instance (l e : Int) : NF (impliedPositiveImplicitTracks l e) := by unfold impliedPositiveImplicitTracks; nf
instance (p : Placement) (e : Int) : NF (intoOriginZeroPlacement p e) := by unfold intoOriginZeroPlacement; nf
instance (l : Line Placement) (e : Int) : NF (intoOriginZero l e) := by unfold intoOriginZero; nf
instance (l : Line Placement) : NF (indefiniteSpan l) := by unfold indefiniteSpan; nf
instance (l : Line Placement) : NF (resolveDefiniteGridLines l) := by unfold resolveDefiniteGridLines; nf
instance (l : Line Placement) (s : Int) : NF (resolveIndefiniteGridTracks l s) := by
  unfold resolveIndefiniteGridTracks; nf
instance (t : TrackCounts) : NF t.len := by unfold TrackCounts.len; nf
instance (t : TrackCounts) : NF t.implicitStartLine := by unfold TrackCounts.implicitStartLine; nf
instance (t : TrackCounts) : NF t.implicitEndLine := by unfold TrackCounts.implicitEndLine; nf
instance (t : TrackCounts) (i : Int) : NF (t.ozLineToNextTrack i) := by unfold TrackCounts.ozLineToNextTrack; nf
instance (t : TrackCounts) (a : Line Int) : NF (t.ozLineRangeToTrackRange a) := by
  unfold TrackCounts.ozLineRangeToTrackRange; nf
instance (t : TrackCounts) (i : Int) : NF (t.trackToPrevOzLine i) := by unfold TrackCounts.trackToPrevOzLine; nf
instance (l : Line Placement) (e : Int) : NF (childMinLineMaxLineSpan l e) := by unfold childMinLineMaxLineSpan; nf
instance (ec er : Int) (acc : KnownPositions) (c : Child) : NF (knownStep ec er acc c) := by unfold knownStep; nf

instance (ec er : Int) (acc : KnownPositions) (cs : List Child) : NF (knownFold ec er acc cs) := by
  induction cs generalizing acc with
  | nil => unfold knownFold; nf
  | cons c cs ih => unfold knownFold; nf

instance (cs : List Child) (ec er : Int) : NF (getKnownChildPositions cs ec er) := by
  unfold getKnownChildPositions; nf
instance (a b c d : Int) : NF (estimateAxis a b c d) := by unfold estimateAxis; nf
instance (ec er : Int) (cs : List Child) : NF (computeGridSizeEstimate ec er cs) := by
  unfold computeGridSizeEstimate; nf
instance (v : List Cell) (c : Nat) : NF (Grid.fromVec v c) := by unfold Grid.fromVec; dsimp only; nf
instance (g : Grid) (r c : Int) (v : Cell) : NF (g.set r c v) := by unfold Grid.set; nf
instance (g : Grid) (r : Int) : NF (g.iterRow r) := by unfold Grid.iterRow; nf
instance (g : Grid) (r : Int) : NF (g.iterCol r) := by unfold Grid.iterCol; nf
instance (c r : TrackCounts) : NF (Matrix.withTrackCounts c r) := by unfold Matrix.withTrackCounts; nf
instance (m : Matrix) (ax : Axis) (a b : Line Int) : NF (m.isAreaInRange ax a b) := by
  unfold Matrix.isAreaInRange; nf

instance (g : Grid) (row : Nat) (cols : List Nat) : NF (Matrix.copyRow g row cols) := by
  induction cols with
  | nil => unfold Matrix.copyRow; nf
  | cons c cs ih => unfold Matrix.copyRow; nf

instance (g : Grid) (oc : Nat) (n p : Int) (rows : List Nat) : NF (Matrix.copyRows g oc n p rows) := by
  induction rows with
  | nil => unfold Matrix.copyRows; nf
  | cons c cs ih => unfold Matrix.copyRows; nf

instance (m : Matrix) (a b : Line Int) : NF (m.expandToFitRange a b) := by unfold Matrix.expandToFitRange; nf

instance (g : Grid) (x : Int) (v : Cell) (ys : List Int) : NF (Matrix.markRow g x v ys) := by
  induction ys generalizing g with
  | nil => unfold Matrix.markRow; nf
  | cons c cs ih => unfold Matrix.markRow; nf

instance (g : Grid) (cols : List Int) (v : Cell) (xs : List Int) : NF (Matrix.markRows g cols v xs) := by
  induction xs generalizing g with
  | nil => unfold Matrix.markRows; nf
  | cons c cs ih => unfold Matrix.markRows; nf

instance (m : Matrix) (ax : Axis) (p s : Line Int) (v : Cell) : NF (m.markAreaAs ax p s v) := by
  unfold Matrix.markAreaAs; nf
instance (m : Matrix) (ax : Axis) (p s : Line Int) : NF (m.lineAreaIsUnoccupied ax p s) := by
  unfold Matrix.lineAreaIsUnoccupied; nf
instance (m : Matrix) (ax : Axis) (s : Int) (k : Cell) : NF (m.lastOfType ax s k) := by
  unfold Matrix.lastOfType; nf
instance (ec er : Int) (ic : Nat × Child) : NF (toOz ec er ic) := by unfold toOz; nf
instance (c : OzChild) (ax : Axis) : NF (placeDefiniteGridItem c ax) := by unfold placeDefiniteGridItem; nf
instance (st : State) (i : Nat) (ax : Axis) (p s : Line Int) (k : Cell) : NF (recordGridPlacement st i ax p s k) := by
  unfold recordGridPlacement; nf

instance {α β : Type} (f : α → Outcome β) [∀ a, NF (f a)] (l : List α) : NF (mapO f l) := by
  induction l with
  | nil => unfold mapO; nf
  | cons c cs ih => unfold mapO; nf

instance (ax : Axis) (st : State) (cs : List OzChild) : NF (phase1 ax st cs) := by
  induction cs generalizing st with
  | nil => unfold phase1; nf
  | cons c cs ih => unfold phase1; nf

/-! ### the loops -/

/-- the bound of the two one-dimensional searches: more steps than there are i16 values above the start -/
theorem searchSecondary_nf {m : Matrix} {ax : Axis} {pl : Line Placement} {sec : Line Int} :
    ∀ (fuel : Nat) (pos : Int), max (32767 - pos) 0 < (fuel : Int) →
      NF (searchSecondary m ax pl sec fuel pos) := by
  intro fuel
  induction fuel with
  | zero => intro pos h2; omega
  | succ n ih =>
    intro pos h2
    unfold searchSecondary
    apply nf_bind' inferInstance; intro prim
    apply nf_bind' inferInstance; intro fits
    split
    · infer_instance
    · constructor
      intro hbad
      simp only [bind_eq] at hbad
      cases hadd : ozAdd pos 1 with
      | ok pos' =>
        rw [hadd] at hbad
        obtain ⟨rfl, _, _, _, hle⟩ := ozAdd_eq_ok.1 hadd
        exact (ih (pos + 1) (by omega)).out hbad
      | panic msg => rw [hadd] at hbad; cases hbad
      | overflow => rw [hadd] at hbad; cases hbad
      | outOfFuel => exact (inferInstance : NF (ozAdd pos 1)).out hadd

theorem searchFixedPrimary_nf {m : Matrix} {ax : Axis} {prim : Line Int} {span : Int} :
    ∀ (fuel : Nat) (idx : Int), max (32767 - idx) 0 < (fuel : Int) →
      NF (searchFixedPrimary m ax prim span fuel idx) := by
  intro fuel
  induction fuel with
  | zero => intro pos h2; omega
  | succ n ih =>
    intro idx h2
    unfold searchFixedPrimary
    apply nf_bind' inferInstance; intro e
    apply nf_bind' inferInstance; intro free
    split
    · constructor
      intro hbad
      simp only [bind_eq] at hbad
      cases hadd : ozAdd idx 1 with
      | ok idx' =>
        rw [hadd] at hbad
        obtain ⟨rfl, _, _, _, hle⟩ := ozAdd_eq_ok.1 hadd
        exact (ih (idx + 1) (by omega)).out hbad
      | panic msg => rw [hadd] at hbad; cases hbad
      | overflow => rw [hadd] at hbad; cases hbad
      | outOfFuel => exact (inferInstance : NF (ozAdd idx 1)).out hadd
    · infer_instance

/-- the two-dimensional search: lexicographic measure `(32767 - secondary) * 65536 + (32767 - primary)` -/
theorem searchBoth_nf {m : Matrix} {ax : Axis} {pspan sspan startLine endLine : Int}
    (hs : -32768 ≤ startLine) :
    ∀ (fuel : Nat) (pi si : Int),
      max (32767 - si) 0 * 65536 + max (32767 - pi) 0 < (fuel : Int) →
      NF (searchBoth m ax pspan sspan startLine endLine fuel pi si) := by
  intro fuel
  induction fuel with
  | zero => intro pi si h3; omega
  | succ n ih =>
    intro pi si h3
    unfold searchBoth
    apply nf_bind' inferInstance; intro pe
    apply nf_bind' inferInstance; intro se
    split
    · constructor
      intro hbad
      simp only [bind_eq] at hbad
      cases hadd : ozAdd si 1 with
      | ok si' =>
        rw [hadd] at hbad
        obtain ⟨rfl, _, _, _, hle⟩ := ozAdd_eq_ok.1 hadd
        exact (ih startLine (si + 1) (by omega)).out hbad
      | panic msg => rw [hadd] at hbad; cases hbad
      | overflow => rw [hadd] at hbad; cases hbad
      | outOfFuel => exact (inferInstance : NF (ozAdd si 1)).out hadd
    · apply nf_bind' inferInstance; intro free
      split
      · constructor
        intro hbad
        simp only [bind_eq] at hbad
        cases hadd : ozAdd pi 1 with
        | ok pi' =>
          rw [hadd] at hbad
          obtain ⟨rfl, _, _, _, hle⟩ := ozAdd_eq_ok.1 hadd
          exact (ih (pi + 1) si (by omega)).out hbad
        | panic msg => rw [hadd] at hbad; cases hbad
        | overflow => rw [hadd] at hbad; cases hbad
        | outOfFuel => exact (inferInstance : NF (ozAdd pi 1)).out hadd
      · infer_instance

/-! ### i16-valued lines -/

def I16 (x : Int) : Prop := -32768 ≤ x ∧ x ≤ 32767

def PlI16 : Placement → Prop
  | .line n => I16 n
  | _ => True

def OzI16 (l : Line Placement) : Prop := PlI16 l.start ∧ PlI16 l.«end»

theorem intoOriginZeroPlacement_i16 {p oz : Placement} {e : Int} (h : intoOriginZeroPlacement p e = .ok oz) :
    PlI16 oz := by
  cases p with
  | auto => simp only [intoOriginZeroPlacement, pure_eq, Outcome.ok.injEq] at h; subst h; trivial
  | span s => simp only [intoOriginZeroPlacement, pure_eq, Outcome.ok.injEq] at h; subst h; trivial
  | line l =>
    simp only [intoOriginZeroPlacement] at h
    split at h
    · simp only [pure_eq, Outcome.ok.injEq] at h; subst h; trivial
    · simp only [bind_eq, bind_eq_ok, pure_eq, Outcome.ok.injEq] at h
      obtain ⟨a, ha, rfl⟩ := h
      simp only [intoOriginZeroLine, bind_eq, bind_eq_ok, u16_eq_ok] at ha
      obtain ⟨_, _, ha⟩ := ha
      split at ha
      · obtain ⟨rfl, h1, h2⟩ := i16_eq_ok.1 ha; exact ⟨h1, h2⟩
      · split at ha
        · simp only [bind_eq, bind_eq_ok] at ha
          obtain ⟨_, _, ha⟩ := ha
          obtain ⟨rfl, h1, h2⟩ := i16_eq_ok.1 ha; exact ⟨h1, h2⟩
        · cases ha

theorem intoOriginZero_i16 {l oz : Line Placement} {e : Int} (h : intoOriginZero l e = .ok oz) : OzI16 oz := by
  simp only [intoOriginZero, bind_eq, bind_eq_ok, pure_eq, Outcome.ok.injEq] at h
  obtain ⟨s, hs, en, he, rfl⟩ := h
  exact ⟨intoOriginZeroPlacement_i16 hs, intoOriginZeroPlacement_i16 he⟩

theorem resolveDefinite_i16 {oz : Line Placement} {a : Line Int} (hz : OzI16 oz)
    (h : resolveDefiniteGridLines oz = .ok a) : I16 a.start ∧ I16 a.«end» := by
  obtain ⟨st, en⟩ := oz
  obtain ⟨w1, w2⟩ := hz
  cases st <;> cases en <;>
    simp only [resolveDefiniteGridLines, bind_eq, bind_eq_ok, pure_eq, ozAdd_eq_ok, ozSub_eq_ok, PlI16, I16,
      Outcome.ok.injEq] at h w1 w2
  all_goals first
    | (obtain ⟨e, ⟨rfl, _⟩, rfl⟩ := h; dsimp only [I16]; omega)
    | (split at h
       · simp only [bind_eq, bind_eq_ok, pure_eq, ozAdd_eq_ok, Outcome.ok.injEq] at h
         obtain ⟨e, ⟨rfl, _⟩, rfl⟩ := h; dsimp only [I16]; omega
       · simp only [pure_eq, Outcome.ok.injEq] at h; subst h; dsimp only [I16]; omega)
    | (cases h; done)

theorem searchFixedPrimary_i16 {m : Matrix} {ax : Axis} {prim : Line Int} {span : Int} :
    ∀ {fuel : Nat} {idx : Int} {p s : Line Int}, I16 idx → searchFixedPrimary m ax prim span fuel idx = .ok (p, s) →
      I16 s.start := by
  intro fuel
  induction fuel with
  | zero => intro idx p s _ h; cases h
  | succ n ih =>
    intro idx p s hi h
    simp only [searchFixedPrimary, bind_eq, bind_eq_ok, ozAdd_eq_ok] at h
    obtain ⟨e, _, free, h2, h3⟩ := h
    split at h3
    · simp only [bind_eq, bind_eq_ok, ozAdd_eq_ok] at h3
      obtain ⟨s', ⟨rfl, _, _, q1, q2⟩, h3⟩ := h3
      exact ih ⟨q1, q2⟩ h3
    · simp only [pure_eq, Outcome.ok.injEq, Prod.mk.injEq] at h3
      obtain ⟨_, rfl⟩ := h3
      exact hi

theorem searchBoth_i16 {m : Matrix} {ax : Axis} {pspan sspan startLine endLine : Int} :
    ∀ {fuel : Nat} {pi si : Int} {p s : Line Int}, I16 si →
      searchBoth m ax pspan sspan startLine endLine fuel pi si = .ok (p, s) → I16 p.«end» ∧ I16 s.start := by
  intro fuel
  induction fuel with
  | zero => intro pi si p s _ h; cases h
  | succ n ih =>
    intro pi si p s hi h
    simp only [searchBoth, bind_eq, bind_eq_ok, ozAdd_eq_ok] at h
    obtain ⟨pe, ⟨rfl, _, _, q1, q2⟩, se, _, h3⟩ := h
    split at h3
    · simp only [bind_eq, bind_eq_ok, ozAdd_eq_ok] at h3
      obtain ⟨s', ⟨rfl, _, _, r1, r2⟩, h3⟩ := h3
      exact ih ⟨r1, r2⟩ h3
    · simp only [bind_eq, bind_eq_ok] at h3
      obtain ⟨free, h2, h3⟩ := h3
      split at h3
      · simp only [bind_eq, bind_eq_ok, ozAdd_eq_ok] at h3
        obtain ⟨p', _, h3⟩ := h3
        exact ih hi h3
      · simp only [pure_eq, Outcome.ok.injEq, Prod.mk.injEq] at h3
        obtain ⟨rfl, rfl⟩ := h3
        exact ⟨⟨q1, q2⟩, hi⟩

/-! ### the two auto-placement functions and the phases under `defaultFuel` -/

theorem implicitStartLine_i16 {t : TrackCounts} {l : Int} (h : t.implicitStartLine = .ok l) : I16 l := by
  simp only [TrackCounts.implicitStartLine, bind_eq, bind_eq_ok] at h
  obtain ⟨_, _, h⟩ := h
  obtain ⟨rfl, h1, h2⟩ := i16_eq_ok.1 h
  exact ⟨h1, h2⟩

theorem placeDefiniteSecondaryAxisItem_nf {fuel : Nat} (hf : 65536 ≤ fuel) (m : Matrix) (c : OzChild)
    (flow : AutoFlow) : NF (placeDefiniteSecondaryAxisItem fuel m c flow) := by
  unfold placeDefiniteSecondaryAxisItem
  apply nf_bind' inferInstance; intro sec
  constructor
  intro hbad
  simp only [bind_eq] at hbad
  cases hsl : (m.trackCounts flow.primaryAxis).implicitStartLine with
  | ok startLine =>
    rw [hsl] at hbad
    simp only [ok_bind] at hbad
    have hs16 := implicitStartLine_i16 hsl
    cases hst : (if flow.isDense = true then pure startLine else do
        let l ← m.lastOfType flow.primaryAxis sec.start Cell.autoPlaced
        pure (l.getD startLine) : Outcome Int) with
    | ok starting =>
      simp only [bind_eq] at hst
      rw [hst] at hbad
      simp only [ok_bind] at hbad
      have h16 : I16 starting := by
        split at hst
        · simp only [pure_eq, Outcome.ok.injEq] at hst; subst hst; exact hs16
        · simp only [bind_eq_ok, pure_eq, Outcome.ok.injEq] at hst
          obtain ⟨l, hl, rfl⟩ := hst
          cases l with
          | none => exact hs16
          | some v =>
            simp only [Matrix.lastOfType, bind_eq, bind_eq_ok] at hl
            obtain ⟨_, _, _, _, hl⟩ := hl
            split at hl
            · simp at hl
            · simp only [bind_eq, bind_eq_ok, pure_eq, Outcome.ok.injEq, Option.some.injEq] at hl
              obtain ⟨_, _, l', hl', rfl⟩ := hl
              simp only [TrackCounts.trackToPrevOzLine, bind_eq, bind_eq_ok] at hl'
              obtain ⟨_, _, _, _, hl'⟩ := hl'
              obtain ⟨rfl, h1, h2⟩ := i16_eq_ok.1 hl'
              exact ⟨h1, h2⟩
      exact (searchSecondary_nf fuel starting (by have := h16.1; omega)).out hbad
    | panic msg => simp only [bind_eq] at hst; rw [hst] at hbad; cases hbad
    | overflow => simp only [bind_eq] at hst; rw [hst] at hbad; cases hbad
    | outOfFuel =>
      simp only [bind_eq] at hst
      have : NF (if flow.isDense = true then pure startLine else
          (m.lastOfType flow.primaryAxis sec.start Cell.autoPlaced).bind fun l => pure (l.getD startLine) :
          Outcome Int) := by nf
      exact this.out hst
  | panic msg => rw [hsl] at hbad; cases hbad
  | overflow => rw [hsl] at hbad; cases hbad
  | outOfFuel => exact (inferInstance : NF (m.trackCounts flow.primaryAxis).implicitStartLine).out hsl

theorem nf_bind_ok {α β : Type} {x : Outcome α} {f : α → Outcome β} (hx : NF x) (hf : ∀ a, x = .ok a → NF (f a)) :
    NF (x >>= f) := by
  constructor
  have := hx.out
  cases x with
  | ok a => exact (hf a rfl).out
  | panic m => simp [Outcome.bind]
  | overflow => simp [Outcome.bind]
  | outOfFuel => exact absurd rfl this

theorem placeIndefinitelyPositionedItem_nf {fuel : Nat} (hf : defaultFuel ≤ fuel) (m : Matrix) (c : OzChild)
    (flow : AutoFlow) (pos : Int × Int) (hp : I16 pos.1 ∧ I16 pos.2) :
    NF (placeIndefinitelyPositionedItem fuel m c flow pos) := by
  have e : defaultFuel = 4295098368 := rfl
  have hfuel : (4295098368 : Int) ≤ (fuel : Int) := by rw [e] at hf; omega
  obtain ⟨pi, si⟩ := pos
  obtain ⟨⟨p1, p2⟩, ⟨s1, s2⟩⟩ := hp
  dsimp only at p1 p2 s1 s2
  unfold placeIndefinitelyPositionedItem
  apply nf_bind' inferInstance; intro sspan
  apply nf_bind_ok inferInstance; intro startLine hsl
  apply nf_bind' inferInstance; intro endLine
  apply nf_bind_ok inferInstance; intro sstart hss
  have h1 := implicitStartLine_i16 hsl
  have h2 := implicitStartLine_i16 hss
  dsimp only
  split
  · apply nf_bind' inferInstance; intro primary
    apply nf_bind_ok (by nf); intro sidx hsidx
    have h16 : I16 sidx := by
      split at hsidx
      · simp only [pure_eq, Outcome.ok.injEq] at hsidx; subst hsidx; exact h2
      · split at hsidx
        · obtain ⟨rfl, _, _, q1, q2⟩ := ozAdd_eq_ok.1 hsidx; exact ⟨q1, q2⟩
        · simp only [pure_eq, Outcome.ok.injEq] at hsidx; subst hsidx; exact ⟨s1, s2⟩
    exact searchFixedPrimary_nf fuel sidx (by have := h16.1; omega)
  · apply nf_bind' inferInstance; intro pspan
    exact searchBoth_nf h1.1 fuel pi si (by omega)

theorem placeIndefinitelyPositionedItem_i16 {fuel : Nat} {m : Matrix} {c : OzChild} {flow : AutoFlow}
    {pos : Int × Int} {p s : Line Int} (hz : OzI16 (c.get flow.primaryAxis)) (hp : I16 pos.2)
    (h : placeIndefinitelyPositionedItem fuel m c flow pos = .ok (p, s)) : I16 p.«end» ∧ I16 s.start := by
  obtain ⟨pi, si⟩ := pos
  simp only [placeIndefinitelyPositionedItem, bind_eq, bind_eq_ok] at h
  obtain ⟨sspan, _, startLine, _, endLine, _, sstart, hss, h5⟩ := h
  have h2 := implicitStartLine_i16 hss
  split at h5
  · simp only [bind_eq, bind_eq_ok] at h5
    obtain ⟨prim, h6, sidx, hsidx, h8⟩ := h5
    have h16 : I16 sidx := by
      split at hsidx
      · simp only [pure_eq, Outcome.ok.injEq] at hsidx; subst hsidx; exact h2
      · split at hsidx
        · obtain ⟨rfl, _, _, q1, q2⟩ := ozAdd_eq_ok.1 hsidx; exact ⟨q1, q2⟩
        · simp only [pure_eq, Outcome.ok.injEq] at hsidx; subst hsidx; exact hp
    obtain ⟨rfl, _⟩ := searchFixedPrimary_spec h8
    exact ⟨(resolveDefinite_i16 hz h6).2, searchFixedPrimary_i16 h16 h8⟩
  · simp only [bind_eq, bind_eq_ok] at h5
    obtain ⟨pspan, _, h8⟩ := h5
    exact searchBoth_i16 hp h8

theorem phase2_nf {fuel : Nat} (hf : defaultFuel ≤ fuel) (flow : AutoFlow) :
    ∀ (cs : List OzChild) (st : State), NF (phase2 fuel flow st cs) := by
  have e : defaultFuel = 4295098368 := rfl
  have hf' : 65536 ≤ fuel := by rw [e] at hf; omega
  intro cs
  induction cs with
  | nil => intro st; unfold phase2; nf
  | cons c cs ih =>
    intro st
    unfold phase2
    apply nf_bind' (placeDefiniteSecondaryAxisItem_nf hf' _ _ _); intro ps
    nf

theorem phase4_nf {fuel : Nat} (hf : defaultFuel ≤ fuel) (flow : AutoFlow) (gridStart : Int × Int)
    (hg : I16 gridStart.1 ∧ I16 gridStart.2) :
    ∀ (cs : List OzChild) (st : State) (pos : Int × Int), (∀ c ∈ cs, OzI16 (c.get flow.primaryAxis)) →
      I16 pos.1 ∧ I16 pos.2 → NF (phase4 fuel flow gridStart st pos cs) := by
  intro cs
  induction cs with
  | nil => intro st pos _ _; unfold phase4; nf
  | cons c cs ih =>
    intro st pos hcs hpos
    unfold phase4
    apply nf_bind_ok (placeIndefinitelyPositionedItem_nf hf _ _ _ _ hpos); intro ⟨p, s⟩ hps
    apply nf_bind' inferInstance; intro st'
    apply ih _ _ (fun c' hc' => hcs c' (List.mem_cons_of_mem _ hc'))
    split
    · exact hg
    · exact placeIndefinitelyPositionedItem_i16 (hcs c List.mem_cons_self) hpos.2 hps

theorem placeGridItems_nf {fuel : Nat} (hf : defaultFuel ≤ fuel) (m : Matrix) (children : List (Nat × Child))
    (flow : AutoFlow) : NF (placeGridItems fuel m children flow) := by
  unfold placeGridItems
  dsimp only
  apply nf_bind' inferInstance; intro cs1
  apply nf_bind' inferInstance; intro st1
  apply nf_bind' inferInstance; intro cs2
  apply nf_bind' (phase2_nf hf _ _ _); intro st2
  apply nf_bind' inferInstance; intro pn
  apply nf_bind' inferInstance; intro sn
  apply nf_bind_ok inferInstance; intro ps hps
  apply nf_bind_ok inferInstance; intro ss hss
  apply nf_bind_ok inferInstance; intro cs4 hcs4
  obtain ⟨rfl, a1, a2⟩ := i16_eq_ok.1 hps
  obtain ⟨rfl, b1, b2⟩ := i16_eq_ok.1 hss
  refine phase4_nf hf flow _ ⟨⟨a1, a2⟩, ⟨b1, b2⟩⟩ cs4 _ _ ?_ ⟨⟨a1, a2⟩, ⟨b1, b2⟩⟩
  intro c hc
  obtain ⟨ic, _, hoz⟩ := mapO_spec hcs4 c hc
  obtain ⟨_, h1, h2⟩ := toOz_spec hoz
  cases flow.primaryAxis
  · exact intoOriginZero_i16 h1
  · exact intoOriginZero_i16 h2

/-- `run` never runs out of `defaultFuel` (or more) -/
theorem run_nf {fuel : Nat} (hf : defaultFuel ≤ fuel) (ec er : Int) (flow : AutoFlow) (children : List Child) :
    NF (run fuel ec er flow children) := by
  unfold run
  apply nf_bind' inferInstance; intro est
  apply nf_bind' inferInstance; intro m
  apply nf_bind' (placeGridItems_nf hf _ _ _); intro st
  infer_instance

end GridPlacement
