/-
  Lemmas about the slot-map model: the well-formedness invariant `WF` (free list = duplicate-free chain of vacant
  slots that never contains the sentinel; version parity; `num_elems` = number of occupied slots), its preservation by
  every operation, and the "map view" of a slot map (`get` after `set` / `insert` / `remove` / `clear`).
-/
import TaffyVerif.Model.SlotMap

namespace SlotMapModel
variable {V : Type}

/-! ### versions -/

theorem orOne_odd (v : Nat) : orOne v % 2 = 1 := by unfold orOne; split <;> omega
theorem orOne_ge (v : Nat) : v ≤ orOne v := by unfold orOne; split <;> omega
theorem orOne_le (v : Nat) : orOne v ≤ v + 1 := by unfold orOne; split <;> omega
theorem orOne_of_odd {v : Nat} (h : v % 2 = 1) : orOne v = v := by unfold orOne; split <;> omega
theorem wrapSucc_even {v : Nat} (h : v % 2 = 1) : wrapSucc v % 2 = 0 := by
  unfold wrapSucc u32Max; split <;> omega

/-! ### the free list -/

/-- `FreeChain slots h fl`: following `next_free` from `h` visits exactly the indices `fl`, all vacant, and ends at
    `slots.len()` -/
def FreeChain (slots : List (Slot V)) : Nat → List Nat → Prop
  | h, [] => h = slots.length
  | h, i :: rest => h = i ∧ ∃ ver next, slots[i]? = some (.vac ver next) ∧ FreeChain slots next rest

theorem FreeChain.vac {slots : List (Slot V)} {h : Nat} {fl : List Nat} (c : FreeChain slots h fl) :
    ∀ i ∈ fl, ∃ ver next, slots[i]? = some (.vac ver next) := by
  induction fl generalizing h with
  | nil => intro i hi; cases hi
  | cons j rest ih =>
    obtain ⟨rfl, ver, next, hs, c'⟩ := c
    intro i hi
    rcases List.mem_cons.mp hi with rfl | hi
    · exact ⟨ver, next, hs⟩
    · exact ih c' i hi

theorem FreeChain.set {slots : List (Slot V)} {h : Nat} {fl : List Nat} (c : FreeChain slots h fl)
    (i : Nat) (x : Slot V) (hi : i ∉ fl) : FreeChain (slots.set i x) h fl := by
  induction fl generalizing h with
  | nil => simpa [FreeChain] using c
  | cons j rest ih =>
    obtain ⟨rfl, ver, next, hs, c'⟩ := c
    have hne : i ≠ h := fun e => hi (e ▸ List.mem_cons_self)
    refine ⟨rfl, ver, next, ?_, ih c' (fun m => hi (List.mem_cons_of_mem _ m))⟩
    rw [List.getElem?_set_ne hne]; exact hs

theorem FreeChain.end_nil {slots : List (Slot V)} {h : Nat} {fl : List Nat} (c : FreeChain slots h fl)
    (hn : slots[h]? = none) : fl = [] ∧ h = slots.length := by
  cases fl with
  | nil => exact ⟨rfl, c⟩
  | cons j rest =>
    obtain ⟨rfl, ver, next, hs, _⟩ := c
    rw [hn] at hs; cases hs

/-! ### keys and counting -/

def Slot.isOcc : Slot V → Bool
  | .occ _ _ => true
  | .vac _ _ => false

theorem keysFrom_length (slots : List (Slot V)) (j : Nat) : (keysFrom slots j).length = slots.countP Slot.isOcc := by
  induction slots generalizing j with
  | nil => rfl
  | cons s rest ih => cases s <;> simp [keysFrom, ih, List.countP_cons, Slot.isOcc]

theorem mem_keysFrom (slots : List (Slot V)) (j : Nat) (k : Key) :
    k ∈ keysFrom slots j ↔ j ≤ k.idx ∧ ∃ v, slots[k.idx - j]? = some (.occ k.version v) := by
  induction slots generalizing j with
  | nil => simp [keysFrom]
  | cons s rest ih =>
    cases s with
    | occ ver v =>
      simp only [keysFrom, List.mem_cons, ih]
      constructor
      · rintro (rfl | ⟨h1, w, h2⟩)
        · exact ⟨Nat.le_refl _, v, by simp⟩
        · refine ⟨by omega, w, ?_⟩
          have : k.idx - j = (k.idx - (j + 1)) + 1 := by omega
          rw [this]; simpa using h2
      · rintro ⟨h1, w, h2⟩
        by_cases e : k.idx = j
        · left
          have : k.idx - j = 0 := by omega
          rw [this] at h2
          simp at h2
          cases k; simp_all
        · right
          refine ⟨by omega, w, ?_⟩
          have : k.idx - j = (k.idx - (j + 1)) + 1 := by omega
          rw [this] at h2; simpa using h2
    | vac ver n =>
      simp only [keysFrom, ih]
      constructor
      · rintro ⟨h1, w, h2⟩
        refine ⟨by omega, w, ?_⟩
        have : k.idx - j = (k.idx - (j + 1)) + 1 := by omega
        rw [this]; simpa using h2
      · rintro ⟨h1, w, h2⟩
        by_cases e : k.idx = j
        · have : k.idx - j = 0 := by omega
          rw [this] at h2
          simp at h2
        · refine ⟨by omega, w, ?_⟩
          have : k.idx - j = (k.idx - (j + 1)) + 1 := by omega
          rw [this] at h2; simpa using h2

theorem keysFrom_idx_ge (slots : List (Slot V)) (j : Nat) : ∀ k ∈ keysFrom slots j, j ≤ k.idx :=
  fun k hk => ((mem_keysFrom slots j k).mp hk).1

theorem keysFrom_nodup (slots : List (Slot V)) (j : Nat) : (keysFrom slots j).Nodup := by
  induction slots generalizing j with
  | nil => simp [keysFrom]
  | cons s rest ih =>
    cases s with
    | occ ver v =>
      simp only [keysFrom, List.nodup_cons]
      refine ⟨fun h => ?_, ih _⟩
      have := keysFrom_idx_ge rest (j + 1) _ h
      simp at this
      omega
    | vac ver n => exact ih _

/-- `k` is live in `m` iff it is one of `m.keys` -/
theorem mem_keys (m : SlotMap V) (k : Key) : k ∈ m.keys ↔ (m.get k).isSome := by
  unfold SlotMap.keys SlotMap.get
  rw [mem_keysFrom]
  simp only [Nat.zero_le, Nat.sub_zero, true_and]
  constructor
  · rintro ⟨v, h⟩; simp [h]
  · intro h
    split at h
    · rename_i ver v hs
      split at h
      · rename_i e; subst e; exact ⟨v, hs⟩
      · simp at h
    · simp at h

theorem keys_nodup (m : SlotMap V) : m.keys.Nodup := keysFrom_nodup _ _

/-! ### well-formedness -/

structure WF (m : SlotMap V) : Prop where
  chain : ∃ fl : List Nat, fl.Nodup ∧ (∀ i ∈ fl, 0 < i) ∧ FreeChain m.slots m.freeHead fl
  sentinel : ∃ n, m.slots[0]? = some (Slot.vac 0 n)
  parityOcc : ∀ (i ver : Nat) (v : V), m.slots[i]? = some (Slot.occ ver v) → ver % 2 = 1
  parityVac : ∀ (i ver n : Nat), m.slots[i]? = some (Slot.vac ver n) → ver % 2 = 0
  count : m.numElems = m.slots.countP Slot.isOcc

theorem WF.new : WF (SlotMap.new : SlotMap V) := by
  refine ⟨⟨[], List.nodup_nil, by simp, by simp [FreeChain, SlotMap.new]⟩, ⟨0, rfl⟩, ?_, ?_, rfl⟩
  · intro i ver v h
    cases i <;> simp [SlotMap.new] at h
  · intro i ver n h
    cases i <;> simp [SlotMap.new] at h
    omega

/-- `total`: number of live keys -/
theorem WF.len_eq {m : SlotMap V} (w : WF m) : m.len = m.keys.length := by
  rw [SlotMap.len, w.count, SlotMap.keys, keysFrom_length]

/-! ### get / set -/

theorem get_some_iff {m : SlotMap V} {k : Key} {v : V} :
    m.get k = some v ↔ m.slots[k.idx]? = some (.occ k.version v) := by
  unfold SlotMap.get
  constructor
  · intro h
    split at h
    · split at h
      · rename_i e; cases h; subst e; assumption
      · cases h
    · cases h
  · intro h; simp [h]

theorem get_none_of_vac {m : SlotMap V} {k : Key} {ver n : Nat} (h : m.slots[k.idx]? = some (.vac ver n)) :
    m.get k = none := by simp [SlotMap.get, h]

theorem get_none_of_oob {m : SlotMap V} {k : Key} (h : m.slots[k.idx]? = none) : m.get k = none := by
  simp [SlotMap.get, h]

theorem set_of_get {m : SlotMap V} {k : Key} {v0 : V} (h : m.get k = some v0) (v : V) :
    m.set k v = { m with slots := m.slots.set k.idx (.occ k.version v) } := by
  rw [get_some_iff] at h
  simp [SlotMap.set, h]

theorem set_of_get_none {m : SlotMap V} {k : Key} (h : m.get k = none) (v : V) : m.set k v = m := by
  unfold SlotMap.set
  unfold SlotMap.get at h
  split
  · rename_i ver v0 hs
    rw [hs] at h
    simp only at h
    split
    · rename_i e; simp [e] at h
    · rfl
  · rfl

/-- the map view of `set` -/
theorem get_set (m : SlotMap V) (k k' : Key) (v : V) :
    (m.set k v).get k' = if k' = k ∧ (m.get k).isSome then some v else m.get k' := by
  cases h : m.get k with
  | none => simp [set_of_get_none h]
  | some v0 =>
    rw [set_of_get h]
    have hs := get_some_iff.mp h
    have hlt : k.idx < m.slots.length := by
      rcases Nat.lt_or_ge k.idx m.slots.length with h1 | h1
      · exact h1
      · rw [List.getElem?_eq_none h1] at hs; cases hs
    by_cases e : k' = k
    · subst e
      simp [SlotMap.get, hlt]
    · simp only [e, false_and, if_false]
      by_cases ei : k'.idx = k.idx
      · have hv : k.version ≠ k'.version := by
          intro hv; apply e; cases k; cases k'; simp_all
        have h1 : ({ m with slots := m.slots.set k.idx (.occ k.version v) } : SlotMap V).get k' = none := by
          simp only [SlotMap.get, ei, List.getElem?_set_self hlt]; simp [hv]
        have h2 : m.get k' = none := by simp only [SlotMap.get, ei, hs]; simp [hv]
        rw [h1, h2]
      · have ei' : k.idx ≠ k'.idx := fun h => ei h.symm
        simp [SlotMap.get, List.getElem?_set_ne ei']

theorem set_slots_length (m : SlotMap V) (k : Key) (v : V) : (m.set k v).slots.length = m.slots.length := by
  unfold SlotMap.set; split
  · split <;> simp
  · rfl

theorem shape_set (m : SlotMap V) (k : Key) (v : V) : (m.set k v).shape = m.shape := by
  cases h : m.get k with
  | none => rw [set_of_get_none h]
  | some v0 =>
    rw [set_of_get h]
    have hs := get_some_iff.mp h
    simp only [SlotMap.shape, SlotMap.mk.injEq, and_true]
    apply List.ext_getElem?
    intro i
    simp only [List.getElem?_map, List.getElem?_set]
    by_cases e : k.idx = i
    · subst e
      have hlt : k.idx < m.slots.length := by
        rcases Nat.lt_or_ge k.idx m.slots.length with h1 | h1
        · exact h1
        · rw [List.getElem?_eq_none h1] at hs; cases hs
      simp only [↓reduceIte, hlt, hs, Option.map_some, Slot.shape]
    · simp [e]

/-- everything in `WF` depends on the shape only -/
theorem wf_iff_shape (m : SlotMap V) : WF m ↔ WF m.shape := by
  have hget : ∀ i : Nat, m.shape.slots[i]? = (m.slots[i]?).map Slot.shape := by
    intro i; simp [SlotMap.shape]
  have hvac : ∀ (i ver n : Nat), m.shape.slots[i]? = some (.vac ver n) ↔ m.slots[i]? = some (.vac ver n) := by
    intro i ver n
    rw [hget]
    cases h : m.slots[i]? with
    | none => simp
    | some s => cases s <;> simp [Slot.shape]
  have hocc : ∀ (i ver : Nat), (∃ v, m.shape.slots[i]? = some (.occ ver v)) ↔ ∃ v, m.slots[i]? = some (.occ ver v) := by
    intro i ver
    rw [hget]
    cases h : m.slots[i]? with
    | none => simp
    | some s => cases s <;> simp [Slot.shape]
  have hchain : ∀ fl h, FreeChain m.shape.slots h fl ↔ FreeChain m.slots h fl := by
    intro fl
    induction fl with
    | nil => intro h; simp [FreeChain, SlotMap.shape]
    | cons j rest ih =>
      intro h
      simp only [FreeChain, hvac, ih]
  have hcount : m.shape.slots.countP Slot.isOcc = m.slots.countP Slot.isOcc := by
    simp only [SlotMap.shape, List.countP_map]
    congr 1
    funext s
    cases s <;> rfl
  constructor
  · intro w
    refine ⟨?_, ?_, ?_, ?_, ?_⟩
    · obtain ⟨fl, h1, h2, h3⟩ := w.chain
      exact ⟨fl, h1, h2, (hchain fl _).mpr h3⟩
    · obtain ⟨n, h⟩ := w.sentinel
      exact ⟨n, (hvac 0 0 n).mpr h⟩
    · intro i ver v h
      obtain ⟨v', h'⟩ := (hocc i ver).mp ⟨v, h⟩
      exact w.parityOcc i ver v' h'
    · intro i ver n h
      exact w.parityVac i ver n ((hvac i ver n).mp h)
    · rw [hcount]; exact w.count
  · intro w
    refine ⟨?_, ?_, ?_, ?_, ?_⟩
    · obtain ⟨fl, h1, h2, h3⟩ := w.chain
      exact ⟨fl, h1, h2, (hchain fl _).mp h3⟩
    · obtain ⟨n, h⟩ := w.sentinel
      exact ⟨n, (hvac 0 0 n).mp h⟩
    · intro i ver v h
      obtain ⟨v', h'⟩ := (hocc i ver).mpr ⟨v, h⟩
      exact w.parityOcc i ver v' h'
    · intro i ver n h
      exact w.parityVac i ver n ((hvac i ver n).mpr h)
    · rw [← hcount]; exact w.count

theorem WF.set {m : SlotMap V} (w : WF m) (k : Key) (v : V) : WF (m.set k v) := by
  rw [wf_iff_shape, shape_set, ← wf_iff_shape]; exact w

theorem WF.of_shape_eq {W : Type} {m : SlotMap V} {m' : SlotMap W} (w : WF m) (h : m'.shape = m.shape) : WF m' := by
  rw [wf_iff_shape, h, ← wf_iff_shape]; exact w

theorem isSome_get_shape (m : SlotMap V) (k : Key) : (m.shape.get k).isSome = (m.get k).isSome := by
  simp only [SlotMap.get, SlotMap.shape, List.getElem?_map]
  cases h : m.slots[k.idx]? with
  | none => simp
  | some s =>
    cases s with
    | occ ver v => simp only [Option.map_some, Slot.shape]; split <;> rfl
    | vac ver n => simp [Slot.shape]

/-- maps in lock-step have the same live keys -/
theorem isSome_get_of_shape_eq {W : Type} {m : SlotMap V} {m' : SlotMap W} (h : m'.shape = m.shape) (k : Key) :
    (m'.get k).isSome = (m.get k).isSome := by
  rw [← isSome_get_shape m', h, isSome_get_shape]

theorem get_congr_slot {W : Type} {m m' : SlotMap W} {k : Key} (h : m'.slots[k.idx]? = m.slots[k.idx]?) :
    m'.get k = m.get k := by
  simp only [SlotMap.get, h]

theorem lt_length_of_getElem? {α : Type} {l : List α} {i : Nat} {a : α} (h : l[i]? = some a) : i < l.length := by
  rcases Nat.lt_or_ge i l.length with h1 | h1
  · exact h1
  · rw [List.getElem?_eq_none h1] at h; cases h

theorem getElem?_set_cases {α : Type} {l : List α} {i j : Nat} {a b : α} (hlt : i < l.length)
    (h : (l.set i a)[j]? = some b) : (i = j ∧ b = a) ∨ (i ≠ j ∧ l[j]? = some b) := by
  by_cases e : i = j
  · subst e
    rw [List.getElem?_set_self hlt] at h
    exact Or.inl ⟨rfl, (Option.some.inj h).symm⟩
  · rw [List.getElem?_set_ne e] at h
    exact Or.inr ⟨e, h⟩

theorem WF.length_pos {m : SlotMap V} (w : WF m) : 0 < m.slots.length := by
  obtain ⟨n, h⟩ := w.sentinel
  exact lt_length_of_getElem? h

/-! ### insert -/

theorem insert_spec {m : SlotMap V} (w : WF m) (v : V) (hfull : m.slots.length < u32Max) :
    ∃ m' k, m.insert v = some (m', k) ∧ WF m' ∧ m.get k = none ∧ k.version % 2 = 1 ∧
      (∀ k', m'.get k' = if k' = k then some v else m.get k') := by
  obtain ⟨fl, hnd, hpos, hch⟩ := w.chain
  have hlen := w.length_pos
  obtain ⟨sn, hsent⟩ := w.sentinel
  cases fl with
  | nil =>
    have hfh : m.freeHead = m.slots.length := hch
    have hnone : m.slots[m.freeHead]? = none := by rw [hfh]; exact List.getElem?_eq_none (Nat.le_refl _)
    have hnf : ¬ m.slots.length ≥ u32Max := by omega
    refine ⟨⟨m.slots ++ [Slot.occ 1 v], m.slots.length + 1, m.numElems + 1⟩, ⟨m.slots.length, 1⟩,
      by simp only [SlotMap.insert, hnone, hnf, if_false], ?_, ?_, by simp, ?_⟩
    · refine ⟨⟨[], List.nodup_nil, by simp, by simp [FreeChain]⟩, ⟨sn, ?_⟩, ?_, ?_, ?_⟩
      · show (m.slots ++ [Slot.occ 1 v])[0]? = _
        rw [List.getElem?_append_left hlen]; exact hsent
      · intro i ver x h
        change (m.slots ++ [Slot.occ 1 v])[i]? = _ at h
        rcases Nat.lt_or_ge i m.slots.length with h1 | h1
        · rw [List.getElem?_append_left h1] at h; exact w.parityOcc i ver x h
        · rw [List.getElem?_append_right h1] at h
          cases hh : i - m.slots.length with
          | zero => rw [hh] at h; simp at h; omega
          | succ j => rw [hh] at h; simp at h
      · intro i ver n h
        change (m.slots ++ [Slot.occ 1 v])[i]? = _ at h
        rcases Nat.lt_or_ge i m.slots.length with h1 | h1
        · rw [List.getElem?_append_left h1] at h; exact w.parityVac i ver n h
        · rw [List.getElem?_append_right h1] at h
          cases hh : i - m.slots.length with
          | zero => rw [hh] at h; simp at h
          | succ j => rw [hh] at h; simp at h
      · show m.numElems + 1 = (m.slots ++ [Slot.occ 1 v]).countP Slot.isOcc
        rw [List.countP_append, w.count]; simp [Slot.isOcc]
    · exact get_none_of_oob (List.getElem?_eq_none (Nat.le_refl _))
    · intro k'
      rcases Nat.lt_trichotomy k'.idx m.slots.length with h1 | h1 | h1
      · have hne : k' ≠ ⟨m.slots.length, 1⟩ := by intro e; rw [e] at h1; simp at h1
        rw [if_neg hne]
        apply get_congr_slot
        show (m.slots ++ [Slot.occ 1 v])[k'.idx]? = _
        exact List.getElem?_append_left h1
      · have h2 : m.get k' = none := get_none_of_oob (List.getElem?_eq_none (Nat.le_of_eq h1.symm))
        rw [h2]
        have h3 : (m.slots ++ [Slot.occ 1 v])[k'.idx]? = some (Slot.occ 1 v) := by
          rw [h1, List.getElem?_append_right (Nat.le_refl _)]; simp
        simp only [SlotMap.get, h3]
        by_cases e : 1 = k'.version
        · have : k' = ⟨m.slots.length, 1⟩ := by cases k'; simp_all
          simp [this]
        · have : k' ≠ ⟨m.slots.length, 1⟩ := by intro h; apply e; rw [h]
          simp [e, this]
      · have hne : k' ≠ ⟨m.slots.length, 1⟩ := by intro e; rw [e] at h1; simp at h1
        rw [if_neg hne]
        have h2 : m.get k' = none := get_none_of_oob (List.getElem?_eq_none (Nat.le_of_lt h1))
        rw [h2]
        apply get_none_of_oob
        apply List.getElem?_eq_none
        show (m.slots ++ [Slot.occ 1 v]).length ≤ k'.idx
        simp; omega
  | cons h rest =>
    obtain ⟨hfh, ver, next, hs, hch'⟩ := hch
    rw [← hfh] at hs
    have hlt : m.freeHead < m.slots.length := lt_length_of_getElem? hs
    have hnotin : m.freeHead ∉ rest := by rw [hfh]; exact (List.nodup_cons.mp hnd).1
    have hne0 : m.freeHead ≠ 0 := by
      have := hpos h List.mem_cons_self
      omega
    refine ⟨⟨m.slots.set m.freeHead (Slot.occ (orOne ver) v), next, m.numElems + 1⟩, ⟨m.freeHead, orOne ver⟩,
      by simp only [SlotMap.insert, hs], ?_, get_none_of_vac hs, orOne_odd ver, ?_⟩
    · refine ⟨⟨rest, (List.nodup_cons.mp hnd).2, fun i hi => hpos i (List.mem_cons_of_mem _ hi),
        hch'.set _ _ hnotin⟩, ⟨sn, ?_⟩, ?_, ?_, ?_⟩
      · show (m.slots.set m.freeHead _)[0]? = _
        rw [List.getElem?_set_ne hne0]; exact hsent
      · intro i ver' x hx
        change (m.slots.set m.freeHead _)[i]? = _ at hx
        rcases getElem?_set_cases hlt hx with ⟨_, hb⟩ | ⟨_, hb⟩
        · cases hb; exact orOne_odd ver
        · exact w.parityOcc i ver' x hb
      · intro i ver' n hx
        change (m.slots.set m.freeHead _)[i]? = _ at hx
        rcases getElem?_set_cases hlt hx with ⟨_, hb⟩ | ⟨_, hb⟩
        · cases hb
        · exact w.parityVac i ver' n hb
      · show m.numElems + 1 = (m.slots.set m.freeHead _).countP Slot.isOcc
        rw [List.countP_set hlt, w.count]
        have : m.slots[m.freeHead] = Slot.vac ver next := by
          have := List.getElem?_eq_getElem hlt
          rw [this] at hs; exact Option.some.inj hs
        simp [this, Slot.isOcc]
    · intro k'
      by_cases ei : k'.idx = m.freeHead
      · have h2 : m.get k' = none := get_none_of_vac (ei ▸ hs)
        rw [h2]
        have h3 : (m.slots.set m.freeHead (Slot.occ (orOne ver) v))[k'.idx]? = some (Slot.occ (orOne ver) v) := by
          rw [ei]; exact List.getElem?_set_self hlt
        simp only [SlotMap.get, h3]
        by_cases e : orOne ver = k'.version
        · have : k' = ⟨m.freeHead, orOne ver⟩ := by cases k'; simp_all
          simp [this]
        · have : k' ≠ ⟨m.freeHead, orOne ver⟩ := by intro h; apply e; rw [h]
          simp [e, this]
      · have hne : k' ≠ ⟨m.freeHead, orOne ver⟩ := by intro e; apply ei; rw [e]
        rw [if_neg hne]
        apply get_congr_slot
        show (m.slots.set m.freeHead _)[k'.idx]? = _
        exact List.getElem?_set_ne (fun h => ei h.symm)

theorem shape_insert (m : SlotMap V) (v : V) :
    (m.insert v).map (fun r => (r.1.shape, r.2)) = m.shape.insert () := by
  have hget : m.shape.slots[m.freeHead]? = (m.slots[m.freeHead]?).map Slot.shape := by simp [SlotMap.shape]
  unfold SlotMap.insert
  rw [show m.shape.freeHead = m.freeHead from rfl, hget]
  cases h : m.slots[m.freeHead]? with
  | none =>
    have hl : m.shape.slots.length = m.slots.length := by simp [SlotMap.shape]
    simp only [Option.map_none, hl]
    split
    · rfl
    · simp [SlotMap.shape, Slot.shape]
  | some s =>
    cases s with
    | occ ver x => simp [Slot.shape]
    | vac ver next => simp [Slot.shape, SlotMap.shape, List.map_set]

/-- two maps in lock-step hand out the same key and stay in lock-step -/
theorem insert_lockstep {W : Type} {m : SlotMap V} {m' : SlotMap W} (hsh : m'.shape = m.shape) {v : V} {v' : W}
    {r : SlotMap V × Key} {r' : SlotMap W × Key} (h : m.insert v = some r) (h' : m'.insert v' = some r') :
    r'.2 = r.2 ∧ r'.1.shape = r.1.shape := by
  have e1 := shape_insert m v
  have e2 := shape_insert m' v'
  rw [h] at e1; rw [h', hsh, ← e1] at e2
  simp only [Option.map_some, Option.some.injEq, Prod.mk.injEq] at e2
  exact ⟨e2.2, e2.1⟩

/-! ### remove -/

theorem removeFromSlot_wf {m : SlotMap V} (w : WF m) {i ver : Nat} {v : V} (hs : m.slots[i]? = some (.occ ver v)) :
    WF (m.removeFromSlot i ver) := by
  obtain ⟨fl, hnd, hpos, hch⟩ := w.chain
  obtain ⟨sn, hsent⟩ := w.sentinel
  have hlt : i < m.slots.length := lt_length_of_getElem? hs
  have hne0 : i ≠ 0 := by intro e; rw [e, hsent] at hs; cases hs
  have hnotin : i ∉ fl := by
    intro hi
    obtain ⟨a, b, hv⟩ := hch.vac i hi
    rw [hs] at hv; cases hv
  refine ⟨⟨i :: fl, List.nodup_cons.mpr ⟨hnotin, hnd⟩, ?_, ?_⟩, ⟨sn, ?_⟩, ?_, ?_, ?_⟩
  · intro j hj
    rcases List.mem_cons.mp hj with rfl | hj
    · omega
    · exact hpos j hj
  · refine ⟨rfl, wrapSucc ver, m.freeHead, ?_, hch.set _ _ hnotin⟩
    show (m.slots.set i _)[i]? = _
    exact List.getElem?_set_self hlt
  · show (m.slots.set i _)[0]? = _
    rw [List.getElem?_set_ne hne0]; exact hsent
  · intro j ver' x hx
    change (m.slots.set i _)[j]? = _ at hx
    rcases getElem?_set_cases hlt hx with ⟨_, hb⟩ | ⟨_, hb⟩
    · cases hb
    · exact w.parityOcc j ver' x hb
  · intro j ver' n hx
    change (m.slots.set i _)[j]? = _ at hx
    rcases getElem?_set_cases hlt hx with ⟨_, hb⟩ | ⟨_, hb⟩
    · cases hb
      exact wrapSucc_even (w.parityOcc i ver v hs)
    · exact w.parityVac j ver' n hb
  · show m.numElems - 1 = (m.slots.set i _).countP Slot.isOcc
    rw [List.countP_set hlt, w.count]
    have : m.slots[i] = Slot.occ ver v := by
      have := List.getElem?_eq_getElem hlt
      rw [this] at hs; exact Option.some.inj hs
    simp [this, Slot.isOcc]

theorem remove_of_get_none {m : SlotMap V} {k : Key} (h : m.get k = none) : m.remove k = (m, none) := by
  unfold SlotMap.remove
  unfold SlotMap.get at h
  split
  · rename_i ver v0 hs
    rw [hs] at h
    simp only at h
    split
    · rename_i e; simp [e] at h
    · rfl
  · rfl

theorem remove_of_get {m : SlotMap V} {k : Key} {v : V} (h : m.get k = some v) :
    m.remove k = (m.removeFromSlot k.idx k.version, some v) := by
  rw [get_some_iff] at h
  simp [SlotMap.remove, h]

theorem remove_spec {m : SlotMap V} (w : WF m) (k : Key) :
    WF (m.remove k).1 ∧ (∀ k', (m.remove k).1.get k' = if k' = k then none else m.get k') := by
  cases h : m.get k with
  | none =>
    rw [remove_of_get_none h]
    refine ⟨w, fun k' => ?_⟩
    by_cases e : k' = k
    · simp [e, h]
    · simp [e]
  | some v =>
    rw [remove_of_get h]
    have hs := get_some_iff.mp h
    have hlt : k.idx < m.slots.length := lt_length_of_getElem? hs
    refine ⟨removeFromSlot_wf w hs, fun k' => ?_⟩
    by_cases ei : k'.idx = k.idx
    · have h3 : (m.removeFromSlot k.idx k.version).get k' = none := by
        apply get_none_of_vac (ver := wrapSucc k.version) (n := m.freeHead)
        show (m.slots.set k.idx _)[k'.idx]? = _
        rw [ei]; exact List.getElem?_set_self hlt
      rw [h3]
      by_cases e : k' = k
      · simp [e]
      · rw [if_neg e]
        have hv : k.version ≠ k'.version := by
          intro hv; apply e; cases k; cases k'; simp_all
        simp only [SlotMap.get, ei, hs]; simp [hv]
    · have hne : k' ≠ k := by intro e; apply ei; rw [e]
      rw [if_neg hne]
      apply get_congr_slot
      show (m.slots.set k.idx _)[k'.idx]? = _
      exact List.getElem?_set_ne (fun h => ei h.symm)

theorem shape_removeFromSlot (m : SlotMap V) (i ver : Nat) :
    (m.removeFromSlot i ver).shape = m.shape.removeFromSlot i ver := by
  simp [SlotMap.removeFromSlot, SlotMap.shape, List.map_set, Slot.shape]

theorem shape_remove (m : SlotMap V) (k : Key) : (m.remove k).1.shape = (m.shape.remove k).1 := by
  have hget : m.shape.slots[k.idx]? = (m.slots[k.idx]?).map Slot.shape := by simp [SlotMap.shape]
  unfold SlotMap.remove
  rw [hget]
  cases h : m.slots[k.idx]? with
  | none => simp
  | some s =>
    cases s with
    | occ ver x =>
      simp only [Option.map_some, Slot.shape]
      split
      · exact shape_removeFromSlot _ _ _
      · rfl
    | vac ver next => simp [Slot.shape]

/-! ### clear -/

def NoOccBelow (m : SlotMap V) (c : Nat) : Prop := ∀ i < c, ∀ ver v, m.slots[i]? ≠ some (Slot.occ ver v)

theorem drainFrom_spec (n : Nat) : ∀ (m : SlotMap V) (cur : Nat), WF m → NoOccBelow m cur → cur + n = m.slots.length →
    WF (m.drainFrom cur n) ∧ NoOccBelow (m.drainFrom cur n) (m.drainFrom cur n).slots.length := by
  induction n with
  | zero =>
    intro m cur w hno hlen
    simp only [SlotMap.drainFrom]
    have : cur = m.slots.length := by omega
    exact ⟨w, this ▸ hno⟩
  | succ n ih =>
    intro m cur w hno hlen
    simp only [SlotMap.drainFrom]
    split
    · rename_i ver v hs
      have hlt : cur < m.slots.length := lt_length_of_getElem? hs
      apply ih
      · exact removeFromSlot_wf w hs
      · intro i hi ver' v' hx
        change (m.slots.set cur _)[i]? = _ at hx
        rcases getElem?_set_cases hlt hx with ⟨_, hb⟩ | ⟨hne, hb⟩
        · cases hb
        · exact hno i (by omega) ver' v' hb
      · show cur + 1 + n = (m.slots.set cur _).length
        simp; omega
    · rename_i hs
      apply ih _ _ w
      · intro i hi ver' v' hx
        by_cases e : i = cur
        · subst e; exact hs ver' v' hx
        · exact hno i (by omega) ver' v' hx
      · omega

theorem clear_spec {m : SlotMap V} (w : WF m) : WF m.clear ∧ (∀ k, m.clear.get k = none) ∧ m.clear.len = 0 := by
  have hlen := w.length_pos
  obtain ⟨sn, hsent⟩ := w.sentinel
  have hc : m.clear = m.drainFrom 1 (m.slots.length - 1) := rfl
  rw [hc]
  generalize hm' : m.drainFrom 1 (m.slots.length - 1) = m' at *
  have h0 : NoOccBelow m 1 := by
    intro i hi ver v hx
    have : i = 0 := by omega
    subst this
    rw [hsent] at hx; cases hx
  obtain ⟨w', hno⟩ := drainFrom_spec (m.slots.length - 1) m 1 w h0 (by omega)
  rw [hm'] at w' hno
  refine ⟨w', fun k => ?_, ?_⟩
  · cases h : m'.get k with
    | none => rfl
    | some v =>
      have hs := get_some_iff.mp h
      exact absurd hs (hno k.idx (lt_length_of_getElem? hs) _ _)
  · show m'.numElems = 0
    rw [w'.count, List.countP_eq_zero]
    intro s hs
    obtain ⟨i, hi, rfl⟩ := List.getElem_of_mem hs
    cases hsl : m'.slots[i] with
    | vac ver n => simp [Slot.isOcc]
    | occ ver v =>
      exfalso
      apply hno i hi ver v
      rw [List.getElem?_eq_getElem hi, hsl]

theorem shape_drainFrom (n : Nat) : ∀ (m : SlotMap V) (cur : Nat),
    (m.drainFrom cur n).shape = m.shape.drainFrom cur n := by
  induction n with
  | zero => intro m cur; rfl
  | succ n ih =>
    intro m cur
    have hget : m.shape.slots[cur]? = (m.slots[cur]?).map Slot.shape := by simp [SlotMap.shape]
    simp only [SlotMap.drainFrom]
    rw [hget]
    cases h : m.slots[cur]? with
    | none => simp only [Option.map_none]; exact ih _ _
    | some s =>
      cases s with
      | occ ver x =>
        simp only [Option.map_some, Slot.shape]
        rw [ih, shape_removeFromSlot]
      | vac ver next =>
        simp only [Option.map_some, Slot.shape]; exact ih _ _

theorem shape_clear (m : SlotMap V) : m.clear.shape = m.shape.clear := by
  unfold SlotMap.clear
  rw [shape_drainFrom]
  simp [SlotMap.shape]

end SlotMapModel
