/-
  `GridModel.computeGridLayoutE` (Model/Grid.lean) cut into stages, each a contiguous piece of the `do` block that ends by
  calling the next one (so the nesting of the binds is exactly that of the model, and the equations are `rfl`):

      computeGridLayoutE = early return (ComputeSize with both sizes known)
                         | gridSetupK (steps 2–5, track indexes, crossings: no child call, may panic)
                             ▸ gridMain (step 6: the two runs of the track sizing algorithm; container size;
                                          early return in ComputeSize mode)
                                 ▸ gridStep7 (percentage tracks, the re-run conditions and re-runs)
                                     ▸ gridTail (track alignment, item positioning, hidden/absolute loop, output)
-/
import TaffyVerif.Lemmas.EvalGridSizing

set_option linter.unusedSectionVars false
set_option linter.unusedVariables false

namespace EvalGrid
open GridModel GridTracks EvalBlock
variable {α : Type} [Num α] [NumCast α]

/-- what steps 2–5 and the index resolution produce -/
structure Setup (α : Type) where
  finalColCounts : GridPlacement.TrackCounts
  finalRowCounts : GridPlacement.TrackCounts
  columns : List (GridTrack α)
  rows : List (GridTrack α)
  items : List (GItem α)

/-- the children that generate boxes and are not absolutely positioned, as inputs of the size estimate (step 3) -/
def boxChildrenOf (childStyles : List (GridChildStyle α)) : List GridPlacement.Child :=
  ((childStyles.filter fun cs => !cs.base.isHidden).filter fun cs => cs.base.position != .absolute).map fun cs =>
    ⟨cs.gridRow, cs.gridColumn⟩

omit [NumCast α] in
theorem boxChildrenOf_cons (a : GridChildStyle α) (as : List (GridChildStyle α)) :
    boxChildrenOf (a :: as) =
      if (!a.base.isHidden && a.base.position != .absolute) = true then ⟨a.gridRow, a.gridColumn⟩ :: boxChildrenOf as
      else boxChildrenOf as := by
  unfold boxChildrenOf
  cases h1 : a.base.isHidden <;> cases h2 : (a.base.position != Position.absolute) <;>
    simp [List.filter_cons, h1, h2]

/-- the in-flow children with their indices (step 4) -/
def inFlowOf (childStyles : List (GridChildStyle α)) : List (Nat × GridPlacement.Child) :=
  ((GridPlacement.enumFrom 0 childStyles).filter fun ic =>
    !ic.2.base.isHidden && ic.2.base.position != .absolute).map fun ic => (ic.1, ⟨ic.2.gridRow, ic.2.gridColumn⟩)

/-- steps 2–4: the explicit grid, the size estimate, placement.  Reads the child styles only through `boxChildren`
(the children that generate boxes) and `inFlow` (those of them that are not absolutely positioned, with their indices) -/
def gridSetupA {β : Type} (style : GridStyle α) (boxChildren : List GridPlacement.Child)
    (inFlow : List (Nat × GridPlacement.Child)) (inputs : LayoutInput α) (k : GridPlacement.State → GM α β) :
    GM α β := do
  let s := style.base
  let c := mkCtx s inputs
  let explicitColCount ← GM.ofExcept (computeExplicitGridSizeInAxis s.size.width s.maxSize.width s.gap.width
    style.gridTemplateColumns c.autoFitContainerSize.width)
  let explicitRowCount ← GM.ofExcept (computeExplicitGridSizeInAxis s.size.height s.maxSize.height s.gap.height
    style.gridTemplateRows c.autoFitContainerSize.height)
  let (estColCounts, estRowCounts) ←
    GM.ofOutcome (GridPlacement.computeGridSizeEstimate explicitColCount explicitRowCount boxChildren)
  let matrix0 ← GM.ofOutcome (GridPlacement.Matrix.withTrackCounts estColCounts estRowCounts)
  let placed ← GM.ofOutcome (GridPlacement.placeGridItems GridPlacement.defaultFuel matrix0 inFlow style.gridAutoFlow)
  k placed

/-- the grid items of the placed children -/
def itemsOf (c : Ctx α) (childStyles : List (GridChildStyle α)) (placed : GridPlacement.State) : List (GItem α) :=
  placed.items.reverse.map fun p =>
    GItem.new p.index p.column p.row ((childStyles[p.index]?).map (·.base) |>.getD Style.default)
      (c.alignItems.getD .stretch) (c.justifyItems.getD .stretch) p.index

/-- step 5, `resolve_item_track_indexes`, `determine_if_item_crosses_flexible_or_intrinsic_tracks` -/
def gridSetupB {β : Type} (style : GridStyle α) (items : List (GItem α)) (placed : GridPlacement.State)
    (k : Setup α → GM α β) : GM α β := do
  let s := style.base
  let matrix := placed.matrix
  let finalColCounts := matrix.columns
  let finalRowCounts := matrix.rows
  let columns ← GM.ofExcept (initializeGridTracks (toNatCounts finalColCounts) style.gridTemplateColumns
    style.gridAutoColumns s.gap.width (columnIsOccupied matrix))
  let rows ← GM.ofExcept (initializeGridTracks (toNatCounts finalRowCounts) style.gridTemplateRows
    style.gridAutoRows s.gap.height (rowIsOccupied matrix))
  let items ← GM.ofOutcome (resolveItemTrackIndexes items finalColCounts finalRowCounts)
  let items := determineCrossings items columns rows
  k { finalColCounts, finalRowCounts, columns, rows, items }

/-- steps 2–5, `resolve_item_track_indexes`, `determine_if_item_crosses_flexible_or_intrinsic_tracks` -/
def gridSetupK {β : Type} (style : GridStyle α) (childStyles : List (GridChildStyle α)) (inputs : LayoutInput α)
    (k : Setup α → GM α β) : GM α β :=
  gridSetupA style (boxChildrenOf childStyles) (inFlowOf childStyles) inputs fun placed =>
    gridSetupB style (itemsOf (mkCtx style.base inputs) childStyles placed) placed k

/-- steps 8 and 9 -/
def gridTail (c : Ctx α) (childStyles : List (GridChildStyle α)) (containerBorderBox containerContentBox : Size α)
    (finalColCounts finalRowCounts : GridPlacement.TrackCounts) (columns rows : List (GridTrack α))
    (items : List (GItem α)) : GM α (LayoutOutput α) := do
  let columns := alignTracks containerContentBox.width c.padding.left c.border.left columns c.justifyContent
  let rows := alignTracks containerContentBox.height c.padding.top c.border.top rows c.alignContent
  let items := items.mergeSort fun a b => decide (a.sourceOrder ≤ b.sourceOrder)
  let (items, itemContentSize) ← positionItems childStyles rows columns c.justifyItems c.alignItems items 0 Size.zero
  let itemContentSize ← hiddenAbsLoop c containerBorderBox rows columns finalColCounts finalRowCounts childStyles 0
    items.length itemContentSize
  if items.isEmpty then pure (LayoutOutput.fromOuterSize containerBorderBox) else
  pure (LayoutOutput.fromSizesAndBaselines containerBorderBox itemContentSize ⟨none, some (gridContainerBaseline items)⟩)

/-- step 7: the test whether the sizing of axis `ax` must be re-run (`rerun0`: a percentage track and an indefinite
parent size; otherwise: did the min-content contribution of an item crossing an intrinsic column change?) -/
def step7Prep (ax : Ax) (rerun0 : Bool) (otherTracks : List (GridTrack α)) (innerNodeSize : Size (Option α))
    (items : List (GItem α)) : GM α (Bool × List (GItem α)) :=
  if !rerun0 then minContentChanged ax otherTracks innerNodeSize items
  else pure (true, clearCaches ax items)

/-- step 7: the re-runs -/
def step7Mid (availableSpace : Size (AvailableSpace α)) (colArgs rowArgs : RunArgs α) (innerNodeSize : Size (Option α))
    (columns rows : List (GridTrack α)) (rerunColumnSizing : Bool) (items : List (GItem α)) :
    GM α (List (GridTrack α) × List (GridTrack α) × List (GItem α)) :=
  if rerunColumnSizing then do
    let st ← trackSizingAlgorithmM { colArgs with innerNodeSize, est := .baseSize }
      { axisTracks := columns, otherAxisTracks := rows, items }
    let columns := st.axisTracks
    let rows := st.otherAxisTracks
    let items := st.items
    let hasPercentageRow := rows.any (·.usesPercentage)
    let parentHeightIndefinite := !availableSpace.height.isDefinite
    let rerunRowSizing0 := parentHeightIndefinite && hasPercentageRow
    let (rerunRowSizing, items) ← step7Prep .blk rerunRowSizing0 columns innerNodeSize items
    if rerunRowSizing then do
      let st ← trackSizingAlgorithmM { rowArgs with innerNodeSize }
        { axisTracks := rows, otherAxisTracks := columns, items }
      pure (st.otherAxisTracks, st.axisTracks, st.items)
    else pure (columns, rows, items)
  else pure (columns, rows, items)

/-- step 7 -/
def gridStep7 (c : Ctx α) (childStyles : List (GridChildStyle α)) (availableSpace : Size (AvailableSpace α))
    (colArgs rowArgs : RunArgs α) (innerNodeSize : Size (Option α)) (containerBorderBox containerContentBox : Size α)
    (finalColCounts finalRowCounts : GridPlacement.TrackCounts) (columns rows : List (GridTrack α))
    (items : List (GItem α)) : GM α (LayoutOutput α) := do
  let columns :=
    if !c.availableGridSpace.width.isDefinite then reresolvePercentTracks containerContentBox.width columns else columns
  let rows :=
    if !c.availableGridSpace.height.isDefinite then reresolvePercentTracks containerContentBox.height rows else rows
  let hasPercentageColumn := columns.any (·.usesPercentage)
  let parentWidthIndefinite := !availableSpace.width.isDefinite
  let rerunColumnSizing0 := parentWidthIndefinite && hasPercentageColumn
  let (rerunColumnSizing, items) ← step7Prep .inl rerunColumnSizing0 rows innerNodeSize items
  let (columns, rows, items) ← step7Mid availableSpace colArgs rowArgs innerNodeSize columns rows rerunColumnSizing items
  gridTail c childStyles containerBorderBox containerContentBox finalColCounts finalRowCounts columns rows items

/-- the `RunArgs` of the first inline-axis run -/
def colArgsOf (c : Ctx α) (hasBaselineAlignedItem : Bool) : RunArgs α :=
  { axis := .inl, axisMinSize := c.minSize.width, axisMaxSize := c.maxSize.width,
    axisAlignment := c.justifyContent, otherAxisAlignment := c.alignContent,
    availableGridSpace := c.availableGridSpace, innerNodeSize := c.innerNodeSize, est := .maxFnDefinite,
    hasBaselineAlignedItem }

/-- the `RunArgs` of the first block-axis run -/
def rowArgsOf (c : Ctx α) (innerNodeSize : Size (Option α)) : RunArgs α :=
  { axis := .blk, axisMinSize := c.minSize.height, axisMaxSize := c.maxSize.height,
    axisAlignment := c.alignContent, otherAxisAlignment := c.justifyContent,
    availableGridSpace := c.availableGridSpace, innerNodeSize, est := .baseSize, hasBaselineAlignedItem := false }

/-- step 6 and the container size -/
def gridMain (style : GridStyle α) (childStyles : List (GridChildStyle α)) (inputs : LayoutInput α) (su : Setup α) :
    GM α (LayoutOutput α) := do
  let c := mkCtx style.base inputs
  let hasBaselineAlignedItem := su.items.any fun it => it.alignSelf == .baseline
  let innerNodeSize := c.innerNodeSize
  let colArgs : RunArgs α := colArgsOf c hasBaselineAlignedItem
  let st ← trackSizingAlgorithmM colArgs { axisTracks := su.columns, otherAxisTracks := su.rows, items := su.items }
  let columns := st.axisTracks
  let rows := st.otherAxisTracks
  let items := st.items
  let initialColumnSum : α := sumF (columns.map (·.baseSize))
  let innerNodeSize : Size (Option α) := { innerNodeSize with width := innerNodeSize.width.or (some initialColumnSum) }
  let items := items.map fun it => { it with availableSpaceCache := none }
  let rowArgs : RunArgs α := rowArgsOf c innerNodeSize
  let st ← trackSizingAlgorithmM rowArgs { axisTracks := rows, otherAxisTracks := columns, items }
  let rows := st.axisTracks
  let columns := st.otherAxisTracks
  let items := st.items
  let initialRowSum : α := sumF (rows.map (·.baseSize))
  let innerNodeSize : Size (Option α) := { innerNodeSize with height := innerNodeSize.height.or (some initialRowSum) }
  let resolvedStyleSize := inputs.knownDimensions.orOpt c.preferredSize
  let containerBorderBox : Size α :=
    ⟨Num.fmax (MaybeMath.fo_clamp (resolvedStyleSize.width.getD (initialColumnSum + c.contentBoxInset.horizontalAxisSum))
        c.minSize.width c.maxSize.width) c.paddingBorderSize.width,
     Num.fmax (MaybeMath.fo_clamp (resolvedStyleSize.height.getD (initialRowSum + c.contentBoxInset.verticalAxisSum))
        c.minSize.height c.maxSize.height) c.paddingBorderSize.height⟩
  let containerContentBox : Size α :=
    ⟨Num.fmax 0 (containerBorderBox.width - c.contentBoxInset.horizontalAxisSum),
     Num.fmax 0 (containerBorderBox.height - c.contentBoxInset.verticalAxisSum)⟩
  if inputs.runMode == .computeSize then pure (LayoutOutput.fromOuterSize containerBorderBox) else
  gridStep7 c childStyles inputs.availableSpace colArgs rowArgs innerNodeSize containerBorderBox containerContentBox
    su.finalColCounts su.finalRowCounts columns rows items

/-- `compute_grid_layout` is either the early ComputeSize return or the setup followed by `gridMain` -/
theorem computeGridLayoutE_cases (style : GridStyle α) (inputs : LayoutInput α) :
    (inputs.runMode = .computeSize ∧
      ∃ o, ∀ cs : List (GridChildStyle α), computeGridLayoutE style cs inputs = pure o) ∨
    (∀ cs : List (GridChildStyle α),
      computeGridLayoutE style cs inputs = gridSetupK style cs inputs (gridMain style cs inputs)) := by
  unfold computeGridLayoutE
  simp only []
  split
  · rename_i h _ _
    exact Or.inl ⟨h, _, fun _ => rfl⟩
  · exact Or.inr fun cs => rfl

end EvalGrid
