/-
  Lifting the pure track-sizing theorems (Model/FrSize.lean) to the track sizing *program* (Model/GridSizing.lean):
  the abstraction of a `GItem` with its contribution caches to a pure `Item` with contributions as data.

    `core it`        everything of an item but its four caches (never changed by a contribution query)
    `ExtI ax a b`     `b` is `a` later in the same run of axis `ax`: same core, and every contribution cached in `a` is
                     still cached, with the same value, in `b` (queries only ever fill empty caches)
    `absI ax w it`    the pure `Item` of `it`: track numbers from the track-vector indexes, contributions read from the
                     caches (+ the margin sum of the axis, as `IntrisicSizeMeasurer` adds it)
    `absX ax w it`   the same with the margin-free max-content contribution, as `expand_flexible_tracks` reads it

  A cached query returns a value that every later extension of the item still holds in its cache (`KMin`, `KMax`,
  `KMinimum`), so the pure step can be stated with the abstraction of *any* later state of the item — in particular of
  the item at the end of the run.
-/
import TaffyVerif.Lemmas.EvalGridSizing

set_option linter.unusedSectionVars false
set_option linter.unusedVariables false

namespace GridLift
open GridModel GridTracks EvalGrid EvalBlock
variable {α : Type} [Num α]

/-! ### `GPost` helpers -/

theorem GPost_call (Q : LayoutOutput α → Prop) (i : Nat) (inp : LayoutInput α) (h : ∀ o, Q o) :
    GPost Q (GM.call i inp) := by
  intro o b hb
  cases hb
  exact h o

theorem GPost_true {β : Type} (p : GM α β) : GPost (fun _ => True) p := by
  unfold GPost
  generalize run p = q
  induction q with
  | pure b => intro _ _; trivial
  | call i inp k ih => intro o; exact ih o
  | setLayout i l k ih => exact ih ()

theorem GPost_and {β : Type} (P Q : β → Prop) (p : GM α β) (h1 : GPost P p) (h2 : GPost Q p) :
    GPost (fun b => P b ∧ Q b) p := by
  unfold GPost at *
  generalize run p = q at h1 h2
  induction q with
  | pure b => intro b' hb'; exact ⟨h1 b' hb', h2 b' hb'⟩
  | call i inp k ih => intro o; exact ih o (h1 o) (h2 o)
  | setLayout i l k ih => exact ih () h1 h2

/-! ### core, extension -/

/-- everything of an item but its four caches -/
def core (it : GItem α) : GItem α :=
  { it with availableSpaceCache := none, minContentContributionCache := Size.none,
            minimumContributionCache := Size.none, maxContentContributionCache := Size.none }

/-- `b` is a later state of `a` within one run of axis `ax` -/
def ExtI (ax : Ax) (a b : GItem α) : Prop :=
  core b = core a ∧
  (∀ v, sget a.minContentContributionCache ax = some v → sget b.minContentContributionCache ax = some v) ∧
  (∀ v, sget a.maxContentContributionCache ax = some v → sget b.maxContentContributionCache ax = some v) ∧
  (∀ v, sget a.minimumContributionCache ax = some v → sget b.minimumContributionCache ax = some v)

theorem ExtI.refl (ax : Ax) (a : GItem α) : ExtI ax a a := ⟨rfl, fun _ h => h, fun _ h => h, fun _ h => h⟩

theorem ExtI.trans {ax : Ax} {a b c : GItem α} (h1 : ExtI ax a b) (h2 : ExtI ax b c) : ExtI ax a c :=
  ⟨h2.1.trans h1.1, fun v h => h2.2.1 v (h1.2.1 v h), fun v h => h2.2.2.1 v (h1.2.2.1 v h),
    fun v h => h2.2.2.2 v (h1.2.2.2 v h)⟩

/-- the margin sum of the axis, as `IntrisicSizeMeasurer::margins_axis_sums_with_baseline_shims` computes it -/
def mrg (w : Option α) (ax : Ax) (it : GItem α) : α := sget (it.marginsAxisSums w) ax

theorem mrg_core (w : Option α) (ax : Ax) {a b : GItem α} (h : core a = core b) : mrg w ax a = mrg w ax b := by
  have h1 : a.margin = b.margin := (congrArg GItem.margin h : (core a).margin = (core b).margin)
  have h2 : a.baselineShim = b.baselineShim := (congrArg GItem.baselineShim h : (core a).baselineShim = (core b).baselineShim)
  unfold mrg GItem.marginsAxisSums
  rw [h1, h2]

theorem placementIndexes_core (ax : Ax) {a b : GItem α} (h : core a = core b) :
    a.placementIndexes ax = b.placementIndexes ax := by
  cases ax
  · exact (congrArg GItem.columnIndexes h : (core a).columnIndexes = (core b).columnIndexes)
  · exact (congrArg GItem.rowIndexes h : (core a).rowIndexes = (core b).rowIndexes)

theorem placement_core (ax : Ax) {a b : GItem α} (h : core a = core b) : a.placement ax = b.placement ax := by
  cases ax
  · exact (congrArg GItem.column h : (core a).column = (core b).column)
  · exact (congrArg GItem.row h : (core a).row = (core b).row)

theorem scroll_core (ax : Ax) {a b : GItem α} (h : core a = core b) : a.scroll ax = b.scroll ax := by
  have : a.overflow = b.overflow := (congrArg GItem.overflow h : (core a).overflow = (core b).overflow)
  unfold GItem.scroll; rw [this]

theorem crossesFlex_core (ax : Ax) {a b : GItem α} (h : core a = core b) :
    a.crossesFlexibleTrack ax = b.crossesFlexibleTrack ax := by
  cases ax
  · exact (congrArg GItem.crossesFlexibleColumn h : (core a).crossesFlexibleColumn = (core b).crossesFlexibleColumn)
  · exact (congrArg GItem.crossesFlexibleRow h : (core a).crossesFlexibleRow = (core b).crossesFlexibleRow)

theorem crossesIntr_core (ax : Ax) {a b : GItem α} (h : core a = core b) :
    a.crossesIntrinsicTrack ax = b.crossesIntrinsicTrack ax := by
  cases ax
  · exact (congrArg GItem.crossesIntrinsicColumn h : (core a).crossesIntrinsicColumn = (core b).crossesIntrinsicColumn)
  · exact (congrArg GItem.crossesIntrinsicRow h : (core a).crossesIntrinsicRow = (core b).crossesIntrinsicRow)

theorem span_core (ax : Ax) {a b : GItem α} (h : core a = core b) : a.span ax = b.span ax := by
  unfold GItem.span; rw [placement_core ax h]

theorem trackRange_core (ax : Ax) {a b : GItem α} (h : core a = core b) : a.trackRange ax = b.trackRange ax := by
  unfold GItem.trackRange; rw [placementIndexes_core ax h]

theorem spannedTracks_core (ax : Ax) (ts : List (GridTrack α)) {a b : GItem α} (h : core a = core b) :
    a.spannedTracks ax ts = b.spannedTracks ax ts := by
  unfold GItem.spannedTracks; rw [trackRange_core ax h]

theorem spannedTrackLimit_core (ax : Ax) (ts : List (GridTrack α)) (o : Option α) {a b : GItem α}
    (h : core a = core b) : a.spannedTrackLimit ax ts o = b.spannedTrackLimit ax ts o := by
  unfold GItem.spannedTrackLimit; rw [spannedTracks_core ax ts h]

/-! ### the abstraction -/

/-- the pure item of `it` in a run of axis `ax` whose `inner_node_size.width` is `w` -/
def absI (ax : Ax) (w : Option α) (it : GItem α) : Item α :=
  { start := (it.placementIndexes ax).start / 2, «end» := (it.placementIndexes ax).end / 2,
    scroll := it.scroll ax,
    minContent := (sget it.minContentContributionCache ax).getD 0 + mrg w ax it,
    maxContent := (sget it.maxContentContributionCache ax).getD 0 + mrg w ax it,
    minimum := (sget it.minimumContributionCache ax).getD 0 + mrg w ax it,
    crossesFlexible := it.crossesFlexibleTrack ax, crossesIntrinsic := it.crossesIntrinsicTrack ax }

/-- the same item as `expand_flexible_tracks` sees it: the cached max-content contribution without the margins -/
def absX (ax : Ax) (w : Option α) (it : GItem α) : Item α :=
  { absI ax w it with maxContent := (sget it.maxContentContributionCache ax).getD 0 }

/-- the value `v` is the item's min-content contribution (cache + margins) -/
def KMin (ax : Ax) (w : Option α) (it : GItem α) (v : α) : Prop :=
  ∃ c, sget it.minContentContributionCache ax = some c ∧ v = c + mrg w ax it
def KMax (ax : Ax) (w : Option α) (it : GItem α) (v : α) : Prop :=
  ∃ c, sget it.maxContentContributionCache ax = some c ∧ v = c + mrg w ax it
def KMinimum (ax : Ax) (w : Option α) (it : GItem α) (v : α) : Prop :=
  ∃ c, sget it.minimumContributionCache ax = some c ∧ v = c + mrg w ax it
/-- the value `v` is the item's cached margin-free max-content contribution -/
def KMaxRaw (ax : Ax) (it : GItem α) (v : α) : Prop := sget it.maxContentContributionCache ax = some v

theorem KMin.ext {ax : Ax} {w : Option α} {a b : GItem α} {v : α} (h : KMin ax w a v) (e : ExtI ax a b) :
    KMin ax w b v := by
  obtain ⟨c, h1, h2⟩ := h
  exact ⟨c, e.2.1 c h1, by rw [h2, mrg_core w ax e.1]⟩
theorem KMax.ext {ax : Ax} {w : Option α} {a b : GItem α} {v : α} (h : KMax ax w a v) (e : ExtI ax a b) :
    KMax ax w b v := by
  obtain ⟨c, h1, h2⟩ := h
  exact ⟨c, e.2.2.1 c h1, by rw [h2, mrg_core w ax e.1]⟩
theorem KMinimum.ext {ax : Ax} {w : Option α} {a b : GItem α} {v : α} (h : KMinimum ax w a v) (e : ExtI ax a b) :
    KMinimum ax w b v := by
  obtain ⟨c, h1, h2⟩ := h
  exact ⟨c, e.2.2.2 c h1, by rw [h2, mrg_core w ax e.1]⟩
theorem KMaxRaw.ext {ax : Ax} {a b : GItem α} {v : α} (h : KMaxRaw ax a v) (e : ExtI ax a b) : KMaxRaw ax b v :=
  e.2.2.1 v h

theorem KMin.toAbs {ax : Ax} {w : Option α} {a : GItem α} {v : α} (h : KMin ax w a v) : (absI ax w a).minContent = v := by
  obtain ⟨c, h1, h2⟩ := h
  simp only [absI, h1, Option.getD_some, h2]
theorem KMax.toAbs {ax : Ax} {w : Option α} {a : GItem α} {v : α} (h : KMax ax w a v) : (absI ax w a).maxContent = v := by
  obtain ⟨c, h1, h2⟩ := h
  simp only [absI, h1, Option.getD_some, h2]
theorem KMinimum.toAbs {ax : Ax} {w : Option α} {a : GItem α} {v : α} (h : KMinimum ax w a v) :
    (absI ax w a).minimum = v := by
  obtain ⟨c, h1, h2⟩ := h
  simp only [absI, h1, Option.getD_some, h2]
theorem KMaxRaw.toAbsX {ax : Ax} {w : Option α} {a : GItem α} {v : α} (h : KMaxRaw ax a v) :
    (absX ax w a).maxContent = v := by
  unfold KMaxRaw at h
  simp only [absX, h, Option.getD_some]

/-- the fields of `absI` that do not depend on the caches -/
theorem abs_core_fields (ax : Ax) (w : Option α) {a b : GItem α} (h : core a = core b) :
    (absI ax w a).start = (absI ax w b).start ∧ (absI ax w a).end = (absI ax w b).end ∧
    (absI ax w a).scroll = (absI ax w b).scroll ∧ (absI ax w a).crossesFlexible = (absI ax w b).crossesFlexible ∧
    (absI ax w a).crossesIntrinsic = (absI ax w b).crossesIntrinsic := by
  simp only [absI, placementIndexes_core ax h, scroll_core ax h, crossesFlex_core ax h, crossesIntr_core ax h,
    and_self]

/-! ### the available-space cache -/

theorem availableSpaceCached_ext (ax : Ax) (it : GItem α) (axis : Ax) (ts : List (GridTrack α)) (o : Option α)
    (e : Estimate) : ExtI ax it (it.availableSpaceCached axis ts o e).2 := by
  unfold GItem.availableSpaceCached
  split
  · exact ExtI.refl ax it
  · exact ⟨rfl, fun _ h => h, fun _ h => h, fun _ h => h⟩

theorem sizer_availableSpace_ext (s : Sizer α) (it : GItem α) : ExtI s.axis it (s.availableSpace it).2 :=
  availableSpaceCached_ext _ it _ _ _ _

/-! ### the cached queries -/

theorem minContentContributionCached_spec (ax : Ax) (it : GItem α) (av inner : Size (Option α)) :
    GPost (fun r => ExtI ax it r.2 ∧ sget r.2.minContentContributionCache ax = some r.1)
      (it.minContentContributionCached ax av inner) := by
  unfold GItem.minContentContributionCached
  split
  · rename_i v hv
    exact GPost_pure _ _ ⟨ExtI.refl _ _, hv⟩
  · rename_i hnone
    unfold GItem.minContentContribution
    refine GPost_bind (fun _ => True) _ _ _ (GPost_true _) fun v _ => ?_
    refine GPost_pure _ _ ⟨⟨rfl, ?_, ?_, ?_⟩, ?_⟩
    · intro v' hv'; rw [hnone] at hv'; cases hv'
    · intro v' hv'; exact hv'
    · intro v' hv'; exact hv'
    · exact sget_sset_self _ _ _

theorem maxContentContributionCached_spec (ax : Ax) (it : GItem α) (av inner : Size (Option α)) :
    GPost (fun r => ExtI ax it r.2 ∧ sget r.2.maxContentContributionCache ax = some r.1)
      (it.maxContentContributionCached ax av inner) := by
  unfold GItem.maxContentContributionCached
  split
  · rename_i v hv
    exact GPost_pure _ _ ⟨ExtI.refl _ _, hv⟩
  · rename_i hnone
    unfold GItem.maxContentContribution
    refine GPost_bind (fun _ => True) _ _ _ (GPost_true _) fun v _ => ?_
    refine GPost_pure _ _ ⟨⟨rfl, ?_, ?_, ?_⟩, ?_⟩
    · intro v' hv'; exact hv'
    · intro v' hv'; rw [hnone] at hv'; cases hv'
    · intro v' hv'; exact hv'
    · exact sget_sset_self _ _ _

theorem minimumContribution_spec (ax : Ax) (it : GItem α) (ts : List (GridTrack α)) (kd inner : Size (Option α)) :
    GPost (fun r => ExtI ax it r.2) (it.minimumContribution ax ts kd inner) := by
  unfold GItem.minimumContribution
  simp only []
  refine GPost_bind (fun r => ExtI ax it r.2) _ _ _ ?_ fun ⟨c, it2⟩ hu => GPost_pure _ _ hu
  split
  · exact GPost_pure _ _ (ExtI.refl _ _)
  · split
    · refine GPost_bind _ _ _ _ (minContentContributionCached_spec ax it kd inner) fun ⟨c, it2⟩ hu => ?_
      simp only []
      split <;> exact GPost_pure _ _ hu.1
    · exact GPost_pure _ _ (ExtI.refl _ _)

theorem minimumContributionCached_spec (ax : Ax) (it : GItem α) (ts : List (GridTrack α))
    (kd inner : Size (Option α)) :
    GPost (fun r => ExtI ax it r.2 ∧ sget r.2.minimumContributionCache ax = some r.1)
      (it.minimumContributionCached ax ts kd inner) := by
  unfold GItem.minimumContributionCached
  split
  · rename_i v hv
    exact GPost_pure _ _ ⟨ExtI.refl _ _, hv⟩
  · rename_i hnone
    refine GPost_bind _ _ _ _ (minimumContribution_spec ax it ts kd inner) fun ⟨v, it2⟩ hu => ?_
    simp only [] at hu ⊢
    refine GPost_pure _ _ ⟨⟨hu.1, hu.2.1, hu.2.2.1, ?_⟩, sget_sset_self _ _ _⟩
    intro v' hv'; rw [hnone] at hv'; cases hv'

/-! ### `IntrisicSizeMeasurer` -/

theorem sizer_minContent_spec (s : Sizer α) (it : GItem α) :
    GPost (fun r => ExtI s.axis it r.2 ∧ KMin s.axis s.innerNodeSize.width r.2 r.1) (s.minContentContribution it) := by
  unfold Sizer.minContentContribution
  have hs := sizer_availableSpace_ext s it
  generalize s.availableSpace it = r at hs ⊢
  obtain ⟨av, it1⟩ := r
  simp only [] at hs ⊢
  refine GPost_bind _ _ _ _ (minContentContributionCached_spec s.axis it1 av s.innerNodeSize) fun ⟨c, it2⟩ hu => ?_
  simp only [] at hu ⊢
  refine GPost_pure _ _ ⟨hs.trans hu.1, c, hu.2, ?_⟩
  show c + sget (s.marginAxisSums it1) s.axis = c + mrg s.innerNodeSize.width s.axis it2
  rw [mrg_core _ _ hu.1.1]
  rfl

theorem sizer_maxContent_spec (s : Sizer α) (it : GItem α) :
    GPost (fun r => ExtI s.axis it r.2 ∧ KMax s.axis s.innerNodeSize.width r.2 r.1) (s.maxContentContribution it) := by
  unfold Sizer.maxContentContribution
  have hs := sizer_availableSpace_ext s it
  generalize s.availableSpace it = r at hs ⊢
  obtain ⟨av, it1⟩ := r
  simp only [] at hs ⊢
  refine GPost_bind _ _ _ _ (maxContentContributionCached_spec s.axis it1 av s.innerNodeSize) fun ⟨c, it2⟩ hu => ?_
  simp only [] at hu ⊢
  refine GPost_pure _ _ ⟨hs.trans hu.1, c, hu.2, ?_⟩
  show c + sget (s.marginAxisSums it1) s.axis = c + mrg s.innerNodeSize.width s.axis it2
  rw [mrg_core _ _ hu.1.1]
  rfl

theorem sizer_minimum_spec (s : Sizer α) (it : GItem α) (ts : List (GridTrack α)) :
    GPost (fun r => ExtI s.axis it r.2 ∧ KMinimum s.axis s.innerNodeSize.width r.2 r.1)
      (s.minimumContribution it ts) := by
  unfold Sizer.minimumContribution
  have hs := sizer_availableSpace_ext s it
  generalize s.availableSpace it = r at hs ⊢
  obtain ⟨av, it1⟩ := r
  simp only [] at hs ⊢
  refine GPost_bind _ _ _ _ (minimumContributionCached_spec s.axis it1 ts av s.innerNodeSize) fun ⟨c, it2⟩ hu => ?_
  simp only [] at hu ⊢
  refine GPost_pure _ _ ⟨hs.trans hu.1, c, hu.2, ?_⟩
  show c + sget (s.marginAxisSums it1) s.axis = c + mrg s.innerNodeSize.width s.axis it2
  rw [mrg_core _ _ hu.1.1]
  rfl

end GridLift
