/-
  Tree classes for the evaluator with the concrete leaf, block AND flexbox algorithms (grid stays a parameter):
    * `NoGrid`      (block and flexbox containers and leaves, hidden subtrees arbitrary): the evaluator does not depend on
                    the `grid` component (`NoGrid_agree`, through `EvalBlock.AgreeOn` / `eval_agree`)
    * `FanNoGrid b` (the same with at most `b` children per container) → `C16.AlgsCallsAtMost (6·b)` for stand-ins
  Each comes with stand-in algorithms that satisfy the hypothesis for ALL child-style lists and agree with the concrete
  ones on the trees of the class.
-/
import TaffyVerif.Lemmas.EvalFlexFlags
import TaffyVerif.Lemmas.EvalBlockTrees

set_option linter.unusedSectionVars false
set_option linter.unusedVariables false

namespace EvalFlex
open Eval EvalMemo Gen.Facts EvalBlock
variable {α : Type} [Num α] [FlexLine.NumX α]

/-- the type of a container algorithm -/
abbrev CAlg (α : Type) := Style α → List (Style α) → LayoutInput α → ProgM α (LayoutOutput α)

/-- the concrete flexbox algorithm -/
abbrev flexAlg : CAlg α := FlexModel.computeFlexboxLayout

mutual
/-- **NoGrid**: every node that is not inside a `display:none` subtree is `display:none`, or childless (a leaf,
whatever its `display`), or a `display:block` or `display:flex` container.  I.e. the tree has no grid container with
children outside hidden subtrees. -/
def NoGrid : STree α → Prop
  | .node s _ kids => s.display = .none ∨ ((kids = [] ∨ s.display = .block ∨ s.display = .flex) ∧ NoGridList kids)
def NoGridList : List (STree α) → Prop
  | [] => True
  | t :: ts => NoGrid t ∧ NoGridList ts
end

mutual
/-- a `BlockOnly` tree is `NoGrid` -/
theorem BlockOnly_NoGrid : ∀ t : STree α, BlockOnly t → NoGrid t
  | .node s ctx kids, h => by
    simp only [BlockOnly] at h
    simp only [NoGrid]
    rcases h with h | ⟨h, hk⟩
    · exact Or.inl h
    · exact Or.inr ⟨h.imp id Or.inl, BlockOnlyList_NoGridList kids hk⟩
theorem BlockOnlyList_NoGridList : ∀ ts : List (STree α), BlockOnlyList ts → NoGridList ts
  | [], _ => trivial
  | t :: ts, h => ⟨BlockOnly_NoGrid t h.1, BlockOnlyList_NoGridList ts h.2⟩
end

mutual
/-- on a `NoGrid` tree the grid component is never selected (documented dispatch) -/
theorem NoGrid_agree (sel : Display → Bool → Option Callee) (hsel : DocSel sel) (flex grid grid' : CAlg α) :
    ∀ t : STree α, NoGrid t → AgreeOn sel (EvalConcrete.algs flex grid) (EvalConcrete.algs flex grid') t
  | .node s ctx kids, h => by
    simp only [NoGrid] at h
    simp only [AgreeOn]
    rcases h with hd | ⟨hk, hks⟩
    · refine ⟨fun inp => ?_, fun _ => rfl, fun hn => ?_⟩
      · rw [bodyOf_doc sel hsel, bodyOf_doc sel hsel, hd]
      · rw [hsel, hd] at hn
        exact absurd rfl hn
    · refine ⟨fun inp => ?_, fun _ => rfl, fun _ => NoGridList_agree sel hsel flex grid grid' kids hks⟩
      rw [bodyOf_doc sel hsel, bodyOf_doc sel hsel]
      rcases hk with hk | hb | hf
      · subst hk
        cases s.display <;> rfl
      · rw [hb]
        cases kids <;> rfl
      · rw [hf]
        cases kids <;> rfl
theorem NoGridList_agree (sel : Display → Bool → Option Callee) (hsel : DocSel sel) (flex grid grid' : CAlg α) :
    ∀ ts : List (STree α), NoGridList ts →
      AgreeOnList sel (EvalConcrete.algs flex grid) (EvalConcrete.algs flex grid') ts
  | [], _ => trivial
  | t :: ts, h => ⟨NoGrid_agree sel hsel flex grid grid' t h.1, NoGridList_agree sel hsel flex grid grid' ts h.2⟩
end

/-! ### `NoGrid` is kept by subtree replacement -/

theorem NoGridList_get : ∀ (kids : List (STree α)) (i : Nat) (t : STree α),
    NoGridList kids → kids[i]? = some t → NoGrid t
  | [], _, _, _, h => by simp at h
  | a :: as, 0, t, hn, h => by
    simp only [List.getElem?_cons_zero, Option.some.injEq] at h
    subst h
    exact hn.1
  | a :: as, i + 1, t, hn, h => by
    simp only [List.getElem?_cons_succ] at h
    exact NoGridList_get as i t hn.2 h

theorem NoGridList_set : ∀ (kids : List (STree α)) (i : Nat) (x : STree α),
    NoGridList kids → NoGrid x → NoGridList (kids.set i x)
  | [], _, _, _, _ => by simp only [List.set_nil, NoGridList]
  | a :: as, 0, x, hn, hx => by
    simp only [List.set_cons_zero, NoGridList]
    exact ⟨hx, hn.2⟩
  | a :: as, i + 1, x, hn, hx => by
    simp only [List.set_cons_succ, NoGridList]
    exact ⟨hn.1, NoGridList_set as i x hn.2 hx⟩

theorem NoGrid_replaceAt : ∀ (p : List Nat) (t r : STree α), NoGrid t → NoGrid r → NoGrid (replaceAt t p r)
  | [], _, r, _, hr => by simpa only [replaceAt] using hr
  | i :: p, .node s c kids, r, ht, hr => by
    simp only [replaceAt]
    cases hk : kids[i]? with
    | none => exact ht
    | some k =>
      simp only [NoGrid] at ht ⊢
      rcases ht with hd | ⟨h1, h2⟩
      · exact Or.inl hd
      · refine Or.inr ⟨?_, NoGridList_set kids i _ h2 (NoGrid_replaceAt p k r (NoGridList_get kids i k h2 hk) hr)⟩
        rcases h1 with h1 | h1
        · subst h1; simp at hk
        · exact Or.inr h1

/-- every tree of the history (the start tree and the tree after each edit) is `NoGrid` -/
def NoGridHist : STree α → List (Step α) → Prop
  | t, [] => NoGrid t
  | t, st :: rest => NoGrid t ∧ NoGridHist (st.edit.applyTree t) rest

theorem NoGridHist_agree (sel : Display → Bool → Option Callee) (hsel : DocSel sel) (flex grid grid' : CAlg α) :
    ∀ (h : List (Step α)) (t : STree α), NoGridHist t h →
      AgreeHist sel (EvalConcrete.algs flex grid) (EvalConcrete.algs flex grid') t h
  | [], t, hb => NoGrid_agree sel hsel flex grid grid' t hb
  | st :: rest, t, hb =>
    ⟨NoGrid_agree sel hsel flex grid grid' t hb.1, NoGridHist_agree sel hsel flex grid grid' rest _ hb.2⟩

/-! ### `PLCovers` with a covering stand-in for grid -/

/-- concrete leaf, block and flexbox; covering stand-in for grid -/
def algsCovF : Algs α := EvalConcrete.algs flexAlg coverAlg

theorem algsCovF_PLCovers : PLCovers (algsCovF : Algs α) :=
  fun style cs inp hm => ⟨block_covers style cs inp hm, flex_covers style cs inp hm, coverAlg_covers style cs inp⟩

/-! ### bounded fan-out: `AlgsCallsAtMost` -/

/-- the flexbox algorithm on child lists of length ≤ `b`, idle beyond -/
def boundedFlex (b : Nat) : CAlg α :=
  fun style cs inp => if cs.length ≤ b then FlexModel.computeFlexboxLayout style cs inp else .pure LayoutOutput.hidden

/-- concrete leaf, bounded block, bounded flexbox, idle stand-in for grid -/
def algsFanF (b : Nat) : Algs α where
  leaf := EvalConcrete.leafAlg
  block := boundedBlock b
  flex := boundedFlex b
  grid := EvalConcrete.idle

theorem algsFanF_callsAtMost (b : Nat) : C16.AlgsCallsAtMost (6 * b) (algsFanF b : Algs α) := by
  intro style cs inp
  refine ⟨?_, ?_, trivial⟩
  · show C16.callsLe (6 * b) (boundedBlock b style cs inp)
    unfold boundedBlock
    split
    · exact C16.callsLe_mono _ _ _ (by omega) (callsLe_computeBlockLayout style cs inp)
    · trivial
  · show C16.callsLe (6 * b) (boundedFlex b style cs inp)
    unfold boundedFlex
    split
    · exact C16.callsLe_mono _ _ _ (by omega) (callsLe_computeFlexboxLayout style cs inp)
    · trivial

mutual
/-- **FanNoGrid b**: outside `display:none` subtrees every node is childless or a `display:block`/`display:flex`
container with at most `b` children -/
def FanNoGrid (b : Nat) : STree α → Prop
  | .node s _ kids =>
    s.display = .none ∨ ((kids = [] ∨ s.display = .block ∨ s.display = .flex) ∧ kids.length ≤ b ∧ FanNoGridList b kids)
def FanNoGridList (b : Nat) : List (STree α) → Prop
  | [] => True
  | t :: ts => FanNoGrid b t ∧ FanNoGridList b ts
end

mutual
theorem FanNoGrid_agree (b : Nat) (sel : Display → Bool → Option Callee) (hsel : DocSel sel) (grid : CAlg α) :
    ∀ t : STree α, FanNoGrid b t → AgreeOn sel (EvalConcrete.algs flexAlg grid) (algsFanF b) t
  | .node s ctx kids, h => by
    simp only [FanNoGrid] at h
    simp only [AgreeOn]
    rcases h with hd | ⟨hk, hl, hks⟩
    · refine ⟨fun inp => ?_, fun _ => rfl, fun hn => ?_⟩
      · rw [bodyOf_doc sel hsel, bodyOf_doc sel hsel, hd]
      · rw [hsel, hd] at hn
        exact absurd rfl hn
    · refine ⟨fun inp => ?_, fun _ => rfl, fun _ => FanNoGridList_agree b sel hsel grid kids hks⟩
      rw [bodyOf_doc sel hsel, bodyOf_doc sel hsel]
      rcases hk with hk | hb | hf
      · subst hk
        cases s.display <;> rfl
      · rw [hb]
        cases kids with
        | nil => rfl
        | cons k ks =>
          have hl' : ((k :: ks).map STree.style).length ≤ b := by simpa using hl
          simp only [EvalConcrete.algs, algsFanF, boundedBlock, hl', if_true]
      · rw [hf]
        cases kids with
        | nil => rfl
        | cons k ks =>
          have hl' : ((k :: ks).map STree.style).length ≤ b := by simpa using hl
          simp only [EvalConcrete.algs, algsFanF, boundedFlex, hl', if_true]
theorem FanNoGridList_agree (b : Nat) (sel : Display → Bool → Option Callee) (hsel : DocSel sel) (grid : CAlg α) :
    ∀ ts : List (STree α), FanNoGridList b ts → AgreeOnList sel (EvalConcrete.algs flexAlg grid) (algsFanF b) ts
  | [], _ => trivial
  | t :: ts, h => ⟨FanNoGrid_agree b sel hsel grid t h.1, FanNoGridList_agree b sel hsel grid ts h.2⟩
end

end EvalFlex
