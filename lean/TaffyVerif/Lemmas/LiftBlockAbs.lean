/-
  C11 lifted to the block program, part 1: what a PerformLayout run of `BlockModel.computeBlockLayout` sets for an
  absolutely positioned child.

    * `computeBlockLayout_perform`   a PerformLayout request runs `compute_inner` on the amended inputs
    * `absItem_lays`                 the loop body of block.rs `perform_absolute_layout_on_absolute_children`
                                     (`BlockModel.absItem`, transliterated inline in Model/Block.lean) sets exactly
                                     `AbsPos.absBlock` (the separately transliterated copy C11's theorems are about) — the two
                                     texts agree up to `Option.getD (Option.map (fun _ => 0) m).getD x) = m.getD x`
    * `blockRun_abs`                 every layout a run sets for an absolutely positioned box-generating child is
                                     `absBlock` at `blockCallSite style (output size)`, with the static position the in-flow
                                     pass computed, the child's answer being the answer to the query the program sends
-/
import TaffyVerif.Lemmas.LiftRun

set_option linter.unusedSectionVars false
set_option linter.unusedVariables false

namespace Lift
open BlockModel EvalBlock

/-! ### the amended inputs -/

def blockInp (style : Style Rat) (inp : LayoutInput Rat) : LayoutInput Rat :=
  { inp with knownDimensions := BlockModel.styledBasedKnownDimensions style inp }

theorem computeBlockLayout_perform (style : Style Rat) (cs : List (Style Rat)) (inp : LayoutInput Rat)
    (h : inp.runMode = .performLayout) :
    computeBlockLayout style cs inp = computeInner style cs (blockInp style inp) := by
  unfold computeBlockLayout
  simp only
  split
  · rename_i h' _ _
    rw [h] at h'; cases h'
  · rfl

theorem innerAfterWidth_perform (style : Style Rat) (cs : List (Style Rat)) (inputs : LayoutInput Rat) (w : Rat)
    (h : inputs.runMode = .performLayout) :
    innerAfterWidth style cs inputs w =
      (performFinalLayoutOnInFlowChildren (flowCtxOf style (innerCtx style inputs) w)
        (generateItemList cs (innerCtx style inputs).containerContentBoxSize) >>= innerTail style cs inputs w) := by
  unfold innerAfterWidth
  simp only
  split
  · rename_i h' _
    rw [h] at h'; cases h'
  · rfl

/-- the area of the absolute pass -/
def absInset (style : Style Rat) (inputs : LayoutInput Rat) (w : Rat) : Rect Rat :=
  (Resolve.rectLPOrZero style.border (some w)).add (innerCtx style inputs).scrollbarGutter

theorem innerTail_perform (style : Style Rat) (cs : List (Style Rat)) (inputs : LayoutInput Rat) (w : Rat)
    (r : List (BlockItem Rat) × (Size Rat × Rat × MarginSet Rat × MarginSet Rat))
    (h : inputs.runMode = .performLayout) :
    innerTail style cs inputs w r =
      ((absLoop (fun i => cs[i]?) ((finalOuterSize (innerCtx style inputs) inputs w r).sub (absInset style inputs w).sumAxes)
          ⟨(absInset style inputs w).left, (absInset style inputs w).top⟩ r.1 Size.zero) >>= fun acs =>
        (hiddenLoop cs 0) >>= fun _ =>
        .pure (innerOutput style inputs.parentSize (innerCtx style inputs) r.1
          (finalOuterSize (innerCtx style inputs) inputs w r) r.2.1 acs r.2.2.2.1 r.2.2.2.2)) := by
  unfold innerTail
  simp only [h]
  rfl

/-! ### the measuring pass sets nothing; the in-flow pass sets in-flow children only -/

theorem lays_contentWidthLoop (orc : Orc) (av : AvailableSpace Rat) : ∀ (items : List (BlockItem Rat)) (acc : Rat),
    lays orc (contentWidthLoop av items acc) = []
  | [], _ => rfl
  | item :: rest, acc => by
    by_cases hp : item.position = .absolute
    · rw [contentWidthLoop_cons_abs av item rest acc hp]
      exact lays_contentWidthLoop orc av rest acc
    · cases hw : (item.size.oo_clamp item.minSize item.maxSize).width with
      | some w =>
        rw [contentWidthLoop_cons_known av item rest acc w hp hw]
        exact lays_contentWidthLoop orc av rest _
      | none =>
        rw [contentWidthLoop_cons_query av item rest acc hp hw, lays_call]
        exact lays_contentWidthLoop orc av rest _

theorem lays_containerWidthProg (orc : Orc) (ic : InnerCtx Rat) (items : List (BlockItem Rat)) (inputs : LayoutInput Rat) :
    lays orc (containerWidthProg ic items inputs) = [] := by
  cases hw : inputs.knownDimensions.width with
  | some w => rw [containerWidthProg_known ic items inputs w hw]; rfl
  | none =>
    rw [containerWidthProg_unknown ic items inputs hw, lays_bind, lays_contentWidthLoop]
    rfl

theorem mem_lays_flowLoop (orc : Orc) (c : FlowCtx Rat) : ∀ (items : List (BlockItem Rat)) (st : FlowState Rat)
    (x : Nat × Layout Rat), x ∈ lays orc (flowLoop c items st) → ∃ it ∈ items, it.nodeIdx = x.1 ∧ it.position ≠ .absolute
  | [], _, x, h => by simp [flowLoop_nil, lays_pure'] at h
  | item :: rest, st, x, h => by
    by_cases hp : item.position = .absolute
    · rw [flowLoop_cons_abs c item rest st hp, lays_bind, lays_pure', List.append_nil] at h
      obtain ⟨it, h1, h2⟩ := mem_lays_flowLoop orc c rest st x h
      exact ⟨it, List.mem_cons_of_mem _ h1, h2⟩
    · rw [flowLoop_cons_flow c item rest st hp, lays_call, lays_set, lays_bind, lays_pure', List.append_nil,
        List.mem_cons] at h
      rcases h with h | h
      · subst h
        exact ⟨item, List.mem_cons_self, rfl, hp⟩
      · obtain ⟨it, h1, h2⟩ := mem_lays_flowLoop orc c rest _ x h
        exact ⟨it, List.mem_cons_of_mem _ h1, h2⟩

/-! ### the items stay the items of their children -/

/-- the item of a box-generating child: index, position and scrollbar data are the child's -/
def ItemOf (cs : List (Style Rat)) (it : BlockItem Rat) : Prop :=
  ∃ s, cs[it.nodeIdx]? = some s ∧ s.isHidden = false ∧ it.position = s.position ∧ it.overflow = s.overflow ∧
    it.scrollbarWidth = s.scrollbarWidth

theorem itemOf_generateItemsFrom (inner : Size (Option Rat)) : ∀ (l : List (Style Rat)) (idx order : Nat)
    (it : BlockItem Rat), it ∈ generateItemsFrom inner l idx order →
    idx ≤ it.nodeIdx ∧ ∃ s, l[it.nodeIdx - idx]? = some s ∧ s.isHidden = false ∧ it.position = s.position ∧
      it.overflow = s.overflow ∧ it.scrollbarWidth = s.scrollbarWidth
  | [], _, _, it, h => by simp [generateItemsFrom] at h
  | s :: rest, idx, order, it, h => by
    have step : ∀ order', it ∈ generateItemsFrom inner rest (idx + 1) order' →
        idx ≤ it.nodeIdx ∧ ∃ s', (s :: rest)[it.nodeIdx - idx]? = some s' ∧ s'.isHidden = false ∧
          it.position = s'.position ∧ it.overflow = s'.overflow ∧ it.scrollbarWidth = s'.scrollbarWidth := by
      intro order' h'
      obtain ⟨h1, s', h2, h3⟩ := itemOf_generateItemsFrom inner rest (idx + 1) order' it h'
      refine ⟨by omega, s', ?_, h3⟩
      rw [show it.nodeIdx - idx = (it.nodeIdx - (idx + 1)) + 1 by omega, List.getElem?_cons_succ]
      exact h2
    simp only [generateItemsFrom] at h
    by_cases hh : s.isHidden = true
    · simp only [hh, if_true] at h
      exact step _ h
    · simp only [hh] at h
      rcases List.mem_cons.1 h with h | h
      · subst h
        refine ⟨Nat.le_refl _, s, ?_, by simpa using hh, rfl, rfl, rfl⟩
        simp [generateItem]
      · exact step _ h

theorem itemOf_generateItemList (cs : List (Style Rat)) (inner : Size (Option Rat)) :
    ∀ it ∈ generateItemList cs inner, ItemOf cs it := by
  intro it h
  obtain ⟨_, s, h2, h3⟩ := itemOf_generateItemsFrom inner cs 0 0 it h
  exact ⟨s, by simpa using h2, h3⟩

theorem Post_flowLoop_itemOf (cs : List (Style Rat)) (c : FlowCtx Rat) : ∀ (items : List (BlockItem Rat))
    (st : FlowState Rat), (∀ it ∈ items, ItemOf cs it) → Post (fun r => ∀ it ∈ r.1, ItemOf cs it) (flowLoop c items st)
  | [], st, _ => by rw [flowLoop_nil]; intro it h; cases h
  | item :: rest, st, hi => by
    have hrest : ∀ it ∈ rest, ItemOf cs it := fun it h => hi it (List.mem_cons_of_mem _ h)
    have hitem := hi item List.mem_cons_self
    by_cases hp : item.position = .absolute
    · rw [flowLoop_cons_abs c item rest st hp]
      refine Post_bind _ _ (Post_flowLoop_itemOf cs c rest st hrest) fun r hr => ?_
      intro it h
      rcases List.mem_cons.1 h with h | h
      · subst h; exact hitem
      · exact hr it h
    · rw [flowLoop_cons_flow c item rest st hp]
      intro out
      show Post _ (_ >>= _)
      refine Post_bind _ _ (Post_flowLoop_itemOf cs c rest _ hrest) fun r hr => ?_
      intro it h
      rcases List.mem_cons.1 h with h | h
      · subst h; exact hitem
      · exact hr it h

/-! ### the absolute pass -/

/-- the arguments of `perform_absolute_layout_on_absolute_children` and the fields of the item the loop body reads -/
def bargs (item : BlockItem Rat) (a : Size Rat) (o : Point Rat) : AbsPos.BlockArgs Rat :=
  ⟨a, o, item.staticPosition, item.order⟩

theorem getD_map_const (m : Option Rat) (x : Rat) : m.getD ((m.map fun _ => (0 : Rat)).getD x) = m.getD x := by
  cases m <;> rfl

/-- the query the loop body sends -/
def bAbsInput (item : BlockItem Rat) (cs : Style Rat) (a : Size Rat) (o : Point Rat) : LayoutInput Rat :=
  AbsPos.blockChildInput (bargs item a o) (AbsPos.blockResolve (bargs item a o) cs)
    (AbsPos.blockKnown (bargs item a o) (AbsPos.blockResolve (bargs item a o) cs) cs.aspectRatio)

/-- **the inline transliteration (Model/Block.lean) and the separate copy (Model/AbsPos.lean) agree**: the loop body sets
`absBlock` (the scrollbar size is read off the item, which copies it from the style) -/
theorem absItem_lays (orc : Orc) (item : BlockItem Rat) (cs : Style Rat) (a : Size Rat) (o : Point Rat) (acc : Size Rat) :
    lays orc (absItem item cs a o acc) =
      [(item.nodeIdx,
        { AbsPos.absBlock (bargs item a o) cs (fun _ => orc item.nodeIdx (bAbsInput item cs a o)) with
          scrollbarSize := ⟨if item.overflow.y == .scroll then item.scrollbarWidth else 0,
                            if item.overflow.x == .scroll then item.scrollbarWidth else 0⟩ })] := by
  unfold AbsPos.absBlock AbsPos.blockResolvedMargin
  simp only [getD_map_const]
  rfl

theorem absItem_lays' (orc : Orc) (item : BlockItem Rat) (cs : Style Rat) (a : Size Rat) (o : Point Rat) (acc : Size Rat)
    (h1 : item.overflow = cs.overflow) (h2 : item.scrollbarWidth = cs.scrollbarWidth) :
    lays orc (absItem item cs a o acc) =
      [(item.nodeIdx, AbsPos.absBlock (bargs item a o) cs (fun _ => orc item.nodeIdx (bAbsInput item cs a o)))] := by
  rw [absItem_lays, h1, h2]
  rfl

theorem mem_lays_absLoop_block (orc : Orc) (cs : List (Style Rat)) (a : Size Rat) (o : Point Rat) :
    ∀ (items : List (BlockItem Rat)) (acc : Size Rat) (x : Nat × Layout Rat), (∀ it ∈ items, ItemOf cs it) →
    x ∈ lays orc (absLoop (fun i => cs[i]?) a o items acc) →
    ∃ it ∈ items, ∃ s, absTaken (fun i => cs[i]?) it = some s ∧ x.1 = it.nodeIdx ∧
      x.2 = AbsPos.absBlock (bargs it a o) s (fun _ => orc it.nodeIdx (bAbsInput it s a o))
  | [], _, x, _, h => by simp [absLoop_nil, lays_pure'] at h
  | item :: rest, acc, x, hi, h => by
    have hrest : ∀ it ∈ rest, ItemOf cs it := fun it h => hi it (List.mem_cons_of_mem _ h)
    have step : ∀ acc', x ∈ lays orc (absLoop (fun i => cs[i]?) a o rest acc') →
        ∃ it ∈ item :: rest, ∃ s, absTaken (fun i => cs[i]?) it = some s ∧ x.1 = it.nodeIdx ∧
          x.2 = AbsPos.absBlock (bargs it a o) s (fun _ => orc it.nodeIdx (bAbsInput it s a o)) := by
      intro acc' h'
      obtain ⟨it, h1, h2⟩ := mem_lays_absLoop_block orc cs a o rest acc' x hrest h'
      exact ⟨it, List.mem_cons_of_mem _ h1, h2⟩
    cases ht : absTaken (fun i => cs[i]?) item with
    | none =>
      rw [absLoop_cons_skip _ a o item rest acc ht] at h
      exact step _ h
    | some s =>
      rw [absLoop_cons_take _ a o item rest acc s ht, lays_bind, List.mem_append] at h
      rcases h with h | h
      · obtain ⟨s', hs', _, _, ho, hw⟩ := hi item List.mem_cons_self
        obtain ⟨_, hs, _, _⟩ := absTaken_some _ item s ht
        have e : s' = s := by
          have : cs[item.nodeIdx]? = some s := hs
          rw [hs'] at this; exact Option.some.inj this
        subst e
        rw [absItem_lays' orc item s' a o acc ho hw, List.mem_singleton] at h
        subst h
        exact ⟨item, List.mem_cons_self, s', ht, rfl, rfl⟩
      · exact step _ h

/-! ### the run -/

/-- the container width of the run -/
def blockW (orc : Orc) (style : Style Rat) (cs : List (Style Rat)) (inp : LayoutInput Rat) : Rat :=
  res orc (containerWidthProg (innerCtx style (blockInp style inp))
    (generateItemList cs (innerCtx style (blockInp style inp)).containerContentBoxSize) (blockInp style inp))

/-- the result of the in-flow pass of the run -/
def blockFlow (orc : Orc) (style : Style Rat) (cs : List (Style Rat)) (inp : LayoutInput Rat) :
    List (BlockItem Rat) × (Size Rat × Rat × MarginSet Rat × MarginSet Rat) :=
  res orc (performFinalLayoutOnInFlowChildren
    (flowCtxOf style (innerCtx style (blockInp style inp)) (blockW orc style cs inp))
    (generateItemList cs (innerCtx style (blockInp style inp)).containerContentBoxSize))

/-- the final outer size of the run -/
def blockOuter (orc : Orc) (style : Style Rat) (cs : List (Style Rat)) (inp : LayoutInput Rat) : Size Rat :=
  finalOuterSize (innerCtx style (blockInp style inp)) (blockInp style inp) (blockW orc style cs inp)
    (blockFlow orc style cs inp)

theorem blockRun_eq (style : Style Rat) (cs : List (Style Rat)) (inp : LayoutInput Rat)
    (h : inp.runMode = .performLayout) :
    computeBlockLayout style cs inp =
      (containerWidthProg (innerCtx style (blockInp style inp))
        (generateItemList cs (innerCtx style (blockInp style inp)).containerContentBoxSize) (blockInp style inp) >>=
        fun w => performFinalLayoutOnInFlowChildren (flowCtxOf style (innerCtx style (blockInp style inp)) w)
            (generateItemList cs (innerCtx style (blockInp style inp)).containerContentBoxSize) >>=
          innerTail style cs (blockInp style inp) w) := by
  rw [computeBlockLayout_perform style cs inp h, computeInner_eq]
  congr 1
  funext w
  exact innerAfterWidth_perform style cs (blockInp style inp) w h

/-- **the output size of a PerformLayout run** -/
theorem blockRun_size (orc : Orc) (style : Style Rat) (cs : List (Style Rat)) (inp : LayoutInput Rat)
    (h : inp.runMode = .performLayout) :
    (res orc (computeBlockLayout style cs inp)).size = blockOuter orc style cs inp := by
  rw [blockRun_eq style cs inp h, res_bind, res_bind, innerTail_perform style cs (blockInp style inp) _ _ h,
    res_bind, res_bind]
  rfl

/-- **the layouts of a PerformLayout run**: the in-flow pass, then the absolute pass, then the hidden pass -/
theorem blockRun_lays (orc : Orc) (style : Style Rat) (cs : List (Style Rat)) (inp : LayoutInput Rat)
    (h : inp.runMode = .performLayout) :
    lays orc (computeBlockLayout style cs inp) =
      lays orc (performFinalLayoutOnInFlowChildren
        (flowCtxOf style (innerCtx style (blockInp style inp)) (blockW orc style cs inp))
        (generateItemList cs (innerCtx style (blockInp style inp)).containerContentBoxSize)) ++
      (lays orc (absLoop (fun i => cs[i]?)
          ((blockOuter orc style cs inp).sub (absInset style (blockInp style inp) (blockW orc style cs inp)).sumAxes)
          ⟨(absInset style (blockInp style inp) (blockW orc style cs inp)).left,
           (absInset style (blockInp style inp) (blockW orc style cs inp)).top⟩ (blockFlow orc style cs inp).1 Size.zero) ++
       lays orc (hiddenLoop cs 0)) := by
  rw [blockRun_eq style cs inp h, lays_bind, lays_containerWidthProg, List.nil_append, lays_bind,
    innerTail_perform style cs (blockInp style inp) _ _ h, lays_bind, lays_bind]
  simp only [lays_pure', List.append_nil]
  rfl

/-- the area of the absolute pass is the area of `AbsPos.blockCallSite` for the output size -/
theorem blockRun_area (orc : Orc) (style : Style Rat) (cs : List (Style Rat)) (inp : LayoutInput Rat) (n : Nat) :
    (AbsPos.blockCallSite style (blockOuter orc style cs inp) n).areaSize =
      (blockOuter orc style cs inp).sub (absInset style (blockInp style inp) (blockW orc style cs inp)).sumAxes ∧
    (AbsPos.blockCallSite style (blockOuter orc style cs inp) n).areaOffset =
      ⟨(absInset style (blockInp style inp) (blockW orc style cs inp)).left,
       (absInset style (blockInp style inp) (blockW orc style cs inp)).top⟩ :=
  ⟨rfl, rfl⟩

/-- **blockRun_abs**: every layout a PerformLayout run sets for an absolutely positioned, box-generating child `x.1` is
`absBlock` at the call site for the run's output size — with the static position `sp` the in-flow pass gave the item and
the item's `order` — applied to the child's answer to the query the program sends -/
theorem blockRun_abs (orc : Orc) (style : Style Rat) (cs : List (Style Rat)) (inp : LayoutInput Rat)
    (h : inp.runMode = .performLayout) (x : Nat × Layout Rat) (hx : x ∈ lays orc (computeBlockLayout style cs inp))
    (st : Style Rat) (hst : cs[x.1]? = some st) (hvis : st.isHidden = false) (habs : st.position = .absolute) :
    ∃ (sp : Point Rat) (ord : Nat) (q : LayoutInput Rat),
      x.2 = AbsPos.absBlock
        { AbsPos.blockCallSite style (res orc (computeBlockLayout style cs inp)).size ord with staticPosition := sp } st
        (fun _ => orc x.1 q) := by
  rw [blockRun_size orc style cs inp h]
  rw [blockRun_lays orc style cs inp h, List.mem_append, List.mem_append] at hx
  have hgen := itemOf_generateItemList cs (innerCtx style (blockInp style inp)).containerContentBoxSize
  rcases hx with hx | hx | hx
  · -- the in-flow pass does not touch absolutely positioned children
    rw [performFinal_eq, lays_bind, lays_pure', List.append_nil] at hx
    obtain ⟨it, hit, hidx, hpos⟩ := mem_lays_flowLoop orc _ _ _ x hx
    obtain ⟨s, hs, _, hp, _, _⟩ := hgen it hit
    rw [hidx, hst] at hs
    cases hs
    exact absurd (hp.trans habs) hpos
  · -- the absolute pass
    have hitems : ∀ it ∈ (blockFlow orc style cs inp).1, ItemOf cs it := by
      unfold blockFlow
      rw [performFinal_eq, res_bind]
      exact res_post orc _ (Post_flowLoop_itemOf cs _ _ _ hgen)
    obtain ⟨it, _, s, ht, hidx, hL⟩ := mem_lays_absLoop_block orc cs _ _ _ _ x hitems hx
    obtain ⟨_, hs, _, _⟩ := absTaken_some _ it s ht
    have e : s = st := by
      have : cs[it.nodeIdx]? = some s := hs
      rw [← hidx, hst] at this; exact (Option.some.inj this).symm
    subst e
    exact ⟨it.staticPosition, it.order, _, hL.trans (by rw [hidx]; rfl)⟩
  · -- the hidden pass does not touch box-generating children
    obtain ⟨s, hs, _, hh⟩ := mem_lays_hiddenLoop orc cs 0 x hx
    rw [Nat.sub_zero, hst] at hs
    cases hs
    rw [hvis] at hh; cases hh

end Lift
