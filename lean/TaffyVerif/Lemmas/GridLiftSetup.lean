/-
  The setup stages of the grid program (`gridSetupK`, Lemmas/EvalGridStages.lean) with everything they establish made
  explicit (`SetupOK`): the explicit counts, the placement run, the initialised tracks, the resolved track indexes.
  Consequences: every grid item is consistent with the tracks of both axes (`GoodItem`), and carries the area that
  `place_grid_items` recorded for its child.
-/
import TaffyVerif.Lemmas.GridLiftTracks
import TaffyVerif.Lemmas.EvalGridSetup

set_option linter.unusedSectionVars false
set_option linter.unusedVariables false

namespace GridLift
open GridModel GridTracks EvalGrid EvalBlock
variable {α : Type} [Num α] [NumCast α]

/-- what steps 2–5 computed on the way to the `Setup` they hand over -/
structure SetupData (α : Type) where
  ec : Nat
  er : Nat
  estC : GridPlacement.TrackCounts
  estR : GridPlacement.TrackCounts
  m0 : GridPlacement.Matrix
  placed : GridPlacement.State
  items' : List (GItem α)

/-- the equations of steps 2–5 -/
structure SetupOK (style : GridStyle α) (cs : List (GridChildStyle α)) (inputs : LayoutInput α) (su : Setup α)
    (d : SetupData α) : Prop where
  hec : computeExplicitGridSizeInAxis style.base.size.width style.base.maxSize.width style.base.gap.width
    style.gridTemplateColumns (mkCtx style.base inputs).autoFitContainerSize.width = .ok d.ec
  her : computeExplicitGridSizeInAxis style.base.size.height style.base.maxSize.height style.base.gap.height
    style.gridTemplateRows (mkCtx style.base inputs).autoFitContainerSize.height = .ok d.er
  hest : GridPlacement.computeGridSizeEstimate d.ec d.er (boxChildrenOf cs) = .ok (d.estC, d.estR)
  hm0 : GridPlacement.Matrix.withTrackCounts d.estC d.estR = .ok d.m0
  hplaced : GridPlacement.placeGridItems GridPlacement.defaultFuel d.m0 (inFlowOf cs) style.gridAutoFlow = .ok d.placed
  hcols : initializeGridTracks (toNatCounts d.placed.matrix.columns) style.gridTemplateColumns style.gridAutoColumns
    style.base.gap.width (columnIsOccupied d.placed.matrix) = .ok su.columns
  hrows : initializeGridTracks (toNatCounts d.placed.matrix.rows) style.gridTemplateRows style.gridAutoRows
    style.base.gap.height (rowIsOccupied d.placed.matrix) = .ok su.rows
  hidx : resolveItemTrackIndexes (itemsOf (mkCtx style.base inputs) cs d.placed) d.placed.matrix.columns
    d.placed.matrix.rows = .ok d.items'
  hitems : su.items = determineCrossings d.items' su.columns su.rows
  hcc : su.finalColCounts = d.placed.matrix.columns
  hrc : su.finalRowCounts = d.placed.matrix.rows

/-- **the setup** either panics or hands ONE `Setup` to the rest of the program, for which all of `SetupOK` holds -/
theorem gridSetupK_cases2 (style : GridStyle α) (cs : List (GridChildStyle α)) (inputs : LayoutInput α) :
    (∃ e, ∀ {β : Type} (k : Setup α → GM α β), gridSetupK style cs inputs k = throw e) ∨
    (∃ su d, SetupOK style cs inputs su d ∧
      ∀ {β : Type} (k : Setup α → GM α β), gridSetupK style cs inputs k = k su) := by
  unfold gridSetupK gridSetupA gridSetupB
  simp only []
  rcases ofExcept_cases (α := α) (computeExplicitGridSizeInAxis style.base.size.width style.base.maxSize.width
    style.base.gap.width style.gridTemplateColumns (mkCtx style.base inputs).autoFitContainerSize.width) with
    ⟨ec, hec, e1⟩ | ⟨e, he⟩
  rotate_left
  · exact Or.inl ⟨e, fun k => he _⟩
  simp only [e1]
  rcases ofExcept_cases (α := α) (computeExplicitGridSizeInAxis style.base.size.height style.base.maxSize.height
    style.base.gap.height style.gridTemplateRows (mkCtx style.base inputs).autoFitContainerSize.height) with
    ⟨er, her, e2⟩ | ⟨e, he⟩
  rotate_left
  · exact Or.inl ⟨e, fun k => he _⟩
  simp only [e2]
  rcases ofOutcome_cases (α := α) (GridPlacement.computeGridSizeEstimate ec er (boxChildrenOf cs)) with
    ⟨⟨estC, estR⟩, hest, e3⟩ | ⟨e, he⟩
  rotate_left
  · exact Or.inl ⟨e, fun k => he _⟩
  simp only [e3]
  rcases ofOutcome_cases (α := α) (GridPlacement.Matrix.withTrackCounts estC estR) with ⟨m0, hm0, e4⟩ | ⟨e, he⟩
  rotate_left
  · exact Or.inl ⟨e, fun k => he _⟩
  simp only [e4]
  rcases ofOutcome_cases (α := α) (GridPlacement.placeGridItems GridPlacement.defaultFuel m0 (inFlowOf cs)
    style.gridAutoFlow) with ⟨placed, hp, e5⟩ | ⟨e, he⟩
  rotate_left
  · exact Or.inl ⟨e, fun k => he _⟩
  simp only [e5]
  rcases ofExcept_cases (α := α) (initializeGridTracks (toNatCounts placed.matrix.columns) style.gridTemplateColumns
    style.gridAutoColumns style.base.gap.width (columnIsOccupied placed.matrix)) with ⟨cols, hcols, e6⟩ | ⟨e, he⟩
  rotate_left
  · exact Or.inl ⟨e, fun k => he _⟩
  simp only [e6]
  rcases ofExcept_cases (α := α) (initializeGridTracks (toNatCounts placed.matrix.rows) style.gridTemplateRows
    style.gridAutoRows style.base.gap.height (rowIsOccupied placed.matrix)) with ⟨rws, hrows, e7⟩ | ⟨e, he⟩
  rotate_left
  · exact Or.inl ⟨e, fun k => he _⟩
  simp only [e7]
  rcases ofOutcome_cases (α := α) (resolveItemTrackIndexes (itemsOf (mkCtx style.base inputs) cs placed)
    placed.matrix.columns placed.matrix.rows) with ⟨items', hi, e8⟩ | ⟨e, he⟩
  rotate_left
  · exact Or.inl ⟨e, fun k => he _⟩
  simp only [e8]
  exact Or.inr ⟨_, ⟨ec, er, estC, estR, m0, placed, items'⟩,
    ⟨hec, her, hest, hm0, hp, hcols, hrows, hi, rfl, rfl, rfl⟩, fun k => rfl⟩

/-! ### the resolved track indexes -/

theorem intoTrackVecIndex_spec {line r : Int} {c : GridPlacement.TrackCounts}
    (h : intoTrackVecIndex line c = .ok r) : r = 2 * (line + c.negativeImplicit) ∧ 0 ≤ line + c.negativeImplicit := by
  unfold intoTrackVecIndex at h
  simp only [GridPlacement.bind_eq, GridPlacement.bind_eq_ok] at h
  obtain ⟨n, hn, negN, hnn, h⟩ := h
  have en : n = c.negativeImplicit := by
    unfold GridPlacement.i16 at hn; split at hn <;> cases hn; rfl
  subst en
  split at h
  · cases h
  · simp only [GridPlacement.bind_eq, GridPlacement.bind_eq_ok] at h
    obtain ⟨s, hs, s16, hs16, h⟩ := h
    split at h
    · cases h
    · simp only [GridPlacement.bind_eq, GridPlacement.bind_eq_ok] at h
      obtain ⟨t, ht, u, hu, h⟩ := h
      have et : t = line + c.negativeImplicit := by
        unfold GridPlacement.i16 at ht; split at ht <;> cases ht; rfl
      have eu : u = t ∧ 0 ≤ t := by
        unfold GridPlacement.usize at hu; split at hu <;> cases hu
        rename_i hh; exact ⟨rfl, hh.1⟩
      have er : r = 2 * u := by
        unfold GridPlacement.usize at h; split at h <;> cases h; rfl
      obtain ⟨eu1, eu2⟩ := eu
      subst et eu1 er
      exact ⟨rfl, eu2⟩

theorem u16_spec {x y : Int} (h : GridPlacement.u16 x = .ok y) : y = x := by
  unfold GridPlacement.u16 at h; split at h <;> cases h; rfl

theorem mapO_mem {β γ : Type} (f : β → GridPlacement.Outcome γ) : ∀ (l : List β) (l' : List γ),
    GridPlacement.mapO f l = .ok l' → ∀ y ∈ l', ∃ x ∈ l, f x = .ok y := by
  intro l
  induction l with
  | nil => intro l' h y hy; simp only [GridPlacement.mapO, GridPlacement.pure_eq] at h; cases h; cases hy
  | cons x xs ih =>
    intro l' h y hy
    simp only [GridPlacement.mapO, GridPlacement.bind_eq, GridPlacement.bind_eq_ok, GridPlacement.pure_eq] at h
    obtain ⟨y0, h1, ys, h2, h3⟩ := h
    cases h3
    rcases List.mem_cons.1 hy with rfl | hy
    · exact ⟨x, List.mem_cons_self, h1⟩
    · obtain ⟨x', hx', e⟩ := ih ys h2 y hy
      exact ⟨x', List.mem_cons_of_mem _ hx', e⟩

/-- what `resolve_item_track_indexes` does to one item -/
theorem resolveItemTrackIndexes_item (items items' : List (GItem α)) (cc rc : GridPlacement.TrackCounts)
    (h : resolveItemTrackIndexes items cc rc = .ok items') : ∀ y ∈ items', ∃ x ∈ items,
      y = { x with columnIndexes := ⟨(2 * (x.column.start + cc.negativeImplicit)).toNat,
                                      (2 * (x.column.end + cc.negativeImplicit)).toNat⟩,
                   rowIndexes := ⟨(2 * (x.row.start + rc.negativeImplicit)).toNat,
                                   (2 * (x.row.end + rc.negativeImplicit)).toNat⟩ } ∧
      0 ≤ x.column.start + cc.negativeImplicit ∧ 0 ≤ x.column.end + cc.negativeImplicit ∧
      0 ≤ x.row.start + rc.negativeImplicit ∧ 0 ≤ x.row.end + rc.negativeImplicit := by
  intro y hy
  unfold resolveItemTrackIndexes at h
  obtain ⟨x, hx, hxy⟩ := mapO_mem _ items items' h y hy
  refine ⟨x, hx, ?_⟩
  simp only [GridPlacement.bind_eq, GridPlacement.bind_eq_ok, GridPlacement.pure_eq] at hxy
  obtain ⟨a1, h1, a2, h2, a3, h3, a4, h4, b1, g1, b2, g2, b3, g3, b4, g4, h9⟩ := hxy
  cases h9
  obtain ⟨e1, p1⟩ := intoTrackVecIndex_spec h1
  obtain ⟨e2, p2⟩ := intoTrackVecIndex_spec h2
  obtain ⟨e3, p3⟩ := intoTrackVecIndex_spec h3
  obtain ⟨e4, p4⟩ := intoTrackVecIndex_spec h4
  rw [u16_spec g1, u16_spec g2, u16_spec g3, u16_spec g4, e1, e2, e3, e4]
  exact ⟨rfl, p1, p2, p3, p4⟩

/-- the item is the one `GItem.new` made of the placement record `p` -/
def FromPlaced (placed : GridPlacement.State) (x : GItem α) : Prop :=
  ∃ p ∈ placed.items, x.node = p.index ∧ x.column = p.column ∧ x.row = p.row

theorem itemsOf_fromPlaced (c : Ctx α) (cs : List (GridChildStyle α)) (placed : GridPlacement.State) :
    ∀ x ∈ itemsOf c cs placed, FromPlaced placed x := by
  intro x hx
  unfold itemsOf at hx
  obtain ⟨p, hp, rfl⟩ := List.mem_map.1 hx
  exact ⟨p, List.mem_reverse.1 hp, rfl, rfl, rfl⟩

theorem good_of_indexes (ax : Ax) (x : GItem α) (n : Int) (T : List (GridTrack α))
    (hs : 0 ≤ (x.placement ax).start + n) (hlt : (x.placement ax).start < (x.placement ax).end)
    (hidx : x.placementIndexes ax = ⟨(2 * ((x.placement ax).start + n)).toNat, (2 * ((x.placement ax).end + n)).toNat⟩)
    (hflex : x.crossesFlexibleTrack ax = (x.spannedTracks ax T).any (·.isFlexible))
    (hintr : x.crossesIntrinsicTrack ax = (x.spannedTracks ax T).any (·.hasIntrinsicSizingFunction)) :
    GoodItem ax n T x := by
  refine ⟨?_, ?_, ?_, ?_, hflex, hintr⟩
  · unfold Even2; rw [hidx]; simp only []; omega
  · unfold GItem.span; rw [hidx]; simp only []; omega
  · rw [hidx]; simp only []; omega
  · rw [hidx]; simp only []; omega

/-- **the items of the setup are consistent with the tracks of both axes** (given that every placed area spans at least
one track, which placement guarantees) -/
theorem setup_good (style : GridStyle α) (cs : List (GridChildStyle α)) (inputs : LayoutInput α) (su : Setup α)
    (d : SetupData α) (h : SetupOK style cs inputs su d)
    (hne : ∀ p ∈ d.placed.items, p.column.start < p.column.end ∧ p.row.start < p.row.end) :
    ∀ it ∈ su.items, GoodItem .inl d.placed.matrix.columns.negativeImplicit su.columns it ∧
      GoodItem .blk d.placed.matrix.rows.negativeImplicit su.rows it ∧
      ∃ x : GItem α, FromPlaced d.placed x ∧ it.node = x.node ∧ it.column = x.column ∧ it.row = x.row := by
  intro it hit
  rw [h.hitems] at hit
  unfold determineCrossings at hit
  obtain ⟨y, hy, rfl⟩ := List.mem_map.1 hit
  obtain ⟨x, hx, rfl, p1, p2, p3, p4⟩ := resolveItemTrackIndexes_item _ _ _ _ h.hidx y hy
  obtain ⟨p, hp, e0, e1, e2⟩ := itemsOf_fromPlaced _ _ _ x hx
  obtain ⟨l1, l2⟩ := hne p hp
  refine ⟨?_, ?_, x, ⟨p, hp, e0, e1, e2⟩, rfl, rfl, rfl⟩
  · exact good_of_indexes .inl _ _ _ p1 (by show x.column.start < x.column.end; rw [e1]; exact l1) rfl rfl rfl
  · exact good_of_indexes .blk _ _ _ p3 (by show x.row.start < x.row.end; rw [e2]; exact l2) rfl rfl rfl

end GridLift
