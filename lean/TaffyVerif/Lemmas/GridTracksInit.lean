/-
  Helper lemmas about `GridTracks.initializeGridTracks` / `computeExplicitGridSizeInAxis` (for Props/C09.lean).
-/
import TaffyVerif.Model.GridTracksInit
import Mathlib.Tactic.Linarith

set_option linter.unusedSectionVars false

namespace GridTracks
variable {α : Type} [Num α]

/-- `g` is the gutter that `initialize_grid_tracks` pushes right after track `t`: the gap, or — after a collapsed
auto-fit track — the collapsed (zero) gutter -/
def GoodGutter (gap : LP α) (t g : GridTrack α) : Prop :=
  g = GridTrack.gutter gap ∨ (g = (GridTrack.gutter gap).collapse ∧ t.isCollapsed = true)

/-- track, gutter, track, gutter, … -/
inductive Pairs (gap : LP α) : List (GridTrack α) → Prop
  | nil : Pairs gap []
  | cons (t g : GridTrack α) (rest : List (GridTrack α)) :
      t.kind = .track → GoodGutter gap t g → Pairs gap rest → Pairs gap (t :: g :: rest)

theorem Pairs.append {gap : LP α} {l₁ l₂ : List (GridTrack α)} (h₁ : Pairs gap l₁) (h₂ : Pairs gap l₂) :
    Pairs gap (l₁ ++ l₂) := by
  induction h₁ with
  | nil => simpa using h₂
  | cons t g rest ht hg _ ih => exact Pairs.cons t g (rest ++ l₂) ht hg ih

theorem pairs_flatMap {β : Type} (gap : LP α) (l : List β) (h : β → List (GridTrack α))
    (hh : ∀ b, ∃ t g, h b = [t, g] ∧ t.kind = .track ∧ GoodGutter gap t g) : Pairs gap (l.flatMap h) := by
  induction l with
  | nil => exact Pairs.nil
  | cons b rest ih =>
    obtain ⟨t, g, e, ht, hg⟩ := hh b
    rw [List.flatMap_cons, e]
    exact Pairs.cons t g _ ht hg ih

@[simp] theorem new_kind (f : TrackFn α) : (GridTrack.new f).kind = .track := rfl
@[simp] theorem gutter_kind (gap : LP α) : (GridTrack.gutter gap).kind = .gutter := rfl
@[simp] theorem collapse_kind (t : GridTrack α) : t.collapse.kind = t.kind := rfl
@[simp] theorem collapse_isCollapsed (t : GridTrack α) : t.collapse.isCollapsed = true := rfl
@[simp] theorem collapse_minFn (t : GridTrack α) : t.collapse.minFn = .length 0 := rfl
@[simp] theorem collapse_maxFn (t : GridTrack α) : t.collapse.maxFn = .length 0 := rfl
@[simp] theorem gutter_isCollapsed (gap : LP α) : (GridTrack.gutter gap).isCollapsed = false := rfl
@[simp] theorem gutter_minFn (gap : LP α) : (GridTrack.gutter gap).minFn = MinTrack.ofLP gap := rfl
@[simp] theorem gutter_maxFn (gap : LP α) : (GridTrack.gutter gap).maxFn = MaxTrack.ofLP gap := rfl
@[simp] theorem new_minFn (f : TrackFn α) : (GridTrack.new f).minFn = f.min := rfl
@[simp] theorem new_maxFn (f : TrackFn α) : (GridTrack.new f).maxFn = f.max := rfl
@[simp] theorem new_isCollapsed (f : TrackFn α) : (GridTrack.new f).isCollapsed = false := rfl

theorem GoodGutter.kind {gap : LP α} {t g : GridTrack α} (h : GoodGutter gap t g) : g.kind = .gutter := by
  rcases h with h | ⟨h, _⟩ <;> subst h <;> rfl

theorem pairs_createImplicitTracks (gap : LP α) (count : Nat) (nth : Nat → TrackFn α) :
    Pairs gap (createImplicitTracks count nth gap) := by
  unfold createImplicitTracks
  exact pairs_flatMap gap _ _ fun i => ⟨_, _, rfl, rfl, Or.inl rfl⟩

theorem pairs_autoRepeatTracks (gap : LP α) (fit : Bool) (fs : List (TrackFn α)) (n : Nat) (has : Nat → Bool)
    (idx : Nat) : Pairs gap (autoRepeatTracks fit fs n gap has idx) := by
  unfold autoRepeatTracks
  refine pairs_flatMap gap _ _ fun ⟨f, i⟩ => ?_
  by_cases c : (fit && !has (idx + i)) = true
  · exact ⟨(GridTrack.new f).collapse, (GridTrack.gutter gap).collapse, by simp [c], rfl, Or.inr ⟨rfl, rfl⟩⟩
  · exact ⟨GridTrack.new f, GridTrack.gutter gap, by simp [c], rfl, Or.inl rfl⟩

theorem pairs_explicitTracks (gap : LP α) (autoN : Nat) (has : Nat → Bool) (tpl : List (TrackDef α)) (idx : Nat) :
    Pairs gap (explicitTracks autoN gap has tpl idx) := by
  induction tpl generalizing idx with
  | nil => exact Pairs.nil
  | cons d rest ih =>
    cases d with
    | single f =>
      simp only [explicitTracks, List.cons_append, List.nil_append]
      exact Pairs.cons _ _ _ rfl (Or.inl rfl) (ih _)
    | rep r fs =>
      cases r with
      | count c =>
        simp only [explicitTracks]
        exact Pairs.append (pairs_flatMap gap _ _ fun f => ⟨_, _, rfl, rfl, Or.inl rfl⟩) (ih _)
      | autoFit =>
        simp only [explicitTracks]
        exact Pairs.append (pairs_autoRepeatTracks gap _ _ _ _ _) (ih _)
      | autoFill =>
        simp only [explicitTracks]
        exact Pairs.append (pairs_autoRepeatTracks gap _ _ _ _ _) (ih _)

theorem pairs_bodyTracks (counts : TrackCounts) (tpl : List (TrackDef α)) (autoTracks : List (TrackFn α))
    (gap : LP α) (has : Nat → Bool) (autoN : Nat) : Pairs gap (bodyTracks counts tpl autoTracks gap has autoN) := by
  unfold bodyTracks
  refine Pairs.append (Pairs.append ?_ ?_) (pairs_createImplicitTracks gap _ _)
  · split
    · exact pairs_createImplicitTracks gap _ _
    · exact Pairs.nil
  · split
    · exact pairs_explicitTracks gap _ _ _ _
    · exact Pairs.nil

/-! ### index view of `Pairs` -/

theorem Pairs.length_even {gap : LP α} {l : List (GridTrack α)} (h : Pairs gap l) : l.length % 2 = 0 := by
  induction h with
  | nil => rfl
  | cons t g rest _ _ _ ih => simp only [List.length_cons]; omega

theorem Pairs.kind_at {gap : LP α} {l : List (GridTrack α)} (h : Pairs gap l) (i : Nat) (hi : i < l.length) :
    l[i].kind = if i % 2 = 0 then .track else .gutter := by
  induction h generalizing i with
  | nil => simp at hi
  | cons t g rest ht hg _ ih =>
    match i with
    | 0 => simpa using ht
    | 1 => simpa using hg.kind
    | i + 2 =>
      have : i < rest.length := by simpa using hi
      have e : (t :: g :: rest)[i + 2] = rest[i] := by simp
      rw [e, ih i this]
      have : (i + 2) % 2 = i % 2 := by omega
      rw [this]

/-- a gutter inside `Pairs` (odd position) is a good gutter for the track just before it -/
theorem Pairs.gutter_at {gap : LP α} {l : List (GridTrack α)} (h : Pairs gap l) (i : Nat) (hi : i + 1 < l.length)
    (hodd : i % 2 = 0) : GoodGutter gap (l[i]'(by omega)) l[i + 1] := by
  induction h generalizing i with
  | nil => simp at hi
  | cons t g rest ht hg _ ih =>
    match i with
    | 0 => simpa using hg
    | 1 => omega
    | i + 2 =>
      have h1 : i + 1 < rest.length := by simp at hi; omega
      have := ih i h1 (by omega)
      simpa using this

/-! ### `collapseFirstLast` -/

theorem collapseFirstLast_length (l : List (GridTrack α)) : (collapseFirstLast l).length = l.length := by
  simp [collapseFirstLast]

theorem collapseFirstLast_getElem (l : List (GridTrack α)) (i : Nat) (hi : i < (collapseFirstLast l).length) :
    (collapseFirstLast l)[i] =
      if i = 0 ∨ i = l.length - 1 then (l[i]'(by simpa [collapseFirstLast] using hi)).collapse
      else l[i]'(by simpa [collapseFirstLast] using hi) := by
  have hi' : i < l.length := by simpa [collapseFirstLast] using hi
  simp only [collapseFirstLast, List.getElem_modify]
  by_cases h0 : i = 0
  · subst h0
    by_cases hl : l.length - 1 = 0
    · simp [hl, GridTrack.collapse]
    · simp [hl]
  · have h0' : ¬ (0 = i) := fun h => h0 h.symm
    by_cases hl : l.length - 1 = i
    · simp [hl, h0']
    · have hl' : ¬ (i = l.length - 1) := fun h => hl h.symm
      simp [hl, h0', h0, hl']

/-! ### counting the explicit tracks -/

/-- number of tracks the template expands to, `autoN` being the number of auto-repeated tracks -/
def expansionCount (autoN : Nat) : List (TrackDef α) → Nat
  | [] => 0
  | .single _ :: rest => 1 + expansionCount autoN rest
  | .rep (.count c) fs :: rest => fs.length * c + expansionCount autoN rest
  | .rep _ fs :: rest => (if fs.isEmpty then 0 else autoN) + expansionCount autoN rest

theorem cycleTake_length (fs : List (TrackFn α)) (n : Nat) :
    (cycleTake fs n).length = if fs.isEmpty then 0 else n := by
  unfold cycleTake
  split <;> simp

theorem length_flatMap_pair {β : Type} (l : List β) (h : β → List (GridTrack α)) (hh : ∀ b, (h b).length = 2) :
    (l.flatMap h).length = 2 * l.length := by
  induction l with
  | nil => rfl
  | cons b rest ih => simp only [List.flatMap_cons, List.length_append, hh b, ih, List.length_cons]; omega

theorem autoRepeatTracks_length (gap : LP α) (fit : Bool) (fs : List (TrackFn α)) (n : Nat) (has : Nat → Bool)
    (idx : Nat) : (autoRepeatTracks fit fs n gap has idx).length = 2 * (cycleTake fs n).length := by
  unfold autoRepeatTracks
  rw [length_flatMap_pair]
  · simp
  · intro ⟨f, i⟩
    by_cases c : (fit && !has (idx + i)) = true <;> simp [c]

theorem explicitTracks_length (gap : LP α) (autoN : Nat) (has : Nat → Bool) (tpl : List (TrackDef α)) (idx : Nat) :
    (explicitTracks autoN gap has tpl idx).length = 2 * expansionCount autoN tpl := by
  induction tpl generalizing idx with
  | nil => rfl
  | cons d rest ih =>
    cases d with
    | single f =>
      simp only [explicitTracks, expansionCount, List.length_append, List.length_cons, List.length_nil, ih]
      omega
    | rep r fs =>
      cases r with
      | count c =>
        simp only [explicitTracks, expansionCount, List.length_append, ih]
        rw [length_flatMap_pair _ _ (fun _ => rfl), cycleTake_length]
        by_cases he : fs.isEmpty = true
        · have : fs.length = 0 := by simpa using he
          simp [he, this]
        · simp [he]; omega
      | autoFit =>
        simp only [explicitTracks, expansionCount, List.length_append, ih, autoRepeatTracks_length,
          cycleTake_length]
        omega
      | autoFill =>
        simp only [explicitTracks, expansionCount, List.length_append, ih, autoRepeatTracks_length,
          cycleTake_length]
        omega

theorem createImplicitTracks_length (gap : LP α) (count : Nat) (nth : Nat → TrackFn α) :
    (createImplicitTracks count nth gap).length = 2 * count := by
  unfold createImplicitTracks
  rw [length_flatMap_pair _ _ (fun _ => rfl)]
  simp

end GridTracks

namespace GridTracks
variable {α : Type} [Num α]

/-- the true number of tracks generated by the non-auto entries of a template -/
def nonAutoCount : List (TrackDef α) → Nat
  | [] => 0
  | .single _ :: rest => 1 + nonAutoCount rest
  | .rep (.count c) fs :: rest => fs.length * c + nonAutoCount rest
  | .rep _ _ :: rest => nonAutoCount rest

/-- every repetition list is short enough for `tracks.len() as u16` to be exact -/
def SmallReps (tpl : List (TrackDef α)) : Prop := ∀ r fs, TrackDef.rep r fs ∈ tpl → fs.length < 65536

theorem SmallReps.tail {d : TrackDef α} {rest : List (TrackDef α)} (h : SmallReps (d :: rest)) : SmallReps rest :=
  fun r fs hm => h r fs (List.mem_cons_of_mem _ hm)

theorem sumU16_eq (tpl : List (TrackDef α)) (hs : SmallReps tpl) (acc m : Nat)
    (h : sumU16 (tpl.map nonAutoTerm) acc = .ok m) : m = acc + nonAutoCount tpl := by
  induction tpl generalizing acc with
  | nil => simp [sumU16] at h; simp [nonAutoCount, h]
  | cons d rest ih =>
    cases d with
    | single f =>
      simp only [List.map_cons, nonAutoTerm, sumU16] at h
      split at h
      · cases h
      · have := ih hs.tail _ h
        simp only [nonAutoCount]; omega
    | rep r fs =>
      have hfs : fs.length < 65536 := hs r fs (List.mem_cons_self)
      cases r with
      | count c =>
        simp only [List.map_cons, nonAutoTerm] at h
        split at h
        · simp [sumU16] at h
        · simp only [sumU16] at h
          split at h
          · cases h
          · have := ih hs.tail _ h
            have e : fs.length % 65536 = fs.length := Nat.mod_eq_of_lt hfs
            simp only [nonAutoCount]
            rw [e] at this
            rw [Nat.mul_comm fs.length c]
            omega
      | autoFit =>
        simp only [List.map_cons, nonAutoTerm, sumU16] at h
        split at h
        · cases h
        · have := ih hs.tail _ h
          simp only [nonAutoCount]; omega
      | autoFill =>
        simp only [List.map_cons, nonAutoTerm, sumU16] at h
        split at h
        · cases h
        · have := ih hs.tail _ h
          simp only [nonAutoCount]; omega

theorem nonAutoRepeatingTrackCount_eq (tpl : List (TrackDef α)) (hs : SmallReps tpl) (m : Nat)
    (h : nonAutoRepeatingTrackCount tpl = .ok m) : m = nonAutoCount tpl := by
  have := sumU16_eq tpl hs 0 m h
  omega

theorem expansionCount_eq (autoN : Nat) (tpl : List (TrackDef α)) (hz : hasZeroRep tpl = false) :
    expansionCount autoN tpl = nonAutoCount tpl + (tpl.filter TrackDef.isAutoRepetition).length * autoN := by
  induction tpl with
  | nil => simp [expansionCount, nonAutoCount]
  | cons d rest ih =>
    have hz' : hasZeroRep rest = false := by
      simp only [hasZeroRep, List.any_cons, Bool.or_eq_false_iff] at hz
      exact hz.2
    have ih := ih hz'
    cases d with
    | single f =>
      simp only [expansionCount, nonAutoCount, ih, List.filter_cons, TrackDef.isAutoRepetition]
      simp; omega
    | rep r fs =>
      have hfs : fs.isEmpty = false := by
        simp only [hasZeroRep, List.any_cons, Bool.or_eq_false_iff] at hz
        exact hz.1
      cases r with
      | count c =>
        simp only [expansionCount, nonAutoCount, ih, List.filter_cons, TrackDef.isAutoRepetition]
        simp; omega
      | autoFit =>
        simp only [expansionCount, nonAutoCount, ih, List.filter_cons, TrackDef.isAutoRepetition, hfs]
        simp [Nat.add_mul]; omega
      | autoFill =>
        simp only [expansionCount, nonAutoCount, ih, List.filter_cons, TrackDef.isAutoRepetition, hfs]
        simp [Nat.add_mul]; omega

theorem expansionCount_noAuto (autoN : Nat) (tpl : List (TrackDef α))
    (hn : tpl.filter TrackDef.isAutoRepetition = []) : expansionCount autoN tpl = nonAutoCount tpl := by
  induction tpl with
  | nil => rfl
  | cons d rest ih =>
    cases d with
    | single f =>
      have : rest.filter TrackDef.isAutoRepetition = [] := by simpa [List.filter_cons, TrackDef.isAutoRepetition] using hn
      simp [expansionCount, nonAutoCount, ih this]
    | rep r fs =>
      cases r with
      | count c =>
        have : rest.filter TrackDef.isAutoRepetition = [] := by
          simpa [List.filter_cons, TrackDef.isAutoRepetition] using hn
        simp [expansionCount, nonAutoCount, ih this]
      | autoFit => simp [List.filter_cons, TrackDef.isAutoRepetition] at hn
      | autoFill => simp [List.filter_cons, TrackDef.isAutoRepetition] at hn

/-- what `compute_explicit_grid_size_in_axis` returns, as far as track initialisation cares -/
theorem computeExplicit_shape [NumCast α] (size maxSize : Dimension α) (gap : LP α) (tpl : List (TrackDef α))
    (inner : Option α) (n : Nat) (hs : SmallReps tpl) (hlen : tpl.length < 65536)
    (h : computeExplicitGridSizeInAxis size maxSize gap tpl inner = .ok n) :
    n = 0 ∨ (hasZeroRep tpl = false ∧ nonAutoRepeatingTrackCount tpl = .ok (nonAutoCount tpl) ∧
      ((tpl.filter TrackDef.isAutoRepetition = [] ∧ n = nonAutoCount tpl) ∨
       ((tpl.filter TrackDef.isAutoRepetition).length = 1 ∧ nonAutoCount tpl ≤ n))) := by
  unfold computeExplicitGridSizeInAxis at h
  split at h
  · left; cases h; rfl
  · split at h
    · left; cases h; rfl
    · rename_i hz
      have hz : hasZeroRep tpl = false := by simpa using hz
      split at h
      · cases h
      · rename_i m hm
        have hm' := nonAutoRepeatingTrackCount_eq tpl hs m hm
        subst hm'
        have hfl : (tpl.filter TrackDef.isAutoRepetition).length < 65536 :=
          Nat.lt_of_le_of_lt (List.length_filter_le _ _) hlen
        have hmod : (tpl.filter TrackDef.isAutoRepetition).length % 65536
            = (tpl.filter TrackDef.isAutoRepetition).length := Nat.mod_eq_of_lt hfl
        simp only [hmod] at h
        split at h
        · left; cases h; rfl
        · split at h
          · rename_i h0
            right
            refine ⟨hz, hm, Or.inl ⟨?_, ?_⟩⟩
            · have : (tpl.filter TrackDef.isAutoRepetition).length = 0 := by simpa using h0
              exact List.length_eq_zero_iff.mp this
            · cases h; rfl
          · rename_i hvalid h0
            have h1 : (tpl.filter TrackDef.isAutoRepetition).length = 1 := by
              simp only [Bool.not_eq_true', Bool.or_eq_false_iff, not_and, beq_eq_false_iff_ne] at hvalid h0
              by_contra hne
              have : ((tpl.filter TrackDef.isAutoRepetition).length == 1) = false := by simpa using hne
              simp [this] at hvalid
              exact h0 (by simpa using hvalid)
            split at h
            · cases h
            · split at h
              · cases h
              · split at h
                · cases h
                · split at h
                  · cases h
                  · cases h
                    right
                    exact ⟨hz, hm, Or.inr ⟨h1, Nat.le_add_right _ _⟩⟩

end GridTracks
