/-
  Helper lemmas about Model/GridPlacement.lean, part 10 (towards `placement_total`): the grid size estimate under the
  input bound, the three phases, `place_grid_items` and `run`.
  Bound bookkeeping: raw lines within `±B`, spans `≤ B`, explicit counts `≤ B`  ⇒  origin-zero lines within `±L`,
  spans within `1..L` for `L = B + 1`; the estimate is within `K₀ = 3·L`; every recorded item moves the bound by at most
  `G = L + 1`; so with `n` children everything stays within `K₀ + G·n`, and `K₀ + G·n + 2·L + 2 ≤ 16000` keeps every
  machine integer far inside i16.
-/
import TaffyVerif.Lemmas.GridPlacementTotalSearch

set_option linter.unusedSimpArgs false
set_option linter.unusedVariables false

namespace GridPlacement
open Outcome

theorem WP.of_eq {α : Type} {x : Outcome α} {P : α → Prop} {a : α} (h : WP x P) (hx : x = .ok a) : P a := by
  rw [hx] at h; exact h

theorem wp_mapO {α β : Type} {f : α → Outcome β} {Q : β → Prop} : ∀ (l : List α), (∀ x ∈ l, WP (f x) Q) →
    WP (mapO f l) (fun ys => ys.length = l.length ∧ ∀ y ∈ ys, ∃ x ∈ l, f x = .ok y) := by
  intro l
  induction l with
  | nil => intro _; exact wp_pure ⟨rfl, fun _ h => nomatch h⟩
  | cons x xs ih =>
    intro h
    unfold mapO
    refine wp_bind_ok (h x List.mem_cons_self) ?_
    intro y hy _
    refine wp_bind_ok (ih fun x' hx' => h x' (List.mem_cons_of_mem _ hx')) ?_
    rintro ys - ⟨q1, q2⟩
    refine wp_pure ⟨by simp [q1], ?_⟩
    intro y' hy'
    rcases List.mem_cons.1 hy' with rfl | hy'
    · exact ⟨x, List.mem_cons_self, hy⟩
    · obtain ⟨x', hx', hf⟩ := q2 y' hy'
      exact ⟨x', List.mem_cons_of_mem _ hx', hf⟩

/-! ### the grid size estimate under the input bound -/

macro "wp_leaf" : tactic => `(tactic| first
  | (refine wp_pure ?_; omega)
  | (refine wp_pure ?_; split <;> omega)
  | (refine wp_mono (wp_ozAdd (by omega) (by omega) (by omega) (by omega)) ?_; rintro _ - rfl; omega)
  | (refine wp_mono (wp_ozSub (by omega) (by omega) (by omega) (by omega)) ?_; rintro _ - rfl; omega))

theorem wp_childMinMax {B e : Int} {l : Line Placement} (hl : LineRaw B l) (he0 : 0 ≤ e) (heB : e ≤ B)
    (hB : B ≤ 4000) :
    WP (childMinLineMaxLineSpan l e) (fun r =>
      -(2 * (B + 1)) ≤ r.1 ∧ r.1 ≤ 2 * (B + 1) ∧ -(2 * (B + 1)) ≤ r.2.1 ∧ r.2.1 ≤ 2 * (B + 1) ∧
      1 ≤ r.2.2 ∧ r.2.2 ≤ B + 1) := by
  unfold childMinLineMaxLineSpan
  refine wp_bind_ok (wp_intoOriginZero hl he0 heB (by omega)) ?_
  rintro ⟨st, en⟩ - ⟨b1, b2⟩
  dsimp only at b1 b2 ⊢
  refine wp_bind_ok (Q := fun mn => -(2 * (B + 1)) ≤ mn ∧ mn ≤ 2 * (B + 1)) ?_ ?_
  · cases st <;> cases en <;> simp only [PlB] at b1 b2 ⊢
    all_goals first | wp_leaf | (split <;> wp_leaf)
  rintro mn - ⟨m1, m2⟩
  refine wp_bind_ok (Q := fun mx => -(2 * (B + 1)) ≤ mx ∧ mx ≤ 2 * (B + 1)) ?_ ?_
  · cases st <;> cases en <;> simp only [PlB] at b1 b2 ⊢
    all_goals first | wp_leaf | (split <;> wp_leaf)
  rintro mx - ⟨m3, m4⟩
  refine wp_bind_ok (Q := fun sp => 1 ≤ sp ∧ sp ≤ B + 1) ?_ ?_
  · split
    · exact wp_pure ⟨by omega, by omega⟩
    · rename_i hd
      exact wp_indefiniteSpan ⟨b1, b2⟩ (by omega) (by simpa using hd)
  rintro sp - ⟨s1, s2⟩
  exact wp_pure ⟨m1, m2, m3, m4, s1, s2⟩

/-- raw bound of one child -/
def ChildRaw (B : Int) (c : Child) : Prop := LineRaw B c.row ∧ LineRaw B c.column

structure KB (L : Int) (k : KnownPositions) : Prop where
  c1 : -(2 * L) ≤ k.colMin
  c2 : k.colMin ≤ 2 * L
  c3 : -(2 * L) ≤ k.colMax
  c4 : k.colMax ≤ 2 * L
  c5 : 0 ≤ k.colMaxSpan
  c6 : k.colMaxSpan ≤ L
  r1 : -(2 * L) ≤ k.rowMin
  r2 : k.rowMin ≤ 2 * L
  r3 : -(2 * L) ≤ k.rowMax
  r4 : k.rowMax ≤ 2 * L
  r5 : 0 ≤ k.rowMaxSpan
  r6 : k.rowMaxSpan ≤ L

theorem wp_knownFold {B ec er : Int} (hc0 : 0 ≤ ec) (hcB : ec ≤ B) (hr0 : 0 ≤ er) (hrB : er ≤ B) (hB : B ≤ 4000) :
    ∀ (cs : List Child) (acc : KnownPositions), (∀ c ∈ cs, ChildRaw B c) → KB (B + 1) acc →
      WP (knownFold ec er acc cs) (KB (B + 1)) := by
  intro cs
  induction cs with
  | nil => intro acc _ h; exact wp_pure h
  | cons c cs ih =>
    intro acc hcs hacc
    unfold knownFold
    obtain ⟨hrow, hcol⟩ := hcs c List.mem_cons_self
    refine wp_bind_ok (Q := KB (B + 1)) ?_ ?_
    · unfold knownStep
      refine wp_bind_ok (wp_childMinMax hcol hc0 hcB hB) ?_
      rintro ⟨cmn, cmx, csp⟩ - ⟨p1, p2, p3, p4, p5, p6⟩
      refine wp_bind_ok (wp_childMinMax hrow hr0 hrB hB) ?_
      rintro ⟨rmn, rmx, rsp⟩ - ⟨q1, q2, q3, q4, q5, q6⟩
      obtain ⟨a1, a2, a3, a4, a5, a6, a7, a8, a9, a10, a11, a12⟩ := hacc
      dsimp only at p1 p2 p3 p4 p5 p6 q1 q2 q3 q4 q5 q6 ⊢
      refine wp_pure ?_
      constructor <;> dsimp only <;> omega
    · intro acc' _ hacc'
      exact ih acc' (fun c' hc' => hcs c' (List.mem_cons_of_mem _ hc')) hacc'

theorem wp_estimateAxis {L mn mx sp e : Int} (h1 : -(2 * L) ≤ mn) (h2 : mn ≤ 2 * L) (h3 : -(2 * L) ≤ mx)
    (h4 : mx ≤ 2 * L) (h5 : 0 ≤ sp) (h6 : sp ≤ L) (he0 : 0 ≤ e) (heL : e ≤ L) (hL : L ≤ 4001) :
    WP (estimateAxis mn mx sp e) (fun t => TB t (3 * L)) := by
  unfold estimateAxis impliedNegativeImplicitTracks
  dsimp only
  refine wp_bind_ok (Q := fun pos => 0 ≤ pos ∧ pos ≤ 2 * L) ?_ ?_
  · unfold impliedPositiveImplicitTracks
    refine wp_bind_ok (wp_i16 (by omega) (by omega)) ?_
    rintro _ - rfl
    split
    · refine wp_bind_ok (wp_u16 (by omega) (by omega)) ?_
      rintro _ - rfl
      refine wp_mono (wp_u16 (by omega) (by omega)) ?_
      rintro _ - rfl; omega
    · exact wp_pure ⟨by omega, by omega⟩
  rintro pos - ⟨p1, p2⟩
  have hneg : 0 ≤ (if mn < 0 then -mn else 0) ∧ (if mn < 0 then -mn else 0) ≤ 2 * L := by split <;> omega
  generalize (if mn < 0 then -mn else 0) = neg at hneg ⊢
  obtain ⟨n1, n2⟩ := hneg
  refine wp_bind_ok (wp_u16 (by omega) (by omega)) ?_
  rintro _ - rfl
  refine wp_bind_ok (wp_u16 (by omega) (by omega)) ?_
  rintro _ - rfl
  refine wp_bind_ok (Q := fun pos' => 0 ≤ pos' ∧ pos' ≤ 2 * L) ?_ ?_
  · split
    · refine wp_bind_ok (wp_u16 (by omega) (by omega)) ?_
      rintro _ - rfl
      refine wp_mono (wp_u16 (by omega) (by omega)) ?_
      rintro _ - rfl; omega
    · exact wp_pure ⟨p1, p2⟩
  rintro pos' - ⟨q1, q2⟩
  refine wp_pure ?_
  constructor <;> dsimp only <;> omega

theorem wp_estimate {B ec er : Int} {children : List Child} (hc0 : 0 ≤ ec) (hcB : ec ≤ B) (hr0 : 0 ≤ er)
    (hrB : er ≤ B) (hB : B ≤ 4000) (hch : ∀ c ∈ children, ChildRaw B c) :
    WP (computeGridSizeEstimate ec er children) (fun cr => TB cr.1 (3 * (B + 1)) ∧ TB cr.2 (3 * (B + 1))) := by
  unfold computeGridSizeEstimate getKnownChildPositions
  refine wp_bind_ok (wp_knownFold hc0 hcB hr0 hrB hB children _ hch
    ⟨by simp only; omega, by simp only; omega, by simp only; omega, by simp only; omega, by simp only; omega,
     by simp only; omega, by simp only; omega, by simp only; omega, by simp only; omega, by simp only; omega,
     by simp only; omega, by simp only; omega⟩) ?_
  rintro k - ⟨a1, a2, a3, a4, a5, a6, a7, a8, a9, a10, a11, a12⟩
  refine wp_bind_ok (wp_estimateAxis a1 a2 a3 a4 a5 a6 hc0 (by omega) (by omega)) ?_
  intro cols _ hcols
  refine wp_bind_ok (wp_estimateAxis a7 a8 a9 a10 a11 a12 hr0 (by omega) (by omega)) ?_
  intro rows _ hrows
  exact wp_pure ⟨hcols, hrows⟩

/-- the span part of the estimate: an indefinite placement's span is at most the number of estimated tracks -/
theorem estimate_spans {ec er : Int} {children : List Child} {cols rows : TrackCounts} (hec : 0 ≤ ec) (her : 0 ≤ er)
    (h : computeGridSizeEstimate ec er children = .ok (cols, rows)) :
    ∀ c ∈ children,
      (∀ oz s, intoOriginZero c.column ec = .ok oz → isDefiniteOz oz = false → indefiniteSpan oz = .ok s →
        s ≤ cols.total) ∧
      (∀ oz s, intoOriginZero c.row er = .ok oz → isDefiniteOz oz = false → indefiniteSpan oz = .ok s →
        s ≤ rows.total) := by
  simp only [computeGridSizeEstimate, getKnownChildPositions, bind_eq, bind_eq_ok, pure_eq, Outcome.ok.injEq,
    Prod.mk.injEq] at h
  obtain ⟨k, hk, cols', hc, rows', hr, rfl, rfl⟩ := h
  obtain ⟨_, hcov⟩ := knownFold_spec hk
  obtain ⟨_, _, _, c4, _, _⟩ := estimateAxis_spec hec hc
  obtain ⟨_, _, _, r4, _, _⟩ := estimateAxis_spec her hr
  have key : ∀ (l : Line Placement) (e mn mx sp : Int), childMinLineMaxLineSpan l e = .ok (mn, mx, sp) →
      ∀ oz s, intoOriginZero l e = .ok oz → isDefiniteOz oz = false → indefiniteSpan oz = .ok s → s = sp := by
    intro l e mn mx sp hcm oz s hoz hd hs
    simp only [childMinLineMaxLineSpan, bind_eq, bind_eq_ok, pure_eq, Outcome.ok.injEq, Prod.mk.injEq] at hcm
    obtain ⟨oz', hoz', mn', _, mx', _, sp', hsp, _, _, rfl⟩ := hcm
    rw [hoz] at hoz'
    simp only [Outcome.ok.injEq] at hoz'
    subst hoz'
    rw [hd] at hsp
    simp only [Bool.false_eq_true, ↓reduceIte] at hsp
    rw [hs] at hsp
    simpa using hsp
  intro c hc'
  obtain ⟨cmn, cmx, csp, rmn, rmx, rsp, h1, h2, _, _, q3, _, _, q6⟩ := hcov c hc'
  constructor
  · intro oz s hoz hd hs
    have := key _ _ _ _ _ h1 oz s hoz hd hs
    omega
  · intro oz s hoz hd hs
    have := key _ _ _ _ _ h2 oz s hoz hd hs
    omega

/-! ### the phases -/

/-- everything the phases need to know about an origin-zero child, relative to the matrix `m` -/
structure ChildOK (m : Matrix) (L : Int) (c : OzChild) : Prop where
  idx : c.index ≤ 65535
  ax : ∀ a : Axis, AxOK (m.trackCounts a) L (c.get a)

theorem grows_ax {m m' : Matrix} (gc : Grows m.columns m'.columns) (gr : Grows m.rows m'.rows) (a : Axis) :
    Grows (m.trackCounts a) (m'.trackCounts a) := by
  cases a
  · exact gc
  · exact gr

theorem ChildOK.mono {m m' : Matrix} {L : Int} {c : OzChild} (gc : Grows m.columns m'.columns)
    (gr : Grows m.rows m'.rows) (h : ChildOK m L c) : ChildOK m' L c :=
  ⟨h.idx, fun a => (h.ax a).mono (grows_ax gc gr a)⟩

theorem Proper.mono {m m' : Matrix} (gc : Grows m.columns m'.columns) (gr : Grows m.rows m'.rows) (h : Proper m) :
    Proper m' := by
  obtain ⟨g1, g2, g3⟩ := gc
  obtain ⟨g4, g5, g6⟩ := gr
  obtain ⟨p1, p2⟩ := h
  unfold Proper TrackCounts.total at *
  omega

theorem step_arith (G : Int) (n : Nat) : G * ((n + 1 : Nat) : Int) = G * (n : Int) + G := by
  rw [Int.natCast_add, Int.mul_add]; simp

theorem wp_phase1 {L : Int} (hL1 : 1 ≤ L) (ax : Axis) :
    ∀ (cs : List OzChild) (st : State) (K : Int), Bd st.matrix K →
      K + (L + 1) * (cs.length : Int) + 2 * L + 2 ≤ 16000 →
      (∀ c ∈ cs, ChildOK st.matrix L c ∧ isDefiniteOz (c.get ax) = true ∧ isDefiniteOz (c.get ax.other) = true) →
      WP (phase1 ax st cs) (fun st' => Bd st'.matrix (K + (L + 1) * (cs.length : Int)) ∧
        Grows st.matrix.columns st'.matrix.columns ∧ Grows st.matrix.rows st'.matrix.rows) := by
  intro cs
  induction cs with
  | nil =>
    intro st K bd _ _
    exact wp_pure ⟨by simpa using bd, Grows.refl _, Grows.refl _⟩
  | cons c cs ih =>
    intro st K bd hbud hcs
    have hnn : 0 ≤ (L + 1) * (cs.length : Int) := Int.mul_nonneg (by omega) (by omega)
    rw [List.length_cons, step_arith] at hbud ⊢
    obtain ⟨hc, hd1, hd2⟩ := hcs c List.mem_cons_self
    obtain ⟨x1, x2, x3, x4, x5⟩ := bd.ax ax
    obtain ⟨y1, y2, y3, y4, y5⟩ := bd.ax ax.other
    unfold phase1
    refine wp_bind_ok (Q := fun ps => AreaOK st.matrix ax K L ps.1 ps.2) ?_ ?_
    · unfold placeDefiniteGridItem
      refine wp_bind_ok (wp_resolveCovered (hc.ax ax) hL1 (by omega) hd1) ?_
      rintro p - ⟨p1, p0, p2⟩
      refine wp_bind_ok (wp_resolveCovered (hc.ax ax.other) hL1 (by omega) hd2) ?_
      rintro s - ⟨s1, s0, s2⟩
      exact wp_pure ⟨p0, p1, by dsimp only; omega, s0, s1, by dsimp only; omega⟩
    · rintro ⟨p, s⟩ - harea
      refine wp_bind_ok (wp_record bd hL1 (by omega) c.index hc.idx ax (by simp) harea) ?_
      rintro st1 - ⟨bd1, gc, gr⟩
      refine wp_mono (ih st1 (K + L + 1) bd1 (by omega) ?_) ?_
      · intro c' hc'
        obtain ⟨q1, q2, q3⟩ := hcs c' (List.mem_cons_of_mem _ hc')
        exact ⟨q1.mono gc gr, q2, q3⟩
      · rintro st' - ⟨b1, b2, b3⟩
        refine ⟨?_, gc.trans b2, gr.trans b3⟩
        have : K + L + 1 + (L + 1) * (cs.length : Int) = K + ((L + 1) * (cs.length : Int) + (L + 1)) := by omega
        rw [← this]; exact b1

theorem wp_phase2 {L : Int} (hL1 : 1 ≤ L) (fuel : Nat) (flow : AutoFlow) :
    ∀ (cs : List OzChild) (st : State) (K : Int), Bd st.matrix K → (cs ≠ [] → Proper st.matrix) →
      K + (L + 1) * (cs.length : Int) + 2 * L + 2 ≤ 16000 →
      (∀ c ∈ cs, ChildOK st.matrix L c ∧ isDefiniteOz (c.get flow.primaryAxis) = false ∧
        isDefiniteOz (c.get flow.primaryAxis.other) = true) →
      WP (phase2 fuel flow st cs) (fun st' => Bd st'.matrix (K + (L + 1) * (cs.length : Int)) ∧
        Grows st.matrix.columns st'.matrix.columns ∧ Grows st.matrix.rows st'.matrix.rows) := by
  intro cs
  induction cs with
  | nil =>
    intro st K bd _ _ _
    exact wp_pure ⟨by simpa using bd, Grows.refl _, Grows.refl _⟩
  | cons c cs ih =>
    intro st K bd hpr hbud hcs
    have hnn : 0 ≤ (L + 1) * (cs.length : Int) := Int.mul_nonneg (by omega) (by omega)
    rw [List.length_cons, step_arith] at hbud ⊢
    obtain ⟨hc, hd1, hd2⟩ := hcs c List.mem_cons_self
    have pr := hpr (by simp)
    unfold phase2
    refine wp_bind_ok (wp_placeDefiniteSecondary bd pr hL1 (by omega) fuel c flow (hc.ax _) (hc.ax _) hd1 hd2) ?_
    rintro ⟨p, s⟩ - harea
    refine wp_bind_ok (wp_record bd hL1 (by omega) c.index hc.idx flow.primaryAxis (by simp) harea) ?_
    rintro st1 - ⟨bd1, gc, gr⟩
    refine wp_mono (ih st1 (K + L + 1) bd1 (fun _ => pr.mono gc gr) (by omega) ?_) ?_
    · intro c' hc'
      obtain ⟨q1, q2, q3⟩ := hcs c' (List.mem_cons_of_mem _ hc')
      exact ⟨q1.mono gc gr, q2, q3⟩
    · rintro st' - ⟨b1, b2, b3⟩
      refine ⟨?_, gc.trans b2, gr.trans b3⟩
      have : K + L + 1 + (L + 1) * (cs.length : Int) = K + ((L + 1) * (cs.length : Int) + (L + 1)) := by omega
      rw [← this]; exact b1

theorem PosOK.mono {m m' : Matrix} {ax : Axis} {K K' : Int} {pos : Int × Int} (gc : Grows m.columns m'.columns)
    (gr : Grows m.rows m'.rows) (hK : K ≤ K') (h : PosOK m ax K pos) : PosOK m' ax K' pos := by
  obtain ⟨a1, a2, a3, a4⟩ := h
  have g1 := (grows_ax gc gr ax).neg
  have g2 := (grows_ax gc gr ax.other).neg
  exact ⟨by rw [g1]; exact a1, by omega, by rw [g2]; exact a3, by omega⟩

theorem wp_phase4 {L : Int} (hL1 : 1 ≤ L) (fuel : Nat) (flow : AutoFlow) (gs : Int × Int) :
    ∀ (cs : List OzChild) (st : State) (K : Int) (pos : Int × Int), Bd st.matrix K →
      K + (L + 1) * (cs.length : Int) + 2 * L + 2 ≤ 16000 →
      (∀ c ∈ cs, ChildOK st.matrix L c ∧ isDefiniteOz (c.get flow.primaryAxis.other) = false) →
      PosOK st.matrix flow.primaryAxis K gs → PosOK st.matrix flow.primaryAxis K pos →
      WP (phase4 fuel flow gs st pos cs) (fun st' => Bd st'.matrix (K + (L + 1) * (cs.length : Int)) ∧
        Grows st.matrix.columns st'.matrix.columns ∧ Grows st.matrix.rows st'.matrix.rows) := by
  intro cs
  induction cs with
  | nil =>
    intro st K pos bd _ _ _ _
    exact wp_pure ⟨by simpa using bd, Grows.refl _, Grows.refl _⟩
  | cons c cs ih =>
    intro st K pos bd hbud hcs hgs hpos
    have hnn : 0 ≤ (L + 1) * (cs.length : Int) := Int.mul_nonneg (by omega) (by omega)
    rw [List.length_cons, step_arith] at hbud ⊢
    obtain ⟨hc, hd2⟩ := hcs c List.mem_cons_self
    unfold phase4
    refine wp_bind_ok (wp_placeIndefinitely bd hL1 (by omega) fuel c flow pos hpos (hc.ax _) (hc.ax _) hd2) ?_
    rintro ⟨p, s⟩ - ⟨harea, he1, he2⟩
    dsimp only at harea he1 he2
    refine wp_bind_ok (wp_record bd hL1 (by omega) c.index hc.idx flow.primaryAxis (by simp) harea) ?_
    rintro st1 - ⟨bd1, gc, gr⟩
    have hpos' : PosOK st1.matrix flow.primaryAxis (K + L + 1)
        (if flow.isDense = true then gs else (p.«end», s.start)) := by
      split
      · exact hgs.mono gc gr (by omega)
      · obtain ⟨a1, a2, a3, a4, a5, a6⟩ := harea
        refine PosOK.mono gc gr (Int.le_refl _) ⟨?_, ?_, ?_, ?_⟩ <;> dsimp only <;> omega
    refine wp_mono (ih st1 (K + L + 1) _ bd1 (by omega) ?_ (hgs.mono gc gr (by omega)) hpos') ?_
    · intro c' hc'
      obtain ⟨q1, q2⟩ := hcs c' (List.mem_cons_of_mem _ hc')
      exact ⟨q1.mono gc gr, q2⟩
    · rintro st' - ⟨b1, b2, b3⟩
      refine ⟨?_, gc.trans b2, gr.trans b3⟩
      have : K + L + 1 + (L + 1) * (cs.length : Int) = K + ((L + 1) * (cs.length : Int) + (L + 1)) := by omega
      rw [← this]; exact b1

/-! ### `place_grid_items` -/

theorem Axis.other_other (a : Axis) : a.other.other = a := by cases a <;> rfl

/-- the three phases partition the children -/
theorem phases_partition (sec : Axis) : ∀ (l : List (Nat × Child)),
    (l.filter fun ic => isPhase1 ic.2).length + (l.filter fun ic => isPhase2 sec ic.2).length +
      (l.filter fun ic => isPhase4 sec ic.2).length = l.length := by
  intro l
  induction l with
  | nil => rfl
  | cons x xs ih =>
    simp only [List.filter_cons, List.length_cons]
    have h3 : (isPhase1 x.2 = true ∧ isPhase2 sec x.2 = false ∧ isPhase4 sec x.2 = false) ∨
        (isPhase1 x.2 = false ∧ isPhase2 sec x.2 = true ∧ isPhase4 sec x.2 = false) ∨
        (isPhase1 x.2 = false ∧ isPhase2 sec x.2 = false ∧ isPhase4 sec x.2 = true) := by
      unfold isPhase1 isPhase2 isPhase4
      cases sec <;> simp only [Child.gridPlacement, Axis.other] <;>
        cases isDefiniteRaw x.2.row <;> cases isDefiniteRaw x.2.column <;> simp
    rcases h3 with ⟨a, b, c⟩ | ⟨a, b, c⟩ | ⟨a, b, c⟩ <;> simp only [a, b, c, ↓reduceIte, Bool.false_eq_true,
      List.length_cons] <;> omega

theorem toOz_definite {ec er : Int} {ic : Nat × Child} {c : OzChild} (h : toOz ec er ic = .ok c) (a : Axis) :
    isDefiniteOz (c.get a) = isDefiniteRaw (ic.2.gridPlacement a) := by
  obtain ⟨_, h1, h2⟩ := toOz_spec h
  cases a
  · exact (intoOriginZero_spec h1).2
  · exact (intoOriginZero_spec h2).2

theorem wp_placeGridItems {L K : Int} (hL1 : 1 ≤ L) (fuel : Nat) (m : Matrix) (children : List (Nat × Child))
    (flow : AutoFlow) (bd : Bd m K) (hpr : children ≠ [] → Proper m)
    (hbud : K + (L + 1) * (children.length : Int) + 2 * L + 2 ≤ 16000)
    (hwp : ∀ ic ∈ children, WP (toOz m.columns.explicit m.rows.explicit ic) (fun _ => True))
    (hok : ∀ ic ∈ children, ∀ c, toOz m.columns.explicit m.rows.explicit ic = .ok c → ChildOK m L c) :
    WP (placeGridItems fuel m children flow) (fun st =>
      Bd st.matrix (K + (L + 1) * (children.length : Int))) := by
  have hpart := phases_partition flow.primaryAxis.other children
  have hG : 0 ≤ L + 1 := by omega
  generalize hn1 : (children.filter fun ic => isPhase1 ic.2).length = n1 at hpart
  generalize hn2 : (children.filter fun ic => isPhase2 flow.primaryAxis.other ic.2).length = n2 at hpart
  generalize hn4 : (children.filter fun ic => isPhase4 flow.primaryAxis.other ic.2).length = n4 at hpart
  have hsum : (L + 1) * (children.length : Int) =
      (L + 1) * (n1 : Int) + (L + 1) * (n2 : Int) + (L + 1) * (n4 : Int) := by
    rw [← hpart, Int.natCast_add, Int.natCast_add, Int.mul_add, Int.mul_add]
  have nn1 : 0 ≤ (L + 1) * (n1 : Int) := Int.mul_nonneg hG (by omega)
  have nn2 : 0 ≤ (L + 1) * (n2 : Int) := Int.mul_nonneg hG (by omega)
  have nn4 : 0 ≤ (L + 1) * (n4 : Int) := Int.mul_nonneg hG (by omega)
  unfold placeGridItems
  dsimp only
  -- phase 1
  refine wp_bind_ok (wp_mapO _ fun ic hic => hwp ic (List.mem_filter.1 hic).1) ?_
  rintro cs1 - ⟨len1, mem1⟩
  rw [hn1] at len1
  refine wp_bind_ok (wp_phase1 hL1 flow.primaryAxis cs1 ⟨m, []⟩ K bd (by rw [len1]; omega) ?_) ?_
  · intro c hc
    obtain ⟨ic, hic, hto⟩ := mem1 c hc
    obtain ⟨hmem, hq⟩ := List.mem_filter.1 hic
    simp only [isPhase1, Bool.and_eq_true] at hq
    refine ⟨hok ic hmem c hto, ?_, ?_⟩
    · rw [toOz_definite hto]; cases flow.primaryAxis <;> simp only [Child.gridPlacement, hq]
    · rw [toOz_definite hto]; cases flow.primaryAxis <;> simp only [Child.gridPlacement, Axis.other, hq]
  rintro st1 - ⟨bd1, gc1, gr1⟩
  dsimp only at bd1 gc1 gr1
  rw [len1] at bd1
  -- phase 2
  refine wp_bind_ok (wp_mapO _ fun ic hic => hwp ic (List.mem_filter.1 hic).1) ?_
  rintro cs2 - ⟨len2, mem2⟩
  rw [hn2] at len2
  refine wp_bind_ok (wp_phase2 hL1 fuel flow cs2 st1 _ bd1 ?_ (by rw [len2]; omega) ?_) ?_
  · intro hne
    obtain ⟨c, hc⟩ := List.exists_mem_of_ne_nil _ hne
    obtain ⟨ic, hic, _⟩ := mem2 c hc
    exact (hpr (List.ne_nil_of_mem (List.mem_filter.1 hic).1)).mono gc1 gr1
  · intro c hc
    obtain ⟨ic, hic, hto⟩ := mem2 c hc
    obtain ⟨hmem, hq⟩ := List.mem_filter.1 hic
    simp only [isPhase2, Bool.and_eq_true, Bool.not_eq_true', Axis.other_other] at hq
    refine ⟨(hok ic hmem c hto).mono gc1 gr1, ?_, ?_⟩
    · rw [toOz_definite hto]; exact hq.2
    · rw [toOz_definite hto]; exact hq.1
  rintro st2 - ⟨bd2, gc2, gr2⟩
  rw [len2] at bd2
  -- phase 4
  have t1 := bd2.ax flow.primaryAxis
  have t2 := bd2.ax flow.primaryAxis.other
  obtain ⟨x1, x2, x3, x4, x5⟩ := t1
  obtain ⟨y1, y2, y3, y4, y5⟩ := t2
  refine wp_bind_ok (wp_i16 (by omega) (by omega)) ?_
  rintro _ - rfl
  refine wp_bind_ok (wp_i16 (by omega) (by omega)) ?_
  rintro _ - rfl
  refine wp_bind_ok (wp_i16 (by omega) (by omega)) ?_
  rintro _ - rfl
  refine wp_bind_ok (wp_i16 (by omega) (by omega)) ?_
  rintro _ - rfl
  refine wp_bind_ok (wp_mapO _ fun ic hic => hwp ic (List.mem_filter.1 hic).1) ?_
  rintro cs4 - ⟨len4, mem4⟩
  rw [hn4] at len4
  have hgs : PosOK st2.matrix flow.primaryAxis (K + (L + 1) * (n1 : Int) + (L + 1) * (n2 : Int))
      (-(st2.matrix.trackCounts flow.primaryAxis).negativeImplicit,
       -(st2.matrix.trackCounts flow.primaryAxis.other).negativeImplicit) :=
    ⟨by dsimp only; omega, by dsimp only; omega, by dsimp only; omega, by dsimp only; omega⟩
  refine wp_mono (wp_phase4 hL1 fuel flow _ cs4 st2 _ _ bd2 (by rw [len4]; omega) ?_ hgs hgs) ?_
  · intro c hc
    obtain ⟨ic, hic, hto⟩ := mem4 c hc
    obtain ⟨hmem, hq⟩ := List.mem_filter.1 hic
    simp only [isPhase4, Bool.not_eq_true'] at hq
    refine ⟨((hok ic hmem c hto).mono gc1 gr1).mono gc2 gr2, ?_⟩
    rw [toOz_definite hto]; exact hq
  · rintro st' - ⟨b1, _, _⟩
    rw [len4] at b1
    rw [hsum]
    have : K + ((L + 1) * (n1 : Int) + (L + 1) * (n2 : Int) + (L + 1) * (n4 : Int)) =
        K + (L + 1) * (n1 : Int) + (L + 1) * (n2 : Int) + (L + 1) * (n4 : Int) := by omega
    rw [this]
    exact b1

/-! ### `run` -/

theorem mem_enumFrom_lt {α : Type} {l : List α} {i : Nat} {x : α} (h : (i, x) ∈ enumFrom 0 l) :
    i < l.length ∧ x ∈ l := by
  obtain ⟨_, h2⟩ := mem_enumFrom h
  simp only [Nat.sub_zero] at h2
  obtain ⟨hlt, hx⟩ := List.getElem?_eq_some_iff.1 h2
  exact ⟨hlt, hx ▸ List.getElem_mem hlt⟩

theorem enumFrom_length {α : Type} : ∀ (l : List α) (n : Nat), (enumFrom n l).length = l.length := by
  intro l
  induction l with
  | nil => intro n; rfl
  | cons x xs ih => intro n; simp [enumFrom, ih]

/-- **no panic, no overflow**: for inputs within the bound `B` (lines, spans, explicit counts) with at most `N`
children, where `(N + 5)·(B + 2) ≤ 16000`, the run neither panics nor overflows, and the final track counts are
within `(N + 5)·(B + 2)`. -/
theorem wp_run {B N : Int} (hB0 : 0 ≤ B) (hN0 : 0 ≤ N) (hBN : (N + 5) * (B + 2) ≤ 16000) (fuel : Nat) {ec er : Int}
    (flow : AutoFlow) {children : List Child} (hc0 : 0 ≤ ec) (hcB : ec ≤ B) (hr0 : 0 ≤ er) (hrB : er ≤ B)
    (hlen : (children.length : Int) ≤ N) (hch : ∀ c ∈ children, ChildRaw B c) :
    WP (run fuel ec er flow children) (fun r => TB r.columns ((N + 5) * (B + 2)) ∧ TB r.rows ((N + 5) * (B + 2))) := by
  -- arithmetic
  have e1 : (N + 5) * (B + 2) = (B + 2) * N + 5 * B + 10 := by
    rw [Int.add_mul, Int.mul_add, Int.mul_add, Int.add_mul B 2 N, Int.mul_comm B N]
    omega
  have e2 : (B + 2) * (children.length : Int) ≤ (B + 2) * N := Int.mul_le_mul_of_nonneg_left hlen (by omega)
  have e3 : 0 ≤ (B + 2) * (children.length : Int) := Int.mul_nonneg (by omega) (by omega)
  have e4 : 2 * N ≤ (B + 2) * N := Int.mul_le_mul_of_nonneg_right (by omega) hN0
  have hB : B ≤ 4000 := by omega
  unfold run
  refine wp_bind_ok (wp_estimate hc0 hcB hr0 hrB hB hch) ?_
  rintro ⟨cols, rows⟩ hest ⟨tc, tr⟩
  dsimp only at tc tr ⊢
  obtain ⟨q1, q2, _, _, _, _, hprop, hcov⟩ := estimate_spec hc0 hr0 hest
  have hspans := estimate_spans hc0 hr0 hest
  obtain ⟨x1, x2, x3, x4, x5⟩ := tc
  obtain ⟨y1, y2, y3, y4, y5⟩ := tr
  refine wp_bind_ok (Q := fun m => m.columns = cols ∧ m.rows = rows ∧ MatrixWF m) ?_ ?_
  · unfold Matrix.withTrackCounts
    refine wp_bind_ok (wp_len ⟨y1, y2, y3, y4, y5⟩ (by omega)) ?_
    rintro _ hrl rfl
    refine wp_bind_ok (wp_len ⟨x1, x2, x3, x4, x5⟩ (by omega)) ?_
    rintro _ hcl rfl
    refine wp_pure ⟨rfl, rfl, ?_⟩
    have := @withTrackCounts_wf cols rows _ (by
      unfold Matrix.withTrackCounts
      rw [hrl, hcl]; rfl)
    exact this.1
  rintro m - ⟨rfl, rfl, wf⟩
  have bd : Bd m (3 * (B + 1)) := ⟨wf, ⟨x1, x2, x3, x4, x5⟩, ⟨y1, y2, y3, y4, y5⟩⟩
  have hpg : WP (placeGridItems fuel m (enumFrom 0 children) flow) (fun st =>
      Bd st.matrix (3 * (B + 1) + (B + 1 + 1) * ((enumFrom 0 children).length : Int))) := by
    refine wp_placeGridItems (L := B + 1) (by omega) fuel m _ flow bd ?_ ?_ ?_ ?_
    · intro hne
      have : children ≠ [] := by
        intro h; rw [h] at hne; exact hne rfl
      exact hprop this
    · rw [enumFrom_length]
      have : B + 1 + 1 = B + 2 := by omega
      rw [this]; omega
    · rintro ⟨i, ch⟩ hic
      obtain ⟨_, hmem⟩ := mem_enumFrom_lt hic
      obtain ⟨hrow, hcol⟩ := hch ch hmem
      unfold toOz
      rw [q1, q2]
      refine wp_bind_ok (wp_intoOriginZero hcol hc0 hcB (by omega)) ?_
      intro _ _ _
      refine wp_bind_ok (wp_intoOriginZero hrow hr0 hrB (by omega)) ?_
      intro _ _ _
      exact wp_pure trivial
    · rintro ⟨i, ch⟩ hic c hto
      obtain ⟨hlt, hmem⟩ := mem_enumFrom_lt hic
      obtain ⟨hrow, hcol⟩ := hch ch hmem
      obtain ⟨hidx, h1, h2⟩ := toOz_spec hto
      rw [q1] at h1
      rw [q2] at h2
      dsimp only at hidx h1 h2
      refine ⟨by rw [hidx]; omega, ?_⟩
      intro a
      cases a
      · exact ⟨(wp_intoOriginZero hcol hc0 hcB (by omega)).of_eq h1,
          fun a ha => (hcov ch hmem).1 _ a h1 ha, fun hd s hs => (hspans ch hmem).1 _ s h1 hd hs⟩
      · exact ⟨(wp_intoOriginZero hrow hr0 hrB (by omega)).of_eq h2,
          fun a ha => (hcov ch hmem).2 _ a h2 ha, fun hd s hs => (hspans ch hmem).2 _ s h2 hd hs⟩
  refine wp_bind_ok hpg ?_
  intro st _ bdf
  rw [enumFrom_length] at bdf
  have hfin : 3 * (B + 1) + (B + 1 + 1) * (children.length : Int) ≤ (N + 5) * (B + 2) := by
    have : B + 1 + 1 = B + 2 := by omega
    rw [this]; omega
  have bdf' := bdf.mono hfin
  exact wp_pure ⟨bdf'.cols, bdf'.rows⟩

end GridPlacement
