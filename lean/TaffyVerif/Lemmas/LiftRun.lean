/-
  Lifting component theorems to whole interaction programs: the observer.

  `C04.runO orc p` (Lemmas/FlexScaleRun.lean) runs the program `p` against children that answer `orc child input`; it
  returns the result, the queries and the layouts set.  Here: the two projections used by the lifted theorems
  (`res` = the result, `lays` = the `(child, layout)` pairs handed to `set_unrounded_layout`, in order), their calculus
  (`bind`, `call`, `setLayout`), and the bridge from the syntactic program predicates of the earlier decompositions
  (`EvalBlock.Post`, `EvalFlex.Meas`, `EvalFlex.Lays`) to runs.
-/
import TaffyVerif.Lemmas.FlexScaleRun
import TaffyVerif.Lemmas.EvalFlexLay

set_option linter.unusedSectionVars false
set_option linter.unusedVariables false

namespace Lift
open C04 (runO)

/-- a family of children: child index → query → answer -/
abbrev Orc := Nat → LayoutInput Rat → LayoutOutput Rat

variable {β γ : Type}

/-- the result of the run -/
def res (orc : Orc) (p : ProgM Rat β) : β := (runO orc p).1
/-- the layouts set by the run, in order -/
def lays (orc : Orc) (p : ProgM Rat β) : List (Nat × Layout Rat) := (runO orc p).2.2

theorem res_pure (orc : Orc) (b : β) : res orc (pure b : ProgM Rat β) = b := rfl
theorem lays_pure (orc : Orc) (b : β) : lays orc (pure b : ProgM Rat β) = [] := rfl
theorem res_pure' (orc : Orc) (b : β) : res orc (.pure b : ProgM Rat β) = b := rfl
theorem lays_pure' (orc : Orc) (b : β) : lays orc (.pure b : ProgM Rat β) = [] := rfl

theorem res_call (orc : Orc) (i : Nat) (inp : LayoutInput Rat) (k : LayoutOutput Rat → ProgM Rat β) :
    res orc (.call i inp k) = res orc (k (orc i inp)) := rfl
theorem lays_call (orc : Orc) (i : Nat) (inp : LayoutInput Rat) (k : LayoutOutput Rat → ProgM Rat β) :
    lays orc (.call i inp k) = lays orc (k (orc i inp)) := rfl
theorem res_set (orc : Orc) (i : Nat) (l : Layout Rat) (k : Unit → ProgM Rat β) :
    res orc (.setLayout i l k) = res orc (k ()) := rfl
theorem lays_set (orc : Orc) (i : Nat) (l : Layout Rat) (k : Unit → ProgM Rat β) :
    lays orc (.setLayout i l k) = (i, l) :: lays orc (k ()) := rfl

theorem res_bind (orc : Orc) (p : ProgM Rat β) (f : β → ProgM Rat γ) :
    res orc (p >>= f) = res orc (f (res orc p)) := by
  unfold res; rw [C04.runO_bind]

theorem lays_bind (orc : Orc) (p : ProgM Rat β) (f : β → ProgM Rat γ) :
    lays orc (p >>= f) = lays orc p ++ lays orc (f (res orc p)) := by
  unfold lays res; rw [C04.runO_bind]; rfl

theorem res_ite {c : Prop} [Decidable c] (orc : Orc) (p q : ProgM Rat β) :
    res orc (if c then p else q) = if c then res orc p else res orc q := by split <;> rfl
theorem lays_ite {c : Prop} [Decidable c] (orc : Orc) (p q : ProgM Rat β) :
    lays orc (if c then p else q) = if c then lays orc p else lays orc q := by split <;> rfl

/-- `compute_child_layout` then a continuation -/
theorem res_computeChildLayout (orc : Orc) (i : Nat) (inp : LayoutInput Rat) :
    res orc (ProgM.computeChildLayout i inp) = orc i inp := rfl
theorem lays_computeChildLayout (orc : Orc) (i : Nat) (inp : LayoutInput Rat) :
    lays orc (ProgM.computeChildLayout i inp) = [] := rfl
theorem res_setUnroundedLayout (orc : Orc) (i : Nat) (l : Layout Rat) :
    res orc (ProgM.setUnroundedLayout i l) = () := rfl
theorem lays_setUnroundedLayout (orc : Orc) (i : Nat) (l : Layout Rat) :
    lays orc (ProgM.setUnroundedLayout i l) = [(i, l)] := rfl

/-! ### from the syntactic predicates to runs -/

/-- a postcondition of every run -/
theorem res_post {Q : β → Prop} (orc : Orc) (p : ProgM Rat β) (h : EvalBlock.Post Q p) : Q (res orc p) := by
  induction p with
  | pure b => exact h
  | call i inp k ih => exact ih _ (h _)
  | setLayout i l k ih => exact ih _ h

/-- a measuring program sets no layout -/
theorem lays_meas {Q : β → Prop} (orc : Orc) (p : ProgM Rat β) : ∀ n, EvalFlex.Meas Q n p → lays orc p = [] ∧ Q (res orc p) := by
  induction p with
  | pure b => intro _ h; exact ⟨rfl, h⟩
  | call i inp k ih => intro n h; obtain ⟨m, _, hk⟩ := h; exact ih _ m (hk _)
  | setLayout i l k ih => intro _ h; exact h.elim

/-- a laying-out program sets exactly the children it visits, in order -/
theorem lays_Lays (orc : Orc) : ∀ (J : List Nat) (p : ProgM Rat β), EvalFlex.Lays J p → (lays orc p).map Prod.fst = J
  | [], p, ⟨b, hb⟩ => by subst hb; rfl
  | j :: J, p, ⟨inp, lay, k, hm, hp, hk⟩ => by
    subst hp
    rw [lays_call, lays_set, List.map_cons, lays_Lays orc J _ (hk _)]

theorem mem_lays_Lays (orc : Orc) (J : List Nat) (p : ProgM Rat β) (h : EvalFlex.Lays J p) (x : Nat × Layout Rat)
    (hx : x ∈ lays orc p) : x.1 ∈ J := by
  rw [← lays_Lays orc J p h]
  exact List.mem_map_of_mem hx

/-! ### the `display:none` loop (block.rs, flexbox.rs: the same text) -/

theorem mem_lays_hiddenLoop (orc : Orc) : ∀ (l : List (Style Rat)) (order : Nat) (x : Nat × Layout Rat),
    x ∈ lays orc (BlockModel.hiddenLoop l order) → ∃ s, l[x.1 - order]? = some s ∧ order ≤ x.1 ∧ s.isHidden = true
  | [], _, x, h => by simp [BlockModel.hiddenLoop, lays_pure] at h
  | s :: rest, order, x, h => by
    have step : x ∈ lays orc (BlockModel.hiddenLoop rest (order + 1)) →
        ∃ s', (s :: rest)[x.1 - order]? = some s' ∧ order ≤ x.1 ∧ s'.isHidden = true := by
      intro h'
      obtain ⟨s', h1, h2, h3⟩ := mem_lays_hiddenLoop orc rest (order + 1) x h'
      refine ⟨s', ?_, by omega, h3⟩
      rw [show x.1 - order = (x.1 - (order + 1)) + 1 by omega, List.getElem?_cons_succ]
      exact h1
    by_cases hs : s.isHidden = true
    · rw [EvalBlock.hiddenLoop_cons_hidden s rest order hs] at h
      rw [lays_call, lays_set, List.mem_cons] at h
      rcases h with h | h
      · subst h
        exact ⟨s, by simp, Nat.le_refl _, hs⟩
      · exact step h
    · have hs' : s.isHidden = false := by simpa using hs
      rw [EvalBlock.hiddenLoop_cons_visible s rest order hs'] at h
      exact step h

end Lift
