/-
  C10, tree-level theorem — part 2: the conversion of Lemmas/C10TreeConv.lean at `Rat`:
    * `sbox` / `specOf`: the total form (no `Except`) of `boxOf` / `build` for trees of the family, zipping the style tree
      with the evaluator's state tree `Eval.NS` (every node's stored layout) instead of a preorder list;
    * `inFamily`: the family check of the driver as a decidable predicate on the style tree alone, plus the sign
      conditions CSS imposes on padding / border / height (see the header of Props/C10TreeThm.lean);
    * `styleTree`: the specification tree with all layouts zero — the specification's adjoining-margin functions
      (`collapsesThrough`, `topSet`, `bottomSet`, `leading`, `trailing`) do not look at layouts (`strip`);
    * `build_specOf`: on a tree of the family the driver's `build`, fed with the preorder layouts of a state tree of the
      right shape, succeeds and returns `specOf`.
-/
import TaffyVerif.Lemmas.C10TreeConv
import TaffyVerif.Lemmas.EvalMemo

set_option linter.unusedSectionVars false

namespace C10Thm
open MarginCollapse Eval EvalMemo C10Conv

/-- the decoder at `Rat` -/
def toQ : Rat → Option Rat := some

/-! ## preorder layouts of a state tree -/
section
variable {α C : Type}
mutual
def preorder : NS α C → List (Layout α)
  | .mk _ l kids => l :: preorderList kids
def preorderList : List (NS α C) → List (Layout α)
  | [] => []
  | k :: ks => preorder k ++ preorderList ks
end
end

/-! ## total conversion -/

def pxA : LPA Rat → Rat
  | .length v => v
  | _ => 0
def pxP : LP Rat → Rat
  | .length v => v
  | _ => 0
def dimO : Dimension Rat → Option Rat
  | .length v => some v
  | _ => none
def contentOf : Option (MeasureSpec Rat) → Rat
  | some (.fixed _ h) => h
  | _ => 0

/-- the specification's box of a node with style `s`, content `ctx` and layout `l` -/
def sbox (s : Style Rat) (ctx : Option (MeasureSpec Rat)) (l : Layout Rat) : Box :=
  { kind := if s.display == .flex || s.display == .grid then .other else .block
    hidden := s.display == .none
    absolute := s.position == .absolute
    marginTop := pxA s.margin.top
    marginBottom := pxA s.margin.bottom
    marginLeft := pxA s.margin.left
    marginRight := pxA s.margin.right
    paddingTop := pxP s.padding.top
    paddingBottom := pxP s.padding.bottom
    paddingLeft := pxP s.padding.left
    paddingRight := pxP s.padding.right
    borderTop := pxP s.border.top
    borderBottom := pxP s.border.bottom
    borderLeft := pxP s.border.left
    borderRight := pxP s.border.right
    width := dimO s.size.width
    height := dimO s.size.height
    minHeight := (dimO s.minSize.height).getD 0
    content := contentOf ctx
    x := l.location.x
    y := l.location.y
    w := l.size.width
    h := l.size.height }

def isLen : LPA Rat → Bool
  | .length _ => true
  | _ => false
def isLenP : LP Rat → Bool
  | .length _ => true
  | _ => false
def isDim : Dimension Rat → Bool
  | .percent _ => false
  | _ => true

/-- `boxOf` succeeds (the checks of Drv/C10Tree.lean's `boxOf`, as one Boolean) -/
def styleOk (s : Style Rat) (ctx : Option (MeasureSpec Rat)) (leaf : Bool) : Bool :=
  s.boxSizing == .borderBox && s.overflow.x == .visible && s.overflow.y == .visible && s.aspectRatio.isNone
  && !s.itemIsTable
  && (s.position != .relative ||
      (isAuto s.inset.left && isAuto s.inset.right && isAuto s.inset.top && isAuto s.inset.bottom))
  && (isAuto s.maxSize.width && isAuto s.maxSize.height && isAuto s.minSize.width)
  && isDim s.size.height && isDim s.size.width && isDim s.minSize.height
  && (match ctx with
      | none => true
      | some (.fixed _ _) => leaf
      | some (.wrap _ _) => false)
  && isLen s.margin.top && isLen s.margin.bottom && isLen s.margin.left && isLen s.margin.right
  && isLenP s.padding.top && isLenP s.padding.bottom && isLenP s.padding.left && isLenP s.padding.right
  && isLenP s.border.top && isLenP s.border.bottom && isLenP s.border.left && isLenP s.border.right

/-- CSS: vertical padding, vertical border widths, `height`, `min-height` and the content height are not negative
(not checked by the driver; the generator of harness/src/c10tree.rs never produces negative ones; see
`C10Thm.negative_padding_witness` for what happens otherwise) -/
def nonNegOk (s : Style Rat) (ctx : Option (MeasureSpec Rat)) : Bool :=
  decide (0 ≤ pxP s.padding.top) && decide (0 ≤ pxP s.padding.bottom)
  && decide (0 ≤ pxP s.border.top) && decide (0 ≤ pxP s.border.bottom)
  && decide (0 ≤ (dimO s.size.height).getD 0) && decide (0 ≤ (dimO s.minSize.height).getD 0)
  && decide (0 ≤ contentOf ctx)

mutual
/-- the specification tree of a style tree, all layouts zero -/
def styleTree : STree Rat → Tree
  | .node s ctx kids => .node (sbox s ctx Layout.new) (styleKids kids)
def styleKids : List (STree Rat) → List Tree
  | [] => []
  | t :: ts => styleTree t :: styleKids ts
end

section
variable {C : Type}
mutual
/-- the specification tree of a style tree whose nodes carry the layouts stored in the state tree; the node's own layout
is `l` (a node's layout is stored in its parent's child list) -/
def specOf : STree Rat → Layout Rat → NS Rat C → Tree
  | .node s ctx kids, l, ns => .node (sbox s ctx l) (specKids kids ns.kids)
def specKids : List (STree Rat) → List (NS Rat C) → List Tree
  | [], _ => []
  | t :: ts, ks =>
    match ks with
    | [] => []
    | k :: ks => specOf t k.layout k :: specKids ts ks
end
end

mutual
/-- **the family** (header of Spec/MarginCollapse.lean, `build` of Drv/C10Tree.lean): every node passes `boxOf`, is
`display: block` or `display: none`, has no negative padding / border / height / min-height / content height, and the two
exclusions (A), (B) hold -/
def inFamily : STree Rat → Bool
  | .node s ctx kids =>
    styleOk s ctx kids.isEmpty && nonNegOk s ctx && (s.display == .block || s.display == .none)
    && inFamilyKids kids
    && !(!(sbox s ctx Layout.new).hidden && (sbox s ctx Layout.new).minHeight != 0 && hasInFlow (styleKids kids))
    && !(!(sbox s ctx Layout.new).hidden && (sbox s ctx Layout.new).height == some 0 && hasInFlow (styleKids kids)
          && collapsesThrough (.node (sbox s ctx Layout.new) (styleKids kids)))
def inFamilyKids : List (STree Rat) → Bool
  | [] => true
  | t :: ts => inFamily t && inFamilyKids ts
end

/-- the family as a proposition -/
def InFamily (t : STree Rat) : Prop := inFamily t = true

instance (t : STree Rat) : Decidable (InFamily t) := inferInstanceAs (Decidable (_ = _))

/-- the part of the family the proofs use (no exclusion (A), (B): the model agrees with the specification there too) -/
def nodeOk (s : Style Rat) (ctx : Option (MeasureSpec Rat)) (leaf : Bool) : Bool :=
  styleOk s ctx leaf && nonNegOk s ctx && (s.display == .block || s.display == .none)

mutual
def inFamilyCore : STree Rat → Bool
  | .node s ctx kids => nodeOk s ctx kids.isEmpty && inFamilyCoreKids kids
def inFamilyCoreKids : List (STree Rat) → Bool
  | [] => true
  | t :: ts => inFamilyCore t && inFamilyCoreKids ts
end

mutual
theorem inFamily_core : ∀ t : STree Rat, inFamily t = true → inFamilyCore t = true
  | .node s ctx kids, h => by
    simp only [inFamily, Bool.and_eq_true] at h
    simp only [inFamilyCore, nodeOk, Bool.and_eq_true]
    exact ⟨⟨⟨h.1.1.1.1.1, h.1.1.1.1.2⟩, h.1.1.1.2⟩, inFamilyKids_core kids h.1.1.2⟩
theorem inFamilyKids_core : ∀ ts : List (STree Rat), inFamilyKids ts = true → inFamilyCoreKids ts = true
  | [], _ => rfl
  | t :: ts, h => by
    simp only [inFamilyKids, Bool.and_eq_true] at h
    simp only [inFamilyCoreKids, Bool.and_eq_true]
    exact ⟨inFamily_core t h.1, inFamilyKids_core ts h.2⟩
end

theorem inFamilyCoreKids_get : ∀ (kids : List (STree Rat)) (i : Nat) (t : STree Rat),
    inFamilyCoreKids kids = true → kids[i]? = some t → inFamilyCore t = true
  | [], _, _, _, h => by simp at h
  | a :: as, 0, t, hn, h => by
    simp only [List.getElem?_cons_zero, Option.some.injEq] at h
    subst h
    simp only [inFamilyCoreKids, Bool.and_eq_true] at hn
    exact hn.1
  | a :: as, i + 1, t, hn, h => by
    simp only [List.getElem?_cons_succ] at h
    simp only [inFamilyCoreKids, Bool.and_eq_true] at hn
    exact inFamilyCoreKids_get as i t hn.2 h

/-! ## the adjoining-margin functions of the specification do not look at layouts -/

def stripBox (b : Box) : Box := { b with x := 0, y := 0, w := 0, h := 0 }

mutual
def strip : Tree → Tree
  | .node b kids => .node (stripBox b) (stripKids kids)
def stripKids : List Tree → List Tree
  | [] => []
  | c :: rest => strip c :: stripKids rest
end

theorem strip_box (T : Tree) : (strip T).box = stripBox T.box := by
  cases T; simp only [strip, Tree.box]

theorem stripBox_inFlow (b : Box) : (stripBox b).inFlow = b.inFlow := rfl
theorem stripBox_topOpen (b : Box) : (stripBox b).topOpen = b.topOpen := rfl
theorem stripBox_bottomOpen (b : Box) : (stripBox b).bottomOpen = b.bottomOpen := rfl
theorem stripBox_own (b : Box) : (stripBox b).ownMarginsMayMeet = b.ownMarginsMayMeet := rfl

mutual
theorem collapsesThrough_strip : ∀ T : Tree, collapsesThrough (strip T) = collapsesThrough T
  | .node b kids => by
    simp only [strip, collapsesThrough, stripBox_own]
    rw [allThrough_strip kids]
theorem allThrough_strip : ∀ Ts : List Tree, allThrough (stripKids Ts) = allThrough Ts
  | [] => rfl
  | c :: rest => by
    simp only [stripKids, allThrough, strip_box, stripBox_inFlow]
    rw [collapsesThrough_strip c, allThrough_strip rest]
end

mutual
theorem topSet_strip : ∀ T : Tree, topSet (strip T) = topSet T
  | .node b kids => by
    simp only [strip, topSet, stripBox_topOpen]
    rw [leading_strip kids]
    rfl
theorem bottomSet_strip : ∀ T : Tree, bottomSet (strip T) = bottomSet T
  | .node b kids => by
    simp only [strip, bottomSet, stripBox_bottomOpen]
    rw [trailing_strip kids]
    rfl
theorem leading_strip : ∀ Ts : List Tree, leading (stripKids Ts) = leading Ts
  | [] => rfl
  | c :: rest => by
    simp only [stripKids, leading, strip_box, stripBox_inFlow, collapsesThrough_strip]
    rw [topSet_strip c, bottomSet_strip c, leading_strip rest]
theorem trailing_strip : ∀ Ts : List Tree, trailing (stripKids Ts) = trailing Ts
  | [] => rfl
  | c :: rest => by
    simp only [stripKids, trailing, strip_box, stripBox_inFlow, collapsesThrough_strip, allThrough_strip]
    rw [topSet_strip c, bottomSet_strip c, trailing_strip rest]
end

theorem hasInFlow_strip : ∀ Ts : List Tree, hasInFlow (stripKids Ts) = hasInFlow Ts
  | [] => rfl
  | c :: rest => by
    have ih := hasInFlow_strip rest
    simp only [hasInFlow] at ih ⊢
    simp only [stripKids, List.any_cons, strip_box, stripBox_inFlow, ih]

mutual
theorem size_strip : ∀ T : Tree, size (strip T) = size T
  | .node b kids => by
    simp only [strip, size]
    rw [sizes_strip kids]
theorem sizes_strip : ∀ Ts : List Tree, size.sizes (stripKids Ts) = size.sizes Ts
  | [] => rfl
  | c :: rest => by
    simp only [stripKids, size.sizes]
    rw [size_strip c, sizes_strip rest]
end

theorem stripBox_sbox (s : Style Rat) (ctx : Option (MeasureSpec Rat)) (l : Layout Rat) :
    stripBox (sbox s ctx l) = sbox s ctx Layout.new := rfl

section
variable {C : Type}

mutual
theorem strip_specOf : ∀ (t : STree Rat) (l : Layout Rat) (ns : NS Rat C), Shape t ns →
    strip (specOf t l ns) = styleTree t
  | .node s ctx kids, l, .mk c l0 nk, h => by
    simp only [Shape] at h
    simp only [specOf, strip, styleTree, stripBox_sbox, NS.kids]
    rw [stripKids_specKids kids nk h]
theorem stripKids_specKids : ∀ (ts : List (STree Rat)) (ks : List (NS Rat C)), ShapeList ts ks →
    stripKids (specKids ts ks) = styleKids ts
  | [], _, _ => by simp only [specKids, stripKids, styleKids]
  | t :: ts, [], h => by simp [ShapeList] at h
  | t :: ts, k :: ks, h => by
    simp only [ShapeList] at h
    simp only [specKids, stripKids, styleKids]
    rw [strip_specOf t k.layout k h.1, stripKids_specKids ts ks h.2]
end

theorem collapsesThrough_specOf (t : STree Rat) (l : Layout Rat) (ns : NS Rat C) (h : Shape t ns) :
    collapsesThrough (specOf t l ns) = collapsesThrough (styleTree t) := by
  rw [← collapsesThrough_strip, strip_specOf t l ns h]
theorem topSet_specOf (t : STree Rat) (l : Layout Rat) (ns : NS Rat C) (h : Shape t ns) :
    topSet (specOf t l ns) = topSet (styleTree t) := by
  rw [← topSet_strip, strip_specOf t l ns h]
theorem bottomSet_specOf (t : STree Rat) (l : Layout Rat) (ns : NS Rat C) (h : Shape t ns) :
    bottomSet (specOf t l ns) = bottomSet (styleTree t) := by
  rw [← bottomSet_strip, strip_specOf t l ns h]
theorem size_specOf (t : STree Rat) (l : Layout Rat) (ns : NS Rat C) (h : Shape t ns) :
    size (specOf t l ns) = size (styleTree t) := by
  rw [← size_strip, strip_specOf t l ns h]
theorem hasInFlow_specKids (ts : List (STree Rat)) (ks : List (NS Rat C)) (h : ShapeList ts ks) :
    hasInFlow (specKids ts ks) = hasInFlow (styleKids ts) := by
  rw [← hasInFlow_strip, stripKids_specKids ts ks h]
theorem allThrough_specKids (ts : List (STree Rat)) (ks : List (NS Rat C)) (h : ShapeList ts ks) :
    allThrough (specKids ts ks) = allThrough (styleKids ts) := by
  rw [← allThrough_strip, stripKids_specKids ts ks h]

end

/-! ## `boxOf` / `build` succeed on the family and return `sbox` / `specOf` -/

theorem isLen_elim (x : LPA Rat) (h : isLen x = true) : x = .length (pxA x) := by
  cases x <;> simp_all [isLen, pxA]
theorem isLenP_elim (x : LP Rat) (h : isLenP x = true) : x = .length (pxP x) := by
  cases x <;> simp_all [isLenP, pxP]
theorem isDim_elim (x : Dimension Rat) (h : isDim x = true) : dimPx toQ x = some (dimO x) := by
  cases x <;> simp_all [isDim, dimPx, dimO, toQ]
theorem isAuto_elim (x : LPA Rat) (h : isAuto x = true) : x = .auto := by
  cases x <;> simp_all [isAuto]

theorem lenPx_len (v : Rat) : lenPx toQ (LPA.length v) = some v := rfl
theorem lpPx_len (v : Rat) : lpPx toQ (LP.length v) = some v := rfl

theorem boxOf_ok (s : Style Rat) (ctx : Option (MeasureSpec Rat)) (leaf : Bool) (l : Layout Rat)
    (h : styleOk s ctx leaf = true) : boxOf toQ s ctx leaf l = .ok (sbox s ctx l) := by
  simp only [styleOk, Bool.and_eq_true] at h
  obtain ⟨⟨⟨⟨⟨⟨⟨⟨⟨⟨⟨⟨⟨⟨⟨⟨⟨⟨⟨⟨⟨⟨h1, h2⟩, h3⟩, h4⟩, h5⟩, h6⟩, h7⟩, h8⟩, h9⟩, h10⟩, h11⟩, m1⟩, m2⟩, m3⟩, m4⟩, p1⟩, p2⟩, p3⟩, p4⟩, b1⟩, b2⟩, b3⟩, b4⟩ := h
  have q1 : (s.boxSizing != BoxSizing.borderBox) = false := by simp only [bne, h1, Bool.not_true]
  have q2 : (s.overflow.x != Overflow.visible || s.overflow.y != Overflow.visible) = false := by
    simp only [bne, h2, h3, Bool.not_true, Bool.or_self]
  have q3 : s.aspectRatio.isSome = false := by
    cases hh : s.aspectRatio with
    | none => rfl
    | some v => rw [hh] at h4; cases h4
  have q4 : s.itemIsTable = false := by simpa using h5
  have q5 : (s.position == Position.relative && !(isAuto s.inset.left && isAuto s.inset.right && isAuto s.inset.top && isAuto s.inset.bottom)) = false := by
    cases hp : s.position with
    | absolute => rfl
    | relative =>
      rw [hp] at h6
      have hne : (Position.relative != Position.relative) = false := rfl
      rw [hne, Bool.false_or] at h6
      rw [h6]; rfl
  have q6 : (!(isAuto s.maxSize.width && isAuto s.maxSize.height && isAuto s.minSize.width)) = false := by
    simp only [h7.1.1, h7.1.2, h7.2, Bool.and_self, Bool.not_true]
  have e1 := isLen_elim _ m1
  have e2 := isLen_elim _ m2
  have e3 := isLen_elim _ m3
  have e4 := isLen_elim _ m4
  have f1 := isLenP_elim _ p1
  have f2 := isLenP_elim _ p2
  have f3 := isLenP_elim _ p3
  have f4 := isLenP_elim _ p4
  have g1 := isLenP_elim _ b1
  have g2 := isLenP_elim _ b2
  have g3 := isLenP_elim _ b3
  have g4 := isLenP_elim _ b4
  have d1 := isDim_elim _ h8
  have d2 := isDim_elim _ h9
  have d3 := isDim_elim _ h10
  have E1 : lenPx toQ s.margin.top = some (pxA s.margin.top) := by rw [e1]; rfl
  have E2 : lenPx toQ s.margin.bottom = some (pxA s.margin.bottom) := by rw [e2]; rfl
  have E3 : lenPx toQ s.margin.left = some (pxA s.margin.left) := by rw [e3]; rfl
  have E4 : lenPx toQ s.margin.right = some (pxA s.margin.right) := by rw [e4]; rfl
  have F1 : lpPx toQ s.padding.top = some (pxP s.padding.top) := by rw [f1]; rfl
  have F2 : lpPx toQ s.padding.bottom = some (pxP s.padding.bottom) := by rw [f2]; rfl
  have F3 : lpPx toQ s.padding.left = some (pxP s.padding.left) := by rw [f3]; rfl
  have F4 : lpPx toQ s.padding.right = some (pxP s.padding.right) := by rw [f4]; rfl
  have G1 : lpPx toQ s.border.top = some (pxP s.border.top) := by rw [g1]; rfl
  have G2 : lpPx toQ s.border.bottom = some (pxP s.border.bottom) := by rw [g2]; rfl
  have G3 : lpPx toQ s.border.left = some (pxP s.border.left) := by rw [g3]; rfl
  have G4 : lpPx toQ s.border.right = some (pxP s.border.right) := by rw [g4]; rfl
  clear e1 e2 e3 e4 f1 f2 f3 f4 g1 g2 g3 g4
  unfold boxOf
  simp only [q1, q2, q3, q4, q5, q6, d1, d2, d3, E1, E2, E3, E4, F1, F2, F3, F4, G1, G2, G3, G4, Bool.false_eq_true,
    if_false]
  simp only [need, toQ]
  cases ctx with
  | none => rfl
  | some m =>
    cases m with
    | fixed w hh =>
      simp only at h11
      simp only [h11, if_true]
      rfl
    | wrap w hh => simp at h11

theorem sbox_kind (s : Style Rat) (ctx : Option (MeasureSpec Rat)) (l : Layout Rat)
    (h : (s.display == .block || s.display == .none) = true) : (sbox s ctx l).kind = .block := by
  cases hd : s.display
  · simp only [sbox, hd]; rfl
  · rw [hd] at h; exact absurd h (by decide)
  · rw [hd] at h; exact absurd h (by decide)
  · simp only [sbox, hd]; rfl

theorem ok_bind {ε α β : Type} (a : α) (f : α → Except ε β) : (Except.ok a >>= f) = f a := rfl
theorem pure_ok {ε α : Type} (a : α) : (pure a : Except ε α) = .ok a := rfl

theorem preorder_eq {α C : Type} (k : NS α C) : preorder k = k.layout :: preorderList k.kids := by
  cases k; simp only [preorder, NS.layout, NS.kids]

section
variable {C : Type}
mutual
theorem build_specOf : ∀ (root : Bool) (t : STree Rat) (l : Layout Rat) (ns : NS Rat C) (rest : List (Layout Rat)),
    inFamily t = true → Shape t ns →
    build toQ root t (l :: (preorderList ns.kids ++ rest)) = .ok (specOf t l ns, rest)
  | root, .node s ctx kids, l, .mk c l0 nk, rest, hf, hs => by
    simp only [inFamily, Bool.and_eq_true] at hf
    obtain ⟨⟨⟨⟨⟨h1, h2⟩, h3⟩, h4⟩, h5⟩, h6⟩ := hf
    simp only [Shape] at hs
    have hk := sbox_kind s ctx l h3
    have ih := buildKids_specKids kids nk rest h4 hs
    simp only [NS.kids] at ih ⊢
    have hko : (Kind.block == Kind.other && !root) = false := by cases root <;> rfl
    have hA : (!(sbox s ctx l).hidden && (sbox s ctx l).minHeight != 0 && hasInFlow (specKids kids nk)) = false := by
      rw [hasInFlow_specKids kids nk hs]
      rw [Bool.not_eq_true'] at h5
      exact h5
    have hB : (!(sbox s ctx l).hidden && (sbox s ctx l).height == some 0 && hasInFlow (specKids kids nk) &&
        collapsesThrough (Tree.node (sbox s ctx l) (specKids kids nk))) = false := by
      have e : Tree.node (sbox s ctx l) (specKids kids nk) = specOf (STree.node s ctx kids) l (NS.mk c l0 nk) := by
        simp only [specOf, NS.kids]
      rw [hasInFlow_specKids kids nk hs, e, collapsesThrough_specOf _ _ _ (by simpa only [Shape] using hs)]
      simp only [styleTree]
      rw [Bool.not_eq_true'] at h6
      exact h6
    simp only [build, boxOf_ok s ctx kids.isEmpty l h1, ok_bind, hk, hko, ih, hA, hB, Bool.false_eq_true, if_false,
      pure_ok, specOf, NS.kids]
theorem buildKids_specKids : ∀ (ts : List (STree Rat)) (ks : List (NS Rat C)) (rest : List (Layout Rat)),
    inFamilyKids ts = true → ShapeList ts ks →
    buildKids toQ ts (preorderList ks ++ rest) = .ok (specKids ts ks, rest)
  | [], [], rest, _, _ => by simp only [preorderList, List.nil_append, buildKids, specKids]; rfl
  | [], _ :: _, _, _, h => by simp [ShapeList] at h
  | _ :: _, [], _, _, h => by simp [ShapeList] at h
  | t :: ts, k :: ks, rest, hf, hs => by
    simp only [inFamilyKids, Bool.and_eq_true] at hf
    simp only [ShapeList] at hs
    have e : preorderList (k :: ks) ++ rest = k.layout :: (preorderList k.kids ++ (preorderList ks ++ rest)) := by
      simp only [preorderList, preorder_eq, List.cons_append, List.append_assoc]
    rw [e]
    simp only [buildKids, build_specOf false t k.layout k _ hf.1 hs.1, ok_bind,
      buildKids_specKids ts ks rest hf.2 hs.2, specKids, pure_ok]
end
end
end C10Thm
