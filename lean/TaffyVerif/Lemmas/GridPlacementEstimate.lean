/-
  Helper lemmas about Model/GridPlacement.lean, part 5: what `compute_grid_size_estimate` guarantees —
  every definite placement lies inside the estimated tracks (the estimate of the negative implicit tracks is exact),
  and with at least one child both axes have at least one track.
-/
import TaffyVerif.Lemmas.GridPlacementCells

set_option linter.unusedSimpArgs false
set_option linter.unusedVariables false

namespace GridPlacement
open Outcome

theorem childMinMax_spec {l : Line Placement} {e mn mx sp : Int}
    (h : childMinLineMaxLineSpan l e = .ok (mn, mx, sp)) :
    1 ≤ sp ∧ ∃ oz, intoOriginZero l e = .ok oz ∧
      ∀ a, resolveDefiniteGridLines oz = .ok a → mn = a.start ∧ mx = a.«end» := by
  simp only [childMinLineMaxLineSpan, bind_eq, bind_eq_ok, pure_eq, Outcome.ok.injEq, Prod.mk.injEq] at h
  obtain ⟨oz, hoz, mn', hmn, mx', hmx, sp', hsp, rfl, rfl, rfl⟩ := h
  have wf := (intoOriginZero_spec hoz).1
  refine ⟨?_, oz, hoz, ?_⟩
  · split at hsp
    · simp only [pure_eq, Outcome.ok.injEq] at hsp; omega
    · exact indefiniteSpan_pos wf hsp
  · intro a ha
    obtain ⟨st, en⟩ := oz
    cases st <;> cases en <;>
      simp only [resolveDefiniteGridLines, bind_eq, bind_eq_ok, pure_eq, Outcome.ok.injEq, ozAdd_eq_ok,
        ozSub_eq_ok] at ha hmn hmx
    all_goals first
      | (obtain ⟨_, ⟨rfl, _⟩, rfl⟩ := ha
         first
          | (obtain ⟨rfl, _⟩ := hmn; subst hmx; exact ⟨rfl, rfl⟩)
          | (obtain ⟨rfl, _⟩ := hmx; subst hmn; exact ⟨rfl, rfl⟩))
      | (split at ha
         · rename_i heq
           simp only [bind_eq, bind_eq_ok, pure_eq, Outcome.ok.injEq, ozAdd_eq_ok] at ha
           obtain ⟨_, ⟨rfl, _⟩, rfl⟩ := ha
           simp only [heq, ↓reduceIte, ozAdd_eq_ok] at hmx hmn
           obtain ⟨rfl, _⟩ := hmx
           subst hmn
           exact ⟨heq ▸ rfl, by rw [heq]⟩
         · rename_i hne
           simp only [pure_eq, Outcome.ok.injEq] at ha
           subst ha
           simp only [hne, ↓reduceIte, pure_eq, Outcome.ok.injEq] at hmx hmn
           subst hmn hmx
           exact ⟨rfl, rfl⟩)
      | (cases ha; done)

/-- a child's contribution is inside the accumulated minimum / maximum / maximal span -/
def Covers (ec er : Int) (k : KnownPositions) (c : Child) : Prop :=
  ∃ cmn cmx csp rmn rmx rsp, childMinLineMaxLineSpan c.column ec = .ok (cmn, cmx, csp) ∧
    childMinLineMaxLineSpan c.row er = .ok (rmn, rmx, rsp) ∧
    k.colMin ≤ cmn ∧ cmx ≤ k.colMax ∧ csp ≤ k.colMaxSpan ∧ k.rowMin ≤ rmn ∧ rmx ≤ k.rowMax ∧ rsp ≤ k.rowMaxSpan

structure KLe (a k : KnownPositions) : Prop where
  c1 : k.colMin ≤ a.colMin
  c2 : a.colMax ≤ k.colMax
  c3 : a.colMaxSpan ≤ k.colMaxSpan
  r1 : k.rowMin ≤ a.rowMin
  r2 : a.rowMax ≤ k.rowMax
  r3 : a.rowMaxSpan ≤ k.rowMaxSpan

theorem knownFold_spec {ec er : Int} : ∀ {cs : List Child} {acc k : KnownPositions},
    knownFold ec er acc cs = .ok k → KLe acc k ∧ ∀ c ∈ cs, Covers ec er k c := by
  intro cs
  induction cs with
  | nil =>
    intro acc k h
    simp only [knownFold, pure_eq, Outcome.ok.injEq] at h
    subst h
    exact ⟨⟨Int.le_refl _, Int.le_refl _, Int.le_refl _, Int.le_refl _, Int.le_refl _, Int.le_refl _⟩,
      fun _ h => nomatch h⟩
  | cons c cs ih =>
    intro acc k h
    simp only [knownFold, bind_eq, bind_eq_ok] at h
    obtain ⟨acc', hstep, hfold⟩ := h
    obtain ⟨hle, hcov⟩ := ih hfold
    simp only [knownStep, bind_eq, bind_eq_ok, pure_eq, Outcome.ok.injEq] at hstep
    obtain ⟨⟨cmn, cmx, csp⟩, hc, ⟨rmn, rmx, rsp⟩, hr, hacc⟩ := hstep
    subst hacc
    obtain ⟨c1, c2, c3, r1, r2, r3⟩ := hle
    dsimp only at c1 c2 c3 r1 r2 r3
    refine ⟨⟨by omega, by omega, by omega, by omega, by omega, by omega⟩, ?_⟩
    intro c' hc'
    rcases List.mem_cons.1 hc' with rfl | hc'
    · exact ⟨cmn, cmx, csp, rmn, rmx, rsp, hc, hr, by omega, by omega, by omega, by omega, by omega, by omega⟩
    · exact hcov c' hc'

theorem estimateAxis_spec {mn mx sp e : Int} {t : TrackCounts} (he : 0 ≤ e) (h : estimateAxis mn mx sp e = .ok t) :
    t.explicit = e ∧ -t.negativeImplicit ≤ mn ∧ mx ≤ t.explicit + t.positiveImplicit ∧ sp ≤ t.total ∧
      0 ≤ t.negativeImplicit ∧ 0 ≤ t.positiveImplicit := by
  simp only [estimateAxis, impliedNegativeImplicitTracks, impliedPositiveImplicitTracks, bind_eq, bind_eq_ok,
    pure_eq, Outcome.ok.injEq, i16_eq_ok, u16_eq_ok] at h
  obtain ⟨pos, ⟨e16, ⟨q0, _, _⟩, hpos⟩, t0, ⟨q1, _, _⟩, tot, ⟨q2, _, _⟩, pos', hpos', rfl⟩ := h
  unfold TrackCounts.total
  dsimp only
  have hp : 0 ≤ pos ∧ mx ≤ e + pos := by
    split at hpos
    · simp only [bind_eq, bind_eq_ok, u16_eq_ok] at hpos
      obtain ⟨lu, ⟨rfl, _, _⟩, rfl, _, _⟩ := hpos
      omega
    · simp only [pure_eq, Outcome.ok.injEq] at hpos
      omega
  split at hpos'
  · simp only [bind_eq, bind_eq_ok, u16_eq_ok] at hpos'
    obtain ⟨a, ⟨rfl, _, _⟩, rfl, _, _⟩ := hpos'
    refine ⟨rfl, ?_, ?_, ?_, ?_, ?_⟩ <;> (try split) <;> omega
  · simp only [pure_eq, Outcome.ok.injEq] at hpos'
    subst hpos'
    refine ⟨rfl, ?_, ?_, ?_, ?_, ?_⟩ <;> (try split) <;> omega

/-- **the estimate covers every definite placement** and is non-degenerate when there is a child -/
theorem estimate_spec {ec er : Int} {children : List Child} {cols rows : TrackCounts} (hec : 0 ≤ ec) (her : 0 ≤ er)
    (h : computeGridSizeEstimate ec er children = .ok (cols, rows)) :
    cols.explicit = ec ∧ rows.explicit = er ∧ 0 ≤ cols.negativeImplicit ∧ 0 ≤ rows.negativeImplicit ∧
    0 ≤ cols.positiveImplicit ∧ 0 ≤ rows.positiveImplicit ∧
    (children ≠ [] → 1 ≤ cols.total ∧ 1 ≤ rows.total) ∧
    ∀ c ∈ children,
      (∀ oz a, intoOriginZero c.column ec = .ok oz → resolveDefiniteGridLines oz = .ok a → InRangeAx cols a) ∧
      (∀ oz a, intoOriginZero c.row er = .ok oz → resolveDefiniteGridLines oz = .ok a → InRangeAx rows a) := by
  simp only [computeGridSizeEstimate, getKnownChildPositions, bind_eq, bind_eq_ok, pure_eq, Outcome.ok.injEq,
    Prod.mk.injEq] at h
  obtain ⟨k, hk, cols', hc, rows', hr, rfl, rfl⟩ := h
  obtain ⟨_, hcov⟩ := knownFold_spec hk
  obtain ⟨c1, c2, c3, c4, c5, c6⟩ := estimateAxis_spec hec hc
  obtain ⟨r1, r2, r3, r4, r5, r6⟩ := estimateAxis_spec her hr
  refine ⟨c1, r1, c5, r5, c6, r6, ?_, ?_⟩
  · intro hne
    obtain ⟨c, cs, rfl⟩ := List.exists_cons_of_ne_nil hne
    obtain ⟨cmn, cmx, csp, rmn, rmx, rsp, h1, h2, _, _, q3, _, _, q6⟩ := hcov c List.mem_cons_self
    have := (childMinMax_spec h1).1
    have := (childMinMax_spec h2).1
    omega
  · intro c hc'
    obtain ⟨cmn, cmx, csp, rmn, rmx, rsp, h1, h2, q1, q2, _, q4, q5, _⟩ := hcov c hc'
    constructor
    · intro oz a hoz ha
      obtain ⟨_, oz', hoz', hres⟩ := childMinMax_spec h1
      rw [hoz] at hoz'; simp only [Outcome.ok.injEq] at hoz'; subst hoz'
      obtain ⟨rfl, rfl⟩ := hres a ha
      exact ⟨by omega, by omega⟩
    · intro oz a hoz ha
      obtain ⟨_, oz', hoz', hres⟩ := childMinMax_spec h2
      rw [hoz] at hoz'; simp only [Outcome.ok.injEq] at hoz'; subst hoz'
      obtain ⟨rfl, rfl⟩ := hres a ha
      exact ⟨by omega, by omega⟩

end GridPlacement
