/-
  C04 for grid, part 16: the contribution queries of the track sizing algorithm (`IntrisicSizeMeasurer`,
  `minimum_contribution` with its cache) commute with scaling.
-/
import TaffyVerif.Lemmas.GridScaleFr3
import TaffyVerif.Lemmas.GridScaleProg3

set_option linter.unusedSectionVars false
set_option linter.unusedVariables false
set_option linter.unusedSimpArgs false

namespace C04
open Scalable GridModel GridTracks GridStages GridTheta GridRel

variable {k : Rat}

theorem mcAdj_scale (k : Rat) (it : GItem Rat) (ins : Size (Option Rat)) :
    mcAdj (scale k it) (scale k ins) = scale k (mcAdj it ins) := by
  unfold mcAdj
  simp only [gi_padding, gi_border, gi_boxSizing, Resolve.rectLPOrZeroSize_scale, Rect.add_scale, Rect.sumAxes_scale,
    ite_scale_sizeZero]

theorem mcFromStyle_scale (hk : 0 < k) (it : GItem Rat) (ax : Ax) (ins : Size (Option Rat)) :
    mcFromStyle (scale k it) ax (scale k ins) = scale k (mcFromStyle it ax ins) := by
  unfold mcFromStyle
  rw [mcAdj_scale, gi_size, gi_minSize, gi_aspectRatio, gi_overflow, gridResolveSize_scale hk, gridResolveSize_scale hk,
    sget_scale, sget_scale]
  conv => lhs; rw [maybeIntoAutomaticMinSize_scale k (pget it.overflow ax)]
  rw [or_scale, or_scale]

theorem dim_resolve_zero (k : Rat) (d : Dimension Rat) :
    LPA.maybeResolve (scale k d) (some 0) = scale k (LPA.maybeResolve d (some 0)) := by
  have := LPA.maybeResolve_scale_some k d 0
  rw [scale_zero] at this
  exact this

theorem mcCap_scale (hk : 0 < k) (size maxSize : Size (Dimension Rat)) (adj : Size Rat) (ax : Ax) (mc : Rat) :
    mcCap (scale k size) (scale k maxSize) (scale k adj) ax (scale k mc) = scale k (mcCap size maxSize adj ax mc) := by
  unfold mcCap
  simp only [sget_scale, dim_resolve_zero, of_add_scale hk, fo_min_scale hk]

/-! ### cached queries -/

def updMinC (it : GItem Rat) (ax : Ax) (v : Rat) : GItem Rat :=
  { it with minContentContributionCache := sset it.minContentContributionCache ax (some v) }
def updMaxC (it : GItem Rat) (ax : Ax) (v : Rat) : GItem Rat :=
  { it with maxContentContributionCache := sset it.maxContentContributionCache ax (some v) }
def updMinimumC (it : GItem Rat) (ax : Ax) (v : Rat) : GItem Rat :=
  { it with minimumContributionCache := sset it.minimumContributionCache ax (some v) }

theorem updMinC_scale (k : Rat) (it : GItem Rat) (ax : Ax) (v : Rat) :
    updMinC (scale k it) ax (scale k v) = scale k (updMinC it ax v) := by
  cases it; cases ax <;> rfl
theorem updMaxC_scale (k : Rat) (it : GItem Rat) (ax : Ax) (v : Rat) :
    updMaxC (scale k it) ax (scale k v) = scale k (updMaxC it ax v) := by
  cases it; cases ax <;> rfl
theorem updMinimumC_scale (k : Rat) (it : GItem Rat) (ax : Ax) (v : Rat) :
    updMinimumC (scale k it) ax (scale k v) = scale k (updMinimumC it ax v) := by
  cases it; cases ax <;> rfl

theorem minContentContributionCached_sim (hk : 0 < k) (it : GItem Rat) (ax : Ax) (av ins : Size (Option Rat)) :
    GSim k (Sc k) ((scale k it).minContentContributionCached ax (scale k av) (scale k ins))
      (it.minContentContributionCached ax av ins) := by
  unfold GItem.minContentContributionCached
  rw [gi_minContentContributionCache, sget_scale]
  cases h : sget it.minContentContributionCache ax with
  | some v => exact GSim.pure rfl
  | none =>
    refine GSim.bind (minContentContribution_sim hk it ax av ins) fun v' v hv => ?_
    rw [show v' = scale k v from hv]
    refine GSim.pure ?_
    show (scale k v, updMinC (scale k it) ax (scale k v)) = (scale k v, scale k (updMinC it ax v))
    rw [updMinC_scale]

theorem maxContentContributionCached_sim (hk : 0 < k) (it : GItem Rat) (ax : Ax) (av ins : Size (Option Rat)) :
    GSim k (Sc k) ((scale k it).maxContentContributionCached ax (scale k av) (scale k ins))
      (it.maxContentContributionCached ax av ins) := by
  unfold GItem.maxContentContributionCached
  rw [gi_maxContentContributionCache, sget_scale]
  cases h : sget it.maxContentContributionCache ax with
  | some v => exact GSim.pure rfl
  | none =>
    refine GSim.bind (maxContentContribution_sim hk it ax av ins) fun v' v hv => ?_
    rw [show v' = scale k v from hv]
    refine GSim.pure ?_
    show (scale k v, updMaxC (scale k it) ax (scale k v)) = (scale k v, scale k (updMaxC it ax v))
    rw [updMaxC_scale]

theorem mcAutomatic_sim (hk : 0 < k) (it : GItem Rat) (ax : Ax) (ts : List (GridTrack Rat))
    (kd ins : Size (Option Rat)) :
    GSim k (Sc k) (mcAutomatic (scale k it) ax (scale k ts) (scale k kd) (scale k ins)) (mcAutomatic it ax ts kd ins) := by
  unfold mcAutomatic
  dsimp only
  rw [gi_spannedTracks, length_scale_list,
    any_scale_list k ts (fun t : GridTrack Rat => t.minFn.isAuto) (fun t : GridTrack Rat => t.minFn.isAuto)
      (fun t => by rw [gt_minFn, mint_isAuto]),
    any_scale_list k ts (fun t : GridTrack Rat => t.maxFn.isFr) (fun t : GridTrack Rat => t.maxFn.isFr)
      (fun t => by rw [gt_maxFn, maxt_isFr])]
  refine GSim.ite ?_ ?_
  · refine GSim.bind (minContentContributionCached_sim hk it ax kd ins) fun r' r hr => ?_
    rw [show r' = scale k r from hr]
    simp only [scale_fst, scale_snd, gi_isCompressibleReplaced, gi_size, gi_maxSize, mcAdj_scale]
    refine GSim.ite ?_ ?_
    · exact GSim.pure (by simp only [Sc, scale_pair, mcCap_scale hk])
    · exact GSim.pure rfl
  · exact GSim.pure (by simp only [Sc, scale_pair, scale_zero])

theorem mcSize_sim (hk : 0 < k) (it : GItem Rat) (ax : Ax) (ts : List (GridTrack Rat)) (kd ins : Size (Option Rat)) :
    GSim k (Sc k) (mcSize (scale k it) ax (scale k ts) (scale k kd) (scale k ins)) (mcSize it ax ts kd ins) := by
  unfold mcSize
  rw [mcFromStyle_scale hk]
  cases mcFromStyle it ax ins with
  | some v => exact GSim.pure rfl
  | none => exact mcAutomatic_sim hk it ax ts kd ins

theorem minimumContribution_sim (hk : 0 < k) (it : GItem Rat) (ax : Ax) (ts : List (GridTrack Rat))
    (kd ins : Size (Option Rat)) :
    GSim k (Sc k) ((scale k it).minimumContribution ax (scale k ts) (scale k kd) (scale k ins))
      (it.minimumContribution ax ts kd ins) := by
  rw [minimumContribution_eq, minimumContribution_eq]
  refine GSim.bind (mcSize_sim hk it ax ts kd ins) fun r' r hr => ?_
  rw [show r' = scale k r from hr]
  refine GSim.pure ?_
  simp only [Sc, scale_pair, scale_fst, scale_snd, sget_scale, gi_spannedFixedTrackLimit, fo_min_scale hk]

theorem minimumContributionCached_sim (hk : 0 < k) (it : GItem Rat) (ax : Ax) (ts : List (GridTrack Rat))
    (kd ins : Size (Option Rat)) :
    GSim k (Sc k) ((scale k it).minimumContributionCached ax (scale k ts) (scale k kd) (scale k ins))
      (it.minimumContributionCached ax ts kd ins) := by
  unfold GItem.minimumContributionCached
  rw [gi_minimumContributionCache, sget_scale]
  cases h : sget it.minimumContributionCache ax with
  | some v => exact GSim.pure rfl
  | none =>
    refine GSim.bind (minimumContribution_sim hk it ax ts kd ins) fun r' r hr => ?_
    rw [show r' = scale k r from hr]
    obtain ⟨v, it2⟩ := r
    refine GSim.pure ?_
    show (scale k v, updMinimumC (scale k it2) ax (scale k v)) = (scale k v, scale k (updMinimumC it2 ax v))
    rw [updMinimumC_scale]

/-! ### `IntrisicSizeMeasurer` -/

theorem sizer_availableSpace_scale (k : Rat) (s : Sizer Rat) (it : GItem Rat) :
    (scale k s).availableSpace (scale k it) = scale k (s.availableSpace it) := by
  unfold Sizer.availableSpace
  rw [sz_axis, sz_otherAxisTracks, sz_innerNodeSize, sz_est, sget_scale, gi_availableSpaceCached]

theorem sizer_marginAxisSums_scale (k : Rat) (s : Sizer Rat) (it : GItem Rat) :
    (scale k s).marginAxisSums (scale k it) = scale k (s.marginAxisSums it) := by
  unfold Sizer.marginAxisSums
  rw [sz_innerNodeSize, scale_size_width, gi_marginsAxisSums]

theorem sizer_minContentContribution_sim (hk : 0 < k) (s : Sizer Rat) (it : GItem Rat) :
    GSim k (Sc k) ((scale k s).minContentContribution (scale k it)) (s.minContentContribution it) := by
  unfold Sizer.minContentContribution
  rw [sizer_availableSpace_scale]
  simp only [scale_fst, scale_snd, sz_axis, sz_innerNodeSize, sizer_marginAxisSums_scale]
  refine GSim.bind (minContentContributionCached_sim hk _ _ _ _) fun r' r hr => ?_
  rw [show r' = scale k r from hr]
  exact GSim.pure (by simp only [Sc, scale_pair, scale_fst, scale_snd, sget_scale, add_scale])

theorem sizer_maxContentContribution_sim (hk : 0 < k) (s : Sizer Rat) (it : GItem Rat) :
    GSim k (Sc k) ((scale k s).maxContentContribution (scale k it)) (s.maxContentContribution it) := by
  unfold Sizer.maxContentContribution
  rw [sizer_availableSpace_scale]
  simp only [scale_fst, scale_snd, sz_axis, sz_innerNodeSize, sizer_marginAxisSums_scale]
  refine GSim.bind (maxContentContributionCached_sim hk _ _ _ _) fun r' r hr => ?_
  rw [show r' = scale k r from hr]
  exact GSim.pure (by simp only [Sc, scale_pair, scale_fst, scale_snd, sget_scale, add_scale])

theorem sizer_minimumContribution_sim (hk : 0 < k) (s : Sizer Rat) (it : GItem Rat) (ts : List (GridTrack Rat)) :
    GSim k (Sc k) ((scale k s).minimumContribution (scale k it) (scale k ts)) (s.minimumContribution it ts) := by
  unfold Sizer.minimumContribution
  rw [sizer_availableSpace_scale]
  simp only [scale_fst, scale_snd, sz_axis, sz_innerNodeSize, sizer_marginAxisSums_scale]
  refine GSim.bind (minimumContributionCached_sim hk _ _ _ _ _) fun r' r hr => ?_
  rw [show r' = scale k r from hr]
  exact GSim.pure (by simp only [Sc, scale_pair, scale_fst, scale_snd, sget_scale, add_scale])

/-! ### the span-1 path -/

theorem minimumSpaceM_sim (hk : 0 < k) (s : Sizer Rat) (avail : AvailableSpace Rat) (it : GItem Rat)
    (ts : List (GridTrack Rat)) (limit' limit : GItem Rat → Option Rat)
    (hl : ∀ x, limit' (scale k x) = scale k (limit x)) :
    GSim k (Sc k) (minimumSpaceM (scale k s) (scale k avail) (scale k it) (scale k ts) limit')
      (minimumSpaceM s avail it ts limit) := by
  have hgen : GSim k (Sc k)
      (if (!(scale k it).scroll (scale k s).axis) = true then
        (scale k s).minimumContribution (scale k it) (scale k ts) >>= fun r =>
          (scale k s).minContentContribution r.2 >>= fun q =>
            pure (Num.fmax (MaybeMath.fo_min q.1 (limit' q.2)) r.1, q.2)
       else (scale k s).minimumContribution (scale k it) (scale k ts))
      (if (!it.scroll s.axis) = true then
        s.minimumContribution it ts >>= fun r => s.minContentContribution r.2 >>= fun q =>
          pure (Num.fmax (MaybeMath.fo_min q.1 (limit q.2)) r.1, q.2)
       else s.minimumContribution it ts) := by
    rw [sz_axis, gi_scroll]
    refine GSim.ite ?_ ?_
    · refine GSim.bind (sizer_minimumContribution_sim hk s it ts) fun r' r hr => ?_
      rw [show r' = scale k r from hr, scale_snd]
      refine GSim.bind (sizer_minContentContribution_sim hk s r.2) fun q' q hq => ?_
      rw [show q' = scale k q from hq]
      exact GSim.pure (by simp only [Sc, scale_pair, scale_fst, scale_snd, hl, fo_min_scale hk, fmax_scale hk])
    · exact sizer_minimumContribution_sim hk s it ts
  cases avail with
  | definite v => exact sizer_minimumContribution_sim hk s it ts
  | minContent => exact hgen
  | maxContent => exact hgen

theorem gt_setBase' (k : Rat) (t : GridTrack Rat) (v : Rat) :
    ({ scale k t with baseSize := scale k v } : GridTrack Rat) = scale k { t with baseSize := v } := rfl
theorem gt_setGLPI (k : Rat) (t : GridTrack Rat) (v : Rat) :
    ({ scale k t with growthLimitPlannedIncrease := scale k v } : GridTrack Rat) =
      scale k { t with growthLimitPlannedIncrease := v } := rfl

theorem s1Base_sim (hk : 0 < k) (s : Sizer Rat) (avail : AvailableSpace Rat) (axisInner : Option Rat) (it : GItem Rat)
    (ts : List (GridTrack Rat)) (track : GridTrack Rat) :
    GSim k (Sc k) (s1Base (scale k s) (scale k avail) (scale k axisInner) (scale k it) (scale k ts) (scale k track))
      (s1Base s avail axisInner it ts track) := by
  unfold s1Base
  rw [gt_minFn, gt_baseSize, gt_maxFn]
  have hmin : GSim k (Sc k)
      ((scale k s).minContentContribution (scale k it) >>= fun r => pure (Num.fmax (scale k track.baseSize) r.1, r.2))
      (s.minContentContribution it >>= fun r => pure (Num.fmax track.baseSize r.1, r.2)) := by
    refine GSim.bind (sizer_minContentContribution_sim hk s it) fun r' r hr => ?_
    rw [show r' = scale k r from hr]
    exact GSim.pure (by simp only [Sc, scale_pair, scale_fst, scale_snd, fmax_scale hk])
  cases track.minFn with
  | minContent => exact hmin
  | percent v =>
    simp only [mint_percent, isNone_scale]
    refine GSim.ite hmin ?_
    exact GSim.pure rfl
  | maxContent =>
    refine GSim.bind (sizer_maxContentContribution_sim hk s it) fun r' r hr => ?_
    rw [show r' = scale k r from hr]
    exact GSim.pure (by simp only [Sc, scale_pair, scale_fst, scale_snd, fmax_scale hk])
  | auto =>
    refine GSim.bind (minimumSpaceM_sim hk s avail it ts _ _ (fun _ => maxt_definiteLimit k _ _)) fun r' r hr => ?_
    rw [show r' = scale k r from hr]
    exact GSim.pure (by simp only [Sc, scale_pair, scale_fst, scale_snd, fmax_scale hk])
  | length v => exact GSim.pure rfl

theorem s1Growth_sim (hk : 0 < k) (s : Sizer Rat) (axisInner : Option Rat) (track : GridTrack Rat) (it : GItem Rat) :
    GSim k (Sc k) (s1Growth (scale k s) (scale k axisInner) (scale k track) (scale k it))
      (s1Growth s axisInner track it) := by
  unfold s1Growth
  simp only [gt_maxFn, maxt_isFitContent, maxt_isMaxContentAlike, maxt_usesPercentage, maxt_isIntrinsic, isNone_scale,
    sz_axis, gi_scroll, gt_growthLimitPlannedIncrease]
  refine GSim.ite ?_ (GSim.ite ?_ (GSim.ite ?_ ?_))
  · refine GSim.bind (Q := Sc k) ?_ fun r' r hr => ?_
    · refine GSim.ite ?_ ?_
      · refine GSim.bind (sizer_minContentContribution_sim hk s it) fun r' r hr => ?_
        rw [show r' = scale k r from hr]
        refine GSim.pure ?_
        simp only [scale_fst, scale_snd, fmax_scale hk]
        rfl
      · exact GSim.pure rfl
    · rw [show r' = scale k r from hr]
      obtain ⟨tr, it2⟩ := r
      simp only [scale_pair]
      refine GSim.bind (sizer_maxContentContribution_sim hk s it2) fun q' q hq => ?_
      rw [show q' = scale k q from hq]
      refine GSim.pure ?_
      simp only [scale_fst, scale_snd, gt_fitContentLimit, ext_minF hk, gt_growthLimitPlannedIncrease, fmax_scale hk]
      rfl
  · refine GSim.bind (sizer_maxContentContribution_sim hk s it) fun r' r hr => ?_
    rw [show r' = scale k r from hr]
    refine GSim.pure ?_
    simp only [scale_fst, scale_snd, fmax_scale hk]
    rfl
  · refine GSim.bind (sizer_minContentContribution_sim hk s it) fun r' r hr => ?_
    rw [show r' = scale k r from hr]
    refine GSim.pure ?_
    simp only [scale_fst, scale_snd, fmax_scale hk]
    rfl
  · exact GSim.pure rfl

theorem set_scale_list {β : Type} [Scalable β] (k : Rat) (l : List β) (i : Nat) (x : β) :
    (scale k l).set i (scale k x) = scale k (l.set i x) := by
  simp only [scale_list, List.map_set]

theorem sizeSpanOneItemM_sim (hk : 0 < k) (s : Sizer Rat) (avail : AvailableSpace Rat) (axisInner : Option Rat)
    (it : GItem Rat) (ts : List (GridTrack Rat)) :
    GSim k (Sc k) (sizeSpanOneItemM (scale k s) (scale k avail) (scale k axisInner) (scale k it) (scale k ts))
      (sizeSpanOneItemM s avail axisInner it ts) := by
  rw [sizeSpanOneItemM_eq, sizeSpanOneItemM_eq, sz_axis, gi_placementIndexes, getElem?_scale_list]
  cases ts[(it.placementIndexes s.axis).start + 1]? with
  | none => exact GSim.throw _
  | some track =>
    simp only [scale_some]
    refine GSim.bind (s1Base_sim hk s avail axisInner it ts track) fun r' r hr => ?_
    rw [show r' = scale k r from hr, scale_fst, scale_snd, gt_setBase']
    refine GSim.bind (s1Growth_sim hk s axisInner _ r.2) fun q' q hq => ?_
    rw [show q' = scale k q from hq]
    exact GSim.pure (by simp only [Sc, scale_pair, scale_fst, scale_snd, set_scale_list])

end C04
