/-
  C12 — the three abs-pos copies (Model/AbsPos.lean): switching the absolutely positioned child's style between an
  eligible content-box style and its border-box description changes nothing in the `Layout` written for the child,
  whatever the child answers.
-/
import TaffyVerif.Lemmas.BoxSizing
import TaffyVerif.Model.AbsPos

namespace C12L
open BoxSizingModel AbsPos

variable {s : Style Rat} {m : Bool}

theorem absScrollbarSize_tbb : scrollbarSize (toBorderBox m s) = scrollbarSize s := rfl

/-! ### block.rs -/

theorem blockResolve_tbb (h : Eligible s) (a : BlockArgs Rat) : blockResolve a (toBorderBox m s) = blockResolve a s := by
  simp only [blockResolve, tbb_aspectRatio, tbb_margin, tbb_padding, tbb_border, tbb_boxSizing, tbb_inset,
    tbb_size, tbb_minSize, tbb_maxSize, h.boxSizing, h.aspectRatio, beq_cb_cb, beq_bb_cb, if_true,
    Bool.false_eq_true, if_false, padding_resolve h, border_resolve h, pbSum_fold, aspect_none, size_resolve h,
    minSize_resolve h, maxSize_resolve h, of_add_zero]

theorem absBlock_site (h : Eligible s) (m : Bool) (a : BlockArgs Rat) (oracle : Oracle Rat) :
    absBlock a s oracle = absBlock a (toBorderBox m s) oracle := by
  simp only [absBlock, blockResolve_tbb h, tbb_aspectRatio, absScrollbarSize_tbb]

/-! ### flexbox.rs -/

theorem flexResolve_tbb (h : Eligible s) (a : FlexArgs Rat) : flexResolve a (toBorderBox m s) = flexResolve a s := by
  simp only [flexResolve, tbb_aspectRatio, tbb_margin, tbb_padding, tbb_border, tbb_boxSizing, tbb_inset,
    tbb_alignSelf, tbb_size, tbb_minSize, tbb_maxSize, h.boxSizing, h.aspectRatio, beq_cb_cb, beq_bb_cb, if_true,
    Bool.false_eq_true, if_false, padding_resolve h, border_resolve h, pbSum_fold, aspect_none, size_resolve h,
    minSize_resolve h, maxSize_resolve h, of_add_zero]

theorem absFlex_site (h : Eligible s) (m : Bool) (a : FlexArgs Rat) (oracle : Oracle Rat) :
    absFlex a s oracle = absFlex a (toBorderBox m s) oracle := by
  simp only [absFlex, flexResolve_tbb h, tbb_aspectRatio, absScrollbarSize_tbb]

/-! ### grid/alignment.rs -/

theorem gridResolve_tbb (h : Eligible s) (a : GridArgs Rat) : gridResolve a (toBorderBox m s) = gridResolve a s := by
  simp only [gridResolve, tbb_aspectRatio, tbb_margin, tbb_padding, tbb_border, tbb_boxSizing, tbb_inset,
    tbb_alignSelf, tbb_justifySelf, tbb_size, tbb_minSize, tbb_maxSize, h.boxSizing, h.aspectRatio, beq_cb_cb,
    beq_bb_cb, if_true, Bool.false_eq_true, if_false, padding_resolve h, border_resolve h, pbSum_fold, aspect_none,
    size_resolve h, minSize_resolve h, maxSize_resolve h, of_add_zero]

theorem absGrid_site (h : Eligible s) (m : Bool) (a : GridArgs Rat) (oracle : Oracle Rat) :
    absGrid a s oracle = absGrid a (toBorderBox m s) oracle := by
  simp only [absGrid, gridResolve_tbb h, tbb_aspectRatio, tbb_position, tbb_justifySelf, tbb_alignSelf,
    absScrollbarSize_tbb]

/-! ### the call sites (container's own style): `compute_flexbox_layout`'s known dimensions and the arguments the
three containers hand to the abs-pos pass -/

theorem blockCallSite_tbb (cst : Style Rat) (outer : Size Rat) (order : Nat) :
    blockCallSite (toBorderBox m cst) outer order = blockCallSite cst outer order := rfl

theorem flexCallSite_tbb (cst : Style Rat) (ps kd : Size (Option Rat)) (cs : Size Rat) (order : Nat) :
    flexCallSite (toBorderBox m cst) ps kd cs order = flexCallSite cst ps kd cs order := rfl

theorem gridCallSite_tbb (cst : Style Rat) (ps : Size (Option Rat)) (bb : Size Rat) (order : Nat) :
    gridCallSite (toBorderBox m cst) ps bb order = gridCallSite cst ps bb order := rfl

/-- flexbox.rs l.169–209 (`compute_flexbox_layout`'s own adjustment; note `pb_sum` is associated differently there) -/
theorem flexStyledKnown_site (h : Eligible s) (m : Bool) (ps : Size (Option Rat)) :
    flexStyledKnownDimensions s ps = flexStyledKnownDimensions (toBorderBox m s) ps := by
  simp only [flexStyledKnownDimensions, tbb_aspectRatio, tbb_padding, tbb_border, tbb_boxSizing,
    tbb_size, tbb_minSize, tbb_maxSize, h.boxSizing, h.aspectRatio, beq_cb_cb, beq_bb_cb, if_true,
    Bool.false_eq_true, if_false, padding_resolve h, border_resolve h, pbSum_fold', aspect_none, size_resolve h,
    minSize_resolve h, maxSize_resolve h, of_add_zero]

end C12L
